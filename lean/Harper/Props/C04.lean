import Harper.Lemmas.Mask
/-!
# C04 — only prose is checked, and it is located at its true position in the file

What is proved here is the *offset glue* between a third-party parser (or a line convention) and
Harper's char-indexed tokens, with the third-party outputs as universally quantified data:

* `byteToChar_exact`     tree-sitter byte ranges → char spans (`byte_spans_to_char_spans`);
* `pushAllowed_maintains`, `pushAllowed_panics_iff`, `mergeWhitespaceSep_maintains`  the `Mask`
  invariant (sorted, disjoint, in bounds);
* `maskParse_inbounds_sorted`, `maskParse_faithful`   `parsers::Mask::parse`;
* `withoutInitiators_wf`, `unitParse_faithful`        comment leaders, per-line offsets;
* `unitParse_exact`, `unitParse_tokens_iff`, `unitParse_fenced_lines_silent`, `unit_closing_fence_parsed`,
  `unitParse_no_fence_complete`   `Unit::parse` and code fences: which lines reach the inner parser;
* `parseInlineTag_terminates`, `markInlineTags_terminates`   the JSDoc inline-tag scanner;
* `javadocMark_spec`, `javadocMark_last_window`       the JavaDoc `@tag argument` loop;
* `lhsMask_safe`, `lhsMask_classifies`                the Literate Haskell masker;
* `gitCommit_prefix`                                  the commit-message cut;
* `offsetCursor_exact`, `markdownOffsets_exact`       the Typst cursor and Markdown's
  `traversed_bytes/traversed_chars` pair.

What a grammar calls a comment, what pulldown-cmark calls a paragraph, and the Typst translator are
*not* modelled: they are explored against generator ground truth by the harness (`c04.rs`).
-/
namespace Harper.C04
open Harper

/-! ## (a) byte ranges → char spans -/

/-- For byte ranges that — after the sort and the `retain` step — are the byte offsets of an
increasing, pairwise disjoint list of *character* ranges `cs` of a well-formed UTF-8 text (given as
per-character byte groups), `byte_spans_to_char_spans` does not panic and returns exactly those
character ranges; they are in bounds, well-formed, increasing and disjoint. -/
theorem byteToChar_exact (gs : List (List Nat)) (hwf : ∀ g ∈ gs, WFGroup g) (spans : List Span)
    (cs : List (Nat × Nat)) (hret : retainStep (sortByStart spans) = cs.map (toByteSpan gs))
    (hc : CharChain gs.length 0 cs) :
    byteSpansToCharSpans gs.flatten spans = .ok (cs.map toCharSpan) ∧
      (∀ s ∈ cs.map toCharSpan, s.start ≤ s.stop ∧ s.stop ≤ gs.length) ∧
      (cs.map toCharSpan).Pairwise (fun x y => x.stop ≤ y.start) := by
  have h1 := convLoop_chain hwf cs 0 (Nat.zero_le _) hc
  rw [byteOff_zero] at h1
  obtain ⟨h2, h3⟩ := chain_pairwise gs.length cs 0 hc
  refine ⟨by unfold byteSpansToCharSpans; rw [hret]; exact h1, ?_, h3⟩
  intro s hs
  obtain ⟨p, hp, rfl⟩ := List.mem_map.mp hs
  have := h2 p hp
  simp [toCharSpan]; omega

/-- ranges that arrive already sorted and disjoint pass the sort and the `retain` step unchanged -/
theorem byteToChar_exact_sorted (gs : List (List Nat)) (hwf : ∀ g ∈ gs, WFGroup g)
    (cs : List (Nat × Nat)) (hc : CharChain gs.length 0 cs) :
    byteSpansToCharSpans gs.flatten (cs.map (toByteSpan gs)) = .ok (cs.map toCharSpan) := by
  obtain ⟨h1, h2⟩ := chain_spanStartSorted gs cs 0 hc
  refine (byteToChar_exact gs hwf _ cs ?_ hc).1
  rw [sortByStart_sorted _ h1, retainStep_abutting _ h2]

/-- "aé😀b": one, two, four and one byte -/
def sampleGroups : List (List Nat) := [[97], [195, 169], [240, 159, 152, 128], [98]]

example : ∀ g ∈ sampleGroups, WFGroup g := by
  intro g hg
  simp [sampleGroups] at hg
  rcases hg with rfl | rfl | rfl | rfl <;> exact ⟨_, _, rfl, by decide, by decide⟩

/-- the same as a named fact, for the witnesses below -/
theorem sampleGroups_wf : ∀ g ∈ sampleGroups, WFGroup g := by
  intro g hg
  simp [sampleGroups] at hg
  rcases hg with rfl | rfl | rfl | rfl <;> exact ⟨_, _, rfl, by decide, by decide⟩

example : CharChain sampleGroups.length 0 [(1, 2), (2, 3)] := by simp [CharChain, sampleGroups]

/-- the ranges of `é` and `😀` (bytes 1..3 and 3..7), given out of order, with a nested duplicate -/
example : byteSpansToCharSpans sampleGroups.flatten [⟨3, 7⟩, ⟨1, 3⟩, ⟨3, 7⟩] = .ok [⟨1, 2⟩, ⟨2, 3⟩] := by
  decide

/-- a range that is not on a character boundary is a slice panic, as in Rust -/
example : byteSpansToCharSpans sampleGroups.flatten [⟨2, 3⟩] = .error .sliceOOB := by decide

/-- the `retain` step compares with the previous element of the *unfiltered* list: three ranges
nested under a retained one make the loop slice backwards (`source[10..3]`) -/
example : byteSpansToCharSpans (List.replicate 10 97) [⟨0, 10⟩, ⟨2, 3⟩, ⟨3, 10⟩] = .error .sliceOOB := by
  decide

/-- non-vacuity of byteToChar_exact -/
example : byteSpansToCharSpans sampleGroups.flatten [⟨3, 7⟩, ⟨1, 3⟩, ⟨3, 7⟩] = .ok [⟨1, 2⟩, ⟨2, 3⟩] :=
  (byteToChar_exact sampleGroups sampleGroups_wf [⟨3, 7⟩, ⟨1, 3⟩, ⟨3, 7⟩] [(1, 2), (2, 3)]
    (by decide) (by simp [CharChain, sampleGroups])).1

/-- non-vacuity of byteToChar_exact_sorted -/
example : byteSpansToCharSpans sampleGroups.flatten [⟨0, 1⟩, ⟨1, 7⟩, ⟨7, 8⟩] =
    .ok [⟨0, 1⟩, ⟨1, 3⟩, ⟨3, 4⟩] :=
  byteToChar_exact_sorted sampleGroups sampleGroups_wf [(0, 1), (1, 3), (3, 4)]
    (by simp [CharChain, sampleGroups])

/-! ## (b) the mask and the `Mask` parser -/

/-- `push_allowed` keeps the invariant when the new span does not start before the last one ends -/
theorem pushAllowed_maintains (n : Nat) (m : List Span) (a : Span) (hm : MaskOK n m)
    (ha : a.start ≤ a.stop) (hn : a.stop ≤ n) (hl : ∀ l, m.getLast? = some l → l.stop ≤ a.start) :
    ∃ m', pushAllowed m a = .ok m' ∧ MaskOK n m' :=
  let ⟨m', h1, h2, _⟩ := pushAllowed_ok hm ha hn hl
  ⟨m', h1, h2⟩

/-- … and otherwise it panics (the `assert!`), it never silently stores an overlapping span -/
theorem pushAllowed_panics_iff (m : List Span) (a : Span) :
    pushAllowed m a = .error .assertFail ↔ ∃ l, m.getLast? = some l ∧ a.start < l.stop :=
  Harper.pushAllowed_panics_iff m a

/-- `merge_whitespace_sep` terminates without panic and keeps the invariant -/
theorem mergeWhitespaceSep_maintains (isWs : Char → Bool) (src : List Char) (m : List Span)
    (hm : MaskOK src.length m) :
    ∃ m', mergeWhitespaceSep isWs src (m.length + 1) m = .ok m' ∧ MaskOK src.length m' :=
  mergeWhitespaceSep_ok isWs src (m.length + 1) m (Nat.lt_succ_self _) hm

example : MaskOK 14 [⟨0, 4⟩, ⟨5, 9⟩, ⟨10, 14⟩] := by
  refine ⟨?_, by simp⟩
  intro s hs; simp at hs; rcases hs with rfl | rfl | rfl <;> simp

/-- the test `merges_whitespace_sep` of mask/mod.rs -/
example : mergeWhitespaceSep (fun c => c == ' ' || c == '\n')
    ['w','o','r','d',' ','w','o','r','d','\n','w','o','r','d'] 4 [⟨0, 4⟩, ⟨5, 9⟩, ⟨10, 14⟩] = .ok [⟨0, 14⟩] := by
  decide

/-- non-vacuity of pushAllowed_maintains -/
example : ∃ m', pushAllowed [⟨0, 4⟩, ⟨5, 9⟩] ⟨10, 14⟩ = .ok m' ∧ MaskOK 14 m' :=
  pushAllowed_maintains 14 [⟨0, 4⟩, ⟨5, 9⟩] ⟨10, 14⟩
    ⟨by intro s hs; simp at hs; rcases hs with rfl | rfl <;> simp, by simp⟩
    (by decide) (by decide) (by intro l h; cases h; decide)
example : pushAllowed [⟨0, 4⟩, ⟨5, 9⟩] ⟨10, 14⟩ = .ok [⟨0, 4⟩, ⟨5, 9⟩, ⟨10, 14⟩] := by decide
example : pushAllowed [⟨0, 4⟩, ⟨5, 9⟩] ⟨9, 14⟩ = .ok [⟨0, 4⟩, ⟨5, 14⟩] := by decide
example : pushAllowed [⟨0, 4⟩, ⟨5, 9⟩] ⟨8, 14⟩ = .error .assertFail := by decide

/-- non-vacuity of mergeWhitespaceSep_maintains -/
example : ∃ m', mergeWhitespaceSep (fun c => c == ' ' || c == '\n')
    ['w','o','r','d',' ','w','o','r','d','\n','w','o','r','d'] 4 [⟨0, 4⟩, ⟨5, 9⟩, ⟨10, 14⟩] = .ok m' ∧
    MaskOK 14 m' :=
  mergeWhitespaceSep_maintains _ ['w','o','r','d',' ','w','o','r','d','\n','w','o','r','d']
    [⟨0, 4⟩, ⟨5, 9⟩, ⟨10, 14⟩]
    ⟨by intro s hs; simp at hs; rcases hs with rfl | rfl | rfl <;> simp, by simp⟩

/-- the loop `for span in comments_spans { mask.push_allowed(span) }` on in-bounds, increasing,
disjoint spans never trips the assertion and keeps the invariant -/
theorem pushAll_maintains (n : Nat) : ∀ (as m : List Span), MaskOK n m →
    (∀ a ∈ as, a.start ≤ a.stop ∧ a.stop ≤ n) → as.Pairwise (fun x y => x.stop ≤ y.start) →
    (∀ l, m.getLast? = some l → ∀ a ∈ as, l.stop ≤ a.start) →
    ∃ m', pushAll m as = .ok m' ∧ MaskOK n m' := by
  intro as
  induction as with
  | nil => intro m hm _ _ _; exact ⟨m, rfl, hm⟩
  | cons a as ih =>
    intro m hm hb hp hl
    have ha := hb a (by simp)
    obtain ⟨m1, h1, h2, h3⟩ := pushAllowed_ok hm ha.1 ha.2 (fun l h => hl l h a (by simp))
    obtain ⟨m', h4, h5⟩ := ih m1 h2 (fun b hb' => hb b (by simp [hb']))
      (List.pairwise_cons.mp hp).2
      (by
        intro l hlast b hb'
        rw [hlast] at h3
        have : l.stop = a.stop := by simpa using h3
        rw [this]
        exact (List.pairwise_cons.mp hp).1 b hb')
    exact ⟨m', by simp only [pushAll, h1, bind, Except.bind]; exact h4, h5⟩

/-- `TreeSitterMasker::create_mask` after the tree walk, composed: under the hypotheses of
`byteToChar_exact` (node ranges on character boundaries, disjoint after the `retain` step) the
three steps byte→char, `push_allowed`, `merge_whitespace_sep` all succeed and the mask satisfies
the invariant that `maskParse_*` assume. `src` is the text as characters (one per byte group). -/
theorem treeSitterMask_ok (isWs : Char → Bool) (gs : List (List Nat)) (hwf : ∀ g ∈ gs, WFGroup g)
    (src : List Char) (hlen : src.length = gs.length) (spans : List Span) (cs : List (Nat × Nat))
    (hret : retainStep (sortByStart spans) = cs.map (toByteSpan gs))
    (hc : CharChain gs.length 0 cs) :
    ∃ m, treeSitterMask isWs gs.flatten src spans = .ok m ∧ MaskOK src.length m := by
  obtain ⟨h1, h2, h3⟩ := byteToChar_exact gs hwf spans cs hret hc
  obtain ⟨m1, h4, h5⟩ := pushAll_maintains src.length (cs.map toCharSpan) [] (MaskOK.nil _)
    (by rw [hlen]; exact h2) h3 (by simp)
  obtain ⟨m, h6, h7⟩ := mergeWhitespaceSep_maintains isWs src m1 h5
  exact ⟨m, by simp only [treeSitterMask, h1, h4, bind, Except.bind]; exact h6, h7⟩

/-- non-vacuity of treeSitterMask_ok: "aé😀b", comment ranges `é` and `b` (bytes 1..3, 7..8) -/
example : ∃ m, treeSitterMask (fun c => c == ' ') sampleGroups.flatten ['a', 'é', '😀', 'b'] [⟨7, 8⟩, ⟨1, 3⟩] = .ok m ∧
    MaskOK 4 m :=
  treeSitterMask_ok _ sampleGroups sampleGroups_wf ['a', 'é', '😀', 'b'] (by decide) [⟨7, 8⟩, ⟨1, 3⟩]
    [(1, 2), (3, 4)] (by decide) (by simp [CharChain, sampleGroups])
example : treeSitterMask (fun c => c == ' ') sampleGroups.flatten ['a', 'é', '😀', 'b'] [⟨7, 8⟩, ⟨1, 3⟩] =
    .ok [⟨1, 2⟩, ⟨3, 4⟩] := by decide

/-- Given the mask invariant and an inner parser that keeps its tokens inside the chunk it is given
and in order, `Mask::parse` does not panic, its tokens are inside the source and ordered — within a
chunk and across chunks (the paragraph break sits in the gap). -/
theorem maskParse_inbounds_sorted (src : List Char) (mask : List Span) (inner : List Char → List Tok)
    (hm : MaskOK src.length mask) (hin : InnerOK inner) :
    ∃ toks, maskParse src mask inner = .ok toks ∧
      (∀ t ∈ toks, t.span.start ≤ t.span.stop ∧ t.span.stop ≤ src.length) ∧
      toks.Pairwise (fun a b => a.span.stop ≤ b.span.start) := by
  obtain ⟨toks, h1, h2, h3, _⟩ := maskLoop_ok src inner hin mask none 0 hm (by simp) (by simp)
  exact ⟨toks, h1, fun t ht => (h2 t ht).2, h3⟩

/-- … and every token is a paragraph break or the shifted image of an inner token of a chunk that
is the text of the file at that offset: the file's text under the token is the text the inner
parser saw (`faithful_text`). -/
theorem maskParse_faithful (src : List Char) (mask : List Span) (inner : List Char → List Tok)
    (hm : MaskOK src.length mask) (hin : InnerOK inner) :
    ∃ toks, maskParse src mask inner = .ok toks ∧ Faithful inner src toks := by
  obtain ⟨toks, h1, _, _, h4⟩ := maskLoop_ok src inner hin mask none 0 hm (by simp) (by simp)
  exact ⟨toks, h1, h4⟩

/-- what `Faithful` buys: equal text under the shifted and the original token -/
theorem faithful_text (src chunk : List Char) (off : Nat) (t : Tok)
    (hc : chunk = (src.drop off).take chunk.length) (hb : t.span.stop ≤ chunk.length) :
    slice src (t.shift off).span = slice chunk t.span :=
  Harper.faithful_text t hc hb

/-- an inner parser for the examples: one `Word` over the whole chunk -/
def spy : List Char → List Tok := fun c => if c.isEmpty then [] else [⟨⟨0, c.length⟩, .word⟩]

example : InnerOK spy := by
  intro c
  unfold spy
  split <;> simp

/-- "é😀\nx" with the two lines allowed: tokens land at char offsets, the gap is a paragraph break -/
example : maskParse ['é', '😀', '\n', 'x'] [⟨0, 2⟩, ⟨3, 4⟩] spy =
    .ok [⟨⟨0, 2⟩, .word⟩, ⟨⟨2, 3⟩, .paragraphBreak⟩, ⟨⟨3, 4⟩, .word⟩] := by decide

/-- a multi-token inner parser: `word space word` on chunks of three or more characters -/
def spy3 : List Char → List Tok := fun c =>
  if c.length < 3 then (if c.isEmpty then [] else [⟨⟨0, c.length⟩, .word⟩])
  else [⟨⟨0, 1⟩, .word⟩, ⟨⟨1, 2⟩, .space 1⟩, ⟨⟨2, c.length⟩, .word⟩]

theorem spy3_ok : InnerOK spy3 := by
  intro c
  unfold spy3
  split
  · split <;> simp
  · refine ⟨?_, by simp⟩
    intro t ht; simp at ht; rcases ht with rfl | rfl | rfl <;> simp <;> omega

theorem exMask_ok : MaskOK ['é', ' ', '😀', 'a', '\n', '/', '/', 'x', ' ', 'y', 'z'].length [⟨0, 4⟩, ⟨7, 11⟩] :=
  ⟨by intro s hs; simp at hs; rcases hs with rfl | rfl <;> simp, by simp⟩

/-- non-vacuity of maskParse_inbounds_sorted / maskParse_faithful: two allowed spans, three inner
tokens each, a multi-byte character in the first; the concrete output -/
example : ∃ toks, maskParse ['é', ' ', '😀', 'a', '\n', '/', '/', 'x', ' ', 'y', 'z'] [⟨0, 4⟩, ⟨7, 11⟩] spy3 = .ok toks ∧
    Faithful spy3 ['é', ' ', '😀', 'a', '\n', '/', '/', 'x', ' ', 'y', 'z'] toks :=
  maskParse_faithful _ _ spy3 exMask_ok spy3_ok
example : ∃ toks, maskParse ['é', ' ', '😀', 'a', '\n', '/', '/', 'x', ' ', 'y', 'z'] [⟨0, 4⟩, ⟨7, 11⟩] spy3 = .ok toks ∧
    (∀ t ∈ toks, t.span.start ≤ t.span.stop ∧ t.span.stop ≤ 11) ∧
    toks.Pairwise (fun a b => a.span.stop ≤ b.span.start) :=
  maskParse_inbounds_sorted _ _ spy3 exMask_ok spy3_ok
example : maskParse ['é', ' ', '😀', 'a', '\n', '/', '/', 'x', ' ', 'y', 'z'] [⟨0, 4⟩, ⟨7, 11⟩] spy3 =
    .ok [⟨⟨0, 1⟩, .word⟩, ⟨⟨1, 2⟩, .space 1⟩, ⟨⟨2, 4⟩, .word⟩, ⟨⟨4, 7⟩, .paragraphBreak⟩,
      ⟨⟨7, 8⟩, .word⟩, ⟨⟨8, 9⟩, .space 1⟩, ⟨⟨9, 11⟩, .word⟩] := by decide

/-- non-vacuity of faithful_text: the chunk `é😀b` sits at offset 1 of `aé😀bc` -/
example : slice ['a', 'é', '😀', 'b', 'c'] ((⟨⟨1, 3⟩, .word⟩ : Tok).shift 1).span =
    slice ['é', '😀', 'b'] (⟨1, 3⟩ : Span) :=
  faithful_text ['a', 'é', '😀', 'b', 'c'] ['é', '😀', 'b'] 1 ⟨⟨1, 3⟩, .word⟩ (by decide) (by decide)
example : slice ['a', 'é', '😀', 'b', 'c'] ((⟨⟨1, 3⟩, .word⟩ : Tok).shift 1).span = ['😀', 'b'] := by decide

/-- the mask invariant survives any filter (`CommentMasker::create_mask` filters the allowed spans) -/
theorem MaskOK_filter {n : Nat} {m : List Span} (p : Span → Bool) (h : MaskOK n m) :
    MaskOK n (m.filter p) :=
  ⟨fun s hs => h.1 s (List.mem_filter.mp hs).1, h.2.sublist List.filter_sublist⟩

/-- the loop of `Mask::parse`, exactly (any `last_allowed`) -/
theorem maskLoop_exact (src : List Char) (inner : List Char → List Tok) :
    ∀ (mask : List Span) (last : Option Span) (lo : Nat), MaskOK src.length mask →
      (∀ s ∈ mask, lo ≤ s.start) → (∀ l, last = some l → l.stop = lo) →
      ∃ brks : List (List Tok), brks.length = mask.length ∧
        (∀ b ∈ brks, b.length ≤ 1 ∧ ∀ t ∈ b, t.kind = .paragraphBreak) ∧
        maskLoop src inner last mask =
          .ok ((brks.zip mask).flatMap
            fun p => p.1 ++ (inner (slice src p.2)).map (·.shift p.2.start)) := by
  intro mask
  induction mask with
  | nil => intro _ _ _ _ _; exact ⟨[], rfl, by simp, rfl⟩
  | cons s rest ih =>
    intro last lo hm hlo hl
    have hs := hm.1 s (by simp)
    have hcont := getContent_eq s src hs.1 hs.2
    obtain ⟨brk, hbrk, hbrk1, hbrkP⟩ :=
      gapBreak_ok src last s lo hl (hlo s (by simp)) (by omega)
    have hlo' : ∀ x ∈ rest, s.stop ≤ x.start := (List.pairwise_cons.mp hm.2).1
    obtain ⟨brks, hlen, hk, hr⟩ := ih (some s) s.stop hm.tail hlo' (by intro l h; cases h; rfl)
    refine ⟨brk :: brks, by simp [hlen], ?_, ?_⟩
    · intro b hb
      rcases List.mem_cons.mp hb with rfl | hb
      · exact ⟨hbrk1, fun t ht => (hbrkP t ht).1⟩
      · exact hk b hb
    · simp only [maskLoop, hcont, hbrk, hr, bind, Except.bind, pure, Except.pure,
        List.zip_cons_cons, List.flatMap_cons, List.append_assoc]

/-- **Exactly the allowed spans.** Under the mask invariant alone (nothing is assumed of the inner
parser) the output of `Mask::parse` is, span by span in mask order, an optional `ParagraphBreak`
followed by the inner parser's tokens on `src[span]` shifted by `span.start` — each allowed span is
handed to the inner parser exactly once, and nothing else is. (`Faithful` alone would also hold of a
parser that looked outside the mask, or returned nothing.) -/
theorem maskParse_exact (src : List Char) (mask : List Span) (inner : List Char → List Tok)
    (hm : MaskOK src.length mask) :
    ∃ brks : List (List Tok), brks.length = mask.length ∧
      (∀ b ∈ brks, b.length ≤ 1 ∧ ∀ t ∈ b, t.kind = .paragraphBreak) ∧
      maskParse src mask inner =
        .ok ((brks.zip mask).flatMap
          fun p => p.1 ++ (inner (slice src p.2)).map (·.shift p.2.start)) :=
  maskLoop_exact src inner mask none 0 hm (by simp) (by simp)

/-- membership reading: a token is a paragraph break or comes from an ALLOWED span (soundness), and
every inner token of every allowed span is in the output (completeness) -/
theorem maskParse_only_allowed (src : List Char) (mask : List Span) (inner : List Char → List Tok)
    (hm : MaskOK src.length mask) :
    ∃ toks, maskParse src mask inner = .ok toks ∧
      (∀ tok ∈ toks, tok.kind = .paragraphBreak ∨
        ∃ s ∈ mask, ∃ t ∈ inner (slice src s), tok = t.shift s.start) ∧
      (∀ s ∈ mask, ∀ t ∈ inner (slice src s), t.shift s.start ∈ toks) := by
  obtain ⟨brks, hlen, hk, h⟩ := maskParse_exact src mask inner hm
  refine ⟨_, h, ?_, ?_⟩
  · intro tok ht
    obtain ⟨p, hp, ht⟩ := List.mem_flatMap.mp ht
    rcases List.mem_append.mp ht with ht | ht
    · exact Or.inl ((hk p.1 (List.of_mem_zip hp).1).2 tok ht)
    · obtain ⟨t, hti, rfl⟩ := List.mem_map.mp ht
      exact Or.inr ⟨p.2, (List.of_mem_zip hp).2, t, hti, rfl⟩
  · intro s hs t ht
    obtain ⟨i, hi, rfl⟩ := List.mem_iff_getElem.mp hs
    have hi' : i < brks.length := by omega
    apply List.mem_flatMap.mpr
    refine ⟨(brks[i], mask[i]), ?_, ?_⟩
    · have : (brks.zip mask)[i]'(by simp; omega) = (brks[i], mask[i]) := by simp
      rw [← this]; exact List.getElem_mem _
    · exact List.mem_append_right _ (List.mem_map_of_mem ht)

/-- **`ignoreMarker_drops`** (DESIGN §6 C04), over the MODEL of `CommentMasker::create_mask`
(`commentFilter` of `Model/Mask.lean`: `iter_allowed` → `get_content` → `.filter(|(_, text)| !ignore(text))`
→ `Mask::from_iter`; replayed against the real `CommentMasker` by op `cmask`). For ANY ignore condition
`ign` and any mask that satisfies the invariant: the filter never panics (neither `get_content` nor the
assertion of `from_iter`); the result is exactly the spans whose text does not satisfy `ign`, in the
order of the mask (a sublist), and is again a mask; no kept span's text satisfies `ign`; every
dropped span's does; and `Mask::parse` over the result offers a token only if it is a paragraph
break or comes from a span of the mask whose text does NOT satisfy `ign` ("no token comes from an
ignored comment") — and offers every inner token of every such span. -/
theorem ignoreMarker_drops (src : List Char) (mask : List Span) (inner : List Char → List Tok)
    (ign : List Char → Bool) (hm : MaskOK src.length mask) :
    ∃ kept, commentFilter ign src mask = .ok kept ∧
      kept = mask.filter (fun s => !ign (slice src s)) ∧
      kept.Sublist mask ∧ MaskOK src.length kept ∧
      (∀ s ∈ kept, ign (slice src s) = false) ∧
      (∀ s ∈ mask, s ∉ kept → ign (slice src s) = true) ∧
      ∃ toks, maskParse src kept inner = .ok toks ∧
        (∀ tok ∈ toks, tok.kind = .paragraphBreak ∨
          ∃ s ∈ mask, ign (slice src s) = false ∧ ∃ t ∈ inner (slice src s), tok = t.shift s.start) ∧
        (∀ s ∈ mask, ign (slice src s) = false → ∀ t ∈ inner (slice src s), t.shift s.start ∈ toks) := by
  have hk := MaskOK_filter (fun s => !ign (slice src s)) hm
  obtain ⟨toks, h, h1, h2⟩ := maskParse_only_allowed src _ inner hk
  refine ⟨_, commentFilter_eq ign src mask hm, rfl, List.filter_sublist, hk, ?_, ?_, toks, h, ?_, ?_⟩
  · intro s hs
    simpa using (List.mem_filter.mp hs).2
  · intro s hs hn
    cases hi : ign (slice src s) with
    | true => rfl
    | false => exact absurd (List.mem_filter.mpr ⟨hs, by simp [hi]⟩) hn
  · intro tok ht
    rcases h1 tok ht with h | ⟨s, hs, t, hti, rfl⟩
    · exact Or.inl h
    · have := List.mem_filter.mp hs
      exact Or.inr ⟨s, this.1, by simpa using this.2, t, hti, rfl⟩
  · intro s hs hi t ht
    exact h2 s (List.mem_filter.mpr ⟨hs, by simp [hi]⟩) t ht

/-- the statement of `ignoreMarker_drops` before the filter was part of the model (the filter written
inline as `List.filter`): a corollary -/
theorem ignoreMarker_drops_filter (src : List Char) (mask : List Span) (inner : List Char → List Tok)
    (ign : List Char → Bool) (hm : MaskOK src.length mask) :
    ∃ toks, maskParse src (mask.filter fun s => !ign (slice src s)) inner = .ok toks ∧
      ∀ tok ∈ toks, tok.kind = .paragraphBreak ∨
        ∃ s ∈ mask, ign (slice src s) = false ∧ ∃ t ∈ inner (slice src s), tok = t.shift s.start := by
  obtain ⟨kept, _, rfl, _, _, _, _, toks, h, h1, _⟩ := ignoreMarker_drops src mask inner ign hm
  exact ⟨toks, h, h1⟩

/-- … and exactly: over the filtered mask the output of `Mask::parse` is, kept span by kept span in mask
order, an optional `ParagraphBreak` followed by the inner parser's tokens on `src[span]` shifted by
`span.start` (`maskParse_exact` composed with the model of the filter) -/
theorem ignoreMarker_exact (src : List Char) (mask : List Span) (inner : List Char → List Tok)
    (ign : List Char → Bool) (hm : MaskOK src.length mask) :
    ∃ (kept : List Span) (brks : List (List Tok)), commentFilter ign src mask = .ok kept ∧
      kept = mask.filter (fun s => !ign (slice src s)) ∧ brks.length = kept.length ∧
      (∀ b ∈ brks, b.length ≤ 1 ∧ ∀ t ∈ b, t.kind = .paragraphBreak) ∧
      maskParse src kept inner =
        .ok ((brks.zip kept).flatMap
          fun p => p.1 ++ (inner (slice src p.2)).map (·.shift p.2.start)) := by
  obtain ⟨brks, h1, h2, h3⟩ := maskParse_exact src _ inner
    (MaskOK_filter (fun s => !ign (slice src s)) hm)
  exact ⟨_, brks, commentFilter_eq ign src mask hm, rfl, h1, h2, h3⟩

/-- the default `ignore_condition` of `CommentMasker::new` (the model function `ignoreCondition` that op
`cmask` runs) holds of a text iff one of the eight marker spellings occurs in it or it starts with `#!` -/
theorem ignoreCondition_spec (text : List Char) :
    ignoreCondition text = true ↔
      (∃ mk ∈ ignoreMarkers, ∃ pre post, text = pre ++ mk ++ post) ∨
      ∃ rest, text = '#' :: '!' :: rest :=
  ignoreCondition_iff text

/-- with the default condition: no kept span contains a marker or starts with `#!`, and every dropped
span does -/
theorem ignoreMarker_drops_default (src : List Char) (mask : List Span) (hm : MaskOK src.length mask) :
    ∃ kept, commentFilter ignoreCondition src mask = .ok kept ∧ kept.Sublist mask ∧
      (∀ s ∈ kept, (∀ mk ∈ ignoreMarkers, ¬ ∃ pre post, slice src s = pre ++ mk ++ post) ∧
        ¬ ∃ rest, slice src s = '#' :: '!' :: rest) ∧
      (∀ s ∈ mask, s ∉ kept → (∃ mk ∈ ignoreMarkers, ∃ pre post, slice src s = pre ++ mk ++ post) ∨
        ∃ rest, slice src s = '#' :: '!' :: rest) := by
  obtain ⟨kept, h, _, hsub, _, hk, hd, _⟩ := ignoreMarker_drops src mask (fun _ => []) ignoreCondition hm
  refine ⟨kept, h, hsub, ?_, ?_⟩
  · intro s hs
    have hf := hk s hs
    have hn : ¬ (ignoreCondition (slice src s) = true) := by simp [hf]
    rw [ignoreCondition_spec] at hn
    exact ⟨fun mk hmk hex => hn (Or.inl ⟨mk, hmk, hex⟩), fun hex => hn (Or.inr hex)⟩
  · intro s hs hn
    exact (ignoreCondition_spec _).mp (hd s hs hn)

/-- `Mask::from_iter` (the `collect()` of `CommentMasker::create_mask`): on a list that satisfies the
mask invariant the sort is the identity and the assertion holds; in general it panics exactly when two
consecutive spans of the sorted list overlap -/
theorem maskFromIter_spec (n : Nat) (m : List Span) (hm : MaskOK n m) : maskFromIter m = .ok m :=
  maskFromIter_ok hm

theorem maskFromIter_panics (spans : List Span) :
    maskFromIter spans = .error .assertFail ↔ adjacentDisjoint (sortByStart spans) = false :=
  maskFromIter_panics_iff spans

/-- `CommentMasker::create_mask` after the tree walk, composed (`commentMask`, what op `cmask` runs):
under the hypotheses of `treeSitterMask_ok` the tree-sitter mask `m` exists and satisfies the
invariant, and the comment mask is exactly the spans of `m` whose text does not satisfy the ignore
condition — a mask again. The filter looks at `m`, i.e. at the spans AFTER whitespace merging. -/
theorem commentMask_ok (ign : List Char → Bool) (isWs : Char → Bool) (gs : List (List Nat))
    (hwf : ∀ g ∈ gs, WFGroup g) (src : List Char) (hlen : src.length = gs.length) (spans : List Span)
    (cs : List (Nat × Nat)) (hret : retainStep (sortByStart spans) = cs.map (toByteSpan gs))
    (hc : CharChain gs.length 0 cs) :
    ∃ m, treeSitterMask isWs gs.flatten src spans = .ok m ∧ MaskOK src.length m ∧
      commentMask ign isWs gs.flatten src spans = .ok (m.filter fun s => !ign (slice src s)) ∧
      MaskOK src.length (m.filter fun s => !ign (slice src s)) := by
  obtain ⟨m, h1, h2⟩ := treeSitterMask_ok isWs gs hwf src hlen spans cs hret hc
  refine ⟨m, h1, h2, ?_, MaskOK_filter _ h2⟩
  simp only [commentMask, h1, bind, Except.bind]
  exact commentFilter_eq ign src m h2

/-- the marker test of the examples: the text contains `ign` -/
def hasMarker (c : List Char) : Bool :=
  (List.range c.length).any (fun i => ['i', 'g', 'n'].isPrefixOf (c.drop i))

/-- non-vacuity of maskParse_exact / ignoreMarker_drops: of the two comments `ab ign` and `x y` only
the second reaches the inner parser -/
example : MaskOK ['a', 'b', ' ', 'i', 'g', 'n', '\n', 'x', ' ', 'y'].length [⟨0, 6⟩, ⟨7, 10⟩] :=
  ⟨by intro s hs; simp at hs; rcases hs with rfl | rfl <;> simp, by simp⟩
example : maskParse ['a', 'b', ' ', 'i', 'g', 'n', '\n', 'x', ' ', 'y']
    ([⟨0, 6⟩, ⟨7, 10⟩].filter fun s => !hasMarker (slice ['a', 'b', ' ', 'i', 'g', 'n', '\n', 'x', ' ', 'y'] s)) spy3 =
    .ok [⟨⟨7, 8⟩, .word⟩, ⟨⟨8, 9⟩, .space 1⟩, ⟨⟨9, 10⟩, .word⟩] := by decide
/-- … the theorems applied to concrete data (hypothesis `MaskOK` met by a two-span mask) -/
example : ∃ toks, maskParse ['é', ' ', '😀', 'a', '\n', '/', '/', 'x', ' ', 'y', 'z'] [⟨0, 4⟩, ⟨7, 11⟩] spy3 = .ok toks ∧
    (∀ tok ∈ toks, tok.kind = .paragraphBreak ∨ ∃ s ∈ [(⟨0, 4⟩ : Span), ⟨7, 11⟩],
      ∃ t ∈ spy3 (slice ['é', ' ', '😀', 'a', '\n', '/', '/', 'x', ' ', 'y', 'z'] s), tok = t.shift s.start) ∧
    (∀ s ∈ [(⟨0, 4⟩ : Span), ⟨7, 11⟩],
      ∀ t ∈ spy3 (slice ['é', ' ', '😀', 'a', '\n', '/', '/', 'x', ' ', 'y', 'z'] s), t.shift s.start ∈ toks) :=
  maskParse_only_allowed _ _ spy3 exMask_ok
example : ∃ toks, maskParse ['é', ' ', '😀', 'a', '\n', '/', '/', 'x', ' ', 'y', 'z']
      ([⟨0, 4⟩, ⟨7, 11⟩].filter fun s => !hasMarker (slice ['é', ' ', '😀', 'a', '\n', '/', '/', 'x', ' ', 'y', 'z'] s)) spy3 = .ok toks ∧
    ∀ tok ∈ toks, tok.kind = .paragraphBreak ∨ ∃ s ∈ [(⟨0, 4⟩ : Span), ⟨7, 11⟩],
      hasMarker (slice ['é', ' ', '😀', 'a', '\n', '/', '/', 'x', ' ', 'y', 'z'] s) = false ∧
      ∃ t ∈ spy3 (slice ['é', ' ', '😀', 'a', '\n', '/', '/', 'x', ' ', 'y', 'z'] s), tok = t.shift s.start :=
  ignoreMarker_drops_filter _ _ spy3 hasMarker exMask_ok

/-- the text of the witnesses below: `//harper:ignore é` / `x;` / `// yz` -/
def igSrc : List Char :=
  ['/', '/', 'h', 'a', 'r', 'p', 'e', 'r', ':', 'i', 'g', 'n', 'o', 'r', 'e', ' ', 'é', '\n', 'x', ';', '\n',
    '/', '/', ' ', 'y', 'z']

theorem igMask_ok : MaskOK igSrc.length [⟨0, 17⟩, ⟨21, 26⟩] :=
  ⟨by intro s hs; simp at hs; rcases hs with rfl | rfl <;> simp [igSrc], by simp⟩

/-- non-vacuity of ignoreMarker_drops / ignoreMarker_exact / ignoreMarker_drops_default: the model of the
filter with the DEFAULT condition on a two-comment mask (multi-byte text in the ignored comment) -/
example : ∃ kept, commentFilter ignoreCondition igSrc [⟨0, 17⟩, ⟨21, 26⟩] = .ok kept ∧
    kept = [(⟨0, 17⟩ : Span), ⟨21, 26⟩].filter (fun s => !ignoreCondition (slice igSrc s)) ∧
    kept.Sublist [⟨0, 17⟩, ⟨21, 26⟩] ∧ MaskOK igSrc.length kept ∧
    (∀ s ∈ kept, ignoreCondition (slice igSrc s) = false) ∧
    (∀ s ∈ [(⟨0, 17⟩ : Span), ⟨21, 26⟩], s ∉ kept → ignoreCondition (slice igSrc s) = true) ∧
    ∃ toks, maskParse igSrc kept spy3 = .ok toks ∧
      (∀ tok ∈ toks, tok.kind = .paragraphBreak ∨ ∃ s ∈ [(⟨0, 17⟩ : Span), ⟨21, 26⟩],
        ignoreCondition (slice igSrc s) = false ∧ ∃ t ∈ spy3 (slice igSrc s), tok = t.shift s.start) ∧
      (∀ s ∈ [(⟨0, 17⟩ : Span), ⟨21, 26⟩], ignoreCondition (slice igSrc s) = false →
        ∀ t ∈ spy3 (slice igSrc s), t.shift s.start ∈ toks) :=
  ignoreMarker_drops igSrc _ spy3 ignoreCondition igMask_ok
example : commentFilter ignoreCondition igSrc [⟨0, 17⟩, ⟨21, 26⟩] = .ok [⟨21, 26⟩] := by decide
example : maskParse igSrc [⟨21, 26⟩] spy3 =
    .ok [⟨⟨21, 22⟩, .word⟩, ⟨⟨22, 23⟩, .space 1⟩, ⟨⟨23, 26⟩, .word⟩] := by decide
example : ∃ (kept : List Span) (brks : List (List Tok)),
    commentFilter ignoreCondition igSrc [⟨0, 17⟩, ⟨21, 26⟩] = .ok kept ∧
    kept = [(⟨0, 17⟩ : Span), ⟨21, 26⟩].filter (fun s => !ignoreCondition (slice igSrc s)) ∧
    brks.length = kept.length ∧ (∀ b ∈ brks, b.length ≤ 1 ∧ ∀ t ∈ b, t.kind = .paragraphBreak) ∧
    maskParse igSrc kept spy3 =
      .ok ((brks.zip kept).flatMap fun p => p.1 ++ (spy3 (slice igSrc p.2)).map (·.shift p.2.start)) :=
  ignoreMarker_exact igSrc _ spy3 ignoreCondition igMask_ok
example : ∃ kept, commentFilter ignoreCondition igSrc [⟨0, 17⟩, ⟨21, 26⟩] = .ok kept ∧
    kept.Sublist [⟨0, 17⟩, ⟨21, 26⟩] ∧
    (∀ s ∈ kept, (∀ mk ∈ ignoreMarkers, ¬ ∃ pre post, slice igSrc s = pre ++ mk ++ post) ∧
      ¬ ∃ rest, slice igSrc s = '#' :: '!' :: rest) ∧
    (∀ s ∈ [(⟨0, 17⟩ : Span), ⟨21, 26⟩], s ∉ kept →
      (∃ mk ∈ ignoreMarkers, ∃ pre post, slice igSrc s = pre ++ mk ++ post) ∨
      ∃ rest, slice igSrc s = '#' :: '!' :: rest) :=
  ignoreMarker_drops_default igSrc _ igMask_ok

/-- the marker table of the model: every spelling, anywhere in the text (multi-byte text around it) -/
example : ∀ mk ∈ ignoreMarkers, ignoreCondition (['/', '/', ' ', 'é'] ++ mk ++ [' ', '😀']) = true := by decide
/-- a shebang line: `#!` at the very START of the span only -/
example : ignoreCondition ['#', '!', '/', 'b', 'i', 'n'] = true := by decide
example : ignoreCondition [' ', '#', '!', '/', 'b', 'i', 'n'] = false := by decide
/-- near-misses: two spaces, another case, a spelling that is not one of the eight (`spell-check:`) -/
example : ignoreCondition ['h', 'a', 'r', 'p', 'e', 'r', ':', ' ', ' ', 'i', 'g', 'n', 'o', 'r', 'e'] = false := by decide
example : ignoreCondition ['H', 'a', 'r', 'p', 'e', 'r', ':', 'i', 'g', 'n', 'o', 'r', 'e'] = false := by decide
example : ignoreCondition ['s', 'p', 'e', 'l', 'l', '-', 'c', 'h', 'e', 'c', 'k', ':', 'i', 'g', 'n', 'o', 'r', 'e'] = false := by
  decide
/-- non-vacuity of ignoreCondition_spec (right to left): the marker `harper:ignore` inside `//harper:ignore é` -/
example : ignoreCondition (slice igSrc ⟨0, 17⟩) = true :=
  (ignoreCondition_spec _).mpr (Or.inl ⟨['h', 'a', 'r', 'p', 'e', 'r', ':', 'i', 'g', 'n', 'o', 'r', 'e'], by decide,
    ['/', '/'], [' ', 'é'], by decide⟩)

/-- `Mask::from_iter`: unsorted input is sorted, abutting spans are NOT fused (`push_allowed` would),
overlapping spans trip the assertion -/
example : maskFromIter [⟨2, 4⟩, ⟨0, 2⟩] = .ok [⟨0, 2⟩, ⟨2, 4⟩] := by decide
example : maskFromIter [⟨0, 3⟩, ⟨2, 4⟩] = .error .assertFail := by decide
/-- non-vacuity of maskFromIter_spec / maskFromIter_panics -/
example : maskFromIter [⟨0, 17⟩, ⟨21, 26⟩] = .ok [⟨0, 17⟩, ⟨21, 26⟩] := maskFromIter_spec _ _ igMask_ok
example : maskFromIter [⟨0, 3⟩, ⟨2, 4⟩] = .error .assertFail := (maskFromIter_panics _).mpr (by decide)

/-- "#!é b": one, one, two, one and one byte -/
def shGroups : List (List Nat) := [[35], [33], [195, 169], [32], [98]]

theorem shGroups_wf : ∀ g ∈ shGroups, WFGroup g := by
  intro g hg
  simp [shGroups] at hg
  rcases hg with rfl | rfl | rfl | rfl | rfl <;> exact ⟨_, _, rfl, by decide, by decide⟩

/-- non-vacuity of commentMask_ok: the node ranges `#!é` (bytes 0..4) and `b` (bytes 5..6), given out of
order; the shebang span is dropped by the default condition -/
example : ∃ m, treeSitterMask (· == '\n') shGroups.flatten ['#', '!', 'é', ' ', 'b'] [⟨5, 6⟩, ⟨0, 4⟩] = .ok m ∧
    MaskOK 5 m ∧
    commentMask ignoreCondition (· == '\n') shGroups.flatten ['#', '!', 'é', ' ', 'b'] [⟨5, 6⟩, ⟨0, 4⟩] =
      .ok (m.filter fun s => !ignoreCondition (slice ['#', '!', 'é', ' ', 'b'] s)) ∧
    MaskOK 5 (m.filter fun s => !ignoreCondition (slice ['#', '!', 'é', ' ', 'b'] s)) :=
  commentMask_ok ignoreCondition _ shGroups shGroups_wf ['#', '!', 'é', ' ', 'b'] (by decide) [⟨5, 6⟩, ⟨0, 4⟩]
    [(0, 3), (4, 5)] (by decide) (by simp [CharChain, shGroups])
example : commentMask ignoreCondition (· == '\n') shGroups.flatten ['#', '!', 'é', ' ', 'b'] [⟨5, 6⟩, ⟨0, 4⟩] =
    .ok [⟨4, 5⟩] := by decide

/-- `//harper:ignore` / `//ab` on consecutive lines -/
def mergedSrc : List Char :=
  ['/', '/', 'h', 'a', 'r', 'p', 'e', 'r', ':', 'i', 'g', 'n', 'o', 'r', 'e', '\n', '/', '/', 'a', 'b']

/-- **the filter sees the spans AFTER whitespace merging**: two line comments separated only by a line
break are one allowed span, so the marker in the first also drops the second … -/
example : treeSitterMask (fun c => c == ' ' || c == '\n') (mergedSrc.map (·.toNat)) mergedSrc [⟨0, 15⟩, ⟨16, 20⟩] =
    .ok [⟨0, 20⟩] := by decide
example : commentMask ignoreCondition (fun c => c == ' ' || c == '\n') (mergedSrc.map (·.toNat)) mergedSrc
    [⟨0, 15⟩, ⟨16, 20⟩] = .ok [] := by decide
/-- … whereas with code between them (`//harper:ignore` / `x;` / `//ab`) only the first is dropped -/
example : commentMask ignoreCondition (fun c => c == ' ' || c == '\n')
    ((mergedSrc.take 16 ++ ['x', ';', '\n'] ++ mergedSrc.drop 16).map (·.toNat))
    (mergedSrc.take 16 ++ ['x', ';', '\n'] ++ mergedSrc.drop 16) [⟨0, 15⟩, ⟨19, 23⟩] = .ok [⟨19, 23⟩] := by decide

/-! ## (c) comment leaders -/

/-- `without_initiators` never panics in `Span::new` and stays inside the line -/
theorem withoutInitiators_wf (isWs : Char → Bool) (src : List Char) :
    ∃ s, withoutInitiators isWs src = .ok s ∧ s.start ≤ s.stop ∧ s.stop ≤ src.length :=
  withoutInitiators_ok isWs src

example : withoutInitiators (· == ' ') ['/', '/', ' ', 'é', 'x', ' ', '*', '/'] = .ok ⟨3, 5⟩ := by decide
example : withoutInitiators (· == ' ') ['/', '/', '/', ' ', ' '] = .ok ⟨5, 5⟩ := by decide

/-- `Unit::parse` never panics; every token is either the line break after line `j`, at
`Σ_{j'<j}(len_j'+1) + len_j`, or the image of a token the inner parser produced at column `c` of
the stripped line `j`, landing at `Σ_{j'<j}(len_j'+1) + leader_j + c` (`UnitTokAt`); and the chunk
handed to the inner parser is the text of the file at that offset (`Faithful`). -/
theorem unitParse_faithful (isWs : Char → Bool) (src : List Char) (inner : List Char → List Tok) :
    ∃ toks, unitParse isWs src inner = .ok toks ∧ Faithful inner src toks ∧
      ∀ tok ∈ toks, UnitTokAt isWs inner (splitNl src) 0 tok := by
  have := unitLoop_ok isWs inner src (splitNl src) [] false (splitNl_ne_nil src)
    (by simp [joinNl_splitNl])
  simpa [unitParse] using this

/-- "// é\n  * 😀 x": the second line's tokens land after 5 characters of line one and its leader -/
example : unitParse (fun c => c == ' ') ['/', '/', ' ', 'é', '\n', ' ', ' ', '*', ' ', '😀', ' ', 'x'] spy =
    .ok [⟨⟨3, 4⟩, .word⟩, ⟨⟨4, 5⟩, .newline 1⟩, ⟨⟨9, 12⟩, .word⟩] := by decide

/-- a fenced block inside a comment: the line between the fences yields no tokens; the CLOSING fence
line is not "in the fence" any more and is handed to the inner parser like any other line (as in
`Unit::parse`: the flag is flipped before it is tested) -/
example : unitParse (fun c => c == ' ' || c == '\n') ['/', '/', ' ', 'a', '\n', '/', '/', ' ', '`', '`', '`', '\n', '/', '/', ' ', 'b', '\n',
    '/', '/', ' ', '`', '`', '`', '\n', '/', '/', ' ', 'c'] spy =
    .ok [⟨⟨3, 4⟩, .word⟩, ⟨⟨4, 5⟩, .newline 1⟩, ⟨⟨20, 23⟩, .word⟩, ⟨⟨23, 24⟩, .newline 1⟩,
      ⟨⟨27, 28⟩, .word⟩] := by decide

/-! ## JSDoc inline tags -/

/-- `parse_inline_tag` terminates (never out of fuel with `fuel = len + 1`) and a reported tag ends
inside the slice -/
theorem parseInlineTag_terminates (ks : List Kind) :
    ∃ r, parseInlineTag (ks.length + 1) ks = .ok r ∧ ∀ p, r = some p → p ≤ ks.length := by
  obtain ⟨r, h1, h2⟩ := parseInlineTag_ok ks (ks.length + 1) (Nat.lt_succ_self _)
  exact ⟨r, h1, fun p hp => (h2 p hp).2⟩

/-- `mark_inline_tags` terminates and neither adds nor drops tokens -/
theorem markInlineTags_terminates (toks : List Tok) :
    ∃ r, markInlineTags (toks.length + 1) toks 0 = .ok r ∧ r.length = toks.length :=
  markInlineTags_ok (toks.length + 1) toks 0 (Nat.zero_le _) (by omega)

/-- the unterminated `{@link` that used to hang: now `None` -/
example : parseInlineTag 4 [.punct .OpenCurly, .punct .At, .word] = .ok none := by decide
example : parseInlineTag 6 [.punct .OpenCurly, .punct .At, .word, .space 1, .word, .punct .CloseCurly, .word] =
    .ok (some 6) := by decide

/-- an inner parser for the examples: one token per character (`{ } @ *`, spaces, line breaks; any
other character is a one-letter `Word`) -/
def charTok : List Char → List Tok := fun c =>
  c.zipIdx.map fun p => ⟨⟨p.2, p.2 + 1⟩,
    if p.1 = '{' then .punct .OpenCurly else if p.1 = '}' then .punct .CloseCurly
    else if p.1 = '@' then .punct .At else if p.1 = '*' then .punct .Star
    else if p.1 = ' ' then .space 1 else if p.1 = '\n' then .newline 1 else .word⟩

/-- `JsDoc::parse` never panics or runs out of fuel (leader stripping, `mark_inline_tags` per line) -/
theorem jsdocLine_total (isWs : Char → Bool) (inner : List Char → List Tok) (line : List Char) :
    ∃ r, jsdocLine isWs inner line = .ok r := by
  obtain ⟨a, ha, h1, h2⟩ := withoutInitiators_ok isWs line
  simp only [jsdocLine, ha, bind, Except.bind]
  split
  · exact ⟨_, rfl⟩
  · rw [getContent_eq a line h1 h2]
    obtain ⟨t1, ht1, _⟩ := markInlineTags_ok ((inner (slice line a)).length + 1)
      (inner (slice line a)) 0 (Nat.zero_le _) (by omega)
    simp only [ht1]
    exact ⟨_, rfl⟩

/-- … for the whole comment -/
theorem jsdocParse_total (isWs : Char → Bool) (src : List Char) (inner : List Char → List Tok) :
    ∃ r, jsdocParse isWs src inner = .ok r := by
  unfold jsdocParse
  generalize src.length = total
  generalize 0 = trav
  induction splitNl src generalizing trav with
  | nil => exact ⟨[], rfl⟩
  | cons line rest ih =>
    obtain ⟨nt, hnt⟩ := jsdocLine_total isWs inner line
    obtain ⟨r, hr⟩ := ih (trav + line.length + 1)
    simp only [jsdocLoop, hnt, hr, bind, Except.bind, pure, Except.pure]
    exact ⟨_, rfl⟩

/-- `/** a {@l é} b` / ` * @p q`: the inline tag and the block tag are Unlintable, prose keeps its
offsets on both lines -/
example : jsdocParse (fun c => c == ' ' || c == '\n')
    ['/', '*', '*', ' ', 'a', ' ', '{', '@', 'l', ' ', 'é', '}', ' ', 'b', '\n', ' ', '*', ' ', '@', 'p', ' ', 'q'] charTok =
    .ok [⟨⟨4, 5⟩, .word⟩, ⟨⟨5, 6⟩, .space 1⟩, ⟨⟨6, 7⟩, .unlintable⟩, ⟨⟨7, 8⟩, .unlintable⟩,
      ⟨⟨8, 9⟩, .unlintable⟩, ⟨⟨9, 10⟩, .unlintable⟩, ⟨⟨10, 11⟩, .unlintable⟩, ⟨⟨11, 12⟩, .unlintable⟩,
      ⟨⟨12, 13⟩, .space 1⟩, ⟨⟨13, 14⟩, .word⟩, ⟨⟨14, 15⟩, .newline 1⟩, ⟨⟨18, 19⟩, .unlintable⟩,
      ⟨⟨19, 20⟩, .unlintable⟩, ⟨⟨20, 21⟩, .unlintable⟩, ⟨⟨21, 22⟩, .unlintable⟩] := by decide

/-! ## JavaDoc block tags, Go directives -/

/-- The block-tag loop of javadoc.rs (`for i in 3..len`, reading `tokens[i-3..=i]` of the current
vector): never indexes out of bounds; keeps the number of tokens and every span; every
`At Word Space Word` window of the token list — anywhere, THE LAST FOUR TOKENS INCLUDED — ends up
Unlintable; and a token that was changed lies in such a window and was only made Unlintable. -/
theorem javadocMark_spec (toks : List Tok) :
    ∃ r, javadocMark toks = .ok r ∧ r.length = toks.length ∧
      (∀ (j : Nat), WindowAt toks j → ∀ (k : Nat), k < 4 → r[j + k]? = (toks[j + k]?).map unl) ∧
      (∀ (k : Nat), r[k]? = toks[k]? ∨
        (r[k]? = (toks[k]?).map unl ∧ ∃ j, j ≤ k ∧ k < j + 4 ∧ WindowAt toks j)) := by
  refine ⟨jdScan toks, javadocMark_eq toks, jdScan_length toks,
    jdScan_window _ toks rfl, ?_⟩
  intro k
  by_cases h : (jdScan toks)[k]? = toks[k]?
  · exact Or.inl h
  · right
    refine ⟨?_, jdScan_unchanged _ toks rfl k h⟩
    rcases jdScan_get _ toks rfl k with h' | h'
    · exact absurd h' h
    · exact h'

/-- in particular the last window: a comment that ends in `@throws IOException` -/
theorem javadocMark_last_window (pre : List Tok) (a b c d : Tok) (h : tagWindow a b c d = true) :
    ∃ r, javadocMark (pre ++ [a, b, c, d]) = .ok r ∧
      r.drop pre.length = [unl a, unl b, unl c, unl d] := by
  obtain ⟨r, hr, hlen, hwin, _⟩ := javadocMark_spec (pre ++ [a, b, c, d])
  have hw : WindowAt (pre ++ [a, b, c, d]) pre.length := ⟨a, b, c, d, [], by simp, h⟩
  refine ⟨r, hr, ?_⟩
  apply List.ext_getElem?
  intro k
  by_cases hk : k < 4
  · have := hwin pre.length hw k hk
    rw [List.getElem?_drop, this, List.getElem?_append_right (by omega)]
    have : pre.length + k - pre.length = k := by omega
    rw [this]
    match k, hk with
    | 0, _ => rfl
    | 1, _ => rfl
    | 2, _ => rfl
    | 3, _ => rfl
  · rw [List.getElem?_eq_none (by simp [hlen]; omega), List.getElem?_eq_none (by simp; omega)]

def atT (s : Nat) : Tok := ⟨⟨s, s + 1⟩, .punct .At⟩
def wordT (s e : Nat) : Tok := ⟨⟨s, e⟩, .word⟩
def spaceT (s : Nat) : Tok := ⟨⟨s, s + 1⟩, .space 1⟩

example : tagWindow (atT 0) (wordT 1 4) (spaceT 4) (wordT 5 11) = true := by decide

/-- `/** @see Reader */`: exactly four tokens, all masked -/
example : javadocMark [atT 0, wordT 1 4, spaceT 4, wordT 5 11] =
    .ok [unl (atT 0), unl (wordT 1 4), unl (spaceT 4), unl (wordT 5 11)] := by decide

/-- `… fox\n@throws IOException` as the end of a comment: the last window is masked, the prose
before it is not -/
example : javadocMark [wordT 0 3, ⟨⟨3, 4⟩, .newline 1⟩, atT 4, wordT 5 11, spaceT 11, wordT 12 23] =
    .ok [wordT 0 3, ⟨⟨3, 4⟩, .newline 1⟩, unl (atT 4), unl (wordT 5 11), unl (spaceT 11), unl (wordT 12 23)] := by
  decide

/-- `@deprecated` alone (no argument) is not a window: left as it is -/
example : javadocMark [atT 0, wordT 1 11] = .ok [atT 0, wordT 1 11] := by decide

/-- Go: `//go:x` followed by an empty comment line: the start is moved past the end; before fix
`Span::try_get_content no longer underflows on an inverted span` this panicked in builds with
overflow checks (`Span::len` underflow); now the block yields no tokens -/
example : goParse (fun c => c == ' ' || c == '\n') ['/', '/', 'g', 'o', ':', 'x', '\n', '/', '/'] spy =
    .ok [] := by decide
/-- a directive block yields no tokens, whatever follows the directive -/
example : goParse (fun c => c == ' ' || c == '\n')
    ['/', '/', 'g', 'o', ':', 'x', '\n', '/', '/', ' ', 'a', 'b'] spy = .ok [] := by decide
example : goParse (fun c => c == ' ' || c == '\n') ['/', '/', ' ', 'a', 'b'] spy =
    .ok [⟨⟨3, 5⟩, .word⟩] := by decide

/-- `JavaDoc::parse` never panics: delimiters, inner parse, leader removal, inline tags, block tags;
the result has as many tokens as were left after the leaders were dropped -/
theorem javadocParse_total (isWs : Char → Bool) (src : List Char) (inner : List Char → List Tok) :
    ∃ a r, withoutInitiators isWs src = .ok a ∧ javadocParse isWs src inner = .ok r ∧
      r.length = (jdStrip false (inner (slice src a))).length := by
  obtain ⟨a, ha, h1, h2⟩ := withoutInitiators_ok isWs src
  obtain ⟨t2, ht2, hl2⟩ := markInlineTags_ok
    (((jdStrip false (inner (slice src a))).map (·.shift a.start)).length + 1)
    ((jdStrip false (inner (slice src a))).map (·.shift a.start)) 0 (Nat.zero_le _) (by omega)
  refine ⟨a, jdScan t2, ha, ?_, ?_⟩
  · simp only [javadocParse, ha, bind, Except.bind, getContent_eq a src h1 h2, ht2, javadocMark_eq]
  · rw [jdScan_length, hl2, List.length_map]

/-- `/** é` / ` * @s R */`: leaders stripped, the `@tag argument` window Unlintable, offsets in the
file (`actual.start` added after the inner parse) -/
example : javadocParse (fun c => c == ' ' || c == '\n')
    ['/', '*', '*', ' ', 'é', '\n', ' ', '*', ' ', '@', 's', ' ', 'R', ' ', '*', '/'] charTok =
    .ok [⟨⟨4, 5⟩, .word⟩, ⟨⟨5, 6⟩, .newline 1⟩, ⟨⟨9, 10⟩, .unlintable⟩, ⟨⟨10, 11⟩, .unlintable⟩,
      ⟨⟨11, 12⟩, .unlintable⟩, ⟨⟨12, 13⟩, .unlintable⟩] := by decide

/-- non-vacuity of javadocMark_last_window -/
example : ∃ r, javadocMark ([wordT 0 3, ⟨⟨3, 4⟩, .newline 1⟩] ++ [atT 4, wordT 5 11, spaceT 11, wordT 12 23]) = .ok r ∧
    r.drop 2 = [unl (atT 4), unl (wordT 5 11), unl (spaceT 11), unl (wordT 12 23)] :=
  javadocMark_last_window [wordT 0 3, ⟨⟨3, 4⟩, .newline 1⟩] _ _ _ _ (by decide)

/-- `Go::parse` never panics and is faithful: every token is the shifted image of an inner token of a
chunk that is the text of the file at that offset (directive or not) -/
theorem goParse_faithful (isWs : Char → Bool) (src : List Char) (inner : List Char → List Tok) :
    ∃ toks, goParse isWs src inner = .ok toks ∧ Faithful inner src toks := by
  obtain ⟨a, ha, h1, h2⟩ := withoutInitiators_ok isWs src
  have hc := getContent_eq a src h1 h2
  have hlen := slice_length a src h2
  simp only [goParse, ha, hc, bind, Except.bind]
  split
  · cases hf : src.findIdx? (· == '\n') with
    | none => exact ⟨[], rfl, Faithful.nil⟩
    | some term =>
      simp only [tryGetContent]
      by_cases hcond : (a.start + term > a.stop ∨ a.start + term ≥ (slice src a).length ∨
          a.stop > (slice src a).length)
      · rw [if_pos hcond]
        by_cases heq : (a.stop == a.start + term) = true
        · rw [if_pos heq]
          refine ⟨_, rfl, ?_⟩
          intro tok ht
          obtain ⟨t, hti, rfl⟩ := List.mem_map.mp ht
          have : a.stop = a.start + term := by simpa using heq
          exact Or.inr ⟨a.start + term, [], t, by simp, by simp; omega, hti, rfl⟩
        · rw [if_neg heq]; exact ⟨[], rfl, Faithful.nil⟩
      · rw [if_neg hcond]
        rw [hlen] at hcond
        have h0 : a.start = 0 := by omega
        refine ⟨_, rfl, ?_⟩
        intro tok ht
        obtain ⟨t, hti, rfl⟩ := List.mem_map.mp ht
        refine Or.inr ⟨a.start + term, _, t, ?_, ?_, hti, rfl⟩
        · have hsrc : src = [] ++ slice src a ++ src.drop a.stop := by
            simp [slice, h0]
          have := chunk_located [] (slice src a) (src.drop a.stop) ⟨a.start + term, a.stop⟩
            (by simp; omega) (by simp [hlen]; omega)
          rw [← hsrc] at this
          simpa [h0] using this
        · rw [slice_length _ _ (by simp [hlen]; omega)]
          simp; omega
  · refine ⟨_, rfl, ?_⟩
    intro tok ht
    obtain ⟨t, hti, rfl⟩ := List.mem_map.mp ht
    refine Or.inr ⟨a.start, slice src a, t, ?_, by omega, hti, rfl⟩
    rw [hlen]; rfl

/-- a comment block that starts with a `go:` directive (after a non-empty leader such as `//`) yields
no tokens — or, when the directive line is the whole block, whatever the inner parser makes of the
EMPTY text (`try_get_content` answers `Some(&[])` for `start == end`) -/
theorem goParse_directive (isWs : Char → Bool) (src : List Char) (inner : List Char → List Tok)
    (a : Span) (ha : withoutInitiators isWs src = .ok a) (h0 : 0 < a.start)
    (hgo : ((slice src a).take 3 == ['g', 'o', ':']) = true) :
    goParse isWs src inner = .ok [] ∨
      ∃ off, goParse isWs src inner = .ok ((inner []).map (·.shift off)) := by
  obtain ⟨a', ha', h1, h2⟩ := withoutInitiators_ok isWs src
  rw [ha] at ha'; cases ha'
  have hc := getContent_eq a src h1 h2
  have hlen := slice_length a src h2
  simp only [goParse, ha, hc, bind, Except.bind]
  rw [if_pos hgo]
  cases hf : src.findIdx? (· == '\n') with
  | none => exact Or.inl rfl
  | some term =>
    simp only [tryGetContent]
    rw [if_pos (by rw [hlen]; omega)]
    by_cases heq : (a.stop == a.start + term) = true
    · rw [if_pos heq]; exact Or.inr ⟨a.start + term, rfl⟩
    · rw [if_neg heq]; exact Or.inl rfl

example : withoutInitiators (fun c => c == ' ' || c == '\n')
    ['/', '/', 'g', 'o', ':', 'x', '\n', '/', '/', ' ', 'a', 'b'] = .ok ⟨2, 12⟩ := by decide
example : goParse (fun c => c == ' ' || c == '\n')
    ['/', '/', 'g', 'o', ':', 'x', '\n', '/', '/', ' ', 'a', 'b'] spy = .ok [] ∨
    ∃ off, goParse (fun c => c == ' ' || c == '\n')
      ['/', '/', 'g', 'o', ':', 'x', '\n', '/', '/', ' ', 'a', 'b'] spy = .ok ((spy []).map (·.shift off)) :=
  goParse_directive _ _ spy ⟨2, 12⟩ (by decide) (by decide) (by decide)

/-! ## JSDoc / JavaDoc: span-only faithfulness

`Faithful` cannot hold of these two parsers (tokens inside `{@tag …}` and after a block tag change
kind). What does hold — with NO hypothesis on the inner parser — is that the marking passes never
touch a span: the output is the inner parser's token list, token for token and in order, with kinds
kept or replaced by `Unlintable` (`Remarked`), shifted to where the stripped line / the comment body
really is in the file. -/

theorem charTok_aux (f : Char → Kind) : ∀ (c : List Char) (k : Nat),
    (∀ t ∈ (c.zipIdx k).map (fun p => (⟨⟨p.2, p.2 + 1⟩, f p.1⟩ : Tok)),
      k ≤ t.span.start ∧ t.span.stop = t.span.start + 1 ∧ t.span.stop ≤ k + c.length) ∧
    ((c.zipIdx k).map (fun p => (⟨⟨p.2, p.2 + 1⟩, f p.1⟩ : Tok))).Pairwise
      (fun a b => a.span.stop ≤ b.span.start)
  | [], k => by simp
  | x :: xs, k => by
    obtain ⟨h1, h2⟩ := charTok_aux f xs (k + 1)
    simp only [List.zipIdx_cons, List.map_cons]
    refine ⟨?_, List.pairwise_cons.mpr ⟨?_, h2⟩⟩
    · intro t ht
      rcases List.mem_cons.mp ht with rfl | ht
      · simp
      · have := h1 t ht
        simp only [List.length_cons]; omega
    · intro t ht
      have := h1 t ht
      simp only []; omega

/-- the one-token-per-character parser of the examples satisfies `InnerOK` -/
theorem charTok_ok : InnerOK charTok := by
  intro c
  obtain ⟨h1, h2⟩ := charTok_aux (fun ch =>
    if ch = '{' then .punct .OpenCurly else if ch = '}' then .punct .CloseCurly
    else if ch = '@' then .punct .At else if ch = '*' then .punct .Star
    else if ch = ' ' then .space 1 else if ch = '\n' then .newline 1 else .word) c 0
  refine ⟨?_, h2⟩
  intro t ht
  have := h1 t ht
  omega

/-- a token that was not marked `Unlintable` is exactly the inner parser's token (shifted) -/
theorem remark_unmarked (a b : Tok) (h : Remark a b) (hk : b.kind ≠ .unlintable) : b = a :=
  h.eq_of_not_unlintable hk

/-- what `SpanFaithful` buys: the text of the file under a (possibly re-marked) token is the text the
inner parser saw under the original -/
theorem span_faithful_text (src chunk : List Char) (off : Nat) (t tok : Tok)
    (hr : Remark (t.shift off) tok) (hc : chunk = (src.drop off).take chunk.length)
    (hb : t.span.stop ≤ chunk.length) : slice src tok.span = slice chunk t.span :=
  spanFaithful_text hr hc hb

/-- `Faithful` implies `SpanFaithful` (so `Mask::parse`, `Unit::parse`, `Go::parse` are span-faithful too) -/
theorem faithful_span_faithful (inner : List Char → List Tok) (src : List Char) (toks : List Tok)
    (h : Faithful inner src toks) : SpanFaithful inner src toks :=
  h.spanFaithful

/-- **`JsDoc::parse` is span-faithful.** It never panics, and its output is (`JsDocLines`, base 0): for
every line `j` of the comment, in order, the inner parser's tokens on the stripped line — the same
spans in the same order, kinds kept or `Unlintable` — shifted by `Σ_{j'<j}(len_j'+1) + leader_j`,
followed (unless `j` is the last line) by the line break at `Σ_{j'<j}(len_j'+1) + len_j`. Token by
token (`SpanFaithful`): each is such a line break or has the span of an inner token of a chunk that
is the text of the file at that offset. -/
theorem jsdocParse_span_faithful (isWs : Char → Bool) (src : List Char) (inner : List Char → List Tok) :
    ∃ toks, jsdocParse isWs src inner = .ok toks ∧ JsDocLines isWs inner (splitNl src) 0 toks ∧
      SpanFaithful inner src toks := by
  obtain ⟨toks, h1, h2⟩ := jsdocLoop_spec isWs inner src (splitNl src) [] (splitNl_ne_nil src)
    (by simp [joinNl_splitNl])
  exact ⟨toks, by simpa [jsdocParse] using h1, by simpa using h2,
    JsDocLines.spanFaithful isWs inner src (splitNl src) [] toks (splitNl_ne_nil src)
      (by simp [joinNl_splitNl]) h2⟩

/-- corollary: all offsets in bounds of the source, tokens in order (given an inner parser that keeps
its tokens inside its chunk and in order) -/
theorem jsdocParse_inbounds (isWs : Char → Bool) (src : List Char) (inner : List Char → List Tok)
    (hin : InnerOK inner) :
    ∃ toks, jsdocParse isWs src inner = .ok toks ∧
      (∀ t ∈ toks, t.span.start ≤ t.span.stop ∧ t.span.stop ≤ src.length) ∧
      toks.Pairwise (fun a b => a.span.stop ≤ b.span.start) := by
  obtain ⟨toks, h1, h2, _⟩ := jsdocParse_span_faithful isWs src inner
  obtain ⟨h3, h4⟩ := JsDocLines.inbounds isWs inner hin (splitNl src) 0 toks h2
  refine ⟨toks, h1, ?_, h4⟩
  intro t ht
  have := h3 t ht
  rw [joinNl_splitNl] at this
  omega

/-- per line: every token of `jsdoc.rs:parse_line` lies inside the stripped part `a` of its line (hence
inside the line), given `InnerOK`; `JsDocLines` then shifts the line's tokens by the line's offset -/
theorem jsdocLine_in_line (isWs : Char → Bool) (inner : List Char → List Tok) (line : List Char)
    (hin : InnerOK inner) :
    ∃ a r, withoutInitiators isWs line = .ok a ∧ jsdocLine isWs inner line = .ok r ∧ a.stop ≤ line.length ∧
      (∀ t ∈ r, a.start ≤ t.span.start ∧ t.span.start ≤ t.span.stop ∧ t.span.stop ≤ a.stop) ∧
      r.Pairwise (fun x y => x.span.stop ≤ y.span.start) := by
  obtain ⟨a, m, ha, h1, h2, hl, hrem⟩ := jsdocLine_spec isWs inner line
  have hlen := slice_length a line h2
  refine ⟨a, _, ha, hl, h2, ?_, ?_⟩
  · intro y hy
    obtain ⟨y0, hy0, rfl⟩ := List.mem_map.mp hy
    obtain ⟨x, hx, hxy⟩ := hrem.mem hy0
    by_cases he : a.isEmpty = true
    · simp [he] at hx
    · simp only [he, Bool.false_eq_true, if_false] at hx
      have := (hin (slice line a)).1 x hx
      rw [hlen] at this
      simp only [Tok.shift, Span.pushBy, hxy.1]; omega
  · apply List.Pairwise.map _ (fun x y h => by simp [Tok.shift, Span.pushBy]; omega)
    apply hrem.pairwise (R := fun x y => x.stop ≤ y.start)
    by_cases he : a.isEmpty = true
    · simp [he]
    · simp only [he, Bool.false_eq_true, if_false]; exact (hin (slice line a)).2

/-- non-vacuity of jsdocLine_in_line: ` * @p é` — stripped part 3..7, four tokens, all marked -/
example : ∃ a r, withoutInitiators (fun c => c == ' ') [' ', '*', ' ', '@', 'p', ' ', 'é'] = .ok a ∧
    jsdocLine (fun c => c == ' ') charTok [' ', '*', ' ', '@', 'p', ' ', 'é'] = .ok r ∧ a.stop ≤ 7 ∧
    (∀ t ∈ r, a.start ≤ t.span.start ∧ t.span.start ≤ t.span.stop ∧ t.span.stop ≤ a.stop) ∧
    r.Pairwise (fun x y => x.span.stop ≤ y.span.start) :=
  jsdocLine_in_line _ charTok [' ', '*', ' ', '@', 'p', ' ', 'é'] charTok_ok
example : jsdocLine (fun c => c == ' ') charTok [' ', '*', ' ', '@', 'p', ' ', 'é'] =
    .ok [⟨⟨3, 4⟩, .unlintable⟩, ⟨⟨4, 5⟩, .unlintable⟩, ⟨⟨5, 6⟩, .unlintable⟩, ⟨⟨6, 7⟩, .unlintable⟩] := by decide

/-- **`JavaDoc::parse` is span-faithful.** It never panics, and its output is the HTML parser's token
list on the comment without its delimiters, minus leaders (a sublist that loses only `*` and space
tokens), shifted by the length of the opening delimiter, with the same spans in the same order and
kinds kept or `Unlintable`; token by token it is `SpanFaithful`. -/
theorem javadocParse_span_faithful (isWs : Char → Bool) (src : List Char) (inner : List Char → List Tok) :
    ∃ a toks, withoutInitiators isWs src = .ok a ∧ javadocParse isWs src inner = .ok toks ∧
      Remarked ((jdStrip false (inner (slice src a))).map (·.shift a.start)) toks ∧
      (jdStrip false (inner (slice src a))).Sublist (inner (slice src a)) ∧
      (∀ t ∈ inner (slice src a), isStarKind t.kind = false → t.kind.isSpace = false →
        t ∈ jdStrip false (inner (slice src a))) ∧
      SpanFaithful inner src toks := by
  obtain ⟨a, toks, ha, h1, h2, hp, hr⟩ := javadocParse_spec isWs src inner
  refine ⟨a, toks, ha, hp, hr, jdStrip_sublist _ _, jdStrip_keeps _ _, ?_⟩
  intro tok ht
  obtain ⟨x, hx, hxy⟩ := hr.mem ht
  obtain ⟨t, hts, rfl⟩ := List.mem_map.mp hx
  have hlen := slice_length a src h2
  refine Or.inr ⟨a.start, slice src a, t, ?_, by omega, (jdStrip_sublist _ _).subset hts, hxy⟩
  rw [hlen]; rfl

/-- corollary: all offsets in bounds of the source, tokens in order (given `InnerOK`) -/
theorem javadocParse_inbounds (isWs : Char → Bool) (src : List Char) (inner : List Char → List Tok)
    (hin : InnerOK inner) :
    ∃ toks, javadocParse isWs src inner = .ok toks ∧
      (∀ t ∈ toks, t.span.start ≤ t.span.stop ∧ t.span.stop ≤ src.length) ∧
      toks.Pairwise (fun a b => a.span.stop ≤ b.span.start) := by
  obtain ⟨a, toks, ha, h1, h2, hp, hr⟩ := javadocParse_spec isWs src inner
  obtain ⟨hinB, hinP⟩ := hin (slice src a)
  have hlen := slice_length a src h2
  refine ⟨toks, hp, ?_, ?_⟩
  · intro y hy
    obtain ⟨x, hx, hxy⟩ := hr.mem hy
    obtain ⟨t, hts, rfl⟩ := List.mem_map.mp hx
    have := hinB t ((jdStrip_sublist _ _).subset hts)
    rw [hxy.1]
    simp [Tok.shift, Span.pushBy]; omega
  · apply hr.pairwise (R := fun x y => x.stop ≤ y.start)
    exact List.Pairwise.map _ (fun x y h => by simp [Tok.shift, Span.pushBy]; omega)
      (hinP.sublist (jdStrip_sublist _ _))

/-- the comment of the JSDoc example above: `/** a {@l é} b` / ` * @p q` -/
def jsSrc : List Char :=
  ['/', '*', '*', ' ', 'a', ' ', '{', '@', 'l', ' ', 'é', '}', ' ', 'b', '\n', ' ', '*', ' ', '@', 'p', ' ', 'q']

/-- non-vacuity of jsdocParse_span_faithful / jsdocParse_inbounds: two lines, a multi-byte character
inside an inline tag, a block tag on the second line (the concrete output is the `decide`d example
of the JSDoc section: six tokens of line one and four of line two are marked) -/
example : ∃ toks, jsdocParse (fun c => c == ' ' || c == '\n') jsSrc charTok = .ok toks ∧
    JsDocLines (fun c => c == ' ' || c == '\n') charTok (splitNl jsSrc) 0 toks ∧
    SpanFaithful charTok jsSrc toks :=
  jsdocParse_span_faithful _ jsSrc charTok
example : ∃ toks, jsdocParse (fun c => c == ' ' || c == '\n') jsSrc charTok = .ok toks ∧
    (∀ t ∈ toks, t.span.start ≤ t.span.stop ∧ t.span.stop ≤ jsSrc.length) ∧
    toks.Pairwise (fun a b => a.span.stop ≤ b.span.start) :=
  jsdocParse_inbounds _ jsSrc charTok charTok_ok
example : jsdocParse (fun c => c == ' ' || c == '\n') jsSrc charTok =
    .ok [⟨⟨4, 5⟩, .word⟩, ⟨⟨5, 6⟩, .space 1⟩, ⟨⟨6, 7⟩, .unlintable⟩, ⟨⟨7, 8⟩, .unlintable⟩,
      ⟨⟨8, 9⟩, .unlintable⟩, ⟨⟨9, 10⟩, .unlintable⟩, ⟨⟨10, 11⟩, .unlintable⟩, ⟨⟨11, 12⟩, .unlintable⟩,
      ⟨⟨12, 13⟩, .space 1⟩, ⟨⟨13, 14⟩, .word⟩, ⟨⟨14, 15⟩, .newline 1⟩, ⟨⟨18, 19⟩, .unlintable⟩,
      ⟨⟨19, 20⟩, .unlintable⟩, ⟨⟨20, 21⟩, .unlintable⟩, ⟨⟨21, 22⟩, .unlintable⟩] := by decide
/-- … the text under the marked token `é` (file offset 10) is the text the inner parser saw at column 6
of the stripped line -/
example : slice jsSrc (⟨⟨10, 11⟩, .unlintable⟩ : Tok).span =
    slice ['a', ' ', '{', '@', 'l', ' ', 'é', '}', ' ', 'b'] (⟨6, 7⟩ : Span) :=
  span_faithful_text jsSrc ['a', ' ', '{', '@', 'l', ' ', 'é', '}', ' ', 'b'] 4 ⟨⟨6, 7⟩, .word⟩
    ⟨⟨10, 11⟩, .unlintable⟩ ⟨rfl, Or.inr rfl⟩ (by decide) (by decide)
/-- non-vacuity of remark_unmarked / faithful_span_faithful -/
example : (⟨⟨4, 5⟩, .word⟩ : Tok) = (⟨⟨0, 1⟩, .word⟩ : Tok).shift 4 :=
  remark_unmarked _ _ ⟨rfl, Or.inl rfl⟩ (by decide)
example : ∃ toks, unitParse (fun c => c == ' ') ['/', '/', ' ', 'é', '\n', ' ', ' ', '*', ' ', '😀', ' ', 'x'] spy = .ok toks ∧
    SpanFaithful spy ['/', '/', ' ', 'é', '\n', ' ', ' ', '*', ' ', '😀', ' ', 'x'] toks := by
  obtain ⟨toks, h, hf, _⟩ := unitParse_faithful (fun c => c == ' ')
    ['/', '/', ' ', 'é', '\n', ' ', ' ', '*', ' ', '😀', ' ', 'x'] spy
  exact ⟨toks, h, faithful_span_faithful _ _ _ hf⟩

/-- the comment of the JavaDoc example above: `/** é` / ` * @s R */` -/
def jdSrc : List Char :=
  ['/', '*', '*', ' ', 'é', '\n', ' ', '*', ' ', '@', 's', ' ', 'R', ' ', '*', '/']

/-- non-vacuity of javadocParse_span_faithful / javadocParse_inbounds: leaders (` * `) dropped after
the line break, the `@s R` window marked, a multi-byte character before it -/
example : ∃ a toks, withoutInitiators (fun c => c == ' ' || c == '\n') jdSrc = .ok a ∧
    javadocParse (fun c => c == ' ' || c == '\n') jdSrc charTok = .ok toks ∧
    Remarked ((jdStrip false (charTok (slice jdSrc a))).map (·.shift a.start)) toks ∧
    (jdStrip false (charTok (slice jdSrc a))).Sublist (charTok (slice jdSrc a)) ∧
    (∀ t ∈ charTok (slice jdSrc a), isStarKind t.kind = false → t.kind.isSpace = false →
      t ∈ jdStrip false (charTok (slice jdSrc a))) ∧
    SpanFaithful charTok jdSrc toks :=
  javadocParse_span_faithful _ jdSrc charTok
example : ∃ toks, javadocParse (fun c => c == ' ' || c == '\n') jdSrc charTok = .ok toks ∧
    (∀ t ∈ toks, t.span.start ≤ t.span.stop ∧ t.span.stop ≤ jdSrc.length) ∧
    toks.Pairwise (fun a b => a.span.stop ≤ b.span.start) :=
  javadocParse_inbounds _ jdSrc charTok charTok_ok
example : withoutInitiators (fun c => c == ' ' || c == '\n') jdSrc = .ok ⟨4, 13⟩ := by decide
example : javadocParse (fun c => c == ' ' || c == '\n') jdSrc charTok =
    .ok [⟨⟨4, 5⟩, .word⟩, ⟨⟨5, 6⟩, .newline 1⟩, ⟨⟨9, 10⟩, .unlintable⟩, ⟨⟨10, 11⟩, .unlintable⟩,
      ⟨⟨11, 12⟩, .unlintable⟩, ⟨⟨12, 13⟩, .unlintable⟩] := by decide

/-! ## (d) Literate Haskell -/

/-- the masker never panics (`Span::new`, the `push_allowed` assertion, the slices of
`merge_whitespace_sep`) and returns a mask satisfying the invariant — for every text -/
theorem lhsMask_safe (isWs : Char → Bool) (text code : Bool) (src : List Char) :
    ∃ m, lhsMask isWs text code src = .ok m ∧ MaskOK src.length m := by
  have h1 := lhsLoop_eq isWs text code (splitNl src) ⟨0, false, false⟩ [] (by simp)
  have h2 := lhsSelected_ok isWs text code src (splitNl src) [] ⟨0, false, false⟩ (splitNl_ne_nil src)
    (by simp [joinNl_splitNl]) rfl
  simp only [List.nil_append] at h1
  obtain ⟨m, h3, h4⟩ := mergeWhitespaceSep_ok isWs src _ _ (Nat.lt_succ_self _) h2
  exact ⟨m, by simp only [lhsMask, h1, bind, Except.bind]; exact h3, h4⟩

/-- Before whitespace merging, the allowed spans are exactly one span per line the state machine
(`lhsStep`) selects, in order, never fused; the span of a selected line `j` ends at the line's end
`loc_j + len_j` and starts at the line's start `loc_j`, or — only for a line beginning with `>` — at
`min (loc_j + 2) end` (the bird-track offset, clamped). -/
theorem lhsMask_classifies (isWs : Char → Bool) (text code : Bool) (src : List Char) :
    lhsLoop isWs text code ⟨0, false, false⟩ [] (splitNl src) =
      .ok ((lhsSelected isWs text code ⟨0, false, false⟩ (splitNl src)).map (fun p => ⟨p.1, p.2⟩)) ∧
    ∀ (st : LhsSt) (line : List Char) (a b : Nat), (lhsStep isWs text code st line).2 = some (a, b) →
      b = st.loc + line.length ∧ (a = st.loc ∨ (line.head? = some '>' ∧ a = min (st.loc + 2) b)) ∧
      (lhsStep isWs text code st line).1.loc = st.loc + line.length + 1 := by
  refine ⟨by simpa using lhsLoop_eq isWs text code (splitNl src) ⟨0, false, false⟩ [] (by simp), ?_⟩
  intro st line a b h
  have := lhsStep_props isWs text code st line
  exact ⟨(this.2 a b h).1, (this.2 a b h).2, this.1⟩

def ws (c : Char) : Bool := c == ' ' || c == '\n'

/-- "é\n\n> 😀\n\nb": the bird line is code; text mask = the two text lines -/
example : lhsMask ws true false ['é', '\n', '\n', '>', ' ', '😀', '\n', '\n', 'b'] = .ok [⟨0, 2⟩, ⟨8, 9⟩] := by
  decide
/-- … and the code mask starts two characters into the bird line -/
example : lhsMask ws false true ['é', '\n', '\n', '>', ' ', '😀', '\n', '\n', 'b'] = .ok [⟨5, 6⟩] := by decide
/-- the lone `>` that used to panic (`Span::new(2, 1)`): clamped to the line end -/
example : lhsMask ws true false ['>'] = .ok [⟨1, 1⟩] := by decide
/-- a blank line inside `\begin{code}` ends the code environment (recorded finding): `x` is text -/
example : lhsMask ws true false (beginCode ++ ['\n', 'a', '\n', '\n', 'x', '\n'] ++ endCode) =
    .ok [⟨16, 28⟩] := by decide

/-- non-vacuity of lhsMask_classifies (second part): a bird line after a blank line, code mask -/
example : (lhsStep ws false true ⟨3, false, true⟩ ['>', ' ', '😀']).2 = some (5, 6) := by decide
/-- … and the clamp: a lone `>` -/
example : (lhsStep ws false true ⟨3, false, true⟩ ['>']).2 = some (4, 4) := by decide

/-! ## (e) git commit -/

/-- The inner parser is run on the prefix of the message before the first `#`: that prefix is the
text of the file at offset 0 (so inner tokens need no shifting and are faithful), it contains no `#`,
and it is the whole text or is followed by `#`. -/
theorem gitCommit_prefix (inner : List Char → List Tok) (src : List Char) :
    gitCommitParse inner src = inner (gitCommitCut src) ∧
    gitCommitCut src = (src.drop 0).take (gitCommitCut src).length ∧
    '#' ∉ gitCommitCut src ∧
    (gitCommitCut src = src ∨ src[(gitCommitCut src).length]? = some '#') := by
  have hle := @List.findIdx_le_length _ (· == '#') src
  have hlen : (gitCommitCut src).length = src.findIdx (· == '#') := by
    simp only [gitCommitCut, List.length_take]; exact Nat.min_eq_left hle
  refine ⟨rfl, by simp [gitCommitCut], ?_, ?_⟩
  · intro hmem
    obtain ⟨i, hi, hget⟩ := List.mem_iff_getElem.mp hmem
    rw [hlen] at hi
    have := List.not_of_lt_findIdx hi
    simp [gitCommitCut, List.getElem_take] at hget
    simp [hget] at this
  · by_cases h : src.findIdx (· == '#') < src.length
    · right
      rw [hlen, List.getElem?_eq_getElem h]
      have := @List.findIdx_getElem _ (· == '#') src h
      simp at this
      rw [this]
    · left
      unfold gitCommitCut
      exact List.take_of_length_le (by omega)

example : gitCommitCut ['é', '😀', ' ', '#', 'x', '#'] = ['é', '😀', ' '] := by decide

/-! ## (f) cursors -/

/-- From the cursor of character `k` (`byte = byteOff k`), `push_to` the byte offset of character
`k' ≥ k` yields exactly the cursor of `k'`: the char field is the char index of the byte offset. -/
theorem offsetCursor_exact (gs : List (List Nat)) (hwf : ∀ g ∈ gs, WFGroup g) (k k' : Nat)
    (hk : k ≤ k') (hk' : k' ≤ gs.length) :
    Cursor.pushTo gs.flatten ⟨k, byteOff gs k⟩ (byteOff gs k') = .ok ⟨k', byteOff gs k'⟩ := by
  have hmono := byteOff_mono gs hk
  have hcount := sliceCount_groups hwf hk hk'
  unfold Cursor.pushTo
  simp only []
  rw [if_neg (by omega)]
  by_cases he : byteOff gs k' = byteOff gs k
  · rw [if_pos he]
    -- equal byte offsets: the slice is empty, hence no characters in between
    have : k' - k = 0 := by
      have h0 : sliceCount gs.flatten (byteOff gs k) (byteOff gs k') = .ok 0 := by
        have hb := isBoundary_byteOff hwf (k := k) (by omega)
        have hle := byteOff_le gs (k := k) (by omega)
        unfold sliceCount
        rw [he, if_pos ⟨Nat.le_refl _, hle, hb, hb⟩]
        simp [charCount]
      rw [hcount] at h0
      injection h0
    have : k' = k := by omega
    subst this
    rfl
  · rw [if_neg he, hcount]
    have : k + (k' - k) = k' := by omega
    simp [this]

/-- the `assert!(new_byte >= self.byte)` -/
theorem offsetCursor_assert (bs : List Nat) (c : Cursor) (nb : Nat) :
    Cursor.pushTo bs c nb = .error .assertFail ↔ nb < c.byte := by
  unfold Cursor.pushTo
  by_cases h : nb < c.byte
  · simp [h]
  · rw [if_neg h]
    constructor
    · intro hc
      split at hc
      · cases hc
      · split at hc <;> cases hc
    · intro h'; omega

/-- Markdown's `(traversed_bytes, traversed_chars)` pair: advanced to the byte offset of character
`k' ≥ k` it denotes character `k'`; an earlier range start leaves it unchanged. -/
theorem markdownOffsets_exact (gs : List (List Nat)) (hwf : ∀ g ∈ gs, WFGroup g) (k k' : Nat)
    (hk' : k' ≤ gs.length) :
    mdAdvance gs.flatten ⟨k, byteOff gs k⟩ (byteOff gs k') =
      .ok (if byteOff gs k' > byteOff gs k then ⟨k', byteOff gs k'⟩ else ⟨k, byteOff gs k⟩) := by
  unfold mdAdvance
  simp only []
  by_cases h : byteOff gs k' > byteOff gs k
  · rw [if_pos h, if_pos h]
    have hk : k ≤ k' := by
      apply Nat.le_of_not_lt
      intro hc
      have := byteOff_mono gs (Nat.le_of_lt hc)
      omega
    rw [sliceCount_groups hwf hk hk']
    have : k + (k' - k) = k' := by omega
    simp [bind, Except.bind, pure, Except.pure, this]
  · rw [if_neg h, if_neg h]; rfl

example : Cursor.pushAll sampleGroups.flatten ⟨0, 0⟩ [1, 3, 3, 7, 8] =
    .ok [⟨1, 1⟩, ⟨2, 3⟩, ⟨2, 3⟩, ⟨3, 7⟩, ⟨4, 8⟩] := by decide
/-- pushing into the middle of `é` is `doc.get(..).unwrap()` on `None` -/
example : Cursor.pushTo sampleGroups.flatten ⟨0, 0⟩ 2 = .error .unwrapNone := by decide
example : Cursor.pushTo sampleGroups.flatten ⟨2, 3⟩ 1 = .error .assertFail := by decide

/-- non-vacuity of offsetCursor_exact: from character 1 (byte 1) to character 3 (byte 7) of "aé😀b" -/
example : Cursor.pushTo sampleGroups.flatten ⟨1, 1⟩ 7 = .ok ⟨3, 7⟩ :=
  offsetCursor_exact sampleGroups sampleGroups_wf 1 3 (by decide) (by decide)

/-- non-vacuity of markdownOffsets_exact: forward, and an earlier range start -/
example : mdAdvance sampleGroups.flatten ⟨1, 1⟩ 7 = .ok ⟨3, 7⟩ :=
  markdownOffsets_exact sampleGroups sampleGroups_wf 1 3 (by decide)
example : mdAdvance sampleGroups.flatten ⟨3, 7⟩ 1 = .ok ⟨3, 7⟩ :=
  markdownOffsets_exact sampleGroups sampleGroups_wf 3 1 (by decide)

/-! ## (c′) `Unit::parse` and code fences: which lines reach the inner parser -/

/-- **Exact output of `Unit::parse`** (`harper-comments/src/comment_parsers/unit.rs`). It never
panics, and its token list is the concatenation, over the lines of the comment IN ORDER, of

* nothing at all (no inner tokens, no `Newline` token) for a line whose `in_code_fence` flag is
  `true` after the toggle (`fenceStates`: the flag starts `false` and is flipped by every line for
  which the model's own `lineIsCodeFence` says `true`), and
* `unitLineToks` for a line whose flag is `false`: the inner parser's tokens on the stripped line
  pushed by the leader, then the `Newline(1)` token if the line is not the last, all pushed by the
  offset of the line. -/
theorem unitParse_exact (isWs : Char → Bool) (src : List Char) (inner : List Char → List Tok) :
    unitParse isWs src inner =
      .ok (unitOut isWs src.length inner 0 (splitNl src) (fenceStates isWs false (splitNl src))) :=
  unitLoop_eq isWs src.length inner (splitNl src) 0 false

/-- the flag after line `j` of `Unit::parse`: `true` iff the number of fence lines among lines
`0..=j` is odd — i.e. `j` is an opening fence line or lies strictly between an opening fence and
the next fence line (the closing one has an even count: flag `false`) -/
theorem unitParse_fence_state (isWs : Char → Bool) (src : List Char) (j : Nat)
    (hj : j < (splitNl src).length) :
    (fenceStates isWs false (splitNl src))[j]? =
      some ((((splitNl src).take (j + 1)).countP (isFenceLine isWs)) % 2 == 1) := by
  rw [fenceStates_getElem? isWs _ false j hj]; simp

/-- **Which tokens `Unit::parse` returns, exactly** (both directions): `tok` is in the output iff
there is a line `j` whose flag is `false` (an UNFENCED line) such that `tok` is the `Newline(1)`
token at the end of that line (only if the line is not the last of the comment), or `tok` is an
inner-parser token `t` of the stripped line `j` (non-blank after stripping), moved to the true offset
`Σ_{j'<j}(len_j'+1) + leader_j`. -/
theorem unitParse_tokens_iff (isWs : Char → Bool) (src : List Char) (inner : List Char → List Tok)
    (toks : List Tok) (h : unitParse isWs src inner = .ok toks) (tok : Tok) :
    tok ∈ toks ↔ ∃ j line, (splitNl src)[j]? = some line ∧
      (fenceStates isWs false (splitNl src))[j]? = some false ∧
      ((lineStart (splitNl src) j + line.length < src.length ∧
          tok = ⟨⟨lineStart (splitNl src) j + line.length,
                  lineStart (splitNl src) j + line.length + 1⟩, .newline 1⟩) ∨
       ((leaderSpan isWs line).isEmpty = false ∧
          ∃ t ∈ inner (slice line (leaderSpan isWs line)),
            tok = t.shift (lineStart (splitNl src) j + (leaderSpan isWs line).start))) := by
  rw [unitParse_exact] at h
  cases h
  rw [mem_unitOut]
  simp only [mem_unitLineToks, Nat.zero_add]

theorem spy_ok : InnerOK spy := by
  intro c
  unfold spy
  split <;> simp

/-- `// a` / `// ``` ` / `// b` / `// ``` ` / `// c`: prose, opening fence, code, closing fence, prose -/
def fenceSrc : List Char :=
  ['/', '/', ' ', 'a', '\n', '/', '/', ' ', '`', '`', '`', '\n', '/', '/', ' ', 'b', '\n',
    '/', '/', ' ', '`', '`', '`', '\n', '/', '/', ' ', 'c']

def fenceWs : Char → Bool := fun c => c == ' ' || c == '\n'

example : (splitNl fenceSrc).map (isFenceLine fenceWs) = [false, true, false, true, false] := by decide
example : fenceStates fenceWs false (splitNl fenceSrc) = [false, true, true, false, false] := by decide
example : (List.range 5).map (lineStart (splitNl fenceSrc)) = [0, 5, 12, 17, 24] := by decide
/-- non-vacuity of `unitParse_exact` / `unitParse_tokens_iff`: the five-line comment, evaluated. Lines 1
(opening fence, chars 5..12) and 2 (code, chars 12..17) contribute nothing, not even their
`Newline`; line 3 — the CLOSING fence — contributes a word over its three backticks (20..23) -/
example : unitParse fenceWs fenceSrc spy =
    .ok [⟨⟨3, 4⟩, .word⟩, ⟨⟨4, 5⟩, .newline 1⟩, ⟨⟨20, 23⟩, .word⟩, ⟨⟨23, 24⟩, .newline 1⟩,
      ⟨⟨27, 28⟩, .word⟩] := by decide
example : unitOut fenceWs fenceSrc.length spy 0 (splitNl fenceSrc) [false, true, true, false, false] =
    [⟨⟨3, 4⟩, .word⟩, ⟨⟨4, 5⟩, .newline 1⟩, ⟨⟨20, 23⟩, .word⟩, ⟨⟨23, 24⟩, .newline 1⟩,
      ⟨⟨27, 28⟩, .word⟩] := by decide

/-- **Lines inside a code fence yield no tokens.** Let line `k` of the comment have its
`in_code_fence` flag `true` (the opening fence line, or a line strictly between an opening fence and
the next fence line). With an inner parser that keeps its tokens inside the chunk it is given
(`InnerOK`), NO token returned by `Unit::parse` touches the stretch of the file occupied by line
`k` and its line break, `[lineStart k, lineStart k + len_k + 1)`: every token ends at or before the
line's first character or starts after its line break. -/
theorem unitParse_fenced_lines_silent (isWs : Char → Bool) (src : List Char)
    (inner : List Char → List Tok) (hin : InnerOK inner) (toks : List Tok)
    (h : unitParse isWs src inner = .ok toks) (k : Nat) (line : List Char)
    (hk : (splitNl src)[k]? = some line)
    (hst : (fenceStates isWs false (splitNl src))[k]? = some true) :
    ∀ tok ∈ toks, tok.span.stop ≤ lineStart (splitNl src) k ∨
      lineStart (splitNl src) k + line.length + 1 ≤ tok.span.start := by
  intro tok ht
  rw [unitParse_exact] at h
  cases h
  obtain ⟨j, lj, hj, hsj, hm⟩ := (mem_unitOut isWs src.length inner tok _ _ 0).mp ht
  have hb := unitLineToks_bounds hin isWs src.length _ lj tok hm
  have hne : j ≠ k := by rintro rfl; rw [hst] at hsj; cases hsj
  rcases Nat.lt_or_gt_of_ne hne with hlt | hgt
  · have := lineStart_lt (splitNl src) j k lj hj hlt
    left; omega
  · have := lineStart_lt (splitNl src) k j line hk hgt
    right; omega

/-- non-vacuity of `unitParse_fenced_lines_silent`: the opening fence line (k = 1, chars 5..12) and the
code line (k = 2, chars 12..17) of `fenceSrc` -/
example : ∀ tok ∈ [(⟨⟨3, 4⟩, .word⟩ : Tok), ⟨⟨4, 5⟩, .newline 1⟩, ⟨⟨20, 23⟩, .word⟩, ⟨⟨23, 24⟩, .newline 1⟩,
    ⟨⟨27, 28⟩, .word⟩], tok.span.stop ≤ 5 ∨ 5 + 6 + 1 ≤ tok.span.start :=
  unitParse_fenced_lines_silent fenceWs fenceSrc spy spy_ok _ (by decide) 1 ['/', '/', ' ', '`', '`', '`']
    (by decide) (by decide)
example : ∀ tok ∈ [(⟨⟨3, 4⟩, .word⟩ : Tok), ⟨⟨4, 5⟩, .newline 1⟩, ⟨⟨20, 23⟩, .word⟩, ⟨⟨23, 24⟩, .newline 1⟩,
    ⟨⟨27, 28⟩, .word⟩], tok.span.stop ≤ 12 ∨ 12 + 4 + 1 ≤ tok.span.start :=
  unitParse_fenced_lines_silent fenceWs fenceSrc spy spy_ok _ (by decide) 2 ['/', '/', ' ', 'b']
    (by decide) (by decide)
/-- `InnerOK` is needed: an inner parser that reports a span outside its chunk puts a token from the
prose line 0 over the opening fence line -/
example : unitParse fenceWs fenceSrc (fun _ => [⟨⟨2, 6⟩, .word⟩]) =
    .ok [⟨⟨5, 9⟩, .word⟩, ⟨⟨4, 5⟩, .newline 1⟩, ⟨⟨22, 26⟩, .word⟩, ⟨⟨23, 24⟩, .newline 1⟩,
      ⟨⟨29, 33⟩, .word⟩] := by decide

/-- **The closing fence line IS handed to the inner parser** (`Unit::parse` flips `in_code_fence`
BEFORE testing it). While the flag is `true`, a fence line makes the loop emit, for that very line,
the inner parser's tokens on the stripped line — a chunk that begins with the three backticks and
is never blank — plus the line's `Newline`, and go on with the flag `false`. -/
theorem unit_closing_fence_parsed (isWs : Char → Bool) (total : Nat) (inner : List Char → List Tok)
    (trav : Nat) (line : List Char) (rest : List (List Char)) (hf : isFenceLine isWs line = true) :
    (slice line (leaderSpan isWs line)).take 3 = ['`', '`', '`'] ∧
    ∃ r, unitLoop isWs total inner (trav + line.length + 1) false rest = .ok r ∧
      unitLoop isWs total inner trav true (line :: rest) =
        .ok (((inner (slice line (leaderSpan isWs line))).map (·.shift (leaderSpan isWs line).start) ++
          lineBreakTok total trav line).map (·.shift trav) ++ r) := by
  obtain ⟨h1, h2⟩ := parsedLine_fence isWs inner line hf
  refine ⟨h1, _, unitLoop_eq isWs total inner rest _ false, ?_⟩
  rw [unitLoop_closing_fence isWs total inner trav line rest hf, unitLineToks, h2]

/-- … whereas the OPENING fence line (flag `false` before it) and every non-fence line met while the
flag is `true` are skipped entirely: the loop continues as if the line were not there, only
`chars_traversed` advances. -/
theorem unit_opening_fence_skipped (isWs : Char → Bool) (total : Nat) (inner : List Char → List Tok)
    (trav : Nat) (line : List Char) (rest : List (List Char)) :
    (isFenceLine isWs line = true →
      unitLoop isWs total inner trav false (line :: rest) =
        unitLoop isWs total inner (trav + line.length + 1) true rest) ∧
    (isFenceLine isWs line = false →
      unitLoop isWs total inner trav true (line :: rest) =
        unitLoop isWs total inner (trav + line.length + 1) true rest) :=
  ⟨unitLoop_opening_fence isWs total inner trav line rest,
   unitLoop_inside_fence isWs total inner trav line rest⟩

/-- the same at the level of `Unit::parse`: if line `k` is a fence line whose flag is `false` — a
CLOSING fence — every token the inner parser produces for its stripped text (` ``` …`) is in the
output, at the line's true offset. -/
theorem unitParse_closing_fence_tokens (isWs : Char → Bool) (src : List Char)
    (inner : List Char → List Tok) (toks : List Tok) (h : unitParse isWs src inner = .ok toks)
    (k : Nat) (line : List Char) (hk : (splitNl src)[k]? = some line)
    (hf : isFenceLine isWs line = true)
    (hst : (fenceStates isWs false (splitNl src))[k]? = some false) :
    (slice line (leaderSpan isWs line)).take 3 = ['`', '`', '`'] ∧
    ∀ t ∈ inner (slice line (leaderSpan isWs line)),
      t.shift (lineStart (splitNl src) k + (leaderSpan isWs line).start) ∈ toks :=
  ⟨(parsedLine_fence isWs inner line hf).1, fun t ht =>
    (unitParse_tokens_iff isWs src inner toks h _).mpr
      ⟨k, line, hk, hst, Or.inr ⟨leaderSpan_fence_nonempty isWs line hf, t, ht, rfl⟩⟩⟩

/-- non-vacuity of `unit_closing_fence_parsed`: inside a fence at offset 17 of a 28-character comment,
the line `// ``` ` followed by `// c`: a word over the backticks (20..23) and the line's `Newline` -/
example : unitLoop fenceWs 28 spy 17 true [['/', '/', ' ', '`', '`', '`'], ['/', '/', ' ', 'c']] =
    .ok [⟨⟨20, 23⟩, .word⟩, ⟨⟨23, 24⟩, .newline 1⟩, ⟨⟨27, 28⟩, .word⟩] := by decide
example : isFenceLine fenceWs ['/', '/', ' ', '`', '`', '`'] = true := by decide
/-- non-vacuity of `unit_opening_fence_skipped`: the same line met with the flag `false` yields nothing,
and neither does the code line after it -/
example : unitLoop fenceWs 28 spy 5 false [['/', '/', ' ', '`', '`', '`'], ['/', '/', ' ', 'b']] = .ok [] := by
  decide
/-- non-vacuity of `unitParse_closing_fence_tokens` on `fenceSrc`, k = 3: the token over the closing
fence's backticks is in the output, and the text under it is ` ``` ` -/
example : (⟨⟨20, 23⟩, .word⟩ : Tok) ∈ [(⟨⟨3, 4⟩, .word⟩ : Tok), ⟨⟨4, 5⟩, .newline 1⟩, ⟨⟨20, 23⟩, .word⟩,
    ⟨⟨23, 24⟩, .newline 1⟩, ⟨⟨27, 28⟩, .word⟩] :=
  (unitParse_closing_fence_tokens fenceWs fenceSrc spy _ (by decide) 3 ['/', '/', ' ', '`', '`', '`']
    (by decide) (by decide) (by decide)).2 ⟨⟨0, 3⟩, .word⟩ (by decide)
example : slice fenceSrc ⟨20, 23⟩ = ['`', '`', '`'] ∧ slice fenceSrc ⟨8, 11⟩ = ['`', '`', '`'] := by decide

/-- **Unfenced text is checked completely.** If no line of the comment is a fence line, every line
is handed to the inner parser: for every line `j`, everything `Unit::parse` emits for a parsed
line (`unitLineToks`: inner tokens at the true offset, then the `Newline`) is in the output; in
particular every inner token of every non-blank stripped line. -/
theorem unitParse_no_fence_complete (isWs : Char → Bool) (src : List Char)
    (inner : List Char → List Tok) (toks : List Tok) (h : unitParse isWs src inner = .ok toks)
    (hno : ∀ l ∈ splitNl src, isFenceLine isWs l = false) (j : Nat) (line : List Char)
    (hj : (splitNl src)[j]? = some line) :
    (∀ tok ∈ unitLineToks isWs src.length inner (lineStart (splitNl src) j) line, tok ∈ toks) ∧
    ((leaderSpan isWs line).isEmpty = false → ∀ t ∈ inner (slice line (leaderSpan isWs line)),
      t.shift (lineStart (splitNl src) j + (leaderSpan isWs line).start) ∈ toks) := by
  have hlt : j < (splitNl src).length := by
    rcases Nat.lt_or_ge j (splitNl src).length with h' | h'
    · exact h'
    · rw [List.getElem?_eq_none h'] at hj; cases hj
  have hst : (fenceStates isWs false (splitNl src))[j]? = some false := by
    rw [fenceStates_no_fence isWs _ false hno]; simp [hlt]
  constructor
  · intro tok ht
    rw [unitParse_exact] at h
    cases h
    exact (mem_unitOut isWs src.length inner tok _ _ 0).mpr ⟨j, line, hj, hst, by simpa using ht⟩
  · intro he t ht
    exact (unitParse_tokens_iff isWs src inner toks h _).mpr ⟨j, line, hj, hst, Or.inr ⟨he, t, ht, rfl⟩⟩

/-- non-vacuity of `unitParse_no_fence_complete`: `// é` / `  * 😀 x`, second line -/
example : (⟨⟨9, 12⟩, .word⟩ : Tok) ∈ [(⟨⟨3, 4⟩, .word⟩ : Tok), ⟨⟨4, 5⟩, .newline 1⟩, ⟨⟨9, 12⟩, .word⟩] :=
  (unitParse_no_fence_complete (fun c => c == ' ') ['/', '/', ' ', 'é', '\n', ' ', ' ', '*', ' ', '😀', ' ', 'x'] spy
    _ (by decide) (by decide) 1 [' ', ' ', '*', ' ', '😀', ' ', 'x'] (by decide)).2 (by decide) ⟨⟨0, 3⟩, .word⟩
    (by decide)

end Harper.C04
