import Harper.Lemmas.Wasm
import Harper.Props.C13
import Harper.Props.C13b
import Harper.Props.C03
import Harper.Props.C14
/-!
# C16 — the JavaScript-facing linter API is self-consistent

Property theorems only (helper lemmas: `Harper/Lemmas/Wasm.lean`). The model
(`Harper/Model/Wasm.lean`) is `harper-wasm/src/lib.rs:Linter` as a state machine that *composes*
the models of C13 (`remove_overlaps`), C14 (`IgnoredLints`) and C03 (`Suggestion::apply`); every
theorem here is a corollary of those properties' theorems, stated for ALL states and hence — by
`run_forall₂` / `final_invariant` — over all sequences of calls. What `LintGroup::lint` returns
(the raw lints) and the document's tokens are data carried by the ops (one alternative per
candidate user dictionary); a theorem that needs the raw lints to point into the text says so
(`RawOK`, explored on the real rules by C03's and this property's harness, not proved).

Order of the real pipeline: `remove_overlaps` runs BEFORE `remove_ignored`. Hence ignoring a lint
can never bring back a lint that had been dropped as overlapping it
(`ignore_removes_exactly_context_partial` is an exact equation, and `no_resurrection` spells the corner out on a concrete history); the price
is that a lint masked by an ignored lint is never shown (`masked_stays_masked`).

JSON round trips of `Lint`/`Span`/`Suggestion` are serde derives: monitored by the harness only.
-/
namespace Harper.C16
open Harper Harper.Ignore Harper.Wasm

/-! ### lifting per-call facts to all sequences of calls -/

/-- a fact that holds of every call in every state holds of every call of every sequence -/
theorem run_forall₂ (P : Op → Out → Prop) (h : ∀ s op, P op (step s op).2) :
    ∀ (s : State) (ops : List Op), AllCalls P s ops := by
  intro s ops
  induction ops generalizing s with
  | nil => intro op out hm; simp [run] at hm
  | cons o ops ih =>
    intro op out hm
    simp only [run, List.zip_cons_cons, List.mem_cons] at hm
    rcases hm with hm | hm
    · cases hm; exact h s o
    · exact ih _ op out hm

/-- the same with a state invariant as extra knowledge -/
theorem run_forall₂_inv (I : State → Prop) (hI : ∀ s op, I s → I (step s op).1)
    (P : Op → Out → Prop) (h : ∀ s op, I s → P op (step s op).2) :
    ∀ (s : State) (ops : List Op), I s → AllCalls P s ops := by
  intro s ops
  induction ops generalizing s with
  | nil => intro _ op out hm; simp [run] at hm
  | cons o ops ih =>
    intro hs op out hm
    simp only [run, List.zip_cons_cons, List.mem_cons] at hm
    rcases hm with hm | hm
    · cases hm; exact h s o hs
    · exact ih _ (hI s o hs) op out hm

/-- nothing is lost: there is one result per call -/
theorem run_length (s : State) (ops : List Op) : (run s ops).length = ops.length := by
  induction ops generalizing s with
  | nil => rfl
  | cons o ops ih => simp [run, ih]

/-! ### the composition: what `lint` returns -/

/-- a `lint` call changes nothing and returns `lintCore` of the alternative in force -/
theorem lint_step (s : State) (text : List Nat) (lang : Nat) (alts : List Alt) :
    (step s (.lint text lang alts)).1 = s ∧
    ((pickAlt s.synced alts = none ∧ (step s (.lint text lang alts)).2 = .noAlt) ∨
     ∃ a, pickAlt s.synced alts = some a ∧ a ∈ alts ∧
       ((∃ ls, lintCore s.ignored text lang a.raw a.toks = .ok ls ∧
           (step s (.lint text lang alts)).2 = .lints ls) ∨
        (∃ p, lintCore s.ignored text lang a.raw a.toks = .error p ∧
           (step s (.lint text lang alts)).2 = .panic p))) := by
  cases hp : pickAlt s.synced alts with
  | none =>
    have hstep : step s (.lint text lang alts) = (s, .noAlt) := by simp only [step, hp]
    rw [hstep]
    exact ⟨rfl, Or.inl ⟨rfl, rfl⟩⟩
  | some a =>
    have hm : a ∈ alts := List.mem_of_find?_eq_some hp
    cases hl : lintCore s.ignored text lang a.raw a.toks with
    | ok ls =>
      have hstep : step s (.lint text lang alts) = (s, .lints ls) := by simp only [step, hp, hl]
      rw [hstep]
      exact ⟨rfl, Or.inr ⟨a, rfl, hm, Or.inl ⟨ls, hl, rfl⟩⟩⟩
    | error p =>
      have hstep : step s (.lint text lang alts) = (s, .panic p) := by simp only [step, hp, hl]
      rw [hstep]
      exact ⟨rfl, Or.inr ⟨a, rfl, hm, Or.inr ⟨p, hl, rfl⟩⟩⟩

/-- The composition theorem. For raw lints that point into the text, `remove_overlaps` →
`remove_ignored` → `problem_text` never panics and returns lints that (C13) are raw lints, in range,
pairwise disjoint in output order, (C14) are exactly the survivors of `remove_overlaps` whose
context is not ignored, and carry the characters at their span. -/
theorem lintCore_spec (ig : IgnoreSet) (text : List Nat) (lang : Nat) (raw : List RawLint)
    (toks : List Tok) (hok : ∀ l ∈ raw, l.start ≤ l.stop ∧ l.stop ≤ text.length) :
    ∃ ls, lintCore ig text lang raw toks = .ok ls ∧
      ls.map (·.lint) = (dedup raw).filter (fun l => decide (contextOf l toks ∉ ig)) ∧
      (∀ w ∈ ls, w.lint ∈ raw ∧ w.lint.start ≤ w.lint.stop ∧ w.lint.stop ≤ text.length) ∧
      ls.Pairwise (fun a b => a.lint.stop ≤ b.lint.start) ∧
      (∀ w ∈ ls, w.lang = lang ∧
        w.problemText = (text.drop w.lint.start).take (w.lint.stop - w.lint.start)) := by
  have hsub : (removeIgnored ig (dedup raw) toks).Sublist (dedup raw) :=
    (C14.different_context_kept ig (dedup raw) toks).1
  have hin : ∀ l ∈ removeIgnored ig (dedup raw) toks, l.start ≤ l.stop ∧ l.stop ≤ text.length :=
    fun l hl => hok l (dedup_mem (hsub.subset hl))
  obtain ⟨ls, hls⟩ := attachAll_inrange text lang _ hin
  obtain ⟨hmap, hpt⟩ := attachAll_spec text lang _ ls hls
  refine ⟨ls, hls, ?_, ?_, ?_, hpt⟩
  · rw [hmap, C14.removeIgnored_exact]
  · intro w hw
    have : w.lint ∈ removeIgnored ig (dedup raw) toks := by
      rw [← hmap]; exact List.mem_map_of_mem hw
    exact ⟨dedup_mem (hsub.subset this), hin _ this⟩
  · have hd := (dedup_disjoint raw (fun l hl => (hok l hl).1)).sublist hsub
    rw [← hmap, List.pairwise_map] at hd
    exact hd

/-- the positional look-up inside `dedup` (`raw[o.id]?` under `filterMap`, which would silently
skip a position out of range) never drops anything: `dedup raw` has exactly the spans
`remove_overlaps` keeps, in its order — `lintCore_spec` is not true for the wrong reason -/
theorem dedup_spans (raw : List RawLint) :
    (dedup raw).map (fun l => (l.start, l.stop))
      = (removeOverlaps (toOv raw)).map (fun o => (o.s, o.e)) := by
  unfold dedup
  have hsub : ∀ o ∈ removeOverlaps (toOv raw), o ∈ toOv raw := C13.removeOverlaps_subset _
  generalize removeOverlaps (toOv raw) = L at hsub
  induction L with
  | nil => rfl
  | cons o L ih =>
    obtain ⟨l, hl, hs, he⟩ := mem_toOv (hsub o List.mem_cons_self)
    simp only [List.filterMap_cons, hl, List.map_cons, hs, he]
    rw [ih (fun x hx => hsub x (List.mem_cons_of_mem _ hx))]

/-! ### the clauses of the property, over all sequences of calls -/

/-- Every `lint` call of every sequence of calls, from every state: if the rule set's raw lints
point into the text, the call does not panic, every returned lint is in range and the returned
list is pairwise disjoint (`a.end ≤ b.start` for `a` before `b`; zero-width lints included). -/
theorem lints_inbounds_disjoint (s : State) (ops : List Op) :
    AllCalls InboundsDisjoint s ops := by
  apply run_forall₂
  intro s op
  cases op with
  | lint text lang alts =>
  intro hok
  rcases (lint_step s text lang alts).2 with ⟨_, h⟩ | ⟨a, _, ha, h⟩
  · exact Or.inl h
  · obtain ⟨ls, hls, _, hin, hdis, _⟩ := lintCore_spec s.ignored text lang a.raw a.toks (hok a ha)
    rcases h with ⟨ls', hl', hout⟩ | ⟨p, hp, _⟩
    · rw [hls] at hl'; cases hl'
      exact Or.inr ⟨ls, hout, fun w hw => (hin w hw).2, hdis⟩
    · rw [hls] at hp; cases hp
  | _ => trivial

theorem problem_text_is_span (s : State) (ops : List Op) :
    AllCalls ProblemTextIsSpan s ops := by
  apply run_forall₂
  intro s op
  cases op with
  | lint text lang alts =>
    rcases (lint_step s text lang alts).2 with ⟨_, h⟩ | ⟨a, _, _, ⟨ls, hl, h⟩ | ⟨p, _, h⟩⟩ <;>
      rw [h] <;> simp only [ProblemTextIsSpan]
    exact (attachAll_spec text lang _ ls hl).2
  | _ => simp only [ProblemTextIsSpan]

/-- per call (the ignore set is the state's) -/
theorem returned_sublist_of_raw_step (s : State) (op : Op) :
    SublistOfRaw s.ignored op (step s op).2 := by
  cases op with
  | lint text lang alts =>
    rcases (lint_step s text lang alts).2 with ⟨_, h⟩ | ⟨a, _, ha, ⟨ls, hl, h⟩ | ⟨p, _, h⟩⟩ <;>
      rw [h] <;> simp only [SublistOfRaw]
    obtain ⟨hmap, _⟩ := attachAll_spec text lang _ ls hl
    refine ⟨a, ha, ?_, ?_⟩
    · obtain ⟨p, hp, hs⟩ := dedup_sublist_perm a.raw
      exact ⟨p, hp, hmap ▸ ((C14.different_context_kept s.ignored _ a.toks).1.trans hs)⟩
    · intro w hw
      have : w.lint ∈ removeIgnored s.ignored (dedup a.raw) a.toks := by
        rw [← hmap]; exact List.mem_map_of_mem hw
      rw [C14.removeIgnored_exact] at this
      simpa using (List.mem_filter.mp this).2
  | _ => simp only [SublistOfRaw]

/-- Every `lint` call of every sequence returns a sub-list of a permutation of the raw lints. -/
theorem returned_sublist_of_raw (s : State) (ops : List Op) :
    AllCalls (fun op out => ∃ ig, SublistOfRaw ig op out) s ops :=
  run_forall₂ _ (fun s op => ⟨s.ignored, returned_sublist_of_raw_step s op⟩) s ops

/-- the `i`-th result of a sequence is the step taken from the state after the first `i` calls -/
theorem run_getElem? (s : State) (ops : List Op) (i : Nat) (h : i < ops.length) :
    (run s ops)[i]? = some (step (final s (ops.take i)) ops[i]).2 := by
  induction ops generalizing s i with
  | nil => simp at h
  | cons o ops ih =>
    cases i with
    | zero => simp [run, final]
    | succ i =>
      simp only [run, List.getElem?_cons_succ, List.take_succ_cons, final, List.getElem_cons_succ]
      exact ih _ i (by simpa using h)

/-- `returned_sublist_of_raw` with the ignore set NAMED (there `∃ ig` can be met by the empty set,
which makes "none of them ignored" say nothing): the `i`-th call of every sequence returns a
sub-list of a permutation of the raw lints none of which is ignored in the state that call sees,
i.e. after the first `i` calls. -/
theorem returned_not_ignored_all_calls (s : State) (ops : List Op) (i : Nat) (h : i < ops.length) :
    ∃ out, (run s ops)[i]? = some out ∧ SublistOfRaw (final s (ops.take i)).ignored ops[i] out :=
  ⟨_, run_getElem? s ops i h, returned_sublist_of_raw_step _ _⟩

/-- Every `apply_suggestion` call of every sequence, for a span that points into the text: no
panic, the result is the splice, the text before and after the span is preserved (C03). -/
theorem apply_is_local (s : State) (ops : List Op) :
    AllCalls ApplyIsLocal s ops := by
  apply run_forall₂
  intro s op
  cases op with
  | apply text sp sugg =>
    intro h1 h2
    have hs := C03.apply_spec sugg text sp h1 h2
    simp only [step, hs]
    exact ⟨_, rfl, rfl, C03.apply_prefix_preserved sugg text _ sp h1 h2 hs,
      C03.apply_suffix_preserved sugg text _ sp h1 h2 hs⟩
  | _ => trivial

/-- The two together: a lint RETURNED by `lint(text)` can be applied to `text` in any later state;
the result replaces exactly the lint's `problem_text` by the suggestion's new text. -/
theorem apply_returned_lint (s s' : State) (text : List Nat) (lang : Nat) (alts : List Alt)
    (hok : ∀ a ∈ alts, RawOK text a) (ls : List WLint)
    (hl : (step s (.lint text lang alts)).2 = .lints ls) (w : WLint) (hw : w ∈ ls)
    (sugg : Suggestion Nat) :
    (step s' (.apply text ⟨w.lint.start, w.lint.stop⟩ sugg)).2
      = .text (text.take w.lint.start ++ sugg.newText w.problemText ++ text.drop w.lint.stop) := by
  rcases (lint_step s text lang alts).2 with ⟨_, h⟩ | ⟨a, _, ha, h⟩
  · rw [h] at hl; cases hl
  · obtain ⟨ls0, hls, _, hin, _, hpt⟩ := lintCore_spec s.ignored text lang a.raw a.toks (hok a ha)
    rcases h with ⟨ls', hl', hout⟩ | ⟨p, hp, _⟩
    · rw [hls] at hl'; cases hl'
      rw [hout] at hl; cases hl
      have ⟨_, h1, h2⟩ := hin w hw
      have := C03.apply_spec sugg text ⟨w.lint.start, w.lint.stop⟩ h1 h2
      simp only [step, this, (hpt w hw).2]
    · rw [hls] at hp; cases hp

/-- "Fix all" through the API (C13b): one suggestion per returned lint, applied from the last lint
to the first, never panics and equals the simultaneous substitution. -/
theorem fix_all_returned (s : State) (text : List Nat) (lang : Nat) (alts : List Alt)
    (hok : ∀ a ∈ alts, RawOK text a) (ls : List WLint)
    (hl : (step s (.lint text lang alts)).2 = .lints ls) (σ : WLint → Suggestion Nat) :
    fixAllBackToFront (ls.map (fun w => (⟨w.lint.start, w.lint.stop⟩, σ w))) text
      = .ok (substAll (ls.map (fun w => (⟨w.lint.start, w.lint.stop⟩, σ w))) text) := by
  have h := lints_inbounds_disjoint s [.lint text lang alts] (.lint text lang alts)
    (step s (.lint text lang alts)).2 (by simp [run])
  rcases h hok with h | ⟨ls', hls', hin, hdis⟩
  · rw [h] at hl; cases hl
  · rw [hls'] at hl; cases hl
    apply C13.fix_all_back_to_front
    · intro e he
      obtain ⟨w, hw, rfl⟩ := List.mem_map.mp he
      exact hin w hw
    · rw [List.pairwise_map]
      exact hdis

/-- `lint` sees the state only through the dictionary in force and WHICH contexts are ignored -/
theorem lint_depends_only_on (s s' : State) (hd : s'.synced = s.synced)
    (hi : ∀ c, c ∈ s'.ignored ↔ c ∈ s.ignored) (text : List Nat) (lang : Nat) (alts : List Alt) :
    (step s' (.lint text lang alts)).2 = (step s (.lint text lang alts)).2 := by
  simp only [step, hd]
  cases pickAlt s.synced alts with
  | none => rfl
  | some a =>
    simp only [lintCore_congr hi]
    cases lintCore s.ignored text lang a.raw a.toks <;> rfl

/-- non-vacuity of lint_depends_only_on: two different states (ignore list in the other order,
other config, other record count) with two ignored contexts answer alike -/
example :
    let s : State := (final init [.ignore Wit.C Wit.altsC, .ignore Wit.A' Wit.altsC])
    let s' : State := ⟨s.ignored.reverse, [], [], [(5, true)], 7⟩
    s' ≠ s ∧ s'.synced = s.synced ∧ (∀ c, c ∈ s'.ignored ↔ c ∈ s.ignored) ∧ s.ignored.length = 2 ∧
    (step s' (.lint Wit.textC 0 Wit.altsC)).2 = .lints [] := by
  intro s s'
  have h1 : s'.synced = s.synced := by decide
  have h2 : ∀ c, c ∈ s'.ignored ↔ c ∈ s.ignored := fun c => List.mem_reverse
  refine ⟨by decide, h1, h2, by decide, ?_⟩
  rw [lint_depends_only_on s s' h1 h2]
  decide

/-! ### ignoring -/

theorem final_quiet (s : State) (ops : List Op) (h : ∀ op ∈ ops, quiet op = true) :
    (final s ops).ignored = s.ignored ∧ (final s ops).synced = s.synced ∧
    (final s ops).userWords = s.userWords := by
  induction ops generalizing s with
  | nil => exact ⟨rfl, rfl, rfl⟩
  | cons op ops ih =>
    have hq := h op List.mem_cons_self
    have ih' := ih (step s op).1 (fun o ho => h o (List.mem_cons_of_mem _ ho))
    have : (step s op).1.ignored = s.ignored ∧ (step s op).1.synced = s.synced ∧
        (step s op).1.userWords = s.userWords := by
      cases op with
      | lint text lang alts => rw [(lint_step s text lang alts).1]; exact ⟨rfl, rfl, rfl⟩
      | apply text sp sugg => simp only [step]; split <;> exact ⟨rfl, rfl, rfl⟩
      | exportIgnored | exportWords | setConfig _ | getConfig | statsCount => exact ⟨rfl, rfl, rfl⟩
      | ignore _ _ | importIgnored _ | clearIgnored | importWords _ => simp [quiet] at hq
    simp only [final]
    rw [ih'.1, ih'.2.1, ih'.2.2]
    exact this

/-- non-vacuity of final_quiet (and of `hmid` in the two theorems below): a list of five quiet
calls of four kinds; `import_words` is not quiet -/
example : (∀ op ∈ [Op.getConfig, .exportWords, .lint Wit.textC 0 Wit.altsC,
      .apply Wit.textC ⟨0, 5⟩ (.replaceWith [88]), .setConfig [(5, some true)]], quiet op = true) ∧
    quiet (.importWords [Wit.wN]) = false := by decide

/-- Clause "ignoring a lint removes it and nothing else from later results", exactly:
`lint(text)` returned `r₁`; the user ignores `l` (in the same document: the same alternatives,
i.e. the same tokens); after any further calls that do not touch the ignore list or the words,
`lint(text)` returns `r₁` minus the lints whose context equals `l`'s — same order, nothing added,
nothing else removed. Because `remove_overlaps` runs before `remove_ignored`, no lint that had
been dropped as overlapping comes back.
**Partial**: "further calls" excludes `import_words`. With an `import_words` in between the clause
is false of the code (`ignored_returns_after_import_words`). -/
theorem ignore_removes_exactly_context_partial (s : State) (text : List Nat) (lang : Nat) (alts : List Alt)
    (a : Alt) (l : RawLint) (mid : List Op) (r₁ : List WLint)
    (hpick : pickAlt s.synced alts = some a)
    (h₁ : (step s (.lint text lang alts)).2 = .lints r₁)
    (hmid : ∀ op ∈ mid, quiet op = true) :
    (step (final (step s (.ignore l alts)).1 mid) (.lint text lang alts)).2
      = .lints (r₁.filter (fun w => contextOf w.lint a.toks != contextOf l a.toks)) := by
  obtain ⟨hig, hsy, _⟩ := final_quiet (step s (.ignore l alts)).1 mid hmid
  have hs2 : (step s (.ignore l alts)).1 = { s with ignored := ignoreLint s.ignored l a.toks } := by
    simp only [step, hpick]
  rw [hs2] at hig hsy
  simp only [step, hpick] at h₁
  simp only [step, hsy, hig, hpick]
  cases hc : lintCore s.ignored text lang a.raw a.toks with
  | error p => rw [hc] at h₁; cases h₁
  | ok ls =>
    rw [hc] at h₁; cases h₁
    unfold lintCore at hc ⊢
    unfold ignoreLint
    rw [removeIgnored_insert, attachAll_filter text lang _ _ _ hc]

/-- The clause without that restriction is **false of the code**: the context hashes the
neighbouring tokens WITH their dictionary metadata (`TokenKind::Word(Option<WordMetadata>)`), so
adding a neighbouring word to the user dictionary changes the context of a lint that is still
raised on the same text at the same place — the ignored lint is reported again. History (real
tokens as encoded by the harness; reproduced on the real `Linter`): `lint("an zqxw")`, ignore the
a/an lint on `an`, `import_words(["zqxw"])`, `lint("an zqxw")`.
Recorded finding `c16-ignored-lint-returns-after-import-words`. -/
theorem ignored_returns_after_import_words :
    run init [.lint Wit.textN 0 Wit.altsN, .ignore Wit.N Wit.altsN, .lint Wit.textN 0 Wit.altsN,
        .importWords [Wit.wN], .lint Wit.textN 0 Wit.altsN]
      = [.lints [⟨Wit.N, [97, 110], 0⟩, ⟨Wit.S, [122, 113, 120, 119], 0⟩], .unit,
         .lints [⟨Wit.S, [122, 113, 120, 119], 0⟩], .unit, .lints [⟨Wit.N, [97, 110], 0⟩]] := by
  decide

/-- … in particular the ignored lint itself is gone, everything with another context stays, and
nothing is returned that was not returned before -/
theorem ignore_removes_it_and_nothing_else (s : State) (text : List Nat) (lang : Nat)
    (alts : List Alt) (a : Alt) (l : RawLint) (mid : List Op) (r₁ : List WLint)
    (hpick : pickAlt s.synced alts = some a)
    (h₁ : (step s (.lint text lang alts)).2 = .lints r₁)
    (hmid : ∀ op ∈ mid, quiet op = true) :
    ∃ r₂, (step (final (step s (.ignore l alts)).1 mid) (.lint text lang alts)).2 = .lints r₂ ∧
      r₂.Sublist r₁ ∧
      (∀ w ∈ r₂, contextOf w.lint a.toks ≠ contextOf l a.toks) ∧
      (∀ w ∈ r₁, contextOf w.lint a.toks ≠ contextOf l a.toks → w ∈ r₂) := by
  refine ⟨_, ignore_removes_exactly_context_partial s text lang alts a l mid r₁ hpick h₁ hmid,
    List.filter_sublist, ?_, ?_⟩
  · intro w hw
    simpa using (List.mem_filter.mp hw).2
  · intro w hw hne
    exact List.mem_filter.mpr ⟨hw, by simpa using hne⟩

/-- The corner the order of the pipeline decides. Raw lints A = [0,5) and B = [3,6) overlap, so
`lint` shows A only. After the user ignores A the real order (overlaps first) shows NOTHING:
B is not resurrected — "nothing else changes" holds … -/
theorem no_resurrection :
    run init [.lint Wit.textAB 0 Wit.altsAB, .ignore Wit.A Wit.altsAB, .lint Wit.textAB 0 Wit.altsAB]
      = [.lints [⟨Wit.A, [97, 98, 99, 100, 101], 0⟩], .unit, .lints []] := by
  decide

example :
    lintCoreSwapped [] Wit.textAB 0 [Wit.A, Wit.B] Wit.toksAB
      = .ok [⟨Wit.A, [97, 98, 99, 100, 101], 0⟩] ∧
    lintCoreSwapped (ignoreLint [] Wit.A Wit.toksAB) Wit.textAB 0 [Wit.A, Wit.B] Wit.toksAB
      = .ok [⟨Wit.B, [100, 101, 102], 0⟩] ∧
    lintCore (ignoreLint [] Wit.A Wit.toksAB) Wit.textAB 0 [Wit.A, Wit.B] Wit.toksAB = .ok [] :=
  ⟨rfl, rfl, rfl⟩

/-- The price of the real order: a lint masked by an overlapping lint stays masked for ever, also
after the masking lint is ignored — whatever is ignored, `lint` never returns a lint that
`remove_overlaps` drops from the raw list. -/
theorem masked_stays_masked (ig : IgnoreSet) (text : List Nat) (lang : Nat) (raw : List RawLint)
    (toks : List Tok) (ls : List WLint) (h : lintCore ig text lang raw toks = .ok ls) :
    (ls.map (·.lint)).Sublist (dedup raw) := by
  unfold lintCore at h
  rw [(attachAll_spec text lang _ ls h).1]
  exact (C14.different_context_kept ig (dedup raw) toks).1

/-- non-vacuity of masked_stays_masked: A' ignored, B (masked by A') does not come back -/
example :
    lintCore (ignoreLint [] Wit.A' Wit.toksC) Wit.textC 0 [Wit.C, Wit.B, Wit.A'] Wit.toksC
      = .ok [⟨Wit.C, [103, 104], 0⟩] ∧ dedup [Wit.C, Wit.B, Wit.A'] = [Wit.A', Wit.C] := ⟨rfl, rfl⟩

/-- "Keeps hiding it", over ALL later calls but `clear_ignored_lints` (further ignores, imports of
ignore lists and of words, config changes, …): an ignored context stays in the list. -/
theorem ignored_monotone (s : State) (ops : List Op) (h : ∀ op ∈ ops, op ≠ .clearIgnored)
    (c : Context) (hc : c ∈ s.ignored) : c ∈ (final s ops).ignored := by
  induction ops generalizing s with
  | nil => exact hc
  | cons op ops ih =>
    simp only [final]
    apply ih _ (fun o ho => h o (List.mem_cons_of_mem _ ho))
    have hop := h op List.mem_cons_self
    cases op with
    | lint text lang alts => rw [(lint_step s text lang alts).1]; exact hc
    | apply text sp sugg => simp only [step]; split <;> exact hc
    | ignore l alts =>
      simp only [step]
      split
      · exact hc
      · exact mem_insertCtx.mpr (Or.inl hc)
    | importIgnored p =>
      simp only [step]
      exact (mem_append_importL _ _ _).mpr (Or.inl hc)
    | clearIgnored => exact absurd rfl hop
    | importWords ws => simp only [step, importWords]; split <;> exact hc
    | exportIgnored | exportWords | setConfig _ | getConfig | statsCount => exact hc

/-- … hence after `ignore_lint(l)` EVERY later `lint` call — of any text, after any calls other than
`clear_ignored_lints` — returns no lint whose context (in the document that call parses) is `l`'s.
(After an `import_words` the same characters can have another context: finding
`c16-ignored-lint-returns-after-import-words`.) -/
theorem ignored_keeps_hidden (s : State) (l : RawLint) (altsI : List Alt) (aI : Alt)
    (hpick : pickAlt s.synced altsI = some aI) (mid : List Op)
    (hmid : ∀ op ∈ mid, op ≠ .clearIgnored) (text : List Nat) (lang : Nat) (alts : List Alt)
    (ls : List WLint)
    (h : (step (final (step s (.ignore l altsI)).1 mid) (.lint text lang alts)).2 = .lints ls) :
    ∃ a, pickAlt (final (step s (.ignore l altsI)).1 mid).synced alts = some a ∧
      ∀ w ∈ ls, contextOf w.lint a.toks ≠ contextOf l aI.toks := by
  have hin : contextOf l aI.toks ∈ (final (step s (.ignore l altsI)).1 mid).ignored := by
    apply ignored_monotone _ _ hmid
    simp only [step, hpick]
    exact mem_insertCtx.mpr (Or.inr rfl)
  generalize final (step s (.ignore l altsI)).1 mid = s' at h hin
  rcases (lint_step s' text lang alts).2 with ⟨_, hn⟩ | ⟨a, ha, _, ⟨ls', hl', hout⟩ | ⟨p, _, hout⟩⟩
  · rw [hn] at h; cases h
  · rw [hout] at h; cases h
    refine ⟨a, ha, ?_⟩
    intro w hw hc
    unfold lintCore at hl'
    have hmap := (attachAll_spec text lang _ _ hl').1
    have : w.lint ∈ removeIgnored s'.ignored (dedup a.raw) a.toks := by
      rw [← hmap]; exact List.mem_map_of_mem hw
    rw [C14.removeIgnored_exact] at this
    have hni : contextOf w.lint a.toks ∉ s'.ignored := by simpa using (List.mem_filter.mp this).2
    exact hni (hc ▸ hin)
  · rw [hout] at h; cases h

/-- non-vacuity of ignored_monotone / ignored_keeps_hidden: ignore P in `ab ab ab ab ac`; then
another ignore (other document), an import of an ignore list, a config change, an export — none
is `clear_ignored_lints`; the list holds three contexts and the later `lint` still returns R only -/
example :
    let mid : List Op := [.ignore Wit.C Wit.altsC, .importIgnored [contextOf Wit.A' Wit.toksC],
      .setConfig [(5, some true)], .exportIgnored]
    (∀ op ∈ mid, op ≠ .clearIgnored) ∧
    pickAlt init.synced Wit.altsP = some ⟨[], [Wit.P, Wit.Q, Wit.R], Wit.toksP⟩ ∧
    (final (step init (.ignore Wit.P Wit.altsP)).1 mid).ignored.length = 3 ∧
    (step (final (step init (.ignore Wit.P Wit.altsP)).1 mid) (.lint Wit.textP 0 Wit.altsP)).2
      = .lints [⟨Wit.R, [97, 98], 0⟩] := by
  refine ⟨?_, ?_, ?_, ?_⟩
  · intro op h
    simp only [List.mem_cons, List.not_mem_nil, or_false] at h
    rcases h with rfl | rfl | rfl | rfl <;> exact fun h => Op.noConfusion h
  all_goals decide

/-! ### export → import -/

/-- Clause "exporting then importing the ignore list restores the same behaviour": a linter with an
empty ignore list and the same dictionary in force, after importing what `s` exports (in any
order, with or without repetitions), answers every `lint` call as `s` does. -/
theorem export_import_ignored_restores (s s₀ : State) (payload : List Context)
    (h₀ : s₀.ignored = []) (hd : s₀.synced = s.synced)
    (hp : ∀ c, c ∈ payload ↔ c ∈ exportL s.ignored)
    (text : List Nat) (lang : Nat) (alts : List Alt) :
    (step s .exportIgnored).2 = .ignoredList (exportL s.ignored) ∧
    (step (step s₀ (.importIgnored payload)).1 (.lint text lang alts)).2
      = (step s (.lint text lang alts)).2 := by
  refine ⟨rfl, ?_⟩
  apply lint_depends_only_on
  · exact hd
  · intro c
    show c ∈ Ignore.append s₀.ignored (importL payload) ↔ c ∈ s.ignored
    rw [h₀, mem_append_importL, hp]
    simp [exportL]

/-- … and the imported list is the very same list when the exported one is in stored order (every
reachable list is duplicate-free: `state_invariant`). -/
theorem export_import_ignored_eq (s s₀ : State) (h₀ : s₀.ignored = []) (hn : s.ignored.Nodup) :
    (step s₀ (.importIgnored (exportL s.ignored))).1.ignored = s.ignored := by
  simp only [step, h₀, Ignore.append]
  rw [C14.export_import_eq s.ignored hn]
  have := foldl_insertCtx_nodup s.ignored [] (by simpa using hn)
  simpa using this

/-- non-vacuity of export_import_ignored_restores and export_import_ignored_eq: two ignored
contexts; the other linter is the same one after `clear_ignored_lints` (it then reports both lints
again); the payload is the export in another order with repetitions -/
example :
    let s : State := final init [.ignore Wit.C Wit.altsC, .ignore Wit.A' Wit.altsC, .setConfig [(5, some true)]]
    let s₀ : State := final s [.clearIgnored]
    let payload := (exportL s.ignored).reverse ++ exportL s.ignored
    s.ignored.length = 2 ∧ s.ignored.Nodup ∧ s₀.ignored = [] ∧ s₀.synced = s.synced ∧
    (∀ c, c ∈ payload ↔ c ∈ exportL s.ignored) ∧
    (step (step s₀ (.importIgnored payload)).1 (.lint Wit.textC 0 Wit.altsC)).2 = .lints [] ∧
    (step s₀ (.lint Wit.textC 0 Wit.altsC)).2
      = .lints [⟨Wit.A', [97, 98, 99, 100, 101], 0⟩, ⟨Wit.C, [103, 104], 0⟩] ∧
    (step s₀ (.importIgnored (exportL s.ignored))).1.ignored = s.ignored := by
  intro s s₀ payload
  have h0 : s₀.ignored = [] := by decide
  have hd : s₀.synced = s.synced := by decide
  have hp : ∀ c, c ∈ payload ↔ c ∈ exportL s.ignored := by
    intro c; simp [payload]
  have hn : s.ignored.Nodup := by decide
  refine ⟨by decide, hn, h0, hd, hp, ?_, by decide, export_import_ignored_eq s s₀ h0 hn⟩
  rw [(export_import_ignored_restores s s₀ payload h0 hd hp Wit.textC 0 Wit.altsC).2]
  decide

/-- `import_ignored_lints` APPENDS: on a non-empty list it hides what either list hid (C14). -/
theorem import_ignored_is_union (s : State) (payload : List Context) (l : RawLint) (toks : List Tok) :
    isIgnored (step s (.importIgnored payload)).1.ignored l toks
      = (isIgnored s.ignored l toks || isIgnored (importL payload) l toks) := by
  simp only [step]
  exact C14.append_ignored _ _ _ _

/-! ### the state invariant, over all sequences of calls -/

theorem inv_init : Inv init := by
  decide

theorem inv_step (s : State) (op : Op) (h : Inv s) : Inv (step s op).1 := by
  obtain ⟨h1, h2, h3, h4⟩ := h
  cases op with
  | lint text lang alts => rw [(lint_step s text lang alts).1]; exact ⟨h1, h2, h3, h4⟩
  | apply text sp sugg =>
    simp only [step]
    split <;> exact ⟨h1, h2, h3, h4⟩
  | ignore l alts =>
    simp only [step]
    split
    · exact ⟨h1, h2, h3, h4⟩
    · exact ⟨(C14.reachable_nodup.1 _ _ _ h1), h2, h3, h4⟩
  | exportIgnored => exact ⟨h1, h2, h3, h4⟩
  | importIgnored p => exact ⟨C14.reachable_nodup.2.1 _ _ h1, h2, h3, h4⟩
  | clearIgnored => exact ⟨List.nodup_nil, h2, h3, h4⟩
  | importWords ws =>
    simp only [step, importWords]
    have hn := nodup_keys_foldl h2 ws
    split
    · exact ⟨h1, hn, rfl, h4⟩
    · rename_i hlen
      refine ⟨h1, hn, ?_, h4⟩
      obtain ⟨ex, hex⟩ := keys_foldl_insertWord ws s.userWords
      have hl := congrArg List.length hex
      simp only [keys, List.length_map, List.length_append] at hl
      have : ex = [] := List.eq_nil_of_length_eq_zero (by omega)
      simp only [this, List.append_nil] at hex
      show keys s.synced = keys (List.foldl insertWord s.userWords ws)
      rw [hex, h3]
  | exportWords => exact ⟨h1, h2, h3, h4⟩
  | setConfig es => exact ⟨h1, h2, h3, nodup_ckeys_merge h4 es⟩
  | getConfig => exact ⟨h1, h2, h3, h4⟩
  | statsCount => exact ⟨h1, h2, h3, h4⟩

/-- lifted over call sequences by induction -/
theorem final_invariant (s : State) (ops : List Op) (h : Inv s) : Inv (final s ops) := by
  induction ops generalizing s with
  | nil => exact h
  | cons op ops ih => exact ih _ (inv_step s op h)

/-- every state reachable from `Linter::new` satisfies the invariant -/
theorem state_invariant (ops : List Op) : Inv (final init ops) := final_invariant init ops inv_init

/-- a use of `run_forall₂_inv` (its hypotheses are met by `Inv`, `inv_step`): every
`export_ignored_lints` of every sequence of calls from a state satisfying the invariant — in
particular from `Linter::new` — returns a duplicate-free list -/
theorem exports_nodup (s : State) (ops : List Op) (hs : Inv s) :
    AllCalls (fun _op out => ∀ cs, out = .ignoredList cs → cs.Nodup) s ops := by
  refine run_forall₂_inv Inv inv_step _ ?_ s ops hs
  intro s op hI cs hout
  cases op <;> simp only [step] at hout
  all_goals first
    | (cases hout; exact hI.1)
    | (split at hout <;> try split at hout) <;> cases hout
    | cases hout

/-- `synchronize_lint_dict` (inside `import_words`) preserves the ignore list and the config -/
theorem sync_preserves_config_and_ignores (s : State) (ws : List Word) :
    (step s (.importWords ws)).1.ignored = s.ignored ∧
    (step s (.importWords ws)).1.config = s.config ∧
    (step s (.importWords ws)).1.records = s.records := by
  simp only [step, importWords]
  split <;> exact ⟨rfl, rfl, rfl⟩

/-! ### custom words -/

/-- an `import_words` that brings at least one new `WordId` re-synchronises -/
theorem import_new_key_syncs (s : State) (ws : List Word) (w : Word) (hw : w ∈ ws)
    (hnew : w.key ∉ keys s.userWords) : InSync (step s (.importWords ws)).1 := by
  simp only [step, importWords, InSync]
  split
  · rfl
  · rename_i hlen
    exfalso
    obtain ⟨ex, hex⟩ := keys_foldl_insertWord ws s.userWords
    have hl := congrArg List.length hex
    simp only [keys, List.length_map, List.length_append] at hl
    have hnil : ex = [] := List.eq_nil_of_length_eq_zero (by omega)
    simp only [hnil, List.append_nil] at hex
    -- yet the new key is among the keys afterwards
    have hmem : ∀ (ws : List Word) (m : List Word), w ∈ ws → w.key ∈ keys (ws.foldl insertWord m) := by
      intro ws
      induction ws with
      | nil => intro m h; cases h
      | cons x xs ih =>
        intro m h
        rcases List.mem_cons.mp h with rfl | h
        · obtain ⟨ex', hex'⟩ := keys_foldl_insertWord xs (insertWord m w)
          rw [List.foldl_cons, hex']
          apply List.mem_append_left
          rw [keys_insertWord]
          split
          · assumption
          · simp
        · exact ih _ h
    have := hmem ws s.userWords hw
    rw [hex] at this
    exact hnew this

/-- non-vacuity of import_new_key_syncs: the stale state of finding 44 (`zqxv` in force, `Zqxv` in
the user dictionary) imports a list holding one new key: back in sync -/
example :
    let s : State := final init [.importWords [Wit.z], .importWords [Wit.Z]]
    ¬ InSync s ∧ Wit.wN ∈ [Wit.Z, Wit.wN] ∧ Wit.wN.key ∉ keys s.userWords ∧
    InSync (step s (.importWords [Wit.Z, Wit.wN])).1 ∧
    (step s (.importWords [Wit.Z, Wit.wN])).1.synced = [Wit.Z, Wit.wN] := by
  intro s
  have hw : Wit.wN ∈ [Wit.Z, Wit.wN] := by decide
  have hnew : Wit.wN.key ∉ keys s.userWords := by decide
  exact ⟨by decide, hw, hnew, import_new_key_syncs s _ _ hw hnew, by decide⟩

/-- Clause "exporting then importing the custom words restores the same behaviour" — the part that
is true: if the dictionary in force is the user dictionary, a fresh linter that imports what
`export_words` returns (in any order: it comes out of a hash map) holds the same words, is in sync,
and answers every `lint` call as `s` does.
**Partial**: the hypothesis `InSync s` is not an invariant (`words_stale_not_restored`). -/
theorem export_import_words_restores_partial (s s₀ : State) (hinv : Inv s) (hsync : InSync s)
    (hw₀ : s₀.userWords = []) (hs₀ : s₀.synced = []) (hi : s₀.ignored = s.ignored) (p : List Word)
    (hp : p.Perm s.userWords) (text : List Nat) (lang : Nat) (alts : List Alt) :
    (step s .exportWords).2 = .words s.userWords ∧
    (step s₀ (.importWords p)).1.userWords = p ∧ InSync (step s₀ (.importWords p)).1 ∧
    (step (step s₀ (.importWords p)).1 (.lint text lang alts)).2 = (step s (.lint text lang alts)).2 := by
  have hkeys : (keys ([] ++ p)).Nodup := by
    have : (keys p).Perm (keys s.userWords) := hp.map _
    simpa using this.nodup_iff.mpr hinv.2.1
  have hfold : p.foldl insertWord [] = p := by
    simpa using foldl_insertWord_fresh p [] hkeys
  have hst : (step s₀ (.importWords p)).1 = importWords s₀ p := rfl
  have hu : (importWords s₀ p).userWords = p := by
    simp only [importWords, hw₀, hfold]
    split <;> rfl
  have hsy : (importWords s₀ p).synced = p := by
    simp only [importWords, hw₀, hfold]
    split
    · rfl
    · rename_i h
      have : p = [] := List.eq_nil_of_length_eq_zero (by simpa using h)
      rw [this, hs₀]
  have hig : (importWords s₀ p).ignored = s.ignored := by
    have := (sync_preserves_config_and_ignores s₀ p).1
    rw [hst] at this
    rw [this, hi]
  rw [hst]
  refine ⟨rfl, hu, by unfold InSync; rw [hsy, hu], ?_⟩
  have hpick : pickAlt p alts = pickAlt s.synced alts := by
    apply pickAlt_congr
    intro w
    rw [hsync]
    exact (hp.map _).mem_iff
  simp only [step, hsy, hig, hpick]
  cases pickAlt s.synced alts with
  | none => rfl
  | some a =>
    dsimp only
    cases lintCore s.ignored text lang a.raw a.toks <;> rfl

/-- non-vacuity of export_import_words_restores_partial, ALL hypotheses together: two user words
and one ignored lint; the fresh linter (same ignore list) imports the words in the other order and
answers the `lint` call alike -/
example :
    let alts : List Alt := [⟨[[97], [98]], [Wit.C, Wit.B, Wit.A'], Wit.toksC⟩]
    let s : State := final init [.importWords [⟨1, [97]⟩, ⟨2, [98]⟩], .ignore Wit.C alts]
    let s₀ : State := { init with ignored := s.ignored }
    let p : List Word := [⟨2, [98]⟩, ⟨1, [97]⟩]
    s.ignored.length = 1 ∧ InSync s ∧ p.Perm s.userWords ∧ p ≠ s.userWords ∧
    (step (step s₀ (.importWords p)).1 (.lint Wit.textC 0 alts)).2
      = .lints [⟨Wit.A', [97, 98, 99, 100, 101], 0⟩] := by
  intro alts s s₀ p
  have hinv : Inv s := state_invariant _
  have hsync : InSync s := by decide
  have hp : p.Perm s.userWords := List.Perm.swap _ _ _
  refine ⟨by decide, hsync, hp, by decide, ?_⟩
  rw [(export_import_words_restores_partial s s₀ hinv hsync rfl rfl rfl p hp Wit.textC 0 alts).2.2.2]
  decide

/-- The FULL clause for custom words is **false of the code**: `import_words` re-synchronises only
when the number of entries grew, and `WordId` is case-insensitive. History: `import_words(["zqxv"])`,
then `import_words(["Zqxv"])` — the user dictionary (and `export_words`) now says `Zqxv`, the
dictionary in force still says `zqxv`. A fresh linter importing the export lints with `Zqxv`.
With the raw lints of a text for both dictionaries differing (as they do for the text `zqxv`:
flagged under `{Zqxv}`, accepted under `{zqxv}`), the two linters answer differently. -/
theorem words_stale_not_restored :
    Wit.staleState = final init [.importWords [Wit.z], .importWords [Wit.Z]] ∧
    Wit.freshState = (step init (.importWords Wit.staleState.userWords)).1 ∧
    ¬ InSync Wit.staleState ∧ Inv Wit.staleState ∧ InSync Wit.freshState ∧
    Wit.freshState.userWords = Wit.staleState.userWords ∧
    (step Wit.staleState (.lint Wit.textZ 0 Wit.altsZ)).2 = .lints [] ∧
    (step Wit.freshState (.lint Wit.textZ 0 Wit.altsZ)).2
      = .lints [⟨Wit.L, [122, 113, 120, 118], 0⟩] := by
  refine ⟨rfl, rfl, ?_, ?_, ?_, ?_, ?_, ?_⟩ <;> decide

/-! ### config -/

/-- `get_lint_config` → `set_lint_config` on a fresh linter restores the config; the `lint` overlay
(`fill_with_curated`, then restore) never changes it -/
theorem config_roundtrip (s s₀ : State) (hinv : Inv s) (h₀ : s₀.config = []) :
    (step s .getConfig).2 = .config s.config ∧
    (step s₀ (.setConfig (s.config.map (fun e => (e.1, some e.2))))).1.config = s.config ∧
    ∀ text lang alts, (step s (.lint text lang alts)).1.config = s.config := by
  refine ⟨rfl, ?_, fun text lang alts => by rw [(lint_step s text lang alts).1]⟩
  simp only [step, h₀]
  have := mergeConfig_fresh s.config [] (by simpa using hinv.2.2.2)
  simpa using this

/-- non-vacuity of config_roundtrip: a reachable config of two entries -/
example :
    let s : State := final init [.setConfig [(5, some true), (6, none), (7, some false)], .setConfig [(5, some false)]]
    Inv s ∧ s.config = [(5, false), (7, false)] ∧
    (step init (.setConfig (s.config.map (fun e => (e.1, some e.2))))).1.config = s.config := by
  intro s
  have hinv : Inv s := state_invariant _
  exact ⟨hinv, by decide, (config_roundtrip s init hinv rfl).2.1⟩

/-! ### Non-vacuity and witnesses (concrete, kernel-evaluated) -/

/-- a history through every kind of call: two overlapping raw lints and a third; ignore, export,
clear, import; the hypotheses (`RawOK`, the alternative in force exists) hold of it -/
example :
    (∀ a ∈ Wit.altsC, RawOK Wit.textC a) ∧
    run init [.lint Wit.textC 0 Wit.altsC, .apply Wit.textC ⟨0, 5⟩ (.replaceWith [88]),
        .ignore Wit.C Wit.altsC, .lint Wit.textC 0 Wit.altsC, .exportIgnored, .clearIgnored,
        .lint Wit.textC 0 Wit.altsC, .importIgnored [contextOf Wit.C Wit.toksC],
        .lint Wit.textC 0 Wit.altsC, .statsCount]
      = [.lints [⟨Wit.A', [97, 98, 99, 100, 101], 0⟩, ⟨Wit.C, [103, 104], 0⟩],
         .text [88, 102, 32, 103, 104], .unit,
         .lints [⟨Wit.A', [97, 98, 99, 100, 101], 0⟩], .ignoredList [contextOf Wit.C Wit.toksC], .unit,
         .lints [⟨Wit.A', [97, 98, 99, 100, 101], 0⟩, ⟨Wit.C, [103, 104], 0⟩], .unit,
         .lints [⟨Wit.A', [97, 98, 99, 100, 101], 0⟩], .count 1] := by
  constructor <;> decide

/-- the hypotheses of `ignore_removes_exactly_context` hold of that history's first call, and its
conclusion is not trivial: something is removed, something stays -/
example :
    pickAlt init.synced Wit.altsC = some ⟨[], [Wit.C, Wit.B, Wit.A'], Wit.toksC⟩ ∧
    (step init (.lint Wit.textC 0 Wit.altsC)).2
      = .lints [⟨Wit.A', [97, 98, 99, 100, 101], 0⟩, ⟨Wit.C, [103, 104], 0⟩] ∧
    (step (final (step init (.ignore Wit.C Wit.altsC)).1 [.getConfig, .exportWords])
        (.lint Wit.textC 0 Wit.altsC)).2 = .lints [⟨Wit.A', [97, 98, 99, 100, 101], 0⟩] := by
  refine ⟨?_, ?_, ?_⟩ <;> decide

/-- two occurrences with one context disappear together, the lint with another context stays -/
example :
    contextOf Wit.P Wit.toksP = contextOf Wit.Q Wit.toksP ∧
    contextOf Wit.R Wit.toksP ≠ contextOf Wit.P Wit.toksP ∧
    run init [.lint Wit.textP 0 Wit.altsP, .ignore Wit.P Wit.altsP, .lint Wit.textP 0 Wit.altsP]
      = [.lints [⟨Wit.P, [97, 98], 0⟩, ⟨Wit.Q, [97, 98], 0⟩, ⟨Wit.R, [97, 98], 0⟩], .unit,
         .lints [⟨Wit.R, [97, 98], 0⟩]] := by
  refine ⟨?_, ?_, ?_⟩ <;> decide

/-- a raw lint that does not point into the text makes `lint` panic (`get_content`), as the code
does: `RawOK` is needed -/
example : (step init (.lint [97] 0 [⟨[], [⟨1, 0, 2, 0, [], [], 0⟩], []⟩])).2 = .panic .sliceOOB := by
  decide

/-- no alternative for the dictionary in force: the model says so instead of guessing -/
example : (step (final init [.importWords [⟨1, [97]⟩]]) (.lint [97] 0 [⟨[], [], []⟩])).2 = .noAlt := by
  decide

/-- the user dictionary: a new key appends and synchronises, a known key replaces in place and does
not; the config: `null` entries are skipped, known rules are replaced in place -/
example :
    (final init [.importWords [⟨1, [97]⟩, ⟨2, [98]⟩], .importWords [⟨1, [65]⟩],
      .setConfig [(5, some true), (6, none), (7, some false)], .setConfig [(5, some false)]])
    = ⟨[], [⟨1, [65]⟩, ⟨2, [98]⟩], [⟨1, [97]⟩, ⟨2, [98]⟩], [(5, false), (7, false)], 0⟩ := by
  decide

/-- `export_import_words_restores_partial` is not vacuous: a state in sync with two words, and the
export read back in the other order -/
example :
    Inv (final init [.importWords [⟨1, [97]⟩, ⟨2, [98]⟩]]) ∧
    InSync (final init [.importWords [⟨1, [97]⟩, ⟨2, [98]⟩]]) ∧
    [(⟨2, [98]⟩ : Word), ⟨1, [97]⟩].Perm (final init [.importWords [⟨1, [97]⟩, ⟨2, [98]⟩]]).userWords := by
  refine ⟨by decide, by decide, ?_⟩
  exact List.Perm.swap _ _ _

/-! ### w26 — C13 composed with the JS-facing `lint`: ONE theorem about what a `lint` call returns

`lintCore_spec` gives disjointness and "members of `raw`"; `returned_sublist_of_raw` gives a sub-list of SOME
permutation. The strong C13 theorems (`removeOverlaps_sublist_isort`, `isort_key_sorted`, `isort_stable`,
`kept_or_starts_inside_kept`) were not carried through `dedup` / `lintCore` / `step`. Below they are: `sortedRaw raw`
(`Lemmas/Wasm.lean`) is THE stable sort of the group's lints by `(start, !0 - end)` (`sortedRaw_perm`,
`sortedRaw_sorted`, `sortedRaw_stable`). -/

/-- **What `Linter::lint` (JS API) returns, from every state.** If the dictionary in force selects the alternative `a`
whose raw lints (the group's output) point into the text, the call returns a list `ls` (no panic, state unchanged) and
* `ls` is a SUB-LIST of the group's lints in `remove_overlaps`' stable sort order — nothing invented, altered, or
  reordered beyond that sort;
* `ls` is pairwise disjoint (`x.end ≤ y.start` for `x` before `y`) and every lint is in range, none of them ignored;
* nothing is lost silently: every lint of the group is returned, or is ignored, or starts inside a lint that
  `remove_overlaps` kept (which may itself have been ignored afterwards — `remove_overlaps` runs BEFORE `remove_ignored`). -/
theorem lint_returns_disjoint_sublist_of_group (s : State) (text : List Nat) (lang : Nat) (alts : List Alt) (a : Alt)
    (hpick : pickAlt s.synced alts = some a) (hok : RawOK text a) :
    ∃ ls, step s (.lint text lang alts) = (s, .lints ls) ∧
      (ls.map (·.lint)).Sublist (sortedRaw a.raw) ∧
      ls.Pairwise (fun x y => x.lint.stop ≤ y.lint.start) ∧
      (∀ w ∈ ls, w.lint.start ≤ w.lint.stop ∧ w.lint.stop ≤ text.length ∧ contextOf w.lint a.toks ∉ s.ignored) ∧
      (∀ d ∈ a.raw, d ∈ ls.map (·.lint) ∨ contextOf d a.toks ∈ s.ignored ∨
        ∃ k ∈ dedup a.raw, k.start ≤ d.start ∧ d.start < k.stop) := by
  obtain ⟨ls, hls, hmap, hin, hdis, _⟩ := lintCore_spec s.ignored text lang a.raw a.toks hok
  have hstep : step s (.lint text lang alts) = (s, .lints ls) := by simp only [step, hpick, hls]
  refine ⟨ls, hstep, ?_, hdis, ?_, ?_⟩
  · rw [hmap]
    exact List.filter_sublist.trans (dedup_sublist_sortedRaw a.raw)
  · intro w hw
    refine ⟨(hin w hw).2.1, (hin w hw).2.2, ?_⟩
    have : w.lint ∈ (dedup a.raw).filter (fun l => decide (contextOf l a.toks ∉ s.ignored)) := by
      rw [← hmap]; exact List.mem_map_of_mem hw
    simpa using (List.mem_filter.mp this).2
  · intro d hd
    rcases dedup_kept_or_covered a.raw d hd with hk | hc
    · by_cases hig : contextOf d a.toks ∈ s.ignored
      · exact Or.inr (Or.inl hig)
      · refine Or.inl ?_
        rw [hmap]
        exact List.mem_filter.mpr ⟨hk, by simpa using hig⟩
    · exact Or.inr (Or.inr hc)

/-- non-vacuity: `abcdef gh`, the group hands over `[C, B, A']` (C = 7..9, B = 3..6 overlapping A' = 0..5); stably sorted
that is `[A', B, C]`; after `ignore C` the call returns `[A']`: B starts inside the kept A', C is ignored -/
example : sortedRaw [Wit.C, Wit.B, Wit.A'] = [Wit.A', Wit.B, Wit.C] ∧ dedup [Wit.C, Wit.B, Wit.A'] = [Wit.A', Wit.C] := by
  decide

example :
    let s := (step init (.ignore Wit.C Wit.altsC)).1
    ∃ ls, step s (.lint Wit.textC 0 Wit.altsC) = (s, .lints ls) ∧
      (ls.map (·.lint)).Sublist (sortedRaw [Wit.C, Wit.B, Wit.A']) ∧
      ls.Pairwise (fun x y => x.lint.stop ≤ y.lint.start) ∧
      (∀ w ∈ ls, w.lint.start ≤ w.lint.stop ∧ w.lint.stop ≤ Wit.textC.length ∧
        contextOf w.lint Wit.toksC ∉ s.ignored) ∧
      (∀ d ∈ [Wit.C, Wit.B, Wit.A'], d ∈ ls.map (·.lint) ∨ contextOf d Wit.toksC ∈ s.ignored ∨
        ∃ k ∈ dedup [Wit.C, Wit.B, Wit.A'], k.start ≤ d.start ∧ d.start < k.stop) :=
  lint_returns_disjoint_sublist_of_group _ Wit.textC 0 Wit.altsC ⟨[], [Wit.C, Wit.B, Wit.A'], Wit.toksC⟩
    (by decide) (by decide)

/-- the third disjunct is needed as stated (`k ∈ dedup`, not `k` returned): ignoring A' hides A' AND leaves B hidden —
B starts inside A', which `remove_overlaps` kept and `remove_ignored` then removed; neither is returned -/
example :
    (step (step init (.ignore Wit.A' Wit.altsC)).1 (.lint Wit.textC 0 Wit.altsC)).2
      = .lints [⟨Wit.C, [103, 104], 0⟩] := by decide

/-- clause "pairwise disjoint and a sub-list of the group's, in its sort order", of one call -/
def DisjointSublistOfGroup : Op → Out → Prop
  | .lint text _ alts, out =>
    (∀ a ∈ alts, RawOK text a) →
      out = .noAlt ∨ ∃ ls, out = .lints ls ∧ ls.Pairwise (fun x y => x.lint.stop ≤ y.lint.start) ∧
        ∃ a ∈ alts, (ls.map (·.lint)).Sublist (sortedRaw a.raw)
  | _, _ => True

/-- … over every call of every sequence of calls, from every state -/
theorem lints_disjoint_sublist_of_group (s : State) (ops : List Op) :
    AllCalls DisjointSublistOfGroup s ops := by
  apply run_forall₂
  intro s op
  cases op with
  | lint text lang alts =>
    intro hok
    cases hp : pickAlt s.synced alts with
    | none => exact Or.inl (by simp only [step, hp])
    | some a =>
      have hm : a ∈ alts := List.mem_of_find?_eq_some hp
      obtain ⟨ls, hstep, hsub, hdis, _, _⟩ :=
        lint_returns_disjoint_sublist_of_group s text lang alts a hp (hok a hm)
      exact Or.inr ⟨ls, by rw [hstep], hdis, a, hm, hsub⟩
  | _ => trivial

/-- non-vacuity: a three-call history with two `lint` calls around an `ignore` -/
example : AllCalls DisjointSublistOfGroup init
    [.lint Wit.textC 0 Wit.altsC, .ignore Wit.C Wit.altsC, .lint Wit.textC 0 Wit.altsC] :=
  lints_disjoint_sublist_of_group _ _

end Harper.C16
