import Harper.Lemmas.MergeRules
import Harper.Lemmas.SpellRule
import Harper.Props.C12d
import Harper.Props.C12e
import Harper.Props.C03f
/-!
# C12 (`merge_linters!` rules) — `collect ++ remove_overlaps` over several paragraph-local children is paragraph-local

`merge_linters!` runs its children in order on the whole document, concatenates their lints and calls `remove_overlaps`. With
`cᵢ(X)` the lints of child `i` on text `X`, the candidates of `P ++ D` are `c₁(P) ++ sh c₁(D) ++ c₂(P) ++ sh c₂(D) ++ …` — an
INTERLEAVING of the candidates of the parts `c₁(P) ++ c₂(P) ++ …` and `c₁(D) ++ c₂(D) ++ …`.

* `removeOverlaps_interleaving` (from `Lemmas/MergeRules.lean`): for lint lists `a₁ … aₙ` that START BEFORE `k` and end at or
  before it and `b₁ … bₙ` that start at or after `k`, `remove_overlaps (a₁ ++ b₁ ++ … ++ aₙ ++ bₙ) = remove_overlaps (a₁ ++ … ++ aₙ)
  ++ remove_overlaps (b₁ ++ … ++ bₙ)`, for `remove_overlaps` as coded (stable sort, sweep, `remove_indices`);
  `removeOverlaps_two_classes`: the same for ANY interleaving of two classes with `a.start < b.start ∧ a.end ≤ b.start` for every
  pair. **The brief's "every span end ≤ the break position" is NOT enough**: a zero-width lint of the first class AT the break
  sorts after a longer lint of the second class starting there (longest first) and is swallowed (`interleaving_needs_strict`). The
  paragraph break guarantees strictness: every token of `P` is non-empty (`document_tokOK`) and ends inside `P`, and a lint's
  span starts at or before the start of one of its matched tokens (`patternRule_leftIn`).
* `mergeLinters_appendsP`: children that `Appends` and report inside the left part ⇒ the merged rule appends, UP TO WHICH PANIC
  is reported (`SameOrBothPanic`; the whole runs child 1 on both parts before child 2 — witness `merged_panic_order`); it panics
  iff one of the parts does.
* `mergeLinters_paragraphs_separately`: for ANY list of `Fine` children, end to end from the characters of `P` and `D`, with
  equality (the children are total); `mergedRule_paragraphs_separately` for `FineE` children;
  `mergedRule_paragraphs_separately_anyEnv`: for local children and ANY `Env`, up to which panic.
* `hopHope_…`, `letsConfusion_…`, `pronounContraction_…` (`ContractLowerOK`), `compoundNouns_…` (`DictOK`) `_paragraphs_separately`.

SpellCheck as a rule (`Model/SpellRule.lean`):

* `spellCheck_paragraphs_separately`: the rule without its cache, end to end;
* **`spellCheck_cache_transparent`**: an instance with ANY `word_cache` state that satisfies `CacheInv` (every entry is what the
  uncached search returns for its key: the cache only holds entries produced by this rule for this dictionary) and ANY capacity
  returns what the cache-less rule returns — lints and panics — and `spellCheck_cacheInv_preserved`: it leaves such a state
  behind (`CacheInv` holds of the empty cache: `cacheInv_empty`); `spellCheck_session_transparent` for a whole history;
* hence `spellCheck_cached_paragraphs_separately`: three instances with any three such caches;
* `spellCheck_anyKey_transparent`: the same for a cache keyed by `key word` PROVIDED the suggestions factor through `key`
  (`KeySound`); the seeded change C12r3 keys by the lower-cased word, the search does not factor through it (`teh` / `Teh` get
  different results from the real dictionary), and `lowercaseKey_not_transparent` is the kernel-checked witness.
-/
namespace Harper.C12
open Harper Harper.Chunks Harper.Rules Harper.Leaves Harper.PatternRules Harper.MergeRules

/-! ## the lemma about `remove_overlaps` -/

/-- **the interleaving lemma**, for the model's `remove_overlaps` as coded -/
theorem removeOverlaps_interleaving (k : Nat) (ps : List (List RuleLint × List RuleLint))
    (hA : ∀ p ∈ ps, ∀ a ∈ p.1, a.span.start < k ∧ a.span.stop ≤ k) (hB : ∀ p ∈ ps, ∀ b ∈ p.2, k ≤ b.span.start) :
    removeOverlapsRL (ps.flatMap fun p => p.1 ++ p.2) = removeOverlapsRL (ps.flatMap (·.1)) ++ removeOverlapsRL (ps.flatMap (·.2)) :=
  removeOverlapsRL_interleave k ps hA hB

/-- any interleaving `L` of two classes (with / without `p`), every lint of the first starting strictly before and ending at or
before the start of every lint of the second -/
theorem removeOverlaps_two_classes (p : RuleLint → Bool) (L : List RuleLint)
    (h : ∀ a ∈ L, ∀ b ∈ L, p a = true → p b = false → a.span.start < b.span.start ∧ a.span.stop ≤ b.span.start) :
    removeOverlapsRL L = removeOverlapsRL (L.filter p) ++ removeOverlapsRL (L.filter fun x => !p x) :=
  removeOverlapsRL_split p L h

/-- `remove_overlaps` of rule lints IS stable sort by `(start, longest first)` followed by the sweep -/
theorem removeOverlaps_is_sort_then_sweep (ls : List RuleLint) : removeOverlapsRL ls = sweepRL 0 (isortRL ls) :=
  removeOverlapsRL_eq_sweepRL ls

/-- **"every `a` ends at or before `k`" is not enough.** Child 1 reports `[2, 4)` on the right part, child 2 the zero-width
`[2, 2)` on the left part (`k = 2`): the whole keeps only `[2, 4)`, the parts keep both -/
theorem interleaving_needs_strict :
    removeOverlapsRL (([] : List RuleLint) ++ [⟨⟨2, 4⟩, [], 1, 0⟩] ++ ([⟨⟨2, 2⟩, [], 2, 0⟩] ++ [])) = [⟨⟨2, 4⟩, [], 1, 0⟩] ∧
      removeOverlapsRL ([] ++ [⟨⟨2, 2⟩, [], 2, 0⟩]) ++ removeOverlapsRL ([⟨⟨2, 4⟩, [], 1, 0⟩] ++ []) =
        [⟨⟨2, 2⟩, [], 2, 0⟩, ⟨⟨2, 4⟩, [], 1, 0⟩] := by decide

/-- … and with two zero-width lints at `k` the whole keeps both, in the other order (equal keys: the stable sort keeps input order) -/
example : removeOverlapsRL [⟨⟨2, 2⟩, [], 1, 0⟩, ⟨⟨2, 2⟩, [], 2, 0⟩] = [⟨⟨2, 2⟩, [], 1, 0⟩, ⟨⟨2, 2⟩, [], 2, 0⟩] := by decide

/-- the hypotheses of the lemma are satisfiable with work to do on both sides: `a₁ = [0,3)`, `b₁ = [7,9)`, `a₂ = [1,2), [4,5)`,
`b₂ = [6,8)`, `k = 5` -/
example : removeOverlapsRL ([⟨⟨0, 3⟩, [], 1, 0⟩] ++ [⟨⟨7, 9⟩, [], 2, 0⟩] ++ ([⟨⟨1, 2⟩, [], 3, 0⟩, ⟨⟨4, 5⟩, [], 4, 0⟩] ++ [⟨⟨6, 8⟩, [], 5, 0⟩])) =
    [⟨⟨0, 3⟩, [], 1, 0⟩, ⟨⟨4, 5⟩, [], 4, 0⟩, ⟨⟨6, 8⟩, [], 5, 0⟩] := by decide

/-! ## `merge_linters!` of rules that append -/

/-- `Appends`, up to which panic is reported -/
def AppendsP (r : PieceRule) : Prop :=
  ∀ (P D : List Char) (A0 : List Tok) (brk : Tok) (td : List Tok), brk.kind.isParagraphBreak = true →
    (∀ t ∈ A0 ++ [brk], tokOK t = true ∧ t.span.stop ≤ P.length) → (∀ t ∈ td, tokOK t = true) →
    SameOrBothPanic (r (P ++ D) ((A0 ++ [brk]) ++ shiftDoc P.length (A0 ++ [brk]).length td))
      (joinE P.length (r P (A0 ++ [brk])) (r D td))

/-- on tokens that are non-empty and end at or before `k`, `r` reports only lints that start before `k` and end at or before it -/
def LeftIn (r : PieceRule) : Prop :=
  ∀ (src : List Char) (toks : List Tok) (k : Nat), (∀ t ∈ toks, tokOK t = true ∧ t.span.stop ≤ k) →
    ∀ ls, r src toks = .ok ls → ∀ l ∈ ls, l.span.start < k ∧ l.span.stop ≤ k

/-- every `PatternLinter` is `LeftIn`, whatever its tree and its `match_to_lint`: the span is a selection of matched tokens -/
theorem patternRule_leftIn (env : Env) (r : PRule) : LeftIn (r.rule env) :=
  fun src toks k hin ls h => PRule.rule_leftIn env r src toks k hin ls h

/-- **`merge_linters!` of rules that append and report inside the left part appends** — lints exactly; it panics iff one of the
parts does -/
theorem mergeLinters_appendsP (rs : List PieceRule) (hA : ∀ r ∈ rs, Appends r) (hL : ∀ r ∈ rs, LeftIn r) :
    AppendsP (mergeLinters rs) := by
  intro P D A0 brk td hb hin hd
  apply mergeLinters_join
  · intro r hr; exact hA r hr P D A0 brk td hb hin hd
  · intro r hr ls e; exact hL r hr P (A0 ++ [brk]) P.length hin ls e

/-- … with equality when the children return on both parts -/
theorem mergeLinters_appends_of_total (rs : List PieceRule) (hA : ∀ r ∈ rs, Appends r) (hL : ∀ r ∈ rs, LeftIn r)
    (P D : List Char) (A0 : List Tok) (brk : Tok) (td : List Tok) (hb : brk.kind.isParagraphBreak = true)
    (hin : ∀ t ∈ A0 ++ [brk], tokOK t = true ∧ t.span.stop ≤ P.length) (hd : ∀ t ∈ td, tokOK t = true)
    (hokP : ∀ r ∈ rs, ∃ ls, r P (A0 ++ [brk]) = .ok ls) (hokD : ∀ r ∈ rs, ∃ ls, r D td = .ok ls) :
    mergeLinters rs (P ++ D) ((A0 ++ [brk]) ++ shiftDoc P.length (A0 ++ [brk]).length td) =
      joinE P.length (mergeLinters rs P (A0 ++ [brk])) (mergeLinters rs D td) :=
  mergeLinters_join_ok _ rs _ _ _ _ _ _ (fun r hr => hA r hr P D A0 brk td hb hin hd)
    (fun r hr ls e => hL r hr P (A0 ++ [brk]) P.length hin ls e) hokP hokD

/-- **which panic**: child 1 panics on the right part only, child 2 on the left part only. The whole reports child 1's panic
(it runs child 1 on the whole document first), the parts report child 2's (the left part is linted first). Both panic. -/
theorem merged_panic_order :
    let r1 : PieceRule := fun src _ => if src = ['d'] ∨ src = ['p', 'd'] then .error .sliceOOB else .ok []
    let r2 : PieceRule := fun src _ => if src = ['p'] ∨ src = ['p', 'd'] then .error .underflow else .ok []
    (∀ r ∈ [r1, r2], r (['p'] ++ ['d']) [] = joinE 1 (r ['p'] []) (r ['d'] [])) ∧
      mergeLinters [r1, r2] (['p'] ++ ['d']) [] = .error .sliceOOB ∧
      joinE 1 (mergeLinters [r1, r2] ['p'] []) (mergeLinters [r1, r2] ['d'] []) = .error .underflow := by decide

/-! ## end to end: from the characters of `P` and `D` -/

/-- C12 for a rule that `AppendsP` -/
theorem separately_of_appendsP (r : PieceRule) (hr : AppendsP r) (cls : Cls) (P0 D : List Char) (k : Nat)
    (extP extD extPD : Ext) (h : ParagraphPair cls P0 D k extP extD extPD) :
    SameOrBothPanic (docRule cls extPD r ((P0 ++ List.replicate k '\n') ++ D))
      (joinE (P0 ++ List.replicate k '\n').length (docRule cls extP r (P0 ++ List.replicate k '\n')) (docRule cls extD r D)) := by
  obtain ⟨A0, pb, td, hpb, eP, eD, ePD, hin⟩ :=
    document_append cls h.cls_ok P0 D k h.two h.no_nl_end h.d_head h.no_quotes extP extD extPD h.ext_local h.ext_ok_p
      h.ext_ok_d h.ext_no_nl
  have hokP := document_tokOK cls extP _ h.ext_ok_p _ eP
  have hokD := document_tokOK cls extD _ h.ext_ok_d _ eD
  generalize P0 ++ List.replicate k '\n' = P at *
  have hbk : pb.kind.isParagraphBreak = true := by rw [hpb]; rfl
  have ePD' : document cls extPD (P ++ D) = .ok ((A0 ++ [pb]) ++ shiftDoc P.length (A0 ++ [pb]).length td) := ePD
  simp only [docRule, eP, eD, ePD']
  exact hr P D A0 pb td hbk (fun t ht => ⟨hokP t ht, hin t ht⟩) hokD

/-- children whose tree and spec are local: each appends -/
theorem mergeChild_appends (env : Env) (c : PRule) (hloc : c.pat.Loc) (hs : SpecLoc c.spec) : Appends (c.rule env) :=
  appends_chunks _ (PRule.xlocalEL env c hloc hs)

/-- **a `merge_linters!` rule over local children, ANY `Env`**: paragraph-local up to which panic is reported -/
theorem mergedRule_paragraphs_separately_anyEnv (env : Env) (children : List PRule) (hc : ∀ c ∈ children, c.pat.Loc ∧ SpecLoc c.spec)
    (cls : Cls) (P0 D : List Char) (k : Nat) (extP extD extPD : Ext) (h : ParagraphPair cls P0 D k extP extD extPD) :
    SameOrBothPanic (docRule cls extPD (mergedRule env children) ((P0 ++ List.replicate k '\n') ++ D))
      (joinE (P0 ++ List.replicate k '\n').length (docRule cls extP (mergedRule env children) (P0 ++ List.replicate k '\n'))
        (docRule cls extD (mergedRule env children) D)) := by
  apply separately_of_appendsP _ _ cls P0 D k extP extD extPD h
  apply mergeLinters_appendsP
  · intro r hr
    obtain ⟨c, hcm, rfl⟩ := List.mem_map.mp hr
    exact mergeChild_appends env c (hc c hcm).1 (hc c hcm).2
  · intro r hr
    obtain ⟨c, hcm, rfl⟩ := List.mem_map.mp hr
    exact patternRule_leftIn env c

/-- **a `merge_linters!` rule over `FineE` children**, end to end (lexer, condensing passes, `iter_chunks`, `run_on_chunk`, the
trees, the `match_to_lint`s, `remove_overlaps`): `rule(P ++ D) = rule(P) ++ shift(rule(D))` -/
theorem mergedRule_paragraphs_separately (env : Env) (children : List PRule) (hc : ∀ c ∈ children, FineE env c)
    (cls : Cls) (P0 D : List Char) (k : Nat) (extP extD extPD : Ext) (h : ParagraphPair cls P0 D k extP extD extPD) :
    docRule cls extPD (mergedRule env children) ((P0 ++ List.replicate k '\n') ++ D) =
      joinE (P0 ++ List.replicate k '\n').length (docRule cls extP (mergedRule env children) (P0 ++ List.replicate k '\n'))
        (docRule cls extD (mergedRule env children) D) := by
  obtain ⟨A0, pb, td, hpb, eP, eD, ePD, hin⟩ :=
    document_append cls h.cls_ok P0 D k h.two h.no_nl_end h.d_head h.no_quotes extP extD extPD h.ext_local h.ext_ok_p
      h.ext_ok_d h.ext_no_nl
  have hokP := document_tokOK cls extP _ h.ext_ok_p _ eP
  have hokD := document_tokOK cls extD _ h.ext_ok_d _ eD
  have hinP : InText (P0 ++ List.replicate k '\n') (A0 ++ [pb]) := by
    obtain ⟨toks, e, hT⟩ := C02.document_tiles cls extP _ h.ext_ok_p
    rw [eP] at e; cases e
    exact C03.inText_of_tiles _ _ hT
  have hinD : InText D td := by
    obtain ⟨toks, e, hT⟩ := C02.document_tiles cls extD _ h.ext_ok_d
    rw [eD] at e; cases e
    exact C03.inText_of_tiles _ _ hT
  generalize P0 ++ List.replicate k '\n' = P at *
  have hbk : pb.kind.isParagraphBreak = true := by rw [hpb]; rfl
  have ePD' : document cls extPD (P ++ D) = .ok ((A0 ++ [pb]) ++ shiftDoc P.length (A0 ++ [pb]).length td) := ePD
  simp only [docRule, eP, eD, ePD']
  apply mergeLinters_appends_of_total _ _ _ P D A0 pb td hbk (fun t ht => ⟨hokP t ht, hin t ht⟩) hokD
  · intro r hr
    obtain ⟨c, hcm, rfl⟩ := List.mem_map.mp hr
    exact (PRule.rule_okE env c (hc c hcm) P _ hinP).imp fun _ h => h.1
  · intro r hr
    obtain ⟨c, hcm, rfl⟩ := List.mem_map.mp hr
    exact (PRule.rule_okE env c (hc c hcm) D _ hinD).imp fun _ h => h.1
  · intro r hr
    obtain ⟨c, hcm, rfl⟩ := List.mem_map.mp hr
    exact mergeChild_appends env c (hc c hcm).loc (hc c hcm).sloc
  · intro r hr
    obtain ⟨c, hcm, rfl⟩ := List.mem_map.mp hr
    exact patternRule_leftIn env c

/-- **`merge_linters!` over ANY list of `Fine` children** (the notion of `Props/C12d.lean`: all 28 shipped pattern rules are) -/
theorem mergeLinters_paragraphs_separately (env : Env) (children : List PRule) (hc : ∀ c ∈ children, Fine c)
    (cls : Cls) (P0 D : List Char) (k : Nat) (extP extD extPD : Ext) (h : ParagraphPair cls P0 D k extP extD extPD) :
    docRule cls extPD (mergeLinters (children.map fun c => c.rule env)) ((P0 ++ List.replicate k '\n') ++ D) =
      joinE (P0 ++ List.replicate k '\n').length
        (docRule cls extP (mergeLinters (children.map fun c => c.rule env)) (P0 ++ List.replicate k '\n'))
        (docRule cls extD (mergeLinters (children.map fun c => c.rule env)) D) :=
  mergedRule_paragraphs_separately env children (fun c hcm => FineE.of_fine env c (hc c hcm)) cls P0 D k extP extD extPD h

/-! ## the four rules -/

theorem hopHope_paragraphs_separately (env : Env) (cls : Cls) (P0 D : List Char) (k : Nat) (extP extD extPD : Ext)
    (h : ParagraphPair cls P0 D k extP extD extPD) :
    docRule cls extPD (ruleHopHope env) ((P0 ++ List.replicate k '\n') ++ D) =
      joinE (P0 ++ List.replicate k '\n').length (docRule cls extP (ruleHopHope env) (P0 ++ List.replicate k '\n'))
        (docRule cls extD (ruleHopHope env) D) :=
  mergedRule_paragraphs_separately env _ (hopHope_children env) cls P0 D k extP extD extPD h

theorem letsConfusion_paragraphs_separately (env : Env) (cls : Cls) (P0 D : List Char) (k : Nat) (extP extD extPD : Ext)
    (h : ParagraphPair cls P0 D k extP extD extPD) :
    docRule cls extPD (ruleLetsConfusion env) ((P0 ++ List.replicate k '\n') ++ D) =
      joinE (P0 ++ List.replicate k '\n').length (docRule cls extP (ruleLetsConfusion env) (P0 ++ List.replicate k '\n'))
        (docRule cls extD (ruleLetsConfusion env) D) :=
  mergedRule_paragraphs_separately env _ (letsConfusion_children env) cls P0 D k extP extD extPD h

theorem pronounContraction_paragraphs_separately (env : Env) (hl : ContractLowerOK env) (cls : Cls) (P0 D : List Char) (k : Nat)
    (extP extD extPD : Ext) (h : ParagraphPair cls P0 D k extP extD extPD) :
    docRule cls extPD (rulePronounContraction env) ((P0 ++ List.replicate k '\n') ++ D) =
      joinE (P0 ++ List.replicate k '\n').length (docRule cls extP (rulePronounContraction env) (P0 ++ List.replicate k '\n'))
        (docRule cls extD (rulePronounContraction env) D) :=
  mergedRule_paragraphs_separately env _ (pronounContraction_children env hl) cls P0 D k extP extD extPD h

theorem compoundNouns_paragraphs_separately (env : Env) (hd : DictOK env) (cls : Cls) (P0 D : List Char) (k : Nat)
    (extP extD extPD : Ext) (h : ParagraphPair cls P0 D k extP extD extPD) :
    docRule cls extPD (ruleCompoundNouns env) ((P0 ++ List.replicate k '\n') ++ D) =
      joinE (P0 ++ List.replicate k '\n').length (docRule cls extP (ruleCompoundNouns env) (P0 ++ List.replicate k '\n'))
        (docRule cls extD (ruleCompoundNouns env) D) :=
  mergedRule_paragraphs_separately env _ (compoundNouns_children env hd) cls P0 D k extP extD extPD h

theorem lookup_mem {β} : ∀ (l : List (String × β)) (k : String) (v : β), l.lookup k = some v → (k, v) ∈ l
  | [], _, _, h => by cases h
  | (a, b) :: l, k, v, h => by
    simp only [List.lookup] at h
    split at h
    · rename_i heq
      simp only [Option.some.injEq] at h
      simp only [beq_iff_eq] at heq
      subst h; subst heq
      simp
    · exact List.mem_cons_of_mem _ (lookup_mem l k v h)

theorem mergedChildren_local : ∀ x ∈ allMergedRules, ∀ c ∈ x.2, c.pat.Loc ∧ SpecLoc c.spec := by
  intro x hx c hc
  have hall := allChildren_local
  simp only [allMergedRules, List.mem_cons, List.mem_nil_iff, or_false] at hx
  rcases hx with rfl | rfl | rfl | rfl
  · simp only [hopHopeChildren, List.mem_cons, List.mem_nil_iff, or_false] at hc
    rcases hc with rfl | rfl
    · exact hall ("ToHop", toHop) (by simp [allChildren])
    · exact hall ("ToHope", toHope) (by simp [allChildren])
  · simp only [compoundNounsChildren, List.mem_cons, List.mem_nil_iff, or_false] at hc
    rcases hc with rfl | rfl | rfl
    · exact hall ("GeneralCompoundNouns", generalCompoundNouns) (by simp [allChildren])
    · exact hall ("ImpliedInstantiatedCompoundNouns", impliedInstantiatedCompoundNouns) (by simp [allChildren])
    · exact hall ("ImpliedOwnershipCompoundNouns", impliedOwnershipCompoundNouns) (by simp [allChildren])
  · simp only [pronounContractionChildren, List.mem_cons, List.mem_nil_iff, or_false] at hc
    rcases hc with rfl | rfl
    · exact hall ("ShouldContract", shouldContract) (by simp [allChildren])
    · exact hall ("AvoidContraction", avoidContraction) (by simp [allChildren])
  · simp only [letsConfusionChildren, List.mem_cons, List.mem_nil_iff, or_false] at hc
    rcases hc with rfl | rfl
    · exact hall ("LetUsRedundancy", letUsRedundancy) (by simp [allChildren])
    · exact hall ("NoContractionWithVerb", noContractionWithVerb) (by simp [allChildren])

/-- the four rules for ANY dictionary and ANY `to_lowercase`: paragraph-local up to which panic is reported -/
theorem mergedRules_paragraphs_separately_anyEnv (env : Env) (name : String) (children : List PRule)
    (hn : mergedByName name = some children) (cls : Cls) (P0 D : List Char) (k : Nat) (extP extD extPD : Ext)
    (h : ParagraphPair cls P0 D k extP extD extPD) :
    SameOrBothPanic (docRule cls extPD (mergedRule env children) ((P0 ++ List.replicate k '\n') ++ D))
      (joinE (P0 ++ List.replicate k '\n').length (docRule cls extP (mergedRule env children) (P0 ++ List.replicate k '\n'))
        (docRule cls extD (mergedRule env children) D)) :=
  mergedRule_paragraphs_separately_anyEnv env children
    (fun c hc => mergedChildren_local (name, children) (lookup_mem _ name children hn) c hc) cls P0 D k extP extD extPD h

/-! ## non-vacuity (kernel-evaluated, through the model's own lexer) -/

open Harper.C02 (asciiCls)
open Harper.C01 (envM)

/-- the tokens of `I hop we.¶¶`, of `We hope on a bus`, and of the two joined (what `document` returns for them) -/
def hopP : List Tok :=
  [⟨⟨0, 1⟩, .word⟩, ⟨⟨1, 2⟩, .space 1⟩, ⟨⟨2, 5⟩, .word⟩, ⟨⟨5, 6⟩, .space 1⟩, ⟨⟨6, 8⟩, .word⟩, ⟨⟨8, 9⟩, .punct .Period⟩, ⟨⟨9, 11⟩, .paragraphBreak⟩]
def hopD : List Tok :=
  [⟨⟨0, 2⟩, .word⟩, ⟨⟨2, 3⟩, .space 1⟩, ⟨⟨3, 7⟩, .word⟩, ⟨⟨7, 8⟩, .space 1⟩, ⟨⟨8, 10⟩, .word⟩, ⟨⟨10, 11⟩, .space 1⟩, ⟨⟨11, 12⟩, .word⟩,
    ⟨⟨12, 13⟩, .space 1⟩, ⟨⟨13, 16⟩, .word⟩]

example : document asciiCls noExt c!"I hop we.\n\n" = .ok hopP := by decide

/-- HopHope on `I hop we.¶¶` + `We hope on a bus`: one lint per paragraph — and from DIFFERENT children (ToHope in `P`, ToHop in
`D`), so the candidate list of the whole is `[] ++ sh [hope] ++ [hop] ++ []`: `remove_overlaps` has to reorder -/
example : ruleHopHope envM (c!"I hop we.\n\n" ++ c!"We hope on a bus") (hopP ++ shiftDoc 11 hopP.length hopD) =
    .ok [⟨⟨2, 5⟩, [.replaceWith c!"hope"], 51, 0⟩, ⟨⟨14, 18⟩, [.replaceWith c!"hop"], 50, 0⟩] := by decide

example : ruleHopHope envM c!"I hop we.\n\n" hopP = .ok [⟨⟨2, 5⟩, [.replaceWith c!"hope"], 51, 0⟩] ∧
    ruleHopHope envM c!"We hope on a bus" hopD = .ok [⟨⟨3, 7⟩, [.replaceWith c!"hop"], 50, 0⟩] := by decide

/-! ## SpellCheck as a rule -/

open Harper.SpellRule

theorem spellCheck_appends (senv : SpellEnv) : Appends (ruleSpellCheck senv) := appends_perTok _ (spellTok_tokLocal senv)

/-- **C12 for SpellCheck without its cache, end to end** -/
theorem spellCheck_paragraphs_separately (senv : SpellEnv) (cls : Cls) (P0 D : List Char) (k : Nat) (extP extD extPD : Ext)
    (h : ParagraphPair cls P0 D k extP extD extPD) :
    docRule cls extPD (ruleSpellCheck senv) ((P0 ++ List.replicate k '\n') ++ D) =
      joinE (P0 ++ List.replicate k '\n').length (docRule cls extP (ruleSpellCheck senv) (P0 ++ List.replicate k '\n'))
        (docRule cls extD (ruleSpellCheck senv) D) :=
  separately_of_appends _ (spellCheck_appends senv) cls P0 D k extP extD extPD h

theorem cacheInv_empty (senv : SpellEnv) : CacheInv senv [] := fun e he => by cases he

/-- **the word cache is transparent**: any state satisfying the invariant, any capacity — same lints, same panics -/
theorem spellCheck_cache_transparent (senv : SpellEnv) (cap : Nat) (st : WordCache) (hi : CacheInv senv st) (src : List Char)
    (toks : List Tok) : (spellCheckLint senv cap st src toks).1 = ruleSpellCheck senv src toks :=
  (spellGo_spec senv id (keySound_id senv) cap src toks st ((keyInv_id senv st).mpr hi)).1

/-- **the invariant is preserved** by `lint` (also by a `lint` that panics half-way) -/
theorem spellCheck_cacheInv_preserved (senv : SpellEnv) (cap : Nat) (st : WordCache) (hi : CacheInv senv st) (src : List Char)
    (toks : List Tok) : CacheInv senv (spellCheckLint senv cap st src toks).2 :=
  (keyInv_id senv _).mp (spellGo_spec senv id (keySound_id senv) cap src toks st ((keyInv_id senv st).mpr hi)).2

/-- a long-lived instance, started with an empty cache, reports on every document of its history what a fresh one would -/
theorem spellCheck_session_transparent (senv : SpellEnv) (cap : Nat) (docs : List (List Char × List Tok)) :
    spellSession senv id cap [] docs = docs.map fun d => ruleSpellCheck senv d.1 d.2 :=
  spellSession_spec senv id (keySound_id senv) cap docs [] (keyInv_nil senv id)

/-- a cache keyed by `key word` is transparent when the suggestions factor through `key` -/
theorem spellCheck_anyKey_transparent (senv : SpellEnv) (key : List Char → List Char) (hk : KeySound senv key) (cap : Nat)
    (st : WordCache) (hi : KeyInv senv key st) (src : List Char) (toks : List Tok) :
    (spellGo senv key cap src st toks).1 = ruleSpellCheck senv src toks ∧ KeyInv senv key (spellGo senv key cap src st toks).2 :=
  spellGo_spec senv key hk cap src toks st hi

/-- `SpellCheck::lint` of an instance with cache `st` on `Document::new(src, &PlainEnglish, _)` -/
def docSpell (cls : Cls) (ext : Ext) (senv : SpellEnv) (cap : Nat) (st : WordCache) (src : List Char) : Except Panic (List RuleLint) :=
  match document cls ext src with
  | .error e => .error e
  | .ok toks => (spellCheckLint senv cap st src toks).1

theorem docSpell_eq (cls : Cls) (ext : Ext) (senv : SpellEnv) (cap : Nat) (st : WordCache) (hi : CacheInv senv st) (src : List Char) :
    docSpell cls ext senv cap st src = docRule cls ext (ruleSpellCheck senv) src := by
  simp only [docSpell, docRule]
  cases document cls ext src with
  | error e => rfl
  | ok toks => simp only [spellCheck_cache_transparent senv cap st hi]

/-- **C12 for SpellCheck with its cache**: three instances (or one instance at three moments of its life) with any caches that
satisfy the invariant, any capacities -/
theorem spellCheck_cached_paragraphs_separately (senv : SpellEnv) (capW capP capD : Nat) (stW stP stD : WordCache)
    (hW : CacheInv senv stW) (hP : CacheInv senv stP) (hD : CacheInv senv stD)
    (cls : Cls) (P0 D : List Char) (k : Nat) (extP extD extPD : Ext) (h : ParagraphPair cls P0 D k extP extD extPD) :
    docSpell cls extPD senv capW stW ((P0 ++ List.replicate k '\n') ++ D) =
      joinE (P0 ++ List.replicate k '\n').length (docSpell cls extP senv capP stP (P0 ++ List.replicate k '\n'))
        (docSpell cls extD senv capD stD D) := by
  rw [docSpell_eq cls extPD senv capW stW hW, docSpell_eq cls extP senv capP stP hP, docSpell_eq cls extD senv capD stD hD]
  exact spellCheck_paragraphs_separately senv cls P0 D k extP extD extPD h

open Harper.C01 (spellEnv0)

/-- the seeded change C12r3: the cache keyed by the lower-cased word -/
def lowerKey : List Char → List Char := fun w => w.map lowerAscii

/-- **a cache keyed by the lower-cased word is NOT transparent**: one instance lints `teh` and then `Teh`; the second document
gets the cached suggestions of `teh` (capitalised) instead of those of `Teh` -/
theorem lowercaseKey_not_transparent :
    spellSession spellEnv0 lowerKey 10000 [] [(c!"teh", [⟨⟨0, 3⟩, .word⟩]), (c!"Teh", [⟨⟨0, 3⟩, .word⟩])] =
        [.ok [⟨⟨0, 3⟩, [.replaceWith c!"ten", .replaceWith c!"tea", .replaceWith c!"tech"], 60, 0⟩],
          .ok [⟨⟨0, 3⟩, [.replaceWith c!"Ten", .replaceWith c!"Tea", .replaceWith c!"Tech"], 60, 0⟩]] ∧
      ruleSpellCheck spellEnv0 c!"Teh" [⟨⟨0, 3⟩, .word⟩] = .ok [⟨⟨0, 3⟩, [.replaceWith c!"Te", .replaceWith c!"Tet"], 60, 0⟩] := by decide

/-- … because the suggestions do not factor through that key -/
example : ¬ KeySound spellEnv0 lowerKey := by
  intro h
  have := h c!"teh" c!"Teh" (by decide)
  revert this
  decide

/-- … while the code's cache gives, for the same history, what two fresh instances give -/
example : spellSession spellEnv0 id 10000 [] [(c!"teh", [⟨⟨0, 3⟩, .word⟩]), (c!"Teh", [⟨⟨0, 3⟩, .word⟩])] =
    [.ok [⟨⟨0, 3⟩, [.replaceWith c!"ten", .replaceWith c!"tea", .replaceWith c!"tech"], 60, 0⟩],
      .ok [⟨⟨0, 3⟩, [.replaceWith c!"Te", .replaceWith c!"Tet"], 60, 0⟩]] := by decide

/-- a capacity of 1: the second word evicts the first, the third look-up is a miss again — same answers -/
example : (spellCheckLint spellEnv0 1 [] c!"teh Teh teh"
      [⟨⟨0, 3⟩, .word⟩, ⟨⟨3, 4⟩, .space 1⟩, ⟨⟨4, 7⟩, .word⟩, ⟨⟨7, 8⟩, .space 1⟩, ⟨⟨8, 11⟩, .word⟩]) =
    (ruleSpellCheck spellEnv0 c!"teh Teh teh"
      [⟨⟨0, 3⟩, .word⟩, ⟨⟨3, 4⟩, .space 1⟩, ⟨⟨4, 7⟩, .word⟩, ⟨⟨7, 8⟩, .space 1⟩, ⟨⟨8, 11⟩, .word⟩],
      [(c!"teh", [c!"ten", c!"tea", c!"tech", c!"the"])]) := by decide

end Harper.C12
