import Harper.Lemmas.MergeRules
import Harper.Lemmas.SpellRule
import Harper.Props.C01Rules
import Harper.Props.C03c
/-!
# C01 (`merge_linters!` rules) — HopHope, CompoundNouns, PronounContraction, LetsConfusion do not panic

`Model/MergeRules.lean` has the nine children (pattern tree + `match_to_lint` as a `Spec`) and the four merged rules
(`mergedRule` = the children in order, `remove_overlaps`), compared with the REAL structs on every run of the check
(`mrule`, `mchild`, `mrulem`, `mmtl`).

* `mergedRule_total`: a merged rule whose children are `FineE` for the `Env` at hand never panics on well-formed tokens inside
  the text (any order, zero-width ones included).
* `hopHope_total`, `letsConfusion_total`: no hypothesis about the `Env`.
* `pronounContraction_total`: under `ContractLowerOK env` (`char::to_lowercase` is right on `y o u r w e Y O U R W E`) —
  **ShouldContract's `panic!("The pattern in this linter should make a fall-through impossible.")` is unreachable**
  (`shouldContract_panic_unreachable`): the `WordSet` compares ignoring ASCII case and length, so a matched first token
  lower-cases to `your` / `were`. Without the law the arm IS reached (kernel-checked `Env` whose `to_lowercase` is the identity),
  and `match_to_lint` alone reaches it on any slice the pattern would not produce.
* `compoundNouns_total`: under `DictOK env` (every word the dictionary knows has a canonical capitalisation:
  `get_correct_capitalization_of(..).unwrap()` in `SplitCompoundWord::get_merged_word`); witness without it.

SpellCheck as a rule (`Model/SpellRule.lean`, op `spellr`):

* `spellCheck_total`: on well-formed tokens inside the text (any order) the rule returns, provided the uncached search does
  (`SuggestOK`: `get_word_metadata(v).unwrap()` on every fuzzy result — C15's subject); `spellCheck_cached_total`: the same for
  an instance with ANY cache state that satisfies the invariant and ANY capacity. Witnesses: `SuggestOK` is needed; a word token
  past the end of the text panics in `get_span_content`.
-/
namespace Harper.C01
open Harper Harper.Chunks Harper.Rules Harper.Leaves Harper.PatternRules Harper.MergeRules

/-- **a child that is `FineE` never panics** (pattern tree, `run_on_chunk`, `match_to_lint`), and reports inside the text -/
theorem mergeChild_total (env : Env) (c : PRule) (hc : FineE env c) (src : List Char) (toks : List Tok) (h : InText src toks) :
    ∃ ls, c.rule env src toks = .ok ls := (PRule.rule_okE env c hc src toks h).imp fun _ h => h.1

/-- **a `merge_linters!` rule over `FineE` children never panics** -/
theorem mergedRule_total (env : Env) (children : List PRule) (hc : ∀ c ∈ children, FineE env c) (src : List Char)
    (toks : List Tok) (h : InText src toks) : ∃ ls, mergedRule env children src toks = .ok ls := by
  apply C03.mergeLinters_total
  intro r hr
  obtain ⟨c, hcm, rfl⟩ := List.mem_map.mp hr
  exact PRule.rule_okE env c (hc c hcm) src toks h

/-- every `Fine` rule of `Props/C01Rules.lean` is `FineE` for every `Env`: the two notions agree where no `Env` law is needed -/
theorem fineE_of_fine (env : Env) (r : PRule) (hr : Fine r) : FineE env r := FineE.of_fine env r hr

theorem hopHope_total (env : Env) (src : List Char) (toks : List Tok) (h : InText src toks) :
    ∃ ls, ruleHopHope env src toks = .ok ls := mergedRule_total env _ (hopHope_children env) src toks h

theorem letsConfusion_total (env : Env) (src : List Char) (toks : List Tok) (h : InText src toks) :
    ∃ ls, ruleLetsConfusion env src toks = .ok ls := mergedRule_total env _ (letsConfusion_children env) src toks h

theorem pronounContraction_total (env : Env) (hl : ContractLowerOK env) (src : List Char) (toks : List Tok) (h : InText src toks) :
    ∃ ls, rulePronounContraction env src toks = .ok ls := mergedRule_total env _ (pronounContraction_children env hl) src toks h

theorem compoundNouns_total (env : Env) (hd : DictOK env) (src : List Char) (toks : List Tok) (h : InText src toks) :
    ∃ ls, ruleCompoundNouns env src toks = .ok ls := mergedRule_total env _ (compoundNouns_children env hd) src toks h

/-- the five children that need no `Env` law are `Fine` in the sense of `Props/C01Rules.lean` -/
theorem mergeChildren_fine : Fine toHop ∧ Fine toHope ∧ Fine avoidContraction ∧ Fine letUsRedundancy ∧ Fine noContractionWithVerb :=
  ⟨fineToHop, fineToHope, fineAvoidContraction, fineLetUsRedundancy, fineNoContractionWithVerb⟩

/-- **ShouldContract's `panic!` arm is unreachable**: on every match of its pattern (in-text tokens, any order)
`mistake_to_correct` finds `your` or `were` -/
theorem shouldContract_panic_unreachable (env : Env) (hl : ContractLowerOK env) (src : List Char) (rest : List Tok) (n : Nat)
    (hin : InText src rest) (hm : patShouldContract.matcher env src rest = .ok n) (hn : n ≠ 0) (hnl : n ≤ rest.length) :
    ∃ forms, contractForms env src (rest.take n) = .ok (some forms) :=
  contractForms_ok_on_match env hl src rest n hin hm hn hnl

/-- `get_merged_word` returns whenever its two indices are in range and the dictionary is `DictOK` -/
theorem getMergedWord_total (env : Env) (hd : DictOK env) (i j bit : Nat) (src : List Char) (matched : List Tok)
    (h : InText src matched) (hi : i < matched.length) (hj : j < matched.length) : ∃ o, mergedWord i j bit env src matched = .ok o :=
  mergedWord_ok env hd i j bit src matched h hi hj

/-- the index expressions `matched_tokens[2]`, `[4]`, `[2..]`, `[0..3]` of the compound-noun rules are in range: each tree
matches at least five tokens (a `SplitCompoundWord` answers 0 or 3) -/
example : patGeneralCompoundNouns.minLen = 5 ∧ patImpliedInstantiatedCompoundNouns.minLen = 5 ∧
    patImpliedOwnershipCompoundNouns.minLen = 5 ∧ patToHop.minLen = 7 ∧ patToHope.minLen = 5 ∧ patShouldContract.minLen = 5 := by decide

/-! ### every variable a child's `match_to_lint` uses is bound -/

/-- how many texts the children's own computations hand on: `mistake_to_correct` two, `get_merged_word` and `to_correct` one,
the `let's` guard none -/
theorem mergeCustomSteps_yield (n : Nat) : CustomYields n 1 toHopCorrect ∧ CustomYields n 2 contractForms ∧
    (∀ i j bit, CustomYields n 1 (mergedWord i j bit)) ∧ CustomYields n 0 letsGuard :=
  ⟨toHopCorrect_yields n, contractForms_yields n, fun i j bit => mergedWord_yields i j bit n, letsGuard_yields n⟩

/-- **every child's spec fits every number of tokens its tree can match** — index expressions in range and every `.var`
bound (ShouldContract's `.var 0`, `.var 1` by `mistake_to_correct`; the compound-noun rules' by the `.bind` of the original text
and by `get_merged_word`, both AFTER the span is taken) — for every `Env`, no law needed -/
theorem mergeChildren_fit : ∀ x ∈ allChildren, ∀ n, x.2.pat.minLen ≤ n → (∀ k, x.2.pat.maxLen = some k → n ≤ k) → x.2.spec.Fits n :=
  allChildren_fits

/-- **no child reads an unbound variable**: on any tokens of a number its tree can match, `match_to_lint` interpreted with the
default `[]` for an unbound `.var` is `match_to_lint` interpreted without it -/
theorem mergeChild_reads_bound_variables (env : Env) (name : String) (c : PRule) (hn : childByName name = some c)
    (src : List Char) (matched : List Tok) (hmin : c.pat.minLen ≤ matched.length)
    (hmax : ∀ k, c.pat.maxLen = some k → matched.length ≤ k) : c.spec.run? env src matched = some (c.spec.run env src matched) := by
  have hm : (name, c) ∈ allChildren := by
    simp only [childByName] at hn
    generalize allChildren = tbl at hn
    induction tbl with
    | nil => cases hn
    | cons a tbl ih =>
      simp only [List.lookup] at hn
      split at hn
      · rename_i heq
        simp only [Option.some.injEq] at hn
        subst hn
        have : name = a.1 := by simpa using heq
        subst this
        exact List.mem_cons_self
      · exact List.mem_cons_of_mem _ (ih hn)
  exact Spec.run?_eq env c.spec src matched (allChildren_fits _ hm _ hmin hmax)

/-- non-vacuity of `mergeChildren_fit` / `mergeChild_reads_bound_variables`: `"GeneralCompoundNouns"` is in the table, its tree
matches at least five tokens and has no upper bound in the model; its suggestion uses `.var 1` and `.var 0`, both bound in `after` -/
example : childByName "GeneralCompoundNouns" = some generalCompoundNouns ∧ generalCompoundNouns.pat.minLen ≤ 5 ∧
    generalCompoundNouns.pat.maxLen = none ∧ generalCompoundNouns.spec.before = [] ∧
    generalCompoundNouns.spec.suggs 5 = [.matchCase (.var 1) (.var 0)] := ⟨rfl, by decide, by decide, rfl, rfl⟩

/-- the tables have the nine children and the four rules, in declaration order -/
example : allChildren.map (·.1) = ["ToHop", "ToHope", "ShouldContract", "AvoidContraction", "LetUsRedundancy", "NoContractionWithVerb",
      "GeneralCompoundNouns", "ImpliedInstantiatedCompoundNouns", "ImpliedOwnershipCompoundNouns"] ∧
    allMergedRules.map (fun x => (x.1, x.2.length)) = [("HopHope", 2), ("CompoundNouns", 3), ("PronounContraction", 2), ("LetsConfusion", 2)] := by
  decide

/-! ## witnesses (kernel-evaluated) -/

open Harper.C12 (env0)

/-- a small dictionary: bit 0 preposition · 3 adjective · 4 determiner · 6 nominal · 7 verb · 8 noun · 12 pronoun · 14 not-plural
nominal · 15 known · 20 / 21 the compound-noun predicates · 22 auxiliary verb; every known word is its own canonical form -/
def mergeFlags : List (List Char × Nat) :=
  [(c!"the", 2^4 + 2^15), (c!"a", 2^4 + 2^15), (c!"best", 2^3 + 2^15), (c!"Your", 2^15),
   (c!"note", 2^6 + 2^8 + 2^15), (c!"book", 2^6 + 2^8 + 2^15), (c!"notebook", 2^6 + 2^8 + 2^15 + 2^20 + 2^21),
   (c!"is", 2^7 + 2^15 + 2^22), (c!"I", 2^6 + 2^12 + 2^14 + 2^15), (c!"we", 2^6 + 2^12 + 2^15), (c!"hop", 2^7 + 2^15),
   (c!"hope", 2^7 + 2^15), (c!"on", 2^0 + 2^15), (c!"bus", 2^6 + 2^8 + 2^14 + 2^15)]

def envM : Env :=
  { env0 with wordFlags := fun w => (mergeFlags.lookup w).getD 0, canonical := fun w => if (mergeFlags.lookup w).isSome then some w else none }

/-- `envM` satisfies both `Env` laws (the hypotheses of the two conditional theorems are satisfiable) -/
example : ContractLowerOK envM := fun _ _ => rfl

example : DictOK envM := by
  intro w h
  simp only [envM] at h ⊢
  cases hl : mergeFlags.lookup w with
  | none => rw [hl] at h; simp [flagBit] at h
  | some f => simp

/-- `Your the best`: ShouldContract offers `You're` / `You are` -/
example : rulePronounContraction envM c!"Your the best"
      [⟨⟨0, 4⟩, .word⟩, ⟨⟨4, 5⟩, .space 1⟩, ⟨⟨5, 8⟩, .word⟩, ⟨⟨8, 9⟩, .space 1⟩, ⟨⟨9, 13⟩, .word⟩] =
    .ok [⟨⟨0, 4⟩, [.replaceWith c!"You're", .replaceWith c!"You are"], 52, 0⟩] := by decide

/-- **`ContractLowerOK` is needed**: with a `to_lowercase` that leaves `Y` alone the same text reaches the `panic!` arm -/
example : rulePronounContraction { envM with lower := fun c => [c] } c!"Your the best"
      [⟨⟨0, 4⟩, .word⟩, ⟨⟨4, 5⟩, .space 1⟩, ⟨⟨5, 8⟩, .word⟩, ⟨⟨8, 9⟩, .space 1⟩, ⟨⟨9, 13⟩, .word⟩] = .error .assertFail := by decide

/-- `match_to_lint` of ShouldContract alone DOES panic on a slice its pattern cannot produce (`the`): the arm is guarded by the
pattern only -/
example : specShouldContract.run envM c!"the" [⟨⟨0, 3⟩, .word⟩] = .error .assertFail := by decide

/-- `a note book is`: GeneralCompoundNouns and ImpliedInstantiatedCompoundNouns both claim `note book`; `remove_overlaps` keeps
the first child's lint -/
example : ruleCompoundNouns envM c!"a note book is"
      [⟨⟨0, 1⟩, .word⟩, ⟨⟨1, 2⟩, .space 1⟩, ⟨⟨2, 6⟩, .word⟩, ⟨⟨6, 7⟩, .space 1⟩, ⟨⟨7, 11⟩, .word⟩, ⟨⟨11, 12⟩, .space 1⟩, ⟨⟨12, 14⟩, .word⟩] =
    .ok [⟨⟨2, 11⟩, [.replaceWith c!"notebook"], 56, 0⟩] := by decide

example : impliedInstantiatedCompoundNouns.rule envM c!"a note book is"
      [⟨⟨0, 1⟩, .word⟩, ⟨⟨1, 2⟩, .space 1⟩, ⟨⟨2, 6⟩, .word⟩, ⟨⟨6, 7⟩, .space 1⟩, ⟨⟨7, 11⟩, .word⟩, ⟨⟨11, 12⟩, .space 1⟩, ⟨⟨12, 14⟩, .word⟩] =
    .ok [⟨⟨2, 11⟩, [.replaceWith c!"notebook"], 57, 0⟩] := by decide

/-- **`DictOK` is needed**: a dictionary that knows `notebook` but has no canonical capitalisation of it — the `unwrap` panics -/
example : ruleCompoundNouns { envM with canonical := fun _ => none } c!"a note book is"
      [⟨⟨0, 1⟩, .word⟩, ⟨⟨1, 2⟩, .space 1⟩, ⟨⟨2, 6⟩, .word⟩, ⟨⟨6, 7⟩, .space 1⟩, ⟨⟨7, 11⟩, .word⟩, ⟨⟨11, 12⟩, .space 1⟩, ⟨⟨12, 14⟩, .word⟩] =
    .error .unwrapNone := by decide

/-- `I hop we hope on a bus`: ToHop (the FIRST child) reports `hope`, ToHope `hop`; the merged rule returns them in text order -/
example : ruleHopHope envM c!"I hop we hope on a bus"
      [⟨⟨0, 1⟩, .word⟩, ⟨⟨1, 2⟩, .space 1⟩, ⟨⟨2, 5⟩, .word⟩, ⟨⟨5, 6⟩, .space 1⟩, ⟨⟨6, 8⟩, .word⟩, ⟨⟨8, 9⟩, .space 1⟩, ⟨⟨9, 13⟩, .word⟩,
        ⟨⟨13, 14⟩, .space 1⟩, ⟨⟨14, 16⟩, .word⟩, ⟨⟨16, 17⟩, .space 1⟩, ⟨⟨17, 18⟩, .word⟩, ⟨⟨18, 19⟩, .space 1⟩, ⟨⟨19, 22⟩, .word⟩] =
    .ok [⟨⟨2, 5⟩, [.replaceWith c!"hope"], 51, 0⟩, ⟨⟨9, 13⟩, [.replaceWith c!"hop"], 50, 0⟩] := by decide

/-! ## SpellCheck as a rule -/

open Harper.SpellRule

/-- **SpellCheck never panics** on well-formed tokens inside the text when the uncached search does not -/
theorem spellCheck_total (senv : SpellEnv) (hs : SuggestOK senv) (src : List Char) (toks : List Tok) (h : InText src toks) :
    ∃ ls, ruleSpellCheck senv src toks = .ok ls :=
  (perTok_ok _ src.length src toks (fun t ht => spellTok_ok senv hs src t (h t ht))).imp fun _ h => h.1

/-- … whatever its `word_cache` holds (entries this rule produced for this dictionary) and whatever its capacity -/
theorem spellCheck_cached_total (senv : SpellEnv) (hs : SuggestOK senv) (cap : Nat) (st : WordCache) (hi : CacheInv senv st)
    (src : List Char) (toks : List Tok) (h : InText src toks) : ∃ ls, (spellCheckLint senv cap st src toks).1 = .ok ls := by
  obtain ⟨ls, e⟩ := spellCheck_total senv hs src toks h
  exact ⟨ls, by rw [spellCheckLint, (spellGo_spec senv id (keySound_id senv) cap src toks st ((keyInv_id senv st).mpr hi)).1, e]⟩

/-- a dictionary for three words: `teh` and `Teh` are unknown and get DIFFERENT suggestions, `xx` makes the search panic;
everything else is fine -/
def spellEnv0 : SpellEnv where
  data := fun w =>
    if w == c!"teh" then ⟨false, false, false, false, some [c!"ten", c!"tea", c!"tech", c!"the"]⟩
    else if w == c!"Teh" then ⟨false, false, false, false, some [c!"te", c!"tet"]⟩
    else if w == c!"xx" then ⟨false, false, false, false, none⟩
    else ⟨true, true, true, false, some []⟩
  isUpper := fun c => 'A' ≤ c && c ≤ 'Z'
  upperFirst := upperAscii

/-- `teh the Teh`: three suggestions at most, capitalised for the capitalised word -/
example : ruleSpellCheck spellEnv0 c!"teh the Teh" [⟨⟨0, 3⟩, .word⟩, ⟨⟨3, 4⟩, .space 1⟩, ⟨⟨4, 7⟩, .word⟩, ⟨⟨7, 8⟩, .space 1⟩, ⟨⟨8, 11⟩, .word⟩] =
    .ok [⟨⟨0, 3⟩, [.replaceWith c!"ten", .replaceWith c!"tea", .replaceWith c!"tech"], 60, 0⟩,
      ⟨⟨8, 11⟩, [.replaceWith c!"Te", .replaceWith c!"Tet"], 60, 0⟩] := by decide

/-- **`SuggestOK` is needed**: a fuzzy result the dictionary does not know — `unwrap` on `None` -/
example : ruleSpellCheck spellEnv0 c!"xx" [⟨⟨0, 2⟩, .word⟩] = .error .unwrapNone := by decide

/-- a word token past the end of the text: `get_span_content` panics -/
example : ruleSpellCheck spellEnv0 c!"teh" [⟨⟨0, 4⟩, .word⟩] = .error .sliceOOB := by decide

end Harper.C01

namespace Harper.C01
open Harper Harper.Chunks Harper.Rules Harper.Leaves Harper.PatternRules Harper.MergeRules

/-! ## w26: document-level link

The blanket `impl Linter for L: PatternLinter` (`for chunk in document.iter_chunks() { run_on_chunk(…) }`) in the two models:
`Pat.lintDoc` (kind codes; lists `(start, len)` at DOCUMENT token offsets) and `overPieces iterChunks` of `runOnChunkGo`
(tokens; what `PRule.rule` runs, with the rule's `match_to_lint`). -/

/-- **the token-level document run does what the kind-code document run lists**: when matcher and kind-code pattern agree
on the suffixes of every chunk of the document and `Pat.lintDoc` returns the matches `ms`, the token-level run is
`match_to_lint` on `&tokens[s..s + n]` — slices of the WHOLE token vector — for each `(s, n)` of `ms`, in order. -/
theorem lintDoc_link_ok (m : Matcher) (p : Pat) (src : List Char) (toks : List Tok)
    (hag : ∀ c ∈ Chunks.iterChunks toks, AgreeOn m p tokCode src c)
    (f : List Char → List Tok → Except Panic (List RuleLint))
    (ms : List (Nat × Nat)) (h : Pat.lintDoc p (toks.map tokCode) = .ok ms) :
    overPieces Chunks.iterChunks (fun src chunk => runOnChunkGo m f src 0 chunk) src toks = lintMatches f src toks ms := by
  unfold Pat.lintDoc at h
  rw [← iterChunks_tok_code] at h
  have := (lintChunks_sim m p tokCode src f (Chunks.iterChunks toks) [] hag).1 ms h
  rw [iterChunks_tok_flatten, List.nil_append] at this
  exact this

/-- … and when the kind-code document run panics, so does the token-level one (with the same panic if `match_to_lint` is
total) -/
theorem lintDoc_link_error (m : Matcher) (p : Pat) (src : List Char) (toks : List Tok)
    (hag : ∀ c ∈ Chunks.iterChunks toks, AgreeOn m p tokCode src c)
    (f : List Char → List Tok → Except Panic (List RuleLint))
    (e : Panic) (h : Pat.lintDoc p (toks.map tokCode) = .error e) :
    ∃ e', overPieces Chunks.iterChunks (fun src chunk => runOnChunkGo m f src 0 chunk) src toks = .error e' ∧
      ((∀ l, ∃ r, f src l = .ok r) → e' = e) := by
  unfold Pat.lintDoc at h
  rw [← iterChunks_tok_code] at h
  exact (lintChunks_sim m p tokCode src f (Chunks.iterChunks toks) [] hag).2 e h

/-- both cases in one equation, for a total `match_to_lint` -/
theorem lintDoc_link (m : Matcher) (p : Pat) (src : List Char) (toks : List Tok)
    (hag : ∀ c ∈ Chunks.iterChunks toks, AgreeOn m p tokCode src c)
    (f : List Char → List Tok → Except Panic (List RuleLint)) (hf : ∀ l, ∃ r, f src l = .ok r) :
    overPieces Chunks.iterChunks (fun src chunk => runOnChunkGo m f src 0 chunk) src toks =
      match Pat.lintDoc p (toks.map tokCode) with
      | .ok ms => lintMatches f src toks ms
      | .error e => .error e := by
  cases h : Pat.lintDoc p (toks.map tokCode) with
  | ok ms => exact lintDoc_link_ok m p src toks hag f ms h
  | error e =>
    obtain ⟨e', he', h'⟩ := lintDoc_link_error m p src toks hag f e h
    rw [he', h' hf]

/-- **`lintDoc_safe` carried over to the token level**: a matcher that agrees with a contract-keeping kind-code pattern makes
the document run `match_to_lint` over non-empty, in-range, increasing and pairwise disjoint token slices of the document
— no panic of `run_on_chunk` or of the chunk iterator -/
theorem lintDoc_link_safe (m : Matcher) (p : Pat) (hp : Pat.Contract p) (src : List Char) (toks : List Tok)
    (hag : ∀ c ∈ Chunks.iterChunks toks, AgreeOn m p tokCode src c)
    (f : List Char → List Tok → Except Panic (List RuleLint)) :
    ∃ ms, overPieces Chunks.iterChunks (fun src chunk => runOnChunkGo m f src 0 chunk) src toks = lintMatches f src toks ms ∧
      (∀ x ∈ ms, 1 ≤ x.2 ∧ x.1 + x.2 ≤ toks.length) ∧
      ms.Pairwise (fun a b => a.1 + a.2 ≤ b.1) := by
  obtain ⟨ms, hms, hb, hd⟩ := lintDoc_safe p hp (toks.map tokCode)
  refine ⟨ms, lintDoc_link_ok m p src toks hag f ms hms, ?_, hd⟩
  intro x hx
  have := hb x hx
  rwa [List.length_map] at this

/-- the same for a shipped-rule shape: **`PRule.rule env r`** (`Model/PatternRules.lean`; its matcher is `r.pat.matcher env`,
its `match_to_lint` is `r.spec.run env`) -/
theorem pruleRule_link_ok (env : Env) (r : PRule) (p : Pat) (src : List Char) (toks : List Tok)
    (hag : ∀ c ∈ Chunks.iterChunks toks, AgreeOn (r.pat.matcher env) p tokCode src c)
    (ms : List (Nat × Nat)) (h : Pat.lintDoc p (toks.map tokCode) = .ok ms) :
    PRule.rule env r src toks = lintMatches (r.spec.run env) src toks ms :=
  lintDoc_link_ok (r.pat.matcher env) p src toks hag (r.spec.run env) ms h

theorem pruleRule_link_error (env : Env) (r : PRule) (p : Pat) (src : List Char) (toks : List Tok)
    (hag : ∀ c ∈ Chunks.iterChunks toks, AgreeOn (r.pat.matcher env) p tokCode src c)
    (e : Panic) (h : Pat.lintDoc p (toks.map tokCode) = .error e) :
    ∃ e', PRule.rule env r src toks = .error e' ∧ ((∀ l, ∃ ls, r.spec.run env src l = .ok ls) → e' = e) :=
  lintDoc_link_error (r.pat.matcher env) p src toks hag (r.spec.run env) e h

theorem pruleRule_link_safe (env : Env) (r : PRule) (p : Pat) (hp : Pat.Contract p) (src : List Char) (toks : List Tok)
    (hag : ∀ c ∈ Chunks.iterChunks toks, AgreeOn (r.pat.matcher env) p tokCode src c) :
    ∃ ms, PRule.rule env r src toks = lintMatches (r.spec.run env) src toks ms ∧
      (∀ x ∈ ms, 1 ≤ x.2 ∧ x.1 + x.2 ≤ toks.length) ∧
      ms.Pairwise (fun a b => a.1 + a.2 ≤ b.1) :=
  lintDoc_link_safe (r.pat.matcher env) p hp src toks hag (r.spec.run env)

/-- **non-vacuity of `lintDoc_link_ok` / `lintDoc_link` / `lintDoc_link_safe`**: `word ws word` (`wordWsWord_agree`) over the
two-chunk document `a b, c d.` (9 tokens; chunks `a b,` and ` c d.`): the kind-code run lists `(0, 3), (5, 3)` at document
offsets, and the token-level run hands the recording `match_to_lint` tokens 0..3 and 5..8 of the document -/
example :
    let toks : List Tok := [⟨⟨0, 1⟩, .word⟩, ⟨⟨1, 2⟩, .space 1⟩, ⟨⟨2, 3⟩, .word⟩, ⟨⟨3, 4⟩, .punct .Comma⟩, ⟨⟨4, 5⟩, .space 1⟩,
      ⟨⟨5, 6⟩, .word⟩, ⟨⟨6, 7⟩, .space 1⟩, ⟨⟨7, 8⟩, .word⟩, ⟨⟨8, 9⟩, .punct .Period⟩]
    let m : Matcher := seqPat [kindAtom Kind.isWord, whitespaceAtom, kindAtom Kind.isWord]
    let p : Pat := .seq (.ofList [.leaf 0, .whitespace, .leaf 0])
    (∀ c ∈ Chunks.iterChunks toks, AgreeOn m p tokCode [] c) ∧ Pat.Contract p ∧ (∀ l, ∃ r, recordMatch [] l = .ok r) ∧
    (Chunks.iterChunks toks).length = 2 ∧
    Pat.lintDoc p (toks.map tokCode) = .ok [(0, 3), (5, 3)] ∧
    overPieces Chunks.iterChunks (fun src chunk => runOnChunkGo m recordMatch src 0 chunk) [] toks =
      .ok [⟨⟨0, 3⟩, [], 0, 3⟩, ⟨⟨5, 8⟩, [], 0, 3⟩] ∧
    lintMatches recordMatch [] toks [(0, 3), (5, 3)] = .ok [⟨⟨0, 3⟩, [], 0, 3⟩, ⟨⟨5, 8⟩, [], 0, 3⟩] := by
  refine ⟨fun c _ => (wordWsWord_agree []).agreeOn c, by simp [Pat.Contract, Pat.ContractL, PatList.ofList],
    fun l => ⟨_, rfl⟩, by decide, by decide, by decide, by decide⟩

/-- the panic case at document level (`lintDoc_link_error`): a leaf that answers 2 on a word — the second chunk ends in a
word, both document runs panic in `&chunk[c..c + n]` -/
example :
    let toks : List Tok := [⟨⟨0, 1⟩, .punct .Comma⟩, ⟨⟨1, 2⟩, .space 1⟩, ⟨⟨2, 3⟩, .word⟩]
    let m : Matcher := fun _ ts => .ok (if (ts.head?.map (·.kind.isWord)).getD false then 2 else 0)
    let p : Pat := .fn (fun ks => if ks.head? = some 0 then 2 else 0)
    (∀ c ∈ Chunks.iterChunks toks, AgreeOn m p tokCode [] c) ∧
    Pat.lintDoc p (toks.map tokCode) = .error .sliceOOB ∧
    overPieces Chunks.iterChunks (fun src chunk => runOnChunkGo m recordMatch src 0 chunk) [] toks = .error .sliceOOB := by
  refine ⟨?_, by decide, by decide⟩
  intro c _ k _
  show _ = Pat.matchLen (.fn _) _
  simp only [Pat.matchLen]
  cases c.drop k with
  | nil => rfl
  | cons t ts =>
    simp only [List.head?_cons, Option.map_some, Option.getD_some, List.map_cons, tokCode, isWord_code]
    congr 1
    simp

/-! ### `Agree` for every combinator of the kind-code model -/

/-- **`RepeatingPattern` in the two models**: the different fuel conventions (`len + 1` in `Condense.repPat`, `len + 2` in
`Pat.matchLen (.rep …)`) and the different place of the slice panic (at once / one iteration later) do not show: a child that
agrees makes repetitions that agree, contract or not (`Rules.repPat_agree`, `repGo_agree`) -/
theorem rep_agree (inner : Matcher) (p : Pat) (src : List Char) (h : Agree inner p tokCode src) (req : Nat) :
    Agree (repPat inner req) (.rep p req) tokCode src := repPat_agree inner p tokCode src h req

/-- … also when the child breaks the contract: both loops end in the slice panic -/
example : repPat (fun _ _ => .ok 2) 0 [] [⟨⟨0, 1⟩, .word⟩] = .error .sliceOOB ∧
    Pat.matchLen (.rep (.fn (fun _ => 2)) 0) [0] = .error .sliceOOB ∧
    repPat (kindAtom Kind.isWord) 1 [] [⟨⟨0, 1⟩, .word⟩, ⟨⟨1, 2⟩, .word⟩, ⟨⟨2, 3⟩, .space 1⟩] = .ok 2 ∧
    Pat.matchLen (.rep (.leaf 0) 1) [0, 0, 1] = .ok 2 := by decide

/-- a tree with every combinator of the kind-code model — sequence, repetition, alternative, `All`, `Invert`,
`ConsumesRemainingPattern`, `AnyPattern`, whitespace, kind tests — agrees with its kind-code twin on EVERY token slice:
`Agree` is derivable, not only checkable -/
theorem allCombinators_agree (src : List Char) :
    Agree
      (seqPat [kindAtom Kind.isWord, whitespaceAtom,
        eitherPat [repPat (kindAtom Kind.isWord) 1, allPat [invertPat (kindAtom Kind.isWord), anyAtom]]])
      (.seq (.ofList [.leaf 0, .whitespace,
        .either (.ofList [.rep (.leaf 0) 1, .all (.ofList [.invert (.leaf 0), .any])])]))
      tokCode src := by
  have hw := kindAtom_isWord_agree src
  have hrep := repPat_agree _ _ tokCode src hw 1
  have hall : Agree (allPat [invertPat (kindAtom Kind.isWord), anyAtom]) (.all (.ofList [.invert (.leaf 0), .any])) tokCode src :=
    allPat_agree tokCode src [(invertPat (kindAtom Kind.isWord), .invert (.leaf 0)), (anyAtom, .any)] (by
      intro x hx
      simp only [List.mem_cons, List.mem_nil_iff, or_false] at hx
      rcases hx with rfl | rfl
      · exact invertPat_agree _ _ tokCode src hw
      · exact anyAtom_agree tokCode src)
  have heither := eitherPat_agree tokCode src
    [(repPat (kindAtom Kind.isWord) 1, .rep (.leaf 0) 1),
     (allPat [invertPat (kindAtom Kind.isWord), anyAtom], .all (.ofList [.invert (.leaf 0), .any]))] (by
      intro x hx
      simp only [List.mem_cons, List.mem_nil_iff, or_false] at hx
      rcases hx with rfl | rfl
      · exact hrep
      · exact hall)
  have hc : MContract (eitherPat [repPat (kindAtom Kind.isWord) 1, allPat [invertPat (kindAtom Kind.isWord), anyAtom]]) src := by
    intro toks n hn
    have := heither toks
    simp only [List.map_cons, List.map_nil] at this
    rw [hn] at this
    obtain ⟨n', hn', hle⟩ := matches_safe (.either (.ofList [.rep (.leaf 0) 1, .all (.ofList [.invert (.leaf 0), .any])]))
      (by simp [Pat.Contract, Pat.ContractL, PatList.ofList]) (toks.map tokCode)
    rw [hn'] at this
    cases this
    rwa [List.length_map] at hle
  exact seqPat_agree tokCode src
    [(kindAtom Kind.isWord, .leaf 0), (whitespaceAtom, .whitespace),
     (eitherPat [repPat (kindAtom Kind.isWord) 1, allPat [invertPat (kindAtom Kind.isWord), anyAtom]],
      .either (.ofList [.rep (.leaf 0) 1, .all (.ofList [.invert (.leaf 0), .any])]))] (by
      intro x hx
      simp only [List.mem_cons, List.mem_nil_iff, or_false] at hx
      rcases hx with rfl | rfl | rfl
      · exact ⟨hw, kindAtom_contract _ src⟩
      · exact ⟨whitespaceAtom_agree src, whitespaceAtom_contract src⟩
      · exact ⟨heither, hc⟩)

/-- evaluated: `a bb` and `a .` both match whole (3 tokens), in both models -/
example :
    seqPat [kindAtom Kind.isWord, whitespaceAtom,
      eitherPat [repPat (kindAtom Kind.isWord) 1, allPat [invertPat (kindAtom Kind.isWord), anyAtom]]] []
      [⟨⟨0, 1⟩, .word⟩, ⟨⟨1, 2⟩, .space 1⟩, ⟨⟨2, 3⟩, .punct .Period⟩] = .ok 3 ∧
    Pat.matchLen (.seq (.ofList [.leaf 0, .whitespace,
      .either (.ofList [.rep (.leaf 0) 1, .all (.ofList [.invert (.leaf 0), .any])])])) [0, 1, 2] = .ok 3 := by decide

end Harper.C01
