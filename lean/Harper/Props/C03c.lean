import Harper.Lemmas.Leaves
import Harper.Props.C03b
import Harper.Props.C01Leaves
import Harper.Props.C12c
/-!
# C03 / C01 (generic rule constructions) — every phrase-correction rule points into the text and does not panic

For the generic constructions of `Model/Leaves.lean` (compared with the shipped rules row by row on
every run of the check):

* `replace_with_match_case_length` / `_only_case`: the suggestion `MapPhraseLinter` offers has the length of
  the correct form and differs from it only by ASCII case;
* `mapPhrase_spans_wf` / `mapPhrase_total`: for EVERY pattern tree over the real leaves without the three
  demanding patterns (`plain` — every tree of `phrase_corrections.rs` and `closed_compounds.rs` is), on
  well-formed tokens inside the text IN ANY ORDER, zero-width ones included (so also on what the
  Markdown front-end delivers), the `MapPhraseLinter` returns, and every lint has `start ≤ stop ≤ len`;
  `mapPhrase_spans_wf_full`: for every tree whatsoever on tiling tokens with words of ≤ 254 characters;
* `mapPhrase_span_is_match`: the lint's span is exactly `TokenStringExt::span` of the matched tokens, and its
  suggestions are the correct forms re-cased after the matched text;
* `phraseCorrection_spans_wf`, `closedCompound_spans_wf`: the table rows, whatever their phrases;
* `properNoun_spans_wf` / `properNoun_total`: `ProperNounCapitalizationLinter` — including the `unwrap` of its
  second `PatternMap::lookup` on the truncated slice, which is safe because an `ExactPhrase` that matched a
  slice matches the matched prefix again (`phrase_prefix_stable`);
* `mergeLinters_spans_wf`, `mergeLinters_disjoint`: `merge_linters!` of rules that return in-range lints
  returns in-range, pairwise disjoint lints.
-/
namespace Harper.C03
open Harper Harper.Chunks Harper.Rules Harper.Leaves

/-! ## `Suggestion::replace_with_match_case` -/

/-- the suggestion has the length of the correct form -/
theorem replace_with_match_case_length (env : Env) : ∀ (value template : List Char), (matchCase env value template).length = value.length
  | [], [] => rfl
  | [], _ :: _ => rfl
  | _ :: _, [] => rfl
  | v :: vs, t :: ts => by simp only [matchCase, List.length_cons, replace_with_match_case_length env vs ts]

/-- … and every character of it is the correct form's character, or its ASCII upper- or lower-case variant -/
theorem replace_with_match_case_only_case (env : Env) : ∀ (value template : List Char) (i : Nat) (c : Char),
    (matchCase env value template)[i]? = some c →
      ∃ v, value[i]? = some v ∧ (c = v ∨ c = upperAscii v ∨ c = lowerAscii v)
  | [], [], i, c, h => by simp [matchCase] at h
  | [], _ :: _, i, c, h => by simp [matchCase] at h
  | v :: vs, [], i, c, h => ⟨c, h, .inl rfl⟩
  | v :: vs, t :: ts, 0, c, h => by
    simp only [matchCase, List.getElem?_cons_zero, Option.some.injEq] at h
    refine ⟨v, rfl, ?_⟩
    subst h
    split
    · split
      · exact .inr (.inl rfl)
      · exact .inr (.inr rfl)
    · exact .inl rfl
  | v :: vs, t :: ts, i + 1, c, h => by
    simp only [matchCase, List.getElem?_cons_succ] at h
    obtain ⟨w, hw, hc⟩ := replace_with_match_case_only_case env vs ts i c h
    exact ⟨w, by simpa using hw, hc⟩

/-- the template only matters up to the length of the correct form -/
example : matchCase C12.env0 ['i', 'n', 't', 'a', 'c', 't'] ['I', 'N', ' ', 'T', 'A', 'C', 'T'] = ['I', 'N', 't', 'A', 'C', 'T'] := by decide

/-! ## `MapPhraseLinter` -/

/-- **every `MapPhraseLinter` over a plain tree, on tokens in any order**: no `Span::new` / `get_content` /
slice / `unwrap` panic anywhere in pattern, `run_on_chunk` or `match_to_lint`, and `start ≤ stop ≤ len` -/
theorem mapPhrase_spans_wf (env : Env) (p : RPat) (hp : p.plain = true) (forms : List (List Char)) (src : List Char)
    (toks : List Tok) (h : InText src toks) : RunsWF (ruleMapPhrase env p forms) src toks :=
  overPieces_okh inText_hyp _ _ src toks h
    (fun piece hpc => mapPhrasePiece_ok inText_hyp env p (side_of_plain env _ p hp) forms src piece hpc)

theorem mapPhrase_total (env : Env) (p : RPat) (hp : p.plain = true) (forms : List (List Char)) (src : List Char)
    (toks : List Tok) (h : InText src toks) : ∃ ls, ruleMapPhrase env p forms src toks = .ok ls :=
  (mapPhrase_spans_wf env p hp forms src toks h).imp fun _ h => h.1

/-- tiling tokens are in the text -/
theorem inText_of_tiles (src : List Char) (toks : List Tok) (h : Tiles toks 0 src.length) : InText src toks :=
  fun t ht => ⟨Nat.le_of_lt ((ord_of_tiles toks _ h).2 t ht).1, ((ord_of_tiles toks _ h).2 t ht).2⟩

/-- **every `MapPhraseLinter` whatsoever** (also over `SimilarToPhrase`, `SplitCompoundWord`, `IsNotTitleCase`) on
the tokens of a plain-English document whose words have at most 254 characters -/
theorem mapPhrase_spans_wf_full (env : Env) (hd : DictOK env) (hc : CanonOK env) (p : RPat) (hw : WordsShort env p)
    (forms : List (List Char)) (src : List Char) (toks : List Tok) (h : Tiles toks 0 src.length)
    (hs : ShortWords env src toks) : RunsWF (ruleMapPhrase env p forms) src toks :=
  overPieces_okh (orderedShort_hyp env) _ _ src toks ⟨ord_of_tiles toks _ h, hs⟩
    (fun piece hpc => mapPhrasePiece_ok (orderedShort_hyp env) env p (side_full env hd hc p hw) forms src piece hpc)

theorem mapPhrase_total_full (env : Env) (hd : DictOK env) (hc : CanonOK env) (p : RPat) (hw : WordsShort env p)
    (forms : List (List Char)) (src : List Char) (toks : List Tok) (h : Tiles toks 0 src.length)
    (hs : ShortWords env src toks) : ∃ ls, ruleMapPhrase env p forms src toks = .ok ls :=
  (mapPhrase_spans_wf_full env hd hc p hw forms src toks h hs).imp fun _ h => h.1

/-- **where the lint is, and what it suggests**: the span of the matched tokens, and per correct form the form
re-cased after the text under that span (same length as the form, only ASCII case changed) -/
theorem mapPhrase_span_is_match (env : Env) (forms : List (List Char)) (src : List Char) (m : List Tok)
    (ls : List RuleLint) (h : mapPhraseMatch env forms src m = .ok ls) (l : RuleLint) (hl : l ∈ ls) :
    spanOf m = some l.span ∧ ∃ txt, l.span.getContent src = .ok txt ∧
      l.suggs = forms.map (fun f => .replaceWith (matchCase env f txt)) :=
  mapPhraseMatch_shape env forms src m l ls h hl

/-- **every row of `phrase_corrections.rs`**, whatever its phrases and corrections -/
theorem phraseCorrection_spans_wf (env : Env) (docs : List (List Char × List Tok)) (p : RPat)
    (hp : exactPhrasesOf env docs = some p) (forms : List (List Char)) (src : List Char) (toks : List Tok)
    (h : InText src toks) : RunsWF (ruleMapPhrase env p forms) src toks :=
  mapPhrase_spans_wf env p (C01.exactPhrases_plain env docs p hp) forms src toks h

/-- **every row of `closed_compounds.rs`** -/
theorem closedCompound_spans_wf (env : Env) (psrc : List Char) (ptoks : List Tok) (good : List Char) (r : PieceRule)
    (hr : ruleClosedCompound env psrc ptoks good = some r) (src : List Char) (toks : List Tok) (h : InText src toks) :
    RunsWF r src toks := by
  simp only [ruleClosedCompound, Option.map_eq_some_iff] at hr
  obtain ⟨p, hp, rfl⟩ := hr
  exact mapPhrase_spans_wf env p (C01.exactPhrase_plain env psrc ptoks p hp) [good] src toks h

theorem closedCompound_total (env : Env) (psrc : List Char) (ptoks : List Tok) (good : List Char) (r : PieceRule)
    (hr : ruleClosedCompound env psrc ptoks good = some r) (src : List Char) (toks : List Tok) (h : InText src toks) :
    ∃ ls, r src toks = .ok ls := (closedCompound_spans_wf env psrc ptoks good r hr src toks h).imp fun _ h => h.1


/-! ## `ProperNounCapitalizationLinter` -/

/-- **an `ExactPhrase` that matched a slice matches the matched prefix again** — why the `unwrap` of the second
`PatternMap::lookup` (on `matched_tokens`, not on the rest of the chunk) cannot fail -/
theorem phrase_prefix_stable (env : Env) (psrc : List Char) (ptoks : List Tok) (p : RPat)
    (hp : exactPhraseOf env psrc ptoks = some p) (src : List Char) (ts : List Tok) (n : Nat)
    (h : p.matcher env src ts = .ok n) (hn : n ≠ 0) : p.matcher env src (ts.take n) = .ok n :=
  Leaves.phrase_prefix_stable env p (exactPhrase_isPhrase env psrc ptoks p hp) src ts n h hn

/-- **the proper-noun linter for ANY rows built from canonical documents**, on well-formed tokens inside the text
in any order: no panic (both lookups, `get_content` of every matched token, the span), `start ≤ stop ≤ len` -/
theorem properNoun_spans_wf (env : Env) (rows : List PNRow) (hrows : ∀ r ∈ rows, IsPhrasePat r.pat) (src : List Char)
    (toks : List Tok) (h : InText src toks) : RunsWF (ruleProperNoun env rows) src toks :=
  overPieces_okh inText_hyp _ _ src toks h (fun piece hpc => properNounPiece_ok inText_hyp env rows hrows src piece hpc)

theorem properNoun_total (env : Env) (rows : List PNRow) (hrows : ∀ r ∈ rows, IsPhrasePat r.pat) (src : List Char)
    (toks : List Tok) (h : InText src toks) : ∃ ls, ruleProperNoun env rows src toks = .ok ls :=
  (properNoun_spans_wf env rows hrows src toks h).imp fun _ h => h.1

/-- **every entry of `proper_noun_rules.json`**, whatever its canonical versions -/
theorem properNounRule_spans_wf (env : Env) (docs : List (List Char × List Tok)) (rows : List PNRow)
    (hrows : docs.mapM (fun d => pnRowOf env d.1 d.2) = some rows) (src : List Char) (toks : List Tok)
    (h : InText src toks) : RunsWF (ruleProperNoun env rows) src toks := by
  apply properNoun_spans_wf env rows _ src toks h
  intro r hr
  obtain ⟨d, _, hrd⟩ := mapM_some_mem _ _ _ hrows r hr
  simp only [pnRowOf, Option.map_eq_some_iff] at hrd
  obtain ⟨p, hp, rfl⟩ := hrd
  exact exactPhrase_isPhrase env d.1 d.2 p hp

/-- the `unwrap` is NOT safe for arbitrary keys: a `PatternMap` whose key looks past its match — here
`All [word, Invert(ConsumesRemaining(any))]`: "a word that is not the last token" — returns 1 on `a b`, but finds no
row for the one-token slice it is then asked about -/
example : (RPat.all (.cons (.leaf (.kind .word false)) (.cons (.invert (.consumes (.leaf .any))) .nil))).matcher C12.env0 ['a', ' ', 'b']
      [⟨⟨0, 1⟩, .word⟩, ⟨⟨1, 2⟩, .space 1⟩, ⟨⟨2, 3⟩, .word⟩] = .ok 1 ∧
    properNounMatch C12.env0 [⟨.all (.cons (.leaf (.kind .word false)) (.cons (.invert (.consumes (.leaf .any))) .nil)), [], []⟩]
      ['a', ' ', 'b'] ([⟨⟨0, 1⟩, .word⟩, ⟨⟨1, 2⟩, .space 1⟩, ⟨⟨2, 3⟩, .word⟩].take 1) = .error .unwrapNone := by decide

/-! ## `merge_linters!` -/

/-- `merge_linters!` of rules that return in-range lints returns in-range lints -/
theorem mergeLinters_spans_wf (rs : List PieceRule) (src : List Char) (toks : List Tok)
    (h : ∀ r ∈ rs, RunsWF r src toks) : RunsWF (mergeLinters rs) src toks :=
  mergeLinters_ok rs src toks src.length h

theorem mergeLinters_total (rs : List PieceRule) (src : List Char) (toks : List Tok)
    (h : ∀ r ∈ rs, RunsWF r src toks) : ∃ ls, mergeLinters rs src toks = .ok ls :=
  (mergeLinters_spans_wf rs src toks h).imp fun _ h => h.1

/-- **what a `merge_linters!` rule returns is pairwise disjoint** (each lint ends before the next starts) when its
children report well-formed spans: `remove_overlaps` (`C13.removeOverlaps_disjoint`) -/
theorem mergeLinters_disjoint (rs : List PieceRule) (src : List Char) (toks : List Tok) (ls : List RuleLint)
    (h : mergeLinters rs src toks = .ok ls)
    (hwf : ∀ cands, collectE (fun (r : PieceRule) => r src toks) rs = .ok cands → ∀ c ∈ cands, c.span.start ≤ c.span.stop) :
    ls.Pairwise (fun a b => a.span.stop ≤ b.span.start) := by
  simp only [mergeLinters] at h
  cases hc : collectE (fun (r : PieceRule) => r src toks) rs with
  | error e => rw [hc] at h; cases h
  | ok cands =>
    rw [hc] at h
    simp only [Except.map, Except.ok.injEq] at h
    subst h
    have hw : ∀ x ∈ tagLints 0 cands, x.s ≤ x.e := by
      intro x hx
      obtain ⟨_, _, c, hcm, h1, h2⟩ := tagLints_mem 0 cands x hx
      rw [← h1, ← h2]
      exact hwf cands hc c (List.mem_of_getElem? hcm)
    have hd := C13.removeOverlaps_disjoint (tagLints 0 cands) hw
    have hd' : (removeOverlaps (tagLints 0 cands)).Pairwise
        (fun a b => (a ∈ tagLints 0 cands ∧ b ∈ tagLints 0 cands) ∧ a.e ≤ b.s) := by
      refine (List.Pairwise.and_mem.mp hd).imp ?_
      intro a b hab
      exact ⟨⟨removeOverlaps_mem _ a hab.1, removeOverlaps_mem _ b hab.2.1⟩, hab.2.2⟩
    unfold removeOverlapsRL
    refine List.Pairwise.filterMap _ ?_ hd'
    intro a a' haa b hb b' hb'
    obtain ⟨_, _, c, hcm, h1, h2⟩ := tagLints_mem 0 cands a haa.1.1
    obtain ⟨_, _, c', hcm', h1', h2'⟩ := tagLints_mem 0 cands a' haa.1.2
    simp only [Nat.sub_zero] at hcm hcm'
    rw [hcm] at hb
    rw [hcm'] at hb'
    cases hb
    cases hb'
    rw [h2, h1']
    exact haa.2

/-- **`merge_linters!` of rules that return in-range lints**: returns, in range AND pairwise disjoint — `mergeLinters_disjoint`
without its side hypothesis on the candidates (they come from the children, `collectE_mem`) -/
theorem mergeLinters_wf_disjoint (rs : List PieceRule) (src : List Char) (toks : List Tok)
    (h : ∀ r ∈ rs, RunsWF r src toks) :
    ∃ ls, mergeLinters rs src toks = .ok ls ∧ (∀ l ∈ ls, l.span.start ≤ l.span.stop ∧ l.span.stop ≤ src.length) ∧
      ls.Pairwise (fun a b => a.span.stop ≤ b.span.start) := by
  obtain ⟨ls, e, hl⟩ := mergeLinters_spans_wf rs src toks h
  refine ⟨ls, e, hl, mergeLinters_disjoint rs src toks ls e ?_⟩
  intro cands hc c hcm
  obtain ⟨r, hr, a, ha, hca⟩ := collectE_mem _ rs cands hc c hcm
  obtain ⟨ls', e', hl'⟩ := h r hr
  rw [e'] at ha
  cases ha
  exact (hl' c hca).1

/-- two `MapPhraseLinter`s merged: `in tact` and `tact now` both claim `tact`; `remove_overlaps` keeps the first -/
example : mergeLinters [ruleMapPhrase C12.env0 C12.intactPat [['i', 'n', 't', 'a', 'c', 't']],
      ruleMapPhrase C12.env0 (.seq (.cons (.leaf (.anyCap ['t', 'a', 'c', 't'])) (.cons (.leaf .whitespace) (.cons (.leaf (.anyCap ['n', 'o', 'w'])) .nil))))
        [['n', 'o', 'w']]]
      ['i', 'n', ' ', 't', 'a', 'c', 't', ' ', 'n', 'o', 'w']
      [⟨⟨0, 2⟩, .word⟩, ⟨⟨2, 3⟩, .space 1⟩, ⟨⟨3, 7⟩, .word⟩, ⟨⟨7, 8⟩, .space 1⟩, ⟨⟨8, 11⟩, .word⟩] =
    .ok [⟨⟨0, 7⟩, [.replaceWith ['i', 'n', 't', 'a', 'c', 't']], 13, 0⟩] := by decide

/-! ## non-vacuity (kernel-evaluated) -/

open Harper.C12 (env0 noExt docRule intactPat)
open Harper.C02 (asciiCls)

/-- tokens of the Markdown parser's shape — a zero-width `ParagraphBreak` at an EARLIER offset after the words
(what broke `LongSentences`): `InText` holds of them (no order is asked), and the lint is in range -/
example : InText ['#', ' ', 'i', 'n', ' ', 't', 'a', 'c', 't']
    [⟨⟨2, 4⟩, .word⟩, ⟨⟨4, 5⟩, .space 1⟩, ⟨⟨5, 9⟩, .word⟩, ⟨⟨2, 2⟩, .paragraphBreak⟩] := by
  intro t ht
  simp only [List.mem_cons, List.mem_nil_iff, or_false] at ht
  rcases ht with rfl | rfl | rfl | rfl <;> exact ⟨by decide, by decide⟩

example : ruleMapPhrase env0 intactPat [['i', 'n', 't', 'a', 'c', 't']] ['#', ' ', 'i', 'n', ' ', 't', 'a', 'c', 't']
      [⟨⟨2, 4⟩, .word⟩, ⟨⟨4, 5⟩, .space 1⟩, ⟨⟨5, 9⟩, .word⟩, ⟨⟨2, 2⟩, .paragraphBreak⟩] =
    .ok [⟨⟨2, 9⟩, [.replaceWith ['i', 'n', 't', 'a', 'c', 't']], 13, 0⟩] := by decide

/-! ## non-vacuity, continued (w22 audit): every hypothesis-carrying theorem of this file at a concrete, non-trivial value -/

/-- the in-text (indeed tiling) tokens of `We In  tact now.` (`C01.srcIntact`, `C01.toksIntact`) -/
theorem inText_weIntact : InText C01.srcIntact C01.toksIntact :=
  inText_of_tiles _ _ (by decide)

/-- non-vacuity of `mapPhrase_spans_wf` / `mapPhrase_total`, applied: a plain tree on in-text tokens, and the value -/
example : RunsWF (ruleMapPhrase env0 intactPat [['i', 'n', 't', 'a', 'c', 't']]) C01.srcIntact C01.toksIntact :=
  mapPhrase_spans_wf env0 intactPat (by decide) _ _ _ inText_weIntact
example : ruleMapPhrase env0 intactPat [['i', 'n', 't', 'a', 'c', 't']] C01.srcIntact C01.toksIntact =
    .ok [⟨⟨3, 11⟩, [.replaceWith ['I', 'n', 't', 'a', 'c', 't']], 13, 0⟩] := by decide

/-- non-vacuity of `mapPhrase_span_is_match`: its hypotheses at the three matched tokens `In  tact`, and the theorem applied -/
example : spanOf ((C01.toksIntact.drop 2).take 3) = some ⟨3, 11⟩ ∧
    ∃ txt, (⟨3, 11⟩ : Span).getContent C01.srcIntact = .ok txt ∧
      [Sugg.replaceWith ['I', 'n', 't', 'a', 'c', 't']] = [['i', 'n', 't', 'a', 'c', 't']].map (fun f => .replaceWith (matchCase env0 f txt)) :=
  mapPhrase_span_is_match env0 [['i', 'n', 't', 'a', 'c', 't']] C01.srcIntact ((C01.toksIntact.drop 2).take 3)
    [⟨⟨3, 11⟩, [.replaceWith ['I', 'n', 't', 'a', 'c', 't']], 13, 0⟩] (by decide) _ (List.mem_singleton.mpr rfl)

/-- non-vacuity of `phraseCorrection_spans_wf`: a row with two phrases (`in tact`, `we in`), applied, and the value -/
example : exactPhrasesOf env0 [C01.phIntact, (['w', 'e', ' ', 'i', 'n'], [⟨⟨0, 2⟩, .word⟩, ⟨⟨2, 3⟩, .space 1⟩, ⟨⟨3, 5⟩, .word⟩])] =
      some (.either (.cons intactPat (.cons (.seq (.cons (.leaf (.anyCap ['w', 'e'])) (.cons (.leaf .whitespace) (.cons (.leaf (.anyCap ['i', 'n'])) .nil)))) .nil))) ∧
    RunsWF (ruleMapPhrase env0 (.either (.cons intactPat (.cons (.seq (.cons (.leaf (.anyCap ['w', 'e'])) (.cons (.leaf .whitespace) (.cons (.leaf (.anyCap ['i', 'n'])) .nil)))) .nil)))
      [['x']]) C01.srcIntact C01.toksIntact ∧
    ruleMapPhrase env0 (.either (.cons intactPat (.cons (.seq (.cons (.leaf (.anyCap ['w', 'e'])) (.cons (.leaf .whitespace) (.cons (.leaf (.anyCap ['i', 'n'])) .nil)))) .nil)))
      [['x']] C01.srcIntact C01.toksIntact = .ok [⟨⟨0, 5⟩, [.replaceWith ['X']], 13, 0⟩] :=
  ⟨rfl, phraseCorrection_spans_wf env0 [C01.phIntact, (['w', 'e', ' ', 'i', 'n'], [⟨⟨0, 2⟩, .word⟩, ⟨⟨2, 3⟩, .space 1⟩, ⟨⟨3, 5⟩, .word⟩])]
    _ rfl _ _ _ inText_weIntact, by decide⟩

/-- non-vacuity of `closedCompound_spans_wf` / `closedCompound_total`: the row `in tact` → `intact`, applied
(the value is that of `ruleMapPhrase env0 intactPat`, computed above) -/
example : ruleClosedCompound env0 C01.phIntact.1 C01.phIntact.2 ['i', 'n', 't', 'a', 'c', 't'] =
      some (ruleMapPhrase env0 intactPat [['i', 'n', 't', 'a', 'c', 't']]) ∧
    RunsWF (ruleMapPhrase env0 intactPat [['i', 'n', 't', 'a', 'c', 't']]) C01.srcIntact C01.toksIntact ∧
    ∃ ls, ruleMapPhrase env0 intactPat [['i', 'n', 't', 'a', 'c', 't']] C01.srcIntact C01.toksIntact = .ok ls :=
  ⟨rfl, closedCompound_spans_wf env0 C01.phIntact.1 C01.phIntact.2 ['i', 'n', 't', 'a', 'c', 't'] _ rfl _ _ inText_weIntact,
    closedCompound_total env0 C01.phIntact.1 C01.phIntact.2 ['i', 'n', 't', 'a', 'c', 't'] _ rfl _ _ inText_weIntact⟩

/-- non-vacuity of `phrase_prefix_stable`, applied: `in tact` matches 3 of the 6 tokens from `In` on, and again the first 3 alone -/
example : intactPat.matcher env0 C01.srcIntact ((C01.toksIntact.drop 2).take 3) = .ok 3 :=
  phrase_prefix_stable env0 C01.phIntact.1 C01.phIntact.2 intactPat rfl C01.srcIntact (C01.toksIntact.drop 2) 3 (by decide) (by decide)

/-- non-vacuity of `properNounRule_spans_wf`, `properNoun_spans_wf`, `properNoun_total`: the entry with the one canonical
version `In Tact`; its row is a phrase pattern; the theorems applied; and the value: the two-blank `In  tact` is flagged -/
example : [((['I', 'n', ' ', 'T', 'a', 'c', 't'], [⟨⟨0, 2⟩, .word⟩, ⟨⟨2, 3⟩, .space 1⟩, ⟨⟨3, 7⟩, .word⟩]) : List Char × List Tok)].mapM
      (fun d => pnRowOf env0 d.1 d.2) =
      some [⟨.seq (.cons (.leaf (.anyCap ['I', 'n'])) (.cons (.leaf .whitespace) (.cons (.leaf (.anyCap ['T', 'a', 'c', 't'])) .nil))),
        [['I', 'n'], [' '], ['T', 'a', 'c', 't']], ['I', 'n', ' ', 'T', 'a', 'c', 't']⟩] ∧
    (∀ r ∈ [(⟨.seq (.cons (.leaf (.anyCap ['I', 'n'])) (.cons (.leaf .whitespace) (.cons (.leaf (.anyCap ['T', 'a', 'c', 't'])) .nil))),
        [['I', 'n'], [' '], ['T', 'a', 'c', 't']], ['I', 'n', ' ', 'T', 'a', 'c', 't']⟩ : PNRow)], IsPhrasePat r.pat) ∧
    RunsWF (ruleProperNoun env0 [⟨.seq (.cons (.leaf (.anyCap ['I', 'n'])) (.cons (.leaf .whitespace) (.cons (.leaf (.anyCap ['T', 'a', 'c', 't'])) .nil))),
        [['I', 'n'], [' '], ['T', 'a', 'c', 't']], ['I', 'n', ' ', 'T', 'a', 'c', 't']⟩]) C01.srcIntact C01.toksIntact ∧
    ruleProperNoun env0 [⟨.seq (.cons (.leaf (.anyCap ['I', 'n'])) (.cons (.leaf .whitespace) (.cons (.leaf (.anyCap ['T', 'a', 'c', 't'])) .nil))),
        [['I', 'n'], [' '], ['T', 'a', 'c', 't']], ['I', 'n', ' ', 'T', 'a', 'c', 't']⟩] C01.srcIntact C01.toksIntact =
      .ok [⟨⟨3, 11⟩, [.replaceWith ['I', 'n', ' ', 'T', 'a', 'c', 't']], 14, 0⟩] := by
  have hrows : ∀ r ∈ [(⟨.seq (.cons (.leaf (.anyCap ['I', 'n'])) (.cons (.leaf .whitespace) (.cons (.leaf (.anyCap ['T', 'a', 'c', 't'])) .nil))),
        [['I', 'n'], [' '], ['T', 'a', 'c', 't']], ['I', 'n', ' ', 'T', 'a', 'c', 't']⟩ : PNRow)], IsPhrasePat r.pat := by
    intro r hr
    rw [List.mem_singleton] at hr
    subst hr
    exact exactPhrase_isPhrase env0 ['I', 'n', ' ', 'T', 'a', 'c', 't'] [⟨⟨0, 2⟩, .word⟩, ⟨⟨2, 3⟩, .space 1⟩, ⟨⟨3, 7⟩, .word⟩] _ rfl
  refine ⟨rfl, hrows, ?_, by decide⟩
  have h1 := properNounRule_spans_wf env0 [(['I', 'n', ' ', 'T', 'a', 'c', 't'], [⟨⟨0, 2⟩, .word⟩, ⟨⟨2, 3⟩, .space 1⟩, ⟨⟨3, 7⟩, .word⟩])]
    _ rfl C01.srcIntact C01.toksIntact inText_weIntact
  have h2 := properNoun_spans_wf env0 _ hrows C01.srcIntact C01.toksIntact inText_weIntact
  have _h3 := properNoun_total env0 _ hrows C01.srcIntact C01.toksIntact inText_weIntact
  exact h2

/-- non-vacuity of `mergeLinters_spans_wf` / `_total` / `_disjoint` / `_wf_disjoint`, applied to the two `MapPhraseLinter`s of
the `example` above (their results overlap in `tact`; the value is computed there) -/
example : ∃ ls, mergeLinters [ruleMapPhrase env0 intactPat [['i', 'n', 't', 'a', 'c', 't']],
      ruleMapPhrase env0 (.seq (.cons (.leaf (.anyCap ['t', 'a', 'c', 't'])) (.cons (.leaf .whitespace) (.cons (.leaf (.anyCap ['n', 'o', 'w'])) .nil))))
        [['n', 'o', 'w']]] C01.srcIntact C01.toksIntact = .ok ls ∧
    (∀ l ∈ ls, l.span.start ≤ l.span.stop ∧ l.span.stop ≤ C01.srcIntact.length) ∧
    ls.Pairwise (fun a b => a.span.stop ≤ b.span.start) := by
  apply mergeLinters_wf_disjoint
  intro r hr
  simp only [List.mem_cons, List.mem_nil_iff, or_false] at hr
  rcases hr with rfl | rfl
  · exact mapPhrase_spans_wf env0 _ (by decide) _ _ _ inText_weIntact
  · exact mapPhrase_spans_wf env0 _ (by decide) _ _ _ inText_weIntact

/-- **non-vacuity of `mapPhrase_spans_wf_full` / `mapPhrase_total_full`** — `DictOK`, `CanonOK`, `WordsShort`, `Tiles`, `ShortWords`
TOGETHER and none of them trivially: a dictionary that knows `Intact` (a noun) and the proper noun `tact` (canonical `Tact`), a
NON-plain tree (`SplitCompoundWord`, `IsNotTitleCase` around `in tact`, `SimilarToPhrase` of `im tact`), the tiling tokens of
`We In  tact now.`; the linter flags `In  tact`. (`C12.env0` knows no word: there `DictOK` and `CanonOK` hold for want of any entry.) -/
theorem mapPhrase_full_witness : ∃ (env : Env) (p : RPat) (forms : List (List Char)) (src : List Char) (toks : List Tok),
    DictOK env ∧ CanonOK env ∧ WordsShort env p ∧ Tiles toks 0 src.length ∧ ShortWords env src toks ∧ p.plain = false ∧
    ruleMapPhrase env p forms src toks = .ok [⟨⟨3, 11⟩, [.replaceWith ['I', 'n', 't', 'a', 'c', 't']], 13, 0⟩] := by
  refine ⟨{ env0 with
      wordFlags := fun w => if w = ['I', 'n', 't', 'a', 'c', 't'] then 33024 else if w = ['t', 'a', 'c', 't'] then 32800 else 0
      canonical := fun w => if w = ['I', 'n', 't', 'a', 'c', 't'] then some ['I', 'n', 't', 'a', 'c', 't']
        else if w = ['t', 'a', 'c', 't'] then some ['T', 'a', 'c', 't'] else none },
    .either (.cons (.leaf (.splitCompound 8))
      (.cons (.notTitleCase (.seq (.cons (.leaf (.anyCap ['i', 'n'])) (.cons (.leaf .whitespace) (.cons (.leaf (.anyCap ['t', 'a', 'c', 't'])) .nil)))))
      (.cons (.similar (.seq (.cons (.leaf (.anyCap ['i', 'm'])) (.cons (.leaf .whitespace) (.cons (.leaf (.anyCap ['t', 'a', 'c', 't'])) .nil))))
        (.seq (.cons (.leaf (.withinEdit ['i', 'm'] 1)) (.cons (.leaf .whitespace) (.cons (.leaf (.withinEdit ['t', 'a', 'c', 't'] 1)) .nil))))) .nil))),
    [['i', 'n', 't', 'a', 'c', 't']], C01.srcIntact, C01.toksIntact, ?_, ?_, ?_, ?_, ?_, ?_, ?_⟩
  · intro w h
    dsimp only at h ⊢
    split
    · simp
    · split
      · simp
      · rename_i h1 h2; simp [h1, h2] at h; revert h; decide
  · intro w c h
    dsimp only at h
    split at h
    · cases h; subst_vars; decide
    · split at h
      · cases h; subst_vars; decide
      · cases h
  · simp only [WordsShort, WordsShortL, Leaf.wordsShort, and_true, true_and]
    decide
  · decide
  · unfold ShortWords; decide
  all_goals decide

/-- the two theorems applied to that value -/
example : ∃ (env : Env) (p : RPat) (forms : List (List Char)) (src : List Char) (toks : List Tok), p.plain = false ∧
    RunsWF (ruleMapPhrase env p forms) src toks ∧ ∃ ls, ruleMapPhrase env p forms src toks = .ok ls := by
  obtain ⟨env, p, forms, src, toks, hd, hc, hw, ht, hs, hp, _⟩ := mapPhrase_full_witness
  exact ⟨env, p, forms, src, toks, hp, mapPhrase_spans_wf_full env hd hc p hw forms src toks ht hs,
    mapPhrase_total_full env hd hc p hw forms src toks ht hs⟩

end Harper.C03
