import Harper.Props.C13
/-!
# C13, third part — overlap removal as a function of the MULTISET of spans, and idempotence

The property quantifies over "all multisets of spans". `Props/C13.lean` proves its three clauses
for every list; what it leaves open is how far the answer depends on the ORDER in which the rules
happened to push their lints (a `LintGroup` iterates a hash map of rules). This file settles it:

* `removeOverlaps_spans_perm_invariant` — the list of spans kept is the same for every ordering
  of the input (only which of several lints with one and the same span survives depends on it,
  and that is fixed by `isort_stable`: the first in input order);
* `removeOverlaps_idempotent` — resolving an already resolved list changes nothing, so the JS
  API (`Linter::lint` after `LintGroup::lint`) and the CLI may apply it again without loss;
* `removeOverlaps_eq_self_of_resolved` — a key-sorted, conflict-free list is a fixed point, i.e.
  nothing is dropped unless there is a conflict.

No hypothesis on the lints (`start ≤ end` is not assumed).
-/
namespace Harper.C13
open Harper

/-- what overlap removal looks at: the span -/
def _root_.Harper.Lint.key (x : Lint) : Nat × Nat := (x.s, x.e)

/-- the sort order on keys (`Lint.le` only reads the key) -/
def keyLe (a b : Nat × Nat) : Prop := a.1 < b.1 ∨ (a.1 = b.1 ∧ b.2 ≤ a.2)

theorem keyLe_antisymm (a b : Nat × Nat) (h1 : keyLe a b) (h2 : keyLe b a) : a = b := by
  unfold keyLe at *
  rcases a with ⟨a1, a2⟩; rcases b with ⟨b1, b2⟩
  simp only at h1 h2
  have : a1 = b1 := by omega
  have : a2 = b2 := by omega
  subst_vars; rfl

theorem isort_keys_sorted (l : List Lint) : ((isort l).map Lint.key).Pairwise keyLe := by
  rw [List.pairwise_map]
  exact (isort_key_sorted l).imp (fun h => h)

/-- **the sorted key sequence is a function of the multiset of spans** — stated for two lists
whose KEY lists are permutations of each other (the payloads may differ altogether) -/
theorem isort_keys_keyperm_invariant (l₁ l₂ : List Lint)
    (h : (l₁.map Lint.key).Perm (l₂.map Lint.key)) :
    (isort l₁).map Lint.key = (isort l₂).map Lint.key := by
  apply List.Perm.eq_of_pairwise (le := keyLe)
  · intro a b _ _ h1 h2; exact keyLe_antisymm a b h1 h2
  · exact isort_keys_sorted l₁
  · exact isort_keys_sorted l₂
  · exact ((((isort_perm l₁).map Lint.key).trans h).trans ((isort_perm l₂).map Lint.key).symm)

theorem isort_keys_perm_invariant (l₁ l₂ : List Lint) (h : l₁.Perm l₂) :
    (isort l₁).map Lint.key = (isort l₂).map Lint.key :=
  isort_keys_keyperm_invariant l₁ l₂ (h.map _)

/-- the sweep reads spans only: lists with the same key sequence keep the same key sequence -/
theorem sweep_keys_congr (cur : Nat) (xs ys : List Lint)
    (h : xs.map Lint.key = ys.map Lint.key) :
    (sweep cur xs).1.map Lint.key = (sweep cur ys).1.map Lint.key := by
  induction xs generalizing cur ys with
  | nil =>
    cases ys with
    | nil => rfl
    | cons y ys => simp at h
  | cons x xs ih =>
    cases ys with
    | nil => simp at h
    | cons y ys =>
      simp only [List.map_cons, List.cons.injEq, Lint.key, Prod.mk.injEq] at h
      obtain ⟨⟨hs, he⟩, ht⟩ := h
      unfold sweep
      rw [hs, he]
      split
      · exact ih cur ys ht
      · simp only [List.map_cons, Lint.key, hs, he, List.cons.injEq, true_and]
        exact ih y.e ys ht

/-- **C13 over multisets**, payload-free form: two lint lists whose span lists are permutations
of each other keep the same spans, in the same order. -/
theorem removeOverlaps_spans_keyperm_invariant (l₁ l₂ : List Lint)
    (h : (l₁.map Lint.key).Perm (l₂.map Lint.key)) :
    (removeOverlaps l₁).map Lint.key = (removeOverlaps l₂).map Lint.key := by
  have hlen : l₁.length = l₂.length := by simpa using h.length_eq
  unfold removeOverlaps
  by_cases h2 : l₁.length < 2
  · have h2' : l₂.length < 2 := by omega
    rw [if_pos h2, if_pos h2']
    match l₁, l₂, h2, h2', h with
    | [], [], _, _, _ => rfl
    | [x], [y], _, _, h =>
      simp only [List.map_cons, List.map_nil] at h ⊢
      rw [List.singleton_perm_singleton.mp h]
    | [], _ :: _, _, _, h => simp at h
    | _ :: _, [], _, _, h => simp at h
    | [_], _ :: _ :: _, _, h2', _ => simp at h2'; omega
    | _ :: _ :: _, _, h2, _, _ => simp at h2; omega
  · have h2' : ¬ l₂.length < 2 := by omega
    rw [if_neg h2, if_neg h2']
    simp only []
    rw [removeIndices_sweepIdx, removeIndices_sweepIdx]
    exact sweep_keys_congr 0 _ _ (isort_keys_keyperm_invariant l₁ l₂ h)

/-- **C13 over multisets**: the spans that survive overlap removal, in order, do not depend on
the order in which the lints were handed over. -/
theorem removeOverlaps_spans_perm_invariant (l₁ l₂ : List Lint) (h : l₁.Perm l₂) :
    (removeOverlaps l₁).map Lint.key = (removeOverlaps l₂).map Lint.key :=
  removeOverlaps_spans_keyperm_invariant l₁ l₂ (h.map _)

/-- non-vacuity: a non-trivial permutation with nested, touching, equal and zero-width spans -/
example : removeOverlaps [⟨0,5,1⟩, ⟨3,6,2⟩, ⟨5,5,3⟩, ⟨5,9,4⟩, ⟨2,2,5⟩, ⟨0,5,6⟩]
    = [⟨0,5,1⟩, ⟨5,9,4⟩] := by decide
example : removeOverlaps [⟨0,5,6⟩, ⟨2,2,5⟩, ⟨5,9,4⟩, ⟨5,5,3⟩, ⟨3,6,2⟩, ⟨0,5,1⟩]
    = [⟨0,5,6⟩, ⟨5,9,4⟩] := by decide

/-! ## Idempotence -/

/-- re-running the sweep on what it kept keeps all of it -/
theorem sweep_sweep (cur : Nat) (ls : List Lint) :
    sweep cur (sweep cur ls).1 = ((sweep cur ls).1, []) := by
  induction ls generalizing cur with
  | nil => simp [sweep]
  | cons l ls ih =>
    by_cases h : l.s < cur
    · have : (sweep cur (l :: ls)).1 = (sweep cur ls).1 := by
        conv => lhs; unfold sweep
        simp [h]
      rw [this]; exact ih cur
    · have : (sweep cur (l :: ls)).1 = l :: (sweep l.e ls).1 := by
        conv => lhs; unfold sweep
        simp [h]
      rw [this]
      conv => lhs; unfold sweep
      simp only [h, if_false]
      rw [ih l.e]

/-- inserting in front of a key-sorted list whose members all follow `x` is `cons` -/
theorem insertSorted_of_le_all (x : Lint) (ys : List Lint)
    (h : ∀ y ∈ ys, Lint.le x y = true) : insertSorted x ys = x :: ys := by
  cases ys with
  | nil => rfl
  | cons y ys => unfold insertSorted; rw [if_pos (h y List.mem_cons_self)]

/-- the stable sort leaves a key-sorted list alone -/
theorem isort_of_sorted (l : List Lint) (h : l.Pairwise (fun a b => Lint.le a b = true)) :
    isort l = l := by
  induction l with
  | nil => rfl
  | cons x xs ih =>
    have ⟨h1, h2⟩ := List.pairwise_cons.mp h
    simp only [isort]
    rw [ih h2]
    exact insertSorted_of_le_all x xs h1

theorem isort_le_sorted (l : List Lint) :
    (isort l).Pairwise (fun a b => Lint.le a b = true) := by
  refine (isort_key_sorted l).imp ?_
  intro a b h
  simpa only [Lint.le, Bool.or_eq_true, decide_eq_true_eq, Bool.and_eq_true, beq_iff_eq] using h

/-- the output of overlap removal is in key order -/
theorem removeOverlaps_le_sorted (l : List Lint) :
    (removeOverlaps l).Pairwise (fun a b => Lint.le a b = true) :=
  (isort_le_sorted l).sublist (removeOverlaps_sublist_isort l)

theorem removeOverlaps_eq_sweep (m : List Lint) :
    removeOverlaps m = if m.length < 2 then m else (sweep 0 (isort m)).1 := by
  unfold removeOverlaps
  split
  · rfl
  · simp only []; rw [removeIndices_sweepIdx]

/-- **idempotence**: resolving overlaps twice is resolving them once. -/
theorem removeOverlaps_idempotent (l : List Lint) :
    removeOverlaps (removeOverlaps l) = removeOverlaps l := by
  rw [removeOverlaps_eq_sweep (removeOverlaps l)]
  by_cases h2 : (removeOverlaps l).length < 2
  · rw [if_pos h2]
  · rw [if_neg h2, isort_of_sorted _ (removeOverlaps_le_sorted l)]
    -- `removeOverlaps l` is `(sweep 0 (isort l)).1`, since it has at least two members
    have hl : ¬ l.length < 2 := by
      intro hl
      apply h2
      rw [removeOverlaps_eq_sweep, if_pos hl]; exact hl
    have hro : removeOverlaps l = (sweep 0 (isort l)).1 := by
      rw [removeOverlaps_eq_sweep, if_neg hl]
    rw [hro, sweep_sweep]

/-- a key-sorted list in which every lint starts at or after the end of its predecessor is
returned unchanged: nothing is dropped without a conflict -/
theorem sweep_of_resolved (cur : Nat) (l : List Lint)
    (h0 : ∀ x ∈ l, cur ≤ x.s) (hd : l.Pairwise (fun a b => a.e ≤ b.s)) :
    (sweep cur l).1 = l := by
  induction l generalizing cur with
  | nil => simp [sweep]
  | cons x xs ih =>
    have ⟨h1, h2⟩ := List.pairwise_cons.mp hd
    have hx : ¬ x.s < cur := by have := h0 x List.mem_cons_self; omega
    unfold sweep
    simp only [hx, if_false]
    rw [ih x.e h1 h2]

theorem removeOverlaps_eq_self_of_resolved (l : List Lint)
    (hs : l.Pairwise (fun a b => Lint.le a b = true))
    (hd : l.Pairwise (fun a b => a.e ≤ b.s)) : removeOverlaps l = l := by
  unfold removeOverlaps
  split
  · rfl
  · simp only []
    rw [removeIndices_sweepIdx, isort_of_sorted l hs]
    exact sweep_of_resolved 0 l (fun _ _ => Nat.zero_le _) hd

/-- the hypotheses are met by a concrete list with touching and zero-width spans -/
example : ([⟨0,5,1⟩, ⟨5,5,3⟩, ⟨6,9,4⟩] : List Lint).Pairwise (fun a b => Lint.le a b = true) ∧
    ([⟨0,5,1⟩, ⟨5,5,3⟩, ⟨6,9,4⟩] : List Lint).Pairwise (fun a b => a.e ≤ b.s) := by decide

end Harper.C13
