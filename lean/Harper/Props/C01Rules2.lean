import Harper.Props.C03e
/-!
# C01 (hand-written rules, batch 2) — the struct rules do not panic

Panics are values of `Model/Rules2.lean` (`Span::new`, `get_span_content`, `unwrap`, slice indexing, the
checked `conj_index - 2` of OxfordComma); "never panics" is `∃ ls, rule … = .ok ls`.

* `<rule>_total`: on the tokens of a document (`Tiles toks 0 src.length`) each of the thirteen modelled rules
  returns. The four rules around a pattern tree also return on well-formed tokens inside the text in ANY order
  (`…_total_any_order`: what the Markdown front-end delivers).
* OxfordComma returns under `ConjOK` (every word `WordSet[and, or, nor]` accepts is a conjunction for the
  dictionary; monitored on every real document) and PANICS without it (`oxfordComma_panics_without_conj`: the
  match `so, cat and dog` for a dictionary that does not know `and`).
* The rules that index the whole document need the text order of the tokens (witness for CommaFixes).
* `spelledNumbers_total_any`: SpelledNumbers and AvoidCurses cannot panic on any tokens whatsoever: they never
  fetch text through a span (`spell_out_number(value as u64).unwrap()` is reached for `value < 10` only).
-/
namespace Harper.C01
open Harper Harper.Chunks Harper.Rules Harper.Leaves Harper.Rules2
open Harper.C03 (RunsWF)
open Harper.C12 (env0)

theorem spelledNumbers_total (env : Env) (src : List Char) (toks : List Tok) (h : Tiles toks 0 src.length) :
    ∃ ls, ruleSpelledNumbers env src toks = .ok ls := (C03.spelledNumbers_spans_wf env src toks h).imp fun _ h => h.1
/-- non-vacuity of `spelledNumbers_total`: the tokens of `i ate 9.` tile the text and the rule fires -/
example : Tiles [⟨⟨0, 1⟩, .word⟩, ⟨⟨1, 2⟩, .space 1⟩, ⟨⟨2, 5⟩, .word⟩, ⟨⟨5, 6⟩, .space 1⟩, ⟨⟨6, 7⟩, .number 10 none⟩, ⟨⟨7, 8⟩, .punct .Period⟩] 0 (['i', ' ', 'a', 't', 'e', ' ', '9', '.']).length ∧
    ruleSpelledNumbers ({ env0 with numVal := fun _ => .int 9 }) ['i', ' ', 'a', 't', 'e', ' ', '9', '.']
      [⟨⟨0, 1⟩, .word⟩, ⟨⟨1, 2⟩, .space 1⟩, ⟨⟨2, 5⟩, .word⟩, ⟨⟨5, 6⟩, .space 1⟩, ⟨⟨6, 7⟩, .number 10 none⟩, ⟨⟨7, 8⟩, .punct .Period⟩] =
    .ok [⟨⟨6, 7⟩, [.replaceWith ['n', 'i', 'n', 'e']], 21, 0⟩] := by decide

/-- no hypothesis at all: the rule never touches the source through a span -/
theorem spelledNumbers_total_any (env : Env) (src : List Char) (toks : List Tok) : ∃ ls, ruleSpelledNumbers env src toks = .ok ls := by
  have : ∀ t, ∃ ls, spelledNumbersTok env src t = .ok ls := by
    intro t
    simp only [spelledNumbersTok]
    cases hk : t.kind with
    | number r s =>
      cases s with
      | some s => exact ⟨[], rfl⟩
      | none =>
        simp only []
        cases env.numVal (textOf src t.span) with
        | nonInt => exact ⟨[], rfl⟩
        | int n =>
          simp only []
          split
          · rename_i hn
            rcases (by omega : n = 0 ∨ n = 1 ∨ n = 2 ∨ n = 3 ∨ n = 4 ∨ n = 5 ∨ n = 6 ∨ n = 7 ∨ n = 8 ∨ n = 9) with
              rfl | rfl | rfl | rfl | rfl | rfl | rfl | rfl | rfl | rfl <;> exact ⟨_, rfl⟩
          · exact ⟨[], rfl⟩
    | _ => exact ⟨[], rfl⟩
  obtain ⟨ls, e, _⟩ := collectE_ok (fun _ => True) (spelledNumbersTok env src) toks (fun t _ => by
    obtain ⟨ls, e⟩ := this t
    exact ⟨ls, e, fun _ _ => trivial⟩)
  exact ⟨ls, e⟩

theorem avoidCurses_total_any (env : Env) (src : List Char) (toks : List Tok) : ∃ ls, ruleAvoidCurses env src toks = .ok ls := by
  obtain ⟨ls, e, _⟩ := collectE_ok (fun _ => True) (avoidCursesTok env src) toks (fun t _ => by
    simp only [avoidCursesTok]
    split
    · exact ⟨_, rfl, fun _ _ => trivial⟩
    · exact ⟨_, rfl, fun _ _ => trivial⟩)
  exact ⟨ls, e⟩

theorem capitalizePersonalPronouns_total (env : Env) (src : List Char) (toks : List Tok) (h : Tiles toks 0 src.length) :
    ∃ ls, ruleCapitalizePersonalPronouns env src toks = .ok ls :=
  (C03.capitalizePersonalPronouns_spans_wf env src toks h).imp fun _ h => h.1
/-- non-vacuity of `capitalizePersonalPronouns_total`: the tokens of `i ate 9.` tile the text and the rule fires -/
example : Tiles [⟨⟨0, 1⟩, .word⟩, ⟨⟨1, 2⟩, .space 1⟩, ⟨⟨2, 5⟩, .word⟩, ⟨⟨5, 6⟩, .space 1⟩, ⟨⟨6, 7⟩, .number 10 none⟩, ⟨⟨7, 8⟩, .punct .Period⟩] 0 (['i', ' ', 'a', 't', 'e', ' ', '9', '.']).length ∧
    ruleCapitalizePersonalPronouns (env0) ['i', ' ', 'a', 't', 'e', ' ', '9', '.']
      [⟨⟨0, 1⟩, .word⟩, ⟨⟨1, 2⟩, .space 1⟩, ⟨⟨2, 5⟩, .word⟩, ⟨⟨5, 6⟩, .space 1⟩, ⟨⟨6, 7⟩, .number 10 none⟩, ⟨⟨7, 8⟩, .punct .Period⟩] =
    .ok [⟨⟨0, 1⟩, [.replaceWith ['I']], 22, 0⟩] := by decide

/-- a word token that reaches past the text: `get_span_content` panics -/
example : ruleCapitalizePersonalPronouns C12.env0 ['i'] [⟨⟨0, 2⟩, .word⟩] = .error .sliceOOB := by decide

theorem avoidCurses_total (env : Env) (src : List Char) (toks : List Tok) (h : Tiles toks 0 src.length) :
    ∃ ls, ruleAvoidCurses env src toks = .ok ls := (C03.avoidCurses_spans_wf env src toks h).imp fun _ h => h.1
/-- non-vacuity of `avoidCurses_total`: the tokens of `damn it` tile the text and the rule fires -/
example : Tiles [⟨⟨0, 4⟩, .word⟩, ⟨⟨4, 5⟩, .space 1⟩, ⟨⟨5, 7⟩, .word⟩] 0 (['d', 'a', 'm', 'n', ' ', 'i', 't']).length ∧
    ruleAvoidCurses ({ env0 with wordFlags := fun w => if w == ['d', 'a', 'm', 'n'] then 262144 else 0 }) ['d', 'a', 'm', 'n', ' ', 'i', 't']
      [⟨⟨0, 4⟩, .word⟩, ⟨⟨4, 5⟩, .space 1⟩, ⟨⟨5, 7⟩, .word⟩] =
    .ok [⟨⟨0, 4⟩, [], 23, 0⟩] := by decide

theorem wordPressDotcom_total (env : Env) (src : List Char) (toks : List Tok) (h : Tiles toks 0 src.length) :
    ∃ ls, ruleWordPressDotcom env src toks = .ok ls := (C03.wordPressDotcom_spans_wf env src toks h).imp fun _ h => h.1
/-- non-vacuity of `wordPressDotcom_total`: the tokens of `wordpress.com` tile the text and the rule fires -/
example : Tiles [⟨⟨0, 13⟩, .hostname⟩] 0 (['w', 'o', 'r', 'd', 'p', 'r', 'e', 's', 's', '.', 'c', 'o', 'm']).length ∧
    ruleWordPressDotcom (env0) ['w', 'o', 'r', 'd', 'p', 'r', 'e', 's', 's', '.', 'c', 'o', 'm']
      [⟨⟨0, 13⟩, .hostname⟩] =
    .ok [⟨⟨0, 13⟩, [.replaceWith ['W', 'o', 'r', 'd', 'P', 'r', 'e', 's', 's', '.', 'c', 'o', 'm']], 24, 0⟩] := by decide

theorem linkingVerbs_total (env : Env) (src : List Char) (toks : List Tok) (h : Tiles toks 0 src.length) :
    ∃ ls, ruleLinkingVerbs env src toks = .ok ls := (C03.linkingVerbs_spans_wf env src toks h).imp fun _ h => h.1
/-- non-vacuity of `linkingVerbs_total`: the tokens of `quick is` tile the text and the rule fires -/
example : Tiles [⟨⟨0, 5⟩, .word⟩, ⟨⟨5, 6⟩, .space 1⟩, ⟨⟨6, 8⟩, .word⟩] 0 (['q', 'u', 'i', 'c', 'k', ' ', 'i', 's']).length ∧
    ruleLinkingVerbs ({ env0 with wordFlags := fun w => if w == ['q', 'u', 'i', 'c', 'k'] then 32768 else if w == ['i', 's'] then 2048 else 0 }) ['q', 'u', 'i', 'c', 'k', ' ', 'i', 's']
      [⟨⟨0, 5⟩, .word⟩, ⟨⟨5, 6⟩, .space 1⟩, ⟨⟨6, 8⟩, .word⟩] =
    .ok [⟨⟨6, 8⟩, [], 25, 0⟩] := by decide

theorem commaFixes_total (env : Env) (src : List Char) (toks : List Tok) (h : Tiles toks 0 src.length) :
    ∃ ls, ruleCommaFixes env src toks = .ok ls := (C03.commaFixes_spans_wf env src toks h).imp fun _ h => h.1
/-- non-vacuity of `commaFixes_total`: the tokens of `foo ,bar` tile the text and the rule fires -/
example : Tiles [⟨⟨0, 3⟩, .word⟩, ⟨⟨3, 4⟩, .space 1⟩, ⟨⟨4, 5⟩, .punct .Comma⟩, ⟨⟨5, 8⟩, .word⟩] 0 (['f', 'o', 'o', ' ', ',', 'b', 'a', 'r']).length ∧
    ruleCommaFixes (env0) ['f', 'o', 'o', ' ', ',', 'b', 'a', 'r']
      [⟨⟨0, 3⟩, .word⟩, ⟨⟨3, 4⟩, .space 1⟩, ⟨⟨4, 5⟩, .punct .Comma⟩, ⟨⟨5, 8⟩, .word⟩] =
    .ok [⟨⟨3, 5⟩, [.replaceWith [',', ' ']], 26, 5⟩] := by decide

/-- an EMPTY comma token: `get_content(source).first().unwrap()` on `None` -/
example : ruleCommaFixes C12.env0 ['a'] [⟨⟨0, 1⟩, .word⟩, ⟨⟨1, 1⟩, .punct .Comma⟩] = .error .unwrapNone := by decide

theorem mergeWords_total (env : Env) (src : List Char) (toks : List Tok) (h : Tiles toks 0 src.length) :
    ∃ ls, ruleMergeWords env src toks = .ok ls := (C03.mergeWords_spans_wf env src toks h).imp fun _ h => h.1
/-- non-vacuity of `mergeWords_total`: the tokens of `The refore` tile the text and the rule fires -/
example : Tiles [⟨⟨0, 3⟩, .word⟩, ⟨⟨3, 4⟩, .space 1⟩, ⟨⟨4, 10⟩, .word⟩] 0 (['T', 'h', 'e', ' ', 'r', 'e', 'f', 'o', 'r', 'e']).length ∧
    ruleMergeWords ({ env0 with wordFlags := fun w => if w == ['T', 'h', 'e', 'r', 'e', 'f', 'o', 'r', 'e'] then 524288 else 0 }) ['T', 'h', 'e', ' ', 'r', 'e', 'f', 'o', 'r', 'e']
      [⟨⟨0, 3⟩, .word⟩, ⟨⟨3, 4⟩, .space 1⟩, ⟨⟨4, 10⟩, .word⟩] =
    .ok [⟨⟨0, 10⟩, [.replaceWith ['T', 'h', 'e', 'r', 'e', 'f', 'o', 'r', 'e']], 27, 0⟩] := by decide

theorem adjectiveOfA_total (env : Env) (src : List Char) (toks : List Tok) (h : Tiles toks 0 src.length) :
    ∃ ls, ruleAdjectiveOfA env src toks = .ok ls := (C03.adjectiveOfA_spans_wf env src toks h).imp fun _ h => h.1
/-- non-vacuity of `adjectiveOfA_total`: the tokens of `big  of a` tile the text and the rule fires -/
example : Tiles [⟨⟨0, 3⟩, .word⟩, ⟨⟨3, 5⟩, .space 2⟩, ⟨⟨5, 7⟩, .word⟩, ⟨⟨7, 8⟩, .space 1⟩, ⟨⟨8, 9⟩, .word⟩] 0 (['b', 'i', 'g', ' ', ' ', 'o', 'f', ' ', 'a']).length ∧
    ruleAdjectiveOfA ({ env0 with wordFlags := fun w => if w == ['b', 'i', 'g'] then 32776 else 0 }) ['b', 'i', 'g', ' ', ' ', 'o', 'f', ' ', 'a']
      [⟨⟨0, 3⟩, .word⟩, ⟨⟨3, 5⟩, .space 2⟩, ⟨⟨5, 7⟩, .word⟩, ⟨⟨7, 8⟩, .space 1⟩, ⟨⟨8, 9⟩, .word⟩] =
    .ok [⟨⟨0, 9⟩, [.replaceWith ['b', 'i', 'g', ' ', ' ', 'a'], .replaceWith ['b', 'i', 'g', ' ', 'a']], 31, 0⟩] := by decide

theorem inflectedVerbAfterTo_total (env : Env) (src : List Char) (toks : List Tok) (h : Tiles toks 0 src.length) :
    ∃ ls, ruleInflectedVerbAfterTo env src toks = .ok ls := (C03.inflectedVerbAfterTo_spans_wf env src toks h).imp fun _ h => h.1
/-- non-vacuity of `inflectedVerbAfterTo_total`: the tokens of `to agreed` tile the text and the rule fires -/
example : Tiles [⟨⟨0, 2⟩, .word⟩, ⟨⟨2, 3⟩, .space 1⟩, ⟨⟨3, 9⟩, .word⟩] 0 (['t', 'o', ' ', 'a', 'g', 'r', 'e', 'e', 'd']).length ∧
    ruleInflectedVerbAfterTo ({ env0 with wordFlags := fun w => if w == ['t', 'o'] then 32769 else if w == ['a', 'g', 'r', 'e', 'e'] then 32896 else if w == ['a', 'g', 'r', 'e'] then 32896 else 0 }) ['t', 'o', ' ', 'a', 'g', 'r', 'e', 'e', 'd']
      [⟨⟨0, 2⟩, .word⟩, ⟨⟨2, 3⟩, .space 1⟩, ⟨⟨3, 9⟩, .word⟩] =
    .ok [⟨⟨0, 9⟩, [.replaceWith ['t', 'o', ' ', 'a', 'g', 'r', 'e']], 34, 0⟩, ⟨⟨0, 9⟩, [.replaceWith ['t', 'o', ' ', 'a', 'g', 'r', 'e', 'e']], 34, 0⟩] := by decide

/-- **OxfordComma: `matched_toks[conj_index - 2]` under the exact guard** -/
theorem oxfordComma_total_any_order (env : Env) (src : List Char) (toks : List Tok) (h : InText src toks)
    (hc : ConjOK env src toks) : ∃ ls, ruleOxfordComma env src toks = .ok ls :=
  (C03.oxfordComma_spans_wf_any_order env src toks h hc).imp fun _ h => h.1
/-- non-vacuity of `oxfordComma_total_any_order`: tokens of the Markdown parser's shape (a zero-width `ParagraphBreak` at offset 0 AFTER the words of `so, cat and dog`) are `InText`, not in text order, and the rule fires -/
example : InText ['s', 'o', ',', ' ', 'c', 'a', 't', ' ', 'a', 'n', 'd', ' ', 'd', 'o', 'g']
      [⟨⟨0, 2⟩, .word⟩, ⟨⟨2, 3⟩, .punct .Comma⟩, ⟨⟨3, 4⟩, .space 1⟩, ⟨⟨4, 7⟩, .word⟩, ⟨⟨7, 8⟩, .space 1⟩, ⟨⟨8, 11⟩, .word⟩, ⟨⟨11, 12⟩, .space 1⟩, ⟨⟨12, 15⟩, .word⟩, ⟨⟨0, 0⟩, .paragraphBreak⟩] ∧
    ConjOK ({ env0 with wordFlags := fun w => if w == ['s', 'o'] then 32834 else if w == ['c', 'a', 't'] then 32832 else if w == ['d', 'o', 'g'] then 32832 else if w == ['a', 'n', 'd'] then 32770 else 0 }) ['s', 'o', ',', ' ', 'c', 'a', 't', ' ', 'a', 'n', 'd', ' ', 'd', 'o', 'g']
      [⟨⟨0, 2⟩, .word⟩, ⟨⟨2, 3⟩, .punct .Comma⟩, ⟨⟨3, 4⟩, .space 1⟩, ⟨⟨4, 7⟩, .word⟩, ⟨⟨7, 8⟩, .space 1⟩, ⟨⟨8, 11⟩, .word⟩, ⟨⟨11, 12⟩, .space 1⟩, ⟨⟨12, 15⟩, .word⟩, ⟨⟨0, 0⟩, .paragraphBreak⟩] ∧
    ruleOxfordComma ({ env0 with wordFlags := fun w => if w == ['s', 'o'] then 32834 else if w == ['c', 'a', 't'] then 32832 else if w == ['d', 'o', 'g'] then 32832 else if w == ['a', 'n', 'd'] then 32770 else 0 }) ['s', 'o', ',', ' ', 'c', 'a', 't', ' ', 'a', 'n', 'd', ' ', 'd', 'o', 'g']
      [⟨⟨0, 2⟩, .word⟩, ⟨⟨2, 3⟩, .punct .Comma⟩, ⟨⟨3, 4⟩, .space 1⟩, ⟨⟨4, 7⟩, .word⟩, ⟨⟨7, 8⟩, .space 1⟩, ⟨⟨8, 11⟩, .word⟩, ⟨⟨11, 12⟩, .space 1⟩, ⟨⟨12, 15⟩, .word⟩, ⟨⟨0, 0⟩, .paragraphBreak⟩] =
    .ok [⟨⟨4, 7⟩, [.insertAfter [',']], 29, 0⟩] := ⟨by unfold InText TokIn; decide, by unfold ConjOK; decide, by decide⟩

theorem oxfordComma_total (env : Env) (src : List Char) (toks : List Tok) (h : Tiles toks 0 src.length)
    (hc : ConjOK env src toks) : ∃ ls, ruleOxfordComma env src toks = .ok ls :=
  (C03.oxfordComma_spans_wf env src toks h hc).imp fun _ h => h.1
/-- non-vacuity of `oxfordComma_total`: the tokens of `so, cat and dog` tile the text, `ConjOK` holds (`and` is a conjunction for this dictionary) and the rule fires -/
example : Tiles [⟨⟨0, 2⟩, .word⟩, ⟨⟨2, 3⟩, .punct .Comma⟩, ⟨⟨3, 4⟩, .space 1⟩, ⟨⟨4, 7⟩, .word⟩, ⟨⟨7, 8⟩, .space 1⟩, ⟨⟨8, 11⟩, .word⟩, ⟨⟨11, 12⟩, .space 1⟩, ⟨⟨12, 15⟩, .word⟩] 0 (['s', 'o', ',', ' ', 'c', 'a', 't', ' ', 'a', 'n', 'd', ' ', 'd', 'o', 'g']).length ∧
    ConjOK ({ env0 with wordFlags := fun w => if w == ['s', 'o'] then 32834 else if w == ['c', 'a', 't'] then 32832 else if w == ['d', 'o', 'g'] then 32832 else if w == ['a', 'n', 'd'] then 32770 else 0 }) ['s', 'o', ',', ' ', 'c', 'a', 't', ' ', 'a', 'n', 'd', ' ', 'd', 'o', 'g']
      [⟨⟨0, 2⟩, .word⟩, ⟨⟨2, 3⟩, .punct .Comma⟩, ⟨⟨3, 4⟩, .space 1⟩, ⟨⟨4, 7⟩, .word⟩, ⟨⟨7, 8⟩, .space 1⟩, ⟨⟨8, 11⟩, .word⟩, ⟨⟨11, 12⟩, .space 1⟩, ⟨⟨12, 15⟩, .word⟩] ∧
    ruleOxfordComma ({ env0 with wordFlags := fun w => if w == ['s', 'o'] then 32834 else if w == ['c', 'a', 't'] then 32832 else if w == ['d', 'o', 'g'] then 32832 else if w == ['a', 'n', 'd'] then 32770 else 0 }) ['s', 'o', ',', ' ', 'c', 'a', 't', ' ', 'a', 'n', 'd', ' ', 'd', 'o', 'g']
      [⟨⟨0, 2⟩, .word⟩, ⟨⟨2, 3⟩, .punct .Comma⟩, ⟨⟨3, 4⟩, .space 1⟩, ⟨⟨4, 7⟩, .word⟩, ⟨⟨7, 8⟩, .space 1⟩, ⟨⟨8, 11⟩, .word⟩, ⟨⟨11, 12⟩, .space 1⟩, ⟨⟨12, 15⟩, .word⟩] =
    .ok [⟨⟨4, 7⟩, [.insertAfter [',']], 29, 0⟩] := ⟨by decide, by unfold ConjOK; decide, by decide⟩

/-- **and a panic without it** (kernel-checked): tokens that tile their text, a dictionary for which `and` is
not a conjunction but the list's first item is -/
theorem oxfordComma_panics_without_conj :
    Tiles C03.soCatToks 0 C03.soCatSrc.length ∧ ruleOxfordComma C03.envNoConj C03.soCatSrc C03.soCatToks = .error .underflow := by
  decide

theorem noOxfordComma_total_any_order (env : Env) (src : List Char) (toks : List Tok) (h : InText src toks) :
    ∃ ls, ruleNoOxfordComma env src toks = .ok ls := (C03.noOxfordComma_spans_wf_any_order env src toks h).imp fun _ h => h.1
/-- non-vacuity of `noOxfordComma_total_any_order`: tokens of the Markdown parser's shape (a zero-width `ParagraphBreak` at offset 0 AFTER the words of `cat, dog, and x`) are `InText`, not in text order, and the rule fires -/
example : InText ['c', 'a', 't', ',', ' ', 'd', 'o', 'g', ',', ' ', 'a', 'n', 'd', ' ', 'x']
      [⟨⟨0, 3⟩, .word⟩, ⟨⟨3, 4⟩, .punct .Comma⟩, ⟨⟨4, 5⟩, .space 1⟩, ⟨⟨5, 8⟩, .word⟩, ⟨⟨8, 9⟩, .punct .Comma⟩, ⟨⟨9, 10⟩, .space 1⟩, ⟨⟨10, 13⟩, .word⟩, ⟨⟨13, 14⟩, .space 1⟩, ⟨⟨14, 15⟩, .word⟩, ⟨⟨0, 0⟩, .paragraphBreak⟩] ∧
    ruleNoOxfordComma ({ env0 with wordFlags := fun w => if w == ['c', 'a', 't'] then 32832 else if w == ['d', 'o', 'g'] then 32832 else 0 }) ['c', 'a', 't', ',', ' ', 'd', 'o', 'g', ',', ' ', 'a', 'n', 'd', ' ', 'x']
      [⟨⟨0, 3⟩, .word⟩, ⟨⟨3, 4⟩, .punct .Comma⟩, ⟨⟨4, 5⟩, .space 1⟩, ⟨⟨5, 8⟩, .word⟩, ⟨⟨8, 9⟩, .punct .Comma⟩, ⟨⟨9, 10⟩, .space 1⟩, ⟨⟨10, 13⟩, .word⟩, ⟨⟨13, 14⟩, .space 1⟩, ⟨⟨14, 15⟩, .word⟩, ⟨⟨0, 0⟩, .paragraphBreak⟩] =
    .ok [⟨⟨8, 9⟩, [.remove], 30, 0⟩] := ⟨by unfold InText TokIn; decide, by decide⟩

theorem noOxfordComma_total (env : Env) (src : List Char) (toks : List Tok) (h : Tiles toks 0 src.length) :
    ∃ ls, ruleNoOxfordComma env src toks = .ok ls := (C03.noOxfordComma_spans_wf env src toks h).imp fun _ h => h.1
/-- non-vacuity of `noOxfordComma_total`: the tokens of `cat, dog, and x` tile the text and the rule fires -/
example : Tiles [⟨⟨0, 3⟩, .word⟩, ⟨⟨3, 4⟩, .punct .Comma⟩, ⟨⟨4, 5⟩, .space 1⟩, ⟨⟨5, 8⟩, .word⟩, ⟨⟨8, 9⟩, .punct .Comma⟩, ⟨⟨9, 10⟩, .space 1⟩, ⟨⟨10, 13⟩, .word⟩, ⟨⟨13, 14⟩, .space 1⟩, ⟨⟨14, 15⟩, .word⟩] 0 (['c', 'a', 't', ',', ' ', 'd', 'o', 'g', ',', ' ', 'a', 'n', 'd', ' ', 'x']).length ∧
    ruleNoOxfordComma ({ env0 with wordFlags := fun w => if w == ['c', 'a', 't'] then 32832 else if w == ['d', 'o', 'g'] then 32832 else 0 }) ['c', 'a', 't', ',', ' ', 'd', 'o', 'g', ',', ' ', 'a', 'n', 'd', ' ', 'x']
      [⟨⟨0, 3⟩, .word⟩, ⟨⟨3, 4⟩, .punct .Comma⟩, ⟨⟨4, 5⟩, .space 1⟩, ⟨⟨5, 8⟩, .word⟩, ⟨⟨8, 9⟩, .punct .Comma⟩, ⟨⟨9, 10⟩, .space 1⟩, ⟨⟨10, 13⟩, .word⟩, ⟨⟨13, 14⟩, .space 1⟩, ⟨⟨14, 15⟩, .word⟩] =
    .ok [⟨⟨8, 9⟩, [.remove], 30, 0⟩] := by decide

theorem widelyAccepted_total_any_order (env : Env) (src : List Char) (toks : List Tok) (h : InText src toks) :
    ∃ ls, ruleWidelyAccepted env src toks = .ok ls := (C03.widelyAccepted_spans_wf_any_order env src toks h).imp fun _ h => h.1
/-- non-vacuity of `widelyAccepted_total_any_order`: tokens of the Markdown parser's shape (a zero-width `ParagraphBreak` at offset 0 AFTER the words of `Wide used`) are `InText`, not in text order, and the rule fires -/
example : InText ['W', 'i', 'd', 'e', ' ', 'u', 's', 'e', 'd']
      [⟨⟨0, 4⟩, .word⟩, ⟨⟨4, 5⟩, .space 1⟩, ⟨⟨5, 9⟩, .word⟩, ⟨⟨0, 0⟩, .paragraphBreak⟩] ∧
    ruleWidelyAccepted (env0) ['W', 'i', 'd', 'e', ' ', 'u', 's', 'e', 'd']
      [⟨⟨0, 4⟩, .word⟩, ⟨⟨4, 5⟩, .space 1⟩, ⟨⟨5, 9⟩, .word⟩, ⟨⟨0, 0⟩, .paragraphBreak⟩] =
    .ok [⟨⟨0, 4⟩, [.replaceWith ['W', 'i', 'd', 'e', 'l', 'y']], 32, 0⟩] := ⟨by unfold InText TokIn; decide, by decide⟩

theorem widelyAccepted_total_r2 (env : Env) (src : List Char) (toks : List Tok) (h : Tiles toks 0 src.length) :
    ∃ ls, ruleWidelyAccepted env src toks = .ok ls := (C03.widelyAccepted_spans_wf_r2 env src toks h).imp fun _ h => h.1
/-- non-vacuity of `widelyAccepted_total_r2`: the tokens of `Wide used` tile the text and the rule fires -/
example : Tiles [⟨⟨0, 4⟩, .word⟩, ⟨⟨4, 5⟩, .space 1⟩, ⟨⟨5, 9⟩, .word⟩] 0 (['W', 'i', 'd', 'e', ' ', 'u', 's', 'e', 'd']).length ∧
    ruleWidelyAccepted (env0) ['W', 'i', 'd', 'e', ' ', 'u', 's', 'e', 'd']
      [⟨⟨0, 4⟩, .word⟩, ⟨⟨4, 5⟩, .space 1⟩, ⟨⟨5, 9⟩, .word⟩] =
    .ok [⟨⟨0, 4⟩, [.replaceWith ['W', 'i', 'd', 'e', 'l', 'y']], 32, 0⟩] := by decide

theorem theHowWhy_total_any_order (env : Env) (src : List Char) (toks : List Tok) (h : InText src toks) :
    ∃ ls, ruleTheHowWhy env src toks = .ok ls := (C03.theHowWhy_spans_wf_any_order env src toks h).imp fun _ h => h.1
/-- non-vacuity of `theHowWhy_total_any_order`: tokens of the Markdown parser's shape (a zero-width `ParagraphBreak` at offset 0 AFTER the words of `the  how it`) are `InText`, not in text order, and the rule fires -/
example : InText ['t', 'h', 'e', ' ', ' ', 'h', 'o', 'w', ' ', 'i', 't']
      [⟨⟨0, 3⟩, .word⟩, ⟨⟨3, 5⟩, .space 2⟩, ⟨⟨5, 8⟩, .word⟩, ⟨⟨8, 9⟩, .space 1⟩, ⟨⟨9, 11⟩, .word⟩, ⟨⟨0, 0⟩, .paragraphBreak⟩] ∧
    ruleTheHowWhy (env0) ['t', 'h', 'e', ' ', ' ', 'h', 'o', 'w', ' ', 'i', 't']
      [⟨⟨0, 3⟩, .word⟩, ⟨⟨3, 5⟩, .space 2⟩, ⟨⟨5, 8⟩, .word⟩, ⟨⟨8, 9⟩, .space 1⟩, ⟨⟨9, 11⟩, .word⟩, ⟨⟨0, 0⟩, .paragraphBreak⟩] =
    .ok [⟨⟨0, 5⟩, [.remove], 33, 0⟩] := ⟨by unfold InText TokIn; decide, by decide⟩

theorem theHowWhy_total_r2 (env : Env) (src : List Char) (toks : List Tok) (h : Tiles toks 0 src.length) :
    ∃ ls, ruleTheHowWhy env src toks = .ok ls := (C03.theHowWhy_spans_wf_r2 env src toks h).imp fun _ h => h.1
/-- non-vacuity of `theHowWhy_total_r2`: the tokens of `the  how it` tile the text and the rule fires -/
example : Tiles [⟨⟨0, 3⟩, .word⟩, ⟨⟨3, 5⟩, .space 2⟩, ⟨⟨5, 8⟩, .word⟩, ⟨⟨8, 9⟩, .space 1⟩, ⟨⟨9, 11⟩, .word⟩] 0 (['t', 'h', 'e', ' ', ' ', 'h', 'o', 'w', ' ', 'i', 't']).length ∧
    ruleTheHowWhy (env0) ['t', 'h', 'e', ' ', ' ', 'h', 'o', 'w', ' ', 'i', 't']
      [⟨⟨0, 3⟩, .word⟩, ⟨⟨3, 5⟩, .space 2⟩, ⟨⟨5, 8⟩, .word⟩, ⟨⟨8, 9⟩, .space 1⟩, ⟨⟨9, 11⟩, .word⟩] =
    .ok [⟨⟨0, 5⟩, [.remove], 33, 0⟩] := by decide

/-- the hypothesis `Tiles … 0 src.length` is what `document_tiles` gives of every plain-English document -/
example (cls : Cls) (ext : Ext) (src : List Char) (hext : ExtOK ext src.length) :
    ∃ toks, document cls ext src = .ok toks ∧ Tiles toks 0 src.length :=
  (C03.on_documents cls ext src hext).imp fun _ h => ⟨h.1, h.2.1⟩

/-- tokens of the Markdown parser's shape (a zero-width `ParagraphBreak` at an earlier offset after the
words) satisfy `InText`, and TheHowWhy's lint on them is in range -/
example : InText ['#', ' ', 't', 'h', 'e', ' ', 'w', 'h', 'y', ' ', 'x']
    [⟨⟨2, 5⟩, .word⟩, ⟨⟨5, 6⟩, .space 1⟩, ⟨⟨6, 9⟩, .word⟩, ⟨⟨9, 10⟩, .space 1⟩, ⟨⟨10, 11⟩, .word⟩, ⟨⟨2, 2⟩, .paragraphBreak⟩] := by
  intro t ht
  simp only [List.mem_cons, List.mem_nil_iff, or_false] at ht
  rcases ht with rfl | rfl | rfl | rfl | rfl | rfl <;> exact ⟨by decide, by decide⟩

example : ruleTheHowWhy C12.env0 ['#', ' ', 't', 'h', 'e', ' ', 'w', 'h', 'y', ' ', 'x']
    [⟨⟨2, 5⟩, .word⟩, ⟨⟨5, 6⟩, .space 1⟩, ⟨⟨6, 9⟩, .word⟩, ⟨⟨9, 10⟩, .space 1⟩, ⟨⟨10, 11⟩, .word⟩, ⟨⟨2, 2⟩, .paragraphBreak⟩] =
    .ok [⟨⟨2, 6⟩, [.remove], 33, 0⟩] := by decide

/-! ## any token order for the three remaining piece / token rules (w22 audit)

`C03e` proves `RunsWF` for CapitalizePersonalPronouns, WordPressDotcom and LinkingVerbs on well-formed in-text tokens in
ANY order (zero-width tokens included: the Markdown shape); totality is the first half. -/

theorem capitalizePersonalPronouns_total_any_order (env : Env) (src : List Char) (toks : List Tok)
    (h : InText src toks) : ∃ ls, ruleCapitalizePersonalPronouns env src toks = .ok ls :=
  (C03.capitalizePersonalPronouns_spans_wf_any_order env src toks h).imp fun _ h => h.1

theorem wordPressDotcom_total_any_order (env : Env) (src : List Char) (toks : List Tok)
    (h : InText src toks) : ∃ ls, ruleWordPressDotcom env src toks = .ok ls :=
  (C03.wordPressDotcom_spans_wf_any_order env src toks h).imp fun _ h => h.1

theorem linkingVerbs_total_any_order (env : Env) (src : List Char) (toks : List Tok)
    (h : InText src toks) : ∃ ls, ruleLinkingVerbs env src toks = .ok ls :=
  (C03.linkingVerbs_spans_wf_any_order env src toks h).imp fun _ h => h.1

/-- non-vacuity of the three: the Markdown shape of `i ate 9.` (a zero-width `ParagraphBreak` at offset 0 AFTER
the words) is `InText`, is not in text order, and CapitalizePersonalPronouns fires on it -/
example : InText ['i', ' ', 'a', 't', 'e', ' ', '9', '.']
      [⟨⟨0, 1⟩, .word⟩, ⟨⟨1, 2⟩, .space 1⟩, ⟨⟨2, 5⟩, .word⟩, ⟨⟨5, 6⟩, .space 1⟩, ⟨⟨6, 7⟩, .number 10 none⟩, ⟨⟨7, 8⟩, .punct .Period⟩, ⟨⟨0, 0⟩, .paragraphBreak⟩] ∧
    ruleCapitalizePersonalPronouns env0 ['i', ' ', 'a', 't', 'e', ' ', '9', '.']
      [⟨⟨0, 1⟩, .word⟩, ⟨⟨1, 2⟩, .space 1⟩, ⟨⟨2, 5⟩, .word⟩, ⟨⟨5, 6⟩, .space 1⟩, ⟨⟨6, 7⟩, .number 10 none⟩, ⟨⟨7, 8⟩, .punct .Period⟩, ⟨⟨0, 0⟩, .paragraphBreak⟩] =
    .ok [⟨⟨0, 1⟩, [.replaceWith ['I']], 22, 0⟩] := ⟨by unfold InText TokIn; decide, by decide⟩

end Harper.C01

/-! ## never hangs — UNCONDITIONALLY (w26): the thirteen struct rules of `Model/Rules2.lean`

No `Tiles` / `InText` hypothesis: any environment, any source, any token vector (spans outside the text, inverted, unordered).
Nine rules are `for` loops over tokens, chunks or windows of the document (`perTok`, `walkE`, `linkingGo`: structural
recursions). The four `PatternLinter`s — OxfordComma (whose pattern has a `RepeatingPattern`), NoOxfordComma, WidelyAccepted,
TheHowWhy — are `run_on_chunk` around a real tree: `matches_never_hangs_real` + `runOnChunk_never_hangs_real`
(`Props/C01Leaves.lean`) + their `match_to_lint` never reporting a hang. -/
namespace Harper.C01
open Harper Harper.Chunks Harper.Rules Harper.Leaves Harper.Rules2
open Harper.C12 (env0)

/-- **SpelledNumbers, CapitalizePersonalPronouns, AvoidCurses, WordPressDotcom, LinkingVerbs, CommaFixes, MergeWords,
AdjectiveOfA, OxfordComma, NoOxfordComma, WidelyAccepted, TheHowWhy, InflectedVerbAfterTo never hang** — every rule
`ruleByName2` dispatches on -/
theorem structRules_never_hang (env : Env) (src : List Char) (toks : List Tok) :
    ∀ r ∈ [ruleSpelledNumbers, ruleCapitalizePersonalPronouns, ruleAvoidCurses, ruleWordPressDotcom, ruleLinkingVerbs,
      ruleCommaFixes, ruleMergeWords, ruleAdjectiveOfA, ruleOxfordComma, ruleNoOxfordComma, ruleWidelyAccepted, ruleTheHowWhy,
      ruleInflectedVerbAfterTo], r env src toks ≠ .error .outOfFuel := by
  intro r hr
  simp only [List.mem_cons, List.mem_nil_iff, or_false] at hr
  rcases hr with rfl | rfl | rfl | rfl | rfl | rfl | rfl | rfl | rfl | rfl | rfl | rfl | rfl
  · exact ruleSpelledNumbers_nf env src toks
  · exact ruleCapitalizePersonalPronouns_nf env src toks
  · exact ruleAvoidCurses_nf env src toks
  · exact ruleWordPressDotcom_nf env src toks
  · exact ruleLinkingVerbs_nf env src toks
  · exact ruleCommaFixes_nf env src toks
  · exact ruleMergeWords_nf env src toks
  · exact ruleAdjectiveOfA_nf env src toks
  · exact ruleOxfordComma_nf env src toks
  · exact ruleNoOxfordComma_nf env src toks
  · exact ruleWidelyAccepted_nf env src toks
  · exact ruleTheHowWhy_nf env src toks
  · exact ruleInflectedVerbAfterTo_nf env src toks

/-- … stated on the dispatch table: whatever `ruleByName2` returns never hangs -/
theorem ruleByName2_never_hangs (name : String) (r : Env → PieceRule) (hn : ruleByName2 name = some r) (env : Env)
    (src : List Char) (toks : List Tok) : r env src toks ≠ .error .outOfFuel := by
  unfold ruleByName2 at hn
  split at hn <;> cases hn
  · exact ruleSpelledNumbers_nf env src toks
  · exact ruleCapitalizePersonalPronouns_nf env src toks
  · exact ruleAvoidCurses_nf env src toks
  · exact ruleWordPressDotcom_nf env src toks
  · exact ruleLinkingVerbs_nf env src toks
  · exact ruleCommaFixes_nf env src toks
  · exact ruleMergeWords_nf env src toks
  · exact ruleAdjectiveOfA_nf env src toks
  · exact ruleOxfordComma_nf env src toks
  · exact ruleNoOxfordComma_nf env src toks
  · exact ruleWidelyAccepted_nf env src toks
  · exact ruleTheHowWhy_nf env src toks
  · exact ruleInflectedVerbAfterTo_nf env src toks

/-- on garbage tokens: a comma whose span lies outside the text (CommaFixes: slice panic), an inverted word span
(CapitalizePersonalPronouns: underflow), words outside the text around a space (MergeWords: slice panic); OxfordComma's
repetition over nominals that are not in the text returns (its leaves read `Env` flags of the total `textOf`, not
`get_content`); AvoidCurses never reads the text — no hang anywhere -/
example : ruleCommaFixes env0 ['a'] [⟨⟨7, 8⟩, .punct .Comma⟩] = .error .sliceOOB ∧
    ruleCapitalizePersonalPronouns env0 ['a'] [⟨⟨1, 0⟩, .word⟩] = .error .underflow ∧
    ruleMergeWords env0 ['a'] [⟨⟨7, 9⟩, .word⟩, ⟨⟨0, 1⟩, .space 1⟩, ⟨⟨9, 7⟩, .word⟩] = .error .sliceOOB ∧
    ruleOxfordComma env0 ['a'] [⟨⟨7, 9⟩, .word⟩, ⟨⟨9, 8⟩, .punct .Comma⟩, ⟨⟨3, 4⟩, .space 1⟩, ⟨⟨7, 9⟩, .word⟩] = .ok [] ∧
    ruleAvoidCurses env0 ['a'] [⟨⟨9, 7⟩, .word⟩] = .ok [] := by decide

end Harper.C01
