import Harper.Props.C03e
/-!
# C01 (hand-written rules, batch 2) — the struct rules do not panic

Panics are values of `Model/Rules2.lean` (`Span::new`, `get_span_content`, `unwrap`, slice indexing, the
checked `conj_index - 2` of OxfordComma); "never panics" is `∃ ls, rule … = .ok ls`.

* `<rule>_total`: on the tokens of a document (`Tiles toks 0 src.length`) each of the thirteen modelled rules
  returns. The four rules around a pattern tree also return on well-formed tokens inside the text in ANY order
  (`…_total_any_order`: what the Markdown front-end delivers).
* OxfordComma returns under `ConjOK` (every word `WordSet[and, or, nor]` accepts is a conjunction for the
  dictionary; monitored on every real document) and PANICS without it (`oxfordComma_panics_without_conj`: the
  match `so, cat and dog` for a dictionary that does not know `and`).
* The rules that index the whole document need the text order of the tokens (witness for CommaFixes).
* `spelledNumbers_total_any`: SpelledNumbers and AvoidCurses cannot panic on any tokens whatsoever: they never
  fetch text through a span (`spell_out_number(value as u64).unwrap()` is reached for `value < 10` only).
-/
namespace Harper.C01
open Harper Harper.Chunks Harper.Rules Harper.Leaves Harper.Rules2
open Harper.C03 (RunsWF)

theorem spelledNumbers_total (env : Env) (src : List Char) (toks : List Tok) (h : Tiles toks 0 src.length) :
    ∃ ls, ruleSpelledNumbers env src toks = .ok ls := (C03.spelledNumbers_spans_wf env src toks h).imp fun _ h => h.1

/-- no hypothesis at all: the rule never touches the source through a span -/
theorem spelledNumbers_total_any (env : Env) (src : List Char) (toks : List Tok) : ∃ ls, ruleSpelledNumbers env src toks = .ok ls := by
  have : ∀ t, ∃ ls, spelledNumbersTok env src t = .ok ls := by
    intro t
    simp only [spelledNumbersTok]
    cases hk : t.kind with
    | number r s =>
      cases s with
      | some s => exact ⟨[], rfl⟩
      | none =>
        simp only []
        cases env.numVal (textOf src t.span) with
        | nonInt => exact ⟨[], rfl⟩
        | int n =>
          simp only []
          split
          · rename_i hn
            rcases (by omega : n = 0 ∨ n = 1 ∨ n = 2 ∨ n = 3 ∨ n = 4 ∨ n = 5 ∨ n = 6 ∨ n = 7 ∨ n = 8 ∨ n = 9) with
              rfl | rfl | rfl | rfl | rfl | rfl | rfl | rfl | rfl | rfl <;> exact ⟨_, rfl⟩
          · exact ⟨[], rfl⟩
    | _ => exact ⟨[], rfl⟩
  obtain ⟨ls, e, _⟩ := collectE_ok (fun _ => True) (spelledNumbersTok env src) toks (fun t _ => by
    obtain ⟨ls, e⟩ := this t
    exact ⟨ls, e, fun _ _ => trivial⟩)
  exact ⟨ls, e⟩

theorem avoidCurses_total_any (env : Env) (src : List Char) (toks : List Tok) : ∃ ls, ruleAvoidCurses env src toks = .ok ls := by
  obtain ⟨ls, e, _⟩ := collectE_ok (fun _ => True) (avoidCursesTok env src) toks (fun t _ => by
    simp only [avoidCursesTok]
    split
    · exact ⟨_, rfl, fun _ _ => trivial⟩
    · exact ⟨_, rfl, fun _ _ => trivial⟩)
  exact ⟨ls, e⟩

theorem capitalizePersonalPronouns_total (env : Env) (src : List Char) (toks : List Tok) (h : Tiles toks 0 src.length) :
    ∃ ls, ruleCapitalizePersonalPronouns env src toks = .ok ls :=
  (C03.capitalizePersonalPronouns_spans_wf env src toks h).imp fun _ h => h.1

/-- a word token that reaches past the text: `get_span_content` panics -/
example : ruleCapitalizePersonalPronouns C12.env0 ['i'] [⟨⟨0, 2⟩, .word⟩] = .error .sliceOOB := by decide

theorem avoidCurses_total (env : Env) (src : List Char) (toks : List Tok) (h : Tiles toks 0 src.length) :
    ∃ ls, ruleAvoidCurses env src toks = .ok ls := (C03.avoidCurses_spans_wf env src toks h).imp fun _ h => h.1

theorem wordPressDotcom_total (env : Env) (src : List Char) (toks : List Tok) (h : Tiles toks 0 src.length) :
    ∃ ls, ruleWordPressDotcom env src toks = .ok ls := (C03.wordPressDotcom_spans_wf env src toks h).imp fun _ h => h.1

theorem linkingVerbs_total (env : Env) (src : List Char) (toks : List Tok) (h : Tiles toks 0 src.length) :
    ∃ ls, ruleLinkingVerbs env src toks = .ok ls := (C03.linkingVerbs_spans_wf env src toks h).imp fun _ h => h.1

theorem commaFixes_total (env : Env) (src : List Char) (toks : List Tok) (h : Tiles toks 0 src.length) :
    ∃ ls, ruleCommaFixes env src toks = .ok ls := (C03.commaFixes_spans_wf env src toks h).imp fun _ h => h.1

/-- an EMPTY comma token: `get_content(source).first().unwrap()` on `None` -/
example : ruleCommaFixes C12.env0 ['a'] [⟨⟨0, 1⟩, .word⟩, ⟨⟨1, 1⟩, .punct .Comma⟩] = .error .unwrapNone := by decide

theorem mergeWords_total (env : Env) (src : List Char) (toks : List Tok) (h : Tiles toks 0 src.length) :
    ∃ ls, ruleMergeWords env src toks = .ok ls := (C03.mergeWords_spans_wf env src toks h).imp fun _ h => h.1

theorem adjectiveOfA_total (env : Env) (src : List Char) (toks : List Tok) (h : Tiles toks 0 src.length) :
    ∃ ls, ruleAdjectiveOfA env src toks = .ok ls := (C03.adjectiveOfA_spans_wf env src toks h).imp fun _ h => h.1

theorem inflectedVerbAfterTo_total (env : Env) (src : List Char) (toks : List Tok) (h : Tiles toks 0 src.length) :
    ∃ ls, ruleInflectedVerbAfterTo env src toks = .ok ls := (C03.inflectedVerbAfterTo_spans_wf env src toks h).imp fun _ h => h.1

/-- **OxfordComma: `matched_toks[conj_index - 2]` under the exact guard** -/
theorem oxfordComma_total_any_order (env : Env) (src : List Char) (toks : List Tok) (h : InText src toks)
    (hc : ConjOK env src toks) : ∃ ls, ruleOxfordComma env src toks = .ok ls :=
  (C03.oxfordComma_spans_wf_any_order env src toks h hc).imp fun _ h => h.1

theorem oxfordComma_total (env : Env) (src : List Char) (toks : List Tok) (h : Tiles toks 0 src.length)
    (hc : ConjOK env src toks) : ∃ ls, ruleOxfordComma env src toks = .ok ls :=
  (C03.oxfordComma_spans_wf env src toks h hc).imp fun _ h => h.1

/-- **and a panic without it** (kernel-checked): tokens that tile their text, a dictionary for which `and` is
not a conjunction but the list's first item is -/
theorem oxfordComma_panics_without_conj :
    Tiles C03.soCatToks 0 C03.soCatSrc.length ∧ ruleOxfordComma C03.envNoConj C03.soCatSrc C03.soCatToks = .error .underflow := by
  decide

theorem noOxfordComma_total_any_order (env : Env) (src : List Char) (toks : List Tok) (h : InText src toks) :
    ∃ ls, ruleNoOxfordComma env src toks = .ok ls := (C03.noOxfordComma_spans_wf_any_order env src toks h).imp fun _ h => h.1

theorem noOxfordComma_total (env : Env) (src : List Char) (toks : List Tok) (h : Tiles toks 0 src.length) :
    ∃ ls, ruleNoOxfordComma env src toks = .ok ls := (C03.noOxfordComma_spans_wf env src toks h).imp fun _ h => h.1

theorem widelyAccepted_total_any_order (env : Env) (src : List Char) (toks : List Tok) (h : InText src toks) :
    ∃ ls, ruleWidelyAccepted env src toks = .ok ls := (C03.widelyAccepted_spans_wf_any_order env src toks h).imp fun _ h => h.1

theorem widelyAccepted_total_r2 (env : Env) (src : List Char) (toks : List Tok) (h : Tiles toks 0 src.length) :
    ∃ ls, ruleWidelyAccepted env src toks = .ok ls := (C03.widelyAccepted_spans_wf_r2 env src toks h).imp fun _ h => h.1

theorem theHowWhy_total_any_order (env : Env) (src : List Char) (toks : List Tok) (h : InText src toks) :
    ∃ ls, ruleTheHowWhy env src toks = .ok ls := (C03.theHowWhy_spans_wf_any_order env src toks h).imp fun _ h => h.1

theorem theHowWhy_total_r2 (env : Env) (src : List Char) (toks : List Tok) (h : Tiles toks 0 src.length) :
    ∃ ls, ruleTheHowWhy env src toks = .ok ls := (C03.theHowWhy_spans_wf_r2 env src toks h).imp fun _ h => h.1

/-- the hypothesis `Tiles … 0 src.length` is what `document_tiles` gives of every plain-English document -/
example (cls : Cls) (ext : Ext) (src : List Char) (hext : ExtOK ext src.length) :
    ∃ toks, document cls ext src = .ok toks ∧ Tiles toks 0 src.length :=
  (C03.on_documents cls ext src hext).imp fun _ h => ⟨h.1, h.2.1⟩

/-- tokens of the Markdown parser's shape (a zero-width `ParagraphBreak` at an earlier offset after the
words) satisfy `InText`, and TheHowWhy's lint on them is in range -/
example : InText ['#', ' ', 't', 'h', 'e', ' ', 'w', 'h', 'y', ' ', 'x']
    [⟨⟨2, 5⟩, .word⟩, ⟨⟨5, 6⟩, .space 1⟩, ⟨⟨6, 9⟩, .word⟩, ⟨⟨9, 10⟩, .space 1⟩, ⟨⟨10, 11⟩, .word⟩, ⟨⟨2, 2⟩, .paragraphBreak⟩] := by
  intro t ht
  simp only [List.mem_cons, List.mem_nil_iff, or_false] at ht
  rcases ht with rfl | rfl | rfl | rfl | rfl | rfl <;> exact ⟨by decide, by decide⟩

example : ruleTheHowWhy C12.env0 ['#', ' ', 't', 'h', 'e', ' ', 'w', 'h', 'y', ' ', 'x']
    [⟨⟨2, 5⟩, .word⟩, ⟨⟨5, 6⟩, .space 1⟩, ⟨⟨6, 9⟩, .word⟩, ⟨⟨9, 10⟩, .space 1⟩, ⟨⟨10, 11⟩, .word⟩, ⟨⟨2, 2⟩, .paragraphBreak⟩] =
    .ok [⟨⟨2, 6⟩, [.remove], 33, 0⟩] := by decide

end Harper.C01
