import Harper.Props.C02d
import Harper.Props.C04
import Harper.Lemmas.Typst
/-!
# C02 / C01 (fifth part) — the Typst translator's own logic, and the HTML `Space` clamp

Model: `Harper/Model/Typst.lean` (`Typst::parse`, `convert_parbreaks`, `parse_expr`, `parse_pattern`,
the closures of `parse_expr`, `def_token!` / `merge!` / `get_text!`, over typst-syntax's tree given
as DATA: every node is the `match` arm it takes, the byte range `doc.range(span)` gives for it, and
the results of exactly the accessors that arm calls). Helper lemmas: `Lemmas/Typst.lean`.

* `typstParse_total` — under the decidable assumption `TreeOK` (ranges inside their parents' ranges
  and on character boundaries, texts not longer than their ranges, and the two facts the translator
  still `unwrap`s / slices on: a `Space` covers a character, a `Str` has its two quotes) the
  translator does not panic. `TreeOK` holds for EVERY real tree seen (monitor). A `FuncCall` whose
  `callee()` is the detached placeholder (`_(…)` in code: the first child is an `Underscore`, not an
  expression) is allowed: it used to panic in `get_text!` (`doc.range(span).unwrap()`; found by this
  slice, repaired in /repo `0f1b3ac`: the empty text instead) — regression `example`s below.
* `typstParse_inbounds` — under `TreeOK` every token is a well-formed span inside the text.
* `typstParse_sorted_partial` — under `TreeOK` and `InOrder` (the translator's visiting order is the
  source order: decidable, evaluated on every real tree) ALL tokens are pairwise ordered and
  disjoint. PARTIAL: the property's clause is for every tree; what is missing is that `InOrder` fails
  for two kinds of real trees, and then the clause is FALSE, with kernel-checked witnesses below:
  (1) aliasing — two accessors of typst-syntax return the same child (`Named::expr()` falls back to
  `name()` in `#set text(lang:`; `Parenthesized::expr()` and `::pattern()` are both the first child
  in `#let (x) = 1`; `Closure::body()` falls back to `name()` in `#let x(x`): `NoAlias` fails and the
  child is translated twice (recorded finding `c02-typst-duplicate-node`, `c02-typst-alias-revisit`);
  (2) `NoAlias` holds but the translator visits against the source order — a `Show` rule's transform
  before its selector, a `Set` rule's condition before its arguments, the ignored arguments of
  `rgb` / `raw` / … before the others (recorded finding `c02-typst-visit-order`).
* `typstParse_zero_width_structural` (w24) — under the decidable assumption `RangesSolid` (every range
  the translator hands to `def_token!` with a kind that is not a structural break — the node of a
  `token!` arm other than `Linebreak` / `Parbreak`, a placeholder pattern, a field, a callee, a call's
  argument, the name of a named destructuring item — is detached or covers a character; evaluated on
  every real tree: monitor `typst:RangesSolid`, fourth field of op `typok`) every zero-width token
  `Typst::parse` returns is a `ParagraphBreak` or a `Newline`. `TreeOK` is NOT needed for it.
* `convertParbreaks_spec` — which expressions `convert_parbreaks` turns into paragraph breaks.
* `htmlSpaceClamp_spec`, `htmlParse_inbounds_sorted` — the HTML parser: the clamp changes nothing
  but the count of a `Space` token; bounds and order come from `C04.maskParse_inbounds_sorted`.
* (w24) `htmlParseSrc_inbounds_sorted`, `htmlParse_no_zero_width` — the same for EXACTLY what the driver
  runs (op `htmlparse`: `htmlParse src mask (plainInner cls)`, the mask of the real masker as data,
  the model of `PlainEnglish` as the inner parser: `plainInner_eq`, `plainInner_innerOK`), and the
  zero-width clause for HTML: every token covers at least one character.

typst-syntax itself (which tree it builds) and the HTML grammar are not modelled: `TreeOK`, `NoAlias`,
`InOrder` (resp. `MaskOK`) are where they enter.
-/
namespace Harper.C02
open Harper Harper.Typst

/-! ## Typst -/

/-- NO PANIC under `TreeOK`, for every byte list / text pair with as many characters as the text
has, every inner parser that tiles its input (`PlainEnglish`: `plainEnglish_innerOK`) and every
tree. Every `unwrap`, `assert!` and slice of `typst_translator.rs` and `offset_cursor.rs` is a panic
value of the model; `TreeOK` is what makes each of them unreachable. (w22 audit: the two `expect`s of
`lib.rs` — `Markup::from_untyped(root)` and `Parbreak::from_untyped(&buf[i])` — have NO panic value in
the model: the root of a parsed source is `Markup` and the placeholder is built as a `Parbreak` with
`i < len`, so they cannot fail; they are not modelled.) -/
theorem typstParse_total (E : Env) (hin : Md.InnerOK E.inner) (hN : charCount E.bs = E.src.length)
    (top : TNodes) (h : TreeOK E.bs top) : ∃ toks, typstParse E top = .ok toks := by
  obtain ⟨toks, ht, _⟩ := typstParse_ok E hin hN top h
  exact ⟨toks, ht⟩

/-- IN BOUNDS under `TreeOK`: every token `Typst::parse` returns is a well-formed span inside the
text -/
theorem typstParse_inbounds (E : Env) (hin : Md.InnerOK E.inner) (hN : charCount E.bs = E.src.length)
    (top : TNodes) (h : TreeOK E.bs top) (toks : List Tok) (hp : typstParse E top = .ok toks) :
    ∀ t ∈ toks, t.span.start ≤ t.span.stop ∧ t.span.stop ≤ E.src.length := by
  obtain ⟨toks', ht, hb⟩ := typstParse_ok E hin hN top h
  rw [hp] at ht; cases ht
  exact hb

/-- ORDERED, DISJOINT under `TreeOK` and `InOrder` — all tokens, zero-width ones included. See the
header for what is missing (and false) without `InOrder`. -/
theorem typstParse_sorted_partial (E : Env) (hin : Md.InnerOK E.inner)
    (hN : charCount E.bs = E.src.length) (top : TNodes) (h : TreeOK E.bs top) (ho : InOrder E top)
    (toks : List Tok) (hp : typstParse E top = .ok toks) :
    toks.Pairwise (fun a b => a.span.stop ≤ b.span.start) := by
  obtain ⟨toks', ht, hs⟩ := typstParse_chain E hin hN top h ho
  rw [hp] at ht; cases ht
  exact hs

/-- all three for exactly what the driver runs (op `typst`): bytes computed from the characters,
inner parser = the model of `PlainEnglish`; `TreeOK` (and `InOrder` for the order) are the only
hypotheses left -/
theorem typstParseSrc_total_inbounds_sorted (cls : Cls) (src : List Char) (top : TNodes)
    (h : TreeOK (utf8Bytes src) top) :
    ∃ toks, typstParseSrc cls src top = .ok toks ∧
      (∀ t ∈ toks, t.span.start ≤ t.span.stop ∧ t.span.stop ≤ src.length) ∧
      (InOrder (envOfSrc cls src) top → toks.Pairwise (fun a b => a.span.stop ≤ b.span.start)) := by
  have hin : Md.InnerOK (envOfSrc cls src).inner := plainEnglish_innerOK cls
  have hN : charCount (envOfSrc cls src).bs = (envOfSrc cls src).src.length := utf8Bytes_charCount src
  obtain ⟨toks, ht, hb⟩ := typstParse_ok (envOfSrc cls src) hin hN top h
  refine ⟨toks, ht, hb, ?_⟩
  intro ho
  exact typstParse_sorted_partial (envOfSrc cls src) hin hN top h ho toks ht

/-- `convert_parbreaks(buf, exprs)` keeps the number of expressions and converts exactly the
expressions that are `Space`, are neither the first nor the last one, and have a `Heading` or a
`List` item directly before or directly after them -/
theorem convertParbreaks_spec (l : List Shape) :
    (convertParbreaks l).length = l.length ∧
    ∀ (i : Nat) (hi : i < l.length),
      ((convertParbreaks l)[i]? = some true ↔
        0 < i ∧ ∃ a b, l[i - 1]? = some a ∧ l[i + 1]? = some b ∧ l[i] = .space ∧
          (a = .headingOrList ∨ b = .headingOrList)) :=
  ⟨convFlags_length l none, fun i hi => convFlags_true_iff l i hi⟩

/-! ### non-vacuity and witnesses (kernel-evaluated; trees copied from the harness's serialisation
of the real `typst_syntax::Source`) -/

/-- `= H⏎text é`: `Heading[Text] Space Text`, with a two-byte character -/
def headingText : List Char := ['=', ' ', 'H', '\n', 't', 'e', 'x', 't', ' ', 'é']

def headingTree : TNodes := .ofList
  [.body .heading (some (0, 3)) (.ofList [.text (some (2, 3)) ['H']]),
   .space (some (3, 4)),
   .text (some (4, 11)) ['t', 'e', 'x', 't', ' ', 'é']]

/-- the hypotheses are satisfiable by a real tree -/
example : TreeOK (utf8Bytes headingText) headingTree := by decide
example : NoAlias headingTree := by decide
example : InOrder (envOfSrc asciiPlus headingText) headingTree := by decide

/-- … and the model returns what the real parser returns: the `Space` after the heading has become
a paragraph break, the second text is shifted by the CHARACTER offset 4 -/
example : typstParseSrc asciiPlus headingText headingTree =
    .ok [⟨⟨2, 3⟩, .word⟩, ⟨⟨3, 4⟩, .paragraphBreak⟩, ⟨⟨4, 8⟩, .word⟩, ⟨⟨8, 9⟩, .space 1⟩, ⟨⟨9, 10⟩, .word⟩] := by
  decide

/-- non-vacuity of `typstParse_total`, `typstParse_inbounds`, `typstParse_sorted_partial` and
`typstParseSrc_total_inbounds_sorted`: ALL hypotheses at once (`InnerOK`, the character count,
`TreeOK`, `InOrder`) on the real tree above — five tokens, a nested node, a converted paragraph
break, a two-byte character; the theorem applied, its conclusion concrete -/
example : ∃ toks, typstParseSrc asciiPlus headingText headingTree = .ok toks ∧ toks.length = 5 ∧
      (∀ t ∈ toks, t.span.start ≤ t.span.stop ∧ t.span.stop ≤ headingText.length) ∧
      toks.Pairwise (fun a b => a.span.stop ≤ b.span.start) := by
  obtain ⟨toks, h, hb, hs⟩ :=
    typstParseSrc_total_inbounds_sorted asciiPlus headingText headingTree (by decide)
  have hl : toks.length = 5 := by
    have h2 : typstParseSrc asciiPlus headingText headingTree =
      .ok [⟨⟨2, 3⟩, .word⟩, ⟨⟨3, 4⟩, .paragraphBreak⟩, ⟨⟨4, 8⟩, .word⟩, ⟨⟨8, 9⟩, .space 1⟩, ⟨⟨9, 10⟩, .word⟩] := by
      decide
    rw [h2] at h; cases h; rfl
  exact ⟨toks, h, hl, hb, hs (by decide)⟩

/-- the property's clause "zero-width tokens are only structural breaks" for Typst is NOT implied by
`TreeOK`, `NoAlias` and `InOrder` together: a node of the default arm with an EMPTY range (SYNTHETIC
tree — no real typst-syntax tree with an empty-range expression is known) yields a zero-width
`Unlintable`, and all three predicates hold. (w24: the clause is `typstParse_zero_width_structural`
below, under the fourth predicate `RangesSolid`, which this tree violates.) -/
example : TreeOK (utf8Bytes ['a', 'b'])
      (.ofList [.text (some (0, 1)) ['a'], .leaf .other (some (1, 1)), .text (some (1, 2)) ['b']]) ∧
    NoAlias (.ofList [.text (some (0, 1)) ['a'], .leaf .other (some (1, 1)), .text (some (1, 2)) ['b']]) ∧
    InOrder (envOfSrc asciiPlus ['a', 'b'])
      (.ofList [.text (some (0, 1)) ['a'], .leaf .other (some (1, 1)), .text (some (1, 2)) ['b']]) ∧
    typstParseSrc asciiPlus ['a', 'b']
      (.ofList [.text (some (0, 1)) ['a'], .leaf .other (some (1, 1)), .text (some (1, 2)) ['b']]) =
      .ok [⟨⟨0, 1⟩, .word⟩, ⟨⟨1, 1⟩, .unlintable⟩, ⟨⟨1, 2⟩, .word⟩] := by decide

/-- `é = é`: a text whose byte offset (3) differs from its character offset (2) — shifting by
`offset.byte` would put the last word at 6..7 of a 5-character text -/
example : typstParseSrc asciiPlus ['é', ' ', '=', ' ', 'é']
    (.ofList [.text (some (0, 7)) ['é', ' ', '=', ' ', 'é']]) =
    .ok [⟨⟨0, 1⟩, .word⟩, ⟨⟨1, 2⟩, .space 1⟩, ⟨⟨2, 3⟩, .punct .Equal⟩, ⟨⟨3, 4⟩, .space 1⟩, ⟨⟨4, 5⟩, .word⟩] := by
  decide

/-- `#[é *b*]`: tokens of nested nodes are placed by the cursor pushed from the parent's start -/
example : typstParseSrc asciiPlus ['#', '[', 'é', ' ', '*', 'b', '*', ']']
    (.ofList [.body .content (some (1, 9)) (.ofList
      [.text (some (2, 4)) ['é'], .space (some (4, 5)),
       .body .strong (some (5, 8)) (.ofList [.text (some (6, 7)) ['b']])])]) =
    .ok [⟨⟨2, 3⟩, .word⟩, ⟨⟨3, 4⟩, .space 1⟩, ⟨⟨5, 6⟩, .word⟩] := by decide

/-- `#let s = "teh wérd"`: the `Str` arm lints the content of the literal (by design of the
translator; recorded finding `c04-typst-string-literal`), at the right characters -/
example : typstParseSrc asciiPlus
    ['#', 'l', 'e', 't', ' ', 's', ' ', '=', ' ', '"', 't', 'e', 'h', ' ', 'w', 'é', 'r', 'd', '"']
    (.ofList [.letBinding (some (1, 20)) (.leaf .other (some (5, 6)))
      (.ofList [.str (some (9, 20)) ['"', 't', 'e', 'h', ' ', 'w', 'é', 'r', 'd', '"']])]) =
    .ok [⟨⟨5, 6⟩, .unlintable⟩, ⟨⟨10, 13⟩, .word⟩, ⟨⟨13, 14⟩, .space 1⟩, ⟨⟨14, 18⟩, .word⟩] := by
  decide

/-- REGRESSION `#let f(x) = x` (was: the closure name twice): `LetBindingKind::Closure(_) => None`,
the closure in `init` yields its own name — once -/
def letClosureTree : TNodes := .ofList
  [.letBinding (some (1, 13)) (.letClosure (some (5, 6)))
    (.ofList [.closure (some (5, 13)) (.ofList [.leaf .other (some (5, 6))])
      (.ofList [.pos (.leaf .other (some (7, 8)))]) (.leaf .other (some (12, 13)))])]

def letClosureText : List Char := ['#', 'l', 'e', 't', ' ', 'f', '(', 'x', ')', ' ', '=', ' ', 'x']

example : typstParseSrc asciiPlus letClosureText letClosureTree =
    .ok [⟨⟨5, 6⟩, .unlintable⟩, ⟨⟨7, 8⟩, .unlintable⟩, ⟨⟨12, 13⟩, .unlintable⟩] := by decide

example : TreeOK (utf8Bytes letClosureText) letClosureTree ∧ NoAlias letClosureTree ∧
    InOrder (envOfSrc asciiPlus letClosureText) letClosureTree := by decide

/-- REGRESSION `#let (..n) = 1` (was: the sink twice): `sink_expr()` only -/
example : typstParseSrc asciiPlus
    ['#', 'l', 'e', 't', ' ', '(', '.', '.', 'n', ')', ' ', '=', ' ', '1']
    (.ofList [.letBinding (some (1, 14))
      (.patDestruct (some (5, 10)) (.ofList [.spread (some (6, 9)) (.ofList [.leaf .other (some (8, 9))])]))
      (.ofList [.leaf .other (some (13, 14))])]) =
    .ok [⟨⟨8, 9⟩, .unlintable⟩, ⟨⟨13, 14⟩, .unlintable⟩] := by decide

/-- REGRESSION `#let` (was: a panic on the detached span of the synthesised pattern): a node without
a range leaves the cursor alone and `def_token!` gives `None` -/
example : typstParseSrc asciiPlus ['#', 'l', 'e', 't']
    (.ofList [.letBinding (some (1, 4)) (.leaf .other none) .nil]) = .ok [] := by decide

/-- ALIASING (recorded finding `c02-typst-duplicate-node`). `#set text(lang:` — the named argument
has no value yet, `Named::expr()` (`cast_last_match`) falls back to the identifier `lang`, which is
also `Named::name()`: the same child as two accessor results … -/
def setLangText : List Char :=
  ['#', 's', 'e', 't', ' ', 't', 'e', 'x', 't', '(', 'l', 'a', 'n', 'g', ':']

def setLangTree : TNodes := .ofList
  [.setRule (some (1, 15)) (.leaf .other (some (5, 9))) .nil
    (.ofList [.named (some (10, 15)) (.leaf .other (some (10, 14))) ['l', 'a', 'n', 'g']
      (.leaf .other (some (10, 14)))])]

/-- … `TreeOK` holds, `NoAlias` and `InOrder` do not … -/
example : TreeOK (utf8Bytes setLangText) setLangTree ∧ ¬ NoAlias setLangTree ∧
    ¬ InOrder (envOfSrc asciiPlus setLangText) setLangTree := by decide

/-- … and the translator returns two tokens with IDENTICAL spans for the one identifier -/
example : typstParseSrc asciiPlus setLangText setLangTree =
    .ok [⟨⟨5, 9⟩, .unlintable⟩, ⟨⟨10, 14⟩, .unlintable⟩, ⟨⟨10, 14⟩, .unlintable⟩] := by decide

/-- `#let (x) = 1` (well-formed!): `Parenthesized::expr()` and `Parenthesized::pattern()` are both
`cast_first_match` — `parse_pattern` translates `x` twice -/
example : typstParseSrc asciiPlus ['#', 'l', 'e', 't', ' ', '(', 'x', ')', ' ', '=', ' ', '1']
    (.ofList [.letBinding (some (1, 12))
      (.patParen (some (5, 8)) (.leaf .other (some (6, 7))) (.leaf .other (some (6, 7))))
      (.ofList [.leaf .other (some (11, 12))])]) =
    .ok [⟨⟨6, 7⟩, .unlintable⟩, ⟨⟨6, 7⟩, .unlintable⟩, ⟨⟨11, 12⟩, .unlintable⟩] := by decide

/-- `#let x(x` (typing a function definition): `Closure::body()` (`cast_last_match`) falls back to
the closure's name — the name is translated again AFTER the parameter (recorded finding
`c02-typst-alias-revisit`: the repeated token is not adjacent to its first copy) -/
example : typstParseSrc asciiPlus ['#', 'l', 'e', 't', ' ', 'x', '(', 'x']
    (.ofList [.letBinding (some (1, 8)) (.letClosure (some (5, 6)))
      (.ofList [.closure (some (5, 8)) (.ofList [.leaf .other (some (5, 6))])
        (.ofList [.pos (.leaf .other (some (7, 8)))]) (.leaf .other (some (5, 6)))])]) =
    .ok [⟨⟨5, 6⟩, .unlintable⟩, ⟨⟨7, 8⟩, .unlintable⟩, ⟨⟨5, 6⟩, .unlintable⟩] := by decide

/-- VISITING ORDER (recorded finding `c02-typst-visit-order`). `#show "foo": [bar]` — no aliasing,
but `merge![recurse!(show_rule.transform()), show_rule.selector().and_then(..)]` visits the transform
first: `NoAlias` holds, `InOrder` does not … -/
def showText : List Char :=
  ['#', 's', 'h', 'o', 'w', ' ', '"', 'f', 'o', 'o', '"', ':', ' ', '[', 'b', 'a', 'r', ']']

def showTree : TNodes := .ofList
  [.recN .showRule (some (1, 18)) (.ofList
    [.body .content (some (13, 18)) (.ofList [.text (some (14, 17)) ['b', 'a', 'r']]),
     .str (some (6, 11)) ['"', 'f', 'o', 'o', '"']])]

example : TreeOK (utf8Bytes showText) showTree ∧ NoAlias showTree ∧
    ¬ InOrder (envOfSrc asciiPlus showText) showTree := by decide

/-- … and the tokens come out of order: `bar` (14..17) before `foo` (7..10) -/
example : typstParseSrc asciiPlus showText showTree =
    .ok [⟨⟨14, 17⟩, .word⟩, ⟨⟨7, 10⟩, .word⟩] := by decide

/-- `#rgb(a: 1, "x")`: `parse_args_ignored` emits the ignored (positional) argument before the
named one that precedes it in the source -/
example : typstParseSrc asciiPlus
    ['#', 'r', 'g', 'b', '(', 'a', ':', ' ', '1', ',', ' ', '"', 'x', '"', ')']
    (.ofList [.funcCall (some (1, 15)) (some (1, 4)) (.ofList
      [.named (some (5, 9)) (.leaf .other (some (5, 6))) ['a'] (.leaf .other (some (8, 9))),
       .pos (.str (some (11, 14)) ['"', 'x', '"'])])]) =
    .ok [⟨⟨1, 4⟩, .unlintable⟩, ⟨⟨11, 14⟩, .unlintable⟩, ⟨⟨5, 6⟩, .unlintable⟩, ⟨⟨8, 9⟩, .unlintable⟩] := by
  decide

/-- `NoAlias` and `InOrder` are independent. `#cite(style:` — the named argument aliases like
`lang:` above, but `style` is an IGNORED argument of `cite`: `parse_args_ignored` emits one
`Unlintable` over the whole argument and never descends into it. `NoAlias` fails, `InOrder` holds,
and the tokens are ordered, as `typstParse_sorted_partial` says -/
def citeText : List Char := ['#', 'c', 'i', 't', 'e', '(', 's', 't', 'y', 'l', 'e', ':']

def citeTree : TNodes := .ofList
  [.funcCall (some (1, 12)) (some (1, 5)) (.ofList
    [.named (some (6, 12)) (.leaf .other (some (6, 11))) ['s', 't', 'y', 'l', 'e']
      (.leaf .other (some (6, 11)))])]

example : TreeOK (utf8Bytes citeText) citeTree ∧ ¬ NoAlias citeTree ∧
    InOrder (envOfSrc asciiPlus citeText) citeTree := by decide

example : typstParseSrc asciiPlus citeText citeTree =
    .ok [⟨⟨1, 5⟩, .unlintable⟩, ⟨⟨6, 12⟩, .unlintable⟩] := by decide

/-- REGRESSION `#{_()}` (was a panic: `get_text!(func.callee())` unwrapped the `None` range of the
detached placeholder `FuncCall::callee()` returns when the call's first child is an `Underscore`;
fixed `0f1b3ac`). `get_text!` now gives the empty text; `token!(func.callee(), Unlintable)` finds no
range and its `?` leaves the closure `parse_func_call` with `None` — the call contributes nothing,
the tree satisfies `TreeOK`, and `typstParse_total` covers it -/
def underscoreCallTree : TNodes := .ofList
  [.body .code (some (1, 6)) (.ofList [.funcCall (some (2, 5)) none .nil])]

example : typstParseSrc asciiPlus ['#', '{', '_', '(', ')', '}'] underscoreCallTree = .ok [] := by decide

example : TreeOK (utf8Bytes ['#', '{', '_', '(', ')', '}']) underscoreCallTree := by decide

/-- … `#let x = _(1)`: the binding's name is translated, the call — its argument `1` included —
yields nothing (`?` leaves the closure before the arguments are looked at) … -/
example : typstParseSrc asciiPlus ['#', 'l', 'e', 't', ' ', 'x', ' ', '=', ' ', '_', '(', '1', ')']
    (.ofList [.letBinding (some (1, 13)) (.leaf .other (some (5, 6)))
      (.ofList [.funcCall (some (9, 13)) none (.ofList [.pos (.leaf .other (some (11, 12)))])])]) =
    .ok [⟨⟨5, 6⟩, .unlintable⟩] := by decide

/-- … and `#(_[a])`: the content block `[a]` passed to `_` is NOT translated either (real parser:
no token at all) -/
example : typstParseSrc asciiPlus ['#', '(', '_', '[', 'a', ']', ')']
    (.ofList [.rec1 .parenthesized (some (1, 7)) (.funcCall (some (2, 6)) none (.ofList
      [.pos (.body .content (some (3, 6)) (.ofList [.text (some (4, 5)) ['a']]))]))]) = .ok [] := by
  decide

/-- `TreeOK` is needed: the remaining `unwrap` / slice are guarded by the tree in every real tree
seen (monitor), and a tree that violates them makes the model panic like the code would: a `Space`
without a character (`get_text!` gives the empty text, `chars.next().unwrap()`) … -/
example : typstParseSrc asciiPlus ['a'] (.ofList [.space (some (1, 1))]) = .error .unwrapNone := by
  decide

/-- … a `Str` node of one character (`string[1..0]`) … -/
example : typstParseSrc asciiPlus ['"'] (.ofList [.str (some (0, 1)) ['"']]) = .error .sliceOOB := by
  decide

/-- … a child that starts BEFORE its parent (`assert!(new_byte >= self.byte)` of `push_to`) … -/
example : typstParseSrc asciiPlus ['a', 'b']
    (.ofList [.body .strong (some (1, 2)) (.ofList [.leaf .other (some (0, 1))])]) =
    .error .assertFail := by decide

/-- … and a range inside the two-byte `é` (`doc.get(..).unwrap()` of `push_to`) -/
example : typstParseSrc asciiPlus ['é'] (.ofList [.leaf .other (some (1, 2))]) = .error .unwrapNone := by
  decide

/-! ### zero-width tokens are only structural breaks (w24) -/

/-- ZERO-WIDTH TOKENS ARE ONLY STRUCTURAL BREAKS, under `RangesSolid`: for every byte list / text,
every inner parser that tiles its input and every tree whose `def_token!` ranges of non-structural
kinds are detached or cover a character, every token of `Typst::parse` with an empty span is a
`ParagraphBreak` or a `Newline`. Neither `TreeOK` nor the character count is needed (with `TreeOK` the
parse also exists: `typstParseSrc_zero_width_structural`): `def_token!` over a range that covers a
character is at least one character wide from whatever cursor, a `Space` whose `get_text!` is not
empty covers a character, `Text` / `Str` tokens are the inner parser's (tiling: no empty token). -/
theorem typstParse_zero_width_structural (E : Env) (hin : Md.InnerOK E.inner) (top : TNodes)
    (hs : RangesSolid E.bs top) (toks : List Tok) (hp : typstParse E top = .ok toks) :
    ∀ t ∈ toks, t.span.start = t.span.stop → t.kind = .paragraphBreak ∨ t.kind.isNewline = true :=
  typstParse_zw E hin top toks hp hs

/-- … for exactly what the driver runs (op `typst`), with `TreeOK`: the parse exists and its
zero-width tokens are structural breaks -/
theorem typstParseSrc_zero_width_structural (cls : Cls) (src : List Char) (top : TNodes)
    (h : TreeOK (utf8Bytes src) top) (hs : RangesSolid (utf8Bytes src) top) :
    ∃ toks, typstParseSrc cls src top = .ok toks ∧
      ∀ t ∈ toks, t.span.start = t.span.stop → t.kind = .paragraphBreak ∨ t.kind.isNewline = true := by
  obtain ⟨toks, ht, _⟩ := typstParseSrc_total_inbounds_sorted cls src top h
  exact ⟨toks, ht, typstParse_zero_width_structural (envOfSrc cls src) (plainEnglish_innerOK cls) top hs
    toks ht⟩

/-- `RangesSolid` holds for the real trees of this file: the heading, `#let f(x) = x` (identifiers of
the default arm, a closure's parameters), `#cite(style:` (a callee, an ignored argument),
`#show "foo": [bar]`, `#set text(lang:` — aliasing and visiting order do not matter for it -/
example : RangesSolid (utf8Bytes headingText) headingTree := by decide
example : RangesSolid (utf8Bytes letClosureText) letClosureTree := by decide
example : RangesSolid (utf8Bytes citeText) citeTree ∧ RangesSolid (utf8Bytes showText) showTree ∧
    RangesSolid (utf8Bytes setLangText) setLangTree := by decide

/-- non-vacuity of `typstParseSrc_zero_width_structural`: both hypotheses at once on the real tree
of `#let f(x) = x`, the theorem applied; its three tokens are `Unlintable`s of width 1 -/
example : ∃ toks, typstParseSrc asciiPlus letClosureText letClosureTree = .ok toks ∧ toks.length = 3 ∧
    ∀ t ∈ toks, t.span.start = t.span.stop → t.kind = .paragraphBreak ∨ t.kind.isNewline = true := by
  obtain ⟨toks, h, hz⟩ :=
    typstParseSrc_zero_width_structural asciiPlus letClosureText letClosureTree (by decide) (by decide)
  have h2 : typstParseSrc asciiPlus letClosureText letClosureTree =
      .ok [⟨⟨5, 6⟩, .unlintable⟩, ⟨⟨7, 8⟩, .unlintable⟩, ⟨⟨12, 13⟩, .unlintable⟩] := by decide
  rw [h2] at h; cases h
  exact ⟨_, rfl, rfl, hz⟩

/-- the premise of the clause is met by a tree that satisfies `RangesSolid` (SYNTHETIC: no real tree
with an empty `Linebreak` / `Parbreak` is known either): an empty `Linebreak` and an empty `Parbreak`
give a zero-width `Newline` and a zero-width `ParagraphBreak` — allowed by the clause -/
example : RangesSolid (utf8Bytes ['a', 'b'])
      (.ofList [.text (some (0, 1)) ['a'], .leaf .linebreak (some (1, 1)), .leaf .parbreak (some (1, 1)),
        .text (some (1, 2)) ['b']]) ∧
    typstParseSrc asciiPlus ['a', 'b']
      (.ofList [.text (some (0, 1)) ['a'], .leaf .linebreak (some (1, 1)), .leaf .parbreak (some (1, 1)),
        .text (some (1, 2)) ['b']]) =
      .ok [⟨⟨0, 1⟩, .word⟩, ⟨⟨1, 1⟩, .newline 1⟩, ⟨⟨1, 1⟩, .paragraphBreak⟩, ⟨⟨1, 2⟩, .word⟩] := by decide

/-- … and the synthetic witness above (zero-width `Unlintable` 1..1 with `TreeOK`, `NoAlias`, `InOrder`)
VIOLATES `RangesSolid`: the new predicate is what separates it from the real trees -/
example : ¬ RangesSolid (utf8Bytes ['a', 'b'])
    (.ofList [.text (some (0, 1)) ['a'], .leaf .other (some (1, 1)), .text (some (1, 2)) ['b']]) := by
  decide

/-- every other conjunct of `RangesSolid` is needed too (SYNTHETIC trees, all `TreeOK`): an empty
placeholder pattern, an empty field, an empty callee, an empty ignored argument of `rgb`, an empty
name of a named destructuring item each give a zero-width `Unlintable` / `Word` -/
example : typstParseSrc asciiPlus ['a'] (.ofList [.patPlaceholder (some (1, 1))]) =
      .ok [⟨⟨1, 1⟩, .unlintable⟩] ∧
    typstParseSrc asciiPlus ['a'] (.ofList [.fieldAccess (some (0, 1)) (.leaf .other (some (0, 1))) (some (1, 1))]) =
      .ok [⟨⟨0, 1⟩, .unlintable⟩, ⟨⟨1, 1⟩, .word⟩] ∧
    typstParseSrc asciiPlus ['a'] (.ofList [.funcCall (some (0, 1)) (some (0, 0)) .nil]) =
      .ok [⟨⟨0, 0⟩, .unlintable⟩] ∧
    typstParseSrc asciiPlus ['r', 'g', 'b']
      (.ofList [.funcCall (some (0, 3)) (some (0, 3)) (.ofList [.pos (.text (some (3, 3)) [])])]) =
      .ok [⟨⟨0, 3⟩, .unlintable⟩, ⟨⟨3, 3⟩, .unlintable⟩] ∧
    typstParseSrc asciiPlus ['a']
      (.ofList [.patDestruct (some (0, 1)) (.ofList [.dnamed (some (0, 1)) (some (0, 0)) (.leaf .other (some (0, 1)))])]) =
      .ok [⟨⟨0, 0⟩, .word⟩, ⟨⟨0, 1⟩, .unlintable⟩] := by decide

example : ¬ RangesSolid (utf8Bytes ['a']) (.ofList [.patPlaceholder (some (1, 1))]) ∧
    ¬ RangesSolid (utf8Bytes ['a'])
      (.ofList [.fieldAccess (some (0, 1)) (.leaf .other (some (0, 1))) (some (1, 1))]) ∧
    ¬ RangesSolid (utf8Bytes ['a']) (.ofList [.funcCall (some (0, 1)) (some (0, 0)) .nil]) ∧
    ¬ RangesSolid (utf8Bytes ['r', 'g', 'b'])
      (.ofList [.funcCall (some (0, 3)) (some (0, 3)) (.ofList [.pos (.text (some (3, 3)) [])])]) ∧
    ¬ RangesSolid (utf8Bytes ['a'])
      (.ofList [.patDestruct (some (0, 1)) (.ofList [.dnamed (some (0, 1)) (some (0, 0)) (.leaf .other (some (0, 1)))])]) := by
  decide

/-- `convert_parbreaks` on `Heading Space Text Space List Space`: the first and the second `Space`
are next to a heading / a list item; the last expression is never converted -/
example : convertParbreaks [.headingOrList, .space, .other, .space, .headingOrList, .space] =
    [false, true, false, true, false, false] := by decide

/-- … a `Space` in first position is not converted even before a heading -/
example : convertParbreaks [.space, .headingOrList, .space, .other] = [false, false, true, false] := by
  decide

/-! ## HTML -/

/-- THE CLAMP: `HtmlParser::parse` changes nothing but the count of a `Space` token — same number
of tokens, same spans, `Space(v)` becomes `Space(min v 1)`, every other kind is kept -/
theorem htmlSpaceClamp_spec (toks : List Tok) :
    (htmlSpaceClamp toks).length = toks.length ∧
    ∀ (i : Nat) (hi : i < toks.length),
      ∃ t', (htmlSpaceClamp toks)[i]? = some t' ∧ t'.span = toks[i].span ∧
        (match toks[i].kind with
         | .space v => t'.kind = .space (min v 1)
         | k => t'.kind = k) := by
  refine ⟨by simp [htmlSpaceClamp], ?_⟩
  intro i hi
  refine ⟨Typst.clampTok toks[i], by simp [htmlSpaceClamp, List.getElem?_eq_getElem hi], ?_, ?_⟩
  · unfold Typst.clampTok; split <;> rfl
  · cases hk : toks[i].kind <;> simp [Typst.clampTok, hk]

/-- IN BOUNDS, ORDERED: given the mask invariant (`MaskOK`: sorted, disjoint, inside the text — what
`TreeSitterMasker::create_mask` is proved to return or to panic, C04) and an inner parser that keeps
its tokens inside its chunk and in order (`InnerOK`), `HtmlParser::parse` does not panic and its
tokens are inside the source and pairwise ordered and disjoint -/
theorem htmlParse_inbounds_sorted (src : List Char) (mask : List Span) (inner : List Char → List Tok)
    (hm : MaskOK src.length mask) (hin : InnerOK inner) :
    ∃ toks, htmlParse src mask inner = .ok toks ∧
      (∀ t ∈ toks, t.span.start ≤ t.span.stop ∧ t.span.stop ≤ src.length) ∧
      toks.Pairwise (fun a b => a.span.stop ≤ b.span.start) := by
  obtain ⟨toks, h1, h2, h3⟩ := C04.maskParse_inbounds_sorted src mask inner hm hin
  have hspan : ∀ t : Tok, (Typst.clampTok t).span = t.span := by
    intro t; unfold Typst.clampTok; split <;> rfl
  refine ⟨htmlSpaceClamp toks, by simp only [htmlParse, h1, bind, Except.bind, pure, Except.pure], ?_, ?_⟩
  · intro t ht
    simp only [htmlSpaceClamp, List.mem_map] at ht
    obtain ⟨u, hu, rfl⟩ := ht
    rw [hspan u]
    exact h2 u hu
  · simp only [htmlSpaceClamp, List.pairwise_map]
    exact h3.imp (by intro a b hab; rw [hspan a, hspan b]; exact hab)

/-- non-vacuity of `htmlParse_inbounds_sorted`: both hypotheses at once — a HAND-MADE mask of two
allowed spans over `a␣␣␣b<i>␣␣` (`MaskOK`) and an inner parser that answers one `Space(n)` over its
whole chunk (`InnerOK`); the theorem applied … -/
example : ∃ toks, htmlParse ['a', ' ', ' ', ' ', 'b', '<', 'i', '>', ' ', ' '] [⟨1, 4⟩, ⟨8, 10⟩]
      (fun c => if c.isEmpty then [] else [⟨⟨0, c.length⟩, .space c.length⟩]) = .ok toks ∧
      (∀ t ∈ toks, t.span.start ≤ t.span.stop ∧ t.span.stop ≤ 10) ∧
      toks.Pairwise (fun a b => a.span.stop ≤ b.span.start) :=
  htmlParse_inbounds_sorted _ _ _ (by
    refine ⟨?_, by decide⟩
    intro s hs; simp at hs; rcases hs with rfl | rfl <;> simp) (by
    intro c
    by_cases hc : c = [] <;> simp [hc])

/-- … and what comes out: the inner tokens shifted to 1 and 8, `Space(3)` / `Space(2)` clamped -/
example : htmlParse ['a', ' ', ' ', ' ', 'b', '<', 'i', '>', ' ', ' '] [⟨1, 4⟩, ⟨8, 10⟩]
      (fun c => if c.isEmpty then [] else [⟨⟨0, c.length⟩, .space c.length⟩]) =
    .ok [⟨⟨1, 4⟩, .space 1⟩, ⟨⟨8, 10⟩, .space 1⟩] := by decide

/-- the clamp on the tokens of `a␣␣␣b`: `Space(3)` becomes `Space(1)` over the same three blanks -/
example : htmlSpaceClamp [⟨⟨3, 4⟩, .word⟩, ⟨⟨4, 7⟩, .space 3⟩, ⟨⟨7, 8⟩, .word⟩, ⟨⟨8, 8⟩, .space 0⟩] =
    [⟨⟨3, 4⟩, .word⟩, ⟨⟨4, 7⟩, .space 1⟩, ⟨⟨7, 8⟩, .word⟩, ⟨⟨8, 8⟩, .space 0⟩] := by decide

/-! ### exactly what the driver runs (op `htmlparse`, w24) -/

/-- the model of `PlainEnglish` never fails, so the total inner parser `plainInner` the HTML op runs
IS that model: the `[]` default of its second arm is never taken -/
theorem plainInner_eq (cls : Cls) (chunk : List Char) :
    parsePlainFull cls chunk = .ok (plainInner cls chunk) := by
  obtain ⟨toks, h⟩ := parsePlainFull_total cls chunk
  simp only [plainInner, h]

/-- … it tiles its chunk: tokens inside the chunk, ordered (`InnerOK` of the `Mask` theorems), and
each covers a character -/
theorem plainInner_innerOK (cls : Cls) :
    InnerOK (plainInner cls) ∧ ∀ c, ∀ t ∈ plainInner cls c, t.span.start < t.span.stop := by
  have key : ∀ c, (∀ t ∈ plainInner cls c, 0 ≤ t.span.start ∧ t.span.start < t.span.stop ∧
      t.span.stop ≤ c.length) ∧ (plainInner cls c).Pairwise (fun x y => x.span.stop ≤ y.span.start) := by
    intro c
    obtain ⟨toks, h, ht, _⟩ := parsePlainFull_tiles cls c
    have he := plainInner_eq cls c
    rw [h] at he; cases he
    exact Md.tiles_facts _ 0 c.length ht
  refine ⟨fun c => ⟨fun t ht => ?_, (key c).2⟩, fun c t ht => ((key c).1 t ht).2.1⟩
  have := (key c).1 t ht
  omega

/-- ZERO-WIDTH CLAUSE FOR HTML: if the inner parser's tokens all cover a character (a tiling lexer's
do) then EVERY token `HtmlParser::parse` returns covers a character — there is no zero-width token at
all: `parsers::Mask` puts a `ParagraphBreak` only over a gap that contains a line feed, and the clamp
leaves spans alone. No hypothesis on the mask. -/
theorem htmlParse_no_zero_width (src : List Char) (mask : List Span) (inner : List Char → List Tok)
    (hpos : ∀ c, ∀ t ∈ inner c, t.span.start < t.span.stop) (toks : List Tok)
    (h : htmlParse src mask inner = .ok toks) : ∀ t ∈ toks, t.span.start < t.span.stop :=
  Typst.htmlParse_pos src mask inner hpos toks h

/-- NO PANIC, IN BOUNDS, ORDERED, NO ZERO-WIDTH TOKEN for exactly what the driver runs (op `htmlparse`:
the text, the mask the real `TreeSitterMasker` computed for it, the model of `PlainEnglish` as the
inner parser): `MaskOK` (monitored on every real mask: `html:MaskOK`) is the only hypothesis left -/
theorem htmlParseSrc_inbounds_sorted (cls : Cls) (src : List Char) (mask : List Span)
    (hm : MaskOK src.length mask) :
    ∃ toks, htmlParseSrc cls src mask = .ok toks ∧
      (∀ t ∈ toks, t.span.start < t.span.stop ∧ t.span.stop ≤ src.length) ∧
      toks.Pairwise (fun a b => a.span.stop ≤ b.span.start) := by
  obtain ⟨toks, h1, h2, h3⟩ := htmlParse_inbounds_sorted src mask (plainInner cls) hm (plainInner_innerOK cls).1
  refine ⟨toks, h1, fun t ht => ⟨?_, (h2 t ht).2⟩, h3⟩
  exact htmlParse_no_zero_width src mask (plainInner cls) (plainInner_innerOK cls).2 toks h1 t ht

/-- `Scott</p><b title="x">'There`: the text of the masked-markup corner case (DESIGN §6 C02) and the
mask the real masker computes for it (two `text` nodes, not separated by blanks only) -/
def scottText : List Char :=
  ['S', 'c', 'o', 't', 't', '<', '/', 'p', '>', '<', 'b', ' ', 't', 'i', 't', 'l', 'e', '=', '"', 'x', '"', '>',
   '\'', 'T', 'h', 'e', 'r', 'e']

def scottMask : List Span := [⟨0, 5⟩, ⟨22, 28⟩]

/-- non-vacuity of `htmlParseSrc_inbounds_sorted`: the REAL mask satisfies `MaskOK`; the theorem
applied … -/
example : ∃ toks, htmlParseSrc asciiPlus scottText scottMask = .ok toks ∧
      (∀ t ∈ toks, t.span.start < t.span.stop ∧ t.span.stop ≤ 28) ∧
      toks.Pairwise (fun a b => a.span.stop ≤ b.span.start) :=
  htmlParseSrc_inbounds_sorted asciiPlus scottText scottMask (by
    refine ⟨?_, by decide⟩
    intro s hs; simp [scottMask] at hs; rcases hs with rfl | rfl <;> simp [scottText])

/-- … and what comes out is what the real `HtmlParser` returns (K, op `htmlparse`, corpus): a word,
and — 17 characters of markup later — an apostrophe and a word. Adjacent tokens of a masked front-end
need not be adjacent in the text (no tiling) … -/
example : htmlParseSrc asciiPlus scottText scottMask =
    .ok [⟨⟨0, 5⟩, .word⟩, ⟨⟨22, 23⟩, .punct .Apostrophe⟩, ⟨⟨23, 28⟩, .word⟩] := by decide

/-- … REGRESSION for the witness DESIGN §6 C02 cites (w22 audit: "is an `example`" — it was not, and it
is no longer true of the code): `Document::parse`'s contraction pass matches `word ' word` by kinds
only; it used to stretch the first token over the last, giving ONE `Word` 0..28 whose text was
`Scott</p><b title="x">'There`, markup included. Since the repair `c3ef348` (`condense_pattern` only
merges tokens that are contiguous in the source: the `windows(2)` test, `contiguous` in the model) the
three tokens of the masked parse are left alone -/
example : condenseContractions scottText
      [⟨⟨0, 5⟩, .word⟩, ⟨⟨22, 23⟩, .punct .Apostrophe⟩, ⟨⟨23, 28⟩, .word⟩] =
    .ok [⟨⟨0, 5⟩, .word⟩, ⟨⟨22, 23⟩, .punct .Apostrophe⟩, ⟨⟨23, 28⟩, .word⟩] := by
  decide

/-- … whereas the same three kinds over ADJACENT characters (`it's` inside one text node) are one
`Word`: the pass is not switched off -/
example : condenseContractions ['i', 't', '\'', 's']
      [⟨⟨0, 2⟩, .word⟩, ⟨⟨2, 3⟩, .punct .Apostrophe⟩, ⟨⟨3, 4⟩, .word⟩] = .ok [⟨⟨0, 4⟩, .word⟩] := by
  decide

/-- blanks runs, a raw-text element, a paragraph break over a gap with a line feed, a two-byte
character: `<p>a   é</p>⏎<script>x</script> b` with the real mask — `Space(3)` clamped to `Space(1)`
over the same three blanks, nothing from the script, tokens at CHARACTER offsets -/
example : htmlParseSrc asciiPlus
    ['<', 'p', '>', 'a', ' ', ' ', ' ', 'é', '<', '/', 'p', '>', '\n', '<', 's', 'c', 'r', 'i', 'p', 't', '>', 'x',
     '<', '/', 's', 'c', 'r', 'i', 'p', 't', '>', ' ', 'b']
    [⟨3, 8⟩, ⟨32, 33⟩] =
    .ok [⟨⟨3, 4⟩, .word⟩, ⟨⟨4, 7⟩, .space 1⟩, ⟨⟨7, 8⟩, .word⟩, ⟨⟨8, 32⟩, .paragraphBreak⟩, ⟨⟨32, 33⟩, .word⟩] := by
  decide

end Harper.C02
