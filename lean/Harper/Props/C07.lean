import Harper.Lemmas.DictIO
/-!
# C07 — words the user adds to a dictionary are accepted from then on and never lost

Model: `Harper/Model/DictIO.lean` (the dictionary file as written by `save_dict` syscall by syscall,
`load_dict`, the word map keyed by the lower-cased normalized spelling, the merged dictionary's
accept test, the add / restart / crash / lint state machine, the JS linter's two dictionaries).
Helper lemmas: `Harper/Lemmas/DictIO.lean`. `lower` / `normalize` are parameters (`Spell.Fns`).

The property as stated is FALSE of the code in six ways, each proved below on a concrete history
and recorded in `known_findings.json` (a seventh, found by w24, was repaired in the project — last item):
* `case_collision` — `add zqxv; add Zqxv` re-flags `zqxv` and drops it from the file;
* `crash_loses_all` (+ `crash_loses_old_word_and_invents_one`, `crash_torn_character_loses_all`) —
  `save_dict` truncates and then writes: a crash in between loses every word;
* `unnormalized_word_never_accepted` — a word spelt with `’` is stored as typed but looked up
  normalized, so adding it has no effect;
* `other_dialect_word_never_accepted` — a word the curated dictionary lists for another dialect
  stays flagged after being added (the merged dictionary answers metadata from its first child);
* `js_import_case_variant_stale` — `import_words` does not re-synchronise when the count does not
  grow;
* `untitled_file_dict_add_ignored` (w24) — `HarperAddToFileDict` on an `untitled:` document saves
  nothing, keeps nothing, says nothing: the word stays reported;
* (`untitled_path_overwrites_file_dict` (w24): the same command on `untitled:/a/b.md` REPLACED the file
  dictionary of `/a/b.md` by the one new word — repaired in repo commit 861d597 (`save_file_dictionary`
  returns without writing for the `untitled` scheme); the theorem of that name now states that the
  dictionary of `/a/b.md` is untouched.)
What does hold is proved as `…_partial` theorems with the hypotheses spelled out. Operations that concern
a document carry its URL kind (`fileUrl`, `untitledUrl`, `untitledPathUrl`, `opaqueUrl`).
-/
namespace Harper.C07
open Harper.Spell Harper.Stats Harper.DictIO

/-! ### a concrete instance for the witnesses: ASCII lower-casing, `’` ↦ `'` -/

def asciiLower (w : List Char) : List Char :=
  w.map fun c => if 'A' ≤ c ∧ c ≤ 'Z' then Char.ofNat (c.toNat + 32) else c
def normApos (w : List Char) : List Char := w.map fun c => if c = '’' then '\'' else c
def fnsAscii : Fns := ⟨asciiLower, normApos⟩

def zqxv : Word := ['z', 'q', 'x', 'v']
def Zqxv : Word := ['Z', 'q', 'x', 'v']
def abcq : Word := ['a', 'b', 'c', 'q']
def zqé : Word := ['z', 'q', 'é']
def zqApos : Word := ['z', 'q', '’', 'x', 'v']
def colour : Word := ['c', 'o', 'l', 'o', 'u', 'r']

/-! ## the saved file reloads to what was saved -/

/-- **load ∘ save = id.** Whatever was in the file before, a completed `save_dict` of the word
sequence `ws` (well-formed, pairwise different keys — the latter holds of every `MutableDictionary`)
is read back by `load_dict` as exactly `ws`, in order. -/
theorem load_save (f : Fns) (ws : List Word) (hw : WellFormed ws) (hu : UniqueKeys f ws)
    (old : Disk) : loadDict f (run (saveTrace ws) old) = some ws := by
  rw [run_saveTrace]
  simp [loadDict, readToString, loadWords_writeLog f ws hw hu]

/-- the bytes on disk are `word ⏎ word ⏎ …` and nothing else -/
theorem save_contents (ws : List Word) (old : Disk) :
    run (saveTrace ws) old = .file (writeLog ws) false := run_saveTrace ws old

/-- every `write` syscall of a save carries at least one byte, and together they carry the file -/
theorem save_writes (ws : List Word) :
    (chunks ws).flatten = writeLog ws ∧ ∀ c ∈ chunks ws, c ≠ [] :=
  ⟨chunks_flatten ws, chunkGo_ne_nil bufCap (by decide) _ []⟩

-- the shape `strace` shows: open(O_TRUNC), one write for a small dictionary, close; no write at all
-- for an empty one
example : saveTrace [zqxv, abcq] =
    [.openTrunc, .write ['z', 'q', 'x', 'v', '\n', 'a', 'b', 'c', 'q', '\n'], .close] := by decide
example : saveTrace [] = [.openTrunc, .close] := by decide
-- non-vacuity of `load_save`, with an empty word and a word made of a space: both survive
example : WellFormed [zqxv, [], [' '], Zqxv ++ ['\r', 'a']] ∧
    UniqueKeys fnsAscii [zqxv, [], [' '], Zqxv ++ ['\r', 'a']] := by decide
example : loadDict fnsAscii (run (saveTrace [zqxv, [], [' ']]) .absent) = some [zqxv, [], [' ']] := by
  decide
-- each hypothesis is needed: a line feed inside a word splits it …
example : loadDict fnsAscii (run (saveTrace [['a', '\n', 'b']]) .absent) = some [['a'], ['b']] := by
  decide
-- … a trailing carriage return is eaten …
example : loadDict fnsAscii (run (saveTrace [['a', '\r']]) .absent) = some [['a']] := by decide
-- … and two spellings with one key collapse to the later one
example : loadDict fnsAscii (run (saveTrace [zqxv, Zqxv]) .absent) = some [Zqxv] := by decide

/-! ## an added word is accepted from then on -/

/-- what a later operation may be for the word `w` to stay accepted -/
def Benign (f : Fns) (w : Word) : Op → Prop
  | .add w' _ => WellFormedWord w' ∧ (key f w' = key f w → w' = w)
  | .crashAdd _ _ _ _ => False
  | _ => True

theorem benign_step (f : Fns) (cur : List Entry) (w : Word) (s : State) (op : Op)
    (hb : Benign f w op) (hc : Clean f s.user) (hm : w ∈ loadOrEmpty f s.user) :
    Clean f (step f cur s op).1.user ∧ w ∈ loadOrEmpty f (step f cur s op).1.user := by
  cases op with
  | add w' ord =>
    obtain ⟨hw', hk⟩ := hb
    obtain ⟨hl, hp, _, hwf⟩ := add_reload f s.user w' ord hc hw'
    have he := loadOrEmpty_of_loadDict hl
    simp only [step, Clean, he]
    refine ⟨hwf, hp.mem_iff.mpr ?_⟩
    by_cases h : key f w = key f w'
    · rw [← hk h.symm]; exact mem_insert_self f w' _
    · exact mem_insert_of_ne f w' w _ hm h
  | crashAdd _ _ _ _ => cases hb
  | addFile u n w' ord => rw [step_addFile_user]; exact ⟨hc, hm⟩
  | restart => exact ⟨hc, hm⟩
  | lint u n qs => rw [step_lint_user]; exact ⟨hc, hm⟩
  | jsImport _ => exact ⟨hc, hm⟩
  | jsLint _ => exact ⟨hc, hm⟩
  | jsRestart _ => exact ⟨hc, hm⟩

theorem benign_runOps (f : Fns) (cur : List Entry) (w : Word) (rest : List Op) :
    ∀ s : State, (∀ op ∈ rest, Benign f w op) → Clean f s.user → w ∈ loadOrEmpty f s.user →
      w ∈ loadOrEmpty f (runOps f cur s rest).user := by
  induction rest with
  | nil => intro s _ _ hm; exact hm
  | cons op rest ih =>
    intro s hb hc hm
    have ⟨hc', hm'⟩ := benign_step f cur w s op (hb op (by simp)) hc hm
    exact ih _ (fun o ho => hb o (List.mem_cons_of_mem _ ho)) hc' hm'

/-- **Accepted from then on (partial).** After `HarperAddToUserDict w` on a clean dictionary file,
`w` is not reported in any document (`name` arbitrary), immediately and after any sequence of later
adds, file-dictionary adds, restarts and document checks, PROVIDED
(1) `w` is well-formed and already normalized (`hn`; fails for `’`: `unnormalized_word_never_accepted`),
(2) the curated dictionary does not list `w`'s key for another dialect only (`hcur`; fails for
    `colour` under American English: `other_dialect_word_never_accepted`),
(3) no later add has a different word with the same lower-cased normalized key (fails:
    `case_collision`), later added words are well-formed, and
(4) no save crashes (`crash_loses_all`).
Missing for the full property: exactly (1)–(4); and that the word reaches `SpellCheck` as one
`Word` token (C02). -/
theorem add_then_accepted_partial (f : Fns) (cur : List Entry) (s : State) (w : Word)
    (ord : List Word) (rest : List Op) (name : Nat)
    (hclean : Clean f s.user) (hw : WellFormedWord w) (hn : f.normalize w = w)
    (hcur : ∀ e, lookup f cur w = some e → e.dialectOk = true)
    (hrest : ∀ op ∈ rest, Benign f w op) :
    acceptM f (children f cur (runOps f cur (step f cur s (.add w ord)).1 rest) name) w = true := by
  obtain ⟨hl, hp, _, hwf⟩ := add_reload f s.user w ord hclean hw
  have he := loadOrEmpty_of_loadDict hl
  have h0 : Clean f (step f cur s (.add w ord)).1.user ∧
      w ∈ loadOrEmpty f (step f cur s (.add w ord)).1.user := by
    simp only [step, Clean, he]
    exact ⟨hwf, hp.mem_iff.mpr (mem_insert_self f w _)⟩
  have hm := benign_runOps f cur w rest _ hrest h0.1 h0.2
  exact acceptM_of_user f cur _ _ (uniqueKeys_loadOrEmpty f _) w hm hn hcur

-- non-vacuity: a clean non-empty file, a curated slice that lists another word, later operations
-- of every benign kind (incl. a restart and another add); the answers computed by the kernel
example : Clean fnsAscii (.file (abcq ++ ['\n']) false) ∧ WellFormedWord zqxv ∧
    fnsAscii.normalize zqxv = zqxv ∧
    (∀ op ∈ [Op.restart, .add Zqxv.reverse [], .addFile fileUrl 3 abcq [], .lint fileUrl 1 [abcq]],
      Benign fnsAscii zqxv op) := by
  refine ⟨by decide, by decide, by decide, ?_⟩
  intro op hop
  simp only [List.mem_cons, List.not_mem_nil, or_false] at hop
  rcases hop with rfl | rfl | rfl | rfl <;> simp [Benign] <;> decide
example : (step fnsAscii [⟨colour, false⟩]
      (runOps fnsAscii [] { user := .file (abcq ++ ['\n']) false }
        [.add zqxv [], .restart, .add Zqxv.reverse [], .addFile fileUrl 3 abcq []])
      (.lint fileUrl 1 [zqxv, abcq, Zqxv, ['Z', 'Q', 'X', 'V'], ['z', 'q']])).2
    = [true, true, true, true, false] := by decide

/-- **Case collision: the full property is false.** `add zqxv; add Zqxv; lint "zqxv"` reports `zqxv`
again, and the saved file holds only `Zqxv` — the earlier word is lost without any crash.
(Confirmed on the real code; finding `c07-case-collision`, not fixed.) -/
theorem case_collision :
    (step fnsAscii [] (runOps fnsAscii [] {} [.add zqxv []]) (.lint fileUrl 0 [zqxv])).2 = [true] ∧
    (step fnsAscii [] (runOps fnsAscii [] {} [.add zqxv [], .add Zqxv []]) (.lint fileUrl 0 [zqxv])).2
      = [false] ∧
    (runOps fnsAscii [] {} [.add zqxv [], .add Zqxv []]).user
      = .file ['Z', 'q', 'x', 'v', '\n'] false := by decide

-- in the other order nothing is lost from the user's point of view: the lower-case entry also
-- admits the capitalised form
example : (step fnsAscii [] (runOps fnsAscii [] {} [.add Zqxv [], .add zqxv []])
    (.lint fileUrl 0 [zqxv, Zqxv])).2 = [true, true] := by decide

/-- **A word typed with `’` is never accepted.** The word map stores the spelling as typed but
`contains_exact_word` compares it with the NORMALIZED query (`’` ↦ `'`): adding `zq’xv` (the code
action takes the word from the document) has no effect. (Finding `c07-unnormalized-word`.) -/
theorem unnormalized_word_never_accepted :
    (runOps fnsAscii [] {} [.add zqApos []]).user = .file (zqApos ++ ['\n']) false ∧
    (step fnsAscii [] (runOps fnsAscii [] {} [.add zqApos []])
      (.lint fileUrl 0 [zqApos, ['z', 'q', '\'', 'x', 'v']])).2 = [false, false] := by decide

/-- **A word of another dialect is never accepted.** `colour` is in the curated dictionary, tagged
British; the merged dictionary answers `get_word_metadata` from its first child, so under American
English the token keeps the British tag and stays reported after `add colour`.
(Finding `c07-other-dialect-word`.) -/
theorem other_dialect_word_never_accepted :
    (runOps fnsAscii [⟨colour, false⟩] {} [.add colour []]).user = .file (colour ++ ['\n']) false ∧
    (step fnsAscii [⟨colour, false⟩] (runOps fnsAscii [⟨colour, false⟩] {} [.add colour []])
      (.lint fileUrl 0 [colour])).2 = [false] := by decide

/-! ## nothing is lost without a crash or a collision -/

/-- the words of the `HarperAddToUserDict` commands of a history -/
def userAdds : List Op → List Word
  | [] => []
  | .add w _ :: ops => w :: userAdds ops
  | _ :: ops => userAdds ops

def isCrash : Op → Bool
  | .crashAdd _ _ _ _ => true
  | _ => false

theorem restart_preserves_from (f : Fns) (cur : List Entry) (ops : List Op) :
    ∀ (s : State) (acc : List Word), Clean f s.user →
      (∀ w, w ∈ loadOrEmpty f s.user ↔ w ∈ acc) →
      WellFormed (userAdds ops) → (∀ op ∈ ops, isCrash op = false) →
      (∀ a ∈ acc ++ userAdds ops, ∀ b ∈ acc ++ userAdds ops, key f a = key f b → a = b) →
      ∀ w, w ∈ loadOrEmpty f (runOps f cur s ops).user ↔ w ∈ acc ++ userAdds ops := by
  induction ops with
  | nil => intro s acc _ hm _ _ _ w; simpa [runOps, userAdds] using hm w
  | cons op ops ih =>
    intro s acc hc hm hwf hnc hcol
    have hnc' : ∀ o ∈ ops, isCrash o = false := fun o ho => hnc o (List.mem_cons_of_mem _ ho)
    have same : ∀ s' : State, s'.user = s.user → userAdds (op :: ops) = userAdds ops →
        ∀ w, w ∈ loadOrEmpty f (runOps f cur s' ops).user ↔ w ∈ acc ++ userAdds (op :: ops) := by
      intro s' hs' hu
      rw [hu] at hwf hcol ⊢
      exact ih s' acc (by rw [hs']; exact hc) (by rw [hs']; exact hm) hwf hnc' hcol
    cases op with
    | add w' ord =>
      have hw' : WellFormedWord w' := hwf w' (by simp [userAdds])
      obtain ⟨hl, hp, _, hwf'⟩ := add_reload f s.user w' ord hc hw'
      have he := loadOrEmpty_of_loadDict hl
      have hm' : ∀ x, x ∈ loadOrEmpty f (step f cur s (.add w' ord)).1.user ↔ x ∈ acc ++ [w'] := by
        intro x
        simp only [step, he, hp.mem_iff]
        constructor
        · intro hx
          rcases mem_of_mem_insert f w' x _ hx with rfl | hx
          · simp
          · simp [(hm x).mp hx]
        · intro hx
          rcases List.mem_append.mp hx with hx | hx
          · by_cases hk : key f x = key f w'
            · have : x = w' := hcol x (by simp [hx]) w' (by simp [userAdds]) hk
              rw [this]; exact mem_insert_self f w' _
            · exact mem_insert_of_ne f w' x _ ((hm x).mpr hx) hk
          · have : x = w' := by simpa using hx
            rw [this]; exact mem_insert_self f w' _
      have hc' : Clean f (step f cur s (.add w' ord)).1.user := by
        simp only [step, Clean, he]; exact hwf'
      have := ih (step f cur s (.add w' ord)).1 (acc ++ [w']) hc' hm'
        (fun x hx => hwf x (by simp [userAdds, hx])) hnc'
        (by simpa [userAdds] using hcol)
      intro w
      simpa [runOps, userAdds] using this w
    | crashAdd w' ord k j => have := hnc (.crashAdd w' ord k j) (by simp); simp [isCrash] at this
    | addFile u n w' ord => exact same _ (step_addFile_user f cur s u n w' ord) rfl
    | restart => exact same _ rfl rfl
    | lint u n qs => exact same _ (step_lint_user f cur s u n qs) rfl
    | jsImport ws => exact same _ rfl rfl
    | jsLint qs => exact same _ rfl rfl
    | jsRestart ord => exact same _ rfl rfl

/-- **Restarts lose nothing.** Starting without a dictionary file, after any history of adds,
file-dictionary adds, document checks and server restarts in which no save crashes, the added
words are well-formed and no two different added words share a lower-cased normalized key, the
user dictionary file reloads to exactly the set of words added so far (pairwise different keys,
hence no duplicates) — and a restart itself does not touch the file. -/
theorem restart_preserves (f : Fns) (cur : List Entry) (ops : List Op)
    (hwf : WellFormed (userAdds ops)) (hnc : ∀ op ∈ ops, isCrash op = false)
    (hcol : ∀ a ∈ userAdds ops, ∀ b ∈ userAdds ops, key f a = key f b → a = b) :
    (∀ w, w ∈ loadOrEmpty f (runOps f cur {} ops).user ↔ w ∈ userAdds ops) ∧
    UniqueKeys f (loadOrEmpty f (runOps f cur {} ops).user) ∧
    (step f cur (runOps f cur {} ops) .restart).1.user = (runOps f cur {} ops).user := by
  refine ⟨?_, uniqueKeys_loadOrEmpty f _, rfl⟩
  have := restart_preserves_from f cur ops {} [] (by intro w hw; cases hw)
    (by intro w; simp [loadOrEmpty, loadDict, readToString]) hwf hnc (by simpa using hcol)
  simpa using this

-- non-vacuity: a history with restarts, a file-dictionary add and a repeated add
example : WellFormed (userAdds [.add zqxv [], .restart, .add abcq [], .addFile fileUrl 1 Zqxv [], .restart,
      .add zqxv [], .lint fileUrl 0 [zqxv]]) ∧
    (loadOrEmpty fnsAscii (runOps fnsAscii [] {} [.add zqxv [], .restart, .add abcq [],
      .addFile fileUrl 1 Zqxv [], .restart, .add zqxv [], .lint fileUrl 0 [zqxv]]).user) = [zqxv, abcq] := by decide

/-- the language server's in-memory copy is never stale: after an add or a document check it equals
what the file reloads to (every handler re-reads the files) -/
theorem mem_fresh (f : Fns) (cur : List Entry) (s : State) (w : Word) (ord : List Word)
    (n : Nat) (qs : List Word) :
    (step f cur s (.add w ord)).1.mem = loadOrEmpty f (step f cur s (.add w ord)).1.user ∧
    (step f cur s (.lint fileUrl n qs)).1.mem
      = loadOrEmpty f (step f cur s (.lint fileUrl n qs)).1.user :=
  ⟨rfl, rfl⟩

/-! ## a crash during a save -/

/-- a crash before `File::create` leaves the file as it was -/
theorem crash_before_open_keeps (f : Fns) (cur : List Entry) (s : State) (w : Word)
    (ord : List Word) (j : Nat) : (step f cur s (.crashAdd w ord 0 j)).1.user = s.user := by
  simp [step, crashDisk, saveTrace, run]

theorem crashDisk_after_open (ws : List Word) (old : Disk) :
    crashDisk (saveTrace ws) 1 0 old = .file [] false := by
  unfold crashDisk saveTrace
  cases h : chunks ws with
  | nil => simp [run, exec]
  | cons c cs => simp [run, exec, takeBytes_zero]

/-- **A crash right after the open loses everything (general form).** Whatever the dictionary held,
if the process dies after `File::create` and before the first byte is written, the dictionary
reloads EMPTY — not "all words but the one being added". -/
theorem crash_after_open_empty (f : Fns) (cur : List Entry) (s : State) (w : Word)
    (ord : List Word) : loadOrEmpty f (step f cur s (.crashAdd w ord 1 0)).1.user = [] := by
  simp only [step, crashDisk_after_open]
  rfl

/-- **Crash during save: the full property is false.** `add zqxv; add abcq;` then a third add whose
save dies right after the open: the file exists and is empty, both earlier words are gone, and
`zqxv` is reported again. The property allows losing at most the word being added.
(Finding `c07-crash-during-save`; an atomic temp-file + rename save would create a file C10 does
not allow, so it is recorded, not fixed.) -/
theorem crash_loses_all :
    (runOps fnsAscii [] {} [.add zqxv [], .add abcq [], .crashAdd zqé [] 1 0]).user
      = .file [] false ∧
    loadOrEmpty fnsAscii (runOps fnsAscii [] {} [.add zqxv [], .add abcq []]).user = [zqxv, abcq] ∧
    loadOrEmpty fnsAscii
      (runOps fnsAscii [] {} [.add zqxv [], .add abcq [], .crashAdd zqé [] 1 0]).user = [] ∧
    (step fnsAscii [] (runOps fnsAscii [] {} [.add zqxv [], .add abcq [], .crashAdd zqé [] 1 0])
      (.lint fileUrl 0 [zqxv, abcq])).2 = [false, false] := by decide

/-- a crash after 7 of the 13 bytes: an OLD word (`abcq`) is lost and a word nobody added (`ab`)
is now in the dictionary -/
theorem crash_loses_old_word_and_invents_one :
    (runOps fnsAscii [] {} [.add zqxv [], .add abcq [], .crashAdd zqé [] 1 7]).user
      = .file ['z', 'q', 'x', 'v', '\n', 'a', 'b'] false ∧
    (step fnsAscii [] (runOps fnsAscii [] {} [.add zqxv [], .add abcq [], .crashAdd zqé [] 1 7])
      (.lint fileUrl 0 [zqxv, abcq, ['a', 'b']])).2 = [true, false, true] := by decide

/-- a crash inside the two bytes of `é`: the file is not UTF-8, `load_dict` fails, the server
falls back to the empty dictionary — and the next add overwrites the file with one word -/
theorem crash_torn_character_loses_all :
    (runOps fnsAscii [] {} [.add zqxv [], .add abcq [], .crashAdd zqé [] 1 13]).user
      = .file ['z', 'q', 'x', 'v', '\n', 'a', 'b', 'c', 'q', '\n', 'z', 'q'] true ∧
    loadOrEmpty fnsAscii
      (runOps fnsAscii [] {} [.add zqxv [], .add abcq [], .crashAdd zqé [] 1 13]).user = [] ∧
    (runOps fnsAscii [] {} [.add zqxv [], .add abcq [], .crashAdd zqé [] 1 13, .add Zqxv []]).user
      = .file ['Z', 'q', 'x', 'v', '\n'] false := by decide

theorem run_snoc_close (l : List Sys) (d : Disk) : run (l ++ [Sys.close]) d = run l d := by
  simp only [run, List.foldl_append, List.foldl_cons, List.foldl_nil]
  cases h : List.foldl exec d l <;> rfl

/-- **A crash after the last write is harmless.** Once every `write` of the save has completed —
the process dies before the file is closed — the file reloads to exactly the words that were being
saved, the new word included (`j` is irrelevant there). -/
theorem crash_after_full_write_ok (f : Fns) (ws : List Word) (hw : WellFormed ws)
    (hu : UniqueKeys f ws) (old : Disk) (j : Nat) :
    loadDict f (crashDisk (saveTrace ws) ((chunks ws).length + 1) j old) = some ws := by
  have hlen : ((chunks ws).map Sys.write).length = (chunks ws).length := by simp
  have htake : (saveTrace ws).take ((chunks ws).length + 1)
      = Sys.openTrunc :: (chunks ws).map Sys.write := by
    simp only [saveTrace, List.take_succ_cons]
    rw [List.take_append_of_le_length (by simp)]
    simp [List.take_of_length_le]
  have hget : (saveTrace ws)[(chunks ws).length + 1]? = some Sys.close := by
    simp only [saveTrace, List.getElem?_cons_succ]
    rw [List.getElem?_append_right (by simp)]
    simp
  have hrun : run (Sys.openTrunc :: (chunks ws).map Sys.write) old = .file (writeLog ws) false := by
    rw [← run_saveTrace ws old]
    show _ = run (Sys.openTrunc :: ((chunks ws).map Sys.write ++ [Sys.close])) old
    rw [← List.cons_append, run_snoc_close]
  simp only [crashDisk, htake, hget, hrun]
  simp [loadDict, readToString, loadWords_writeLog f ws hw hu]

-- non-vacuity: the crash point "after the only write, before close" of a two-word save
example : loadDict fnsAscii (crashDisk (saveTrace [zqxv, abcq]) 2 5 (.file zqxv false))
    = some [zqxv, abcq] := by decide
-- `locate` maps byte offsets to crash points: offset 0 = after the open, 7 = inside the write,
-- 10 = all written
example : locate (saveTrace [zqxv, abcq]) 0 = (1, 0) ∧ locate (saveTrace [zqxv, abcq]) 7 = (1, 7) ∧
    locate (saveTrace [zqxv, abcq]) 10 = (2, 0) := by decide

/-! ## file dictionaries -/

/-- **A file-dictionary word affects only its file.** `HarperAddToFileDict` for a document whose
dictionary file name is `n` leaves the accept answer of every word unchanged in every document
whose dictionary file name `m` is different — whatever the kind `u` of the command's URL (w24: an
`untitled:/a/b.md` URL writes the dictionary of `/a/b.md`, and only that). (`file_dict_name` itself is per-op data: it is NOT
injective on paths — `/a/b` and `/a%b` share a name — which the oracle records as
`c07-file-dict-name-collision`.) -/
theorem file_dict_isolated (f : Fns) (cur : List Entry) (s : State) (u : UrlKind) (n m : Nat)
    (w : Word) (ord : List Word) (h : m ≠ n) (q : Word) :
    acceptM f (children f cur (step f cur s (.addFile u n w ord)).1 m) q
      = acceptM f (children f cur s m) q := by
  simp only [children, step_addFile_user, step_addFile_fileDisk_ne f cur s u n m w ord h]

/-- … and in its own file the word is accepted (same side conditions as for the user dictionary) —
for a `file:` URL; for an `untitled:` URL see `add_file_untitled_not_accepted` below -/
theorem file_dict_accepted_partial (f : Fns) (cur : List Entry) (s : State) (n : Nat) (w : Word)
    (ord : List Word) (hclean : Clean f (fileDisk s.files n)) (hw : WellFormedWord w)
    (hn : f.normalize w = w) (hcur : ∀ e, lookup f cur w = some e → e.dialectOk = true) :
    acceptM f (children f cur (step f cur s (.addFile fileUrl n w ord)).1 n) w = true := by
  obtain ⟨hl, hp, _, _⟩ := add_reload f (fileDisk s.files n) w ord hclean hw
  have he := loadOrEmpty_of_loadDict hl
  simp only [step_addFile_file, children, fileDisk_cons_self, he]
  refine acceptM_of_file f cur _ _ ?_ w (hp.mem_iff.mpr (mem_insert_self f w _)) hn hcur
    (fun e h => lookup_entries_dialectOk f _ w e h)
  exact uniqueKeys_perm f hp (uniqueKeys_insert f w _ (uniqueKeys_loadOrEmpty f _))

-- non-vacuity: two documents, the word is accepted in document 1 only
example : (step fnsAscii [] (runOps fnsAscii [] {} [.addFile fileUrl 1 zqxv []]) (.lint fileUrl 1 [zqxv])).2 = [true] ∧
    (step fnsAscii [] (runOps fnsAscii [] {} [.addFile fileUrl 1 zqxv []]) (.lint fileUrl 2 [zqxv])).2 = [false] := by
  decide

/-! ## the other lints -/

/-- **All other lints are unchanged** — under the modelling assumption that non-spelling rules are
a function `other` of the text alone (C11's independence; monitored by the oracle, which compares
every non-spelling lint of the text before and after each add): no operation changes them.
The assumption is FALSE of two rules, which read the dictionary / the metadata an added word
acquires (recorded findings `c07-capitalization-consults-dictionary`: SentenceCapitalization skips a
sentence-initial word whose dictionary spelling is mixed-case; `c07-oxford-comma-reads-word-metadata`:
OxfordComma inspects the first two words that HAVE metadata); the monitor excepts exactly these. -/
theorem other_lints_unchanged (f : Fns) (cur : List Entry) (other : List Char → List Nat)
    (s : State) (op : Op) (name : Nat) (text : List Char) (qs : List Word) :
    (lintAll f cur other (step f cur s op).1 name text qs).2
      = (lintAll f cur other s name text qs).2 := rfl

/-! ## the rebuild decision (`doc_state.dict != dict`) -/

/-- the assumption on the hash: the character sequences seen get pairwise different hashes
(decidable for a concrete hash; for foldhash it is a 64-bit collision assumption) -/
abbrev HashInjectiveOnSeen (h : List Char → Nat) (seen : List (List Char)) : Prop :=
  ∀ a ∈ seen, ∀ b ∈ seen, h a = h b → a = b

theorem stream_length_perm {a b : List Word} (p : a.Perm b) :
    (stream a).length = (stream b).length := p.flatten.length_eq

/-- **The rebuild decision is sound for an add to the user dictionary.** The document holds a merged
dictionary whose user child enumerated the words `old` (in any order `oldIt`); the add of a
non-empty word `w` with a new key makes the user dictionary `old ++ [w]`, reloaded and enumerated
in any order `newIt`. If the hash separates the two character streams, `MergedDictionary`'s `==`
reports a change, so `update_document` installs the new dictionary and rebuilds the linter —
whatever the file-dictionary children are. (This is what lets `Model/DictIO.step` and
`Server.dictDiffers` treat the comparison as exact.) -/
theorem rebuild_decision_sound (h : List Char → Nat) (old oldIt newIt : List Word) (w : Word)
    (fileHeld fileLoaded : Child) (hold : oldIt.Perm old) (hnew : newIt.Perm (old ++ [w]))
    (hw : w ≠ []) (hinj : HashInjectiveOnSeen h [stream oldIt, stream newIt]) :
    mergedEq h [.curated, .words oldIt, fileHeld] [.curated, .words newIt, fileLoaded] = false ∧
    heldAfter h [.curated, .words oldIt, fileHeld] [.curated, .words newIt, fileLoaded]
      = [.curated, .words newIt, fileLoaded] := by
  have hlen : (stream newIt).length = (stream oldIt).length + w.length := by
    rw [stream_length_perm hnew, stream_length_perm hold]
    simp [stream]
  have hne : stream oldIt ≠ stream newIt := by
    intro he
    have : w.length = 0 := by rw [he] at hlen; omega
    exact hw (List.eq_nil_of_length_eq_zero this)
  have hh : h (stream oldIt) ≠ h (stream newIt) :=
    fun e => hne (hinj _ (by simp) _ (by simp) e)
  have hfalse : mergedEq h [.curated, .words oldIt, fileHeld]
      [.curated, .words newIt, fileLoaded] = false := by
    simp [mergedEq, fingerprint, childHash, hh]
  exact ⟨hfalse, by simp [heldAfter, hfalse]⟩

/-- the same for an add to the document's file dictionary (third child) -/
theorem rebuild_decision_sound_file (h : List Char → Nat) (old oldIt newIt : List Word) (w : Word)
    (userHeld userLoaded : Child) (hold : oldIt.Perm old) (hnew : newIt.Perm (old ++ [w]))
    (hw : w ≠ []) (hinj : HashInjectiveOnSeen h [stream oldIt, stream newIt]) :
    mergedEq h [.curated, userHeld, .words oldIt] [.curated, userLoaded, .words newIt] = false := by
  have hlen : (stream newIt).length = (stream oldIt).length + w.length := by
    rw [stream_length_perm hnew, stream_length_perm hold]
    simp [stream]
  have hne : stream oldIt ≠ stream newIt := by
    intro he
    have : w.length = 0 := by rw [he] at hlen; omega
    exact hw (List.eq_nil_of_length_eq_zero this)
  have hh : h (stream oldIt) ≠ h (stream newIt) :=
    fun e => hne (hinj _ (by simp) _ (by simp) e)
  simp [mergedEq, fingerprint, childHash, hh]

-- non-vacuity: the injective stand-in hash on a concrete add, orders shuffled
example : HashInjectiveOnSeen hashInj [stream [abcq, zqxv], stream [Zqxv.reverse, zqxv, abcq]] ∧
    mergedEq hashInj [.curated, .words [abcq, zqxv], .words []]
      [.curated, .words [Zqxv.reverse, zqxv, abcq], .words []] = false := by decide

/-- **An XOR-combining fingerprint breaks the decision.** For ANY per-character hash `g`, a word in
which every character occurs an even number of times (`xoxo`) leaves the XOR fingerprint of the
stream unchanged: the hypothesis `HashInjectiveOnSeen` fails, `==` reports "no change", … -/
theorem xor_fingerprint_misses_xoxo (g : Char → Nat) (s : List Char) :
    xorHash g (s ++ ['x', 'o', 'x', 'o']) = xorHash g s ∧
    ¬ HashInjectiveOnSeen (xorHash g) [s, s ++ ['x', 'o', 'x', 'o']] := by
  have h1 : xorHash g (s ++ ['x', 'o', 'x', 'o']) = xorHash g s := by
    simp only [xorHash, List.foldl_append, List.foldl_cons, List.foldl_nil]
    generalize List.foldl (fun acc c => acc ^^^ g c) 0 s = a
    rw [Nat.xor_assoc (a ^^^ g 'x'), Nat.xor_comm (g 'o'), ← Nat.xor_assoc (a ^^^ g 'x'),
      Nat.xor_assoc a, Nat.xor_self, Nat.xor_zero, Nat.xor_assoc, Nat.xor_self, Nat.xor_zero]
  refine ⟨h1, fun hinj => ?_⟩
  have := hinj s (by simp) (s ++ ['x', 'o', 'x', 'o']) (by simp) h1.symm
  have hl := congrArg List.length this
  simp at hl

/-- … and the open document keeps its old dictionary: after `add xoxo` the file holds the word, a
fresh check accepts it, but the document's held dictionary still reports it. -/
theorem xor_fingerprint_keeps_stale_linter :
    mergedEq (xorHash Char.toNat) [.curated, .words [zqxv], .words []]
      [.curated, .words [zqxv, ['x', 'o', 'x', 'o']], .words []] = true ∧
    heldAfter (xorHash Char.toNat) [.curated, .words [zqxv], .words []]
      [.curated, .words [zqxv, ['x', 'o', 'x', 'o']], .words []]
      = [.curated, .words [zqxv], .words []] ∧
    acceptM fnsAscii [[], entries [zqxv], []] ['x', 'o', 'x', 'o'] = false ∧
    acceptM fnsAscii [[], entries [zqxv, ['x', 'o', 'x', 'o']], []] ['x', 'o', 'x', 'o'] = true := by
  decide

/-- **The real `==` ignores word boundaries.** Whatever the hash, `{ab, c}` and `{a, bc}` compare
equal when enumerated in these orders: a hand-edited dictionary file can change without the open
document noticing. Not reachable by add commands alone (`rebuild_decision_sound`: the stream grows).
(Finding `c07-dict-eq-no-word-boundaries`.) -/
theorem eq_ignores_word_boundaries (h : List Char → Nat) :
    mergedEq h [.curated, .words [['a', 'b'], ['c']], .words []]
      [.curated, .words [['a'], ['b', 'c']], .words []] = true := by
  simp [mergedEq, fingerprint, childHash, stream]

/-- … and a REPLACING add (same key, other case) can be invisible too: `{A, aA}` enumerated `A, aA`
and `{A, Aa}` enumerated `Aa, A` have the same stream -/
theorem replacing_add_can_be_invisible (h : List Char → Nat) :
    mergedEq h [.curated, .words [['A'], ['a', 'A']], .words []]
      [.curated, .words [['A', 'a'], ['A']], .words []] = true := by
  simp [mergedEq, fingerprint, childHash, stream]

/-! ## the JS API -/

/-- `import_words [w]` of a word with a NEW key makes the linter accept it at once
(`word_count` grows, so the lint dictionary is rebuilt) -/
theorem js_import_accepted_partial (f : Fns) (cur : List Entry) (js : Js) (w : Word)
    (hu : UniqueKeys f js.user) (hnew : ∀ e ∈ js.user, key f e ≠ key f w)
    (hn : f.normalize w = w) (hcur : ∀ e, lookup f cur w = some e → e.dialectOk = true) :
    acceptM f [cur, entries (js.importWords f [w]).lint] w = true := by
  have hi : insertAll f js.user [w] = js.user ++ [w] := by
    simp [insertAll, insert_fresh f w js.user hnew]
  have hl : (js.importWords f [w]).lint = js.user ++ [w] := by
    simp [Js.importWords, hi]
  rw [hl]
  refine acceptM_of_user f cur _ [] ?_ w (by simp) hn hcur
  have := uniqueKeys_insert f w js.user hu
  rwa [insert_fresh f w js.user hnew] at this

/-- **`import_words` with a case variant leaves the lint dictionary stale.** `import ["Zqxv"]`,
then `import ["zqxv"]`: the user dictionary (and `export_words`) now holds `zqxv`, the count did
not grow, `synchronize_lint_dict` is skipped, and the just-imported `zqxv` is reported. A new
`Linter` importing the export accepts it. (Matches `c07-case-collision`.) -/
theorem js_import_case_variant_stale :
    (runOps fnsAscii [] {} [.jsImport [Zqxv], .jsImport [zqxv]]).js = ⟨[zqxv], [Zqxv]⟩ ∧
    (step fnsAscii [] (runOps fnsAscii [] {} [.jsImport [Zqxv], .jsImport [zqxv]])
      (.jsLint [zqxv, Zqxv])).2 = [false, true] ∧
    (step fnsAscii [] (runOps fnsAscii [] {} [.jsImport [Zqxv], .jsImport [zqxv], .jsRestart []])
      (.jsLint [zqxv, Zqxv])).2 = [true, true] := by decide

/-! ## w22: joint witnesses of the hypotheses -/

/-- non-vacuity of `load_save`: the theorem applied to four words (one empty, one of a space, one with
an inner `\r`), both hypotheses together, over an old file -/
example : loadDict fnsAscii (run (saveTrace [zqxv, [], [' '], Zqxv.reverse ++ ['\r', 'a']])
      (.file abcq true)) = some [zqxv, [], [' '], Zqxv.reverse ++ ['\r', 'a']] :=
  load_save fnsAscii _ (by decide) (by decide) _

/-- non-vacuity of `benign_step` / `benign_runOps`: a non-empty clean file that holds the word, a
later add of another word -/
example : Benign fnsAscii zqxv (.add abcq []) ∧
    Clean fnsAscii (State.user { user := .file (zqxv ++ ['\n']) false }) ∧
    zqxv ∈ loadOrEmpty fnsAscii (State.user { user := .file (zqxv ++ ['\n']) false }) := by
  refine ⟨⟨by decide, by decide⟩, by decide, by decide⟩

example : zqxv ∈ loadOrEmpty fnsAscii
    (runOps fnsAscii [] { user := .file (zqxv ++ ['\n']) false } [.add abcq [], .restart]).user :=
  benign_runOps fnsAscii [] zqxv [.add abcq [], .restart] _
    (by intro op hop
        simp only [List.mem_cons, List.not_mem_nil, or_false] at hop
        rcases hop with rfl | rfl <;> simp [Benign] <;> decide)
    (by decide) (by decide)

/-- non-vacuity of `add_then_accepted_partial`: the theorem applied with ALL hypotheses — a clean
non-empty file, a curated slice that lists the word's key (capitalised, dialect admitted) and another
word for another dialect, later operations of every benign kind -/
example : acceptM fnsAscii (children fnsAscii [⟨colour, false⟩, ⟨Zqxv, true⟩]
      (runOps fnsAscii [⟨colour, false⟩, ⟨Zqxv, true⟩]
        (step fnsAscii [⟨colour, false⟩, ⟨Zqxv, true⟩] { user := .file (abcq ++ ['\n']) false }
          (.add zqxv [])).1
        [.restart, .add Zqxv.reverse [], .addFile fileUrl 3 abcq [], .lint fileUrl 1 [abcq]]) 1) zqxv = true :=
  add_then_accepted_partial fnsAscii _ _ zqxv [] _ 1 (by decide) (by decide) (by decide)
    (by decide)
    (by intro op hop
        simp only [List.mem_cons, List.not_mem_nil, or_false] at hop
        rcases hop with rfl | rfl | rfl | rfl <;> simp [Benign] <;> decide)

/-- non-vacuity of `restart_preserves`: the theorem applied to a history with restarts, a
file-dictionary add, a repeated add and a document check — all three hypotheses together -/
example : (∀ w, w ∈ loadOrEmpty fnsAscii (runOps fnsAscii [] {} [.add zqxv [], .restart, .add abcq [],
      .addFile fileUrl 1 Zqxv [], .restart, .add zqxv [], .lint fileUrl 0 [zqxv]]).user ↔ w ∈ [zqxv, abcq, zqxv]) :=
  (restart_preserves fnsAscii [] [.add zqxv [], .restart, .add abcq [], .addFile fileUrl 1 Zqxv [], .restart,
    .add zqxv [], .lint fileUrl 0 [zqxv]] (by decide) (by decide) (by decide)).1

/-- non-vacuity of `crash_after_full_write_ok`: the theorem applied (both hypotheses), old file present -/
example : loadDict fnsAscii (crashDisk (saveTrace [zqxv, abcq, []]) ((chunks [zqxv, abcq, []]).length + 1) 5
    (.file zqxv false)) = some [zqxv, abcq, []] :=
  crash_after_full_write_ok fnsAscii _ (by decide) (by decide) _ 5

/-- non-vacuity of `file_dict_isolated` / `file_dict_accepted_partial`: the theorems applied; the file
dictionary already holds a word, the curated slice lists the added word's key -/
example : acceptM fnsAscii (children fnsAscii [⟨Zqxv, true⟩]
      (step fnsAscii [⟨Zqxv, true⟩] { files := [(1, .file (abcq ++ ['\n']) false)] }
        (.addFile fileUrl 1 zqxv [])).1 1) zqxv = true :=
  file_dict_accepted_partial fnsAscii _ _ 1 zqxv [] (by decide) (by decide) (by decide) (by decide)
example : acceptM fnsAscii (children fnsAscii []
      (step fnsAscii [] { files := [(1, .file (abcq ++ ['\n']) false)] } (.addFile fileUrl 1 zqxv [])).1 2) zqxv
    = acceptM fnsAscii (children fnsAscii [] { files := [(1, .file (abcq ++ ['\n']) false)] } 2) zqxv :=
  file_dict_isolated fnsAscii [] _ fileUrl 1 2 zqxv [] (by decide) zqxv

/-- non-vacuity of `rebuild_decision_sound(_file)`: the theorems applied, all four hypotheses
(two shuffled enumerations, a non-empty word, the injective stand-in hash) -/
example : mergedEq hashInj [.curated, .words [abcq, zqxv], .words [colour]]
      [.curated, .words [Zqxv.reverse, zqxv, abcq], .words []] = false :=
  (rebuild_decision_sound hashInj [zqxv, abcq] [abcq, zqxv] [Zqxv.reverse, zqxv, abcq] Zqxv.reverse
    (.words [colour]) (.words []) (List.isPerm_iff.mp (by decide)) (List.isPerm_iff.mp (by decide))
    (by decide) (by decide)).1
example : mergedEq hashInj [.curated, .words [colour], .words [abcq, zqxv]]
      [.curated, .words [], .words [Zqxv.reverse, zqxv, abcq]] = false :=
  rebuild_decision_sound_file hashInj [zqxv, abcq] [abcq, zqxv] [Zqxv.reverse, zqxv, abcq] Zqxv.reverse
    (.words [colour]) (.words []) (List.isPerm_iff.mp (by decide)) (List.isPerm_iff.mp (by decide))
    (by decide) (by decide)

/-- non-vacuity of `js_import_accepted_partial`: the theorem applied to a linter that already holds a
word, the curated slice listing the new word's key -/
example : acceptM fnsAscii [[⟨Zqxv, true⟩, ⟨colour, false⟩],
    entries ((⟨[abcq], [abcq]⟩ : Js).importWords fnsAscii [zqxv]).lint] zqxv = true :=
  js_import_accepted_partial fnsAscii _ ⟨[abcq], [abcq]⟩ zqxv (by decide) (by decide) (by decide)
    (by decide)

/-! ## w22: a dictionary file on disk; file-dictionary words from then on -/

/-- **A dictionary file on disk** (the property's third way of adding a word; no command involved):
whatever state the server is in, if the user dictionary file — hand-written or saved — reloads to a
list containing the normalized word `w`, the next check of ANY document (w24: of any URL kind `u` —
also an `untitled:` one, whose file dictionary is empty) accepts `w`, under the
same proviso on the curated dictionary as `add_then_accepted_partial`. -/
theorem disk_word_accepted_partial (f : Fns) (cur : List Entry) (s : State) (w : Word) (u : UrlKind)
    (name : Nat) (hw : w ∈ loadOrEmpty f s.user) (hn : f.normalize w = w)
    (hcur : ∀ e, lookup f cur w = some e → e.dialectOk = true) :
    (step f cur s (.lint u name [w])).2 = [true] := by
  simp only [step, childrenOf]
  cases loadFileDict f u (fileDisk s.files name) with
  | none => rfl
  | some fd =>
    simp only [Option.map_some, List.map_cons, List.map_nil]
    rw [acceptM_of_user f cur _ _ (uniqueKeys_loadOrEmpty f _) w hw hn hcur]

/-- non-vacuity of `disk_word_accepted_partial`: a hand-edited file with CRLF line ends and a
duplicate key; the later spelling is the one that counts -/
example : (step fnsAscii [⟨colour, false⟩]
      { user := .file (Zqxv ++ ['\r', '\n'] ++ abcq ++ ['\n'] ++ zqxv ++ ['\n']) false }
      (.lint fileUrl 7 [zqxv])).2 = [true] :=
  disk_word_accepted_partial fnsAscii _ _ zqxv fileUrl 7 (by decide) (by decide) (by decide)

/-! ### a file-dictionary word is accepted from then on -/

/-- what a later `HarperAddToFileDict` for the same dictionary file `n` may be for `w` to stay in it:
issued from a URL without a path, or from an `untitled:` URL (with or without a path), it is harmless
(nothing is written: `add_file_untitled_writes_nothing`, `untitled_path_add_replaces_file`); issued from
any other URL with a path the word must be well-formed and must not replace `w` by a case variant. For
histories whose commands all come from `file:` URLs this is the hypothesis the theorems below had before
URL kinds were modelled. (Until repo commit 861d597 an add from `untitled:/…` had to be excluded: it
replaced the file.) -/
abbrev BenignFileAdd (f : Fns) (w : Word) (u : UrlKind) (w' : Word) : Prop :=
  (u.path = true ∧ u.untitled = false) → WellFormedWord w' ∧ (key f w' = key f w → w' = w)

theorem benignFile_step (f : Fns) (cur : List Entry) (n : Nat) (w : Word) (s : State) (op : Op)
    (hb : ∀ u w' ord, op = .addFile u n w' ord → BenignFileAdd f w u w')
    (hc : Clean f (fileDisk s.files n))
    (hm : w ∈ loadOrEmpty f (fileDisk s.files n)) :
    Clean f (fileDisk (step f cur s op).1.files n) ∧
      w ∈ loadOrEmpty f (fileDisk (step f cur s op).1.files n) := by
  cases op with
  | addFile u n' w' ord =>
    by_cases hnn : n' = n
    · subst hnn
      cases hpath : u.path with
      | false => rw [step_addFile_nopath f cur s u n' w' ord hpath]; exact ⟨hc, hm⟩
      | true =>
        cases hunt : u.untitled with
        | true =>
          rw [(step_addFile_untitled f cur s u n' w' ord hunt).1]; exact ⟨hc, hm⟩
        | false =>
        obtain ⟨hw', hk⟩ := hb u w' ord rfl ⟨hpath, hunt⟩
        have hu : u = fileUrl := by cases u; simp_all
        subst hu
        obtain ⟨hl, hp, _, hwf⟩ := add_reload f (fileDisk s.files n') w' ord hc hw'
        have he := loadOrEmpty_of_loadDict hl
        simp only [step_addFile_file, Clean, fileDisk_cons_self, he]
        refine ⟨hwf, hp.mem_iff.mpr ?_⟩
        by_cases h : key f w = key f w'
        · rw [← hk h.symm]; exact mem_insert_self f w' _
        · exact mem_insert_of_ne f w' w _ hm h
    · rw [step_addFile_fileDisk_ne f cur s u n' n w' ord (Ne.symm hnn)]
      exact ⟨hc, hm⟩
  | add _ _ => exact ⟨hc, hm⟩
  | crashAdd _ _ _ _ => exact ⟨hc, hm⟩
  | restart => exact ⟨hc, hm⟩
  | lint u n' qs => rw [step_lint_files]; exact ⟨hc, hm⟩
  | jsImport _ => exact ⟨hc, hm⟩
  | jsLint _ => exact ⟨hc, hm⟩
  | jsRestart _ => exact ⟨hc, hm⟩

theorem benignFile_runOps (f : Fns) (cur : List Entry) (n : Nat) (w : Word) (rest : List Op) :
    ∀ s : State, (∀ u w' ord, Op.addFile u n w' ord ∈ rest → BenignFileAdd f w u w') →
      Clean f (fileDisk s.files n) →
      w ∈ loadOrEmpty f (fileDisk s.files n) →
      w ∈ loadOrEmpty f (fileDisk (runOps f cur s rest).files n) := by
  induction rest with
  | nil => intro s _ _ hm; exact hm
  | cons op rest ih =>
    intro s hb hc hm
    have ⟨hc', hm'⟩ := benignFile_step f cur n w s op
      (fun u w' ord e => hb u w' ord (by simp [e])) hc hm
    exact ih _ (fun u w' ord ho => hb u w' ord (List.mem_cons_of_mem _ ho)) hc' hm'

/-- **A file-dictionary word is accepted from then on (partial).** After `HarperAddToFileDict w` for a
document (`file:` URL) whose dictionary file is `n` (clean), `w` is not reported in that document
immediately and after any later sequence of operations — user-dictionary adds, CRASHED
user-dictionary saves, restarts, checks (of documents of any URL kind), adds to other file
dictionaries, adds from URLs without a path or from `untitled:` URLs (nothing is written), and adds to
the same file dictionary from `file:` URLs that are well-formed and do not replace `w` by a case variant
(`BenignFileAdd`) — under provisos (1), (2) of `add_then_accepted_partial`.
(`file_dict_accepted_partial` is the case `rest = []`.)
w24: until repo commit 861d597 an add to the same dictionary from an `untitled:/…` URL had to be
excluded — it lost `w`; since the repair it is harmless (`untitled_path_overwrites_file_dict`). -/
theorem file_dict_then_accepted_partial (f : Fns) (cur : List Entry) (s : State) (n : Nat) (w : Word)
    (ord : List Word) (rest : List Op) (hclean : Clean f (fileDisk s.files n))
    (hw : WellFormedWord w) (hn : f.normalize w = w)
    (hcur : ∀ e, lookup f cur w = some e → e.dialectOk = true)
    (hrest : ∀ u w' ord', Op.addFile u n w' ord' ∈ rest → BenignFileAdd f w u w') :
    acceptM f (children f cur (runOps f cur (step f cur s (.addFile fileUrl n w ord)).1 rest) n) w
      = true := by
  obtain ⟨hl, hp, _, hwf⟩ := add_reload f (fileDisk s.files n) w ord hclean hw
  have he := loadOrEmpty_of_loadDict hl
  have h0 : Clean f (fileDisk (step f cur s (.addFile fileUrl n w ord)).1.files n) ∧
      w ∈ loadOrEmpty f (fileDisk (step f cur s (.addFile fileUrl n w ord)).1.files n) := by
    simp only [step_addFile_file, Clean, fileDisk_cons_self, he]
    exact ⟨hwf, hp.mem_iff.mpr (mem_insert_self f w _)⟩
  have hm := benignFile_runOps f cur n w rest _ hrest h0.1 h0.2
  simp only [children]
  exact acceptM_of_file f cur _ _ (uniqueKeys_loadOrEmpty f _) w hm hn hcur
    (fun e h => lookup_entries_dialectOk f _ w e h)

/-- non-vacuity of `file_dict_then_accepted_partial`: later a user add of a case variant, a crashed
user save, an add to another file, an add to the same file, (w24) a case-variant add to the same
name from an `untitled:Untitled-1` URL (nothing is written) and a check of that document, a restart -/
example : acceptM fnsAscii (children fnsAscii [⟨colour, false⟩]
      (runOps fnsAscii [⟨colour, false⟩]
        (step fnsAscii [⟨colour, false⟩] { files := [(1, .file (abcq ++ ['\n']) false)] }
          (.addFile fileUrl 1 zqxv [])).1
        [.add Zqxv [], .crashAdd zqé [] 1 0, .addFile fileUrl 2 Zqxv [], .addFile fileUrl 1 zqé [],
          .addFile untitledUrl 1 Zqxv [], .lint untitledUrl 1 [zqxv], .restart]) 1)
      zqxv = true :=
  file_dict_then_accepted_partial fnsAscii _ _ 1 zqxv [] _ (by decide) (by decide) (by decide)
    (by decide)
    (by intro u w' ord' hop
        simp only [List.mem_cons, List.not_mem_nil, or_false, reduceCtorEq, false_or, or_false,
          Op.addFile.injEq] at hop
        rcases hop with ⟨_, h, _⟩ | ⟨rfl, _, rfl, _⟩ | ⟨rfl, _, rfl, _⟩
        · cases h
        · decide
        · decide)

/-! ## w22: every crash point of a save -/

theorem takeBytes_prefix (cs : List Char) :
    ∀ j, (takeBytes cs j).1 <+: cs ∧ ((takeBytes cs j).2 = true → (takeBytes cs j).1.length < cs.length) := by
  induction cs with
  | nil => intro j; simp [takeBytes]
  | cons c cs ih =>
    intro j
    simp only [takeBytes]
    split
    · simp
    · split
      · have := ih (j - utf8Len c)
        exact ⟨(List.prefix_cons_inj c).mpr this.1, fun h => by simpa using this.2 h⟩
      · simp

theorem crashDisk_cons_succ (x : Sys) (tr : List Sys) (n j : Nat) (d : Disk) :
    crashDisk (x :: tr) (n + 1) j d = crashDisk tr n j (exec d x) := by
  simp [crashDisk, run]

theorem crashDisk_writes (cs : List (List Char)) :
    ∀ (a : List Char) (n j : Nat), ∃ p torn,
      crashDisk (cs.map Sys.write ++ [Sys.close]) n j (.file a false) = .file (a ++ p) torn ∧
      p <+: cs.flatten ∧ (torn = true → p ≠ cs.flatten) := by
  induction cs with
  | nil =>
    intro a n j
    refine ⟨[], false, ?_, List.nil_prefix, by simp⟩
    cases n with
    | zero => simp [crashDisk, run]
    | succ n => simp [crashDisk, run, exec]
  | cons c cs ih =>
    intro a n j
    cases n with
    | zero =>
      have ht := takeBytes_prefix c j
      refine ⟨(takeBytes c j).1, (takeBytes c j).2, by simp [crashDisk, run], ?_, ?_⟩
      · exact ht.1.trans (by simp)
      · intro h he
        have := ht.2 h
        rw [he] at this
        simp at this
        omega
    | succ n =>
      obtain ⟨p, torn, h1, h2, h3⟩ := ih (a ++ c) n j
      refine ⟨c ++ p, torn, ?_, ?_, ?_⟩
      · rw [List.map_cons, List.cons_append, crashDisk_cons_succ]
        simpa [exec] using h1
      · simpa using (List.prefix_append_right_inj c).mpr h2
      · intro h he
        exact h3 h (by simpa using he)

/-- **Every crash point of a save.** Whatever crash point `(k, j)` — `k` completed syscalls of the
traced save, `j` bytes of the next `write` — either nothing has happened yet (`k = 0`: the file is
untouched), or the file holds a character-prefix `p` of the new contents `word ⏎ word ⏎ …`
(followed, if `torn`, by an incomplete UTF-8 sequence, and then `p` is a proper prefix): the OLD
contents are gone from the first syscall on. So a crashed save never leaves "the old dictionary"
except before the open, and leaves "the new dictionary" only once all bytes are out; in between, the
words lost are all those of the old dictionary that lie beyond the cut — not "at most the word being
added". The three named crash points and the counter-histories above are instances. -/
theorem crash_any_point_prefix (ws : List Word) (old : Disk) (k j : Nat) :
    (k = 0 ∧ crashDisk (saveTrace ws) k j old = old) ∨
    (0 < k ∧ ∃ p torn, crashDisk (saveTrace ws) k j old = .file p torn ∧ p <+: writeLog ws ∧
      (torn = true → p ≠ writeLog ws)) := by
  cases k with
  | zero => left; simp [crashDisk, saveTrace, run]
  | succ n =>
    right
    refine ⟨Nat.succ_pos n, ?_⟩
    obtain ⟨p, torn, h1, h2, h3⟩ := crashDisk_writes (chunks ws) [] n j
    rw [chunks_flatten] at h2 h3
    refine ⟨p, torn, ?_, h2, h3⟩
    rw [saveTrace, crashDisk_cons_succ]
    simpa [exec] using h1

/-- what reloads after a crash at ANY point of the save of `ws` comes from a prefix of the new
file: every reloaded word is a line of that prefix (general form of `crash_loses_all`, … ) -/
theorem crash_any_point_reload (f : Fns) (ws : List Word) (old : Disk) (k j : Nat) (hk : 0 < k) :
    ∃ p, p <+: writeLog ws ∧
      (loadOrEmpty f (crashDisk (saveTrace ws) k j old) = [] ∨
       loadOrEmpty f (crashDisk (saveTrace ws) k j old) = loadWords f p) := by
  rcases crash_any_point_prefix ws old k j with ⟨h0, _⟩ | ⟨_, p, torn, h1, h2, _⟩
  · omega
  · refine ⟨p, h2, ?_⟩
    rw [h1]
    cases torn
    · right; rfl
    · left; rfl

/-- the instances: the crash points of `crash_loses_all`, `crash_loses_old_word_and_invents_one`
and `crash_torn_character_loses_all` are prefixes `[]`, `zqxv⏎ab`, `zqxv⏎abcq⏎zq`+torn of
`zqxv⏎abcq⏎zqé⏎` -/
example : crashDisk (saveTrace [zqxv, abcq, zqé]) 1 7 (.file (zqxv ++ ['\n'] ++ abcq ++ ['\n']) false)
      = .file ['z', 'q', 'x', 'v', '\n', 'a', 'b'] false ∧
    crashDisk (saveTrace [zqxv, abcq, zqé]) 1 13 (.file (zqxv ++ ['\n'] ++ abcq ++ ['\n']) false)
      = .file ['z', 'q', 'x', 'v', '\n', 'a', 'b', 'c', 'q', '\n', 'z', 'q'] true := by decide

/-! ## w24: the document URL — `HarperAddToFileDict` on an `untitled:` document

`backend.rs` tests the URL twice (`Model/DictIO.UrlKind`): `scheme() == "untitled"` and
`to_file_path()`. The theorems above that mention `fileUrl` are about `file:` URLs; these are about the
other three kinds. One behaviour contradicts the property as written (kernel-checked history below,
reproduced on the real server by the `server-url` stream of `harness/src/c07.rs`):
* `untitled_file_dict_add_ignored` — on an unsaved buffer (`untitled:Untitled-1` and `untitled:/a/b.md`
  alike) the command does nothing, silently.
A second one was found by w24 and repaired in the project (repo commit 861d597): on `untitled:/a/b.md`
the command REPLACED the dictionary of `/a/b.md` by the one new word. `untitled_path_add_replaces_file`
and `untitled_path_overwrites_file_dict` keep their names and now state that the file is untouched. -/

/-- **`HarperAddToFileDict` on a URL without a path does nothing.** If `to_file_path()` fails —
`untitled:Untitled-1`, but also `zq:opaque` or a URL with a host — the command leaves the WHOLE state as
it was: no dictionary file is created or touched (`fileDisk` of every name, the user dictionary), and
nothing is kept in memory either (the server holds no file dictionary between commands; the document
keeps its linter). The answer list is empty and the response is `null`: the client is told nothing. -/
theorem add_file_untitled_writes_nothing (f : Fns) (cur : List Entry) (s : State) (u : UrlKind)
    (n : Nat) (w : Word) (ord : List Word) (h : u.path = false) :
    step f cur s (.addFile u n w ord) = (s, []) :=
  step_addFile_nopath f cur s u n w ord h

/-- … in particular the file on disk under ANY name, and what it reloads to, are unchanged … -/
theorem add_file_untitled_disk_unchanged (f : Fns) (cur : List Entry) (s : State) (u : UrlKind)
    (n m : Nat) (w : Word) (ord : List Word) (h : u.path = false) :
    fileDisk (step f cur s (.addFile u n w ord)).1.files m = fileDisk s.files m ∧
    (step f cur s (.addFile u n w ord)).1.user = s.user := by
  rw [add_file_untitled_writes_nothing f cur s u n w ord h]
  exact ⟨rfl, rfl⟩

/-- … and every later operation (a check of any document, another command, a restart) answers and
acts exactly as if the command had never been issued -/
theorem add_file_untitled_no_trace (f : Fns) (cur : List Entry) (s : State) (u : UrlKind)
    (n : Nat) (w : Word) (ord : List Word) (h : u.path = false) (rest : List Op) (op : Op) :
    step f cur (runOps f cur (step f cur s (.addFile u n w ord)).1 rest) op
      = step f cur (runOps f cur s rest) op := by
  rw [add_file_untitled_writes_nothing f cur s u n w ord h]

-- non-vacuity: both pathless kinds satisfy the hypothesis; a state with a user dictionary, a file
-- dictionary under the very name used, and a JS linter; the order argument is junk
example : untitledUrl.path = false ∧ opaqueUrl.path = false := ⟨rfl, rfl⟩
example : step fnsAscii [⟨colour, false⟩]
      { user := .file (abcq ++ ['\n']) false, files := [(4, .file (Zqxv ++ ['\n']) false)],
        mem := [abcq], js := ⟨[zqé], []⟩ } (.addFile untitledUrl 4 zqxv [abcq, zqxv])
    = ({ user := .file (abcq ++ ['\n']) false, files := [(4, .file (Zqxv ++ ['\n']) false)],
         mem := [abcq], js := ⟨[zqé], []⟩ }, []) :=
  add_file_untitled_writes_nothing fnsAscii _ _ untitledUrl 4 zqxv _ rfl
-- the hypothesis is needed: with a path and a scheme other than `untitled` a file appears; with the
-- `untitled` scheme none does, path or not (since 861d597; before, `untitled:/…` wrote the file too)
example : (step fnsAscii [] {} (.addFile fileUrl 4 zqxv [])).1.files
      = [(4, .file (zqxv ++ ['\n']) false)] ∧
    (step fnsAscii [] {} (.addFile untitledPathUrl 4 zqxv [])).1.files = [] := by decide

/-- **The document the command was issued for does not accept the word.** For an `untitled:` URL — with
or without a path — the next check of that document answers exactly what it answered before the
command, for every word: `load_file_dictionary` gives an `untitled:` document the empty file
dictionary whatever is on disk. So a word that was reported stays reported. -/
theorem add_file_untitled_not_accepted (f : Fns) (cur : List Entry) (s : State) (u : UrlKind)
    (n : Nat) (w : Word) (ord qs : List Word) (h : u.untitled = true) :
    (step f cur (step f cur s (.addFile u n w ord)).1 (.lint u n qs)).2
      = (step f cur s (.lint u n qs)).2 := by
  have hl : ∀ s' : State, (step f cur s' (.lint u n qs)).2
      = qs.map (acceptM f [cur, entries (loadOrEmpty f s'.user), entries []]) := by
    intro s'
    simp only [step, childrenOf, loadFileDict_untitled f u _ h, Option.map_some]
  rw [hl, hl, step_addFile_user]

-- non-vacuity: both `untitled:` kinds; the word is reported before and after, an unrelated user word
-- is accepted before and after
example : untitledUrl.untitled = true ∧ untitledPathUrl.untitled = true := ⟨rfl, rfl⟩
example : (step fnsAscii [] { user := .file (abcq ++ ['\n']) false } (.lint untitledPathUrl 1 [zqxv, abcq])).2
      = [false, true] ∧
    (step fnsAscii [] (step fnsAscii [] { user := .file (abcq ++ ['\n']) false }
      (.addFile untitledPathUrl 1 zqxv [])).1 (.lint untitledPathUrl 1 [zqxv, abcq])).2 = [false, true] := by
  decide

/-- **Finding: `HarperAddToFileDict` on an unsaved buffer is silently ignored — the property is false.**
`didOpen untitled:Untitled-1` with the text `… zqxv …`; `HarperAddToFileDict zqxv` (the code action is
offered for every document): the state afterwards is the initial state — no file, nothing in memory —
and the next check of the document reports `zqxv` again, as does every later one. The same command
on a `file:` document makes the word accepted. (Class `c07-untitled-url-file-dict-add-ignored`; the
real server: same diagnostics published again, response `null`, no file created.) -/
theorem untitled_file_dict_add_ignored :
    runOps fnsAscii [] {} [.lint untitledUrl 0 [zqxv], .addFile untitledUrl 0 zqxv []] = {} ∧
    (step fnsAscii [] (runOps fnsAscii [] {} [.lint untitledUrl 0 [zqxv], .addFile untitledUrl 0 zqxv []])
      (.lint untitledUrl 0 [zqxv])).2 = [false] ∧
    (step fnsAscii [] (runOps fnsAscii [] {} [.addFile untitledUrl 0 zqxv [], .restart,
      .addFile untitledUrl 0 zqxv []]) (.lint untitledUrl 0 [zqxv])).2 = [false] ∧
    (step fnsAscii [] (runOps fnsAscii [] {} [.lint fileUrl 0 [zqxv], .addFile fileUrl 0 zqxv []])
      (.lint fileUrl 0 [zqxv])).2 = [true] := by decide

/-- `untitled:/a/b.md`: NOTHING is written — whatever the dictionary file of `/a/b.md` (or of any other
name) holds, it holds the same after the command, and so does the user dictionary;
`save_file_dictionary` returns `Ok(())` before `save_dict` for the `untitled` scheme (the same guard as
`load_file_dictionary`). The name is historical: until repo commit 861d597 the file was REPLACED by the
one new word (`fileDisk … n = .file (w ++ ['\n']) false`: the old file was never loaded, and
`save_file_dictionary` found a path). -/
theorem untitled_path_add_replaces_file (f : Fns) (cur : List Entry) (s : State) (n : Nat) (w : Word)
    (ord : List Word) (m : Nat) :
    fileDisk (step f cur s (.addFile untitledPathUrl n w ord)).1.files m = fileDisk s.files m ∧
    (step f cur s (.addFile untitledPathUrl n w ord)).1.user = s.user := by
  rw [step_addFile_untitledPath]
  exact ⟨rfl, rfl⟩

/-- … for every `untitled:` URL kind at once, and for the whole list of files -/
theorem add_file_untitled_scheme_writes_nothing (f : Fns) (cur : List Entry) (s : State) (u : UrlKind)
    (n : Nat) (w : Word) (ord : List Word) (h : u.untitled = true) :
    (step f cur s (.addFile u n w ord)).1.files = s.files ∧
    (step f cur s (.addFile u n w ord)).1.user = s.user ∧
    (step f cur s (.addFile u n w ord)).2 = [] :=
  ⟨(step_addFile_untitled f cur s u n w ord h).1, (step_addFile_untitled f cur s u n w ord h).2.1,
   (step_addFile_untitled f cur s u n w ord h).2.2.2⟩

-- non-vacuity: a dictionary file under the very name used, a user dictionary; both `untitled:` kinds
example : fileDisk (step fnsAscii []
      { user := .file (abcq ++ ['\n']) false, files := [(4, .file (Zqxv ++ ['\n']) false)] }
      (.addFile untitledPathUrl 4 zqxv [])).1.files 4
    = .file (Zqxv ++ ['\n']) false :=
  (untitled_path_add_replaces_file fnsAscii [] _ 4 zqxv [] 4).1
example : (step fnsAscii [] { files := [(4, .file (Zqxv ++ ['\n']) false)] }
      (.addFile untitledUrl 4 zqxv [])).1.files = [(4, .file (Zqxv ++ ['\n']) false)] :=
  (add_file_untitled_scheme_writes_nothing fnsAscii [] _ untitledUrl 4 zqxv [] rfl).1

/-- **The repaired finding, as a regression statement: an add from `untitled:/a/b.md` leaves the file
dictionary of `/a/b.md` alone.** `HarperAddToFileDict zqxv`, `HarperAddToFileDict abcq` from
`file:///a/b.md`; then an unsaved buffer with that file name (`untitled:/a/b.md`: same `file_dict_name`)
adds `zqé`: the dictionary file still reloads to `zqxv`, `abcq`, `file:///a/b.md` still accepts both
(and does not accept `zqé`), and the untitled document itself reports all three (its file dictionary is
always empty: that is `untitled_file_dict_add_ignored`, still recorded).
Until repo commit 861d597 the file held `zqé` alone afterwards and `file:///a/b.md` reported `zqxv` and
`abcq` again — two words lost without any crash or case collision (class
`c07-untitled-url-overwrites-file-dict`, now retired). -/
theorem untitled_path_overwrites_file_dict :
    loadOrEmpty fnsAscii (fileDisk (runOps fnsAscii [] {}
      [.addFile fileUrl 1 zqxv [], .addFile fileUrl 1 abcq []]).files 1) = [zqxv, abcq] ∧
    loadOrEmpty fnsAscii (fileDisk (runOps fnsAscii [] {} [.addFile fileUrl 1 zqxv [],
      .addFile fileUrl 1 abcq [], .addFile untitledPathUrl 1 zqé []]).files 1) = [zqxv, abcq] ∧
    (step fnsAscii [] (runOps fnsAscii [] {} [.addFile fileUrl 1 zqxv [], .addFile fileUrl 1 abcq [],
      .addFile untitledPathUrl 1 zqé []]) (.lint fileUrl 1 [zqxv, abcq, zqé])).2 = [true, true, false] ∧
    (step fnsAscii [] (runOps fnsAscii [] {} [.addFile fileUrl 1 zqxv [], .addFile fileUrl 1 abcq [],
      .addFile untitledPathUrl 1 zqé []]) (.lint untitledPathUrl 1 [zqxv, abcq, zqé])).2
      = [false, false, false] := by decide

/-- … so `BenignFileAdd` (hypothesis of `file_dict_then_accepted_partial`) now admits adds from
`untitled:` URLs of either kind, whatever the word — before the repair the first conjunct was false -/
example : BenignFileAdd fnsAscii zqxv untitledPathUrl zqé ∧ BenignFileAdd fnsAscii zqxv fileUrl zqé ∧
    BenignFileAdd fnsAscii zqxv untitledUrl Zqxv ∧ ¬ BenignFileAdd fnsAscii zqxv fileUrl Zqxv := by decide

/-- … and `file_dict_then_accepted_partial` applied to the history of the repaired finding: `zqxv` added
from `file:///a/b.md` stays accepted there after an add from `untitled:/a/b.md` -/
example : acceptM fnsAscii (children fnsAscii [] (runOps fnsAscii []
      (step fnsAscii [] {} (.addFile fileUrl 1 zqxv [])).1 [.addFile untitledPathUrl 1 zqé []]) 1) zqxv
    = true :=
  file_dict_then_accepted_partial fnsAscii [] {} 1 zqxv [] [.addFile untitledPathUrl 1 zqé []]
    (by decide) (by decide) (by decide) (by decide) (by
      intro u w' ord' h
      simp only [List.mem_singleton, Op.addFile.injEq] at h
      obtain ⟨rfl, _, rfl, _⟩ := h
      intro hu; exact absurd hu.2 (by decide))

/-- a URL whose dictionary cannot be generated at all (`zq:opaque`, a URL with a host): the document
is never parsed, no word is ever reported, and a command issued for it returns before doing anything -/
theorem opaque_url_never_checked (f : Fns) (cur : List Entry) (s : State) (n : Nat) (w : Word)
    (ord qs : List Word) :
    step f cur s (.lint opaqueUrl n qs) = (s, qs.map fun _ => true) ∧
    step f cur s (.addFile opaqueUrl n w ord) = (s, []) := ⟨rfl, rfl⟩

/-- what still works for an unsaved buffer: a word added to the USER dictionary is accepted at the
document's next check (instance of `disk_word_accepted_partial`, which holds for every URL kind) -/
example : (step fnsAscii [⟨colour, false⟩] (step fnsAscii [⟨colour, false⟩] {} (.add zqxv [])).1
    (.lint untitledUrl 9 [zqxv])).2 = [true] :=
  disk_word_accepted_partial fnsAscii _ _ zqxv untitledUrl 9 (by decide) (by decide) (by decide)

/-- `file_dict_isolated` for an `untitled:/…` command: no other name is touched (nor, since 861d597, its
own: `untitled_path_add_replaces_file`) -/
example : acceptM fnsAscii (children fnsAscii []
      (step fnsAscii [] { files := [(1, .file (abcq ++ ['\n']) false), (2, .file (zqxv ++ ['\n']) false)] }
        (.addFile untitledPathUrl 1 zqé [])).1 2) zqxv
    = acceptM fnsAscii (children fnsAscii []
      { files := [(1, .file (abcq ++ ['\n']) false), (2, .file (zqxv ++ ['\n']) false)] } 2) zqxv :=
  file_dict_isolated fnsAscii [] _ untitledPathUrl 1 2 zqé [] (by decide) zqxv

/-! ## w26 — FILE dictionaries reload to exactly the words added (audit w22 §4 C07 (b))

`restart_preserves` is about the user dictionary only. The same statement for a per-file dictionary: no crash
hypothesis is needed (`crashAdd` is a crash of the USER dictionary's save; the model has no crash point for
`save_file_dictionary`, see asbuilt_w24 "Not done"), and only commands issued from a document with a `file:`-like URL
(`untitled = false`, `path = true`) count — every other URL kind writes nothing (`add_file_untitled_writes_nothing`,
`opaque_url_never_checked`). -/

/-- the words of the `HarperAddToFileDict` commands of a history that reach the dictionary file `n` -/
def fileAdds (n : Nat) : List Op → List Word
  | [] => []
  | .addFile u m w _ :: ops =>
    if u.path = true ∧ u.untitled = false ∧ m = n then w :: fileAdds n ops else fileAdds n ops
  | _ :: ops => fileAdds n ops

theorem file_dict_reload_from (f : Fns) (cur : List Entry) (n : Nat) (ops : List Op) :
    ∀ (s : State) (acc : List Word), Clean f (fileDisk s.files n) →
      (∀ w, w ∈ loadOrEmpty f (fileDisk s.files n) ↔ w ∈ acc) →
      WellFormed (fileAdds n ops) →
      (∀ a ∈ acc ++ fileAdds n ops, ∀ b ∈ acc ++ fileAdds n ops, key f a = key f b → a = b) →
      ∀ w, w ∈ loadOrEmpty f (fileDisk (runOps f cur s ops).files n) ↔ w ∈ acc ++ fileAdds n ops := by
  induction ops with
  | nil => intro s acc _ hm _ _ w; simpa [runOps, fileAdds] using hm w
  | cons op ops ih =>
    intro s acc hc hm hwf hcol
    have same : ∀ s' : State, fileDisk s'.files n = fileDisk s.files n → fileAdds n (op :: ops) = fileAdds n ops →
        ∀ w, w ∈ loadOrEmpty f (fileDisk (runOps f cur s' ops).files n) ↔ w ∈ acc ++ fileAdds n (op :: ops) := by
      intro s' hs' hu
      rw [hu] at hwf hcol ⊢
      exact ih s' acc (by rw [hs']; exact hc) (by rw [hs']; exact hm) hwf hcol
    cases op with
    | add w' ord => exact same _ rfl rfl
    | crashAdd w' ord k j => exact same _ rfl rfl
    | restart => exact same _ rfl rfl
    | lint u m qs => exact same _ (by rw [step_lint_files]) rfl
    | jsImport ws => exact same _ rfl rfl
    | jsLint qs => exact same _ rfl rfl
    | jsRestart ord => exact same _ rfl rfl
    | addFile u m w' ord =>
      by_cases hthis : u.path = true ∧ u.untitled = false ∧ m = n
      · obtain ⟨hp, hu, rfl⟩ := hthis
        have hfu : u = fileUrl := by cases u; simp_all
        subst hfu
        have hfa : fileAdds m (.addFile fileUrl m w' ord :: ops) = w' :: fileAdds m ops := by
          simp [fileAdds]
        rw [hfa] at hwf hcol ⊢
        have hw' : WellFormedWord w' := hwf w' (by simp)
        obtain ⟨hl, hperm, _, hwf'⟩ := add_reload f (fileDisk s.files m) w' ord hc hw'
        have he := loadOrEmpty_of_loadDict hl
        have hm' : ∀ x, x ∈ loadOrEmpty f (fileDisk (step f cur s (.addFile fileUrl m w' ord)).1.files m)
            ↔ x ∈ acc ++ [w'] := by
          intro x
          simp only [step_addFile_file, fileDisk_cons_self, he, hperm.mem_iff]
          constructor
          · intro hx
            rcases mem_of_mem_insert f w' x _ hx with rfl | hx
            · simp
            · simp [(hm x).mp hx]
          · intro hx
            rcases List.mem_append.mp hx with hx | hx
            · by_cases hk : key f x = key f w'
              · have : x = w' := hcol x (by simp [hx]) w' (by simp) hk
                rw [this]; exact mem_insert_self f w' _
              · exact mem_insert_of_ne f w' x _ ((hm x).mpr hx) hk
            · have : x = w' := by simpa using hx
              rw [this]; exact mem_insert_self f w' _
        have hc' : Clean f (fileDisk (step f cur s (.addFile fileUrl m w' ord)).1.files m) := by
          simp only [step_addFile_file, Clean, fileDisk_cons_self, he]; exact hwf'
        have := ih (step f cur s (.addFile fileUrl m w' ord)).1 (acc ++ [w']) hc' hm'
          (fun x hx => hwf x (by simp [hx])) (by simpa using hcol)
        intro w
        simpa [runOps] using this w
      · have hfa : fileAdds n (.addFile u m w' ord :: ops) = fileAdds n ops := by
          simp only [fileAdds, if_neg hthis]
        refine same _ ?_ hfa
        by_cases hmn : m = n
        · subst hmn
          -- a command for this very name from a URL kind that writes nothing
          simp only [step]
          split
          · rfl
          · split
            · split
              · rfl
              · rename_i hp hu
                exact absurd ⟨hp, by simpa using hu, rfl⟩ hthis
            · rfl
        · exact step_addFile_fileDisk_ne f cur s u m n w' ord (fun h => hmn h.symm)

/-- **Per-file dictionaries lose nothing either.** Starting without dictionary files, after ANY history (user-dictionary
adds and their crashes, adds to this and to other file dictionaries from documents of every URL kind, document checks,
restarts, JS calls) in which the words added to the file dictionary `n` from `file:` documents are well-formed and no
two different ones share a lower-cased normalized key, the file `n` reloads to exactly the set of those words, with
pairwise different keys. -/
theorem file_dict_restart_preserves (f : Fns) (cur : List Entry) (n : Nat) (ops : List Op)
    (hwf : WellFormed (fileAdds n ops))
    (hcol : ∀ a ∈ fileAdds n ops, ∀ b ∈ fileAdds n ops, key f a = key f b → a = b) :
    (∀ w, w ∈ loadOrEmpty f (fileDisk (runOps f cur {} ops).files n) ↔ w ∈ fileAdds n ops) ∧
    UniqueKeys f (loadOrEmpty f (fileDisk (runOps f cur {} ops).files n)) := by
  refine ⟨?_, uniqueKeys_loadOrEmpty f _⟩
  have := file_dict_reload_from f cur n ops {} [] (by intro w hw; cases hw)
    (by intro w; simp [fileDisk, loadOrEmpty, loadDict, readToString]) hwf (by simpa using hcol)
  simpa using this

/-- non-vacuity: adds to file 1 from a `file:` document interleaved with a crashed user-dictionary save, an add to
file 2, adds for name 1 from an `untitled:/…` and an opaque URL (which write nothing), restarts and a repeated add -/
def fileHistory : List Op :=
  [.addFile fileUrl 1 zqxv [], .crashAdd abcq [] 1 0, .addFile fileUrl 2 zqé [], .restart,
   .addFile untitledPathUrl 1 zqApos [], .addFile opaqueUrl 1 Zqxv [], .addFile fileUrl 1 abcq [],
   .lint fileUrl 1 [zqxv], .addFile fileUrl 1 zqxv []]

example : fileAdds 1 fileHistory = [zqxv, abcq, zqxv] ∧ WellFormed (fileAdds 1 fileHistory) ∧
    loadOrEmpty fnsAscii (fileDisk (runOps fnsAscii [] {} fileHistory).files 1) = [zqxv, abcq] ∧
    loadOrEmpty fnsAscii (fileDisk (runOps fnsAscii [] {} fileHistory).files 2) = [zqé] := by decide

example : (∀ w, w ∈ loadOrEmpty fnsAscii (fileDisk (runOps fnsAscii [] {} fileHistory).files 1) ↔
      w ∈ fileAdds 1 fileHistory) ∧
    UniqueKeys fnsAscii (loadOrEmpty fnsAscii (fileDisk (runOps fnsAscii [] {} fileHistory).files 1)) :=
  file_dict_restart_preserves fnsAscii [] 1 fileHistory (by decide) (by decide)

/-! ## w26 — the JS linter: imported words are accepted FROM THEN ON and survive `new Linter` (audit w22 §4 C07 (b))

`js_import_accepted_partial` is about the lint right after `import_words`. Here: any later sequence of JS calls
(`import_words`, `lint`, `new Linter` + `import_words(export_words())` with the export in any order) and language-server
operations (which do not touch the JS linter). The lint dictionary is rebuilt only when `word_count` grew
(`harper-wasm/src/lib.rs`, `import_words`), so it may LAG behind `user_dictionary`; the invariant carried
(`Lemmas/DictIO.JsHolds`) is "both are keyed maps and both hold `w`". -/

/-- **A word imported into the JS linter is accepted from then on (partial).** `Linter::import_words(ws)` with `w` in
the batch, on a linter whose `user_dictionary` lacks `w`'s key (`hnew`: so `word_count` grows and
`synchronize_lint_dict` runs), no other spelling of `w`'s key in the batch (`hws`); then ANY sequence `rest` of later
operations that are `BenignJs` for `w` — `import_words` batches without a different spelling of `w`'s key, `lint`,
`new Linter` + `import_words(export_words())` in any order, and every language-server operation: `w` is not reported
by `Linter::lint` afterwards, under provisos (1) normalized and (2) curated dialect of `add_then_accepted_partial`.
Missing for the full property: exactly these provisos; `hnew` is needed (`js_import_case_variant_stale`: the
just-imported `zqxv` is reported) and so is `BenignJs` (`js_import_case_variant_lost`). -/
theorem js_import_then_accepted_partial (f : Fns) (cur : List Entry) (s : State) (w : Word)
    (ws : List Word) (rest : List Op)
    (hu : UniqueKeys f s.js.user) (hnew : ∀ e ∈ s.js.user, key f e ≠ key f w) (hw : w ∈ ws)
    (hws : ∀ x ∈ ws, key f x = key f w → x = w)
    (hn : f.normalize w = w) (hcur : ∀ e, lookup f cur w = some e → e.dialectOk = true)
    (hrest : ∀ op ∈ rest, BenignJs f w op) :
    acceptM f [cur, entries (runOps f cur (step f cur s (.jsImport ws)).1 rest).js.lint] w = true := by
  have h0 : JsHolds f w (step f cur s (.jsImport ws)).1.js :=
    jsHolds_import_new f w ws s.js hu hnew hw hws
  obtain ⟨_, hl, _, hwl⟩ := benignJs_runOps f cur w rest _ hrest h0
  exact acceptM_of_user f cur _ [] hl w hwl hn hcur

/-- the same, read off the answer of a later `Linter::lint` call whose word tokens are `qs`: the answer for
every occurrence of `w` is "accepted" -/
theorem js_import_then_lint_accepts (f : Fns) (cur : List Entry) (s : State) (w : Word)
    (ws : List Word) (rest : List Op) (qs : List Word)
    (hu : UniqueKeys f s.js.user) (hnew : ∀ e ∈ s.js.user, key f e ≠ key f w) (hw : w ∈ ws)
    (hws : ∀ x ∈ ws, key f x = key f w → x = w)
    (hn : f.normalize w = w) (hcur : ∀ e, lookup f cur w = some e → e.dialectOk = true)
    (hrest : ∀ op ∈ rest, BenignJs f w op) :
    (step f cur (runOps f cur (step f cur s (.jsImport ws)).1 rest) (.jsLint qs)).2
        = qs.map (acceptM f [cur, entries (runOps f cur (step f cur s (.jsImport ws)).1 rest).js.lint]) ∧
    ∀ i (hi : i < qs.length), qs[i] = w →
      (step f cur (runOps f cur (step f cur s (.jsImport ws)).1 rest) (.jsLint qs)).2[i]? = some true := by
  refine ⟨rfl, fun i hi hq => ?_⟩
  simp only [step, List.getElem?_map, List.getElem?_eq_getElem hi, Option.map_some, hq]
  exact congrArg some (js_import_then_accepted_partial f cur s w ws rest hu hnew hw hws hn hcur hrest)

/-- a linter that already holds a word; the batch brings `zqé` and `zqxv`; later: a lint, a batch with another new
word and a re-import of an old one, a `new Linter` fed the export in a PERMUTED order, a language-server add of a case
variant (does not reach the JS linter), another import, another `new Linter` (junk order: the model's own is used) -/
def jsHistory : List Op :=
  [.jsLint [zqxv], .jsImport [Zqxv.reverse, abcq], .jsRestart [Zqxv.reverse, zqxv, abcq, zqé],
   .add Zqxv [], .jsImport [colour], .jsRestart [abcq]]

-- non-vacuity of `js_import_then_accepted_partial`: all hypotheses together, the curated slice listing `w`'s key
-- (capitalised) and `colour` for another dialect …
example : UniqueKeys fnsAscii (State.js { js := ⟨[abcq], [abcq]⟩ }).user ∧
    (∀ e ∈ (State.js { js := ⟨[abcq], [abcq]⟩ }).user, key fnsAscii e ≠ key fnsAscii zqxv) ∧
    zqxv ∈ [zqé, zqxv] ∧ (∀ x ∈ [zqé, zqxv], key fnsAscii x = key fnsAscii zqxv → x = zqxv) ∧
    fnsAscii.normalize zqxv = zqxv ∧
    (∀ e, lookup fnsAscii [⟨Zqxv, true⟩, ⟨colour, false⟩] zqxv = some e → e.dialectOk = true) ∧
    (∀ op ∈ jsHistory, BenignJs fnsAscii zqxv op) := by decide
-- … the theorem applied …
example : acceptM fnsAscii [[⟨Zqxv, true⟩, ⟨colour, false⟩],
      entries (runOps fnsAscii [⟨Zqxv, true⟩, ⟨colour, false⟩]
        (step fnsAscii [⟨Zqxv, true⟩, ⟨colour, false⟩] { js := ⟨[abcq], [abcq]⟩ } (.jsImport [zqé, zqxv])).1
        jsHistory).js.lint] zqxv = true :=
  js_import_then_accepted_partial fnsAscii _ _ zqxv _ jsHistory (by decide) (by decide) (by decide)
    (by decide) (by decide) (by decide) (by decide)
-- … and what the kernel computes: the permuted export order IS the new linter's order, the final linter holds all
-- five words (the language-server add did not reach it), and the lint answers
example : (runOps fnsAscii [] { js := ⟨[abcq], [abcq]⟩ }
      [.jsImport [zqé, zqxv], .jsLint [zqxv], .jsImport [Zqxv.reverse, abcq],
       .jsRestart [Zqxv.reverse, zqxv, abcq, zqé]]).js
      = ⟨[Zqxv.reverse, zqxv, abcq, zqé], [Zqxv.reverse, zqxv, abcq, zqé]⟩ ∧
    (runOps fnsAscii [] { js := ⟨[abcq], [abcq]⟩ } (.jsImport [zqé, zqxv] :: jsHistory)).js
      = ⟨[Zqxv.reverse, zqxv, abcq, zqé, colour], [Zqxv.reverse, zqxv, abcq, zqé, colour]⟩ ∧
    (step fnsAscii [⟨Zqxv, true⟩, ⟨colour, false⟩]
      (runOps fnsAscii [⟨Zqxv, true⟩, ⟨colour, false⟩] { js := ⟨[abcq], [abcq]⟩ }
        (.jsImport [zqé, zqxv] :: jsHistory))
      (.jsLint [zqxv, Zqxv, zqé, colour, ['z', 'q']])).2 = [true, true, true, false, false] := by decide

/-- **`BenignJs` is needed: a later case-variant import loses the word.** `import ["zqxv"]`, `import ["Zqxv"]`:
`user_dictionary` (and `export_words`) now holds `Zqxv` only; the count did not grow, so the STALE lint dictionary
still accepts `zqxv` — until the next synchronise: a `new Linter` fed the export, or any later import of a new word,
reports `zqxv`. (The JS face of `case_collision`.) -/
theorem js_import_case_variant_lost :
    ¬ BenignJs fnsAscii zqxv (.jsImport [Zqxv]) ∧
    (runOps fnsAscii [] {} [.jsImport [zqxv], .jsImport [Zqxv]]).js = ⟨[Zqxv], [zqxv]⟩ ∧
    (step fnsAscii [] (runOps fnsAscii [] {} [.jsImport [zqxv], .jsImport [Zqxv]]) (.jsLint [zqxv])).2
      = [true] ∧
    (step fnsAscii [] (runOps fnsAscii [] {} [.jsImport [zqxv], .jsImport [Zqxv], .jsRestart []])
      (.jsLint [zqxv])).2 = [false] ∧
    (step fnsAscii [] (runOps fnsAscii [] {} [.jsImport [zqxv], .jsImport [Zqxv], .jsImport [abcq]])
      (.jsLint [zqxv])).2 = [false] := by decide

/-- in a `BenignJs` history the lint dictionary may still lag behind `user_dictionary` — for OTHER words: `abcq` is
replaced by `Abcq` in `user_dictionary`, the lint dictionary keeps `abcq`; `zqxv` is in both -/
theorem js_lint_lags_in_benign_history :
    (∀ op ∈ [Op.jsImport [abcq], .jsImport [['A', 'b', 'c', 'q']]], BenignJs fnsAscii zqxv op) ∧
    (runOps fnsAscii [] {} [.jsImport [zqxv], .jsImport [abcq], .jsImport [['A', 'b', 'c', 'q']]]).js
      = ⟨[zqxv, ['A', 'b', 'c', 'q']], [zqxv, abcq]⟩ := by decide

/-! ### the JS linter loses nothing: `export_words` / `new Linter` round trips -/

/-- **`new Linter` + `import_words(export_words())` rebuilds exactly the export.** Whatever order `export_words`
(`words_iter` of the hash map) returns, the new linter's `user_dictionary` AND its lint dictionary are exactly that
sequence: no word is dropped, none invented, and the two are in sync — even if the old linter's lint dictionary was
stale. -/
theorem js_restart_rebuilds_export (f : Fns) (cur : List Entry) (s : State) (ord : List Word)
    (hu : UniqueKeys f s.js.user) :
    (step f cur s (.jsRestart ord)).1.js = ⟨orderOf ord s.js.user, orderOf ord s.js.user⟩ ∧
    (orderOf ord s.js.user).Perm s.js.user :=
  ⟨js_restart_exact f ord s.js hu, orderOf_perm ord s.js.user⟩

-- non-vacuity: a stale linter (`js_import_case_variant_stale`), the export handed over in another order
example : UniqueKeys fnsAscii (State.js { js := ⟨[zqxv, abcq, zqé], [Zqxv, abcq]⟩ }).user ∧
    (step fnsAscii [] { js := ⟨[zqxv, abcq, zqé], [Zqxv, abcq]⟩ } (.jsRestart [zqé, zqxv, abcq])).1.js
      = ⟨[zqé, zqxv, abcq], [zqé, zqxv, abcq]⟩ := by decide

/-- **The JS linter loses nothing and stays in sync (the JS `restart_preserves`).** Starting from a fresh `Linter`,
after ANY history — `import_words` batches, `lint`s, `new Linter` + `import_words(export_words())` in any order, and
any language-server operations in between — in which no two different imported words share a lower-cased normalized
key (`NoCollision`), `user_dictionary` holds exactly the set of words imported so far, with pairwise different keys,
and the lint dictionary EQUALS it (the "only synchronise when the count grew" shortcut of `import_words` is then
sound). With a collision the last claim fails: `js_import_case_variant_stale`, `js_import_case_variant_lost`. -/
theorem js_restart_preserves (f : Fns) (cur : List Entry) (ops : List Op)
    (hcol : NoCollision f (jsImports ops)) :
    (∀ w, w ∈ (runOps f cur {} ops).js.user ↔ w ∈ jsImports ops) ∧
    (runOps f cur {} ops).js.lint = (runOps f cur {} ops).js.user ∧
    UniqueKeys f (runOps f cur {} ops).js.user := by
  have h := js_sync_from f cur ops {} [] rfl (by intro w; exact Iff.rfl) (by simpa using hcol)
  exact ⟨by simpa using h.1, h.2, uniqueKeys_js_runOps f cur ops {} List.Pairwise.nil⟩

/-- … hence every word imported so far (normalized, curated dialect condition met) is accepted by `Linter::lint` at
every point of such a history -/
theorem js_imported_words_accepted (f : Fns) (cur : List Entry) (ops : List Op) (w : Word)
    (hcol : NoCollision f (jsImports ops)) (hw : w ∈ jsImports ops)
    (hn : f.normalize w = w) (hcur : ∀ e, lookup f cur w = some e → e.dialectOk = true) :
    (step f cur (runOps f cur {} ops) (.jsLint [w])).2 = [true] := by
  obtain ⟨hm, hs, hu⟩ := js_restart_preserves f cur ops hcol
  simp only [step, List.map_cons, List.map_nil, hs]
  rw [acceptM_of_user f cur _ [] hu w ((hm w).mpr hw) hn hcur]

/-- a history with repeated imports (inside a batch and across batches), two `new Linter`s (one with a permuted, one
with a junk export order), a lint and language-server operations (one of them a case variant of an imported word) -/
def jsHistory2 : List Op :=
  [.jsImport [zqxv, abcq, zqxv], .jsLint [zqxv], .jsRestart [abcq, zqxv], .add Zqxv [], .jsImport [zqé, abcq],
   .restart, .jsRestart [zqxv], .jsImport [colour], .lint fileUrl 0 [zqxv]]

-- non-vacuity of `js_restart_preserves` / `js_imported_words_accepted`: the hypothesis, the computed state, the
-- theorems applied
example : jsImports jsHistory2 = [zqxv, abcq, zqxv, zqé, abcq, colour] ∧
    NoCollision fnsAscii (jsImports jsHistory2) ∧
    (runOps fnsAscii [] {} jsHistory2).js = ⟨[abcq, zqxv, zqé, colour], [abcq, zqxv, zqé, colour]⟩ := by decide
example : (∀ w, w ∈ (runOps fnsAscii [] {} jsHistory2).js.user ↔ w ∈ jsImports jsHistory2) ∧
    (runOps fnsAscii [] {} jsHistory2).js.lint = (runOps fnsAscii [] {} jsHistory2).js.user ∧
    UniqueKeys fnsAscii (runOps fnsAscii [] {} jsHistory2).js.user :=
  js_restart_preserves fnsAscii [] jsHistory2 (by decide)
example : (step fnsAscii [⟨Zqxv, true⟩, ⟨colour, false⟩]
    (runOps fnsAscii [⟨Zqxv, true⟩, ⟨colour, false⟩] {} jsHistory2) (.jsLint [zqxv])).2 = [true] :=
  js_imported_words_accepted fnsAscii _ jsHistory2 zqxv (by decide) (by decide) (by decide) (by decide)
-- the hypothesis is needed: the history of `js_import_case_variant_stale` has a collision and ends out of sync
example : ¬ NoCollision fnsAscii (jsImports [.jsImport [Zqxv], .jsImport [zqxv]]) ∧
    (runOps fnsAscii [] {} [.jsImport [Zqxv], .jsImport [zqxv]]).js.lint
      ≠ (runOps fnsAscii [] {} [.jsImport [Zqxv], .jsImport [zqxv]]).js.user := by decide

end Harper.C07
