import Harper.Props.C16
import Harper.Props.C13c
/-!
# C16, second part — what the JS API reports does not depend on the order of the rules

`harper_wasm::Linter::lint` hands `LintGroup::lint`'s output — pushed rule by rule in the order of a
hash map — to `remove_overlaps`. `Props/C13c.lean` shows that the spans `remove_overlaps` keeps are
a function of the multiset of spans; this file carries that through the position look-up of the
model's `dedup` (`Model/Wasm.lean`), which is what the driver runs for the `lint` op:

* `dedup_spans` (already in `Props/C16.lean`) — the spans of `dedup raw` are the keys `removeOverlaps` keeps;
* `dedup_spans_order_independent` — permuting the raw lints leaves the reported spans unchanged;
* `dedup_spans_idempotent` — de-duplicating the reported lints again reports the same spans, so a
  client that post-processes with `remove_overlaps` once more (the CLI does, `harper.js` may) loses
  nothing.
-/
namespace Harper.C16
open Harper Harper.Wasm Harper.C13

/-- the span of a raw lint -/
def rspan (l : RawLint) : Nat × Nat := (l.start, l.stop)

theorem toOv_keys (raw : List RawLint) : (toOv raw).map Lint.key = raw.map rspan := by
  unfold toOv
  rw [List.map_map]
  have : (Lint.key ∘ fun p : RawLint × Nat => (⟨p.1.start, p.1.stop, p.2⟩ : Harper.Lint))
      = rspan ∘ Prod.fst := by
    funext p; rfl
  rw [this, ← List.map_map, List.zipIdx_map_fst]

/-- `dedup_spans` (`Props/C16.lean`) in the vocabulary of `Props/C13c.lean` -/
theorem dedup_rspans (raw : List RawLint) :
    (dedup raw).map rspan = (removeOverlaps (toOv raw)).map Lint.key :=
  dedup_spans raw

/-- **the reported spans do not depend on the order in which the rules pushed their lints** -/
theorem dedup_spans_order_independent (raw₁ raw₂ : List RawLint) (h : raw₁.Perm raw₂) :
    (dedup raw₁).map rspan = (dedup raw₂).map rspan := by
  rw [dedup_rspans, dedup_rspans]
  apply removeOverlaps_spans_keyperm_invariant
  rw [toOv_keys, toOv_keys]
  exact h.map _

/-- **resolving the reported lints once more reports the same spans** -/
theorem dedup_spans_idempotent (raw : List RawLint) :
    (dedup (dedup raw)).map rspan = (dedup raw).map rspan := by
  rw [dedup_rspans (dedup raw), dedup_rspans raw]
  have h := removeOverlaps_spans_keyperm_invariant (toOv (dedup raw)) (removeOverlaps (toOv raw))
    (by rw [toOv_keys, dedup_rspans])
  rw [h, removeOverlaps_idempotent]

/-! non-vacuity: four raw lints (a long one containing two disjoint others, and a duplicate span),
in two orders -/
def exRaw : List RawLint :=
  [{ (default : RawLint) with start := 0, stop := 9 }, { (default : RawLint) with start := 2, stop := 4 },
   { (default : RawLint) with start := 5, stop := 8 }, { (default : RawLint) with start := 9, stop := 12 }]

example : (dedup exRaw).map rspan = [(0, 9), (9, 12)] := by decide
example : (dedup exRaw.reverse).map rspan = [(0, 9), (9, 12)] := by decide

end Harper.C16
