import Harper.Props.C15
/-!
# C15, second part — the specification `lev` IS the Levenshtein metric

`Props/C15.lean` proves that the `u8` two-row routine computes `lev` and that every fuzzy result
carries `lev` of the query (or of its lower-case form) and the word. The property says "a TRUE
Levenshtein distance": that claim is only as good as `lev`, a twelve-line recursion written for
this model. This file checks the specification against what makes Levenshtein distance what it
is, so that a slip in the recursion (a wrong base case, a cost on the wrong branch) could not hide
behind theorems that merely compare the code with it:

* `lev_eq_zero_iff` — distance 0 exactly for equal strings;
* `lev_comm` (in `Props/C15.lean`) — symmetry;
* `lev_triangle` — the triangle inequality, by composing edit scripts (`Align.trans`);
* `lev_append_le`, `lev_cons_same` — congruence facts the length window relies on;
* `lev_single_edit` — one insertion, deletion or substitution anywhere costs at most 1.

Consequences used by the property's reading: `fuzzy_distance_via_lower` — the distance reported
for a mixed-case query is within `lev q (lower q)` of the distance to the query as typed.
-/
namespace Harper.C15
open Harper

section Metric
variable {α : Type} [DecidableEq α]

theorem edCost_self (a : α) : edCost a a = 0 := by simp [edCost]

theorem edCost_eq_zero {a b : α} (h : edCost a b = 0) : a = b := by
  unfold edCost at h; split at h
  · assumption
  · omega

theorem edCost_triangle (a b c : α) : edCost a c ≤ edCost a b + edCost b c := by
  unfold edCost
  by_cases h1 : a = b <;> by_cases h2 : b = c <;> by_cases h3 : a = c <;> simp_all

/-- a script of cost 0 is the identity -/
theorem _root_.Harper.Align.eq_of_zero {s t : List α} {n : Nat} (h : Align s t n) (hn : n = 0) : s = t := by
  induction h with
  | nil => rfl
  | del a _ _ => omega
  | ins b _ _ => omega
  | @sub a b s t n _ ih =>
    have h1 : n = 0 := by omega
    have h2 : edCost a b = 0 := by omega
    rw [ih h1, edCost_eq_zero h2]

/-- **identity of indiscernibles** -/
theorem lev_eq_zero_iff (s t : List α) : lev s t = 0 ↔ s = t := by
  constructor
  · intro h; exact (Align.of_lev s t).eq_of_zero h
  · rintro rfl; exact lev_self s

/-- edit scripts compose, costs add (at most) -/
theorem _root_.Harper.Align.trans {s t : List α} {n : Nat} (h1 : Align s t n) :
    ∀ {u : List α} {m : Nat}, Align t u m → ∃ k, k ≤ n + m ∧ Align s u k := by
  induction h1 with
  | nil => intro u m h2; exact ⟨m, by omega, h2⟩
  | @del a s t n _ ih =>
    intro u m h2
    obtain ⟨k, hk, hal⟩ := ih h2
    exact ⟨k + 1, by omega, .del a hal⟩
  | @ins b s t n h ih =>
    intro u m h2
    generalize hbt : b :: t = bt at h2
    induction h2 with
    | nil => cases hbt
    | @del a' s' u' m' h2' _ =>
      cases hbt
      obtain ⟨k, hk, hal⟩ := ih h2'
      exact ⟨k, by omega, hal⟩
    | @ins c s' u' m' _ ih2 =>
      obtain ⟨k, hk, hal⟩ := ih2 hbt
      exact ⟨k + 1, by omega, .ins c hal⟩
    | @sub a' c s' u' m' h2' _ =>
      cases hbt
      obtain ⟨k, hk, hal⟩ := ih h2'
      exact ⟨k + 1, by omega, .ins c hal⟩
  | @sub a b s t n h ih =>
    intro u m h2
    generalize hbt : b :: t = bt at h2
    induction h2 with
    | nil => cases hbt
    | @del a' s' u' m' h2' _ =>
      cases hbt
      obtain ⟨k, hk, hal⟩ := ih h2'
      exact ⟨k + 1, by omega, .del a hal⟩
    | @ins c s' u' m' _ ih2 =>
      obtain ⟨k, hk, hal⟩ := ih2 hbt
      exact ⟨k + 1, by omega, .ins c hal⟩
    | @sub a' c s' u' m' h2' _ =>
      cases hbt
      obtain ⟨k, hk, hal⟩ := ih h2'
      have := edCost_triangle a b c
      exact ⟨k + edCost a c, by omega, .sub a c hal⟩

/-- **the triangle inequality** -/
theorem lev_triangle (s t u : List α) : lev s u ≤ lev s t + lev t u := by
  obtain ⟨k, hk, hal⟩ := (Align.of_lev s t).trans (Align.of_lev t u)
  exact Nat.le_trans hal.lev_le hk

/-- a common first character can be kept -/
theorem lev_cons_same_le (a : α) (s t : List α) : lev (a :: s) (a :: t) ≤ lev s t := by
  have := (Align.sub a a (Align.of_lev s t)).lev_le
  rw [edCost_self] at this; exact this

theorem _root_.Harper.Align.append_left (p : List α) {s t : List α} {n : Nat} (h : Align s t n) :
    Align (p ++ s) (p ++ t) n := by
  induction p with
  | nil => exact h
  | cons a p ih => exact (Align.sub a a ih).cast (by rw [edCost_self]; rfl)

theorem _root_.Harper.Align.append {s t s' t' : List α} {n n' : Nat} (h : Align s t n) (h' : Align s' t' n') :
    Align (s ++ s') (t ++ t') (n + n') := by
  induction h with
  | nil => simpa using h'
  | del a _ ih => exact (Align.del a ih).cast (by omega)
  | ins b _ ih => exact (Align.ins b ih).cast (by omega)
  | sub a b _ ih => exact (Align.sub a b ih).cast (by omega)

/-- distances of concatenations add at most -/
theorem lev_append_le (s t s' t' : List α) : lev (s ++ s') (t ++ t') ≤ lev s t + lev s' t' :=
  ((Align.of_lev s t).append (Align.of_lev s' t')).lev_le

/-- **one edit costs at most one**, wherever it happens: `p ++ x ++ r` against `p ++ y ++ r` with
`x`, `y` of at most one character each (insertion, deletion, substitution or nothing). -/
theorem lev_single_edit (p r x y : List α) (hx : x.length ≤ 1) (hy : y.length ≤ 1) :
    lev (p ++ x ++ r) (p ++ y ++ r) ≤ 1 := by
  have h1 : lev (p ++ x ++ r) (p ++ y ++ r) ≤ lev (p ++ x) (p ++ y) + lev r r :=
    lev_append_le _ _ _ _
  have h2 : lev (p ++ x) (p ++ y) ≤ lev p p + lev x y := lev_append_le _ _ _ _
  have h3 : lev x y ≤ max x.length y.length := lev_le_max x y
  rw [lev_self] at h1 h2
  omega

/-- what falling back to the lower-cased query can change: the two distances a fuzzy result may
carry (`fuzzy_sound`: `min (lev q w) (lev (lower q) w)`) differ by at most the number of edits
between the query and its lower-case form. -/
theorem fuzzy_distance_via_lower (q ql w : List α) :
    lev q w ≤ lev ql w + lev q ql ∧ lev ql w ≤ lev q w + lev q ql := by
  constructor
  · have := lev_triangle q ql w; omega
  · have := lev_triangle ql q w; rw [lev_comm ql q] at this; omega

end Metric

/-! ## Non-vacuity and regression values (kernel-evaluated) -/
example : lev "flaw".toList "lawn".toList = 2 := lev_of_editDistance (by decide)
example : lev "abc".toList "abc".toList = 0 := lev_of_editDistance (by decide)
example : lev "abc".toList "abd".toList = 1 := lev_of_editDistance (by decide)
/-- the triangle inequality is tight somewhere (`ab → ad → cd`: 2 = 1 + 1) and strict somewhere
(`ab → cd → ab`: 0 < 2 + 2) -/
example : lev "ab".toList "cd".toList = 2 ∧ lev "ab".toList "ad".toList = 1 ∧
    lev "ad".toList "cd".toList = 1 :=
  ⟨lev_of_editDistance (by decide), lev_of_editDistance (by decide), lev_of_editDistance (by decide)⟩
example : lev "ab".toList "ab".toList = 0 ∧ lev "cd".toList "ab".toList = 2 :=
  ⟨lev_of_editDistance (by decide), lev_of_editDistance (by decide)⟩
/-- `lev_single_edit` instantiated: a deletion in the middle of a word -/
example : lev "recieve".toList "receve".toList ≤ 1 :=
  lev_single_edit "rec".toList "eve".toList ['i'] [] (by decide) (by decide)

end Harper.C15
