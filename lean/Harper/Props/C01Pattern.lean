import Harper.Lemmas.Pattern
/-!
# C01 (pattern-framework part) — matching never panics, never hangs, stays inside its slice

Property theorems only; helper lemmas are in `Harper/Lemmas/Pattern.lean`, the model in
`Harper/Model/Pattern.lean` (`Pat.matchLen` is `Pattern::matches`; `matches` is a Lean keyword).

The contract of `Pattern::matches` is nowhere written down in the Rust code: *the returned
length is at most `tokens.len()`*. `SequencePattern`, `RepeatingPattern` and `run_on_chunk` slice
by returned lengths, so a leaf that breaks it makes them panic (`contract_needed` below; this is
what `Invert` did before it was fixed — it answered 1 on an empty slice). Every combinator
preserves the contract, so a pattern built from contract-keeping leaves is safe.
-/
namespace Harper.C01
open Harper Harper.Pat

/-! ### `Pattern::matches` -/

/-- Under the contract on the leaves, `matches` of any combinator tree never panics, never runs
out of fuel, and returns a length inside the slice it was given. -/
theorem matches_safe (p : Pat) (h : Contract p) (toks : List Nat) :
    ∃ n, matchLen p toks = .ok n ∧ n ≤ toks.length :=
  matchLen_safe p h toks

/-- `RepeatingPattern`'s `loop` makes progress: with a contract-keeping inner pattern every
iteration that does not return consumes at least one token, so `len + 1` iterations always
suffice (the model runs it with `len + 2`, see there). -/
theorem rep_terminates (p : Pat) (h : Contract p) (req : Nat) (toks : List Nat) (fuel : Nat)
    (hf : toks.length < fuel) :
    ∃ n, repLoop (matchLen p) req toks fuel 0 0 = .ok n ∧ n ≤ toks.length :=
  repLoop_safe (matchLen p) (matchLen_safe p h) req toks fuel 0 0 (Nat.zero_le _) (by omega)

/-- the fuel bound of `rep_terminates` at its smallest value (`Model/Pattern.lean` refers to it by this name):
`len + 1` iterations always suffice for a contract-keeping inner pattern … -/
theorem rep_fuel_tight (p : Pat) (h : Contract p) (req : Nat) (toks : List Nat) :
    ∃ n, repLoop (matchLen p) req toks (toks.length + 1) 0 0 = .ok n ∧ n ≤ toks.length :=
  rep_terminates p h req toks (toks.length + 1) (Nat.lt_succ_self _)

/-- … and `len` do not: `any` repeated over two tokens needs a third iteration to see the empty rest and return -/
example : repLoop (matchLen .any) 0 [0, 0] 2 0 0 = .error .outOfFuel ∧ repLoop (matchLen .any) 0 [0, 0] 3 0 0 = .ok 2 := by
  decide

/-- No combinator tree can hang, **whatever** its leaves return: a loop either returns or walks
its cursor past the end of the slice, where `&tokens[cursor..]` panics. -/
theorem matches_never_hangs (p : Pat) (toks : List Nat) :
    matchLen p toks ≠ .error .outOfFuel :=
  matchLen_noHang p toks

/-! ### `run_on_chunk` -/

/-- `run_on_chunk` with a contract-keeping pattern never panics; it needs at most
`chunk.length` iterations (fuel = iterations of the loop body); every match handed to
`match_to_lint` is non-empty and inside the chunk, and the matches are increasing and pairwise
disjoint. -/
theorem runOnChunk_safe (p : Pat) (h : Contract p) (chunk : List Nat) :
    ∃ ms, runOnChunk p chunk = .ok ms ∧
      (∀ m ∈ ms, 1 ≤ m.2 ∧ m.1 + m.2 ≤ chunk.length) ∧
      ms.Pairwise (fun a b => a.1 + a.2 ≤ b.1) := by
  obtain ⟨ms, hms, hb, hd⟩ := runLoop_safe p h chunk chunk.length 0 (by omega)
  exact ⟨ms, hms, fun m hm => ⟨(hb m hm).2.1, (hb m hm).2.2⟩, hd⟩

/-- `run_on_chunk` cannot spin for any pattern: the cursor advances in every iteration. -/
theorem runOnChunk_never_hangs (p : Pat) (chunk : List Nat) :
    runOnChunk p chunk ≠ .error .outOfFuel :=
  runLoop_noHang p chunk chunk.length 0 (by omega)

/-- The blanket `impl Linter for PatternLinter` (`for chunk in document.iter_chunks()`): no panic,
every reported match is a non-empty token range of the document, increasing and disjoint. -/
theorem lintDoc_safe (p : Pat) (h : Contract p) (toks : List Nat) :
    ∃ ms, lintDoc p toks = .ok ms ∧
      (∀ m ∈ ms, 1 ≤ m.2 ∧ m.1 + m.2 ≤ toks.length) ∧
      ms.Pairwise (fun a b => a.1 + a.2 ≤ b.1) := by
  obtain ⟨ms, hms, hb, hd⟩ := lintChunks_safe p h (iterChunks toks) 0
  refine ⟨ms, hms, ?_, hd⟩
  intro m hm
  have := hb m hm
  have hfl : (iterChunks toks).flatten = toks := by
    unfold iterChunks iterSplit
    split
    · exact chunksTail_flatten _ _
    · simp
  rw [hfl] at this
  omega

/-- The blanket `Linter::lint` of a `PatternLinter` cannot hang either, **whatever** the leaves return: each chunk's
`run_on_chunk` returns or panics (`runOnChunk_never_hangs`), and there are finitely many chunks. -/
theorem lintDoc_never_hangs (p : Pat) (toks : List Nat) : lintDoc p toks ≠ .error .outOfFuel := by
  have key : ∀ (cs : List (List Nat)) (off : Nat), lintChunks p off cs ≠ .error .outOfFuel := by
    intro cs
    induction cs with
    | nil => intro off h; simp [lintChunks] at h
    | cons c cs ih =>
      intro off h
      unfold lintChunks at h
      have h1 := runOnChunk_never_hangs p c
      cases hr : runOnChunk p c with
      | error e =>
        rw [hr] at h
        simp only at h
        cases h
        exact h1 hr
      | ok ms =>
        rw [hr] at h
        simp only at h
        cases hl : lintChunks p (off + c.length) cs with
        | error e =>
          rw [hl] at h
          simp only at h
          cases h
          exact ih _ hl
        | ok rest => rw [hl] at h; cases h
  exact key _ 0

/-! ### `find_all_matches` -/

/-- `find_all_matches` never panics with a contract-keeping pattern; every returned span is a
non-empty token range of the input and starts are strictly increasing. -/
theorem findAllMatches_safe (p : Pat) (h : Contract p) (toks : List Nat) :
    ∃ ms, findAllMatches p toks = .ok ms ∧
      (∀ m ∈ ms, 1 ≤ m.2 ∧ m.1 + m.2 ≤ toks.length) ∧
      ms.Pairwise (fun a b => a.1 < b.1) := by
  obtain ⟨found, hf, hb, hs, _⟩ := collectMatches_safe p h toks 0
  rw [findAllMatches_eq, hf]
  cases found with
  | nil => exact ⟨[], rfl, by simp, by simp⟩
  | cons a rest =>
    have hsub : (a :: dropAdj a rest).Sublist (a :: rest) := (dropAdj_sublist rest a).cons_cons a
    refine ⟨_, rfl, ?_, hs.sublist hsub⟩
    intro m hm
    have := hb m (hsub.subset hm)
    omega

/-- `find_all_matches` cannot hang, **whatever** the leaves return: one `matches` per suffix, then a bounded filter. -/
theorem findAllMatches_never_hangs (p : Pat) (toks : List Nat) : findAllMatches p toks ≠ .error .outOfFuel := by
  have key : ∀ (toks : List Nat) (i : Nat), collectMatches p i toks ≠ .error .outOfFuel := by
    intro toks
    induction toks with
    | nil => intro i h; simp [collectMatches] at h
    | cons t ts ih =>
      intro i h
      unfold collectMatches at h
      have h1 := matches_never_hangs p (t :: ts)
      cases hr : matchLen p (t :: ts) with
      | error e => rw [hr] at h; simp only at h; cases h; exact h1 hr
      | ok n =>
        rw [hr] at h
        simp only at h
        cases hl : collectMatches p (i + 1) ts with
        | error e => rw [hl] at h; simp only at h; cases h; exact ih _ hl
        | ok rest => rw [hl] at h; cases h
  intro h
  rw [findAllMatches_eq] at h
  cases hc : collectMatches p 0 toks with
  | error e => rw [hc] at h; simp only at h; cases h; exact key _ _ hc
  | ok found =>
    rw [hc] at h
    cases found <;> cases h

/-- Its documentation says "all non-overlapping pattern matches". That holds when the ends of
the raw matches are monotone (e.g. every match has the same length, as for the one in-tree
user, `Document::articles_imply_nouns`) — and not in general, see the `example`s below: the
filter compares each raw match only with its predecessor *in the unfiltered list*. -/
theorem findAllMatches_disjoint_partial (p : Pat) (toks : List Nat) (found : List (Nat × Nat))
    (hf : collectMatches p 0 toks = .ok found)
    (hs : found.Pairwise (fun a b => a.1 < b.1))
    (he : found.Pairwise (fun a b => a.1 + a.2 ≤ b.1 + b.2)) :
    ∃ ms, findAllMatches p toks = .ok ms ∧ ms.Pairwise (fun a b => a.1 + a.2 ≤ b.1) := by
  rw [findAllMatches_eq, hf]
  cases found with
  | nil => exact ⟨[], rfl, by simp⟩
  | cons a rest =>
    obtain ⟨hm, hd⟩ := dropAdj_disjoint rest a (a.1 + a.2) (Nat.le_refl _) rfl hs he
    exact ⟨_, rfl, List.pairwise_cons.mpr ⟨hm, hd⟩⟩

/-- w26: `findAllMatches_disjoint_partial` without its derivable hypothesis `hs` and without a given `found` (audit w22
§4 C01 (c)): under the `Contract` the raw matches exist and have strictly increasing starts by themselves
(`collectMatches_safe`), so monotone ENDS of the raw matches are all that "all non-overlapping pattern matches" needs. -/
theorem findAllMatches_disjoint_of_contract (p : Pat) (h : Contract p) (toks : List Nat)
    (he : ∀ found, collectMatches p 0 toks = .ok found → found.Pairwise (fun a b => a.1 + a.2 ≤ b.1 + b.2)) :
    ∃ ms, findAllMatches p toks = .ok ms ∧ ms.Pairwise (fun a b => a.1 + a.2 ≤ b.1) ∧
      (∀ m ∈ ms, 1 ≤ m.2 ∧ m.1 + m.2 ≤ toks.length) := by
  obtain ⟨found, hf, _, hs, _⟩ := collectMatches_safe p h toks 0
  obtain ⟨ms, hms, hd⟩ := findAllMatches_disjoint_partial p toks found hf hs (he found hf)
  obtain ⟨ms', hms', hb, _⟩ := findAllMatches_safe p h toks
  rw [hms] at hms'
  cases hms'
  exact ⟨ms, hms, hd, hb⟩

/-- non-vacuity: `word ws word` keeps the contract, its raw matches on `a b c d` all have length 3 -/
example : ∃ ms, findAllMatches (.seq (.ofList [.leaf 0, .whitespace, .leaf 0])) [0, 1, 0, 1, 0, 1, 0] = .ok ms ∧
    ms.Pairwise (fun a b => a.1 + a.2 ≤ b.1) ∧ (∀ m ∈ ms, 1 ≤ m.2 ∧ m.1 + m.2 ≤ 7) :=
  findAllMatches_disjoint_of_contract _ (by simp [Contract, ContractL, PatList.ofList]) _ (by
    intro found hf
    have : collectMatches (.seq (.ofList [.leaf 0, .whitespace, .leaf 0])) 0 [0, 1, 0, 1, 0, 1, 0] =
        .ok [(0, 3), (2, 3), (4, 3)] := by decide
    rw [this] at hf
    cases hf
    decide)

/-! ### `iter_chunks`, `iter_sentences`, `iter_paragraphs` (any terminator predicate) -/

/-- the chunks, concatenated, are the token list: nothing lost, duplicated or reordered;
each terminator stays at the end of its chunk -/
theorem iterSplit_flatten (term : Nat → Bool) (toks : List Nat) :
    (iterSplit term toks).flatten = toks := by
  unfold iterSplit
  split
  · exact chunksTail_flatten _ _
  · simp

theorem iterChunks_flatten (toks : List Nat) : (iterChunks toks).flatten = toks :=
  iterSplit_flatten _ _
theorem iterSentences_flatten (toks : List Nat) : (iterSentences toks).flatten = toks :=
  iterSplit_flatten _ _
theorem iterParagraphs_flatten (toks : List Nat) : (iterParagraphs toks).flatten = toks :=
  iterSplit_flatten _ _

/-- every chunk of a non-empty token list is non-empty … -/
theorem iterSplit_nonempty (term : Nat → Bool) (toks : List Nat) (hne : toks ≠ []) :
    ∀ c ∈ iterSplit term toks, c ≠ [] := by
  unfold iterSplit
  split
  · exact chunksTail_ne _ _
  · intro c hc; simp at hc; rw [hc]; exact hne

/-- … and there are at most as many chunks as tokens (for the empty list: the one empty chunk). -/
theorem iterSplit_count (term : Nat → Bool) (toks : List Nat) :
    (iterSplit term toks).length ≤ max 1 toks.length := by
  unfold iterSplit
  split
  · have := chunksTail_length term toks; omega
  · simp; omega

/-- a terminator is always the last token of its chunk, and every chunk but the last one ends
in a terminator -/
theorem iterSplit_terminators (term : Nat → Bool) (toks : List Nat) :
    (∀ c ∈ iterSplit term toks, c.dropLast.any term = false) ∧
    (∀ pre c post, iterSplit term toks = pre ++ c :: post → post ≠ [] →
      ∃ t, c.getLast? = some t ∧ term t = true) := by
  unfold iterSplit
  split
  · exact ⟨chunksTail_inner _ _, chunksTail_ends _ _⟩
  · rename_i h
    refine ⟨?_, ?_⟩
    · intro c hc
      simp at hc
      subst hc
      simp at h
      simp
      intro x hx
      exact h x (List.dropLast_subset _ hx)
    · intro pre c post heq hpost
      cases pre with
      | nil => simp at heq; exact absurd heq.2 hpost
      | cons a pre => simp at heq

/-! ### Non-vacuity and witnesses (concrete, kernel-evaluated) -/

/-- a pattern of depth 3 that uses every combinator and a contract-keeping arbitrary leaf -/
def sample : Pat :=
  .seq (.ofList [.leaf 0, .whitespace,
    .rep (.either (.ofList [.leaf 0, .fn (fun t => (t.takeWhile (· == 3)).length)])) 1,
    .all (.ofList [.invert (.leaf 0), .any]),
    .consumes (.rep .any 0)])

/-- the hypothesis of the `_safe` theorems is satisfiable by it -/
example : Contract sample := by
  simp [sample, Contract, ContractL, PatList.ofList]
  intro toks; exact (List.takeWhile_sublist _).length_le

example : matchLen sample [0, 1, 0, 3, 3, 0, 2, 7] = .ok 8 := by decide
example : runOnChunk sample [2, 0, 1, 0, 3, 3, 0, 2, 7] = .ok [(1, 8)] := by decide
example : runOnChunk (.seq (.ofList [.leaf 0, .whitespace, .leaf 0])) [0, 1, 0, 1, 0, 1, 0, 2] =
    .ok [(0, 3), (4, 3)] := by decide
example : lintDoc (.rep (.leaf 0) 1) [0, 0, 3, 1, 0, 2, 0] = .ok [(0, 2), (4, 1), (6, 1)] := by
  decide

/-- non-vacuity of `rep_terminates`: `sample` keeps the contract; fuel `len + 1`; the theorem applied, and the value -/
example : ∃ n, repLoop (matchLen sample) 1 [0, 1, 0, 3, 3, 0, 2, 7, 0, 1, 0, 3, 0, 2] 15 0 0 = .ok n ∧ n ≤ 14 :=
  rep_terminates sample (by
    simp [sample, Contract, ContractL, PatList.ofList]
    intro toks; exact (List.takeWhile_sublist _).length_le) 1 _ 15 (by decide)
example : repLoop (matchLen sample) 1 [0, 1, 0, 3, 3, 0, 2, 7, 0, 1, 0, 3, 0, 2] 15 0 0 = .ok 14 := by decide

/-- non-vacuity of `lintDoc_safe`: `sample` (contract shown above) over a document of three chunks; the second matches whole -/
example : lintDoc sample [0, 1, 0, 0, 2, 0, 1, 0, 4, 0, 7, 0] = .ok [(5, 6)] := by decide

/-- **The contract is needed.** `fn (fun _ => 1)` is a leaf that answers 1 even on an empty
slice — what `Invert` did before the fix. After `any` has consumed the only token it makes the
sequence report 2 tokens out of 1 … -/
example : matchLen (.seq (.ofList [.any, .fn (fun _ => 1)])) [0] = .ok 2 := by decide
/-- … so `run_on_chunk` panics in `&chunk[tok_cursor..tok_cursor + match_len]`
(`pattern_linter.rs`; the `the how` / `better then ␣` panic of the unfixed tree) … -/
example : runOnChunk (.seq (.ofList [.any, .fn (fun _ => 1)])) [0] = .error .sliceOOB := by decide
/-- … and one more pattern in the sequence panics inside `SequencePattern::matches` itself
(`&tokens[tok_cursor..]` with `tok_cursor = 2 > 1`), as does a repetition. -/
example : matchLen (.seq (.ofList [.any, .fn (fun _ => 1), .any])) [0] = .error .sliceOOB := by
  decide
example : matchLen (.rep (.fn (fun _ => 1)) 0) [0, 1, 2] = .error .sliceOOB := by decide
/-- the unfixed `Invert(any)` precisely: 1 exactly on the empty slice -/
example : runOnChunk (.seq (.ofList [.any, .fn (fun t => if t.isEmpty then 1 else 0)])) [0, 1] =
    .error .sliceOOB := by decide
/-- the fixed `Invert` keeps the contract: same pattern, no panic -/
example : runOnChunk (.seq (.ofList [.any, .invert .any])) [0, 1] = .ok [] := by decide

/-- `find_all_matches` is not "all non-overlapping matches" (1): `word ws word` on
`a b c d`: raw matches 0..3, 2..5, 4..7; 2..5 is dropped for overlapping 0..3, and 4..7 is
dropped for overlapping the *already dropped* 2..5 although it is disjoint from 0..3. -/
example : collectMatches (.seq (.ofList [.leaf 0, .whitespace, .leaf 0])) 0 [0, 1, 0, 1, 0, 1, 0] =
    .ok [(0, 3), (2, 3), (4, 3)] := by decide
example : findAllMatches (.seq (.ofList [.leaf 0, .whitespace, .leaf 0])) [0, 1, 0, 1, 0, 1, 0] =
    .ok [(0, 3)] := by decide

/-- the hypotheses of `findAllMatches_disjoint_partial` hold for these raw matches (same length ⇒
monotone ends), and its conclusion is what was just computed -/
example : [(0, 3), (2, 3), (4, 3)].Pairwise (fun (a b : Nat × Nat) => a.1 < b.1) ∧
    [(0, 3), (2, 3), (4, 3)].Pairwise (fun (a b : Nat × Nat) => a.1 + a.2 ≤ b.1 + b.2) := by decide

/-- (2) overlapping matches can survive: on `a,., b` (word comma period comma space word) the
raw matches are 0..5, 1..3, 3..6; 1..3 is dropped (overlaps 0..5), 3..6 is compared with the
dropped 1..3 only, and is kept although it overlaps 0..5. -/
def overlapWitness : Pat :=
  .either (.ofList [
    .seq (.ofList [.leaf 0, .any, .any, .any, .any]),
    .seq (.ofList [.leaf 3, .leaf 2]),
    .seq (.ofList [.leaf 3, .leaf 1, .any])])

example : Contract overlapWitness := by simp [overlapWitness, Contract, ContractL, PatList.ofList]
example : collectMatches overlapWitness 0 [0, 3, 2, 3, 1, 0] = .ok [(0, 5), (1, 2), (3, 3)] := by
  decide
example : findAllMatches overlapWitness [0, 3, 2, 3, 1, 0] = .ok [(0, 5), (3, 3)] ∧
    overlaps (0, 5) (3, 3) = true := by decide

/-- chunking: terminators close their chunk, trailing tokens form a last chunk, a trailing
terminator does not open an empty one — but the empty list yields one empty chunk -/
example : iterChunks [0, 1, 0, 3, 1, 0, 2] = [[0, 1, 0, 3], [1, 0, 2]] := by decide
example : iterChunks [0, 3, 1, 0] = [[0, 3], [1, 0]] := by decide
example : iterChunks [3, 3] = [[3], [3]] := by decide
example : iterChunks [] = [[]] := by decide
example : iterSentences [0, 3, 1, 0, 2, 0] = [[0, 3, 1, 0, 2], [0]] := by decide
example : iterParagraphs [0, 2, 5, 0, 5] = [[0, 2, 5], [0, 5]] := by decide

end Harper.C01
