import Harper.Lemmas.Leaves
import Harper.Props.C12b
/-!
# C01 (leaf patterns) — the contract of `Pattern::matches` is a THEOREM for every real leaf

`Props/C01Pattern.lean` proves the combinators safe under the assumption that every leaf returns at
most the length of its slice. Here the leaves of `harper-core/src/patterns/*.rs` are in the model
(`Model/Leaves.lean`, compared with the real patterns on every suffix of real documents' token
vectors on every run), and

* `leaf_contract` / `matches_contract_real`: every leaf, and every tree `RPat` built from the leaves and
  ALL the combinators (`SequencePattern`, `RepeatingPattern`, `EitherPattern`, `All`, `Invert`,
  `ConsumesRemainingPattern`, `NaivePatternGroup`, `PatternMap`, `SimilarToPhrase`, `IsNotTitleCase`,
  `WordPatternGroup`, `TokenKindPatternGroup`), returns at most the length of its slice — on ANY tokens,
  with no hypothesis at all;
* `leaf_total` / `matches_safe_real`: on well-formed tokens inside the text — in any order, zero-width tokens included —
  a tree without `WithinEditDistance`, `SplitCompoundWord` and `IsNotTitleCase` (`plain`; every tree
  of the shipped tables is one: `exactPhrases_plain`) does not panic and does not hang;
* the three demanding leaves: `withinEditDistance_total` needs every lower-cased word to fit the `u8`
  rows (≤ 254 characters) — and `withinEditDistance_panics_long`: a word of more than 255 characters
  PANICS (a finding: `SimilarToPhrase` on any document with such a word; no shipped rule uses it);
  `splitCompoundWord_total` needs the dictionary to have a canonical form of every word it knows;
  `isNotTitleCase_total` needs the tokens in text order (witness: it panics otherwise);
* `matches_safe_real_full`: hence every tree whatsoever is safe on ordered tokens with short words;
* `runOnChunk_safe_real`: `run_on_chunk` around any such tree and any `match_to_lint` that is total on
  non-empty in-text slices.
-/
namespace Harper.C01
open Harper Harper.Chunks Harper.Rules Harper.Leaves

/-! ## the contract, unconditionally -/

/-- every real leaf pattern returns at most the length of the slice it was given -/
theorem leaf_contract (env : Env) (l : Leaf) (src : List Char) (toks : List Tok) (n : Nat)
    (h : l.matcher env src toks = .ok n) : n ≤ toks.length := leaf_mc env l src toks n h

theorem anyCapitalization_contract (w : List Char) (src : List Char) (toks : List Tok) (n : Nat)
    (h : anyCapAtom w src toks = .ok n) : n ≤ toks.length := anyCapAtom_mc w src toks n h
theorem wordSet_contract (ws : List (List Char)) (src : List Char) (toks : List Tok) (n : Nat)
    (h : wordSetAtom ws src toks = .ok n) : n ≤ toks.length := wordSetAtom_mc ws src toks n h
theorem withinEditDistance_contract (env : Env) (w : List Char) (d : Nat) (src : List Char) (toks : List Tok) (n : Nat)
    (h : withinEditAtom env w d src toks = .ok n) : n ≤ toks.length := withinEdit_mc env w d src toks n h
theorem nominalPhrase_contract (env : Env) (src : List Char) (toks : List Tok) (n : Nat)
    (h : nominalPhraseAtom env src toks = .ok n) : n ≤ toks.length := nominalPhrase_mc env src toks n h
theorem impliesQuantity_contract (env : Env) (src : List Char) (toks : List Tok) (n : Nat)
    (h : impliesQuantityAtom env src toks = .ok n) : n ≤ toks.length := impliesQuantity_mc env src toks n h
theorem splitCompoundWord_contract (env : Env) (bit : Nat) (src : List Char) (toks : List Tok) (n : Nat)
    (h : splitCompoundAtom env bit src toks = .ok n) : n ≤ toks.length := splitCompound_mc env bit src toks n h
/-- `IsNotTitleCase` returns its inner pattern's answer or 0 -/
theorem isNotTitleCase_contract (env : Env) (p : RPat) (src : List Char) (toks : List Tok) (n : Nat)
    (h : (RPat.notTitleCase p).matcher env src toks = .ok n) : n ≤ toks.length :=
  matcher_mc env (.notTitleCase p) src toks n h
/-- `SimilarToPhrase` returns its fuzzy sequence's answer or 0 -/
theorem similarToPhrase_contract (env : Env) (a b : RPat) (src : List Char) (toks : List Tok) (n : Nat)
    (h : (RPat.similar a b).matcher env src toks = .ok n) : n ≤ toks.length :=
  matcher_mc env (.similar a b) src toks n h

/-- **`Contract` for every tree over the real leaves**: whatever `matches` returns is inside the slice -/
theorem matches_contract_real (env : Env) (p : RPat) (src : List Char) (toks : List Tok) (n : Nat)
    (h : p.matcher env src toks = .ok n) : n ≤ toks.length := matcher_mc env p src toks n h

/-! ## totality -/

/-- a leaf other than `WithinEditDistance` / `SplitCompoundWord` does not panic on tokens inside the text -/
theorem leaf_total (env : Env) (l : Leaf) (hl : l.plain = true) (src : List Char) (toks : List Tok)
    (h : InText src toks) : ∃ n, l.matcher env src toks = .ok n ∧ n ≤ toks.length :=
  leaf_okh inText_hyp env l (by cases l <;> simp_all [Leaf.Side, Leaf.plain]) src toks h

/-- `WithinEditDistance` returns when the pattern's word and every word token, lower-cased, have at most
254 characters (`u8_checked_ok_iff`: that is exactly the domain of the dev-profile routine) -/
theorem withinEditDistance_total (env : Env) (w : List Char) (d : Nat) (hw : (toLowerCow env w).length ≤ 254)
    (src : List Char) (toks : List Tok) (h : InText src toks) (hs : ShortWords env src toks) :
    ∃ n, withinEditAtom env w d src toks = .ok n ∧ n ≤ toks.length :=
  withinEdit_ok (and_hyp inText_hyp (ShortWords env) (shortWords_sub env)) env w d hw (fun _ _ hh => hh.2) src toks ⟨h, hs⟩

/-- **finding**: on a word token whose lower-cased text has more than 255 characters `WithinEditDistance`
(hence `SimilarToPhrase`, hence `MapPhraseLinter::new_similar_to_phrase`) panics:
`assert!(source.len() <= 255 && target.len() <= 255)` in the dev profile -/
theorem withinEditDistance_panics_long (env : Env) (w : List Char) (d : Nat) (src : List Char) (t : Tok) (rest : List Tok)
    (hk : t.kind.isWord = true) (hin : TokIn src t) (hl : 255 < (toLowerCow env (textOf src t.span)).length) :
    withinEditAtom env w d src (t :: rest) = .error .assertFail := by
  simp only [withinEditAtom, hk, Bool.not_true, Bool.false_eq_true, if_false, getContent_textOf src t hin]
  rw [editDistance_assert _ _ (.inl hl)]

-- … and in the release profile (wrapping arithmetic, no assertion) a word of 256 characters indexes
-- `previous_row` out of bounds: `0u8..=(256 as u8)` has one element (as in `Props/C15.lean`)
set_option maxRecDepth 20000 in
example : editDistance .wrapping (List.replicate 256 (0 : Nat)) ([] : List Nat) = .error .sliceOOB := by decide

/-- a word of exactly 255 characters overflows a `u8` cell in the dev profile -/
example : editDistance .checked (List.replicate 255 'a') ['a', 'b'] = .error .overflow :=
  editDistance_overflow_source _ _ List.length_replicate (List.cons_ne_nil _ _) (by decide)

theorem splitCompoundWord_total (env : Env) (bit : Nat) (hd : DictOK env) (src : List Char) (toks : List Tok)
    (h : InText src toks) : ∃ n, splitCompoundAtom env bit src toks = .ok n ∧ n ≤ toks.length :=
  splitCompound_ok inText_hyp env bit hd src toks h

/-- `IsNotTitleCase` around a safe pattern is safe on tokens in text order -/
theorem isNotTitleCase_total (env : Env) (hc : CanonOK env) (p : RPat) (hp : p.plain = true) (src : List Char)
    (toks : List Tok) (h : Ord src.length toks) :
    ∃ n, (RPat.notTitleCase p).matcher env src toks = .ok n ∧ n ≤ toks.length := by
  rw [RPat.matcher]
  exact notTitleCasePat_okh inOrder_hyp env hc (fun _ _ hh => hh) _ (matcher_okh inOrder_hyp env p (side_of_plain env _ p hp)) src toks h

/-- text order is needed: `output[word.span.start - start_index]` underflows when a word-like token
starts before the slice's first token -/
example : (RPat.notTitleCase (.rep (.leaf .any) 0)).matcher C12.env0 ['a', ' ', 'b']
    [⟨⟨2, 3⟩, .word⟩, ⟨⟨0, 1⟩, .word⟩] = .error .sliceOOB := by decide

/-- **`matches_safe` with no leaf assumption**: a tree of the real leaves and combinators, without the
three demanding patterns, never panics, never hangs and stays inside its slice — on well-formed tokens
inside the text, in ANY order, zero-width tokens included (also what the Markdown front-end delivers) -/
theorem matches_safe_real (env : Env) (p : RPat) (hp : p.plain = true) (src : List Char) (toks : List Tok)
    (h : InText src toks) : ∃ n, p.matcher env src toks = .ok n ∧ n ≤ toks.length :=
  matcher_okh inText_hyp env p (side_of_plain env _ p hp) src toks h

/-- the general form: any hypothesis `H` on the tokens that sub-lists inherit, and what the demanding
leaves of the tree ask of it (`Side`) -/
theorem matches_safe_real_side {H : List Char → List Tok → Prop} (hH : SliceHyp H) (env : Env) (p : RPat)
    (hs : p.Side env H) (src : List Char) (toks : List Tok) (h : H src toks) :
    ∃ n, p.matcher env src toks = .ok n ∧ n ≤ toks.length := matcher_okh hH env p hs src toks h

/-- **every tree whatsoever** (all leaves, all combinators) is safe on tokens in text order whose
lower-cased words — and the tree's own — have at most 254 characters, for a dictionary that has a
canonical form, at least as long, of every word it knows -/
theorem matches_safe_real_full (env : Env) (hd : DictOK env) (hc : CanonOK env) (p : RPat) (hw : WordsShort env p)
    (src : List Char) (toks : List Tok) (ho : Ord src.length toks) (hs : ShortWords env src toks) :
    ∃ n, p.matcher env src toks = .ok n ∧ n ≤ toks.length :=
  matcher_okh (orderedShort_hyp env) env p (side_full env hd hc p hw) src toks ⟨ho, hs⟩

/-! ## `run_on_chunk` -/

/-- **`runOnChunk_safe` with no leaf assumption**: `run_on_chunk` around a tree of real leaves and a
`match_to_lint` that is total on non-empty slices of in-text tokens never panics, and every lint it
collects points into the text -/
theorem runOnChunk_safe_real (env : Env) (p : RPat) (hp : p.plain = true)
    (f : List Char → List Tok → Except Panic (List RuleLint)) (src : List Char)
    (hf : ∀ l, l ≠ [] → InText src l → ∃ ls, f src l = .ok ls ∧ ∀ x ∈ ls, LintOK src.length x)
    (chunk : List Tok) (h : InText src chunk) :
    ∃ ls, runOnChunkGo (p.matcher env) f src 0 chunk = .ok ls ∧ ∀ x ∈ ls, LintOK src.length x :=
  runOnChunkGo_okh inText_hyp _ (matcher_okh inText_hyp env p (side_of_plain env _ p hp)) f src hf chunk h 0

theorem runOnChunk_safe_real_full (env : Env) (hd : DictOK env) (hc : CanonOK env) (p : RPat) (hw : WordsShort env p)
    (f : List Char → List Tok → Except Panic (List RuleLint)) (src : List Char)
    (hf : ∀ l, l ≠ [] → OrderedShort env src l → ∃ ls, f src l = .ok ls ∧ ∀ x ∈ ls, LintOK src.length x)
    (chunk : List Tok) (ho : Ord src.length chunk) (hs : ShortWords env src chunk) :
    ∃ ls, runOnChunkGo (p.matcher env) f src 0 chunk = .ok ls ∧ ∀ x ∈ ls, LintOK src.length x :=
  runOnChunkGo_okh (orderedShort_hyp env) _ (matcher_okh (orderedShort_hyp env) env p (side_full env hd hc p hw)) f src hf
    chunk ⟨ho, hs⟩ 0

/-! ## the chunk iterators the rule models run over -/

/-- **the Tok-level `iter_chunks` / `iter_sentences` / `iter_paragraphs` of `Model/Chunks.lean`** (the ones the rule models
`ruleMapPhrase`, `ruleProperNoun`, … iterate over) partition the token vector too: the pieces, concatenated, are the tokens —
nothing lost, duplicated or reordered (`iterSplit_flatten` of `Props/C01Pattern.lean` is about the kind-code model) -/
theorem split_flatten (term : Kind → Bool) (toks : List Tok) : (Chunks.split term toks).flatten = toks := by
  have key : ∀ (toks cur : List Tok), (splitGo term cur toks).flatten = cur.reverse ++ toks := by
    intro toks
    induction toks with
    | nil =>
      intro cur
      unfold splitGo
      cases cur <;> simp
    | cons t ts ih =>
      intro cur
      unfold splitGo
      split
      · simp [ih []]
      · rw [ih (t :: cur)]; simp
  unfold Chunks.split
  split
  · rename_i h; simp at h; simp [h]
  · simpa using key toks []

theorem iterChunks_tok_flatten (toks : List Tok) : (Chunks.iterChunks toks).flatten = toks := split_flatten _ _
theorem iterSentences_tok_flatten (toks : List Tok) : (Chunks.iterSentences toks).flatten = toks := split_flatten _ _
theorem iterParagraphs_tok_flatten (toks : List Tok) : (Chunks.iterParagraphs toks).flatten = toks := split_flatten _ _

/-- e.g. the tokens of `ab,cd.e`: a comma and a period close their chunks, the trailing word is a chunk of its own -/
example : Chunks.iterChunks [⟨⟨0, 2⟩, .word⟩, ⟨⟨2, 3⟩, .punct .Comma⟩, ⟨⟨3, 5⟩, .word⟩, ⟨⟨5, 6⟩, .punct .Period⟩, ⟨⟨6, 7⟩, .word⟩] =
    [[⟨⟨0, 2⟩, .word⟩, ⟨⟨2, 3⟩, .punct .Comma⟩], [⟨⟨3, 5⟩, .word⟩, ⟨⟨5, 6⟩, .punct .Period⟩], [⟨⟨6, 7⟩, .word⟩]] := by decide

/-! ## the trees of the shipped tables are `plain` -/

/-- `ExactPhrase::from_document` builds a sequence of `AnyCapitalization`, `WhitespacePattern` and kind
closures: nothing demanding -/
theorem exactPhrase_plain (env : Env) (psrc : List Char) (ptoks : List Tok) (p : RPat)
    (h : exactPhraseOf env psrc ptoks = some p) : p.plain = true := by
  simp only [exactPhraseOf, Option.map_eq_some_iff] at h
  obtain ⟨ls, hls, rfl⟩ := h
  simp only [RPat.plain]
  apply leavesToRPats_plain
  intro l hl
  obtain ⟨t, _, ht⟩ := mapM_some_mem _ _ _ hls l hl
  simp only [exactPhraseLeaf] at ht
  split at ht <;> first | (cases ht; rfl) | cases ht

/-- … and so is the `EitherPattern` of `MapPhraseLinter::new_exact_phrases`: every row of
`phrase_corrections.rs` and `closed_compounds.rs`, whatever its phrases -/
theorem exactPhrases_plain (env : Env) (docs : List (List Char × List Tok)) (p : RPat)
    (h : exactPhrasesOf env docs = some p) : p.plain = true := by
  simp only [exactPhrasesOf, Option.map_eq_some_iff] at h
  obtain ⟨ps, hps, rfl⟩ := h
  simp only [RPat.plain]
  apply ofList_plain
  intro q hq
  obtain ⟨d, _, hd⟩ := mapM_some_mem _ _ _ hps q hq
  exact exactPhrase_plain env d.1 d.2 q hd

/-! ## non-vacuity (kernel-evaluated) -/

open Harper.C12 (env0)

/-- the phrase document of `in tact` and the tokens of `We in  tact now.` -/
def phIntact : List Char × List Tok := (['i', 'n', ' ', 't', 'a', 'c', 't'], [⟨⟨0, 2⟩, .word⟩, ⟨⟨2, 3⟩, .space 1⟩, ⟨⟨3, 7⟩, .word⟩])
def srcIntact : List Char := ['W', 'e', ' ', 'I', 'n', ' ', ' ', 't', 'a', 'c', 't', ' ', 'n', 'o', 'w', '.']
def toksIntact : List Tok :=
  [⟨⟨0, 2⟩, .word⟩, ⟨⟨2, 3⟩, .space 1⟩, ⟨⟨3, 5⟩, .word⟩, ⟨⟨5, 7⟩, .space 2⟩, ⟨⟨7, 11⟩, .word⟩, ⟨⟨11, 12⟩, .space 1⟩,
    ⟨⟨12, 15⟩, .word⟩, ⟨⟨15, 16⟩, .punct .Period⟩]

example : exactPhraseOf env0 phIntact.1 phIntact.2 =
    some (.seq (.cons (.leaf (.anyCap ['i', 'n'])) (.cons (.leaf .whitespace) (.cons (.leaf (.anyCap ['t', 'a', 'c', 't'])) .nil)))) := by
  rfl

/-- the hypotheses of `matches_safe_real` hold of it, and the pattern matches `In  tact` (three tokens) at token 2 -/
example : InText srcIntact toksIntact := by
  intro t ht
  simp only [toksIntact, List.mem_cons, List.mem_nil_iff, or_false] at ht
  rcases ht with rfl | rfl | rfl | rfl | rfl | rfl | rfl | rfl <;> exact ⟨by decide, by decide⟩

example : ((exactPhraseOf env0 phIntact.1 phIntact.2).map fun p => p.matcher env0 srcIntact (toksIntact.drop 2)) = some (.ok 3) := by
  decide

/-- a tree that uses every combinator over real leaves: plain, hence safe -/
def sampleTree : RPat :=
  .seq (.cons (.leaf (.wordSet [['w', 'e'], ['i']])) (.cons (.leaf .whitespace)
    (.cons (.either (.cons (.rep (.leaf (.kind .word false)) 1) (.cons (.first (.cons (.leaf (.exactWord ['I', 'n'])) .nil)) .nil)))
      (.cons (.all (.cons (.invert (.leaf (.anyCap ['x']))) (.cons (.leaf .any) .nil)))
        (.cons (.wordGroup (.cons ['t', 'a', 'c', 't'] (.consumes (.rep (.leaf .any) 0)) .nil)) .nil)))))

example : sampleTree.plain = true := by decide
example : sampleTree.matcher env0 srcIntact toksIntact = .ok 8 := by decide

/-! ## non-vacuity, continued (w22 audit): every hypothesis-carrying theorem of this file at a concrete, non-trivial value

(the values `srcIntact`, `toksIntact` are defined above, so these stand here and not next to their theorems) -/

/-- `InText srcIntact toksIntact`, by name (the `example` above cannot be referred to) -/
theorem inText_intact : InText srcIntact toksIntact := by
  intro t ht
  simp only [toksIntact, List.mem_cons, List.mem_nil_iff, or_false] at ht
  rcases ht with rfl | rfl | rfl | rfl | rfl | rfl | rfl | rfl <;> exact ⟨by decide, by decide⟩

/-- non-vacuity of `anyCapitalization_contract`, `wordSet_contract`, `leaf_contract`: the hypothesis `… = .ok n` with `n ≠ 0` -/
example : anyCapAtom ['i', 'n'] srcIntact (toksIntact.drop 2) = .ok 1 ∧
    wordSetAtom [['w', 'e'], ['i']] srcIntact toksIntact = .ok 1 ∧
    (Leaf.exactWord ['I', 'n']).matcher env0 srcIntact (toksIntact.drop 2) = .ok 1 := by decide

/-- non-vacuity of `withinEditDistance_contract`, `similarToPhrase_contract`: `Im` is within distance 1 of `In`; the fuzzy
sequence matches three tokens where the exact one matches none -/
example : withinEditAtom env0 ['i', 'm'] 1 srcIntact (toksIntact.drop 2) = .ok 1 ∧
    (RPat.similar (.seq (.cons (.leaf (.anyCap ['i', 'm'])) (.cons (.leaf .whitespace) (.cons (.leaf (.anyCap ['t', 'a', 'c', 't'])) .nil))))
      (.seq (.cons (.leaf (.withinEdit ['i', 'm'] 1)) (.cons (.leaf .whitespace) (.cons (.leaf (.withinEdit ['t', 'a', 'c', 't'] 1)) .nil))))).matcher
      env0 srcIntact (toksIntact.drop 2) = .ok 3 := by decide

/-- non-vacuity of `nominalPhrase_contract`, `impliesQuantity_contract`: with `We` a determiner and every other word a
nominal, `We In` is a nominal phrase of three tokens and `We` implies a quantity -/
example : nominalPhraseAtom { env0 with wordFlags := fun w => if w = ['W', 'e'] then 32784 else 32832 } srcIntact toksIntact = .ok 3 ∧
    impliesQuantityAtom { env0 with wordFlags := fun w => if w = ['W', 'e'] then 32784 else 32832 } srcIntact toksIntact = .ok 1 := by
  decide

/-- non-vacuity of `leaf_total`: a plain leaf on the in-text tokens of `We In  tact now.` -/
example : ∃ n, (Leaf.anyCap ['w', 'e']).matcher env0 srcIntact toksIntact = .ok n ∧ n ≤ toksIntact.length :=
  leaf_total env0 (.anyCap ['w', 'e']) rfl srcIntact toksIntact inText_intact

/-- non-vacuity of `withinEditDistance_total`: its three hypotheses together, and the theorem applied -/
example : ∃ n, withinEditAtom env0 ['i', 'm'] 1 srcIntact toksIntact = .ok n ∧ n ≤ toksIntact.length :=
  withinEditDistance_total env0 ['i', 'm'] 1 (by decide) srcIntact toksIntact inText_intact (by unfold ShortWords; decide)

/-- non-vacuity of `withinEditDistance_panics_long`, applied: a word token of 256 letters meets its three hypotheses -/
example : withinEditAtom env0 ['a'] 1 (List.replicate 256 'a') [⟨⟨0, 256⟩, .word⟩] = .error .assertFail := by
  have h : ∀ n, (toLowerCow env0 (textOf (List.replicate n 'a') ⟨0, n⟩)).length = n := by
    intro n
    simp [textOf, toLowerCow, env0]
  refine withinEditDistance_panics_long env0 _ _ _ _ [] rfl ⟨Nat.zero_le _, ?_⟩ ?_
  · show 256 ≤ (List.replicate 256 'a').length
    rw [List.length_replicate]; exact Nat.le_refl _
  · show 255 < (toLowerCow env0 (textOf (List.replicate 256 'a') ⟨0, 256⟩)).length
    rw [h]; decide

/-- non-vacuity of `matches_safe_real` and `runOnChunk_safe_real`, applied: `sampleTree` (plain) with `MapPhraseLinter`'s
`match_to_lint`, which is total on in-text slices (`mapPhraseMatch_ok`) -/
example : ∃ ls, runOnChunkGo (sampleTree.matcher env0) (mapPhraseMatch env0 [['x']]) srcIntact 0 toksIntact = .ok ls ∧
    ∀ x ∈ ls, LintOK srcIntact.length x :=
  runOnChunk_safe_real env0 sampleTree (by decide) _ srcIntact
    (fun l _ hl => mapPhraseMatch_ok env0 [['x']] srcIntact l hl) toksIntact inText_intact

/-- … and what it computes: one lint over the whole of `We In  tact now.` -/
example : runOnChunkGo (sampleTree.matcher env0) (mapPhraseMatch env0 [['x']]) srcIntact 0 toksIntact =
    .ok [⟨⟨0, 16⟩, [.replaceWith ['X']], 13, 0⟩] := by decide

/-- non-vacuity of `exactPhrases_plain`: `MapPhraseLinter::new_exact_phrases(["in tact"])` -/
example : exactPhrasesOf env0 [phIntact] =
    some (.either (.cons (.seq (.cons (.leaf (.anyCap ['i', 'n'])) (.cons (.leaf .whitespace) (.cons (.leaf (.anyCap ['t', 'a', 'c', 't'])) .nil)))) .nil)) := by
  rfl

/-- **non-vacuity of `matches_safe_real_full`, `matches_safe_real_side`, `splitCompoundWord_total`, `isNotTitleCase_total`,
`runOnChunk_safe_real_full`** — `DictOK`, `CanonOK`, `WordsShort`, `Ord`, `ShortWords` TOGETHER and none of them trivially:
a dictionary that knows `Intact` (a noun) and the proper noun `tact` (canonical form `Tact`); a tree with all three demanding
patterns — `SplitCompoundWord`, `IsNotTitleCase` around the phrase `in tact`, `SimilarToPhrase` of `im tact` — and the tiling
tokens of `We In  tact now.`; each of the three branches matches the three tokens `In  tact`, and `run_on_chunk` reports them.
(`C12.env0`, used above, knows no word: there `DictOK` and `CanonOK` hold for want of any entry.) -/
theorem full_witness : ∃ (env : Env) (p : RPat) (src : List Char) (toks : List Tok),
    DictOK env ∧ CanonOK env ∧ WordsShort env p ∧ Rules.Ord src.length toks ∧ ShortWords env src toks ∧ Tiles toks 0 src.length ∧
    p.plain = false ∧
    (RPat.leaf (.splitCompound 8)).matcher env src (toks.drop 2) = .ok 3 ∧
    (RPat.notTitleCase (.seq (.cons (.leaf (.anyCap ['i', 'n'])) (.cons (.leaf .whitespace) (.cons (.leaf (.anyCap ['t', 'a', 'c', 't'])) .nil))))).matcher
      env src (toks.drop 2) = .ok 3 ∧
    p.matcher env src (toks.drop 2) = .ok 3 ∧ p.matcher env src toks = .ok 0 ∧
    runOnChunkGo (p.matcher env) (mapPhraseMatch env [['i', 'n', 't', 'a', 'c', 't']]) src 0 toks =
      .ok [⟨⟨3, 11⟩, [.replaceWith ['I', 'n', 't', 'a', 'c', 't']], 13, 0⟩] := by
  refine ⟨{ env0 with
      wordFlags := fun w => if w = ['I', 'n', 't', 'a', 'c', 't'] then 33024 else if w = ['t', 'a', 'c', 't'] then 32800 else 0
      canonical := fun w => if w = ['I', 'n', 't', 'a', 'c', 't'] then some ['I', 'n', 't', 'a', 'c', 't']
        else if w = ['t', 'a', 'c', 't'] then some ['T', 'a', 'c', 't'] else none },
    .either (.cons (.leaf (.splitCompound 8))
      (.cons (.notTitleCase (.seq (.cons (.leaf (.anyCap ['i', 'n'])) (.cons (.leaf .whitespace) (.cons (.leaf (.anyCap ['t', 'a', 'c', 't'])) .nil)))))
      (.cons (.similar (.seq (.cons (.leaf (.anyCap ['i', 'm'])) (.cons (.leaf .whitespace) (.cons (.leaf (.anyCap ['t', 'a', 'c', 't'])) .nil))))
        (.seq (.cons (.leaf (.withinEdit ['i', 'm'] 1)) (.cons (.leaf .whitespace) (.cons (.leaf (.withinEdit ['t', 'a', 'c', 't'] 1)) .nil))))) .nil))),
    srcIntact, toksIntact, ?_, ?_, ?_, ?_, ?_, ?_, ?_, ?_, ?_, ?_, ?_, ?_⟩
  · intro w h
    dsimp only at h ⊢
    split
    · simp
    · split
      · simp
      · rename_i h1 h2; simp [h1, h2] at h; revert h; decide
  · intro w c h
    dsimp only at h
    split at h
    · cases h; subst_vars; decide
    · split at h
      · cases h; subst_vars; decide
      · cases h
  · simp only [WordsShort, WordsShortL, Leaf.wordsShort, and_true, true_and]
    decide
  · unfold Rules.Ord; decide
  · unfold ShortWords; decide
  all_goals decide

/-- the five theorems applied to that value: their hypotheses are exactly what `full_witness` provides -/
example : ∃ (env : Env) (p : RPat) (src : List Char) (toks : List Tok), p.plain = false ∧
    (∃ n, p.matcher env src toks = .ok n ∧ n ≤ toks.length) ∧
    (∃ n, splitCompoundAtom env 8 src toks = .ok n ∧ n ≤ toks.length) ∧
    (∃ n, (RPat.notTitleCase (.leaf .any)).matcher env src toks = .ok n ∧ n ≤ toks.length) ∧
    (∃ ls, runOnChunkGo (p.matcher env) (mapPhraseMatch env [['x']]) src 0 toks = .ok ls ∧ ∀ x ∈ ls, LintOK src.length x) := by
  obtain ⟨env, p, src, toks, hd, hc, hw, ho, hs, _, hp, _⟩ := full_witness
  exact ⟨env, p, src, toks, hp,
    matches_safe_real_side (orderedShort_hyp env) env p (side_full env hd hc p hw) src toks ⟨ho, hs⟩,
    splitCompoundWord_total env 8 hd src toks (inOrder_hyp.inb src toks ho),
    isNotTitleCase_total env hc (.leaf .any) rfl src toks ho,
    runOnChunk_safe_real_full env hd hc p hw _ src
      (fun l _ hl => mapPhraseMatch_ok env [['x']] src l ((orderedShort_hyp env).inb src l hl)) toks ho hs⟩

example : ∃ (env : Env) (p : RPat) (src : List Char) (toks : List Tok) (n : Nat), p.plain = false ∧
    p.matcher env src toks = .ok n ∧ n ≤ toks.length := by
  obtain ⟨env, p, src, toks, hd, hc, hw, ho, hs, _, hp, _⟩ := full_witness
  obtain ⟨n, h1, h2⟩ := matches_safe_real_full env hd hc p hw src toks ho hs
  exact ⟨env, p, src, toks, n, hp, h1, h2⟩

end Harper.C01

/-! ## never hangs — UNCONDITIONALLY — and the iteration bound of `RepeatingPattern`, for the real leaves (w26)

`matches_never_hangs`, `rep_terminates`, `rep_fuel_tight`, `runOnChunk_never_hangs`, `findAllMatches_never_hangs` of
`Props/C01Pattern.lean` are about the kind-code model `Pat`. The same for `RPat`, the trees over the REAL leaf patterns: no
hypothesis on the environment, the source, the tokens (spans may lie outside the text, be inverted, overlap, be out of order)
or the tree. The only fuelled loop in `RPat.matcher` is `repGo` (`RepeatingPattern::matches`); every leaf and every other
combinator is a structural recursion. -/
namespace Harper.C01
open Harper Harper.Chunks Harper.Rules Harper.Leaves
open Harper.C12 (env0)

/-- no real leaf pattern can hang: `Leaf.matcher` never returns `Panic.outOfFuel` (`WhitespacePattern` and `NominalPhrase` walk
the slice once; `WithinEditDistance` runs the two bounded `for` loops of `edit_distance_min_alloc`; `SplitCompoundWord` a
three-element `SequencePattern`; the rest look at one token) -/
theorem leaf_never_hangs (env : Env) (l : Leaf) (src : List Char) (toks : List Tok) :
    l.matcher env src toks ≠ .error .outOfFuel := leaf_nf env l src toks

/-- **`Pattern::matches` of a tree over the real leaves never hangs** — every `env`, every tree, every source, every token
list; the counterpart of `matches_never_hangs` (kind-code model). A `RepeatingPattern` loop iteration returns (child answered
0), propagates the child's panic, panics in `&tokens[cursor..]` (child answered more than the slice holds), or shortens the slice
by at least one token — so the `toks.length + 1` iterations `repPat` allows are never used up. -/
theorem matches_never_hangs_real (env : Env) (p : RPat) (src : List Char) (toks : List Tok) :
    p.matcher env src toks ≠ .error .outOfFuel := matcher_nf env p src toks

/-- the same for `RepeatingPattern` around ANY child that does not itself hang — the child need not keep the contract -/
theorem rep_never_hangs_any (inner : Matcher) (hi : ∀ src toks, inner src toks ≠ .error .outOfFuel) (req : Nat)
    (src : List Char) (toks : List Tok) : repPat inner req src toks ≠ .error .outOfFuel := repPat_nf inner hi req src toks

/-- non-vacuity of `rep_never_hangs_any`: children that break the contract meet its hypothesis, and the loop ends in the slice
panic, not in a hang — a child that answers 5 on one token; a child that always answers 1 (the unfixed `Invert(any)` on the
empty rest: two iterations consume the two tokens, the third panics) -/
example : repPat (fun _ _ => .ok 5) 0 [] [⟨⟨0, 1⟩, .word⟩] = .error .sliceOOB ∧
    repPat (fun _ _ => .ok 1) 0 [] [⟨⟨0, 1⟩, .word⟩, ⟨⟨1, 2⟩, .word⟩] = .error .sliceOOB := by decide

/-- `matches_never_hangs_real` at work: a repetition of a leaf that answers 0 at once (`then_one_or_more(any word)` on a space);
a repetition nested in a repetition (the inner one eats the three tokens, the outer one sees 0 on the empty rest and stops); a
repetition of `Invert` (one token per round, 0 on the empty slice) -/
example : (RPat.rep (.leaf (.kind .word false)) 0).matcher C12.env0 [' '] [⟨⟨0, 1⟩, .space 1⟩] = .ok 0 ∧
    (RPat.rep (.rep (.leaf .any) 0) 0).matcher C12.env0 [] [⟨⟨0, 1⟩, .word⟩, ⟨⟨1, 2⟩, .space 1⟩, ⟨⟨2, 3⟩, .word⟩] = .ok 3 ∧
    (RPat.rep (.invert (.leaf .whitespace)) 2).matcher C12.env0 [] [⟨⟨0, 1⟩, .word⟩, ⟨⟨1, 2⟩, .word⟩, ⟨⟨2, 3⟩, .word⟩] = .ok 3 := by
  decide

/-- … and on tokens that are NOT in the text (the span 7..9 of a one-character source; an inverted span): the leaf panics —
with the slice / underflow panic, through two `RepeatingPattern`s — it does not hang -/
example : (RPat.rep (.rep (.leaf (.exactWord ['a'])) 0) 0).matcher C12.env0 ['a'] [⟨⟨7, 9⟩, .word⟩] = .error .sliceOOB ∧
    (RPat.rep (.seq (.cons (.leaf .any) (.cons (.leaf (.anyCap ['a'])) .nil))) 0).matcher C12.env0 ['a']
      [⟨⟨0, 1⟩, .word⟩, ⟨⟨1, 0⟩, .word⟩] = .error .underflow := by decide

/-! ### the iteration bound (`rep_terminates`, `rep_fuel_tight` for the real leaves) -/

/-- **`RepeatingPattern`'s loop over a real tree needs at most `toks.length + 1` iterations**, and what it ends with is a match
length inside the slice or the very panic the child raised on a suffix `toks[k..]` of the slice — never a panic of its own,
never a hang. (`fuel` = iterations of the loop body; the child's contract is `matches_contract_real`, a theorem.) -/
theorem rep_terminates_real (env : Env) (p : RPat) (req : Nat) (src : List Char) (toks : List Tok) (fuel : Nat)
    (hf : toks.length < fuel) :
    (∃ n, repGo (p.matcher env) req src fuel 0 0 toks = .ok n ∧ n ≤ toks.length) ∨
    (∃ e k, repGo (p.matcher env) req src fuel 0 0 toks = .error e ∧ e ≠ .outOfFuel ∧ k ≤ toks.length ∧
      p.matcher env src (toks.drop k) = .error e) := by
  rcases repGo_outcome (p.matcher env) (matcher_mc env p) req src fuel 0 0 toks hf with ⟨n, h1, h2⟩ | ⟨e, k, h1, h2, h3⟩
  · exact .inl ⟨n, h1, by omega⟩
  · exact .inr ⟨e, k, h1, fun he => matcher_nf env p src _ (he ▸ h3), h2, h3⟩

/-- the general form: ANY child that keeps the contract (`n ≤ toks.length` whenever it returns) -/
theorem rep_terminates_any (inner : Matcher) (hc : ∀ src toks n, inner src toks = .ok n → n ≤ toks.length) (req : Nat)
    (src : List Char) (toks : List Tok) (fuel : Nat) (hf : toks.length < fuel) :
    (∃ n, repGo inner req src fuel 0 0 toks = .ok n ∧ n ≤ toks.length) ∨
    (∃ e k, repGo inner req src fuel 0 0 toks = .error e ∧ k ≤ toks.length ∧ inner src (toks.drop k) = .error e) := by
  rcases repGo_outcome inner hc req src fuel 0 0 toks hf with ⟨n, h1, h2⟩ | h
  · exact .inl ⟨n, h1, by omega⟩
  · exact .inr h

/-- non-vacuity of `rep_terminates_any`: `kindAtom` keeps the contract (hypothesis `hc`), fuel 3 on two tokens -/
example : (∃ n, repGo (kindAtom Kind.isWord) 0 [] 3 0 0 [⟨⟨0, 1⟩, .word⟩, ⟨⟨1, 2⟩, .word⟩] = .ok n ∧ n ≤ 2) ∨
    (∃ e k, repGo (kindAtom Kind.isWord) 0 [] 3 0 0 [⟨⟨0, 1⟩, .word⟩, ⟨⟨1, 2⟩, .word⟩] = .error e ∧ k ≤ 2 ∧
      kindAtom Kind.isWord [] (List.drop k [⟨⟨0, 1⟩, .word⟩, ⟨⟨1, 2⟩, .word⟩]) = .error e) :=
  rep_terminates_any (kindAtom Kind.isWord) (tokAtom_mc fun _ t => t.kind.isWord) 0 [] _ 3 (by decide)
example : repGo (kindAtom Kind.isWord) 0 [] 3 0 0 [⟨⟨0, 1⟩, .word⟩, ⟨⟨1, 2⟩, .word⟩] = .ok 2 := by decide

/-- the bound at its smallest value, which is the fuel the model (`repPat`) runs the loop with: the statement is about
`(RPat.rep p req).matcher` itself -/
theorem rep_fuel_tight_real (env : Env) (p : RPat) (req : Nat) (src : List Char) (toks : List Tok) :
    (∃ n, (RPat.rep p req).matcher env src toks = .ok n ∧ n ≤ toks.length) ∨
    (∃ e k, (RPat.rep p req).matcher env src toks = .error e ∧ e ≠ .outOfFuel ∧ k ≤ toks.length ∧
      p.matcher env src (toks.drop k) = .error e) := by
  rw [RPat.matcher]
  exact rep_terminates_real env p req src toks (toks.length + 1) (Nat.lt_succ_self _)

/-- … and `toks.length` iterations do NOT suffice: `any` repeated over two tokens needs the third iteration to see the empty
rest and return -/
example : repGo ((RPat.leaf .any).matcher C12.env0) 0 [] 2 0 0 [⟨⟨0, 1⟩, .word⟩, ⟨⟨1, 2⟩, .word⟩] = .error .outOfFuel ∧
    repGo ((RPat.leaf .any).matcher C12.env0) 0 [] 3 0 0 [⟨⟨0, 1⟩, .word⟩, ⟨⟨1, 2⟩, .word⟩] = .ok 2 := by decide

/-- non-vacuity of `rep_terminates_real` (`hf` at `fuel = 9 = len + 1`), applied, and both disjuncts occur: on the in-text tokens
of `We In  tact now.` the loop returns; with the out-of-text token of above the child's panic comes through (`k = 0`) -/
example : (∃ n, repGo ((RPat.leaf .any).matcher env0) 3 srcIntact 9 0 0 toksIntact = .ok n ∧ n ≤ toksIntact.length) ∨
    (∃ e k, repGo ((RPat.leaf .any).matcher env0) 3 srcIntact 9 0 0 toksIntact = .error e ∧ e ≠ .outOfFuel ∧ k ≤ toksIntact.length ∧
      (RPat.leaf .any).matcher env0 srcIntact (toksIntact.drop k) = .error e) :=
  rep_terminates_real env0 (.leaf .any) 3 srcIntact toksIntact 9 (by decide)
example : repGo ((RPat.leaf .any).matcher env0) 3 srcIntact 9 0 0 toksIntact = .ok 8 ∧
    repGo ((RPat.leaf (.exactWord ['a'])).matcher env0) 0 ['a'] 2 0 0 [⟨⟨7, 9⟩, .word⟩] = .error .sliceOOB ∧
    (RPat.leaf (.exactWord ['a'])).matcher env0 ['a'] ([⟨⟨7, 9⟩, .word⟩].drop 0) = .error .sliceOOB := by decide

/-- **fuel above `toks.length` is never touched**: any two such fuels give the same result — for ANY child (the loop itself
refuses an answer longer than the slice). So the model's choice `toks.length + 1` loses nothing against the unbounded Rust `loop`. -/
theorem rep_fuel_irrelevant (inner : Matcher) (req : Nat) (src : List Char) (toks : List Tok) (fuel fuel' : Nat)
    (hf : toks.length < fuel) (hf' : toks.length < fuel') :
    repGo inner req src fuel 0 0 toks = repGo inner req src fuel' 0 0 toks :=
  repGo_fuel_irrelevant inner req src fuel fuel' 0 0 toks hf hf'

/-- non-vacuity of `rep_fuel_irrelevant`: fuels 9 and 100 on eight tokens -/
example : repGo ((RPat.leaf .any).matcher env0) 3 srcIntact 9 0 0 toksIntact =
    repGo ((RPat.leaf .any).matcher env0) 3 srcIntact 100 0 0 toksIntact :=
  rep_fuel_irrelevant _ 3 srcIntact toksIntact 9 100 (by decide) (by decide)

/-- **the fuel actually consumed is output-sensitive**: a non-zero match length `n` is reached within `n + 1` iterations (every
iteration but the last adds at least one token to the `n` matched) — for ANY child, whatever fuel the run that produced `n` had -/
theorem rep_iterations_le_match (inner : Matcher) (req : Nat) (src : List Char) (toks : List Tok) (fuel n : Nat)
    (h : repGo inner req src fuel 0 0 toks = .ok n) (hn : n ≠ 0) : repGo inner req src (n + 1) 0 0 toks = .ok n :=
  repGo_fuel_by_result inner req src fuel 0 0 toks n h hn

/-- non-vacuity of `rep_iterations_le_match`: whitespace-or-word pairs over `We In  tact now.`: 6 tokens in 3 rounds (fuel 4 ≤ 7
would do); the bound `n + 1` is attained by `any` (one token per round) -/
example : repGo ((RPat.seq (.cons (.leaf .any) (.cons (.leaf .whitespace) .nil))).matcher env0) 0 srcIntact 9 0 0 toksIntact = .ok 6 ∧
    repGo ((RPat.seq (.cons (.leaf .any) (.cons (.leaf .whitespace) .nil))).matcher env0) 0 srcIntact 7 0 0 toksIntact = .ok 6 ∧
    repGo ((RPat.seq (.cons (.leaf .any) (.cons (.leaf .whitespace) .nil))).matcher env0) 0 srcIntact 4 0 0 toksIntact = .ok 6 ∧
    repGo ((RPat.leaf .any).matcher env0) 0 srcIntact 9 0 0 toksIntact = .ok 8 ∧
    repGo ((RPat.leaf .any).matcher env0) 0 srcIntact 8 0 0 toksIntact = .error .outOfFuel := by decide

/-! ### `run_on_chunk` -/

/-- **`run_on_chunk` around any real tree cannot spin**: the cursor advances in every iteration (the model's recursion is the
cursor; it has no fuel of its own), so a hang could only come from the pattern — `matches_never_hangs_real` — or from
`match_to_lint`. The counterpart of `runOnChunk_never_hangs`; no hypothesis on source or tokens. -/
theorem runOnChunk_never_hangs_real (env : Env) (p : RPat) (f : List Char → List Tok → Except Panic (List RuleLint))
    (src : List Char) (hf : ∀ l, f src l ≠ .error .outOfFuel) (skip : Nat) (chunk : List Tok) :
    runOnChunkGo (p.matcher env) f src skip chunk ≠ .error .outOfFuel :=
  runOnChunkGo_nf _ (matcher_nf env p) f src hf chunk skip

/-- … and around ANY pattern that does not hang itself -/
theorem runOnChunk_never_hangs_any (m : Matcher) (hm : ∀ src toks, m src toks ≠ .error .outOfFuel)
    (f : List Char → List Tok → Except Panic (List RuleLint)) (src : List Char) (hf : ∀ l, f src l ≠ .error .outOfFuel)
    (skip : Nat) (chunk : List Tok) : runOnChunkGo m f src skip chunk ≠ .error .outOfFuel :=
  runOnChunkGo_nf m hm f src hf chunk skip

/-- `MapPhraseLinter` (all of `phrase_corrections.rs`, `closed_compounds.rs`): the whole linter, `iter_chunks` included, never
hangs — whatever pattern, whatever document -/
theorem ruleMapPhrase_never_hangs (env : Env) (p : RPat) (forms : List (List Char)) (src : List Char) (toks : List Tok) :
    ruleMapPhrase env p forms src toks ≠ .error .outOfFuel :=
  collectE_nf _ _ fun chunk _ => runOnChunk_never_hangs_real env p _ src (mapPhraseMatch_nf env forms src) 0 chunk

/-- `ProperNounCapitalizationLinter`: the same (its `match_to_lint` runs the patterns a second time, `PatternMap::lookup`) -/
theorem ruleProperNoun_never_hangs (env : Env) (rows : List PNRow) (src : List Char) (toks : List Tok) :
    ruleProperNoun env rows src toks ≠ .error .outOfFuel :=
  collectE_nf _ _ fun chunk _ => runOnChunk_never_hangs_real env _ _ src (properNounMatch_nf env rows src) 0 chunk

/-- non-vacuity of `runOnChunk_never_hangs_real` / `_any`: `hf` holds of `MapPhraseLinter::match_to_lint`; the theorem applied
to a tree with a nested repetition, on in-text tokens (a lint) and on a token outside the text (the leaf's panic, no hang) -/
example : runOnChunkGo ((RPat.rep (.rep (.leaf (.kind .word false)) 0) 0).matcher env0) (mapPhraseMatch env0 [['x']]) srcIntact 0
    toksIntact ≠ .error .outOfFuel :=
  runOnChunk_never_hangs_real env0 _ _ srcIntact (mapPhraseMatch_nf env0 [['x']] srcIntact) 0 toksIntact
example : runOnChunkGo ((RPat.rep (.rep (.leaf (.kind .word false)) 0) 0).matcher env0) (mapPhraseMatch env0 [['x']]) srcIntact 0
      (toksIntact.take 3) = .ok [⟨⟨0, 2⟩, [.replaceWith ['X']], 13, 0⟩, ⟨⟨3, 5⟩, [.replaceWith ['X']], 13, 0⟩] ∧
    runOnChunkGo ((RPat.rep (.leaf (.exactWord ['a'])) 0).matcher env0) (mapPhraseMatch env0 [['x']]) ['a'] 0
      [⟨⟨0, 1⟩, .word⟩, ⟨⟨7, 9⟩, .word⟩] = .error .sliceOOB := by decide

/-! ### `find_all_matches`, `condense_pattern` over real tokens -/

/-- `find_all_matches` (document.rs; one `matches` per start index, then the overlap filter) with any real tree never hangs -/
theorem findAllMatches_never_hangs_real (env : Env) (p : RPat) (src : List Char) (toks : List Tok) :
    Harper.findAllMatches (p.matcher env) src toks ≠ .error .outOfFuel :=
  findAllMatches_nf _ (matcher_nf env p) src toks

/-- `condense_pattern` with any pattern that does not hang itself never hangs (its own loops are `for`s over the matches) -/
theorem condensePattern_never_hangs (m : Matcher) (hm : ∀ src toks, m src toks ≠ .error .outOfFuel) (edit : Kind → Kind)
    (src : List Char) (toks : List Tok) : condensePattern m edit src toks ≠ .error .outOfFuel :=
  condensePattern_nf m hm edit src toks

/-- hence the three pattern passes of `Document::parse` — `condense_contractions`, `condense_ellipsis` (a `RepeatingPattern`),
`condense_latin` — never hang, on any token vector -/
theorem condensePasses_never_hang (src : List Char) (toks : List Tok) :
    condenseContractions src toks ≠ .error .outOfFuel ∧ condenseEllipsis src toks ≠ .error .outOfFuel ∧
    condenseLatin src toks ≠ .error .outOfFuel :=
  ⟨condensePattern_nf _ contractionPat_nf _ src toks, condensePattern_nf _ ellipsisPat_nf _ src toks,
    condensePattern_nf _ latinPat_nf _ src toks⟩

/-- non-vacuity of `condensePattern_never_hangs`: its hypothesis holds of `ellipsisPat` (a `repPat`), and the pass at work on
`a...` with the three periods merged -/
example : condensePattern ellipsisPat (fun _ => .punct .Ellipsis) ['a', '.', '.', '.'] [⟨⟨0, 1⟩, .word⟩, ⟨⟨1, 2⟩, .punct .Period⟩,
    ⟨⟨2, 3⟩, .punct .Period⟩, ⟨⟨3, 4⟩, .punct .Period⟩] ≠ .error .outOfFuel :=
  condensePattern_never_hangs ellipsisPat ellipsisPat_nf _ _ _
example : condenseEllipsis ['a', '.', '.', '.'] [⟨⟨0, 1⟩, .word⟩, ⟨⟨1, 2⟩, .punct .Period⟩,
    ⟨⟨2, 3⟩, .punct .Period⟩, ⟨⟨3, 4⟩, .punct .Period⟩] = .ok [⟨⟨0, 1⟩, .word⟩, ⟨⟨1, 4⟩, .punct .Ellipsis⟩] := by decide

end Harper.C01
