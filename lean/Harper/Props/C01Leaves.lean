import Harper.Lemmas.Leaves
import Harper.Props.C12b
/-!
# C01 (leaf patterns) — the contract of `Pattern::matches` is a THEOREM for every real leaf

`Props/C01Pattern.lean` proves the combinators safe under the assumption that every leaf returns at
most the length of its slice. Here the leaves of `harper-core/src/patterns/*.rs` are in the model
(`Model/Leaves.lean`, compared with the real patterns on every suffix of real documents' token
vectors on every run), and

* `leaf_contract` / `matches_contract_real`: every leaf, and every tree `RPat` built from the leaves and
  ALL the combinators (`SequencePattern`, `RepeatingPattern`, `EitherPattern`, `All`, `Invert`,
  `ConsumesRemainingPattern`, `NaivePatternGroup`, `PatternMap`, `SimilarToPhrase`, `IsNotTitleCase`,
  `WordPatternGroup`, `TokenKindPatternGroup`), returns at most the length of its slice — on ANY tokens,
  with no hypothesis at all;
* `leaf_total` / `matches_safe_real`: on well-formed tokens inside the text — in any order, zero-width tokens included —
  a tree without `WithinEditDistance`, `SplitCompoundWord` and `IsNotTitleCase` (`plain`; every tree
  of the shipped tables is one: `exactPhrases_plain`) does not panic and does not hang;
* the three demanding leaves: `withinEditDistance_total` needs every lower-cased word to fit the `u8`
  rows (≤ 254 characters) — and `withinEditDistance_panics_long`: a word of more than 255 characters
  PANICS (a finding: `SimilarToPhrase` on any document with such a word; no shipped rule uses it);
  `splitCompoundWord_total` needs the dictionary to have a canonical form of every word it knows;
  `isNotTitleCase_total` needs the tokens in text order (witness: it panics otherwise);
* `matches_safe_real_full`: hence every tree whatsoever is safe on ordered tokens with short words;
* `runOnChunk_safe_real`: `run_on_chunk` around any such tree and any `match_to_lint` that is total on
  non-empty in-text slices.
-/
namespace Harper.C01
open Harper Harper.Chunks Harper.Rules Harper.Leaves

/-! ## the contract, unconditionally -/

/-- every real leaf pattern returns at most the length of the slice it was given -/
theorem leaf_contract (env : Env) (l : Leaf) (src : List Char) (toks : List Tok) (n : Nat)
    (h : l.matcher env src toks = .ok n) : n ≤ toks.length := leaf_mc env l src toks n h

theorem anyCapitalization_contract (w : List Char) (src : List Char) (toks : List Tok) (n : Nat)
    (h : anyCapAtom w src toks = .ok n) : n ≤ toks.length := anyCapAtom_mc w src toks n h
theorem wordSet_contract (ws : List (List Char)) (src : List Char) (toks : List Tok) (n : Nat)
    (h : wordSetAtom ws src toks = .ok n) : n ≤ toks.length := wordSetAtom_mc ws src toks n h
theorem withinEditDistance_contract (env : Env) (w : List Char) (d : Nat) (src : List Char) (toks : List Tok) (n : Nat)
    (h : withinEditAtom env w d src toks = .ok n) : n ≤ toks.length := withinEdit_mc env w d src toks n h
theorem nominalPhrase_contract (env : Env) (src : List Char) (toks : List Tok) (n : Nat)
    (h : nominalPhraseAtom env src toks = .ok n) : n ≤ toks.length := nominalPhrase_mc env src toks n h
theorem impliesQuantity_contract (env : Env) (src : List Char) (toks : List Tok) (n : Nat)
    (h : impliesQuantityAtom env src toks = .ok n) : n ≤ toks.length := impliesQuantity_mc env src toks n h
theorem splitCompoundWord_contract (env : Env) (bit : Nat) (src : List Char) (toks : List Tok) (n : Nat)
    (h : splitCompoundAtom env bit src toks = .ok n) : n ≤ toks.length := splitCompound_mc env bit src toks n h
/-- `IsNotTitleCase` returns its inner pattern's answer or 0 -/
theorem isNotTitleCase_contract (env : Env) (p : RPat) (src : List Char) (toks : List Tok) (n : Nat)
    (h : (RPat.notTitleCase p).matcher env src toks = .ok n) : n ≤ toks.length :=
  matcher_mc env (.notTitleCase p) src toks n h
/-- `SimilarToPhrase` returns its fuzzy sequence's answer or 0 -/
theorem similarToPhrase_contract (env : Env) (a b : RPat) (src : List Char) (toks : List Tok) (n : Nat)
    (h : (RPat.similar a b).matcher env src toks = .ok n) : n ≤ toks.length :=
  matcher_mc env (.similar a b) src toks n h

/-- **`Contract` for every tree over the real leaves**: whatever `matches` returns is inside the slice -/
theorem matches_contract_real (env : Env) (p : RPat) (src : List Char) (toks : List Tok) (n : Nat)
    (h : p.matcher env src toks = .ok n) : n ≤ toks.length := matcher_mc env p src toks n h

/-! ## totality -/

/-- a leaf other than `WithinEditDistance` / `SplitCompoundWord` does not panic on tokens inside the text -/
theorem leaf_total (env : Env) (l : Leaf) (hl : l.plain = true) (src : List Char) (toks : List Tok)
    (h : InText src toks) : ∃ n, l.matcher env src toks = .ok n ∧ n ≤ toks.length :=
  leaf_okh inText_hyp env l (by cases l <;> simp_all [Leaf.Side, Leaf.plain]) src toks h

/-- `WithinEditDistance` returns when the pattern's word and every word token, lower-cased, have at most
254 characters (`u8_checked_ok_iff`: that is exactly the domain of the dev-profile routine) -/
theorem withinEditDistance_total (env : Env) (w : List Char) (d : Nat) (hw : (toLowerCow env w).length ≤ 254)
    (src : List Char) (toks : List Tok) (h : InText src toks) (hs : ShortWords env src toks) :
    ∃ n, withinEditAtom env w d src toks = .ok n ∧ n ≤ toks.length :=
  withinEdit_ok (and_hyp inText_hyp (ShortWords env) (shortWords_sub env)) env w d hw (fun _ _ hh => hh.2) src toks ⟨h, hs⟩

/-- **finding**: on a word token whose lower-cased text has more than 255 characters `WithinEditDistance`
(hence `SimilarToPhrase`, hence `MapPhraseLinter::new_similar_to_phrase`) panics:
`assert!(source.len() <= 255 && target.len() <= 255)` in the dev profile -/
theorem withinEditDistance_panics_long (env : Env) (w : List Char) (d : Nat) (src : List Char) (t : Tok) (rest : List Tok)
    (hk : t.kind.isWord = true) (hin : TokIn src t) (hl : 255 < (toLowerCow env (textOf src t.span)).length) :
    withinEditAtom env w d src (t :: rest) = .error .assertFail := by
  simp only [withinEditAtom, hk, Bool.not_true, Bool.false_eq_true, if_false, getContent_textOf src t hin]
  rw [editDistance_assert _ _ (.inl hl)]

-- … and in the release profile (wrapping arithmetic, no assertion) a word of 256 characters indexes
-- `previous_row` out of bounds: `0u8..=(256 as u8)` has one element (as in `Props/C15.lean`)
set_option maxRecDepth 20000 in
example : editDistance .wrapping (List.replicate 256 (0 : Nat)) ([] : List Nat) = .error .sliceOOB := by decide

/-- a word of exactly 255 characters overflows a `u8` cell in the dev profile -/
example : editDistance .checked (List.replicate 255 'a') ['a', 'b'] = .error .overflow :=
  editDistance_overflow_source _ _ List.length_replicate (List.cons_ne_nil _ _) (by decide)

theorem splitCompoundWord_total (env : Env) (bit : Nat) (hd : DictOK env) (src : List Char) (toks : List Tok)
    (h : InText src toks) : ∃ n, splitCompoundAtom env bit src toks = .ok n ∧ n ≤ toks.length :=
  splitCompound_ok inText_hyp env bit hd src toks h

/-- `IsNotTitleCase` around a safe pattern is safe on tokens in text order -/
theorem isNotTitleCase_total (env : Env) (hc : CanonOK env) (p : RPat) (hp : p.plain = true) (src : List Char)
    (toks : List Tok) (h : Ord src.length toks) :
    ∃ n, (RPat.notTitleCase p).matcher env src toks = .ok n ∧ n ≤ toks.length := by
  rw [RPat.matcher]
  exact notTitleCasePat_okh inOrder_hyp env hc (fun _ _ hh => hh) _ (matcher_okh inOrder_hyp env p (side_of_plain env _ p hp)) src toks h

/-- text order is needed: `output[word.span.start - start_index]` underflows when a word-like token
starts before the slice's first token -/
example : (RPat.notTitleCase (.rep (.leaf .any) 0)).matcher C12.env0 ['a', ' ', 'b']
    [⟨⟨2, 3⟩, .word⟩, ⟨⟨0, 1⟩, .word⟩] = .error .sliceOOB := by decide

/-- **`matches_safe` with no leaf assumption**: a tree of the real leaves and combinators, without the
three demanding patterns, never panics, never hangs and stays inside its slice — on well-formed tokens
inside the text, in ANY order, zero-width tokens included (also what the Markdown front-end delivers) -/
theorem matches_safe_real (env : Env) (p : RPat) (hp : p.plain = true) (src : List Char) (toks : List Tok)
    (h : InText src toks) : ∃ n, p.matcher env src toks = .ok n ∧ n ≤ toks.length :=
  matcher_okh inText_hyp env p (side_of_plain env _ p hp) src toks h

/-- the general form: any hypothesis `H` on the tokens that sub-lists inherit, and what the demanding
leaves of the tree ask of it (`Side`) -/
theorem matches_safe_real_side {H : List Char → List Tok → Prop} (hH : SliceHyp H) (env : Env) (p : RPat)
    (hs : p.Side env H) (src : List Char) (toks : List Tok) (h : H src toks) :
    ∃ n, p.matcher env src toks = .ok n ∧ n ≤ toks.length := matcher_okh hH env p hs src toks h

/-- **every tree whatsoever** (all leaves, all combinators) is safe on tokens in text order whose
lower-cased words — and the tree's own — have at most 254 characters, for a dictionary that has a
canonical form, at least as long, of every word it knows -/
theorem matches_safe_real_full (env : Env) (hd : DictOK env) (hc : CanonOK env) (p : RPat) (hw : WordsShort env p)
    (src : List Char) (toks : List Tok) (ho : Ord src.length toks) (hs : ShortWords env src toks) :
    ∃ n, p.matcher env src toks = .ok n ∧ n ≤ toks.length :=
  matcher_okh (orderedShort_hyp env) env p (side_full env hd hc p hw) src toks ⟨ho, hs⟩

/-! ## `run_on_chunk` -/

/-- **`runOnChunk_safe` with no leaf assumption**: `run_on_chunk` around a tree of real leaves and a
`match_to_lint` that is total on non-empty slices of in-text tokens never panics, and every lint it
collects points into the text -/
theorem runOnChunk_safe_real (env : Env) (p : RPat) (hp : p.plain = true)
    (f : List Char → List Tok → Except Panic (List RuleLint)) (src : List Char)
    (hf : ∀ l, l ≠ [] → InText src l → ∃ ls, f src l = .ok ls ∧ ∀ x ∈ ls, LintOK src.length x)
    (chunk : List Tok) (h : InText src chunk) :
    ∃ ls, runOnChunkGo (p.matcher env) f src 0 chunk = .ok ls ∧ ∀ x ∈ ls, LintOK src.length x :=
  runOnChunkGo_okh inText_hyp _ (matcher_okh inText_hyp env p (side_of_plain env _ p hp)) f src hf chunk h 0

theorem runOnChunk_safe_real_full (env : Env) (hd : DictOK env) (hc : CanonOK env) (p : RPat) (hw : WordsShort env p)
    (f : List Char → List Tok → Except Panic (List RuleLint)) (src : List Char)
    (hf : ∀ l, l ≠ [] → OrderedShort env src l → ∃ ls, f src l = .ok ls ∧ ∀ x ∈ ls, LintOK src.length x)
    (chunk : List Tok) (ho : Ord src.length chunk) (hs : ShortWords env src chunk) :
    ∃ ls, runOnChunkGo (p.matcher env) f src 0 chunk = .ok ls ∧ ∀ x ∈ ls, LintOK src.length x :=
  runOnChunkGo_okh (orderedShort_hyp env) _ (matcher_okh (orderedShort_hyp env) env p (side_full env hd hc p hw)) f src hf
    chunk ⟨ho, hs⟩ 0

/-! ## the chunk iterators the rule models run over -/

/-- **the Tok-level `iter_chunks` / `iter_sentences` / `iter_paragraphs` of `Model/Chunks.lean`** (the ones the rule models
`ruleMapPhrase`, `ruleProperNoun`, … iterate over) partition the token vector too: the pieces, concatenated, are the tokens —
nothing lost, duplicated or reordered (`iterSplit_flatten` of `Props/C01Pattern.lean` is about the kind-code model) -/
theorem split_flatten (term : Kind → Bool) (toks : List Tok) : (Chunks.split term toks).flatten = toks := by
  have key : ∀ (toks cur : List Tok), (splitGo term cur toks).flatten = cur.reverse ++ toks := by
    intro toks
    induction toks with
    | nil =>
      intro cur
      unfold splitGo
      cases cur <;> simp
    | cons t ts ih =>
      intro cur
      unfold splitGo
      split
      · simp [ih []]
      · rw [ih (t :: cur)]; simp
  unfold Chunks.split
  split
  · rename_i h; simp at h; simp [h]
  · simpa using key toks []

theorem iterChunks_tok_flatten (toks : List Tok) : (Chunks.iterChunks toks).flatten = toks := split_flatten _ _
theorem iterSentences_tok_flatten (toks : List Tok) : (Chunks.iterSentences toks).flatten = toks := split_flatten _ _
theorem iterParagraphs_tok_flatten (toks : List Tok) : (Chunks.iterParagraphs toks).flatten = toks := split_flatten _ _

/-- e.g. the tokens of `ab,cd.e`: a comma and a period close their chunks, the trailing word is a chunk of its own -/
example : Chunks.iterChunks [⟨⟨0, 2⟩, .word⟩, ⟨⟨2, 3⟩, .punct .Comma⟩, ⟨⟨3, 5⟩, .word⟩, ⟨⟨5, 6⟩, .punct .Period⟩, ⟨⟨6, 7⟩, .word⟩] =
    [[⟨⟨0, 2⟩, .word⟩, ⟨⟨2, 3⟩, .punct .Comma⟩], [⟨⟨3, 5⟩, .word⟩, ⟨⟨5, 6⟩, .punct .Period⟩], [⟨⟨6, 7⟩, .word⟩]] := by decide

/-! ## the trees of the shipped tables are `plain` -/

/-- `ExactPhrase::from_document` builds a sequence of `AnyCapitalization`, `WhitespacePattern` and kind
closures: nothing demanding -/
theorem exactPhrase_plain (env : Env) (psrc : List Char) (ptoks : List Tok) (p : RPat)
    (h : exactPhraseOf env psrc ptoks = some p) : p.plain = true := by
  simp only [exactPhraseOf, Option.map_eq_some_iff] at h
  obtain ⟨ls, hls, rfl⟩ := h
  simp only [RPat.plain]
  apply leavesToRPats_plain
  intro l hl
  obtain ⟨t, _, ht⟩ := mapM_some_mem _ _ _ hls l hl
  simp only [exactPhraseLeaf] at ht
  split at ht <;> first | (cases ht; rfl) | cases ht

/-- … and so is the `EitherPattern` of `MapPhraseLinter::new_exact_phrases`: every row of
`phrase_corrections.rs` and `closed_compounds.rs`, whatever its phrases -/
theorem exactPhrases_plain (env : Env) (docs : List (List Char × List Tok)) (p : RPat)
    (h : exactPhrasesOf env docs = some p) : p.plain = true := by
  simp only [exactPhrasesOf, Option.map_eq_some_iff] at h
  obtain ⟨ps, hps, rfl⟩ := h
  simp only [RPat.plain]
  apply ofList_plain
  intro q hq
  obtain ⟨d, _, hd⟩ := mapM_some_mem _ _ _ hps q hq
  exact exactPhrase_plain env d.1 d.2 q hd

/-! ## non-vacuity (kernel-evaluated) -/

open Harper.C12 (env0)

/-- the phrase document of `in tact` and the tokens of `We in  tact now.` -/
def phIntact : List Char × List Tok := (['i', 'n', ' ', 't', 'a', 'c', 't'], [⟨⟨0, 2⟩, .word⟩, ⟨⟨2, 3⟩, .space 1⟩, ⟨⟨3, 7⟩, .word⟩])
def srcIntact : List Char := ['W', 'e', ' ', 'I', 'n', ' ', ' ', 't', 'a', 'c', 't', ' ', 'n', 'o', 'w', '.']
def toksIntact : List Tok :=
  [⟨⟨0, 2⟩, .word⟩, ⟨⟨2, 3⟩, .space 1⟩, ⟨⟨3, 5⟩, .word⟩, ⟨⟨5, 7⟩, .space 2⟩, ⟨⟨7, 11⟩, .word⟩, ⟨⟨11, 12⟩, .space 1⟩,
    ⟨⟨12, 15⟩, .word⟩, ⟨⟨15, 16⟩, .punct .Period⟩]

example : exactPhraseOf env0 phIntact.1 phIntact.2 =
    some (.seq (.cons (.leaf (.anyCap ['i', 'n'])) (.cons (.leaf .whitespace) (.cons (.leaf (.anyCap ['t', 'a', 'c', 't'])) .nil)))) := by
  rfl

/-- the hypotheses of `matches_safe_real` hold of it, and the pattern matches `In  tact` (three tokens) at token 2 -/
example : InText srcIntact toksIntact := by
  intro t ht
  simp only [toksIntact, List.mem_cons, List.mem_nil_iff, or_false] at ht
  rcases ht with rfl | rfl | rfl | rfl | rfl | rfl | rfl | rfl <;> exact ⟨by decide, by decide⟩

example : ((exactPhraseOf env0 phIntact.1 phIntact.2).map fun p => p.matcher env0 srcIntact (toksIntact.drop 2)) = some (.ok 3) := by
  decide

/-- a tree that uses every combinator over real leaves: plain, hence safe -/
def sampleTree : RPat :=
  .seq (.cons (.leaf (.wordSet [['w', 'e'], ['i']])) (.cons (.leaf .whitespace)
    (.cons (.either (.cons (.rep (.leaf (.kind .word false)) 1) (.cons (.first (.cons (.leaf (.exactWord ['I', 'n'])) .nil)) .nil)))
      (.cons (.all (.cons (.invert (.leaf (.anyCap ['x']))) (.cons (.leaf .any) .nil)))
        (.cons (.wordGroup (.cons ['t', 'a', 'c', 't'] (.consumes (.rep (.leaf .any) 0)) .nil)) .nil)))))

example : sampleTree.plain = true := by decide
example : sampleTree.matcher env0 srcIntact toksIntact = .ok 8 := by decide

/-! ## non-vacuity, continued (w22 audit): every hypothesis-carrying theorem of this file at a concrete, non-trivial value

(the values `srcIntact`, `toksIntact` are defined above, so these stand here and not next to their theorems) -/

/-- `InText srcIntact toksIntact`, by name (the `example` above cannot be referred to) -/
theorem inText_intact : InText srcIntact toksIntact := by
  intro t ht
  simp only [toksIntact, List.mem_cons, List.mem_nil_iff, or_false] at ht
  rcases ht with rfl | rfl | rfl | rfl | rfl | rfl | rfl | rfl <;> exact ⟨by decide, by decide⟩

/-- non-vacuity of `anyCapitalization_contract`, `wordSet_contract`, `leaf_contract`: the hypothesis `… = .ok n` with `n ≠ 0` -/
example : anyCapAtom ['i', 'n'] srcIntact (toksIntact.drop 2) = .ok 1 ∧
    wordSetAtom [['w', 'e'], ['i']] srcIntact toksIntact = .ok 1 ∧
    (Leaf.exactWord ['I', 'n']).matcher env0 srcIntact (toksIntact.drop 2) = .ok 1 := by decide

/-- non-vacuity of `withinEditDistance_contract`, `similarToPhrase_contract`: `Im` is within distance 1 of `In`; the fuzzy
sequence matches three tokens where the exact one matches none -/
example : withinEditAtom env0 ['i', 'm'] 1 srcIntact (toksIntact.drop 2) = .ok 1 ∧
    (RPat.similar (.seq (.cons (.leaf (.anyCap ['i', 'm'])) (.cons (.leaf .whitespace) (.cons (.leaf (.anyCap ['t', 'a', 'c', 't'])) .nil))))
      (.seq (.cons (.leaf (.withinEdit ['i', 'm'] 1)) (.cons (.leaf .whitespace) (.cons (.leaf (.withinEdit ['t', 'a', 'c', 't'] 1)) .nil))))).matcher
      env0 srcIntact (toksIntact.drop 2) = .ok 3 := by decide

/-- non-vacuity of `nominalPhrase_contract`, `impliesQuantity_contract`: with `We` a determiner and every other word a
nominal, `We In` is a nominal phrase of three tokens and `We` implies a quantity -/
example : nominalPhraseAtom { env0 with wordFlags := fun w => if w = ['W', 'e'] then 32784 else 32832 } srcIntact toksIntact = .ok 3 ∧
    impliesQuantityAtom { env0 with wordFlags := fun w => if w = ['W', 'e'] then 32784 else 32832 } srcIntact toksIntact = .ok 1 := by
  decide

/-- non-vacuity of `leaf_total`: a plain leaf on the in-text tokens of `We In  tact now.` -/
example : ∃ n, (Leaf.anyCap ['w', 'e']).matcher env0 srcIntact toksIntact = .ok n ∧ n ≤ toksIntact.length :=
  leaf_total env0 (.anyCap ['w', 'e']) rfl srcIntact toksIntact inText_intact

/-- non-vacuity of `withinEditDistance_total`: its three hypotheses together, and the theorem applied -/
example : ∃ n, withinEditAtom env0 ['i', 'm'] 1 srcIntact toksIntact = .ok n ∧ n ≤ toksIntact.length :=
  withinEditDistance_total env0 ['i', 'm'] 1 (by decide) srcIntact toksIntact inText_intact (by unfold ShortWords; decide)

/-- non-vacuity of `withinEditDistance_panics_long`, applied: a word token of 256 letters meets its three hypotheses -/
example : withinEditAtom env0 ['a'] 1 (List.replicate 256 'a') [⟨⟨0, 256⟩, .word⟩] = .error .assertFail := by
  have h : ∀ n, (toLowerCow env0 (textOf (List.replicate n 'a') ⟨0, n⟩)).length = n := by
    intro n
    simp [textOf, toLowerCow, env0]
  refine withinEditDistance_panics_long env0 _ _ _ _ [] rfl ⟨Nat.zero_le _, ?_⟩ ?_
  · show 256 ≤ (List.replicate 256 'a').length
    rw [List.length_replicate]; exact Nat.le_refl _
  · show 255 < (toLowerCow env0 (textOf (List.replicate 256 'a') ⟨0, 256⟩)).length
    rw [h]; decide

/-- non-vacuity of `matches_safe_real` and `runOnChunk_safe_real`, applied: `sampleTree` (plain) with `MapPhraseLinter`'s
`match_to_lint`, which is total on in-text slices (`mapPhraseMatch_ok`) -/
example : ∃ ls, runOnChunkGo (sampleTree.matcher env0) (mapPhraseMatch env0 [['x']]) srcIntact 0 toksIntact = .ok ls ∧
    ∀ x ∈ ls, LintOK srcIntact.length x :=
  runOnChunk_safe_real env0 sampleTree (by decide) _ srcIntact
    (fun l _ hl => mapPhraseMatch_ok env0 [['x']] srcIntact l hl) toksIntact inText_intact

/-- … and what it computes: one lint over the whole of `We In  tact now.` -/
example : runOnChunkGo (sampleTree.matcher env0) (mapPhraseMatch env0 [['x']]) srcIntact 0 toksIntact =
    .ok [⟨⟨0, 16⟩, [.replaceWith ['X']], 13, 0⟩] := by decide

/-- non-vacuity of `exactPhrases_plain`: `MapPhraseLinter::new_exact_phrases(["in tact"])` -/
example : exactPhrasesOf env0 [phIntact] =
    some (.either (.cons (.seq (.cons (.leaf (.anyCap ['i', 'n'])) (.cons (.leaf .whitespace) (.cons (.leaf (.anyCap ['t', 'a', 'c', 't'])) .nil)))) .nil)) := by
  rfl

/-- **non-vacuity of `matches_safe_real_full`, `matches_safe_real_side`, `splitCompoundWord_total`, `isNotTitleCase_total`,
`runOnChunk_safe_real_full`** — `DictOK`, `CanonOK`, `WordsShort`, `Ord`, `ShortWords` TOGETHER and none of them trivially:
a dictionary that knows `Intact` (a noun) and the proper noun `tact` (canonical form `Tact`); a tree with all three demanding
patterns — `SplitCompoundWord`, `IsNotTitleCase` around the phrase `in tact`, `SimilarToPhrase` of `im tact` — and the tiling
tokens of `We In  tact now.`; each of the three branches matches the three tokens `In  tact`, and `run_on_chunk` reports them.
(`C12.env0`, used above, knows no word: there `DictOK` and `CanonOK` hold for want of any entry.) -/
theorem full_witness : ∃ (env : Env) (p : RPat) (src : List Char) (toks : List Tok),
    DictOK env ∧ CanonOK env ∧ WordsShort env p ∧ Rules.Ord src.length toks ∧ ShortWords env src toks ∧ Tiles toks 0 src.length ∧
    p.plain = false ∧
    (RPat.leaf (.splitCompound 8)).matcher env src (toks.drop 2) = .ok 3 ∧
    (RPat.notTitleCase (.seq (.cons (.leaf (.anyCap ['i', 'n'])) (.cons (.leaf .whitespace) (.cons (.leaf (.anyCap ['t', 'a', 'c', 't'])) .nil))))).matcher
      env src (toks.drop 2) = .ok 3 ∧
    p.matcher env src (toks.drop 2) = .ok 3 ∧ p.matcher env src toks = .ok 0 ∧
    runOnChunkGo (p.matcher env) (mapPhraseMatch env [['i', 'n', 't', 'a', 'c', 't']]) src 0 toks =
      .ok [⟨⟨3, 11⟩, [.replaceWith ['I', 'n', 't', 'a', 'c', 't']], 13, 0⟩] := by
  refine ⟨{ env0 with
      wordFlags := fun w => if w = ['I', 'n', 't', 'a', 'c', 't'] then 33024 else if w = ['t', 'a', 'c', 't'] then 32800 else 0
      canonical := fun w => if w = ['I', 'n', 't', 'a', 'c', 't'] then some ['I', 'n', 't', 'a', 'c', 't']
        else if w = ['t', 'a', 'c', 't'] then some ['T', 'a', 'c', 't'] else none },
    .either (.cons (.leaf (.splitCompound 8))
      (.cons (.notTitleCase (.seq (.cons (.leaf (.anyCap ['i', 'n'])) (.cons (.leaf .whitespace) (.cons (.leaf (.anyCap ['t', 'a', 'c', 't'])) .nil)))))
      (.cons (.similar (.seq (.cons (.leaf (.anyCap ['i', 'm'])) (.cons (.leaf .whitespace) (.cons (.leaf (.anyCap ['t', 'a', 'c', 't'])) .nil))))
        (.seq (.cons (.leaf (.withinEdit ['i', 'm'] 1)) (.cons (.leaf .whitespace) (.cons (.leaf (.withinEdit ['t', 'a', 'c', 't'] 1)) .nil))))) .nil))),
    srcIntact, toksIntact, ?_, ?_, ?_, ?_, ?_, ?_, ?_, ?_, ?_, ?_, ?_, ?_⟩
  · intro w h
    dsimp only at h ⊢
    split
    · simp
    · split
      · simp
      · rename_i h1 h2; simp [h1, h2] at h; revert h; decide
  · intro w c h
    dsimp only at h
    split at h
    · cases h; subst_vars; decide
    · split at h
      · cases h; subst_vars; decide
      · cases h
  · simp only [WordsShort, WordsShortL, Leaf.wordsShort, and_true, true_and]
    decide
  · unfold Rules.Ord; decide
  · unfold ShortWords; decide
  all_goals decide

/-- the five theorems applied to that value: their hypotheses are exactly what `full_witness` provides -/
example : ∃ (env : Env) (p : RPat) (src : List Char) (toks : List Tok), p.plain = false ∧
    (∃ n, p.matcher env src toks = .ok n ∧ n ≤ toks.length) ∧
    (∃ n, splitCompoundAtom env 8 src toks = .ok n ∧ n ≤ toks.length) ∧
    (∃ n, (RPat.notTitleCase (.leaf .any)).matcher env src toks = .ok n ∧ n ≤ toks.length) ∧
    (∃ ls, runOnChunkGo (p.matcher env) (mapPhraseMatch env [['x']]) src 0 toks = .ok ls ∧ ∀ x ∈ ls, LintOK src.length x) := by
  obtain ⟨env, p, src, toks, hd, hc, hw, ho, hs, _, hp, _⟩ := full_witness
  exact ⟨env, p, src, toks, hp,
    matches_safe_real_side (orderedShort_hyp env) env p (side_full env hd hc p hw) src toks ⟨ho, hs⟩,
    splitCompoundWord_total env 8 hd src toks (inOrder_hyp.inb src toks ho),
    isNotTitleCase_total env hc (.leaf .any) rfl src toks ho,
    runOnChunk_safe_real_full env hd hc p hw _ src
      (fun l _ hl => mapPhraseMatch_ok env [['x']] src l ((orderedShort_hyp env).inb src l hl)) toks ho hs⟩

example : ∃ (env : Env) (p : RPat) (src : List Char) (toks : List Tok) (n : Nat), p.plain = false ∧
    p.matcher env src toks = .ok n ∧ n ≤ toks.length := by
  obtain ⟨env, p, src, toks, hd, hc, hw, ho, hs, _, hp, _⟩ := full_witness
  obtain ⟨n, h1, h2⟩ := matches_safe_real_full env hd hc p hw src toks ho hs
  exact ⟨env, p, src, toks, n, hp, h1, h2⟩

end Harper.C01
