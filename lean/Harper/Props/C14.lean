import Harper.Lemmas.Ignore
/-!
# C14 — ignoring hides that lint, only that lint, and keeps hiding it

Property theorems only; helper lemmas and the witness data are in `Harper/Lemmas/Ignore.lean`.
The model (`Harper/Model/Ignore.lean`) is `LintContext::from_lint` / `IgnoredLints` as written,
over the real tokens of the real document; the 64-bit hash is abstracted to the context itself
(injectivity on the contexts seen is a monitor of the harness).
-/
namespace Harper.C14
open Harper.Ignore

/-- After the user ignores lint `l` in document `toks`, `remove_ignored` on the lints of the same
document no longer contains `l` — nor any lint with `l`'s context. -/
theorem ignored_is_removed (s : IgnoreSet) (l : LintM) (toks : List Tok) (lints : List LintM) :
    l ∉ removeIgnored (ignoreLint s l toks) lints toks ∧
    ∀ l' ∈ removeIgnored (ignoreLint s l toks) lints toks, contextOf l' toks ≠ contextOf l toks := by
  rw [removeIgnored_eq_filter]
  have key : ∀ l', contextOf l' toks = contextOf l toks →
      l' ∉ lints.filter (fun x => !isIgnored (ignoreLint s l toks) x toks) := by
    intro l' hc hm
    have := (List.mem_filter.mp hm).2
    simp [isIgnored, ignoreLint, hc] at this
    exact this (mem_insertCtx.mpr (Or.inr rfl))
  exact ⟨key l rfl, fun l' hm hc => key l' hc hm⟩

/-- Ignoring further lints (of any document) never brings an ignored lint back. -/
theorem ignored_stays_ignored (s : IgnoreSet) (l l₂ : LintM) (toks toks₂ : List Tok)
    (h : isIgnored s l toks = true) : isIgnored (ignoreLint s l₂ toks₂) l toks = true := by
  unfold isIgnored ignoreLint at *
  rw [contains_insertCtx, h]; rfl

/-- non-vacuity of ignored_stays_ignored: `x y`, lint `a` on `x` ignored, then lint `b` on `y`
(another context: the set grows to two entries); `a` is still ignored -/
example :
    let toks : List Tok := [⟨[0,0],[120],0,1⟩, ⟨[4,1],[32],1,2⟩, ⟨[0,0],[121],2,3⟩]
    let a : LintM := ⟨0, 0, 1, 0, [], [1], 63⟩
    let b : LintM := ⟨1, 2, 3, 0, [], [2], 63⟩
    let s := ignoreLint [] a toks
    isIgnored s a toks = true ∧ isIgnored s b toks = false ∧
    isIgnored (ignoreLint s b toks) a toks = true ∧ (ignoreLint s b toks).length = 2 := by decide

/-- Only that lint: `remove_ignored` returns a sub-list (order preserved) which keeps every lint
whose context differs from every ignored context. -/
theorem different_context_kept (s : IgnoreSet) (lints : List LintM) (toks : List Tok) :
    (removeIgnored s lints toks).Sublist lints ∧
    ∀ l ∈ lints, (∀ c ∈ s, contextOf l toks ≠ c) → l ∈ removeIgnored s lints toks := by
  rw [removeIgnored_eq_filter]
  refine ⟨List.filter_sublist, ?_⟩
  intro l hl hne
  refine List.mem_filter.mpr ⟨hl, ?_⟩
  have : ¬ contextOf l toks ∈ s := fun hm => hne _ hm rfl
  simp [isIgnored, this]

/-- non-vacuity of different_context_kept: a non-empty set, a lint whose context differs from every
stored one (it differs in the message only) and is kept, next to one that is removed -/
example :
    let toks : List Tok := [⟨[0,0],[120],0,1⟩, ⟨[4,1],[32],1,2⟩, ⟨[0,0],[120],2,3⟩]
    let a : LintM := ⟨0, 0, 1, 0, [], [1], 63⟩
    let b : LintM := ⟨1, 0, 1, 0, [], [2], 63⟩
    let s := ignoreLint [] a toks
    s ≠ [] ∧ (∀ c ∈ s, contextOf b toks ≠ c) ∧ b ∈ removeIgnored s [a, b] toks ∧
    a ∉ removeIgnored s [a, b] toks := by decide

/-- Exactly: the lints that remain are those whose context is not in the set. -/
theorem removeIgnored_exact (s : IgnoreSet) (lints : List LintM) (toks : List Tok) :
    removeIgnored s lints toks = lints.filter (fun l => decide (contextOf l toks ∉ s)) := by
  rw [removeIgnored_eq_filter]
  congr 1
  funext l
  simp [isIgnored]

/-- a context differs iff kind, suggestions, message, priority or one of the window tokens does -/
theorem context_eq_iff (l l' : LintM) (toks toks' : List Tok) :
    contextOf l' toks' = contextOf l toks ↔
      l'.kind = l.kind ∧ l'.suggestions = l.suggestions ∧ l'.message = l.message ∧
      l'.priority = l.priority ∧
      prequel toks' l' ++ problem toks' l' ++ sequel toks' l' =
        prequel toks l ++ problem toks l ++ sequel toks l := by
  unfold contextOf
  constructor
  · intro h; injection h with h1 h2 h3 h4 h5; exact ⟨h1, h2, h3, h4, h5⟩
  · rintro ⟨h1, h2, h3, h4, h5⟩; simp [h1, h2, h3, h4, h5]

/-- Clause 2 in the property's own words, for the SAME document: a lint that was reported and
differs from the ignored lint `l` in kind, suggestions, message, priority or in a token of its
windows is still reported after `l` is ignored. -/
theorem differing_lint_still_reported (s : IgnoreSet) (l l' : LintM) (toks : List Tok)
    (lints : List LintM) (hm : l' ∈ removeIgnored s lints toks)
    (hd : l'.kind ≠ l.kind ∨ l'.suggestions ≠ l.suggestions ∨ l'.message ≠ l.message ∨
      l'.priority ≠ l.priority ∨
      prequel toks l' ++ problem toks l' ++ sequel toks l' ≠
        prequel toks l ++ problem toks l ++ sequel toks l) :
    l' ∈ removeIgnored (ignoreLint s l toks) lints toks := by
  have hne : contextOf l' toks ≠ contextOf l toks := by
    intro h
    obtain ⟨h1, h2, h3, h4, h5⟩ := (context_eq_iff l l' toks toks).mp h
    rcases hd with hd | hd | hd | hd | hd
    · exact hd h1
    · exact hd h2
    · exact hd h3
    · exact hd h4
    · exact hd h5
  rw [removeIgnored_exact] at hm ⊢
  obtain ⟨hl, hc⟩ := List.mem_filter.mp hm
  refine List.mem_filter.mpr ⟨hl, ?_⟩
  have hc' : contextOf l' toks ∉ s := by simpa using hc
  have : contextOf l' toks ∉ ignoreLint s l toks := by
    unfold ignoreLint
    rw [mem_insertCtx]
    rintro (h | h)
    · exact hc' h
    · exact hne h
  simpa using this

/-- non-vacuity of differing_lint_still_reported: a non-empty set already hides `c`; `b` (other
message) and `d` (other token after it) are reported, and stay reported when `a` is ignored -/
example :
    let toks : List Tok := [⟨[0,0],[120],0,1⟩, ⟨[4,1],[32],1,2⟩, ⟨[0,0],[120],2,3⟩, ⟨[1,4],[46],3,4⟩]
    let a : LintM := ⟨0, 0, 1, 0, [], [1], 63⟩
    let b : LintM := ⟨1, 0, 1, 0, [], [2], 63⟩
    let c : LintM := ⟨2, 0, 1, 5, [], [3], 63⟩
    let d : LintM := ⟨3, 2, 3, 0, [], [1], 63⟩
    let s := ignoreLint [] c toks
    removeIgnored s [a, b, c, d] toks = [a, b, d] ∧ b.message ≠ a.message ∧
    prequel toks d ++ problem toks d ++ sequel toks d ≠ prequel toks a ++ problem toks a ++ sequel toks a ∧
    removeIgnored (ignoreLint s a toks) [a, b, c, d] toks = [b, d] := by decide

/-- "That lint and only that lint", as one equation: ignoring `l` removes from the result exactly
the lints with `l`'s context — same order, nothing added, nothing else removed. -/
theorem ignore_removes_exactly (s : IgnoreSet) (l : LintM) (toks : List Tok) (lints : List LintM) :
    removeIgnored (ignoreLint s l toks) lints toks
      = (removeIgnored s lints toks).filter (fun l' => decide (contextOf l' toks ≠ contextOf l toks)) := by
  rw [removeIgnored_exact, removeIgnored_exact, List.filter_filter]
  apply List.filter_congr
  intro x _
  unfold ignoreLint
  by_cases h1 : contextOf x toks = contextOf l toks <;> by_cases h2 : contextOf x toks ∈ s <;>
    simp [mem_insertCtx, h1, h2]

/-- The ignore list survives export/import: the re-imported list hides exactly the same lints. -/
theorem export_import_id (s : IgnoreSet) (lints : List LintM) (toks : List Tok) :
    removeIgnored (importL (exportL s)) lints toks = removeIgnored s lints toks ∧
    ∀ l, isIgnored (importL (exportL s)) l toks = isIgnored s l toks := by
  have h : ∀ c, c ∈ importL (exportL s) ↔ c ∈ s := by
    intro c; simp [importL, exportL, mem_foldl_insertCtx]
  exact ⟨removeIgnored_congr h lints toks, fun l => isIgnored_congr h l toks⟩

/-- … and is the very same list when it has no duplicate entries, which every list built by
`ignore_lint` / `append` / import has (`reachable_nodup`). -/
theorem export_import_eq (s : IgnoreSet) (h : s.Nodup) : importL (exportL s) = s := by
  have := foldl_insertCtx_nodup s [] (by simpa using h)
  simpa [importL, exportL] using this

theorem reachable_nodup :
    (∀ (s : IgnoreSet) l toks, s.Nodup → (ignoreLint s l toks).Nodup) ∧
    (∀ (s o : IgnoreSet), s.Nodup → (Ignore.append s o).Nodup) ∧
    (∀ l : List Context, (importL l).Nodup) :=
  ⟨fun _ _ _ h => nodup_insertCtx h _, fun _ o h => nodup_foldl_insertCtx o h,
   fun l => nodup_foldl_insertCtx l List.nodup_nil⟩

/-- `append` hides what either list hid. -/
theorem append_ignored (s o : IgnoreSet) (l : LintM) (toks : List Tok) :
    isIgnored (Ignore.append s o) l toks = (isIgnored s l toks || isIgnored o l toks) := by
  unfold isIgnored Ignore.append
  rw [Bool.eq_iff_iff]
  simp [mem_foldl_insertCtx]

/-- Stability, the part that is true: if an edit leaves the fat tokens of the three windows
unchanged — same payloads (characters *and* full token kind) in the same order — the context is
unchanged and the lint stays ignored (or stays reported).
**Partial**: "same payload" is more than the property's "untouched": a quotation mark's payload
holds `twin_loc`, a document-wide token index (`quote_breaks_stability`). -/
theorem stable_under_edit_partial (s : IgnoreSet) (l l' : LintM) (toks toks' : List Tok)
    (hk : l'.kind = l.kind) (hs : l'.suggestions = l.suggestions) (hm : l'.message = l.message)
    (hp : l'.priority = l.priority)
    (h1 : prequel toks' l' = prequel toks l) (h2 : problem toks' l' = problem toks l)
    (h3 : sequel toks' l' = sequel toks l) :
    contextOf l' toks' = contextOf l toks ∧ isIgnored s l' toks' = isIgnored s l toks := by
  have : contextOf l' toks' = contextOf l toks :=
    (context_eq_iff l l' toks toks').mpr ⟨hk, hs, hm, hp, by rw [h1, h2, h3]⟩
  exact ⟨this, by unfold isIgnored; rw [this]⟩

/-- non-vacuity of stable_under_edit_partial: `a problm in` → `Oh. a problm in.` (text before AND
after; every offset moves by 4, the lint gets another id); all seven hypotheses hold together and
the theorem yields that the moved lint is still ignored -/
example :
    let toks : List Tok := [⟨[0,1],[97],0,1⟩, ⟨[4,1],[32],1,2⟩, ⟨[0,0],[112,114,111,98,108,109],2,8⟩,
      ⟨[4,1],[32],8,9⟩, ⟨[0,2],[105,110],9,11⟩]
    let toks' : List Tok := [⟨[0,3],[79,104],0,2⟩, ⟨[1,4],[46],2,3⟩, ⟨[4,1],[32],3,4⟩] ++
      toks.map (Tok.shift 4) ++ [⟨[1,4],[46],15,16⟩]
    let l : LintM := ⟨0, 2, 8, 0, [], [63], 63⟩
    let l' : LintM := ⟨3, 6, 12, 0, [], [63], 63⟩
    toks' ≠ toks ∧ l' ≠ l ∧ isIgnored (ignoreLint [] l toks) l' toks' = true := by
  intro toks toks' l l'
  refine ⟨by decide, by decide, ?_⟩
  rw [(stable_under_edit_partial (ignoreLint [] l toks) l l' toks toks' rfl rfl rfl rfl
    (by decide) (by decide) (by decide)).2]
  decide

/-- Prepending text: new tokens before position `d`, every old token moved right by `d` with its
payload as it was. A lint at least two characters into the old text keeps its context.
**Partial**: real payloads of quotation marks do change (`quote_breaks_stability`). -/
theorem stable_under_prepend_partial (d : Nat) (added toks : List Tok) (l : LintM)
    (hl : 2 ≤ l.start) (hadd : ∀ t ∈ added, t.stop ≤ d) :
    contextOf (l.shift d) (added ++ toks.map (Tok.shift d)) = contextOf l toks := by
  have hnone : ∀ a b, fatsIn added (a + d) b = [] := by
    intro a b
    apply fatsIn_none
    intro t ht
    have := hadd t ht
    simp [Tok.overlaps]; omega
  have hw : ∀ a b, fatsIn (added ++ toks.map (Tok.shift d)) (a + d) (b + d) = fatsIn toks a b := by
    intro a b
    rw [fatsIn_append, hnone, fatsIn_shift, List.nil_append]
  apply (context_eq_iff _ _ _ _).mpr
  refine ⟨rfl, rfl, rfl, rfl, ?_⟩
  have e1 : prequel (added ++ toks.map (Tok.shift d)) (l.shift d) = prequel toks l := by
    unfold prequel
    have h1 : ¬ 2 > (l.shift d).start := by simp only [LintM.shift]; omega
    have h2 : ¬ 2 > l.start := by omega
    rw [if_neg h1, if_neg h2]
    have : (l.shift d).start - 2 = (l.start - 2) + d := by simp only [LintM.shift]; omega
    have h3 : (l.shift d).start + 2 - 2 = (l.start + 2 - 2) + d := by simp only [LintM.shift]; omega
    rw [this, h3, hw]
  have e2 : problem (added ++ toks.map (Tok.shift d)) (l.shift d) = problem toks l := by
    unfold problem; exact hw _ _
  have e3 : sequel (added ++ toks.map (Tok.shift d)) (l.shift d) = sequel toks l := by
    unfold sequel
    have h1 : (l.shift d).start + 2 = (l.start + 2) + d := by simp only [LintM.shift]; omega
    have h2 : (l.shift d).start + 2 + 2 = (l.start + 2 + 2) + d := by simp only [LintM.shift]; omega
    rw [h2, h1, hw]
  rw [e1, e2, e3]

/-- Appending text: new tokens at or after position `n`, beyond all three windows. -/
theorem stable_under_append_partial (n : Nat) (added toks : List Tok) (l : LintM)
    (hadd : ∀ t ∈ added, n ≤ t.start) (h4 : l.start + 4 ≤ n) (he : l.stop ≤ n) :
    contextOf l (toks ++ added) = contextOf l toks := by
  have hnone : ∀ a b, b ≤ n → fatsIn added a b = [] := by
    intro a b hb
    apply fatsIn_none
    intro t ht
    have := hadd t ht
    simp [Tok.overlaps]; omega
  apply (context_eq_iff _ _ _ _).mpr
  refine ⟨rfl, rfl, rfl, rfl, ?_⟩
  have e1 : prequel (toks ++ added) l = prequel toks l := by
    unfold prequel
    split
    · rfl
    · rw [fatsIn_append, hnone _ _ (by omega)]; simp
  have e2 : problem (toks ++ added) l = problem toks l := by
    unfold problem; rw [fatsIn_append, hnone _ _ he]; simp
  have e3 : sequel (toks ++ added) l = sequel toks l := by
    unfold sequel; rw [fatsIn_append, hnone _ _ (by omega)]; simp
  rw [e1, e2, e3]

/-- non-vacuity of stable_under_append_partial: `a problm in` + ` it.` appended at 11; the three
hypotheses hold together (the context has four tokens) -/
example :
    let toks : List Tok := [⟨[0,1],[97],0,1⟩, ⟨[4,1],[32],1,2⟩, ⟨[0,0],[112,114,111,98,108,109],2,8⟩,
      ⟨[4,1],[32],8,9⟩, ⟨[0,2],[105,110],9,11⟩]
    let added : List Tok := [⟨[4,1],[32],11,12⟩, ⟨[0,3],[105,116],12,14⟩, ⟨[1,4],[46],14,15⟩]
    let l : LintM := ⟨0, 2, 8, 0, [], [63], 63⟩
    (∀ t ∈ added, 11 ≤ t.start) ∧ l.start + 4 ≤ 11 ∧ l.stop ≤ 11 ∧
    contextOf l (toks ++ added) = contextOf l toks ∧ (contextOf l toks).tokens.length = 4 := by
  intro toks added l
  have h1 : ∀ t ∈ added, 11 ≤ t.start := by decide
  have h2 : l.start + 4 ≤ 11 := by decide
  have h3 : l.stop ≤ 11 := by decide
  exact ⟨h1, h2, h3, stable_under_append_partial 11 added toks l h1 h2 h3, by decide⟩

/-- The FULL stability clause — an ignored lint stays ignored whenever the flagged text and the
tokens of its windows are untouched — is **false of the code**: a quotation mark's `twin_loc` is
an index into the whole document's token vector and is part of the hashed context. Witness (real
tokens, as encoded by the harness): `Well, "Ths" is bad.`, ignore the spelling lint on `Ths`,
prepend `Hello there. ` — five new tokens, so the quotes' `twin_loc` go from 5/3 to 10/8 — and
the ignored lint is reported again. Recorded finding `c14-quote-twin-loc`. -/
theorem quote_breaks_stability :
    ¬ (∀ (s : IgnoreSet) (toks toks' : List Tok) (l l' : LintM), Untouched toks toks' l l' →
        isIgnored s l toks = true → isIgnored s l' toks' = true) := by
  intro h
  have hu : Untouched toksW toksW' lintW lintW' := by decide
  have h1 : isIgnored (ignoreLint [] lintW toksW) lintW toksW = true := by decide
  have h2 : isIgnored (ignoreLint [] lintW toksW) lintW' toksW' = false := by decide
  have := h _ _ _ _ _ hu h1
  rw [h2] at this
  exact Bool.false_ne_true this

/-- Read literally — "as long as the flagged text and the tokens within two characters of it are
untouched" — the stability clause fails a second way: the after-window is
`with_len(2).pushed_by(2)` = `[s+2,s+4)`, counted from the START of the lint. For a one-character
lint it reaches the third character after the flagged text. Witness (real tokens): `more than 4$.`,
ignore the "spell out numbers" lint on `4`, append ` Thanks.`: `$` and `.` are untouched, the new
space lands in `[s+2,s+4)`, and the lint is reported again. Recorded finding
`c14-after-window-from-start`. -/
theorem after_window_breaks_stability :
    ¬ (∀ (s : IgnoreSet) (toks toks' : List Tok) (l l' : LintM), UntouchedLiteral toks toks' l l' →
        NoQuote toks l → NoQuote toks' l' →
        isIgnored s l toks = true → isIgnored s l' toks' = true) := by
  intro h
  have hu : UntouchedLiteral toksA (toksA ++ addedA) lintA lintA := by decide
  have hq : NoQuote toksA lintA := by decide
  have hq' : NoQuote (toksA ++ addedA) lintA := by decide
  have h1 : isIgnored (ignoreLint [] lintA toksA) lintA toksA = true := by decide
  have h2 : isIgnored (ignoreLint [] lintA toksA) lintA (toksA ++ addedA) = false := by decide
  have := h _ _ _ _ _ hu hq hq' h1
  rw [h2] at this
  exact Bool.false_ne_true this

/-- the same witness against `stable_under_append_partial`: its hypothesis `l.start + 4 ≤ n` is
what fails (10 + 4 > 13), although the lint ends two characters before the end of the text -/
example : lintA.stop + 2 ≤ 13 ∧ ¬ (lintA.start + 4 ≤ 13) ∧ (∀ t ∈ addedA, 13 ≤ t.start) ∧
    sequel toksA lintA = [⟨[46],[1,5]⟩] ∧
    sequel (toksA ++ addedA) lintA = [⟨[46],[1,5]⟩, ⟨[32],[4,1]⟩] := by decide

/-- a lint longer than two characters has nothing after it in its context: the after-window lies
inside the lint (`a problm in` / `a problm of`: the two spelling lints share one context) -/
example :
    let t1 : List Tok := [⟨[0,1],[97],0,1⟩, ⟨[4,1],[32],1,2⟩, ⟨[0,0],[112,114,111,98,108,109],2,8⟩,
      ⟨[4,1],[32],8,9⟩, ⟨[0,2],[105,110],9,11⟩]
    let t2 : List Tok := [⟨[0,1],[97],0,1⟩, ⟨[4,1],[32],1,2⟩, ⟨[0,0],[112,114,111,98,108,109],2,8⟩,
      ⟨[4,1],[32],8,9⟩, ⟨[0,3],[111,102],9,11⟩]
    let l : LintM := ⟨0, 2, 8, 0, [], [63], 63⟩
    contextOf l t1 = contextOf l t2 ∧ fatsIn t1 l.stop (l.stop + 2) ≠ fatsIn t2 l.stop (l.stop + 2) := by
  decide

/-- The same inside ONE document, as a kernel-checked negation of clause 2 read literally ("every
lint that differs in … surrounding words is still reported", the surrounding words being the tokens
within two characters AFTER the lint): `a problm in a problm of`, ignore the first spelling lint —
the second, followed by another word, is hidden with it (DESIGN §7 row 30, second half). -/
theorem following_word_not_in_context :
    ¬ (∀ (toks : List Tok) (l l' : LintM) (lints : List LintM), l' ∈ lints →
        fatsIn toks l'.stop (l'.stop + 2) ≠ fatsIn toks l.stop (l.stop + 2) →
        l' ∈ removeIgnored (ignoreLint [] l toks) lints toks) := by
  intro h
  let toks : List Tok := [⟨[0,1],[97],0,1⟩, ⟨[4,1],[32],1,2⟩, ⟨[0,0],[112,114,111,98,108,109],2,8⟩,
    ⟨[4,1],[32],8,9⟩, ⟨[0,2],[105,110],9,11⟩, ⟨[4,1],[32],11,12⟩, ⟨[0,1],[97],12,13⟩,
    ⟨[4,1],[32],13,14⟩, ⟨[0,0],[112,114,111,98,108,109],14,20⟩, ⟨[4,1],[32],20,21⟩,
    ⟨[0,3],[111,102],21,23⟩]
  let l : LintM := ⟨0, 2, 8, 0, [], [63], 63⟩
  let l' : LintM := ⟨1, 14, 20, 0, [], [63], 63⟩
  have := h toks l l' [l, l'] (by decide) (by decide)
  revert this
  decide

/-- With no quotation mark in the windows, "untouched" is "same payload": the full clause holds.
(Stated for the harness's encoding, where only quotes carry a document-wide index.) -/
theorem stable_without_quotes (s : IgnoreSet) (toks toks' : List Tok) (l l' : LintM)
    (hu : Untouched toks toks' l l') (hq : NoQuote toks l) (hq' : NoQuote toks' l') :
    isIgnored s l' toks' = isIgnored s l toks := by
  obtain ⟨hk, hs, hm, hp, h1, h2, h3⟩ := hu
  have hall : (prequel toks' l' ++ problem toks' l' ++ sequel toks' l').map Fat.eraseTwin =
      (prequel toks l ++ problem toks l ++ sequel toks l).map Fat.eraseTwin := by
    simp only [List.map_append, h1, h2, h3]
  have hid : ∀ (fs : List Fat), (∀ f ∈ fs, f.isQuote = false) → fs.map Fat.eraseTwin = fs := by
    intro fs hfs
    induction fs with
    | nil => rfl
    | cons f fs ih =>
      have hf := hfs f List.mem_cons_self
      have : f.eraseTwin = f := by
        unfold Fat.eraseTwin; unfold Fat.isQuote at hf
        split
        · rename_i hk; rw [hk] at hf; simp at hf
        · rfl
      rw [List.map_cons, this, ih (fun g hg => hfs g (List.mem_cons_of_mem _ hg))]
  rw [hid _ hq', hid _ hq] at hall
  have : contextOf l' toks' = contextOf l toks :=
    (context_eq_iff l l' toks toks').mpr ⟨hk, hs, hm, hp, hall⟩
  unfold isIgnored; rw [this]

/-- non-vacuity of stable_without_quotes: all three hypotheses together on `a problm in` →
`Oh. a problm in` (offsets move by 4), and the theorem's conclusion used -/
example :
    let toks : List Tok := [⟨[0,1],[97],0,1⟩, ⟨[4,1],[32],1,2⟩, ⟨[0,0],[112,114,111,98,108,109],2,8⟩,
      ⟨[4,1],[32],8,9⟩, ⟨[0,2],[105,110],9,11⟩]
    let toks' : List Tok := [⟨[0,3],[79,104],0,2⟩, ⟨[1,4],[46],2,3⟩, ⟨[4,1],[32],3,4⟩] ++
      toks.map (Tok.shift 4)
    let l : LintM := ⟨0, 2, 8, 0, [], [63], 63⟩
    Untouched toks toks' l (l.shift 4) ∧ NoQuote toks l ∧ NoQuote toks' (l.shift 4) ∧
    isIgnored (ignoreLint [] l toks) (l.shift 4) toks' = true := by
  intro toks toks' l
  have hu : Untouched toks toks' l (l.shift 4) := by decide
  have hq : NoQuote toks l := by decide
  have hq' : NoQuote toks' (l.shift 4) := by decide
  refine ⟨hu, hq, hq', ?_⟩
  rw [stable_without_quotes (ignoreLint [] l toks) toks toks' l (l.shift 4) hu hq hq']
  decide

/-! ### Non-vacuity and witnesses (concrete, kernel-evaluated) -/

/-- the witness's contexts differ only in the quotes' `twin_loc` -/
example : contextOf lintW' toksW' ≠ contextOf lintW toksW ∧
    (contextOf lintW' toksW').tokens.map Fat.eraseTwin = (contextOf lintW toksW).tokens.map Fat.eraseTwin := by
  decide

/-- the windows of the witness: `␣ "` before, `Ths`, and `[s+2,s+4)` = `Ths "` after -/
example : (prequel toksW lintW, problem toksW lintW, sequel toksW lintW) =
    ([⟨[32],[4,1]⟩, ⟨[34],[1,0,1,5]⟩], [⟨[84,104,115],[0,0]⟩],
     [⟨[84,104,115],[0,0]⟩, ⟨[34],[1,0,1,3]⟩]) := by decide

/-- the witness is a prepend in the sense of `stable_under_prepend_partial` except for the two
quotes' payloads -/
example : toksW'.drop 5 = (toksW.map (Tok.shift 13)).map
    (fun t => if t.kind = [1,0,1,5] then { t with kind := [1,0,1,10] }
              else if t.kind = [1,0,1,3] then { t with kind := [1,0,1,8] } else t) := by decide

/-- hypotheses of `stable_under_prepend_partial` / `stable_under_edit_partial` on a quote-free
instance: `a problm in` (lint on `problm`), prepend `Oh. ` -/
example :
    let toks : List Tok := [⟨[0,1],[97],0,1⟩, ⟨[4,1],[32],1,2⟩, ⟨[0,0],[112,114,111,98,108,109],2,8⟩,
      ⟨[4,1],[32],8,9⟩, ⟨[0,2],[105,110],9,11⟩]
    let added : List Tok := [⟨[0,3],[79,104],0,2⟩, ⟨[1,4],[46],2,3⟩, ⟨[4,1],[32],3,4⟩]
    let l : LintM := ⟨0, 2, 8, 0, [], [63], 63⟩
    2 ≤ l.start ∧ (∀ t ∈ added, t.stop ≤ 4) ∧
    contextOf (l.shift 4) (added ++ toks.map (Tok.shift 4)) = contextOf l toks ∧
    NoQuote toks l ∧ Untouched toks (added ++ toks.map (Tok.shift 4)) l (l.shift 4) := by decide

/-- a lint within the first two characters has no prequel window at all (`pulled_by` → `None`),
not even the character directly before it -/
example : prequel [⟨[1,0,0],[34],0,1⟩, ⟨[0,0],[84,104,115],1,4⟩] ⟨0, 1, 4, 0, [], [], 63⟩ = [] := by
  decide

/-- ignoring one of two lints with different messages hides only that one; two occurrences with
the same context go together -/
example :
    let toks : List Tok := [⟨[0,0],[120],0,1⟩, ⟨[4,1],[32],1,2⟩, ⟨[0,0],[120],2,3⟩]
    let a : LintM := ⟨0, 0, 1, 0, [], [1], 63⟩
    let b : LintM := ⟨1, 0, 1, 0, [], [2], 63⟩
    let c : LintM := ⟨2, 0, 1, 0, [], [1], 63⟩
    removeIgnored (ignoreLint [] a toks) [a, b, c] toks = [b] := by decide

/-- export/import of a two-entry list -/
example :
    let toks : List Tok := [⟨[0,0],[120],0,1⟩]
    let s := ignoreLint (ignoreLint [] ⟨0, 0, 1, 0, [], [1], 63⟩ toks) ⟨1, 0, 1, 0, [], [2], 63⟩ toks
    s.length = 2 ∧ s.Nodup ∧ importL (exportL s) = s := by decide

end Harper.C14

/-! ## w26-s7 — "only that lint", and its one exception: twins

`IgnoredLints::ignore_lint` stores (the hash of) `LintContext::from_lint(lint, document)`;
`is_ignored` / `remove_ignored` look a lint's own context up. The span is NOT part of the context
(only the tokens of the three windows are), nor is the lint's index. So "only that lint" is, exactly,
"only the lints with that context": lints with another context are never affected
(`ignore_hides_only_that_context`, `ignore_many_hidden_iff`, `ignoreIds_hidden_iff`), lints with the
same context — *twins*, e.g. the same misspelling twice with the same neighbours — always go together
(`twin_context_hidden_together`, `only_that_lint_fails_for_twins`), and twins are the only exception
(`hidden_by_ignore_only_if_twin`). -/

namespace Harper.C14
open Harper.Ignore

/-- The master equation of `ignore_lint` then `is_ignored`, any two documents: after ignoring `l₁`
(of document `toks₁`), `l₂` (of `toks₂`) is hidden iff it was hidden before or has `l₁`'s context. -/
theorem ignore_effect_on_other (s : IgnoreSet) (l₁ l₂ : LintM) (toks₁ toks₂ : List Tok) :
    isIgnored (ignoreLint s l₁ toks₁) l₂ toks₂
      = (isIgnored s l₂ toks₂ || decide (contextOf l₂ toks₂ = contextOf l₁ toks₁)) :=
  isIgnored_ignoreLint s l₁ l₂ toks₁ toks₂

/-- "Only that lint", two-lint form (`ignore_lint` / `is_ignored` / `remove_ignored`): if `l₂`'s
context differs from `l₁`'s, ignoring `l₁` changes nothing for `l₂` — not hidden if it was not,
still hidden if it was; and it is in the filtered result after iff it was before. (The list form —
the result after is the result before minus exactly the lints with `l₁`'s context — is
`ignore_removes_exactly`; the second half here is derived from it.) -/
theorem ignore_hides_only_that_context (s : IgnoreSet) (l₁ l₂ : LintM) (toks : List Tok)
    (lints : List LintM) (hne : contextOf l₂ toks ≠ contextOf l₁ toks) :
    isIgnored (ignoreLint s l₁ toks) l₂ toks = isIgnored s l₂ toks ∧
    (l₂ ∈ removeIgnored (ignoreLint s l₁ toks) lints toks ↔ l₂ ∈ removeIgnored s lints toks) := by
  refine ⟨?_, ?_⟩
  · rw [ignore_effect_on_other]; simp [hne]
  · rw [ignore_removes_exactly, List.mem_filter]; simp [hne]

/-- non-vacuity of ignore_hides_only_that_context, both directions inside ONE document
(`a thier a thier`): `lintT₃` (another rule on the second `thier`: other kind / message) has another
context than `lintT₁`; from the empty set it stays reported, from a set that already hides it it
stays hidden — while the set does grow. -/
example : contextOf lintT₃ toksT ≠ contextOf lintT₁ toksT ∧
    isIgnored [] lintT₃ toksT = false ∧ isIgnored (ignoreLint [] lintT₁ toksT) lintT₃ toksT = false ∧
    lintT₃ ∈ removeIgnored (ignoreLint [] lintT₁ toksT) [lintT₁, lintT₂, lintT₃] toksT ∧
    (let s := ignoreLint [] lintT₃ toksT
     isIgnored s lintT₃ toksT = true ∧ isIgnored (ignoreLint s lintT₁ toksT) lintT₃ toksT = true ∧
     (ignoreLint s lintT₁ toksT).length = 2 ∧
     removeIgnored s [lintT₁, lintT₂, lintT₃] toksT = [lintT₁, lintT₂] ∧
     removeIgnored (ignoreLint s lintT₁ toksT) [lintT₁, lintT₂, lintT₃] toksT = []) := by decide

/-- the same word, the same message, NOT twins: in `teh cat. teh cat.` the first `teh` starts the
document, so `pulled_by(2)` yields no tokens before it, the second has `.␣` before it — ignoring
the first leaves the second reported (and vice versa) -/
example : contextOf lintU₂ toksU ≠ contextOf lintU₁ toksU ∧
    (lintU₂.kind, lintU₂.suggestions, lintU₂.message, lintU₂.priority)
      = (lintU₁.kind, lintU₁.suggestions, lintU₁.message, lintU₁.priority) ∧
    problem toksU lintU₂ = problem toksU lintU₁ ∧ sequel toksU lintU₂ = sequel toksU lintU₁ ∧
    prequel toksU lintU₁ = [] ∧ prequel toksU lintU₂ = [⟨[46],[1,4]⟩, ⟨[32],[4,1]⟩] ∧
    removeIgnored (ignoreLint [] lintU₁ toksU) [lintU₁, lintU₂] toksU = [lintU₂] ∧
    removeIgnored (ignoreLint [] lintU₂ toksU) [lintU₁, lintU₂] toksU = [lintU₁] := by decide

/-- Several `ignore_lint` calls in a row (same document): a lint is hidden afterwards IFF it was
hidden before or its context equals the context of one of the ignored lints. -/
theorem ignore_many_hidden_iff (s : IgnoreSet) (ls : List LintM) (l : LintM) (toks : List Tok) :
    isIgnored (ls.foldl (fun s l' => ignoreLint s l' toks) s) l toks = true ↔
      isIgnored s l toks = true ∨ ∃ l' ∈ ls, contextOf l toks = contextOf l' toks := by
  rw [isIgnored_iff_mem, isIgnored_iff_mem, mem_foldl_ignoreLint]

/-- … and the list form: `remove_ignored` after the calls returns what it returned before minus
exactly the lints that share a context with one of the ignored lints — same order, nothing added,
nothing else removed. -/
theorem ignore_many_removes_exactly (s : IgnoreSet) (ls : List LintM) (toks : List Tok)
    (lints : List LintM) :
    removeIgnored (ls.foldl (fun s l' => ignoreLint s l' toks) s) lints toks
      = (removeIgnored s lints toks).filter
          (fun l => decide (∀ l' ∈ ls, contextOf l toks ≠ contextOf l' toks)) := by
  rw [removeIgnored_exact, removeIgnored_exact, List.filter_filter]
  apply List.filter_congr
  intro x _
  rw [Bool.eq_iff_iff]
  simp only [Bool.and_eq_true, decide_eq_true_eq, mem_foldl_ignoreLint]
  constructor
  · intro h
    exact ⟨fun l' hl' he => h (Or.inr ⟨l', hl', he⟩), fun hs => h (Or.inl hs)⟩
  · rintro ⟨h1, h2⟩ (hs | ⟨l', hl', he⟩)
    · exact h2 hs
    · exact h1 l' hl' he

/-- The same for the model's `ignoreIds` (the driver's "ignore the lints with these indices"): a
lint is hidden afterwards IFF it was hidden before or its context equals the context of a lint
one of the listed ids stands for. -/
theorem ignoreIds_hidden_iff (s : IgnoreSet) (lints : List LintM) (toks : List Tok) (ids : List Nat)
    (l : LintM) :
    isIgnored (ignoreIds s lints toks ids) l toks = true ↔
      isIgnored s l toks = true ∨
      ∃ i ∈ ids, ∃ l', lints.find? (·.id == i) = some l' ∧ contextOf l toks = contextOf l' toks := by
  rw [isIgnored_iff_mem, isIgnored_iff_mem, mem_ignoreIds]
  constructor
  · rintro (h | ⟨l', hl', he⟩)
    · exact Or.inl h
    · obtain ⟨i, hi, hf⟩ := mem_idLints.mp hl'
      exact Or.inr ⟨i, hi, l', hf, he⟩
  · rintro (h | ⟨i, hi, l', hf, he⟩)
    · exact Or.inl h
    · exact Or.inr ⟨l', mem_idLints.mpr ⟨i, hi, hf⟩, he⟩

/-- … list form (`idLints lints ids` = the lints the ids stand for, in the order listed) -/
theorem ignoreIds_removes_exactly (s : IgnoreSet) (lints : List LintM) (toks : List Tok)
    (ids : List Nat) (shown : List LintM) :
    removeIgnored (ignoreIds s lints toks ids) shown toks
      = (removeIgnored s shown toks).filter
          (fun l => decide (∀ l' ∈ idLints lints ids, contextOf l toks ≠ contextOf l' toks)) := by
  rw [ignoreIds_eq_foldl, ignore_many_removes_exactly]

/-- several `ignore_lint` calls are one `IgnoredLints::append` of the contexts -/
theorem ignore_many_eq_append (s : IgnoreSet) (ls : List LintM) (toks : List Tok) :
    ls.foldl (fun s l' => ignoreLint s l' toks) s = Ignore.append s (ls.map (contextOf · toks)) :=
  foldl_ignoreLint_eq_append ls toks s

/-- instances of the sequence theorems in `a thier a thier`: ignoring ids 2 and 7 (7 is no lint)
hides `lintT₃` only; ignoring ids 2 and 0 hides all three (`lintT₂` as the twin of `lintT₁`) -/
example :
    let all := [lintT₁, lintT₂, lintT₃]
    idLints all [2, 7] = [lintT₃] ∧ idLints all [2, 0] = [lintT₃, lintT₁] ∧
    removeIgnored (ignoreIds [] all toksT [2, 7]) all toksT = [lintT₁, lintT₂] ∧
    removeIgnored (ignoreIds [] all toksT [2, 0]) all toksT = [] ∧
    (ignoreIds [] all toksT [2, 0]).length = 2 ∧
    isIgnored (ignoreIds [] all toksT [2, 0]) lintT₂ toksT = true ∧
    all.find? (·.id == 0) = some lintT₁ ∧ contextOf lintT₂ toksT = contextOf lintT₁ toksT := by
  decide

/-- The exception: TWINS. If `l₂` has the same context as `l₁` — `l₂ ≠ l₁` allowed: another
index, another span — then ignoring `l₁` DOES hide `l₂`, whatever the set was before. -/
theorem twin_context_hidden_together (s : IgnoreSet) (l₁ l₂ : LintM) (toks : List Tok)
    (lints : List LintM) (h : contextOf l₂ toks = contextOf l₁ toks) :
    isIgnored (ignoreLint s l₁ toks) l₂ toks = true ∧
    l₂ ∉ removeIgnored (ignoreLint s l₁ toks) lints toks := by
  refine ⟨?_, ?_⟩
  · rw [ignore_effect_on_other]; simp [h]
  · exact fun hm => (ignored_is_removed s l₁ toks lints).2 l₂ hm h

/-- non-vacuity of twin_context_hidden_together, inside ONE document: `a thier a thier`, spelling
lints on the first (span 2–7) and second (span 10–15) `thier` — different lints, different spans,
equal contexts: the windows are `a␣` / `thier` / `thier` both times. -/
example : lintT₂ ≠ lintT₁ ∧ (lintT₂.start, lintT₂.stop) ≠ (lintT₁.start, lintT₁.stop) ∧
    contextOf lintT₂ toksT = contextOf lintT₁ toksT ∧
    (prequel toksT lintT₂, problem toksT lintT₂, sequel toksT lintT₂)
      = ([⟨[97],[0,1]⟩, ⟨[32],[4,1]⟩], [⟨[116,104,105,101,114],[0,0]⟩],
         [⟨[116,104,105,101,114],[0,0]⟩]) ∧
    isIgnored [] lintT₂ toksT = false ∧ isIgnored (ignoreLint [] lintT₁ toksT) lintT₂ toksT = true ∧
    removeIgnored [] [lintT₁, lintT₂, lintT₃] toksT = [lintT₁, lintT₂, lintT₃] ∧
    removeIgnored (ignoreLint [] lintT₁ toksT) [lintT₁, lintT₂, lintT₃] toksT = [lintT₃] := by decide

/-- "Only that lint", read literally (every OTHER reported lint — another lint at another place —
stays reported), is **false of the code**, kernel-checked inside one document: in `a thier a thier`
the user ignores the spelling lint on the first `thier`; the one on the second `thier` disappears
with it. (`LintContext` has no position; by design of the hash, not an accident of the model.) -/
theorem only_that_lint_fails_for_twins :
    ¬ (∀ (s : IgnoreSet) (toks : List Tok) (l₁ l₂ : LintM) (lints : List LintM), l₂ ≠ l₁ →
        (l₂.start, l₂.stop) ≠ (l₁.start, l₁.stop) → l₂ ∈ removeIgnored s lints toks →
        l₂ ∈ removeIgnored (ignoreLint s l₁ toks) lints toks) := by
  intro h
  have := h [] toksT lintT₁ lintT₂ [lintT₁, lintT₂, lintT₃] (by decide) (by decide) (by decide)
  revert this
  decide

/-- Twins are the ONLY exception: if `l₂` was not hidden and ignoring `l₁` hides it, then `l₂` has
`l₁`'s context. Also in list form: reported before, not reported after ⇒ same context. -/
theorem hidden_by_ignore_only_if_twin (s : IgnoreSet) (l₁ l₂ : LintM) (toks : List Tok) :
    (isIgnored s l₂ toks = false → isIgnored (ignoreLint s l₁ toks) l₂ toks = true →
      contextOf l₂ toks = contextOf l₁ toks) ∧
    (∀ lints, l₂ ∈ removeIgnored s lints toks →
      l₂ ∉ removeIgnored (ignoreLint s l₁ toks) lints toks →
      contextOf l₂ toks = contextOf l₁ toks) := by
  refine ⟨?_, ?_⟩
  · intro h0 h1
    rw [ignore_effect_on_other, h0] at h1
    simpa using h1
  · intro lints hm hn
    rw [ignore_removes_exactly, List.mem_filter] at hn
    apply Decidable.byContradiction
    intro hne
    exact hn ⟨hm, by simpa using hne⟩

/-- non-vacuity of hidden_by_ignore_only_if_twin: both pairs of hypotheses hold for the twin in
`a thier a thier`, from a NON-empty set (which hides `lintT₃`) -/
example :
    let s := ignoreLint [] lintT₃ toksT
    isIgnored s lintT₂ toksT = false ∧ isIgnored (ignoreLint s lintT₁ toksT) lintT₂ toksT = true ∧
    lintT₂ ∈ removeIgnored s [lintT₁, lintT₂, lintT₃] toksT ∧
    lintT₂ ∉ removeIgnored (ignoreLint s lintT₁ toksT) [lintT₁, lintT₂, lintT₃] toksT := by decide

/-- The exception and its completeness as one equivalence, with the context spelled out
(`context_eq_iff`): a lint that was not hidden becomes hidden by ignoring `l₁` IFF it agrees with
`l₁` in kind, suggestions, message, priority and in the fat tokens of the three windows `[s-2,s)`,
`[s,e)`, `[s+2,s+4)` taken together. Position, length and index of the lint do not enter. -/
theorem newly_hidden_iff_twin (s : IgnoreSet) (l₁ l₂ : LintM) (toks : List Tok)
    (h0 : isIgnored s l₂ toks = false) :
    isIgnored (ignoreLint s l₁ toks) l₂ toks = true ↔
      l₂.kind = l₁.kind ∧ l₂.suggestions = l₁.suggestions ∧ l₂.message = l₁.message ∧
      l₂.priority = l₁.priority ∧
      prequel toks l₂ ++ problem toks l₂ ++ sequel toks l₂ =
        prequel toks l₁ ++ problem toks l₁ ++ sequel toks l₁ := by
  rw [← context_eq_iff]
  exact ⟨(hidden_by_ignore_only_if_twin s l₁ l₂ toks).1 h0,
    fun h => (twin_context_hidden_together s l₁ l₂ toks [] h).1⟩

/-- non-vacuity of newly_hidden_iff_twin: hypothesis and both sides, twin (`lintT₂`) and non-twin
(`lintU₂`: same fields, the concatenated windows differ) -/
example : isIgnored [] lintT₂ toksT = false ∧
    isIgnored (ignoreLint [] lintT₁ toksT) lintT₂ toksT = true ∧
    isIgnored [] lintU₂ toksU = false ∧ isIgnored (ignoreLint [] lintU₁ toksU) lintU₂ toksU = false ∧
    prequel toksU lintU₂ ++ problem toksU lintU₂ ++ sequel toksU lintU₂ ≠
      prequel toksU lintU₁ ++ problem toksU lintU₁ ++ sequel toksU lintU₁ := by decide

/-- Across a sequence: a lint that was reported and is no longer reported after the lints with the
listed ids were ignored is a twin of (or is) one of those lints, which is one of `lints`. -/
theorem hidden_by_ignoreIds_only_if_twin (s : IgnoreSet) (lints : List LintM) (toks : List Tok)
    (ids : List Nat) (l : LintM) (h0 : isIgnored s l toks = false)
    (h1 : isIgnored (ignoreIds s lints toks ids) l toks = true) :
    ∃ l' ∈ lints, l'.id ∈ ids ∧ contextOf l toks = contextOf l' toks := by
  rcases (ignoreIds_hidden_iff s lints toks ids l).mp h1 with h | ⟨i, hi, l', hf, he⟩
  · rw [h0] at h; cases h
  · obtain ⟨hm, hid⟩ := idLints_sub (mem_idLints.mpr ⟨i, hi, hf⟩)
    exact ⟨l', hm, hid, he⟩

/-- non-vacuity of hidden_by_ignoreIds_only_if_twin: `lintT₂` hidden by ignoring ids `[2, 0]` -/
example : isIgnored [] lintT₂ toksT = false ∧
    isIgnored (ignoreIds [] [lintT₁, lintT₂, lintT₃] toksT [2, 0]) lintT₂ toksT = true := by decide

/-- A sufficient condition for twins that needs no look at the tokens: two lints on the SAME span
with the same kind, suggestions, message and priority (e.g. a rule reporting twice) share a context
in every document. -/
theorem same_span_same_fields_twin (l₁ l₂ : LintM) (toks : List Tok)
    (hs : l₂.start = l₁.start) (he : l₂.stop = l₁.stop) (hk : l₂.kind = l₁.kind)
    (hg : l₂.suggestions = l₁.suggestions) (hm : l₂.message = l₁.message)
    (hp : l₂.priority = l₁.priority) : contextOf l₂ toks = contextOf l₁ toks := by
  refine (context_eq_iff l₁ l₂ toks toks).mpr ⟨hk, hg, hm, hp, ?_⟩
  unfold prequel problem sequel
  rw [hs, he]

/-- non-vacuity of same_span_same_fields_twin: two lints differing in the id only -/
example :
    let l₂ : LintM := { lintT₁ with id := 9 }
    l₂ ≠ lintT₁ ∧ l₂.start = lintT₁.start ∧ l₂.stop = lintT₁.stop ∧ l₂.kind = lintT₁.kind ∧
    l₂.suggestions = lintT₁.suggestions ∧ l₂.message = lintT₁.message ∧
    l₂.priority = lintT₁.priority ∧ contextOf l₂ toksT = contextOf lintT₁ toksT := by decide

end Harper.C14
