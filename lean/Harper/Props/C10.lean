import Harper.Lemmas.Effects
/-!
# C10 — the text being checked never leaves the machine

Level `other`: an **effect-trace refinement validated by syscall tracing**. `Harper/Model/Effects.lean`
lists, per library entry point and per `harper-ls` handler, the effects it performs (read off the
code). The theorems below say what such traces can NOT contain; they are shallow by nature — they
hold because the list of effects is what it is. What ties the list to the code is the harness
(`harness/src/c10.rs`): the real library, the JS-facing `Linter` and the in-process language server
run in a child process under `strace -f`, and the traced network / file-modifying syscalls are
compared with the model's prediction for the same scenario.

The one piece with content is `file_dict_name`: for every document path the rewritten name is a
single path component, so the per-document dictionary file cannot be placed outside the configured
directory (compared with the real function on hostile paths on every run).
-/
namespace Harper.C10
open Harper.Effects

/-- **No network effect.** For every history of entry points, no effect is a connection, a name
resolution or a datagram; the only listening socket is `127.0.0.1:4000`, and only when the server
was started in TCP mode. (`HarperOpen` hands a URL to the desktop's opener — `spawnOpener` — which is
outside Harper and outside this property's reach; it is listed, not hidden.) -/
theorem no_network_effect (P : Paths) (h : List Entry) :
    ∀ e ∈ traceAll P h, e.isNetwork = false ∧
      (∀ ip port, e = .listen ip port → ip = [127, 0, 0, 1] ∧ port = 4000 ∧
        ∃ en ∈ h, en.isTcp = true) := by
  intro e he
  simp only [traceAll, List.mem_flatMap] at he
  obtain ⟨en, hen, hx⟩ := he
  rcases mem_trace hx with ⟨p, rfl⟩ | rfl | rfl | ⟨doc, rfl | rfl⟩ | rfl | rfl | ⟨rfl, ht⟩ | ⟨rfl, _⟩ | ⟨url, rfl⟩ <;>
    simp [Eff.isNetwork]
  exact ⟨en, hen, ht⟩

/-- **Writes are confined.** Every path an effect creates, truncates, appends to or makes
directories for is the user dictionary (or its directory), the statistics file (or its directory),
or a per-document dictionary `file_dict_path.join(file_dict_name(doc))` (or its directory). -/
theorem writes_confined (P : Paths) (h : List Entry) :
    ∀ e ∈ traceAll P h, ∀ p, e.written = some p →
      p = P.userDict ∨ p = parent P.userDict ∨ p = P.stats ∨ p = parent P.stats ∨
      ∃ doc, p = fileDictPath P doc ∨ p = parent (fileDictPath P doc) := by
  intro e he p hp
  simp only [traceAll, List.mem_flatMap] at he
  obtain ⟨en, _, hx⟩ := he
  rcases mem_trace hx with ⟨q, rfl⟩ | rfl | rfl | ⟨doc, rfl | rfl⟩ | rfl | rfl | ⟨rfl, _⟩ | ⟨rfl, _⟩ | ⟨url, rfl⟩ <;>
    simp [Eff.written] at hp
  · right; left; exact hp.symm
  · left; exact hp.symm
  · right; right; right; right; exact ⟨doc, Or.inr hp.symm⟩
  · right; right; right; right; exact ⟨doc, Or.inl hp.symm⟩
  · right; right; right; left; exact hp.symm
  · right; right; left; exact hp.symm

/-- **`file_dict_name` yields one path component**, for every document path: no `/`, not `.`, not
`..`; empty or ending in `%`. -/
theorem fileDictName_single_component (p : List Char) :
    '/' ∉ fileDictName p ∧ fileDictName p ≠ ['.', '.'] ∧ fileDictName p ≠ ['.'] ∧
    (fileDictName p = [] ∨ (fileDictName p).getLast? = some '%') :=
  Harper.Effects.fileDictName_single_component p

/-- so the join cannot leave the directory: the per-document dictionary is the directory itself
(empty name: the root path — creating it fails) or a direct child whose name is not `..` -/
theorem fileDictPath_inside (P : Paths) (doc : List Char) :
    fileDictPath P doc = P.fileDir ∨
    ∃ n, n ≠ [] ∧ '/' ∉ n ∧ n ≠ ['.', '.'] ∧ fileDictPath P doc = P.fileDir ++ [n] :=
  Harper.Effects.fileDictPath_inside P doc

/-- together: every written path is one of the three configured locations, a direct child of the
file-dictionary directory, or the directory containing one of them -/
theorem writes_confined_to_configured (P : Paths) (h : List Entry) :
    ∀ e ∈ traceAll P h, ∀ p, e.written = some p →
      p = P.userDict ∨ p = parent P.userDict ∨ p = P.stats ∨ p = parent P.stats ∨
      p = P.fileDir ∨ p = parent P.fileDir ∨ ∃ n, '/' ∉ n ∧ n ≠ ['.', '.'] ∧ p = P.fileDir ++ [n] := by
  intro e he p hp
  rcases writes_confined P h e he p hp with h1 | h1 | h1 | h1 | ⟨doc, h1⟩
  · exact Or.inl h1
  · exact Or.inr (Or.inl h1)
  · exact Or.inr (Or.inr (Or.inl h1))
  · exact Or.inr (Or.inr (Or.inr (Or.inl h1)))
  · rcases fileDictPath_inside P doc with h2 | ⟨n, _, hn1, hn2, h2⟩
    · rcases h1 with h1 | h1
      · right; right; right; right; left; rw [h1, h2]
      · right; right; right; right; right; left; rw [h1, h2]
    · rcases h1 with h1 | h1
      · right; right; right; right; right; right; exact ⟨n, hn1, hn2, by rw [h1, h2]⟩
      · right; right; right; right; left; rw [h1, h2]; simp [parent]

/-! ### non-vacuity and hostile paths -/

def str (s : String) : List Char := s.toList

/-- `/a/../../etc/passwd` (what `..%2F..%2Fetc%2Fpasswd` decodes to) becomes ONE name -/
example : fileDictName ['/', 'a', '/', '.', '.', '/', '.', '.', '/', 'e', 't', 'c'] =
    ['a', '%', '.', '.', '%', '.', '.', '%', 'e', 't', 'c', '%'] := by decide

example : fileDictName ['/'] = [] := by decide
example : fileDictName ['/', '/', 'a', '/', '.', '/', 'b', '/'] = ['a', '%', 'b', '%'] := by decide

/-- a session that touches every kind of effect: the trace is non-empty, has two creations, one
append, three `mkdirs`, one listening socket, and nothing else that writes -/
example :
    let P : Paths := ⟨[['c'], ['u']], [['d'], ['f']], [['d'], ['s']]⟩
    let doc := ['/', 'h', '/', 'x']
    let h := [Entry.startTcp, .library, .wasm, .update doc false, .save doc true true, .addUser doc true false,
      .addFile doc false false, .configuration [(doc, true, false)], .ignoreLint, .close, .shutdown]
    ((traceAll P h).filterMap Eff.written) =
      [[['c']], [['c'], ['u']], [['d'], ['f']], [['d'], ['f'], ['h', '%', 'x', '%']], [['d']], [['d'], ['s']]] ∧
    (traceAll P h).contains (.listen [127, 0, 0, 1] 4000) = true := by
  decide

end Harper.C10
