import Harper.Lemmas.Effects
import Harper.Lemmas.ConfigPaths
/-!
# C10 — the text being checked never leaves the machine

Level `other`: an **effect-trace refinement validated by syscall tracing**. `Harper/Model/Effects.lean`
lists, per library entry point and per `harper-ls` handler, the effects it performs (read off the
code). The theorems below say what such traces can NOT contain; they are shallow by nature — they
hold because the list of effects is what it is. What ties the list to the code is the harness
(`harness/src/c10.rs`): the real library, the JS-facing `Linter` and the in-process language server
run in a child process under `strace -f`, and the traced network / file-modifying syscalls are
compared with the model's prediction for the same scenario.

The one piece with content is `file_dict_name`: for every document path the rewritten name is a
single path component, so the per-document dictionary file cannot be placed outside the configured
directory (compared with the real function on hostile paths on every run).
-/
namespace Harper.C10
open Harper.Effects

/-- **No network effect.** For every history of entry points, no effect is a connection, a name
resolution or a datagram; the only listening socket is `127.0.0.1:4000`, and only when the server
was started in TCP mode. (`HarperOpen` hands a URL to the desktop's opener — `spawnOpener` — which is
outside Harper and outside this property's reach; it is listed, not hidden.) -/
theorem no_network_effect (P : Paths) (h : List Entry) :
    ∀ e ∈ traceAll P h, e.isNetwork = false ∧
      (∀ ip port, e = .listen ip port → ip = [127, 0, 0, 1] ∧ port = 4000 ∧
        ∃ en ∈ h, en.isTcp = true) := by
  intro e he
  simp only [traceAll, List.mem_flatMap] at he
  obtain ⟨en, hen, hx⟩ := he
  rcases mem_trace hx with ⟨p, rfl⟩ | rfl | rfl | ⟨doc, rfl | rfl⟩ | rfl | rfl | ⟨rfl, ht⟩ | ⟨rfl, _⟩ | ⟨url, rfl⟩ <;>
    simp [Eff.isNetwork]
  exact ⟨en, hen, ht⟩

/-- **Writes are confined.** Every path an effect creates, truncates, appends to or makes
directories for is the user dictionary (or its directory), the statistics file (or its directory),
or a per-document dictionary `file_dict_path.join(file_dict_name(doc))` (or its directory). -/
theorem writes_confined (P : Paths) (h : List Entry) :
    ∀ e ∈ traceAll P h, ∀ p, e.written = some p →
      p = P.userDict ∨ p = parent P.userDict ∨ p = P.stats ∨ p = parent P.stats ∨
      ∃ doc, p = fileDictPath P doc ∨ p = parent (fileDictPath P doc) := by
  intro e he p hp
  simp only [traceAll, List.mem_flatMap] at he
  obtain ⟨en, _, hx⟩ := he
  rcases mem_trace hx with ⟨q, rfl⟩ | rfl | rfl | ⟨doc, rfl | rfl⟩ | rfl | rfl | ⟨rfl, _⟩ | ⟨rfl, _⟩ | ⟨url, rfl⟩ <;>
    simp [Eff.written] at hp
  · right; left; exact hp.symm
  · left; exact hp.symm
  · right; right; right; right; exact ⟨doc, Or.inr hp.symm⟩
  · right; right; right; right; exact ⟨doc, Or.inl hp.symm⟩
  · right; right; right; left; exact hp.symm
  · right; right; left; exact hp.symm

/-- **`file_dict_name` yields one path component**, for every document path: no `/`, not `.`, not
`..`; empty or ending in `%`. -/
theorem fileDictName_single_component (p : List Char) :
    '/' ∉ fileDictName p ∧ fileDictName p ≠ ['.', '.'] ∧ fileDictName p ≠ ['.'] ∧
    (fileDictName p = [] ∨ (fileDictName p).getLast? = some '%') :=
  Harper.Effects.fileDictName_single_component p

/-- so the join cannot leave the directory: the per-document dictionary is the directory itself
(empty name: the root path — creating it fails) or a direct child whose name is not `..` -/
theorem fileDictPath_inside (P : Paths) (doc : List Char) :
    fileDictPath P doc = P.fileDir ∨
    ∃ n, n ≠ [] ∧ '/' ∉ n ∧ n ≠ ['.', '.'] ∧ fileDictPath P doc = P.fileDir ++ [n] :=
  Harper.Effects.fileDictPath_inside P doc

/-- together: every written path is one of the three configured locations, a direct child of the
file-dictionary directory, or the directory containing one of them -/
theorem writes_confined_to_configured (P : Paths) (h : List Entry) :
    ∀ e ∈ traceAll P h, ∀ p, e.written = some p →
      p = P.userDict ∨ p = parent P.userDict ∨ p = P.stats ∨ p = parent P.stats ∨
      p = P.fileDir ∨ p = parent P.fileDir ∨ ∃ n, '/' ∉ n ∧ n ≠ ['.', '.'] ∧ p = P.fileDir ++ [n] := by
  intro e he p hp
  rcases writes_confined P h e he p hp with h1 | h1 | h1 | h1 | ⟨doc, h1⟩
  · exact Or.inl h1
  · exact Or.inr (Or.inl h1)
  · exact Or.inr (Or.inr (Or.inl h1))
  · exact Or.inr (Or.inr (Or.inr (Or.inl h1)))
  · rcases fileDictPath_inside P doc with h2 | ⟨n, _, hn1, hn2, h2⟩
    · rcases h1 with h1 | h1
      · right; right; right; right; left; rw [h1, h2]
      · right; right; right; right; right; left; rw [h1, h2]
    · rcases h1 with h1 | h1
      · right; right; right; right; right; right; exact ⟨n, hn1, hn2, by rw [h1, h2]⟩
      · right; right; right; right; left; rw [h1, h2]; simp [parent]

/-- `writes_confined_to_configured` with everything `file_dict_name` guarantees about the child's
name kept: non-empty, no `/`, neither `.` nor `..`, ending in `%`. -/
theorem writes_confined_to_configured_strong (P : Paths) (h : List Entry) :
    ∀ e ∈ traceAll P h, ∀ p, e.written = some p →
      p = P.userDict ∨ p = parent P.userDict ∨ p = P.stats ∨ p = parent P.stats ∨
      p = P.fileDir ∨ p = parent P.fileDir ∨
      ∃ n, n ≠ [] ∧ '/' ∉ n ∧ n ≠ ['.', '.'] ∧ n ≠ ['.'] ∧ n.getLast? = some '%' ∧ p = P.fileDir ++ [n] := by
  intro e he p hp
  rcases writes_confined P h e he p hp with h1 | h1 | h1 | h1 | ⟨doc, h1⟩
  · exact Or.inl h1
  · exact Or.inr (Or.inl h1)
  · exact Or.inr (Or.inr (Or.inl h1))
  · exact Or.inr (Or.inr (Or.inr (Or.inl h1)))
  · obtain ⟨hs, hdd, hd, hl⟩ := fileDictName_single_component doc
    rcases hl with hl | hl
    · have h2 : fileDictPath P doc = P.fileDir := by
        simp [fileDictPath, hl, joinName, components, splitSlash]
      rcases h1 with h1 | h1
      · right; right; right; right; left; rw [h1, h2]
      · right; right; right; right; right; left; rw [h1, h2]
    · have hne : fileDictName doc ≠ [] := by intro h0; rw [h0] at hl; simp at hl
      have h2 : fileDictPath P doc = P.fileDir ++ [fileDictName doc] := by
        have hh : (fileDictName doc).head? ≠ some '/' := by
          intro hh
          cases hfd : fileDictName doc with
          | nil => exact hne hfd
          | cons a as => rw [hfd] at hh hs; simp at hh; subst hh; simp at hs
        simp [fileDictPath, joinName, hh, components, splitSlash_of_no_slash _ hs, hne, hd]
      rcases h1 with h1 | h1
      · right; right; right; right; right; right
        exact ⟨_, hne, hs, hdd, hd, hl, by rw [h1, h2]⟩
      · right; right; right; right; left; rw [h1, h2]; simp [parent]

/-! ### non-vacuity and hostile paths -/

def str (s : String) : List Char := s.toList

/-- `/a/../../etc/passwd` (what `..%2F..%2Fetc%2Fpasswd` decodes to) becomes ONE name -/
example : fileDictName ['/', 'a', '/', '.', '.', '/', '.', '.', '/', 'e', 't', 'c'] =
    ['a', '%', '.', '.', '%', '.', '.', '%', 'e', 't', 'c', '%'] := by decide

example : fileDictName ['/'] = [] := by decide
example : fileDictName ['/', '/', 'a', '/', '.', '/', 'b', '/'] = ['a', '%', 'b', '%'] := by decide

/-- a session that touches every kind of effect: the trace is non-empty, has two creations, one
append, three `mkdirs`, one listening socket, and nothing else that writes -/
example :
    let P : Paths := ⟨[['c'], ['u']], [['d'], ['f']], [['d'], ['s']]⟩
    let doc := ['/', 'h', '/', 'x']
    let h := [Entry.startTcp, .library, .wasm, .update doc false, .save doc true true, .addUser doc true false,
      .addFile doc false false, .configuration [(doc, true, false)], .ignoreLint, .close, .shutdown]
    ((traceAll P h).filterMap Eff.written) =
      [[['c']], [['c'], ['u']], [['d'], ['f']], [['d'], ['f'], ['h', '%', 'x', '%']], [['d']], [['d'], ['s']]] ∧
    (traceAll P h).contains (.listen [127, 0, 0, 1] 4000) = true := by
  decide

/-- `no_network_effect` is true BY CONSTRUCTION of `trace` (no entry point lists a `connect`,
`resolve` or `sendDatagram`; the content is the harness comparing `trace` with strace). What the
kernel does check: the predicate is not constantly false — the three network effects exist in `Eff`
and are recognised — and a trace that contains one is rejected. -/
example : (Eff.connect [93, 184, 216, 34] 443).isNetwork = true ∧ (Eff.resolve ['x']).isNetwork = true ∧
    (Eff.sendDatagram [8, 8, 8, 8] 53).isNetwork = true ∧
    ¬ ∀ e ∈ [Eff.accept, .connect [93, 184, 216, 34] 443], e.isNetwork = false := by decide

/-! ## from the configured STRING to the path that is written -/

/-- `~/rest` is the home directory followed by `rest` -/
theorem tilde_expands (home cwd : Path) (rest : List Char) :
    resolvePath home cwd ('~' :: '/' :: rest) = home ++ components rest := by
  simp [resolvePath, components_cons_slash]

/-- `~` alone is the home directory -/
theorem tilde_alone (home cwd : Path) : resolvePath home cwd ['~'] = home := by
  simp [resolvePath, components, splitSlash]

/-- an absolute path is unchanged, whatever home and current directory are -/
theorem absolute_unchanged (home cwd : Path) (p : List Char) :
    resolvePath home cwd ('/' :: p) = components p := by
  simp [resolvePath, components_cons_slash]

/-- the third case of `try_resolve`: anything that is neither absolute nor starts with the component
`~` is joined to the current directory (`~user/…` included) -/
theorem relative_joined (home cwd : Path) (p : List Char)
    (h1 : p.head? ≠ some '/') (h2 : p ≠ ['~']) (h3 : p.take 2 ≠ ['~', '/']) :
    resolvePath home cwd p = cwd ++ components p := by
  simp [resolvePath, h1, h2, h3]

example : resolvePath [['h']] [['w']] ['~', 'u', '/', 'x'] = [['w']] ++ components ['~', 'u', '/', 'x'] :=
  relative_joined _ _ _ (by decide) (by decide) (by decide)

/-- **Writes are confined to the RESOLVED configured paths.** For every environment, current
directory and settings object the server accepts, every path a handler creates, truncates, appends
to or makes directories for is: the resolution (`resolvePath`, i.e. `~` expanded, relative paths
joined to the current directory) of the configured `userDictPath`, or a default file
(`Config::default()`: user dictionary, statistics file), or the directory containing one of them;
or the resolution of the configured `fileDictPath` / `statsPath` (or the default dictionary
directory), its parent, or a direct child of it named by ONE path component (`file_dict_name`). -/
theorem resolved_paths_confined (e : DirsEnv) (cwd : Path) (c : PathCfg) (P : Paths)
    (hP : fromLspConfig e cwd c = some P) (h : List Entry) :
    ∀ ev ∈ traceAll P h, ∀ p, ev.written = some p → AllowedWrite e cwd c p := by
  intro ev hev p hp
  obtain ⟨hU, hF, hS⟩ := fromLspConfig_fields hP
  have hUfile : ConfiguredFile e cwd c P.userDict := by
    rcases hU with h | ⟨s, h1, h2⟩
    · exact Or.inl h
    · exact Or.inr (Or.inr ⟨s, h1, h2⟩)
  have hSfile : ConfiguredFile e cwd c P.stats := Or.inr (Or.inl hS)
  rcases writes_confined_to_configured P h ev hev p hp with h1 | h1 | h1 | h1 | h1 | h1 | ⟨n, hn1, hn2, h1⟩
  · exact Or.inl ⟨_, hUfile, Or.inl h1⟩
  · exact Or.inl ⟨_, hUfile, Or.inr h1⟩
  · exact Or.inl ⟨_, hSfile, Or.inl h1⟩
  · exact Or.inl ⟨_, hSfile, Or.inr h1⟩
  · exact Or.inr ⟨_, hF, Or.inl h1⟩
  · exact Or.inr ⟨_, hF, Or.inr (Or.inl h1)⟩
  · exact Or.inr ⟨_, hF, Or.inr (Or.inr ⟨n, hn1, hn2, h1⟩)⟩

/-! ### non-vacuity, the quirks, and why tilde expansion matters -/

def envH : DirsEnv := ⟨[['h']], none, none⟩
def cwdW : Path := [['w']]
/-- `{"userDictPath": "~/d", "fileDictPath": "r/f", "statsPath": "/a/s"}` -/
def cfgMixed : PathCfg :=
  ⟨some (.str ['~', '/', 'd']), some (.str ['r', '/', 'f']), some (.str ['/', 'a', '/', 's'])⟩

/-- accepted; `~/d` ↦ `/h/d`; the `statsPath` value wins the file-dictionary directory (quirk) and
the statistics file stays at its default -/
example : (fromLspConfig envH cwdW cfgMixed).map (fun P => (P.userDict, P.fileDir, P.stats)) =
    some ([['h'], ['d']], [['a'], ['s']], (defaultPaths envH).stats) := by
  decide

/-- non-vacuity of `resolved_paths_confined`: `cfgMixed` is accepted, the user-dictionary and
per-document-dictionary creations are in the trace, and the theorem (not evaluation) yields that
`/h/d` and `/a/s/x%` are allowed writes -/
example : ∃ P, fromLspConfig envH cwdW cfgMixed = some P ∧
    Eff.createFile [['h'], ['d']] ∈ traceAll P [.addUser ['/', 'x'] true false] ∧
    Eff.createFile [['a'], ['s'], ['x', '%']] ∈ traceAll P [.addFile ['/', 'x'] true false] ∧
    AllowedWrite envH cwdW cfgMixed [['h'], ['d']] ∧
    AllowedWrite envH cwdW cfgMixed [['a'], ['s'], ['x', '%']] :=
  ⟨_, rfl, by decide, by decide,
    resolved_paths_confined envH cwdW cfgMixed _ rfl [.addUser ['/', 'x'] true false]
      (.createFile [['h'], ['d']]) (by decide) _ rfl,
    resolved_paths_confined envH cwdW cfgMixed _ rfl [.addFile ['/', 'x'] true false]
      (.createFile [['a'], ['s'], ['x', '%']]) (by decide) _ rfl⟩

/-- relative ↦ below the current directory; `~user` is NOT expanded; an empty `userDictPath`
keeps the default but an empty `statsPath` makes the current directory the dictionary directory;
a non-string value rejects the configuration -/
example : resolvePath [['h']] [['w']] ['r', '/', '.', '/', 'f'] = [['w'], ['r'], ['f']] := by decide
example : resolvePath [['h']] [['w']] ['~', 'u', '/', 'x'] = [['w'], ['~', 'u'], ['x']] := by decide
example : resolvePath [['h']] [['w']] ['.', '.', '/', 'x'] = [['w'], ['.', '.'], ['x']] := by decide
example : (fromLspConfig envH cwdW ⟨some (.str []), none, some (.str [])⟩).map (fun P => (P.userDict, P.fileDir)) =
    some ((defaultPaths envH).userDict, [['w']]) := by decide
example : fromLspConfig envH cwdW ⟨none, some .other, none⟩ = none := by decide
/-- `dirs`: an XDG variable counts only when it is an absolute path -/
example : configDir ⟨[['h']], some ['/', 'x'], none⟩ = [['x']] ∧
    configDir ⟨[['h']], some ['x'], none⟩ = configDir ⟨[['h']], none, none⟩ ∧
    (configDir ⟨[['h']], none, none⟩).length = 2 := by decide

/-- **A resolver that does not expand `~` breaks confinement.** With `"userDictPath": "~/d"`, home
`/h`, current directory `/w`: `std::path::absolute`-style resolution yields `/w/~/d`; a server using
it creates that file on `HarperAddToUserDict` (first conjunct: it is in the trace), and that path
is NOT an allowed write for this configuration (second conjunct) — the configured dictionary
`/h/d` is (third). -/
example :
    let c : PathCfg := ⟨some (.str ['~', '/', 'd']), none, none⟩
    let bad := absoluteOnly cwdW ['~', '/', 'd']
    let P' : Paths := { defaultPaths envH with userDict := bad }
    Eff.createFile [['w'], ['~'], ['d']] ∈ trace P' (.addUser ['/', 'x'] false false) ∧
    ¬ AllowedWrite envH cwdW c bad ∧
    AllowedWrite envH cwdW c [['h'], ['d']] := by
  refine ⟨by decide, ?_, ?_⟩
  · intro h
    rcases h with ⟨q, hq, hp⟩ | ⟨d, hd, hp⟩
    · rcases hq with rfl | rfl | ⟨s, hs, rfl⟩
      · revert hp; decide
      · revert hp; decide
      · simp at hs; subst hs; revert hp; decide
    · rcases hd with rfl | ⟨s, hs, rfl⟩
      · rcases hp with hp | hp | ⟨n, _, _, hp⟩
        · revert hp; decide
        · revert hp; decide
        · have := congrArg List.length hp
          simp [absoluteOnly, cwdW, components, splitSlash, defaultPaths, dataDir, xdgOr, envH] at this
      · simp at hs
  · exact Or.inl ⟨[['h'], ['d']], Or.inr (Or.inr ⟨['~', '/', 'd'], rfl, by decide⟩), Or.inl rfl⟩

end Harper.C10
