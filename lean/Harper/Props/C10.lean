import Harper.Lemmas.Effects
import Harper.Lemmas.ConfigPaths
/-!
# C10 — the text being checked never leaves the machine

Level `other`: an **effect-trace refinement validated by syscall tracing**. `Harper/Model/Effects.lean`
lists, per library entry point and per `harper-ls` handler, the effects it performs (read off the
code). The theorems below say what such traces can NOT contain; they are shallow by nature — they
hold because the list of effects is what it is. What ties the list to the code is the harness
(`harness/src/c10.rs`): the real library, the JS-facing `Linter` and the in-process language server
run in a child process under `strace -f`, and the traced network / file-modifying syscalls are
compared with the model's prediction for the same scenario.

w24: `AllowedWrite` names a child of the dictionary directory by ONE NORMAL component (the empty
name and `.` are out, as `..` was); `Eff.created` says what `create_dir_all` can create — every
non-root prefix of its argument — and `created_paths_confined` states the honest confinement: allowed
writes, and ANCESTORS of the configured directories (which lie outside them).

The one piece with content is `file_dict_name`: for every document path the rewritten name is a
single path component, so the per-document dictionary file cannot be placed outside the configured
directory (compared with the real function on hostile paths on every run).
-/
namespace Harper.C10
open Harper.Effects

/-- **No network effect.** For every history of entry points, no effect is a connection, a name
resolution or a datagram; the only listening socket is `127.0.0.1:4000`, and only when the server
was started in TCP mode. (`HarperOpen` hands a URL to the desktop's opener — `spawnOpener` — which is
outside Harper and outside this property's reach; it is listed, not hidden.) -/
theorem no_network_effect (P : Paths) (h : List Entry) :
    ∀ e ∈ traceAll P h, e.isNetwork = false ∧
      (∀ ip port, e = .listen ip port → ip = [127, 0, 0, 1] ∧ port = 4000 ∧
        ∃ en ∈ h, en.isTcp = true) := by
  intro e he
  simp only [traceAll, List.mem_flatMap] at he
  obtain ⟨en, hen, hx⟩ := he
  rcases mem_trace hx with ⟨p, rfl⟩ | ⟨rfl, _⟩ | rfl | ⟨doc, ⟨rfl, _⟩ | rfl⟩ | ⟨rfl, _⟩ | rfl | ⟨rfl, ht⟩ | ⟨rfl, _⟩ | ⟨url, rfl⟩ <;>
    simp [Eff.isNetwork]
  exact ⟨en, hen, ht⟩

/-- **Writes are confined.** Every path an effect creates, truncates, appends to or makes
directories for is the user dictionary (or its directory), the statistics file (or its directory),
or a per-document dictionary `file_dict_path.join(file_dict_name(doc))` (or its directory). -/
theorem writes_confined (P : Paths) (h : List Entry) :
    ∀ e ∈ traceAll P h, ∀ p, e.written = some p →
      p = P.userDict ∨ p = parent P.userDict ∨ p = P.stats ∨ p = parent P.stats ∨
      ∃ doc, p = fileDictPath P doc ∨ p = parent (fileDictPath P doc) := by
  intro e he p hp
  simp only [traceAll, List.mem_flatMap] at he
  obtain ⟨en, _, hx⟩ := he
  rcases mem_trace hx with ⟨q, rfl⟩ | ⟨rfl, _⟩ | rfl | ⟨doc, ⟨rfl, _⟩ | rfl⟩ | ⟨rfl, _⟩ | rfl | ⟨rfl, _⟩ | ⟨rfl, _⟩ | ⟨url, rfl⟩ <;>
    simp [Eff.written] at hp
  · right; left; exact hp.symm
  · left; exact hp.symm
  · right; right; right; right; exact ⟨doc, Or.inr hp.symm⟩
  · right; right; right; right; exact ⟨doc, Or.inl hp.symm⟩
  · right; right; right; left; exact hp.symm
  · right; right; left; exact hp.symm

/-- **`file_dict_name` yields one path component**, for every document path: no `/`, not `.`, not
`..`; empty or ending in `%`. -/
theorem fileDictName_single_component (p : List Char) :
    '/' ∉ fileDictName p ∧ fileDictName p ≠ ['.', '.'] ∧ fileDictName p ≠ ['.'] ∧
    (fileDictName p = [] ∨ (fileDictName p).getLast? = some '%') :=
  Harper.Effects.fileDictName_single_component p

/-- so the join cannot leave the directory: the per-document dictionary is the directory itself
(empty name: the root path — creating it fails) or a direct child whose name is neither `..` nor
`.` (w24: the last conjunct about the name is new) -/
theorem fileDictPath_inside (P : Paths) (doc : List Char) :
    fileDictPath P doc = P.fileDir ∨
    ∃ n, n ≠ [] ∧ '/' ∉ n ∧ n ≠ ['.', '.'] ∧ n ≠ ['.'] ∧ fileDictPath P doc = P.fileDir ++ [n] :=
  Harper.Effects.fileDictPath_inside P doc

/-- **When the name is empty.** `file_dict_name` is `""` exactly for the root path (a path without
a normal component: `file:///`, and — after the URL parser has removed dot segments — `file:///.`,
`file:///..`, `file:///%2E`); the name `.` cannot occur at all (`fileDictName_single_component`). -/
theorem fileDictName_empty_iff_root (p : List Char) : fileDictName p = [] ↔ components p = [] :=
  Harper.Effects.fileDictName_eq_nil_iff p

/-- together: every written path is one of the three configured locations, a direct child of the
file-dictionary directory named by ONE NORMAL component (`NormalName`: not empty, no `/`, neither
`.` nor `..` — w24: `≠ []` and `≠ .` are new, the statement is stronger than before), or the
directory containing one of them -/
theorem writes_confined_to_configured (P : Paths) (h : List Entry) :
    ∀ e ∈ traceAll P h, ∀ p, e.written = some p →
      p = P.userDict ∨ p = parent P.userDict ∨ p = P.stats ∨ p = parent P.stats ∨
      p = P.fileDir ∨ p = parent P.fileDir ∨ ∃ n, NormalName n ∧ p = P.fileDir ++ [n] := by
  intro e he p hp
  rcases writes_confined P h e he p hp with h1 | h1 | h1 | h1 | ⟨doc, h1⟩
  · exact Or.inl h1
  · exact Or.inr (Or.inl h1)
  · exact Or.inr (Or.inr (Or.inl h1))
  · exact Or.inr (Or.inr (Or.inr (Or.inl h1)))
  · rcases fileDictPath_inside P doc with h2 | ⟨n, hn0, hn1, hn2, hn3, h2⟩
    · rcases h1 with h1 | h1
      · right; right; right; right; left; rw [h1, h2]
      · right; right; right; right; right; left; rw [h1, h2]
    · rcases h1 with h1 | h1
      · right; right; right; right; right; right; exact ⟨n, ⟨hn0, hn1, hn3, hn2⟩, by rw [h1, h2]⟩
      · right; right; right; right; left; rw [h1, h2]; simp [parent]

/-- `writes_confined_to_configured` with everything `file_dict_name` guarantees about the child's
name kept: non-empty, no `/`, neither `.` nor `..`, ending in `%`. -/
theorem writes_confined_to_configured_strong (P : Paths) (h : List Entry) :
    ∀ e ∈ traceAll P h, ∀ p, e.written = some p →
      p = P.userDict ∨ p = parent P.userDict ∨ p = P.stats ∨ p = parent P.stats ∨
      p = P.fileDir ∨ p = parent P.fileDir ∨
      ∃ n, n ≠ [] ∧ '/' ∉ n ∧ n ≠ ['.', '.'] ∧ n ≠ ['.'] ∧ n.getLast? = some '%' ∧ p = P.fileDir ++ [n] := by
  intro e he p hp
  rcases writes_confined P h e he p hp with h1 | h1 | h1 | h1 | ⟨doc, h1⟩
  · exact Or.inl h1
  · exact Or.inr (Or.inl h1)
  · exact Or.inr (Or.inr (Or.inl h1))
  · exact Or.inr (Or.inr (Or.inr (Or.inl h1)))
  · obtain ⟨hs, hdd, hd, hl⟩ := fileDictName_single_component doc
    rcases hl with hl | hl
    · have h2 : fileDictPath P doc = P.fileDir := by
        simp [fileDictPath, hl, joinName, components, splitSlash]
      rcases h1 with h1 | h1
      · right; right; right; right; left; rw [h1, h2]
      · right; right; right; right; right; left; rw [h1, h2]
    · have hne : fileDictName doc ≠ [] := by intro h0; rw [h0] at hl; simp at hl
      have h2 : fileDictPath P doc = P.fileDir ++ [fileDictName doc] := by
        have hh : (fileDictName doc).head? ≠ some '/' := by
          intro hh
          cases hfd : fileDictName doc with
          | nil => exact hne hfd
          | cons a as => rw [hfd] at hh hs; simp at hh; subst hh; simp at hs
        simp [fileDictPath, joinName, hh, components, splitSlash_of_no_slash _ hs, hne, hd]
      rcases h1 with h1 | h1
      · right; right; right; right; right; right
        exact ⟨_, hne, hs, hdd, hd, hl, by rw [h1, h2]⟩
      · right; right; right; right; left; rw [h1, h2]; simp [parent]

/-! ### what `mkdirs` creates (w24)

`Eff.written` names ONE path per effect; `create_dir_all` makes more than one directory. -/

/-- **`create_dir_all` is only ever called for the parent of a NON-ROOT path** (`Path::parent()` of
`/` is `None`: `save_dict` / `save_stats` then make no directory at all), and only for the three
kinds of file the server writes. -/
theorem mkdirs_only_for_parent_of_nonroot (P : Paths) (h : List Entry) :
    ∀ e ∈ traceAll P h, ∀ d, e = .mkdirs d →
      ∃ q, q ≠ [] ∧ d = parent q ∧ (q = P.userDict ∨ q = P.stats ∨ ∃ doc, q = fileDictPath P doc) := by
  intro e he d hd
  simp only [traceAll, List.mem_flatMap] at he
  obtain ⟨en, _, hx⟩ := he
  subst hd
  rcases mem_trace hx with ⟨q, h1⟩ | ⟨h1, h2⟩ | h1 | ⟨doc, ⟨h1, h2⟩ | h1⟩ | ⟨h1, h2⟩ | h1 | ⟨h1, _⟩ | ⟨h1, _⟩ | ⟨url, h1⟩ <;>
    simp at h1
  · exact ⟨_, h2, h1, Or.inl rfl⟩
  · exact ⟨_, h2, h1, Or.inr (Or.inr ⟨doc, rfl⟩)⟩
  · exact ⟨_, h2, h1, Or.inr (Or.inl rfl)⟩

/-- the root path as a dictionary file: no `mkdir`, only the attempt to create `/` (which fails) -/
example : saveDictEff [] = [.createFile []] ∧ saveStatsEff [] = [.appendFile []] ∧
    saveDictEff [['d']] = [.mkdirs [], .createFile [['d']]] ∧ (Eff.mkdirs []).created = [] := by decide

/-- non-vacuity of `mkdirs_only_for_parent_of_nonroot`: a history with a `mkdirs` effect (the
shutdown's `create_dir_all` of the statistics file's directory), through the theorem -/
example : ∃ q, q ≠ [] ∧ [['d']] = parent q ∧
    (q = [['c'], ['u']] ∨ q = [['d'], ['s']] ∨ ∃ doc, q = fileDictPath ⟨[['c'], ['u']], [['d'], ['f']], [['d'], ['s']]⟩ doc) :=
  mkdirs_only_for_parent_of_nonroot ⟨[['c'], ['u']], [['d'], ['f']], [['d'], ['s']]⟩ [.startStdio, .shutdown]
    (.mkdirs [['d']]) (by decide) _ rfl

/-- what `mkdirs p` may create: exactly the non-root prefixes of `p` — `p` itself and its ancestors -/
theorem mkdirs_created (p q : Path) : q ∈ (Eff.mkdirs p).created ↔ q ≠ [] ∧ q <+: p :=
  mem_nonRootPrefixes

/-- `created` extends `written`: the written path is among the created ones, except that making
the root creates nothing -/
theorem written_mem_created (e : Eff) (p : Path) (h : e.written = some p) : p ∈ e.created ∨ p = [] := by
  cases e with
  | createFile q => simp [Eff.written] at h; subst h; left; simp [Eff.created]
  | appendFile q => simp [Eff.written] at h; subst h; left; simp [Eff.created]
  | mkdirs q =>
    simp [Eff.written] at h; subst h
    by_cases hp : q = []
    · exact Or.inr hp
    · exact Or.inl (self_mem_nonRootPrefixes hp)
  | _ => simp [Eff.written] at h

/-- **Everything created, ancestors included.** Every path an effect of any history may bring into
existence is one of the three kinds of file, or a NON-ROOT PREFIX of the directory containing the
user dictionary, of the directory containing the statistics file, or of the file-dictionary
directory: those directories themselves and their ancestors. The ancestors are OUTSIDE (above) the
configured directories — that is what `create_dir_all` does, and it is stated, not hidden. -/
theorem created_confined (P : Paths) (h : List Entry) :
    ∀ e ∈ traceAll P h, ∀ p ∈ e.created,
      p = P.userDict ∨ p = P.stats ∨ (∃ doc, p = fileDictPath P doc) ∨
      (p ≠ [] ∧ (p <+: parent P.userDict ∨ p <+: parent P.stats ∨ p <+: P.fileDir)) := by
  intro e he p hp
  simp only [traceAll, List.mem_flatMap] at he
  obtain ⟨en, _, hx⟩ := he
  rcases mem_trace hx with ⟨q, rfl⟩ | ⟨rfl, _⟩ | rfl | ⟨doc, ⟨rfl, _⟩ | rfl⟩ | ⟨rfl, _⟩ | rfl | ⟨rfl, _⟩ | ⟨rfl, _⟩ | ⟨url, rfl⟩ <;>
    simp only [Eff.created, List.mem_singleton, List.not_mem_nil] at hp
  · exact Or.inr (Or.inr (Or.inr ⟨(mem_nonRootPrefixes.mp hp).1, Or.inl (mem_nonRootPrefixes.mp hp).2⟩))
  · exact Or.inl hp
  · obtain ⟨h0, hpre⟩ := mem_nonRootPrefixes.mp hp
    refine Or.inr (Or.inr (Or.inr ⟨h0, Or.inr (Or.inr ?_)⟩))
    rcases fileDictPath_inside P doc with h2 | ⟨n, _, _, _, _, h2⟩
    · rw [h2] at hpre; exact hpre.trans (List.dropLast_prefix _)
    · rw [h2] at hpre; simpa [parent] using hpre
  · exact Or.inr (Or.inr (Or.inl ⟨doc, hp⟩))
  · exact Or.inr (Or.inr (Or.inr ⟨(mem_nonRootPrefixes.mp hp).1, Or.inr (Or.inl (mem_nonRootPrefixes.mp hp).2)⟩))
  · exact Or.inr (Or.inl hp)

/-! ### non-vacuity and hostile paths -/

def str (s : String) : List Char := s.toList

/-- `/a/../../etc/passwd` (what `..%2F..%2Fetc%2Fpasswd` decodes to) becomes ONE name -/
example : fileDictName ['/', 'a', '/', '.', '.', '/', '.', '.', '/', 'e', 't', 'c'] =
    ['a', '%', '.', '.', '%', '.', '.', '%', 'e', 't', 'c', '%'] := by decide

example : fileDictName ['/'] = [] := by decide
example : fileDictName ['/', '/', 'a', '/', '.', '/', 'b', '/'] = ['a', '%', 'b', '%'] := by decide

/-- a session that touches every kind of effect: the trace is non-empty, has two creations, one
append, three `mkdirs`, one listening socket, and nothing else that writes -/
example :
    let P : Paths := ⟨[['c'], ['u']], [['d'], ['f']], [['d'], ['s']]⟩
    let doc := ['/', 'h', '/', 'x']
    let h := [Entry.startTcp, .library, .wasm, .update doc false, .save doc true true, .addUser doc true false,
      .addFile doc false false, .configuration [(doc, true, false)], .ignoreLint, .close, .shutdown]
    ((traceAll P h).filterMap Eff.written) =
      [[['c']], [['c'], ['u']], [['d'], ['f']], [['d'], ['f'], ['h', '%', 'x', '%']], [['d']], [['d'], ['s']]] ∧
    (traceAll P h).contains (.listen [127, 0, 0, 1] 4000) = true := by
  decide

/-- `no_network_effect` is true BY CONSTRUCTION of `trace` (no entry point lists a `connect`,
`resolve` or `sendDatagram`; the content is the harness comparing `trace` with strace). What the
kernel does check: the predicate is not constantly false — the three network effects exist in `Eff`
and are recognised — and a trace that contains one is rejected. -/
example : (Eff.connect [93, 184, 216, 34] 443).isNetwork = true ∧ (Eff.resolve ['x']).isNetwork = true ∧
    (Eff.sendDatagram [8, 8, 8, 8] 53).isNetwork = true ∧
    ¬ ∀ e ∈ [Eff.accept, .connect [93, 184, 216, 34] 443], e.isNetwork = false := by decide

/-! ## from the configured STRING to the path that is written -/

/-- `~/rest` is the home directory followed by `rest` -/
theorem tilde_expands (home cwd : Path) (rest : List Char) :
    resolvePath home cwd ('~' :: '/' :: rest) = home ++ components rest := by
  simp [resolvePath, components_cons_slash]

/-- `~` alone is the home directory -/
theorem tilde_alone (home cwd : Path) : resolvePath home cwd ['~'] = home := by
  simp [resolvePath, components, splitSlash]

/-- an absolute path is unchanged, whatever home and current directory are -/
theorem absolute_unchanged (home cwd : Path) (p : List Char) :
    resolvePath home cwd ('/' :: p) = components p := by
  simp [resolvePath, components_cons_slash]

/-- the third case of `try_resolve`: anything that is neither absolute nor starts with the component
`~` is joined to the current directory (`~user/…` included) -/
theorem relative_joined (home cwd : Path) (p : List Char)
    (h1 : p.head? ≠ some '/') (h2 : p ≠ ['~']) (h3 : p.take 2 ≠ ['~', '/']) :
    resolvePath home cwd p = cwd ++ components p := by
  simp [resolvePath, h1, h2, h3]

example : resolvePath [['h']] [['w']] ['~', 'u', '/', 'x'] = [['w']] ++ components ['~', 'u', '/', 'x'] :=
  relative_joined _ _ _ (by decide) (by decide) (by decide)

/-- **Writes are confined to the RESOLVED configured paths.** For every environment, current
directory and settings object the server accepts, every path a handler creates, truncates, appends
to or makes directories for is: the resolution (`resolvePath`, i.e. `~` expanded, relative paths
joined to the current directory) of the configured `userDictPath`, or a default file
(`Config::default()`: user dictionary, statistics file), or the directory containing one of them;
or the resolution of the configured `fileDictPath` / `statsPath` (or the default dictionary
directory), its parent, or a direct child of it named by ONE NORMAL path component (`file_dict_name`;
since w24 `AllowedWrite` excludes the empty name and `.` as well as `..`: same theorem name, about
the tighter predicate). -/
theorem resolved_paths_confined (e : DirsEnv) (cwd : Path) (c : PathCfg) (P : Paths)
    (hP : fromLspConfig e cwd c = some P) (h : List Entry) :
    ∀ ev ∈ traceAll P h, ∀ p, ev.written = some p → AllowedWrite e cwd c p := by
  intro ev hev p hp
  obtain ⟨hU, hF, hS⟩ := fromLspConfig_fields hP
  have hUfile : ConfiguredFile e cwd c P.userDict := by
    rcases hU with h | ⟨s, h1, h2⟩
    · exact Or.inl h
    · exact Or.inr (Or.inr ⟨s, h1, h2⟩)
  have hSfile : ConfiguredFile e cwd c P.stats := Or.inr (Or.inl hS)
  rcases writes_confined_to_configured P h ev hev p hp with h1 | h1 | h1 | h1 | h1 | h1 | ⟨n, hn, h1⟩
  · exact Or.inl ⟨_, hUfile, Or.inl h1⟩
  · exact Or.inl ⟨_, hUfile, Or.inr h1⟩
  · exact Or.inl ⟨_, hSfile, Or.inl h1⟩
  · exact Or.inl ⟨_, hSfile, Or.inr h1⟩
  · exact Or.inr ⟨_, hF, Or.inl h1⟩
  · exact Or.inr ⟨_, hF, Or.inr (Or.inl h1)⟩
  · exact Or.inr ⟨_, hF, Or.inr (Or.inr ⟨n, hn, h1⟩)⟩

/-- **Created paths are confined — to the configured locations AND THEIR ANCESTORS.** For every
accepted configuration, every path any handler may bring into existence (`Eff.created`: files
created / appended to, and EVERY directory `create_dir_all` may make) is an allowed write, or a
non-root ancestor of an allowed root (the directory containing a configured file, or the configured
dictionary directory). The second alternative is real: missing ancestors of a configured directory
are created OUTSIDE it (see the example below: `/a` for `userDictPath = /a/b/d`). -/
theorem created_paths_confined (e : DirsEnv) (cwd : Path) (c : PathCfg) (P : Paths)
    (hP : fromLspConfig e cwd c = some P) (h : List Entry) :
    ∀ ev ∈ traceAll P h, ∀ p ∈ ev.created, AllowedCreate e cwd c p := by
  intro ev hev p hp
  obtain ⟨hU, hF, hS⟩ := fromLspConfig_fields hP
  have hUfile : ConfiguredFile e cwd c P.userDict := by
    rcases hU with h | ⟨s, h1, h2⟩
    · exact Or.inl h
    · exact Or.inr (Or.inr ⟨s, h1, h2⟩)
  have hSfile : ConfiguredFile e cwd c P.stats := Or.inr (Or.inl hS)
  rcases created_confined P h ev hev p hp with h1 | h1 | ⟨doc, h1⟩ | ⟨h0, h1 | h1 | h1⟩
  · exact Or.inl (Or.inl ⟨_, hUfile, Or.inl h1⟩)
  · exact Or.inl (Or.inl ⟨_, hSfile, Or.inl h1⟩)
  · rcases fileDictPath_inside P doc with h2 | ⟨n, hn0, hn1, hn2, hn3, h2⟩
    · exact Or.inl (Or.inr ⟨_, hF, Or.inl (by rw [h1, h2])⟩)
    · exact Or.inl (Or.inr ⟨_, hF, Or.inr (Or.inr ⟨n, ⟨hn0, hn1, hn3, hn2⟩, by rw [h1, h2]⟩)⟩)
  · exact Or.inr ⟨h0, _, Or.inl ⟨_, hUfile, rfl⟩, h1⟩
  · exact Or.inr ⟨h0, _, Or.inl ⟨_, hSfile, rfl⟩, h1⟩
  · exact Or.inr ⟨h0, _, Or.inr hF, h1⟩

/-- the same for what the DRIVER reports and the harness observes (`dirsCreated`, ops `effmk` /
`mkd`): every directory made on a file system with the directories `existing` is the `..`-resolved
form of an allowed creation, and was not there before -/
theorem dirs_created_confined (e : DirsEnv) (cwd : Path) (c : PathCfg) (P : Paths)
    (hP : fromLspConfig e cwd c = some P) (h : List Entry) (existing : List Path) :
    ∀ q ∈ dirsCreated existing (traceAll P h),
      (∃ p, AllowedCreate e cwd c p ∧ q = normDots [] p) ∧ q ≠ [] ∧ ∀ x ∈ existing, ¬ q <+: x := by
  intro q hq
  obtain ⟨⟨d, hd, r, hr, rfl⟩, hex⟩ := mem_dirsCreated hq
  exact ⟨⟨r, created_paths_confined e cwd c P hP h _ hd r hr, rfl⟩, hex⟩

/-! ### non-vacuity, the quirks, and why tilde expansion matters -/

def envH : DirsEnv := ⟨[['h']], none, none⟩
def cwdW : Path := [['w']]
/-- `{"userDictPath": "~/d", "fileDictPath": "r/f", "statsPath": "/a/s"}` -/
def cfgMixed : PathCfg :=
  ⟨some (.str ['~', '/', 'd']), some (.str ['r', '/', 'f']), some (.str ['/', 'a', '/', 's'])⟩

/-- accepted; `~/d` ↦ `/h/d`; the `statsPath` value wins the file-dictionary directory (quirk) and
the statistics file stays at its default -/
example : (fromLspConfig envH cwdW cfgMixed).map (fun P => (P.userDict, P.fileDir, P.stats)) =
    some ([['h'], ['d']], [['a'], ['s']], (defaultPaths envH).stats) := by
  decide

/-- non-vacuity of `resolved_paths_confined`: `cfgMixed` is accepted, the user-dictionary and
per-document-dictionary creations are in the trace, and the theorem (not evaluation) yields that
`/h/d` and `/a/s/x%` are allowed writes -/
example : ∃ P, fromLspConfig envH cwdW cfgMixed = some P ∧
    Eff.createFile [['h'], ['d']] ∈ traceAll P [.addUser ['/', 'x'] true false] ∧
    Eff.createFile [['a'], ['s'], ['x', '%']] ∈ traceAll P [.addFile ['/', 'x'] true false] ∧
    AllowedWrite envH cwdW cfgMixed [['h'], ['d']] ∧
    AllowedWrite envH cwdW cfgMixed [['a'], ['s'], ['x', '%']] :=
  ⟨_, rfl, by decide, by decide,
    resolved_paths_confined envH cwdW cfgMixed _ rfl [.addUser ['/', 'x'] true false]
      (.createFile [['h'], ['d']]) (by decide) _ rfl,
    resolved_paths_confined envH cwdW cfgMixed _ rfl [.addFile ['/', 'x'] true false]
      (.createFile [['a'], ['s'], ['x', '%']]) (by decide) _ rfl⟩

/-- relative ↦ below the current directory; `~user` is NOT expanded; an empty `userDictPath`
keeps the default but an empty `statsPath` makes the current directory the dictionary directory;
a non-string value rejects the configuration -/
example : resolvePath [['h']] [['w']] ['r', '/', '.', '/', 'f'] = [['w'], ['r'], ['f']] := by decide
example : resolvePath [['h']] [['w']] ['~', 'u', '/', 'x'] = [['w'], ['~', 'u'], ['x']] := by decide
example : resolvePath [['h']] [['w']] ['.', '.', '/', 'x'] = [['w'], ['.', '.'], ['x']] := by decide
example : (fromLspConfig envH cwdW ⟨some (.str []), none, some (.str [])⟩).map (fun P => (P.userDict, P.fileDir)) =
    some ((defaultPaths envH).userDict, [['w']]) := by decide
example : fromLspConfig envH cwdW ⟨none, some .other, none⟩ = none := by decide
/-- `dirs`: an XDG variable counts only when it is an absolute path -/
example : configDir ⟨[['h']], some ['/', 'x'], none⟩ = [['x']] ∧
    configDir ⟨[['h']], some ['x'], none⟩ = configDir ⟨[['h']], none, none⟩ ∧
    (configDir ⟨[['h']], none, none⟩).length = 2 := by decide

/-- **A resolver that does not expand `~` breaks confinement.** With `"userDictPath": "~/d"`, home
`/h`, current directory `/w`: `std::path::absolute`-style resolution yields `/w/~/d`; a server using
it creates that file on `HarperAddToUserDict` (first conjunct: it is in the trace), and that path
is NOT an allowed write for this configuration (second conjunct) — the configured dictionary
`/h/d` is (third). -/
example :
    let c : PathCfg := ⟨some (.str ['~', '/', 'd']), none, none⟩
    let bad := absoluteOnly cwdW ['~', '/', 'd']
    let P' : Paths := { defaultPaths envH with userDict := bad }
    Eff.createFile [['w'], ['~'], ['d']] ∈ trace P' (.addUser ['/', 'x'] false false) ∧
    ¬ AllowedWrite envH cwdW c bad ∧
    AllowedWrite envH cwdW c [['h'], ['d']] := by
  refine ⟨by decide, ?_, ?_⟩
  · intro h
    rcases h with ⟨q, hq, hp⟩ | ⟨d, hd, hp⟩
    · rcases hq with rfl | rfl | ⟨s, hs, rfl⟩
      · revert hp; decide
      · revert hp; decide
      · simp at hs; subst hs; revert hp; decide
    · rcases hd with rfl | ⟨s, hs, rfl⟩
      · rcases hp with hp | hp | ⟨n, _, hp⟩
        · revert hp; decide
        · revert hp; decide
        · have := congrArg List.length hp
          simp [absoluteOnly, cwdW, components, splitSlash, defaultPaths, dataDir, xdgOr, envH] at this
      · simp at hs
  · exact Or.inl ⟨[['h'], ['d']], Or.inr (Or.inr ⟨['~', '/', 'd'], rfl, by decide⟩), Or.inl rfl⟩


/-! ### w24: the tighter `AllowedWrite`, and the ancestors -/

/-- `{"userDictPath": "/a/b/d"}` -/
def cfgDeep : PathCfg := ⟨some (.str ['/', 'a', '/', 'b', '/', 'd']), none, none⟩

/-- **The tightening is real**: below the (default) dictionary directory `d`, the paths `d ++ [""]`,
`d ++ ["."]` and `d ++ [".."]` are NOT allowed writes (the first two were before w24), a child with
a normal name is. -/
example :
    let d := (defaultPaths envH).fileDir
    ¬ AllowedWrite envH cwdW cfgDeep (d ++ [[]]) ∧ ¬ AllowedWrite envH cwdW cfgDeep (d ++ [['.']]) ∧
    ¬ AllowedWrite envH cwdW cfgDeep (d ++ [['.', '.']]) ∧ AllowedWrite envH cwdW cfgDeep (d ++ [['x', '%']]) := by
  have key : ∀ n, ¬ NormalName n → ¬ AllowedWrite envH cwdW cfgDeep ((defaultPaths envH).fileDir ++ [n]) := by
    intro n hn h
    rcases h with ⟨q, hq, hp⟩ | ⟨d, hd, hp⟩
    · have hl : q.length ≤ 5 := by
        rcases hq with rfl | rfl | ⟨s, hs, rfl⟩
        · decide
        · decide
        · simp [cfgDeep] at hs; subst hs; decide
      have h6 : ((defaultPaths envH).fileDir ++ [n]).length = 6 := by
        simp [defaultPaths, dataDir, xdgOr, envH]
      rcases hp with hp | hp
      · rw [hp] at h6; omega
      · rw [hp] at h6; simp [parent] at h6; omega
    · rcases hd with rfl | ⟨s, hs, rfl⟩
      · rcases hp with hp | hp | ⟨m, hm, hp⟩
        · have := congrArg List.length hp; simp at this
        · have := congrArg List.length hp; simp [parent] at this; omega
        · have := List.append_cancel_left hp
          simp at this; subst this; exact hn hm
      · simp [cfgDeep] at hs
  refine ⟨key _ (by simp [NormalName]), key _ (by simp [NormalName]), key _ (by simp [NormalName]), ?_⟩
  exact Or.inr ⟨_, Or.inl rfl, Or.inr (Or.inr ⟨['x', '%'], by simp [NormalName], rfl⟩)⟩

/-- **Ancestors are created outside the configured directory** — non-vacuity of
`created_paths_confined` and the honest half of its statement. `userDictPath = /a/b/d`: the
configuration is accepted; `HarperAddToUserDict` makes `create_dir_all(/a/b)`, which may create `/a`
and `/a/b` (both in `created`); `/a/b` is an allowed write (the directory containing the
dictionary), `/a` is NOT — it is an allowed CREATION only as an ancestor; the theorem yields both.
On a machine where `/a` is missing and `/h` exists, the driver's `dirsCreated` lists `/a`, `/a/b`. -/
example : ∃ P, fromLspConfig envH cwdW cfgDeep = some P ∧
    Eff.mkdirs [['a'], ['b']] ∈ traceAll P [.addUser ['/', 'x'] true false] ∧
    (Eff.mkdirs [['a'], ['b']]).created = [[['a']], [['a'], ['b']]] ∧
    AllowedWrite envH cwdW cfgDeep [['a'], ['b']] ∧ ¬ AllowedWrite envH cwdW cfgDeep [['a']] ∧
    AllowedCreate envH cwdW cfgDeep [['a']] ∧
    dirsCreated [[['h']]] (traceAll P [.addUser ['/', 'x'] true false]) = [[['a']], [['a'], ['b']]] ∧
    dirsCreated [[['a']]] (traceAll P [.addUser ['/', 'x'] true false]) = [[['a'], ['b']]] := by
  refine ⟨_, rfl, by decide, by decide, ?_, ?_, ?_, by decide, by decide⟩
  · exact Or.inl ⟨[['a'], ['b'], ['d']], Or.inr (Or.inr ⟨_, rfl, by decide⟩), Or.inr (by decide)⟩
  · intro h
    rcases h with ⟨q, hq, hp⟩ | ⟨d, hd, hp⟩
    · rcases hq with rfl | rfl | ⟨s, hs, rfl⟩
      · revert hp; decide
      · revert hp; decide
      · simp [cfgDeep] at hs; subst hs; revert hp; decide
    · rcases hd with rfl | ⟨s, hs, rfl⟩
      · rcases hp with hp | hp | ⟨n, _, hp⟩
        · revert hp; decide
        · revert hp; decide
        · have := congrArg List.length hp
          simp [defaultPaths, dataDir, xdgOr, envH] at this
      · simp [cfgDeep] at hs
  · exact created_paths_confined envH cwdW cfgDeep _ rfl [.addUser ['/', 'x'] true false]
      (.mkdirs [['a'], ['b']]) (by decide) _ (by decide)

/-- `..` in a configured path: `create_dir_all(/w/../s/f)` makes `/w` (if missing), then — through
`/w/..`, the root — `/s` and `/s/f`; lexical resolution is what the kernel does here because every
component before a `..` has just been made a real directory -/
example : dirsCreated [[['w']]] [.mkdirs [['w'], ['.', '.'], ['s'], ['f']]] = [[['s']], [['s'], ['f']]] ∧
    dirsCreated [] [.mkdirs [['w'], ['.', '.'], ['s']]] = [[['w']], [['s']]] := by decide

/-- `file_dict_name` of the root path and of paths that have no normal component is empty, of
anything else not; `.` never comes out -/
example : fileDictName ['/'] = [] ∧ fileDictName ['/', '.', '/', '/', '.'] = [] ∧
    fileDictName ['/', '.', '.'] = ['.', '.', '%'] ∧ fileDictName ['/', '.', 'a'] = ['.', 'a', '%'] := by decide

end Harper.C10
