import Harper.Lemmas.PatternRules
import Harper.Props.C03c
import Harper.Props.C01Rules
/-!
# C03 / C01 (shipped `PatternLinter` rules) — every lint of the 28 rules points into the text

Generic layer, for any rule = (pattern tree, `Spec`) that is `Fine` (`Props/C01Rules.lean`):

* `patternRule_spans_wf`: on well-formed tokens inside the text IN ANY ORDER (zero-width ones included: also what the
  Markdown front-end delivers) the rule returns, and every lint has `start ≤ stop ≤ len`;
* `matchToLint_span_is_selection`: a lint's span is exactly the selection of matched tokens the spec names
  (`matched_tokens.span()`, `matched_tokens[i].span`, `first()`, `last()`, `matched_tokens[a..b].span()`, `[len - k]`);
* `matchToLint_span_within_match`: and that selection lies inside `matched_tokens.span()` — no rule reports outside its match;
* `matchToLint_at_most_one`: `Option<Lint>`.

Per rule: `shippedRule_spans_wf` by name, and one corollary per rule.
-/
namespace Harper.C03
open Harper Harper.Chunks Harper.Rules Harper.Leaves Harper.PatternRules

/-- **every fine rule, on tokens in any order**: no panic anywhere in pattern, `run_on_chunk` or `match_to_lint`, and
`start ≤ stop ≤ len` for every lint -/
theorem patternRule_spans_wf (env : Env) (r : PRule) (hr : Fine r) (src : List Char) (toks : List Tok) (h : InText src toks) :
    RunsWF (r.rule env) src toks :=
  overPieces_okh inText_hyp _ _ src toks h (fun piece hpc => PRule.piece_ok env r hr src piece hpc)

/-- **every shipped `PatternLinter` rule, by name** -/
theorem shippedRule_spans_wf (env : Env) (name : String) (r : PRule) (hn : patternRuleByName name = some r) (src : List Char)
    (toks : List Tok) (h : InText src toks) : RunsWF (r.rule env) src toks :=
  patternRule_spans_wf env r (fine_of_name name r hn) src toks h

/-- **where the lint is**: the selection of matched tokens the spec names — whatever the tokens are -/
theorem matchToLint_span_is_selection (env : Env) (s : Spec) (src : List Char) (matched : List Tok) (ls : List RuleLint)
    (h : s.run env src matched = .ok ls) (l : RuleLint) (hl : l ∈ ls) : s.span.eval matched = .ok (some l.span) :=
  Spec.run_span env s src matched ls h l hl

/-- **no rule reports outside its match**: the lint's span lies inside `matched_tokens.span()` -/
theorem matchToLint_span_within_match (env : Env) (s : Spec) (src : List Char) (matched : List Tok) (ls : List RuleLint)
    (h : s.run env src matched = .ok ls) (l : RuleLint) (hl : l ∈ ls) (sp : Span) (hsp : spanOf matched = some sp) :
    sp.start ≤ l.span.start ∧ l.span.stop ≤ sp.stop :=
  Sel.eval_within s.span matched sp l.span hsp (Spec.run_span env s src matched ls h l hl)

/-- `match_to_lint` returns `Option<Lint>`: at most one -/
theorem matchToLint_at_most_one (env : Env) (s : Spec) (src : List Char) (matched : List Tok) (ls : List RuleLint)
    (h : s.run env src matched = .ok ls) : ls.length ≤ 1 := by
  simp only [Spec.run] at h
  repeat' split at h
  all_goals first | (cases h; simp) | cases h

/-- on in-text tokens of a fitting length the lint is in the text (the `match_to_lint` half of `patternRule_spans_wf`) -/
theorem matchToLint_spans_wf (env : Env) (s : Spec) (hg : s.Good) (src : List Char) (matched : List Tok)
    (h : InText src matched) (hf : s.Fits matched.length) :
    ∃ ls, s.run env src matched = .ok ls ∧ ∀ l ∈ ls, l.span.start ≤ l.span.stop ∧ l.span.stop ≤ src.length :=
  (Spec.run_ok env s hg src matched h hf).imp fun _ h => ⟨h.1, fun l hl => (h.2 l hl).1⟩

/-! ## one corollary per rule -/

theorem backInTheDay_spans_wf (env : Env) (src : List Char) (toks : List Tok) (h : InText src toks) :
    RunsWF (PRule.rule env ⟨patBackInTheDay, specBackInTheDay⟩) src toks := patternRule_spans_wf env _ fineBackInTheDay src toks h
theorem dashes_spans_wf (env : Env) (src : List Char) (toks : List Tok) (h : InText src toks) :
    RunsWF (PRule.rule env ⟨patDashes, specDashes⟩) src toks := patternRule_spans_wf env _ fineDashes src toks h
theorem outOfDate_spans_wf (env : Env) (src : List Char) (toks : List Tok) (h : InText src toks) :
    RunsWF (PRule.rule env ⟨patOutOfDate, specOutOfDate⟩) src toks := patternRule_spans_wf env _ fineOutOfDate src toks h
theorem thenThan_spans_wf (env : Env) (src : List Char) (toks : List Tok) (h : InText src toks) :
    RunsWF (PRule.rule env ⟨patThenThan, specThenThan⟩) src toks := patternRule_spans_wf env _ fineThenThan src toks h
theorem piqueInterest_spans_wf (env : Env) (src : List Char) (toks : List Tok) (h : InText src toks) :
    RunsWF (PRule.rule env ⟨patPiqueInterest, specPiqueInterest⟩) src toks := patternRule_spans_wf env _ finePiqueInterest src toks h
theorem wasAloud_spans_wf (env : Env) (src : List Char) (toks : List Tok) (h : InText src toks) :
    RunsWF (PRule.rule env ⟨patWasAloud, specWasAloud⟩) src toks := patternRule_spans_wf env _ fineWasAloud src toks h
theorem hyphenateNumberDay_spans_wf (env : Env) (src : List Char) (toks : List Tok) (h : InText src toks) :
    RunsWF (PRule.rule env ⟨patHyphenateNumberDay, specHyphenateNumberDay⟩) src toks := patternRule_spans_wf env _ fineHyphenateNumberDay src toks h
theorem leftRightHand_spans_wf (env : Env) (src : List Char) (toks : List Tok) (h : InText src toks) :
    RunsWF (PRule.rule env ⟨patLeftRightHand, specLeftRightHand⟩) src toks := patternRule_spans_wf env _ fineLeftRightHand src toks h
theorem hereby_spans_wf (env : Env) (src : List Char) (toks : List Tok) (h : InText src toks) :
    RunsWF (PRule.rule env ⟨patHereby, specHereby⟩) src toks := patternRule_spans_wf env _ fineHereby src toks h
theorem likewise_spans_wf (env : Env) (src : List Char) (toks : List Tok) (h : InText src toks) :
    RunsWF (PRule.rule env ⟨patLikewise, specLikewise⟩) src toks := patternRule_spans_wf env _ fineLikewise src toks h
theorem nobody_spans_wf (env : Env) (src : List Char) (toks : List Tok) (h : InText src toks) :
    RunsWF (PRule.rule env ⟨patNobody, specNobody⟩) src toks := patternRule_spans_wf env _ fineNobody src toks h
theorem whereas_spans_wf (env : Env) (src : List Char) (toks : List Tok) (h : InText src toks) :
    RunsWF (PRule.rule env ⟨patWhereas, specWhereas⟩) src toks := patternRule_spans_wf env _ fineWhereas src toks h
theorem possessiveYour_spans_wf (env : Env) (src : List Char) (toks : List Tok) (h : InText src toks) :
    RunsWF (PRule.rule env ⟨patPossessiveYour, specPossessiveYour⟩) src toks := patternRule_spans_wf env _ finePossessiveYour src toks h
theorem multipleSequentialPronouns_spans_wf (env : Env) (src : List Char) (toks : List Tok) (h : InText src toks) :
    RunsWF (PRule.rule env ⟨patMultipleSequentialPronouns, specMultipleSequentialPronouns⟩) src toks := patternRule_spans_wf env _ fineMultipleSequentialPronouns src toks h
theorem dotInitialisms_spans_wf (env : Env) (src : List Char) (toks : List Tok) (h : InText src toks) :
    RunsWF (PRule.rule env ⟨patDotInitialisms, specDotInitialisms⟩) src toks := patternRule_spans_wf env _ fineDotInitialisms src toks h
theorem boringWords_spans_wf (env : Env) (src : List Char) (toks : List Tok) (h : InText src toks) :
    RunsWF (PRule.rule env ⟨patBoringWords, specBoringWords⟩) src toks := patternRule_spans_wf env _ fineBoringWords src toks h
theorem useGenitive_spans_wf (env : Env) (src : List Char) (toks : List Tok) (h : InText src toks) :
    RunsWF (PRule.rule env ⟨patUseGenitive, specUseGenitive⟩) src toks := patternRule_spans_wf env _ fineUseGenitive src toks h
theorem thatWhich_spans_wf (env : Env) (src : List Char) (toks : List Tok) (h : InText src toks) :
    RunsWF (PRule.rule env ⟨patThatWhich, specThatWhich⟩) src toks := patternRule_spans_wf env _ fineThatWhich src toks h
theorem somewhatSomething_spans_wf (env : Env) (src : List Char) (toks : List Tok) (h : InText src toks) :
    RunsWF (PRule.rule env ⟨patSomewhatSomething, specSomewhatSomething⟩) src toks := patternRule_spans_wf env _ fineSomewhatSomething src toks h
theorem despiteOf_spans_wf (env : Env) (src : List Char) (toks : List Tok) (h : InText src toks) :
    RunsWF (PRule.rule env ⟨patDespiteOf, specDespiteOf⟩) src toks := patternRule_spans_wf env _ fineDespiteOf src toks h
theorem chockFull_spans_wf (env : Env) (src : List Char) (toks : List Tok) (h : InText src toks) :
    RunsWF (PRule.rule env ⟨patChockFull, specChockFull⟩) src toks := patternRule_spans_wf env _ fineChockFull src toks h
theorem confident_spans_wf (env : Env) (src : List Char) (toks : List Tok) (h : InText src toks) :
    RunsWF (PRule.rule env ⟨patConfident, specConfident⟩) src toks := patternRule_spans_wf env _ fineConfident src toks h
theorem oxymorons_spans_wf (env : Env) (src : List Char) (toks : List Tok) (h : InText src toks) :
    RunsWF (PRule.rule env ⟨patOxymorons, specOxymorons⟩) src toks := patternRule_spans_wf env _ fineOxymorons src toks h
theorem hedging_spans_wf (env : Env) (src : List Char) (toks : List Tok) (h : InText src toks) :
    RunsWF (PRule.rule env ⟨patHedging, specHedging⟩) src toks := patternRule_spans_wf env _ fineHedging src toks h
theorem expandTimeShorthands_spans_wf (env : Env) (src : List Char) (toks : List Tok) (h : InText src toks) :
    RunsWF (PRule.rule env ⟨patExpandTimeShorthands, specExpandTimeShorthands⟩) src toks := patternRule_spans_wf env _ fineExpandTimeShorthands src toks h
theorem forNoun_spans_wf (env : Env) (src : List Char) (toks : List Tok) (h : InText src toks) :
    RunsWF (PRule.rule env ⟨patForNoun, specForNoun⟩) src toks := patternRule_spans_wf env _ fineForNoun src toks h
theorem theHowWhy_spans_wf (env : Env) (src : List Char) (toks : List Tok) (h : InText src toks) :
    RunsWF (PRule.rule env ⟨patTheHowWhy, specTheHowWhy⟩) src toks := patternRule_spans_wf env _ fineTheHowWhy src toks h
theorem widelyAccepted_spans_wf (env : Env) (src : List Char) (toks : List Tok) (h : InText src toks) :
    RunsWF (PRule.rule env ⟨patWidelyAccepted, specWidelyAccepted⟩) src toks := patternRule_spans_wf env _ fineWidelyAccepted src toks h

/-! ## non-vacuity (kernel-evaluated) -/

open Harper.C12 (env0)

/-- tokens of the Markdown parser's shape (a zero-width `ParagraphBreak` at an EARLIER offset after the words): `InText`
holds, Whereas reports `where as` with the capital kept -/
example : InText ['#', ' ', 'W', 'h', 'e', 'r', 'e', ' ', 'a', 's']
    [⟨⟨2, 7⟩, .word⟩, ⟨⟨7, 8⟩, .space 1⟩, ⟨⟨8, 10⟩, .word⟩, ⟨⟨2, 2⟩, .paragraphBreak⟩] := by
  intro t ht
  simp only [List.mem_cons, List.mem_nil_iff, or_false] at ht
  rcases ht with rfl | rfl | rfl | rfl <;> exact ⟨by decide, by decide⟩

example : PRule.rule env0 ⟨patWhereas, specWhereas⟩ ['#', ' ', 'W', 'h', 'e', 'r', 'e', ' ', 'a', 's']
      [⟨⟨2, 7⟩, .word⟩, ⟨⟨7, 8⟩, .space 1⟩, ⟨⟨8, 10⟩, .word⟩, ⟨⟨2, 2⟩, .paragraphBreak⟩] =
    .ok [⟨⟨2, 10⟩, [.replaceWith ['W', 'h', 'e', 'r', 'e', 'a', 's']], 31, 0⟩] := by decide

/-- LeftRightHand reports the blank (`matched_tokens[1]`), inside the five matched tokens -/
example : specLeftRightHand.run env0 ['l', 'e', 'f', 't', ' ', 'h', 'a', 'n', 'd', ' ', 'x']
      [⟨⟨0, 4⟩, .word⟩, ⟨⟨4, 5⟩, .space 1⟩, ⟨⟨5, 9⟩, .word⟩, ⟨⟨9, 10⟩, .space 1⟩, ⟨⟨10, 11⟩, .word⟩] =
    .ok [⟨⟨4, 5⟩, [.replaceWith ['-']], 27, 0⟩] := by decide

end Harper.C03
