import Harper.Lemmas.PatternRules
import Harper.Props.C03c
import Harper.Props.C01Rules
import Harper.Props.C03e
/-!
# C03 / C01 (shipped `PatternLinter` rules) — every lint of the 28 rules points into the text

Generic layer, for any rule = (pattern tree, `Spec`) that is `Fine` (`Props/C01Rules.lean`):

* `patternRule_spans_wf`: on well-formed tokens inside the text IN ANY ORDER (zero-width ones included: also what the
  Markdown front-end delivers) the rule returns, and every lint has `start ≤ stop ≤ len`;
* `matchToLint_span_is_selection`: a lint's span is exactly the selection of matched tokens the spec names
  (`matched_tokens.span()`, `matched_tokens[i].span`, `first()`, `last()`, `matched_tokens[a..b].span()`, `[len - k]`);
* `matchToLint_span_within_match`: and that selection lies inside `matched_tokens.span()` — no rule reports outside its match;
* `matchToLint_at_most_one`: `Option<Lint>`.

Per rule: `shippedRule_spans_wf` by name, and one corollary per rule.
-/
namespace Harper.C03
open Harper Harper.Chunks Harper.Rules Harper.Leaves Harper.PatternRules
open Harper.C12 (env0)

/-- **every fine rule, on tokens in any order**: no panic anywhere in pattern, `run_on_chunk` or `match_to_lint`, and
`start ≤ stop ≤ len` for every lint -/
theorem patternRule_spans_wf (env : Env) (r : PRule) (hr : Fine r) (src : List Char) (toks : List Tok) (h : InText src toks) :
    RunsWF (r.rule env) src toks :=
  overPieces_okh inText_hyp _ _ src toks h (fun piece hpc => PRule.piece_ok env r hr src piece hpc)

/-- **every shipped `PatternLinter` rule, by name** -/
theorem shippedRule_spans_wf (env : Env) (name : String) (r : PRule) (hn : patternRuleByName name = some r) (src : List Char)
    (toks : List Tok) (h : InText src toks) : RunsWF (r.rule env) src toks :=
  patternRule_spans_wf env r (fine_of_name name r hn) src toks h

/-- non-vacuity of `patternRule_spans_wf` / `shippedRule_spans_wf`: the name `"Whereas"` is in the table and its rule is
`Fine`; tokens in the text on which it fires: the examples at the end of this file -/
example : patternRuleByName "Whereas" = some ⟨patWhereas, specWhereas⟩ ∧ Fine ⟨patWhereas, specWhereas⟩ := ⟨rfl, fineWhereas⟩

/-- **every suggestion of every lint of a fine rule is a local edit** (the second clause of C03 for the 28 rules; `SuggestionsLocal`,
`suggestions_local` of `Props/C03e.lean`): the modelled `Suggestion::apply` returns `src[..start] ++ new ++ src[end..]` -/
theorem patternRule_suggestions_local (env : Env) (r : PRule) (hr : Fine r) (src : List Char) (toks : List Tok) (h : InText src toks) :
    SuggestionsLocal (r.rule env) src toks := suggestions_local _ src toks (patternRule_spans_wf env r hr src toks h)

/-- … by name, for each of the 28 -/
theorem shippedRule_suggestions_local (env : Env) (name : String) (r : PRule) (hn : patternRuleByName name = some r) (src : List Char)
    (toks : List Tok) (h : InText src toks) : SuggestionsLocal (r.rule env) src toks :=
  patternRule_suggestions_local env r (fine_of_name name r hn) src toks h

/-- non-vacuity of `patternRule_suggestions_local` / `shippedRule_suggestions_local`: Whereas on the tokens of `Where as x` offers
`Whereas` for `0..8`; the theorem gives the splice `Whereas x` -/
example : (toSuggestion (.replaceWith c!"Whereas")).apply ⟨0, 8⟩ c!"Where as x" = .ok c!"Whereas x" :=
  shippedRule_suggestions_local env0 "Whereas" _ rfl c!"Where as x"
    [⟨⟨0, 5⟩, .word⟩, ⟨⟨5, 6⟩, .space 1⟩, ⟨⟨6, 8⟩, .word⟩, ⟨⟨8, 9⟩, .space 1⟩, ⟨⟨9, 10⟩, .word⟩] (by unfold InText TokIn; decide)
    [⟨⟨0, 8⟩, [.replaceWith c!"Whereas"], 31, 0⟩] (by decide) ⟨⟨0, 8⟩, [.replaceWith c!"Whereas"], 31, 0⟩ (List.mem_singleton.mpr rfl)
    (.replaceWith c!"Whereas") (List.mem_singleton.mpr rfl)

/-- **all 28, on documents**: whichever rule the driver's table `patternRuleByName` dispatches to, run on the tokens of ANY
plain-English document (any class table, any in-bounds url / e-mail / hostname lexer, any `Env`), returns — no panic — and
every lint has `start ≤ end ≤ text length`: the hypothesis `InText` discharged by `on_documents` -/
theorem shippedRule_on_documents (cls : Cls) (ext : Ext) (src : List Char) (hext : ExtOK ext src.length)
    (env : Env) (name : String) (r : PRule) (hn : patternRuleByName name = some r) :
    ∃ ls, C12.docRule cls ext (r.rule env) src = .ok ls ∧ ∀ l ∈ ls, l.span.start ≤ l.span.stop ∧ l.span.stop ≤ src.length := by
  obtain ⟨toks, e, hT, _⟩ := on_documents cls ext src hext
  simp only [C12.docRule, e]
  exact shippedRule_spans_wf env name r hn src toks (inText_of_tiles src toks hT)

/-- non-vacuity of `shippedRule_on_documents`: at `a--b` for Dashes, where it fires -/
example : (∃ ls, C12.docRule C02.asciiCls C12.noExt (PRule.rule env0 ⟨patDashes, specDashes⟩) c!"a--b" = .ok ls ∧
      ∀ l ∈ ls, l.span.start ≤ l.span.stop ∧ l.span.stop ≤ 4) ∧
    C12.docRule C02.asciiCls C12.noExt (PRule.rule env0 ⟨patDashes, specDashes⟩) c!"a--b" = .ok [⟨⟨1, 3⟩, [.replaceWith ['–']], 21, 2⟩] :=
  ⟨shippedRule_on_documents C02.asciiCls C12.noExt _ (by intro _ _ _ h; cases h) env0 "Dashes" _ rfl, by decide⟩

/-- **where the lint is**: the selection of matched tokens the spec names — whatever the tokens are -/
theorem matchToLint_span_is_selection (env : Env) (s : Spec) (src : List Char) (matched : List Tok) (ls : List RuleLint)
    (h : s.run env src matched = .ok ls) (l : RuleLint) (hl : l ∈ ls) : s.span.eval matched = .ok (some l.span) :=
  Spec.run_span env s src matched ls h l hl

/-- **no rule reports outside its match**: the lint's span lies inside `matched_tokens.span()` -/
theorem matchToLint_span_within_match (env : Env) (s : Spec) (src : List Char) (matched : List Tok) (ls : List RuleLint)
    (h : s.run env src matched = .ok ls) (l : RuleLint) (hl : l ∈ ls) (sp : Span) (hsp : spanOf matched = some sp) :
    sp.start ≤ l.span.start ∧ l.span.stop ≤ sp.stop :=
  Sel.eval_within s.span matched sp l.span hsp (Spec.run_span env s src matched ls h l hl)

/-- non-vacuity of `matchToLint_span_is_selection` / `matchToLint_span_within_match` / `matchToLint_at_most_one`:
LeftRightHand's `match_to_lint` on the five tokens of `left hand x` returns the lint `4..5`; that IS `matched_tokens[1]`,
inside `matched_tokens.span()` = `0..11` -/
example : specLeftRightHand.span.eval [⟨⟨0, 4⟩, .word⟩, ⟨⟨4, 5⟩, .space 1⟩, ⟨⟨5, 9⟩, .word⟩, ⟨⟨9, 10⟩, .space 1⟩, ⟨⟨10, 11⟩, .word⟩] = .ok (some ⟨4, 5⟩) ∧
    ((0 : Nat) ≤ 4 ∧ 5 ≤ 11) :=
  have h : specLeftRightHand.run env0 c!"left hand x" [⟨⟨0, 4⟩, .word⟩, ⟨⟨4, 5⟩, .space 1⟩, ⟨⟨5, 9⟩, .word⟩, ⟨⟨9, 10⟩, .space 1⟩, ⟨⟨10, 11⟩, .word⟩] =
      .ok [⟨⟨4, 5⟩, [.replaceWith ['-']], 27, 0⟩] := by decide
  ⟨matchToLint_span_is_selection env0 _ _ _ _ h ⟨⟨4, 5⟩, [.replaceWith ['-']], 27, 0⟩ (List.mem_singleton.mpr rfl),
    matchToLint_span_within_match env0 _ _ _ _ h ⟨⟨4, 5⟩, [.replaceWith ['-']], 27, 0⟩ (List.mem_singleton.mpr rfl) ⟨0, 11⟩ (by decide)⟩

/-- `match_to_lint` returns `Option<Lint>`: at most one -/
theorem matchToLint_at_most_one (env : Env) (s : Spec) (src : List Char) (matched : List Tok) (ls : List RuleLint)
    (h : s.run env src matched = .ok ls) : ls.length ≤ 1 := by
  simp only [Spec.run] at h
  repeat' split at h
  all_goals first | (cases h; simp) | cases h

/-- on in-text tokens of a fitting length the lint is in the text (the `match_to_lint` half of `patternRule_spans_wf`) -/
theorem matchToLint_spans_wf (env : Env) (s : Spec) (hg : s.Good) (src : List Char) (matched : List Tok)
    (h : InText src matched) (hf : s.Fits matched.length) :
    ∃ ls, s.run env src matched = .ok ls ∧ ∀ l ∈ ls, l.span.start ≤ l.span.stop ∧ l.span.stop ≤ src.length :=
  (Spec.run_ok env s hg src matched h hf).imp fun _ h => ⟨h.1, fun l hl => (h.2 l hl).1⟩

/-- non-vacuity of `matchToLint_spans_wf`: LeftRightHand's spec is `Good`, `Fits` five tokens, and the five tokens of
`left hand x` are in the text (the lint it returns on them: the last example of this file) -/
example : specLeftRightHand.Good ∧ specLeftRightHand.Fits 5 ∧
    InText c!"left hand x" [⟨⟨0, 4⟩, .word⟩, ⟨⟨4, 5⟩, .space 1⟩, ⟨⟨5, 9⟩, .word⟩, ⟨⟨9, 10⟩, .space 1⟩, ⟨⟨10, 11⟩, .word⟩] :=
  ⟨fineLeftRightHand.good, fineLeftRightHand.fits 5 (by decide) (by decide), by unfold InText TokIn; decide⟩

/-! ## one corollary per rule -/

theorem backInTheDay_spans_wf (env : Env) (src : List Char) (toks : List Tok) (h : InText src toks) :
    RunsWF (PRule.rule env ⟨patBackInTheDay, specBackInTheDay⟩) src toks := patternRule_spans_wf env _ fineBackInTheDay src toks h
/-- non-vacuity of `backInTheDay_spans_wf`: the tokens of `back in the days` are in the text and the rule fires -/
example : InText c!"back in the days" [⟨⟨0, 4⟩, .word⟩, ⟨⟨4, 5⟩, .space 1⟩, ⟨⟨5, 7⟩, .word⟩, ⟨⟨7, 8⟩, .space 1⟩, ⟨⟨8, 11⟩, .word⟩, ⟨⟨11, 12⟩, .space 1⟩, ⟨⟨12, 16⟩, .word⟩] ∧
    PRule.rule env0 ⟨patBackInTheDay, specBackInTheDay⟩ c!"back in the days"
      [⟨⟨0, 4⟩, .word⟩, ⟨⟨4, 5⟩, .space 1⟩, ⟨⟨5, 7⟩, .word⟩, ⟨⟨7, 8⟩, .space 1⟩, ⟨⟨8, 11⟩, .word⟩, ⟨⟨11, 12⟩, .space 1⟩, ⟨⟨12, 16⟩, .word⟩] =
    .ok [⟨⟨0, 16⟩, [.replaceWith c!"back in the day"], 20, 0⟩] := ⟨by unfold InText TokIn; decide, by decide⟩
theorem dashes_spans_wf (env : Env) (src : List Char) (toks : List Tok) (h : InText src toks) :
    RunsWF (PRule.rule env ⟨patDashes, specDashes⟩) src toks := patternRule_spans_wf env _ fineDashes src toks h
/-- non-vacuity of `dashes_spans_wf`: the tokens of `a--b` are in the text and the rule fires -/
example : InText c!"a--b" [⟨⟨0, 1⟩, .word⟩, ⟨⟨1, 2⟩, .punct .Hyphen⟩, ⟨⟨2, 3⟩, .punct .Hyphen⟩, ⟨⟨3, 4⟩, .word⟩] ∧
    PRule.rule env0 ⟨patDashes, specDashes⟩ c!"a--b"
      [⟨⟨0, 1⟩, .word⟩, ⟨⟨1, 2⟩, .punct .Hyphen⟩, ⟨⟨2, 3⟩, .punct .Hyphen⟩, ⟨⟨3, 4⟩, .word⟩] =
    .ok [⟨⟨1, 3⟩, [.replaceWith ['–']], 21, 2⟩] := ⟨by unfold InText TokIn; decide, by decide⟩
theorem outOfDate_spans_wf (env : Env) (src : List Char) (toks : List Tok) (h : InText src toks) :
    RunsWF (PRule.rule env ⟨patOutOfDate, specOutOfDate⟩) src toks := patternRule_spans_wf env _ fineOutOfDate src toks h
/-- non-vacuity of `outOfDate_spans_wf`: the tokens of `out of date` are in the text and the rule fires -/
example : InText c!"out of date" [⟨⟨0, 3⟩, .word⟩, ⟨⟨3, 4⟩, .space 1⟩, ⟨⟨4, 6⟩, .word⟩, ⟨⟨6, 7⟩, .space 1⟩, ⟨⟨7, 11⟩, .word⟩] ∧
    PRule.rule env0 ⟨patOutOfDate, specOutOfDate⟩ c!"out of date"
      [⟨⟨0, 3⟩, .word⟩, ⟨⟨3, 4⟩, .space 1⟩, ⟨⟨4, 6⟩, .word⟩, ⟨⟨6, 7⟩, .space 1⟩, ⟨⟨7, 11⟩, .word⟩] =
    .ok [⟨⟨0, 11⟩, [.replaceWith c!"out-of-date"], 22, 0⟩] := ⟨by unfold InText TokIn; decide, by decide⟩
theorem thenThan_spans_wf (env : Env) (src : List Char) (toks : List Tok) (h : InText src toks) :
    RunsWF (PRule.rule env ⟨patThenThan, specThenThan⟩) src toks := patternRule_spans_wf env _ fineThenThan src toks h
/-- non-vacuity of `thenThan_spans_wf`: the tokens of `bigger then you` are in the text and the rule fires -/
example : InText c!"bigger then you" [⟨⟨0, 6⟩, .word⟩, ⟨⟨6, 7⟩, .space 1⟩, ⟨⟨7, 11⟩, .word⟩, ⟨⟨11, 12⟩, .space 1⟩, ⟨⟨12, 15⟩, .word⟩] ∧
    PRule.rule { env0 with wordFlags := fun w => if w == c!"bigger" then 8 else 0 } ⟨patThenThan, specThenThan⟩ c!"bigger then you"
      [⟨⟨0, 6⟩, .word⟩, ⟨⟨6, 7⟩, .space 1⟩, ⟨⟨7, 11⟩, .word⟩, ⟨⟨11, 12⟩, .space 1⟩, ⟨⟨12, 15⟩, .word⟩] =
    .ok [⟨⟨7, 11⟩, [.replaceWith c!"than"], 23, 0⟩] := ⟨by unfold InText TokIn; decide, by decide⟩
theorem piqueInterest_spans_wf (env : Env) (src : List Char) (toks : List Tok) (h : InText src toks) :
    RunsWF (PRule.rule env ⟨patPiqueInterest, specPiqueInterest⟩) src toks := patternRule_spans_wf env _ finePiqueInterest src toks h
/-- non-vacuity of `piqueInterest_spans_wf`: the tokens of `peak my interest` are in the text and the rule fires -/
example : InText c!"peak my interest" [⟨⟨0, 4⟩, .word⟩, ⟨⟨4, 5⟩, .space 1⟩, ⟨⟨5, 7⟩, .word⟩, ⟨⟨7, 8⟩, .space 1⟩, ⟨⟨8, 16⟩, .word⟩] ∧
    PRule.rule { env0 with wordFlags := fun w => if w == c!"my" then 16384 else 0 } ⟨patPiqueInterest, specPiqueInterest⟩ c!"peak my interest"
      [⟨⟨0, 4⟩, .word⟩, ⟨⟨4, 5⟩, .space 1⟩, ⟨⟨5, 7⟩, .word⟩, ⟨⟨7, 8⟩, .space 1⟩, ⟨⟨8, 16⟩, .word⟩] =
    .ok [⟨⟨0, 4⟩, [.replaceWith c!"pique"], 24, 0⟩] := ⟨by unfold InText TokIn; decide, by decide⟩
theorem wasAloud_spans_wf (env : Env) (src : List Char) (toks : List Tok) (h : InText src toks) :
    RunsWF (PRule.rule env ⟨patWasAloud, specWasAloud⟩) src toks := patternRule_spans_wf env _ fineWasAloud src toks h
/-- non-vacuity of `wasAloud_spans_wf`: the tokens of `was aloud` are in the text and the rule fires -/
example : InText c!"was aloud" [⟨⟨0, 3⟩, .word⟩, ⟨⟨3, 4⟩, .space 1⟩, ⟨⟨4, 9⟩, .word⟩] ∧
    PRule.rule env0 ⟨patWasAloud, specWasAloud⟩ c!"was aloud"
      [⟨⟨0, 3⟩, .word⟩, ⟨⟨3, 4⟩, .space 1⟩, ⟨⟨4, 9⟩, .word⟩] =
    .ok [⟨⟨0, 9⟩, [.replaceWith c!"was allowed"], 25, 0⟩] := ⟨by unfold InText TokIn; decide, by decide⟩
theorem hyphenateNumberDay_spans_wf (env : Env) (src : List Char) (toks : List Tok) (h : InText src toks) :
    RunsWF (PRule.rule env ⟨patHyphenateNumberDay, specHyphenateNumberDay⟩) src toks := patternRule_spans_wf env _ fineHyphenateNumberDay src toks h
/-- non-vacuity of `hyphenateNumberDay_spans_wf`: the tokens of `5 day plan` are in the text and the rule fires -/
example : InText c!"5 day plan" [⟨⟨0, 1⟩, .number 10 none⟩, ⟨⟨1, 2⟩, .space 1⟩, ⟨⟨2, 5⟩, .word⟩, ⟨⟨5, 6⟩, .space 1⟩, ⟨⟨6, 10⟩, .word⟩] ∧
    PRule.rule { env0 with wordFlags := fun w => if w == c!"plan" then 33088 else 0 } ⟨patHyphenateNumberDay, specHyphenateNumberDay⟩ c!"5 day plan"
      [⟨⟨0, 1⟩, .number 10 none⟩, ⟨⟨1, 2⟩, .space 1⟩, ⟨⟨2, 5⟩, .word⟩, ⟨⟨5, 6⟩, .space 1⟩, ⟨⟨6, 10⟩, .word⟩] =
    .ok [⟨⟨1, 2⟩, [.replaceWith c!"-"], 26, 0⟩] := ⟨by unfold InText TokIn; decide, by decide⟩
theorem leftRightHand_spans_wf (env : Env) (src : List Char) (toks : List Tok) (h : InText src toks) :
    RunsWF (PRule.rule env ⟨patLeftRightHand, specLeftRightHand⟩) src toks := patternRule_spans_wf env _ fineLeftRightHand src toks h
/-- non-vacuity of `leftRightHand_spans_wf`: the tokens of `left hand side` are in the text and the rule fires -/
example : InText c!"left hand side" [⟨⟨0, 4⟩, .word⟩, ⟨⟨4, 5⟩, .space 1⟩, ⟨⟨5, 9⟩, .word⟩, ⟨⟨9, 10⟩, .space 1⟩, ⟨⟨10, 14⟩, .word⟩] ∧
    PRule.rule { env0 with wordFlags := fun w => if w == c!"side" then 256 else 0 } ⟨patLeftRightHand, specLeftRightHand⟩ c!"left hand side"
      [⟨⟨0, 4⟩, .word⟩, ⟨⟨4, 5⟩, .space 1⟩, ⟨⟨5, 9⟩, .word⟩, ⟨⟨9, 10⟩, .space 1⟩, ⟨⟨10, 14⟩, .word⟩] =
    .ok [⟨⟨4, 5⟩, [.replaceWith c!"-"], 27, 0⟩] := ⟨by unfold InText TokIn; decide, by decide⟩
theorem hereby_spans_wf (env : Env) (src : List Char) (toks : List Tok) (h : InText src toks) :
    RunsWF (PRule.rule env ⟨patHereby, specHereby⟩) src toks := patternRule_spans_wf env _ fineHereby src toks h
/-- non-vacuity of `hereby_spans_wf`: the tokens of `here by go` are in the text and the rule fires -/
example : InText c!"here by go" [⟨⟨0, 4⟩, .word⟩, ⟨⟨4, 5⟩, .space 1⟩, ⟨⟨5, 7⟩, .word⟩, ⟨⟨7, 8⟩, .space 1⟩, ⟨⟨8, 10⟩, .word⟩] ∧
    PRule.rule { env0 with wordFlags := fun w => if w == c!"go" then 128 else 0 } ⟨patHereby, specHereby⟩ c!"here by go"
      [⟨⟨0, 4⟩, .word⟩, ⟨⟨4, 5⟩, .space 1⟩, ⟨⟨5, 7⟩, .word⟩, ⟨⟨7, 8⟩, .space 1⟩, ⟨⟨8, 10⟩, .word⟩] =
    .ok [⟨⟨0, 7⟩, [.replaceWith c!"hereby"], 28, 0⟩] := ⟨by unfold InText TokIn; decide, by decide⟩
theorem likewise_spans_wf (env : Env) (src : List Char) (toks : List Tok) (h : InText src toks) :
    RunsWF (PRule.rule env ⟨patLikewise, specLikewise⟩) src toks := patternRule_spans_wf env _ fineLikewise src toks h
/-- non-vacuity of `likewise_spans_wf`: the tokens of `like wise` are in the text and the rule fires -/
example : InText c!"like wise" [⟨⟨0, 4⟩, .word⟩, ⟨⟨4, 5⟩, .space 1⟩, ⟨⟨5, 9⟩, .word⟩] ∧
    PRule.rule env0 ⟨patLikewise, specLikewise⟩ c!"like wise"
      [⟨⟨0, 4⟩, .word⟩, ⟨⟨4, 5⟩, .space 1⟩, ⟨⟨5, 9⟩, .word⟩] =
    .ok [⟨⟨0, 9⟩, [.replaceWith c!"likewise"], 29, 0⟩] := ⟨by unfold InText TokIn; decide, by decide⟩
theorem nobody_spans_wf (env : Env) (src : List Char) (toks : List Tok) (h : InText src toks) :
    RunsWF (PRule.rule env ⟨patNobody, specNobody⟩) src toks := patternRule_spans_wf env _ fineNobody src toks h
/-- non-vacuity of `nobody_spans_wf`: the tokens of `no body cares` are in the text and the rule fires -/
example : InText c!"no body cares" [⟨⟨0, 2⟩, .word⟩, ⟨⟨2, 3⟩, .space 1⟩, ⟨⟨3, 7⟩, .word⟩, ⟨⟨7, 8⟩, .space 1⟩, ⟨⟨8, 13⟩, .word⟩] ∧
    PRule.rule { env0 with wordFlags := fun w => if w == c!"cares" then 128 else 0 } ⟨patNobody, specNobody⟩ c!"no body cares"
      [⟨⟨0, 2⟩, .word⟩, ⟨⟨2, 3⟩, .space 1⟩, ⟨⟨3, 7⟩, .word⟩, ⟨⟨7, 8⟩, .space 1⟩, ⟨⟨8, 13⟩, .word⟩] =
    .ok [⟨⟨0, 7⟩, [.replaceWith c!"nobody"], 30, 0⟩] := ⟨by unfold InText TokIn; decide, by decide⟩
theorem whereas_spans_wf (env : Env) (src : List Char) (toks : List Tok) (h : InText src toks) :
    RunsWF (PRule.rule env ⟨patWhereas, specWhereas⟩) src toks := patternRule_spans_wf env _ fineWhereas src toks h
/-- non-vacuity of `whereas_spans_wf`: the tokens of `where as` are in the text and the rule fires -/
example : InText c!"where as" [⟨⟨0, 5⟩, .word⟩, ⟨⟨5, 6⟩, .space 1⟩, ⟨⟨6, 8⟩, .word⟩] ∧
    PRule.rule env0 ⟨patWhereas, specWhereas⟩ c!"where as"
      [⟨⟨0, 5⟩, .word⟩, ⟨⟨5, 6⟩, .space 1⟩, ⟨⟨6, 8⟩, .word⟩] =
    .ok [⟨⟨0, 8⟩, [.replaceWith c!"whereas"], 31, 0⟩] := ⟨by unfold InText TokIn; decide, by decide⟩
theorem possessiveYour_spans_wf (env : Env) (src : List Char) (toks : List Tok) (h : InText src toks) :
    RunsWF (PRule.rule env ⟨patPossessiveYour, specPossessiveYour⟩) src toks := patternRule_spans_wf env _ finePossessiveYour src toks h
/-- non-vacuity of `possessiveYour_spans_wf`: the tokens of `you cat` are in the text and the rule fires -/
example : InText c!"you cat" [⟨⟨0, 3⟩, .word⟩, ⟨⟨3, 4⟩, .space 1⟩, ⟨⟨4, 7⟩, .word⟩] ∧
    PRule.rule { env0 with wordFlags := fun w => if w == c!"cat" then 64 else 0 } ⟨patPossessiveYour, specPossessiveYour⟩ c!"you cat"
      [⟨⟨0, 3⟩, .word⟩, ⟨⟨3, 4⟩, .space 1⟩, ⟨⟨4, 7⟩, .word⟩] =
    .ok [⟨⟨0, 3⟩, [.replaceWith c!"your", .replaceWith ['y', 'o', 'u', '\'', 'r', 'e', ' ', 'a', 'n']], 32, 0⟩] := ⟨by unfold InText TokIn; decide, by decide⟩
theorem multipleSequentialPronouns_spans_wf (env : Env) (src : List Char) (toks : List Tok) (h : InText src toks) :
    RunsWF (PRule.rule env ⟨patMultipleSequentialPronouns, specMultipleSequentialPronouns⟩) src toks := patternRule_spans_wf env _ fineMultipleSequentialPronouns src toks h
/-- non-vacuity of `multipleSequentialPronouns_spans_wf`: the tokens of `he she` are in the text and the rule fires -/
example : InText c!"he she" [⟨⟨0, 2⟩, .word⟩, ⟨⟨2, 3⟩, .space 1⟩, ⟨⟨3, 6⟩, .word⟩] ∧
    PRule.rule env0 ⟨patMultipleSequentialPronouns, specMultipleSequentialPronouns⟩ c!"he she"
      [⟨⟨0, 2⟩, .word⟩, ⟨⟨2, 3⟩, .space 1⟩, ⟨⟨3, 6⟩, .word⟩] =
    .ok [⟨⟨0, 6⟩, [.replaceWith c!"he", .replaceWith c!"she"], 33, 0⟩] := ⟨by unfold InText TokIn; decide, by decide⟩
theorem dotInitialisms_spans_wf (env : Env) (src : List Char) (toks : List Tok) (h : InText src toks) :
    RunsWF (PRule.rule env ⟨patDotInitialisms, specDotInitialisms⟩) src toks := patternRule_spans_wf env _ fineDotInitialisms src toks h
/-- non-vacuity of `dotInitialisms_spans_wf`: the tokens of `ie.` are in the text and the rule fires -/
example : InText c!"ie." [⟨⟨0, 2⟩, .word⟩, ⟨⟨2, 3⟩, .punct .Period⟩] ∧
    PRule.rule env0 ⟨patDotInitialisms, specDotInitialisms⟩ c!"ie."
      [⟨⟨0, 2⟩, .word⟩, ⟨⟨2, 3⟩, .punct .Period⟩] =
    .ok [⟨⟨0, 3⟩, [.replaceWith c!"i.e."], 34, 0⟩] := ⟨by unfold InText TokIn; decide, by decide⟩
theorem boringWords_spans_wf (env : Env) (src : List Char) (toks : List Tok) (h : InText src toks) :
    RunsWF (PRule.rule env ⟨patBoringWords, specBoringWords⟩) src toks := patternRule_spans_wf env _ fineBoringWords src toks h
/-- non-vacuity of `boringWords_spans_wf`: the tokens of `very` are in the text and the rule fires -/
example : InText c!"very" [⟨⟨0, 4⟩, .word⟩] ∧
    PRule.rule env0 ⟨patBoringWords, specBoringWords⟩ c!"very"
      [⟨⟨0, 4⟩, .word⟩] =
    .ok [⟨⟨0, 4⟩, [], 35, 0⟩] := ⟨by unfold InText TokIn; decide, by decide⟩
theorem useGenitive_spans_wf (env : Env) (src : List Char) (toks : List Tok) (h : InText src toks) :
    RunsWF (PRule.rule env ⟨patUseGenitive, specUseGenitive⟩) src toks := patternRule_spans_wf env _ fineUseGenitive src toks h
/-- non-vacuity of `useGenitive_spans_wf`: the tokens of `see there dog` are in the text and the rule fires -/
example : InText c!"see there dog" [⟨⟨0, 3⟩, .word⟩, ⟨⟨3, 4⟩, .space 1⟩, ⟨⟨4, 9⟩, .word⟩, ⟨⟨9, 10⟩, .space 1⟩, ⟨⟨10, 13⟩, .word⟩] ∧
    PRule.rule { env0 with wordFlags := fun w => if w == c!"dog" then 256 else 0 } ⟨patUseGenitive, specUseGenitive⟩ c!"see there dog"
      [⟨⟨0, 3⟩, .word⟩, ⟨⟨3, 4⟩, .space 1⟩, ⟨⟨4, 9⟩, .word⟩, ⟨⟨9, 10⟩, .space 1⟩, ⟨⟨10, 13⟩, .word⟩] =
    .ok [⟨⟨4, 9⟩, [.replaceWith c!"their"], 36, 0⟩] := ⟨by unfold InText TokIn; decide, by decide⟩
theorem thatWhich_spans_wf (env : Env) (src : List Char) (toks : List Tok) (h : InText src toks) :
    RunsWF (PRule.rule env ⟨patThatWhich, specThatWhich⟩) src toks := patternRule_spans_wf env _ fineThatWhich src toks h
/-- non-vacuity of `thatWhich_spans_wf`: the tokens of `that that` are in the text and the rule fires -/
example : InText c!"that that" [⟨⟨0, 4⟩, .word⟩, ⟨⟨4, 5⟩, .space 1⟩, ⟨⟨5, 9⟩, .word⟩] ∧
    PRule.rule env0 ⟨patThatWhich, specThatWhich⟩ c!"that that"
      [⟨⟨0, 4⟩, .word⟩, ⟨⟨4, 5⟩, .space 1⟩, ⟨⟨5, 9⟩, .word⟩] =
    .ok [⟨⟨0, 9⟩, [.replaceWith c!"that which"], 37, 0⟩] := ⟨by unfold InText TokIn; decide, by decide⟩
theorem somewhatSomething_spans_wf (env : Env) (src : List Char) (toks : List Tok) (h : InText src toks) :
    RunsWF (PRule.rule env ⟨patSomewhatSomething, specSomewhatSomething⟩) src toks := patternRule_spans_wf env _ fineSomewhatSomething src toks h
/-- non-vacuity of `somewhatSomething_spans_wf`: the tokens of `somewhat of a` are in the text and the rule fires -/
example : InText c!"somewhat of a" [⟨⟨0, 8⟩, .word⟩, ⟨⟨8, 9⟩, .space 1⟩, ⟨⟨9, 11⟩, .word⟩, ⟨⟨11, 12⟩, .space 1⟩, ⟨⟨12, 13⟩, .word⟩] ∧
    PRule.rule env0 ⟨patSomewhatSomething, specSomewhatSomething⟩ c!"somewhat of a"
      [⟨⟨0, 8⟩, .word⟩, ⟨⟨8, 9⟩, .space 1⟩, ⟨⟨9, 11⟩, .word⟩, ⟨⟨11, 12⟩, .space 1⟩, ⟨⟨12, 13⟩, .word⟩] =
    .ok [⟨⟨0, 8⟩, [.replaceWith c!"something"], 38, 0⟩] := ⟨by unfold InText TokIn; decide, by decide⟩
theorem despiteOf_spans_wf (env : Env) (src : List Char) (toks : List Tok) (h : InText src toks) :
    RunsWF (PRule.rule env ⟨patDespiteOf, specDespiteOf⟩) src toks := patternRule_spans_wf env _ fineDespiteOf src toks h
/-- non-vacuity of `despiteOf_spans_wf`: the tokens of `despite of` are in the text and the rule fires -/
example : InText c!"despite of" [⟨⟨0, 7⟩, .word⟩, ⟨⟨7, 8⟩, .space 1⟩, ⟨⟨8, 10⟩, .word⟩] ∧
    PRule.rule env0 ⟨patDespiteOf, specDespiteOf⟩ c!"despite of"
      [⟨⟨0, 7⟩, .word⟩, ⟨⟨7, 8⟩, .space 1⟩, ⟨⟨8, 10⟩, .word⟩] =
    .ok [⟨⟨0, 10⟩, [.replaceWith c!"despite", .replaceWith c!"in spite of"], 39, 0⟩] := ⟨by unfold InText TokIn; decide, by decide⟩
theorem chockFull_spans_wf (env : Env) (src : List Char) (toks : List Tok) (h : InText src toks) :
    RunsWF (PRule.rule env ⟨patChockFull, specChockFull⟩) src toks := patternRule_spans_wf env _ fineChockFull src toks h
/-- non-vacuity of `chockFull_spans_wf`: the tokens of `chalk full` are in the text and the rule fires -/
example : InText c!"chalk full" [⟨⟨0, 5⟩, .word⟩, ⟨⟨5, 6⟩, .space 1⟩, ⟨⟨6, 10⟩, .word⟩] ∧
    PRule.rule env0 ⟨patChockFull, specChockFull⟩ c!"chalk full"
      [⟨⟨0, 5⟩, .word⟩, ⟨⟨5, 6⟩, .space 1⟩, ⟨⟨6, 10⟩, .word⟩] =
    .ok [⟨⟨0, 10⟩, [.replaceWith c!"chock-full"], 40, 1⟩] := ⟨by unfold InText TokIn; decide, by decide⟩
theorem confident_spans_wf (env : Env) (src : List Char) (toks : List Tok) (h : InText src toks) :
    RunsWF (PRule.rule env ⟨patConfident, specConfident⟩) src toks := patternRule_spans_wf env _ fineConfident src toks h
/-- non-vacuity of `confident_spans_wf`: the tokens of `very confidant` are in the text and the rule fires -/
example : InText c!"very confidant" [⟨⟨0, 4⟩, .word⟩, ⟨⟨4, 5⟩, .space 1⟩, ⟨⟨5, 14⟩, .word⟩] ∧
    PRule.rule env0 ⟨patConfident, specConfident⟩ c!"very confidant"
      [⟨⟨0, 4⟩, .word⟩, ⟨⟨4, 5⟩, .space 1⟩, ⟨⟨5, 14⟩, .word⟩] =
    .ok [⟨⟨5, 14⟩, [.replaceWith c!"confident"], 41, 0⟩] := ⟨by unfold InText TokIn; decide, by decide⟩
theorem oxymorons_spans_wf (env : Env) (src : List Char) (toks : List Tok) (h : InText src toks) :
    RunsWF (PRule.rule env ⟨patOxymorons, specOxymorons⟩) src toks := patternRule_spans_wf env _ fineOxymorons src toks h
/-- non-vacuity of `oxymorons_spans_wf`: the tokens of `amateur expert` are in the text and the rule fires -/
example : InText c!"amateur expert" [⟨⟨0, 7⟩, .word⟩, ⟨⟨7, 8⟩, .space 1⟩, ⟨⟨8, 14⟩, .word⟩] ∧
    PRule.rule env0 ⟨patOxymorons, specOxymorons⟩ c!"amateur expert"
      [⟨⟨0, 7⟩, .word⟩, ⟨⟨7, 8⟩, .space 1⟩, ⟨⟨8, 14⟩, .word⟩] =
    .ok [⟨⟨0, 14⟩, [], 42, 0⟩] := ⟨by unfold InText TokIn; decide, by decide⟩
theorem hedging_spans_wf (env : Env) (src : List Char) (toks : List Tok) (h : InText src toks) :
    RunsWF (PRule.rule env ⟨patHedging, specHedging⟩) src toks := patternRule_spans_wf env _ fineHedging src toks h
/-- non-vacuity of `hedging_spans_wf`: the tokens of `to a certain degree` are in the text and the rule fires -/
example : InText c!"to a certain degree" [⟨⟨0, 2⟩, .word⟩, ⟨⟨2, 3⟩, .space 1⟩, ⟨⟨3, 4⟩, .word⟩, ⟨⟨4, 5⟩, .space 1⟩, ⟨⟨5, 12⟩, .word⟩, ⟨⟨12, 13⟩, .space 1⟩, ⟨⟨13, 19⟩, .word⟩] ∧
    PRule.rule env0 ⟨patHedging, specHedging⟩ c!"to a certain degree"
      [⟨⟨0, 2⟩, .word⟩, ⟨⟨2, 3⟩, .space 1⟩, ⟨⟨3, 4⟩, .word⟩, ⟨⟨4, 5⟩, .space 1⟩, ⟨⟨5, 12⟩, .word⟩, ⟨⟨12, 13⟩, .space 1⟩, ⟨⟨13, 19⟩, .word⟩] =
    .ok [⟨⟨0, 19⟩, [], 43, 0⟩] := ⟨by unfold InText TokIn; decide, by decide⟩
theorem expandTimeShorthands_spans_wf (env : Env) (src : List Char) (toks : List Tok) (h : InText src toks) :
    RunsWF (PRule.rule env ⟨patExpandTimeShorthands, specExpandTimeShorthands⟩) src toks := patternRule_spans_wf env _ fineExpandTimeShorthands src toks h
/-- non-vacuity of `expandTimeShorthands_spans_wf`: the tokens of `5 hrs` are in the text and the rule fires -/
example : InText c!"5 hrs" [⟨⟨0, 1⟩, .number 10 none⟩, ⟨⟨1, 2⟩, .space 1⟩, ⟨⟨2, 5⟩, .word⟩] ∧
    PRule.rule env0 ⟨patExpandTimeShorthands, specExpandTimeShorthands⟩ c!"5 hrs"
      [⟨⟨0, 1⟩, .number 10 none⟩, ⟨⟨1, 2⟩, .space 1⟩, ⟨⟨2, 5⟩, .word⟩] =
    .ok [⟨⟨2, 5⟩, [.replaceWith c!"hours"], 44, 0⟩] := ⟨by unfold InText TokIn; decide, by decide⟩
theorem forNoun_spans_wf (env : Env) (src : List Char) (toks : List Tok) (h : InText src toks) :
    RunsWF (PRule.rule env ⟨patForNoun, specForNoun⟩) src toks := patternRule_spans_wf env _ fineForNoun src toks h
/-- non-vacuity of `forNoun_spans_wf`: the tokens of `fro sure` are in the text and the rule fires -/
example : InText c!"fro sure" [⟨⟨0, 3⟩, .word⟩, ⟨⟨3, 4⟩, .space 1⟩, ⟨⟨4, 8⟩, .word⟩] ∧
    PRule.rule env0 ⟨patForNoun, specForNoun⟩ c!"fro sure"
      [⟨⟨0, 3⟩, .word⟩, ⟨⟨3, 4⟩, .space 1⟩, ⟨⟨4, 8⟩, .word⟩] =
    .ok [⟨⟨0, 3⟩, [.replaceWith c!"for"], 45, 0⟩] := ⟨by unfold InText TokIn; decide, by decide⟩
theorem theHowWhy_spans_wf (env : Env) (src : List Char) (toks : List Tok) (h : InText src toks) :
    RunsWF (PRule.rule env ⟨patTheHowWhy, specTheHowWhy⟩) src toks := patternRule_spans_wf env _ fineTheHowWhy src toks h
/-- non-vacuity of `theHowWhy_spans_wf`: the tokens of `the why x` are in the text and the rule fires -/
example : InText c!"the why x" [⟨⟨0, 3⟩, .word⟩, ⟨⟨3, 4⟩, .space 1⟩, ⟨⟨4, 7⟩, .word⟩, ⟨⟨7, 8⟩, .space 1⟩, ⟨⟨8, 9⟩, .word⟩] ∧
    PRule.rule env0 ⟨patTheHowWhy, specTheHowWhy⟩ c!"the why x"
      [⟨⟨0, 3⟩, .word⟩, ⟨⟨3, 4⟩, .space 1⟩, ⟨⟨4, 7⟩, .word⟩, ⟨⟨7, 8⟩, .space 1⟩, ⟨⟨8, 9⟩, .word⟩] =
    .ok [⟨⟨0, 4⟩, [.remove], 46, 0⟩] := ⟨by unfold InText TokIn; decide, by decide⟩
theorem widelyAccepted_spans_wf (env : Env) (src : List Char) (toks : List Tok) (h : InText src toks) :
    RunsWF (PRule.rule env ⟨patWidelyAccepted, specWidelyAccepted⟩) src toks := patternRule_spans_wf env _ fineWidelyAccepted src toks h
/-- non-vacuity of `widelyAccepted_spans_wf`: the tokens of `wide used` are in the text and the rule fires -/
example : InText c!"wide used" [⟨⟨0, 4⟩, .word⟩, ⟨⟨4, 5⟩, .space 1⟩, ⟨⟨5, 9⟩, .word⟩] ∧
    PRule.rule env0 ⟨patWidelyAccepted, specWidelyAccepted⟩ c!"wide used"
      [⟨⟨0, 4⟩, .word⟩, ⟨⟨4, 5⟩, .space 1⟩, ⟨⟨5, 9⟩, .word⟩] =
    .ok [⟨⟨0, 4⟩, [.replaceWith c!"widely"], 47, 0⟩] := ⟨by unfold InText TokIn; decide, by decide⟩

/-! ## non-vacuity (kernel-evaluated) -/

open Harper.C12 (env0)

/-- tokens of the Markdown parser's shape (a zero-width `ParagraphBreak` at an EARLIER offset after the words): `InText`
holds, Whereas reports `where as` with the capital kept -/
example : InText ['#', ' ', 'W', 'h', 'e', 'r', 'e', ' ', 'a', 's']
    [⟨⟨2, 7⟩, .word⟩, ⟨⟨7, 8⟩, .space 1⟩, ⟨⟨8, 10⟩, .word⟩, ⟨⟨2, 2⟩, .paragraphBreak⟩] := by
  intro t ht
  simp only [List.mem_cons, List.mem_nil_iff, or_false] at ht
  rcases ht with rfl | rfl | rfl | rfl <;> exact ⟨by decide, by decide⟩

example : PRule.rule env0 ⟨patWhereas, specWhereas⟩ ['#', ' ', 'W', 'h', 'e', 'r', 'e', ' ', 'a', 's']
      [⟨⟨2, 7⟩, .word⟩, ⟨⟨7, 8⟩, .space 1⟩, ⟨⟨8, 10⟩, .word⟩, ⟨⟨2, 2⟩, .paragraphBreak⟩] =
    .ok [⟨⟨2, 10⟩, [.replaceWith ['W', 'h', 'e', 'r', 'e', 'a', 's']], 31, 0⟩] := by decide

/-- LeftRightHand reports the blank (`matched_tokens[1]`), inside the five matched tokens -/
example : specLeftRightHand.run env0 ['l', 'e', 'f', 't', ' ', 'h', 'a', 'n', 'd', ' ', 'x']
      [⟨⟨0, 4⟩, .word⟩, ⟨⟨4, 5⟩, .space 1⟩, ⟨⟨5, 9⟩, .word⟩, ⟨⟨9, 10⟩, .space 1⟩, ⟨⟨10, 11⟩, .word⟩] =
    .ok [⟨⟨4, 5⟩, [.replaceWith ['-']], 27, 0⟩] := by decide

end Harper.C03
