import Harper.Lemmas.NumberSuffix
/-!
# C17 — ordinal suffixes are judged correctly for every number

Property theorems only; specification-side definitions (`ofDigits`, `ordinalOfDigits`,
`suffixLetters`, `suffixSpellings`) and helper lemmas are in `Harper/Lemmas/NumberSuffix.lean`, the
model in `Harper/Model/NumberSuffix.lean`, the arms/rows of `correct_suffix_for`, `from_chars`,
`to_chars` in `Harper/Tables/NumberSuffix.lean` (regenerated from number.rs on every run: a change
such as `11..=13` → `11..=12` makes `correctSuffix_spec` fail to build).

The statements quantify over *digit strings* (the number as written, leading zeros included) and
all of `Nat`. What ties them to the code for numbers below 2^53 — that the lexer produces one
`Number` token holding exactly that integer, followed by a two-letter `Word` that
`condense_number_suffixes` folds in — is the correspondence/oracle run of `harness/src/c17.rs`
through the real `LintGroup` (lexer and `f64` parsing are not modelled here).
-/
namespace Harper.C17
open Harper Harper.Tables.NumberSuffix

/-- **The code's arithmetic is the English rule, for every number.** For every non-empty string
of decimal digits, `correct_suffix_for` of its value (the `% 100` teens range, then the `% 10` arms
as extracted from the source) is the suffix English gives to the number as written. -/
theorem correctSuffix_spec (ds : List Nat) (hne : ds ≠ []) (hd : ∀ d ∈ ds, d < 10) :
    correctSuffixFor (ofDigits ds) = some (ordinalOfDigits ds) := by
  match h : ds.reverse with
  | [] => exact absurd (List.reverse_eq_nil_iff.mp h) hne
  | [o] =>
    have hds : ds = [o] := by simpa using congrArg List.reverse h
    subst hds
    have ho : o < 10 := hd o (by simp)
    have := correctSuffixFor_core 0 0 o (by omega) ho
    simpa [ofDigits_single, ordinalOfDigits] using this
  | o :: t :: r =>
    have hds := eq_append_two_of_reverse h
    subst hds
    have ho : o < 10 := hd o (by simp)
    have ht : t < 10 := hd t (by simp)
    rw [ofDigits_append_two, ordinalOfDigits_append_two]
    exact correctSuffixFor_core _ t o ht ho

/-- All sixteen spellings (st/nd/rd/th in any letter case) directly after a number are read as
the suffix they spell. -/
theorem spellings_read (w : List Char) (s : Suffix) (hw : (w, s) ∈ suffixSpellings) :
    condenseSuffix w = .ok (some s) :=
  condense_spellings (w, s) hw

/-- …and nothing else is read as a suffix: a word is folded into the number only if it is one of
the sixteen spellings. -/
theorem only_spellings_read (w : List Char) (s : Suffix) (h : condenseSuffix w = .ok (some s)) :
    (w, s) ∈ suffixSpellings := by
  unfold condenseSuffix at h
  split at h
  · simp at h
  · rename_i hl
    match w, hl with
    | [a, b], _ =>
      rw [fromChars_two] at h
      have hrow : fromCharsRow a b = some s := by simpa using h
      exact rows_are_spellings _ (fromCharsRow_mem hrow)
    | [], hl => simp at hl
    | [_], hl => simp at hl
    | _ :: _ :: _ :: _, hl => simp at hl

/-- non-vacuity of `only_spellings_read`: `ST` is read as a suffix, and the theorem places it among
the sixteen spellings -/
example : condenseSuffix ['S', 'T'] = .ok (some .st) ∧ (['S', 'T'], Suffix.st) ∈ suffixSpellings :=
  ⟨by rfl, only_spellings_read _ _ (by rfl)⟩

/-- **A lint exactly when the suffix is wrong** (token level): for a number token holding the
integer written `ds`, carrying suffix `s`, the rule reports iff `s` is not the English suffix.
(`2 ≤ sp.stop`: the token has room for two suffix letters — `pulled_by(2)`; true of every token
that has a suffix.) -/
theorem lint_iff_wrong (ds : List Nat) (hne : ds ≠ []) (hd : ∀ d ∈ ds, d < 10)
    (s : Suffix) (sp : Span) (h2 : 2 ≤ sp.stop) :
    (lintNumber ⟨.int (ofDigits ds), some s, sp⟩).isSome ↔ s ≠ ordinalOfDigits ds := by
  rw [lintNumber_int _ s _ sp h2 (correctSuffix_spec ds hne hd)]
  split <;> simp_all

/-- non-vacuity of `lint_iff_wrong`: `22st` occupying `[4, 8)` — all hypotheses hold, the suffix is
wrong and the rule reports; `22nd` in the same place is not reported -/
example : [2, 2] ≠ [] ∧ (∀ d ∈ [2, 2], d < 10) ∧ 2 ≤ (⟨4, 8⟩ : Span).stop ∧
    (lintNumber ⟨.int (ofDigits [2, 2]), some .st, ⟨4, 8⟩⟩).isSome = true ∧
    (lintNumber ⟨.int (ofDigits [2, 2]), some .nd, ⟨4, 8⟩⟩).isSome = false := by decide

/-- **A lint exactly when the suffix is wrong** (as written): digits `ds` at position `p` directly
followed by a spelling `w` of suffix `s`. -/
theorem written_lint_iff_wrong (ds : List Nat) (hne : ds ≠ []) (hd : ∀ d ∈ ds, d < 10)
    (w : List Char) (s : Suffix) (hw : (w, s) ∈ suffixSpellings) (p : Nat) :
    (∃ l, ruleOnWritten (.int (ofDigits ds)) w (writtenSpan p ds) = .ok (some l))
      ↔ s ≠ ordinalOfDigits ds := by
  have h2 : 2 ≤ (writtenSpan p ds).stop := by simp [writtenSpan]
  simp only [ruleOnWritten, spellings_read w s hw]
  rw [← lint_iff_wrong ds hne hd s (writtenSpan p ds) h2, Option.isSome_iff_exists]
  constructor
  · rintro ⟨l, hl⟩; exact ⟨l, by simpa using hl⟩
  · rintro ⟨l, hl⟩; exact ⟨l, by simp [hl]⟩

/-- **The lint covers exactly the two suffix letters**: characters
`[p + |ds|, p + |ds| + 2)` of the text. -/
theorem lint_span_last_two (ds : List Nat) (hne : ds ≠ []) (hd : ∀ d ∈ ds, d < 10)
    (w : List Char) (s : Suffix) (hw : (w, s) ∈ suffixSpellings) (p : Nat) (l : SuffixLint)
    (h : ruleOnWritten (.int (ofDigits ds)) w (writtenSpan p ds) = .ok (some l)) :
    l.span = ⟨p + ds.length, p + ds.length + 2⟩ := by
  have h2 : 2 ≤ (writtenSpan p ds).stop := by simp [writtenSpan]
  simp only [ruleOnWritten, spellings_read w s hw,
    lintNumber_int _ s _ _ h2 (correctSuffix_spec ds hne hd)] at h
  split at h
  · simp at h
    subst h
    simp [writtenSpan]
  · simp at h

/-- **The suggestion is the correct suffix**: `ReplaceWith` the letters of the English suffix of
the number as written (compared case-insensitively: the property does not fix the letter case of
the suggestion; the code suggests lower case, see the examples). -/
theorem suggestion_correct (ds : List Nat) (hne : ds ≠ []) (hd : ∀ d ∈ ds, d < 10)
    (w : List Char) (s : Suffix) (hw : (w, s) ∈ suffixSpellings) (p : Nat) (l : SuffixLint)
    (h : ruleOnWritten (.int (ofDigits ds)) w (writtenSpan p ds) = .ok (some l)) :
    l.replacement.map Char.toLower = suffixLetters (ordinalOfDigits ds) := by
  have h2 : 2 ≤ (writtenSpan p ds).stop := by simp [writtenSpan]
  simp only [ruleOnWritten, spellings_read w s hw,
    lintNumber_int _ s _ _ h2 (correctSuffix_spec ds hne hd)] at h
  split at h
  · simp at h
    subst h
    exact toChars_eq_letters _
  · simp at h

/-- **After applying the suggestion nothing is reported.** The replacement is two letters long (so
the token's span and everything after it are unchanged), is read back as a suffix, and the rule is
silent on the result. -/
theorem fixed_point (ds : List Nat) (hne : ds ≠ []) (hd : ∀ d ∈ ds, d < 10)
    (w : List Char) (s : Suffix) (hw : (w, s) ∈ suffixSpellings) (p : Nat) (l : SuffixLint)
    (h : ruleOnWritten (.int (ofDigits ds)) w (writtenSpan p ds) = .ok (some l)) :
    l.replacement.length = 2 ∧
    ruleOnWritten (.int (ofDigits ds)) l.replacement (writtenSpan p ds) = .ok none := by
  have h2 : 2 ≤ (writtenSpan p ds).stop := by simp [writtenSpan]
  have hc := correctSuffix_spec ds hne hd
  simp only [ruleOnWritten, spellings_read w s hw, lintNumber_int _ s _ _ h2 hc] at h
  split at h
  · simp at h
    subst h
    refine ⟨toChars_length _, ?_⟩
    simp only [ruleOnWritten, condense_toChars, lintNumber_int _ _ _ _ h2 hc]
    simp
  · simp at h

/-- The rule never panics on any number followed by any word. -/
theorem rule_never_panics (v : NumVal) (w : List Char) (sp : Span) :
    ∃ r, ruleOnWritten v w sp = .ok r := by
  obtain ⟨r, hr⟩ := condenseSuffix_ok w
  exact ⟨lintNumber ⟨v, r, sp⟩, by simp [ruleOnWritten, hr]⟩

/-- A value the guard rejects (fractional part, e.g. `3.5th`) is never reported. -/
theorem nonInt_never_reported (w : List Char) (sp : Span) :
    ruleOnWritten .nonInt w sp = .ok none := by
  obtain ⟨r, hr⟩ := condenseSuffix_ok w
  simp only [ruleOnWritten, hr, lintNumber, correctSuffixForVal]
  cases suffixSpan sp <;> cases r <;> rfl

/-! ### Non-vacuity and witnesses (concrete, kernel-evaluated) -/

/-- the hypotheses of `correctSuffix_spec` hold of `0112`, a number with a leading zero whose tens
digit is 1 -/
example : [0, 1, 1, 2] ≠ [] ∧ (∀ d ∈ [0, 1, 1, 2], d < 10) ∧ ofDigits [0, 1, 1, 2] = 112 ∧
    ordinalOfDigits [0, 1, 1, 2] = .th ∧ correctSuffixFor 112 = some .th := by decide

/-- the rule on the written digits agrees with common sense on a spread of numbers -/
example : [[0], [1], [2], [3], [4], [1,1], [1,2], [1,3], [2,1], [2,2], [2,3], [1,0,1], [1,1,1],
    [1,0,1,2], [9,0,0,7,1,9,9,2,5,4,7,4,0,9,9,1]].map ordinalOfDigits =
    [.th, .st, .nd, .rd, .th, .th, .th, .th, .st, .nd, .rd, .st, .th, .th, .st] := by decide

/-- the sixteen spellings, spelled out -/
example : suffixSpellings.map (fun p => (String.ofList p.1, p.2)) =
    [("th", .th), ("Th", .th), ("tH", .th), ("TH", .th), ("st", .st), ("St", .st), ("sT", .st),
     ("ST", .st), ("nd", .nd), ("Nd", .nd), ("nD", .nd), ("ND", .nd), ("rd", .rd), ("Rd", .rd),
     ("rD", .rd), ("RD", .rd)] := by
  simp [suffixSpellings, caseVariants, suffixLetters]

/-- `The 22ST item.`: digits at 4, a wrong suffix in capitals → lint on [6, 8) suggesting `nd` -/
example : ruleOnWritten (.int (ofDigits [2, 2])) ['S', 'T'] (writtenSpan 4 [2, 2]) =
    .ok (some ⟨⟨6, 8⟩, ['n', 'd']⟩) := by rfl

/-- …and (`['S','T']`, st) is a spelling, so the hypotheses of the written-level theorems hold -/
example : (['S', 'T'], Suffix.st) ∈ suffixSpellings ∧ Suffix.st ≠ ordinalOfDigits [2, 2] := by
  decide

/-- `The 22nd item.` is left alone; `113th` too; `113rd` is not -/
example : ruleOnWritten (.int 22) ['n', 'd'] ⟨4, 8⟩ = .ok none ∧
    ruleOnWritten (.int 113) ['t', 'h'] ⟨0, 5⟩ = .ok none ∧
    ruleOnWritten (.int 113) ['r', 'd'] ⟨0, 5⟩ = .ok (some ⟨⟨3, 5⟩, ['t', 'h']⟩) := by
  refine ⟨by rfl, by rfl, by rfl⟩

/-- a three-letter word after a number is not a suffix (`21stx`), nor is `xy` -/
example : condenseSuffix ['s', 't', 'x'] = .ok none ∧ condenseSuffix ['x', 'y'] = .ok none := by
  refine ⟨by rfl, by rfl⟩

/-- `3.5th`: the guard rejects the value, nothing is reported -/
example : ruleOnWritten .nonInt ['t', 'h'] ⟨0, 5⟩ = .ok none := by rfl

end Harper.C17
