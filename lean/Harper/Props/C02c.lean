import Harper.Props.C02
import Harper.Lemmas.LexExt
/-!
# C02 (third part) — the url / e-mail / hostname lexers are modelled and in bounds

`Harper.Props.C02` proves tiling of `PlainEnglish::parse` for every behaviour of `lex_url`,
`lex_email_address`, `lex_hostname_token` that stays inside the text (`ExtOK`, a hypothesis about
a table handed over by the harness). Here the three lexers are models of the Rust code
(`Harper/Model/LexExt.lean`, tied to the code by the `lexfull` correspondence op, which receives
no table), each is proved to return `1 ≤ n ≤ remaining length`, the table computed from the text
(`extOfSrc`) therefore satisfies `ExtOK`, and the tiling theorem becomes parameter-free
(`parsePlainFull_tiles`) — for every text and every Unicode class table.

No slice or index expression of the three Rust files can panic: the models are total functions
without a panic value, and the places where the Rust code indexes are covered by
`position_lt`, `lastPosition_lt`, `lexHostname_bound`, `lexLogin_le` (the `rest[cursor]` of
`lex_ip_schemepart`) and `pathLoop_fuel` (the path loop is not cut short by its fuel).
-/
namespace Harper.C02
open Harper

/-! ### the three lexers stay inside their slice and consume at least one character -/

/-- `lex_hostname` (shared by all three): `Some(n)` ⇒ `1 ≤ n ≤ source.len()` -/
theorem lexHostname_bound (src : List Char) (n : Nat) (h : lexHostname src = some n) :
    1 ≤ n ∧ n ≤ src.length := Harper.lexHostname_bound src n h

theorem lexHostnameToken_ok (src : List Char) : FoundOK (lexHostnameToken src) src.length :=
  Harper.lexHostnameToken_ok src

theorem lexUrl_ok (src : List Char) : FoundOK (lexUrl src) src.length := Harper.lexUrl_ok src

theorem lexEmailAddress_ok (src : List Char) : FoundOK (lexEmailAddress src) src.length :=
  Harper.lexEmailAddress_ok src

/-- sharper: a URL token is at least `://`, an e-mail token at least `x@y` -/
theorem lexUrl_min (src : List Char) (k : Kind) (n : Nat) (h : lexUrl src = some (k, n)) :
    k = .url ∧ 3 ≤ n := Harper.lexUrl_min src k n h

theorem lexEmailAddress_min (src : List Char) (k : Kind) (n : Nat)
    (h : lexEmailAddress src = some (k, n)) : k = .email ∧ 3 ≤ n :=
  Harper.lexEmailAddress_min src k n h

/-- `lex_login(rest) ≤ rest.len()`, so `rest[cursor]` in `lex_ip_schemepart` cannot be out of range -/
theorem lexLogin_le (src : List Char) (n : Nat) (h : lexLogin src = some n) : n ≤ src.length :=
  Harper.lexLogin_le src n h

/-- the fuel given to the path loop of `lex_ip_schemepart` never cuts it short -/
theorem pathLoop_fuel (f1 f2 : Nat) (rest : List Char) (h1 : rest.length < f1)
    (h2 : rest.length < f2) : pathLoop f1 rest = pathLoop f2 rest :=
  Harper.pathLoop_fuel f1 f2 rest h1 h2

/-! ### the computed table satisfies the former assumption -/

/-- `ExtOK` is now a theorem about the model of the three lexers, not an assumption -/
theorem extOfSrc_ok (src : List Char) : ExtOK (extOfSrc src) src.length := Harper.extOfSrc_ok src

/-- with the computed table, `lexToken` picks what `lex_token(&source[pos..])` picks when the
three lexers are called directly in the regenerated order (`lex_url` before `lex_email_address`
before `lex_hostname_token`, checked on `Tables.lexerOrder` by `lexerOrder_extOrderOK`) -/
theorem lexToken_extOfSrc (cls : Cls) (src : List Char) (pos : Nat) :
    lexToken cls (extOfSrc src) pos (src.drop pos) = lexTokenFull cls (src.drop pos) :=
  Harper.lexToken_extOfSrc cls src pos

/-- `parsePlainFull` is the parse loop over the table-free `lexTokenFull` -/
theorem parsePlainFull_eq_direct (cls : Cls) (src : List Char) :
    parsePlainFull cls src = parsePlainDirect cls src := Harper.parsePlainFull_eq_direct cls src

/-! ### parameter-free tiling -/

/-- `PlainEnglish::parse`, all fourteen lexers modelled: never panics, never runs out of fuel,
tokens tile `[0, len)`, at most one token per character — for every text and class table. -/
theorem parsePlainFull_tiles (cls : Cls) (src : List Char) :
    ∃ toks, parsePlainFull cls src = .ok toks ∧ Tiles toks 0 src.length ∧
      toks.length ≤ src.length :=
  parsePlain_tiles cls (extOfSrc src) src (extOfSrc_ok src)

theorem parsePlainFull_total (cls : Cls) (src : List Char) :
    ∃ toks, parsePlainFull cls src = .ok toks := by
  obtain ⟨toks, h, _⟩ := parsePlainFull_tiles cls src
  exact ⟨toks, h⟩

/-- the same for the table-free formulation -/
theorem parsePlainDirect_tiles (cls : Cls) (src : List Char) :
    ∃ toks, parsePlainDirect cls src = .ok toks ∧ Tiles toks 0 src.length ∧
      toks.length ≤ src.length := by
  rw [← parsePlainFull_eq_direct]; exact parsePlainFull_tiles cls src

/-! ### non-vacuity: the lexers fire, and near-misses do not (kernel-evaluated) -/

/-- `http://a.b/c?d=e#f`: a whole URL -/
example : lexUrl ['h', 't', 't', 'p', ':', '/', '/', 'a', '.', 'b', '/', 'c', '?', 'd', '=', 'e', '#', 'f'] = some (.url, 18) := by decide

/-- `http://a.b/%41 x`: escape accepted, stops at the blank -/
example : lexUrl ['h', 't', 't', 'p', ':', '/', '/', 'a', '.', 'b', '/', '%', '4', '1', ' ', 'x'] = some (.url, 14) := by decide

/-- `http://a.b/%4g`: bad escape ends the URL after the slash -/
example : lexUrl ['h', 't', 't', 'p', ':', '/', '/', 'a', '.', 'b', '/', '%', '4', 'g'] = some (.url, 11) := by decide

/-- near-miss `http:/a.b`: one slash -/
example : lexUrl ['h', 't', 't', 'p', ':', '/', 'a', '.', 'b'] = none := by decide

/-- near-miss `ht_tp://a.b`: `_` is not a scheme character -/
example : lexUrl ['h', 't', '_', 't', 'p', ':', '/', '/', 'a', '.', 'b'] = none := by decide

/-- near-miss `http//a.b`: no colon -/
example : lexUrl ['h', 't', 't', 'p', '/', '/', 'a', '.', 'b'] = none := by decide

/-- quirk `http://abc:80/x`: the port scan restarts at the host, the URL is `http://` -/
example : lexUrl ['h', 't', 't', 'p', ':', '/', '/', 'a', 'b', 'c', ':', '8', '0', '/', 'x'] = some (.url, 7) := by decide

/-- quirk `ftp://user:pw@host/x`: a login with a password is rejected, the URL is `ftp://` -/
example : lexUrl ['f', 't', 'p', ':', '/', '/', 'u', 's', 'e', 'r', ':', 'p', 'w', '@', 'h', 'o', 's', 't', '/', 'x'] = some (.url, 6) := by decide

/-- quirk `http://a.b x@y`: an `@` anywhere later in the text is taken as the end of the login -/
example : lexUrl ['h', 't', 't', 'p', ':', '/', '/', 'a', '.', 'b', ' ', 'x', '@', 'y'] = some (.url, 7) := by decide

/-- `ftp://us;r@host/x`: a login without a password is accepted -/
example : lexUrl ['f', 't', 'p', ':', '/', '/', 'u', 's', ';', 'r', '@', 'h', 'o', 's', 't', '/', 'x'] = some (.url, 17) := by decide

/-- `a.b@c.de`: an e-mail address -/
example : lexEmailAddress ['a', '.', 'b', '@', 'c', '.', 'd', 'e'] = some (.email, 8) := by decide

/-- `"a b"@c.d`: quoted local part -/
example : lexEmailAddress ['"', 'a', ' ', 'b', '"', '@', 'c', '.', 'd'] = some (.email, 9) := by decide

/-- near-miss `a..b@c.d`: two dots -/
example : lexEmailAddress ['a', '.', '.', 'b', '@', 'c', '.', 'd'] = none := by decide

/-- near-miss `.a@b.c`: leading dot -/
example : lexEmailAddress ['.', 'a', '@', 'b', '.', 'c'] = none := by decide

/-- near-miss `a@-b`: the domain must start with a letter or digit -/
example : lexEmailAddress ['a', '@', '-', 'b'] = none := by decide

/-- near-miss `@b.c`: empty local part -/
example : lexEmailAddress ['@', 'b', '.', 'c'] = none := by decide

/-- quirk `a@b c@d`: the LAST `@` of the rest of the text is used, so `a@b` is not seen -/
example : lexEmailAddress ['a', '@', 'b', ' ', 'c', '@', 'd'] = none := by decide

/-- `www.example.com`: a hostname -/
example : lexHostnameToken ['w', 'w', 'w', '.', 'e', 'x', 'a', 'm', 'p', 'l', 'e', '.', 'c', 'o', 'm'] = some (.hostname, 15) := by decide

/-- `a.b- c`: a trailing hyphen is part of the token -/
example : lexHostnameToken ['a', '.', 'b', '-', ' ', 'c'] = some (.hostname, 4) := by decide

/-- near-miss `www.example.com.`: `lex_hostname` takes the final dot, the token is refused -/
example : lexHostnameToken ['w', 'w', 'w', '.', 'e', 'x', 'a', 'm', 'p', 'l', 'e', '.', 'c', 'o', 'm', '.'] = none := by decide

/-- near-miss `example`: no inner dot -/
example : lexHostnameToken ['e', 'x', 'a', 'm', 'p', 'l', 'e'] = none := by decide

/-- near-miss `-a.b`: leading hyphen -/
example : lexHostnameToken ['-', 'a', '.', 'b'] = none := by decide

/-- near-miss `a.`: the only dot is the last character -/
example : lexHostnameToken ['a', '.'] = none := by decide

/-- a text with all three kinds; the table is computed, nothing is handed over -/
example : (parsePlainFull asciiCls ['x', '@', 'y', '.', 'z', ',', ' ', 'a', '.', 'b', ' ', 'h', 't', 't', 'p', ':', '/', '/', 'a', '.', 'b', '/', 'c']).toOption =
    some [⟨⟨0,5⟩,.email⟩, ⟨⟨5,6⟩,.punct .Comma⟩, ⟨⟨6,7⟩,.space 1⟩, ⟨⟨7,10⟩,.hostname⟩,
      ⟨⟨10,11⟩,.space 1⟩, ⟨⟨11,23⟩,.url⟩] := by decide

/-- and the table-free formulation computes the same -/
example : (parsePlainDirect asciiCls ['a', '.', 'b', ' ', 'x', '@', 'y']).toOption =
    some [⟨⟨0,3⟩,.hostname⟩, ⟨⟨3,4⟩,.space 1⟩, ⟨⟨4,7⟩,.email⟩] := by decide

/-! ### non-vacuity of the theorems with hypotheses: each applied to a concrete, non-trivial value -/

/-- non-vacuity of `lexHostname_bound`: `a.b- c` -/
example : 1 ≤ 4 ∧ 4 ≤ 6 := lexHostname_bound ['a', '.', 'b', '-', ' ', 'c'] 4 (by decide)

/-- `FoundOK` is `∀ k n, f = some (k, n) → …`: the three `_ok` theorems at inputs on which the lexer fires -/
example : 1 ≤ 15 ∧ 15 ≤ 15 :=
  lexHostnameToken_ok ['w', 'w', 'w', '.', 'e', 'x', 'a', 'm', 'p', 'l', 'e', '.', 'c', 'o', 'm'] .hostname 15 (by decide)
example : 1 ≤ 14 ∧ 14 ≤ 16 :=
  lexUrl_ok ['h', 't', 't', 'p', ':', '/', '/', 'a', '.', 'b', '/', '%', '4', '1', ' ', 'x'] .url 14 (by decide)
example : 1 ≤ 8 ∧ 8 ≤ 10 :=
  lexEmailAddress_ok ['a', '.', 'b', '@', 'c', '.', 'd', 'e', ',', ' '] .email 8 (by decide)

/-- non-vacuity of `lexUrl_min` / `lexEmailAddress_min`; `://` (empty scheme) and `x@y` show that 3 is attained -/
example : Kind.url = .url ∧ 3 ≤ 14 :=
  lexUrl_min ['h', 't', 't', 'p', ':', '/', '/', 'a', '.', 'b', '/', '%', '4', '1', ' ', 'x'] .url 14 (by decide)
example : lexUrl [':', '/', '/'] = some (.url, 3) := by decide
example : Kind.email = .email ∧ 3 ≤ 8 :=
  lexEmailAddress_min ['a', '.', 'b', '@', 'c', '.', 'd', 'e', ',', ' '] .email 8 (by decide)
example : lexEmailAddress ['x', '@', 'y'] = some (.email, 3) := by decide

/-- non-vacuity of `lexLogin_le`: `us;r@host/x`, login `us;r@host` -/
example : 9 ≤ 11 := lexLogin_le ['u', 's', ';', 'r', '@', 'h', 'o', 's', 't', '/', 'x'] 9 (by decide)

/-- non-vacuity of `pathLoop_fuel`: `/a/b` with fuel 5 and 9; the loop consumes all four characters -/
example : pathLoop 5 ['/', 'a', '/', 'b'] = pathLoop 9 ['/', 'a', '/', 'b'] :=
  pathLoop_fuel 5 9 ['/', 'a', '/', 'b'] (by decide) (by decide)
example : pathLoop 5 ['/', 'a', '/', 'b'] = 4 := by decide

/-- the computed table of `extOfSrc_ok` is not the empty table: `x a.b` has a hostname at position 2, and the
theorem bounds it -/
example : extOfSrc ['x', ' ', 'a', '.', 'b'] 2 = some (.hostname, 3) := by decide
example : 1 ≤ 3 ∧ 2 + 3 ≤ 5 := extOfSrc_ok ['x', ' ', 'a', '.', 'b'] 2 .hostname 3 (by decide)

end Harper.C02
