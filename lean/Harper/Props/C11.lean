import Harper.Lemmas.LintGroup
/-!
# C11 — rule switches do exactly what they say

Property theorems only; helpers are in `Harper/Lemmas/LintGroup.lean`, the model
(`Harper/Model/LintGroup.lean`) is `LintGroupConfig` + `LintGroup::lint`. Rules are abstract
functions (`Rules.doc`: whole-document rules, `Rules.pat`: pattern rules per chunk, both in key
order), so every theorem holds for any rule set. `lint R cap [] c d` is a fresh group (empty cache).
The JSON round trip is serde's derive: monitored by the harness, not proved.
-/
namespace Harper.C11
open Harper Harper.LG

variable {κ δ γ : Type} [DecidableEq κ] [DecidableEq γ]

/-! ## The configuration algebra -/

/-- a rule is on exactly when the map holds `Some(true)` for it; absent and `None` are off -/
theorem isEnabled_spec (c : Cfg κ) (k : κ) : isEnabled c k = true ↔ get k c = some (some true) := by
  unfold isEnabled
  cases h : get k c with
  | none => simp
  | some v => cases v with
    | none => simp
    | some b => cases b <;> simp

theorem setRule_spec (k k' : κ) (b : Bool) (c : Cfg κ) :
    get k' (setRule k b c) = if k' = k then some (some b) else get k' c := get_ins k k' (some b) c

theorem unset_spec (k k' : κ) (c : Cfg κ) :
    get k' (unset k c) = if k' = k then none else get k' c := get_unset k k' c

/-- `set_rule_enabled_if_unset` tests `contains_key`: a key present with value `None`
(what `clear` leaves behind) counts as set and is NOT overwritten. -/
theorem setIfUnset_spec (k k' : κ) (b : Bool) (c : Cfg κ) :
    get k' (setIfUnset k b c) =
      if k' = k ∧ get k c = none then some (some b) else get k' c := by
  unfold setIfUnset
  cases h : get k c with
  | some v => simp
  | none =>
    simp only [setRule_spec, and_true]

/-- `clear` keeps the keys and sets every value to `None`: every rule is off afterwards -/
theorem clear_spec (k : κ) (c : Cfg κ) :
    get k (clear c) = (get k c).map (fun _ => none) ∧ isEnabled (clear c) k = false := by
  refine ⟨get_clear k c, ?_⟩
  unfold isEnabled
  rw [get_clear]
  cases get k c <;> rfl

/-- `merge_from`: `Some` values of the argument override, `None` values are skipped, and the
argument is left *cleared* (all its keys still present, all values `None`) — not empty. -/
theorem mergeFrom_spec (self other : Cfg κ) (hw : other.WF) (k : κ) :
    get k (mergeFrom self other).1 =
        (match get k other with
         | some (some b) => some (some b)
         | _ => get k self) ∧
      (mergeFrom self other).2 = clear other := by
  refine ⟨?_, rfl⟩
  show get k (mergeInto self other) = _
  rw [get_mergeInto k self other hw]
  unfold override
  cases get k other with
  | none => rfl
  | some v => cases v <;> rfl

/-- `fill_with_curated`: explicit user values win, everything else is the curated value
(a user key with value `None` that is not a curated rule disappears). -/
theorem fillWithCurated_spec (curated user : Cfg κ) (hw : user.WF) (k : κ) :
    get k (fillWithCurated curated user) =
      match get k user with
      | some (some b) => some (some b)
      | _ => get k curated :=
  (mergeFrom_spec curated user hw k).1

/-- every operation keeps the map a map (no key twice) -/
theorem wf_preserved (c o : Cfg κ) (k : κ) (b : Bool) (h : c.WF) :
    (setRule k b c).WF ∧ (unset k c).WF ∧ (setIfUnset k b c).WF ∧ (clear c).WF ∧
      (mergeFrom c o).1.WF ∧ (fillWithCurated c o).WF ∧ (Cfg.WF o → (mergeFrom c o).2.WF) := by
  refine ⟨wf_ins h, wf_unset h, ?_, wf_clear h, wf_mergeInto h, wf_mergeInto h, fun ho => wf_clear ho⟩
  unfold setIfUnset
  split
  · exact h
  · exact wf_ins h

/-- explicit user choices always win -/
theorem explicit_choice_wins (curated user : Cfg κ) (hw : user.WF) (k : κ) (b : Bool)
    (h : get k user = some (some b)) : isEnabled (fillWithCurated curated user) k = b := by
  unfold isEnabled
  rw [fillWithCurated_spec curated user hw k, h]

/-- rules the user has not mentioned (absent, or present as `null`) take their curated default -/
theorem unmentioned_takes_default (curated user : Cfg κ) (hw : user.WF) (k : κ)
    (h : get k user = none ∨ get k user = some none) :
    get k (fillWithCurated curated user) = get k curated := by
  rw [fillWithCurated_spec curated user hw k]
  rcases h with h | h <;> rw [h]

/-- merge order: merging `a` then `b` is merging (`b` merged into `a`) — later merges win -/
theorem merge_assoc (s a b : Cfg κ) (ha : a.WF) (hb : b.WF) (k : κ) :
    get k (mergeFrom (mergeFrom s a).1 b).1 = get k (mergeFrom s (mergeFrom a b).1).1 := by
  show get k (mergeInto (mergeInto s a) b) = get k (mergeInto s (mergeInto a b))
  rw [get_mergeInto k _ b hb, get_mergeInto k s a ha, get_mergeInto k s _ (wf_mergeInto ha),
    get_mergeInto k a b hb]
  unfold override
  cases get k b with
  | none => rfl
  | some v => cases v <;> rfl

/-- filling twice is filling once -/
theorem fill_idempotent (curated user : Cfg κ) (hc : curated.WF) (hw : user.WF) (k : κ) :
    get k (fillWithCurated curated (fillWithCurated curated user)) =
      get k (fillWithCurated curated user) := by
  have hw2 : (fillWithCurated curated user).WF := wf_mergeInto hc
  rw [fillWithCurated_spec curated _ hw2 k, fillWithCurated_spec curated user hw k]
  have hcur : (match get k curated with
      | some (some b) => some (some b)
      | _ => get k curated) = get k curated := by
    cases get k curated with
    | none => rfl
    | some v => cases v <;> rfl
  cases get k user with
  | none => exact hcur
  | some v => cases v with
    | none => exact hcur
    | some b => rfl

/-! ## The group -/

/-- a fresh group returns the cache-free reading of `lint` -/
theorem lint_fresh_spec (R : Rules κ δ γ) (cap : Nat) (c : Cfg κ) (d : Doc δ γ) :
    (lint R cap [] c d).1 = lintSpec R c d :=
  (lint_spec R cap c d (Lru.inv_nil _)).1

/-- A rule that is switched off contributes no lints: the group behaves as if the rule were not
registered at all. -/
theorem disabled_contributes_nothing (R : Rules κ δ γ) (cap : Nat) (c : Cfg κ) (d : Doc δ γ)
    (r : κ) (h : isEnabled c r = false) :
    (lint R cap [] c d).1 = (lint (R.without r) cap [] c d).1 := by
  rw [lint_fresh_spec, lint_fresh_spec]
  unfold lintSpec chunkSpec compute Rules.without
  simp only [runEnabled_without c r _ _ h]

/-- The lints under configuration `c` are the fixed interleaving of what each enabled rule
produces on its own (configuration `only r`): whole-document rules in name order on the document,
then chunk by chunk the pattern rules in name order. Rule names are distinct (`LintGroup::add`
refuses a second rule of the same name in either map). -/
theorem lint_is_combination (R : Rules κ δ γ) (cap : Nat) (c : Cfg κ) (d : Doc δ γ)
    (hn : (R.doc.map (·.1) ++ R.pat.map (·.1)).Nodup) :
    (lint R cap [] c d).1 =
      ((R.doc.map (·.1)).filter (isEnabled c)).flatMap
          (fun r => (lint R cap [] (only r) ⟨d.whole, []⟩).1) ++
        d.chunks.flatMap (fun ch =>
          ((R.pat.map (·.1)).filter (isEnabled c)).flatMap
            (fun r => (lint R cap [] (only r) ⟨d.whole, [ch]⟩).1)) := by
  have hnd := (List.nodup_append.mp hn).1
  have hnp := (List.nodup_append.mp hn).2.1
  have hdis := (List.nodup_append.mp hn).2.2
  simp only [lint_fresh_spec]
  unfold lintSpec
  congr 1
  · rw [runEnabled_combination c d.whole R.doc hnd]
    apply flatMap_congr'
    intro r _
    simp [chunkSpec]
  · unfold chunkSpec
    apply flatMap_congr'
    intro ch _
    unfold compute
    rw [runEnabled_combination c ch.2 R.pat hnp, List.map_flatMap]
    apply flatMap_congr'
    intro r hr
    have hr' : r ∈ R.pat.map (·.1) := (List.mem_filter.mp hr).1
    have : r ∉ R.doc.map (·.1) := fun hd => hdis r hd r hr' rfl
    simp [runEnabled_only_not_mem r d.whole R.doc this]

/-- The same without assuming that the two rule maps have disjoint key sets (each map is a
`BTreeMap`, so its own keys are distinct — that is all that is needed): each enabled rule is run
alone in the group restricted to its own map. `LintGroup::merge_from` does not check for a key that
is present in both maps, and the curated group does contain one such name (`Intact`: a closed-
compound rule in `linters` and a phrase correction in `pattern_linters`, one switch for both), so
this is the form that covers the real curated group; the harness reports such names. -/
theorem lint_is_combination_maps (R : Rules κ δ γ) (cap : Nat) (c : Cfg κ) (d : Doc δ γ)
    (hd : (R.doc.map (·.1)).Nodup) (hp : (R.pat.map (·.1)).Nodup) :
    (lint R cap [] c d).1 =
      ((R.doc.map (·.1)).filter (isEnabled c)).flatMap
          (fun r => (lint R.docOnly cap [] (only r) ⟨d.whole, []⟩).1) ++
        d.chunks.flatMap (fun ch =>
          ((R.pat.map (·.1)).filter (isEnabled c)).flatMap
            (fun r => (lint R.patOnly cap [] (only r) ⟨d.whole, [ch]⟩).1)) := by
  simp only [lint_fresh_spec]
  unfold lintSpec
  congr 1
  · rw [runEnabled_combination c d.whole R.doc hd]
    apply flatMap_congr'
    intro r _
    simp [chunkSpec, Rules.docOnly]
  · unfold chunkSpec
    apply flatMap_congr'
    intro ch _
    unfold compute
    rw [runEnabled_combination c ch.2 R.pat hp, List.map_flatMap]
    apply flatMap_congr'
    intro r _
    simp [Rules.patOnly, runEnabled]

/-- Toggling rule `r` never changes another rule's output: with every lint attributed to the rule
that produced it (`lintT`, whose payloads are exactly the output of `lint`), the lints of any other
rule `r'` are the same list under two configurations that agree on `r'`. -/
theorem toggle_independent (R : Rules κ δ γ) (cap : Nat) (c₁ c₂ : Cfg κ) (d : Doc δ γ) (r' : κ)
    (h : isEnabled c₁ r' = isEnabled c₂ r') :
    (lintT R c₁ d).map (·.2) = (lint R cap [] c₁ d).1 ∧
      (lintT R c₂ d).map (·.2) = (lint R cap [] c₂ d).1 ∧
      (lintT R c₁ d).filter (fun p => p.1 = r') = (lintT R c₂ d).filter (fun p => p.1 = r') := by
  refine ⟨by rw [lintT_untag, lint_fresh_spec], by rw [lintT_untag, lint_fresh_spec], ?_⟩
  unfold lintT
  simp only [List.filter_append, List.filter_flatMap]
  rw [runEnabledT_filter r' d.whole R.doc h]
  congr 1
  apply flatMap_congr'
  intro ch _
  have := runEnabledT_filter r' ch.2 R.pat h
  rw [List.filter_map, List.filter_map]
  exact congrArg _ this

/-- the instance the property names: setting rule `r` (to anything) leaves rule `r' ≠ r` alone -/
theorem toggle_independent_setRule (c : Cfg κ) (r r' : κ) (b : Bool) (h : r' ≠ r) :
    isEnabled (setRule r b c) r' = isEnabled c r' := by
  apply isEnabled_eq_of_get
  rw [setRule_spec, if_neg h]

/-- Attribution-free reading: whatever is done to rule `r`, the lints of all other rules (the
output of the group without `r`) are a sub-list, in the same order, of the output. -/
theorem others_unchanged (R : Rules κ δ γ) (cap : Nat) (c c' : Cfg κ) (d : Doc δ γ) (r : κ)
    (h : ∀ k, k ≠ r → isEnabled c k = isEnabled c' k) :
    ((lint (R.without r) cap [] c d).1).Sublist (lint R cap [] c' d).1 := by
  rw [lint_fresh_spec, lint_fresh_spec]
  unfold lintSpec Rules.without
  apply List.Sublist.append
  · exact runEnabled_without_sublist r d.whole R.doc h
  · unfold chunkSpec compute
    simp only []
    induction d.chunks with
    | nil => exact List.Sublist.refl _
    | cons ch t ih =>
      simp only [List.flatMap_cons]
      exact List.Sublist.append ((runEnabled_without_sublist r ch.2 R.pat h).map _) ih

/-- Unknown rule names are harmless: two configurations that agree on every registered rule give
the same lints (on a fresh group; through the cache: `C05.unknown_keys_harmless_cached`). -/
theorem unknown_keys_harmless (R : Rules κ δ γ) (cap : Nat) (c₁ c₂ : Cfg κ) (d : Doc δ γ)
    (h : ∀ r ∈ R.doc.map (·.1) ++ R.pat.map (·.1), isEnabled c₁ r = isEnabled c₂ r) :
    (lint R cap [] c₁ d).1 = (lint R cap [] c₂ d).1 := by
  rw [lint_fresh_spec, lint_fresh_spec]
  exact lintSpec_congr R d h

/-- membership in the output of one rule map -/
theorem mem_runEnabled {α : Type} (c : Cfg κ) (x : α) (rs : List (κ × (α → List PLint))) (l : PLint) :
    l ∈ runEnabled c x rs ↔ ∃ p ∈ rs, isEnabled c p.1 = true ∧ l ∈ p.2 x := by
  rw [runEnabled_eq_flatMap]
  simp only [List.mem_flatMap, List.mem_filter]
  constructor
  · rintro ⟨p, ⟨hp, he⟩, hl⟩; exact ⟨p, hp, he, hl⟩
  · rintro ⟨p, hp, he, hl⟩; exact ⟨p, ⟨hp, he⟩, hl⟩

/-- **Exactly the combination**, as a set and without any assumption on rule names (so it covers the
curated group with its shared name `Intact`): a lint is produced under configuration `c` iff some
rule enabled in `c` produces it when it is the only rule switched on — on the WHOLE document `d`.
(`lint_is_combination` adds the order.) -/
theorem mem_lint_iff (R : Rules κ δ γ) (cap : Nat) (c : Cfg κ) (d : Doc δ γ) (l : PLint) :
    l ∈ (lint R cap [] c d).1 ↔ ∃ r, isEnabled c r = true ∧ l ∈ (lint R cap [] (only r) d).1 := by
  simp only [lint_fresh_spec]
  unfold lintSpec chunkSpec compute
  simp only [List.mem_append, List.mem_flatMap, List.mem_map, mem_runEnabled]
  constructor
  · rintro (⟨p, hp, he, hl⟩ | ⟨ch, hch, l0, ⟨p, hp, he, hl⟩, rfl⟩)
    · exact ⟨p.1, he, Or.inl ⟨p, hp, by simp [isEnabled_only], hl⟩⟩
    · exact ⟨p.1, he, Or.inr ⟨ch, hch, l0, ⟨p, hp, by simp [isEnabled_only], hl⟩, rfl⟩⟩
  · rintro ⟨r, hr, (⟨p, hp, he, hl⟩ | ⟨ch, hch, l0, ⟨p, hp, he, hl⟩, rfl⟩)⟩
    · have : p.1 = r := by simpa [isEnabled_only] using he
      exact Or.inl ⟨p, hp, this ▸ hr, hl⟩
    · have : p.1 = r := by simpa [isEnabled_only] using he
      exact Or.inr ⟨ch, hch, l0, ⟨p, hp, this ▸ hr, hl⟩, rfl⟩

/-- the per-chunk pieces `lint (only r) ⟨d.whole, [ch]⟩` that `lint_is_combination` interleaves are,
concatenated, what the pattern rule `r` produces on its own on the whole document -/
theorem lint_only_chunks (R : Rules κ δ γ) (cap : Nat) (r : κ) (d : Doc δ γ)
    (h : r ∉ R.doc.map (·.1)) :
    (lint R cap [] (only r) d).1 =
      d.chunks.flatMap (fun ch => (lint R cap [] (only r) ⟨d.whole, [ch]⟩).1) := by
  simp only [lint_fresh_spec]
  unfold lintSpec chunkSpec
  simp [runEnabled_only_not_mem r d.whole R.doc h]

/-! ## Non-vacuity and witnesses (keys and chunk contents are `Nat`s, kernel-evaluated) -/

/-- curated `{1:on, 2:off, 3:on}`, user `{1:off, 2:null, 4:on, 5:null}` -/
example : fillWithCurated [(1, some true), (2, some false), (3, some true)]
    [(1, some false), (2, none), (4, some true), (5, none)] =
    [(1, some false), (2, some false), (3, some true), (4, some true)] := by decide

/-- the hypotheses `WF` are satisfiable by those instances -/
example : Cfg.WF [(1, some false), (2, none), (4, some true), (5, (none : Option Bool))] := by
  unfold Cfg.WF; decide

/-- `merge_from` leaves its argument cleared, not empty -/
example : mergeFrom [(1, some true)] [(1, some false), (2, none)] =
    ([(1, some false)], [(1, none), (2, none)]) := by decide

/-- the `contains_key` quirk: after `clear`, `set_rule_enabled_if_unset` does nothing -/
example : isEnabled (setIfUnset 1 true (clear [(1, some true)])) 1 = false := by decide
example : isEnabled (setIfUnset 1 true (unset 1 [(1, some false)])) 1 = true := by decide

/-- a group with two whole-document rules (1, 4) and two pattern rules (2, 3) -/
def exR : Rules Nat Nat Nat where
  doc := [(1, fun d => [⟨d, d + 1, 10⟩]), (4, fun d => [⟨0, d, 40⟩, ⟨1, d, 41⟩])]
  pat := [(2, fun g => [⟨g, g + 2, 20⟩]), (3, fun g => if g = 7 then [⟨0, 1, 30⟩] else [])]

def exD : Doc Nat Nat := ⟨5, [(100, 7), (200, 8), (300, 7)]⟩

/-- all on: whole-document rules first, then per chunk the pattern rules; chunk 7 recurs (a hit) -/
example : (lint exR 2 [] [(1, some true), (2, some true), (3, some true), (4, some true)] exD).1 =
    [⟨5, 6, 10⟩, ⟨0, 5, 40⟩, ⟨1, 5, 41⟩,
     ⟨107, 109, 20⟩, ⟨100, 101, 30⟩, ⟨208, 210, 20⟩, ⟨307, 309, 20⟩, ⟨300, 301, 30⟩] := by decide

/-- rule 2 off (and an unknown key 9 on): rule 2's lints are gone, everything else is unchanged -/
example : (lint exR 2 [] [(1, some true), (2, some false), (3, some true), (4, some true), (9, some true)] exD).1 =
    [⟨5, 6, 10⟩, ⟨0, 5, 40⟩, ⟨1, 5, 41⟩, ⟨100, 101, 30⟩, ⟨300, 301, 30⟩] := by decide

/-- the hypotheses of `lint_is_combination` / `lint_is_combination_maps` hold for that group -/
example : (exR.doc.map (·.1) ++ exR.pat.map (·.1)).Nodup := by decide
example : (exR.doc.map (·.1)).Nodup ∧ (exR.pat.map (·.1)).Nodup := by decide

/-- one name in both maps (the curated group's `Intact`): one switch drives two rules, and the
disjointness hypothesis of `lint_is_combination` fails while `lint_is_combination_maps` applies -/
def exShared : Rules Nat Nat Nat where
  doc := [(1, fun _ => [⟨17, 24, 0⟩])]
  pat := [(1, fun _ => [⟨17, 24, 1⟩])]

example : (lint exShared 2 [] (only 1) ⟨0, [(0, 5)]⟩).1 = [⟨17, 24, 0⟩, ⟨17, 24, 1⟩] := by decide
example : ¬ (exShared.doc.map (·.1) ++ exShared.pat.map (·.1)).Nodup := by decide

/-! ### the theorems above applied to these data (joint non-vacuity of their hypotheses) -/

def exCur : Cfg Nat := [(1, some true), (2, some false), (3, some true)]
def exUser : Cfg Nat := [(1, some false), (2, none), (4, some true), (5, none)]
def cAll : Cfg Nat := [(1, some true), (2, some true), (3, some true), (4, some true)]
def cNo2 : Cfg Nat := [(1, some true), (2, some false), (3, some true), (4, some true), (9, some true)]

theorem exUser_wf : Cfg.WF exUser := by unfold Cfg.WF; decide
theorem exCur_wf : Cfg.WF exCur := by unfold Cfg.WF; decide

/-- non-vacuity of mergeFrom_spec / fillWithCurated_spec: key 1 (explicit off wins over curated on),
key 2 (`null`: curated off stays), key 3 (absent: curated on), key 4 (unknown, explicit on: kept) -/
example : get 1 (mergeFrom exCur exUser).1 = some (some false) ∧ (mergeFrom exCur exUser).2 = clear exUser :=
  mergeFrom_spec exCur exUser exUser_wf 1
example : get 2 (fillWithCurated exCur exUser) = get 2 exCur := fillWithCurated_spec exCur exUser exUser_wf 2
example : get 4 (fillWithCurated exCur exUser) = some (some true) := fillWithCurated_spec exCur exUser exUser_wf 4

/-- non-vacuity of explicit_choice_wins -/
example : isEnabled (fillWithCurated exCur exUser) 1 = false :=
  explicit_choice_wins exCur exUser exUser_wf 1 false (by decide)
/-- non-vacuity of unmentioned_takes_default: `null` (key 2) and absent (key 3) -/
example : get 2 (fillWithCurated exCur exUser) = some (some false) :=
  unmentioned_takes_default exCur exUser exUser_wf 2 (Or.inr (by decide))
example : get 3 (fillWithCurated exCur exUser) = some (some true) :=
  unmentioned_takes_default exCur exUser exUser_wf 3 (Or.inl (by decide))

/-- non-vacuity of wf_preserved -/
example : (setRule 2 true exCur).WF ∧ (unset 2 exCur).WF ∧ (setIfUnset 2 true exCur).WF ∧ (clear exCur).WF ∧
    (mergeFrom exCur exUser).1.WF ∧ (fillWithCurated exCur exUser).WF ∧ (Cfg.WF exUser → (mergeFrom exCur exUser).2.WF) :=
  wf_preserved exCur exUser 2 true exCur_wf

/-- non-vacuity of merge_assoc / fill_idempotent -/
example : get 1 (mergeFrom (mergeFrom [(1, some true), (6, some true)] exCur).1 exUser).1 =
    get 1 (mergeFrom [(1, some true), (6, some true)] (mergeFrom exCur exUser).1).1 :=
  merge_assoc _ exCur exUser exCur_wf exUser_wf 1
example : get 1 (mergeFrom (mergeFrom [(1, some true), (6, some true)] exCur).1 exUser).1 = some (some false) := by decide
example : get 4 (fillWithCurated exCur (fillWithCurated exCur exUser)) = get 4 (fillWithCurated exCur exUser) :=
  fill_idempotent exCur exUser exCur_wf exUser_wf 4

/-- non-vacuity of disabled_contributes_nothing: rule 2 is off in `cNo2` -/
example : (lint exR 2 [] cNo2 exD).1 = (lint (exR.without 2) 2 [] cNo2 exD).1 :=
  disabled_contributes_nothing exR 2 cNo2 exD 2 (by decide)

/-- non-vacuity of lint_is_combination: the right-hand side, evaluated -/
example : (lint exR 2 [] cAll exD).1 =
    ((exR.doc.map (·.1)).filter (isEnabled cAll)).flatMap
        (fun r => (lint exR 2 [] (only r) ⟨exD.whole, []⟩).1) ++
      exD.chunks.flatMap (fun ch =>
        ((exR.pat.map (·.1)).filter (isEnabled cAll)).flatMap
          (fun r => (lint exR 2 [] (only r) ⟨exD.whole, [ch]⟩).1)) :=
  lint_is_combination exR 2 cAll exD (by decide)
/-- … `lint_is_combination_maps` for the group with a shared name -/
example : (lint exShared 2 [] (only 1) ⟨0, [(0, 5)]⟩).1 =
    ((exShared.doc.map (·.1)).filter (isEnabled (only 1))).flatMap
        (fun r => (lint exShared.docOnly 2 [] (only r) ⟨0, []⟩).1) ++
      [(0, 5)].flatMap (fun ch =>
        ((exShared.pat.map (·.1)).filter (isEnabled (only 1))).flatMap
          (fun r => (lint exShared.patOnly 2 [] (only r) ⟨0, [ch]⟩).1)) :=
  lint_is_combination_maps exShared 2 (only 1) ⟨0, [(0, 5)]⟩ (by decide) (by decide)
/-- what each rule of `exR` produces on its own on `exD` -/
example : (lint exR 2 [] (only 2) exD).1 = [⟨107, 109, 20⟩, ⟨208, 210, 20⟩, ⟨307, 309, 20⟩] ∧
    (lint exR 2 [] (only 3) exD).1 = [⟨100, 101, 30⟩, ⟨300, 301, 30⟩] ∧
    (lint exR 2 [] (only 4) exD).1 = [⟨0, 5, 40⟩, ⟨1, 5, 41⟩] := by decide

/-- non-vacuity of toggle_independent: `cAll` and `cNo2` differ on rule 2 and agree on rule 3;
the attributed lints of rule 3 are the same non-empty list -/
example : (lintT exR cAll exD).filter (fun p => p.1 = 3) = (lintT exR cNo2 exD).filter (fun p => p.1 = 3) :=
  (toggle_independent exR 2 cAll cNo2 exD 3 (by decide)).2.2
example : (lintT exR cNo2 exD).filter (fun p => p.1 = 3) = [(3, ⟨100, 101, 30⟩), (3, ⟨300, 301, 30⟩)] := by decide
/-- non-vacuity of toggle_independent_setRule -/
example : isEnabled (setRule 2 false cAll) 3 = isEnabled cAll 3 :=
  toggle_independent_setRule cAll 2 3 false (by decide)
/-- non-vacuity of others_unchanged: switching rule 2 off (`setRule`) keeps the lints of rules 1, 3, 4 -/
example : ((lint (exR.without 2) 2 [] cAll exD).1).Sublist (lint exR 2 [] (setRule 2 false cAll) exD).1 :=
  others_unchanged exR 2 cAll (setRule 2 false cAll) exD 2
    (fun k hk => (toggle_independent_setRule cAll 2 k false hk).symm)
example : (lint (exR.without 2) 2 [] cAll exD).1 =
    [⟨5, 6, 10⟩, ⟨0, 5, 40⟩, ⟨1, 5, 41⟩, ⟨100, 101, 30⟩, ⟨300, 301, 30⟩] := by decide

/-- non-vacuity of unknown_keys_harmless: unknown keys 9 (on) and 8 (off, `null`) -/
example : (lint exR 2 [] cAll exD).1 = (lint exR 2 [] (cAll ++ [(9, some true), (8, none)]) exD).1 :=
  unknown_keys_harmless exR 2 cAll _ exD (by decide)

/-- non-vacuity of lint_only_chunks / mem_lint_iff -/
example : (lint exR 2 [] (only 3) exD).1 =
    exD.chunks.flatMap (fun ch => (lint exR 2 [] (only 3) ⟨exD.whole, [ch]⟩).1) :=
  lint_only_chunks exR 2 3 exD (by decide)
example : (⟨300, 301, 30⟩ : PLint) ∈ (lint exR 2 [] cNo2 exD).1 :=
  (mem_lint_iff exR 2 cNo2 exD _).mpr ⟨3, by decide, by decide⟩

end Harper.C11
