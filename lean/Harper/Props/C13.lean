import Harper.Lemmas.Overlaps
/-!
# C13 — overlap resolution returns a conflict-free subset of the lints

Property theorems only; helper lemmas are in `Harper/Lemmas/Overlaps.lean`.
The model (`Harper/Model/Overlaps.lean`) is the code: stable sort by `(start, MAX - end)`,
index-collecting sweep with running `cur`, queue-driven `retain`.
-/
namespace Harper.C13
open Harper

/-- Nothing invented, nothing altered: the output is a sub-list of a permutation of the input
(the permutation being the stable sort). -/
theorem removeOverlaps_sublist_of_perm (l : List Lint) :
    ∃ s, s.Perm l ∧ (removeOverlaps l).Sublist s := by
  unfold removeOverlaps
  split
  · exact ⟨l, List.Perm.refl _, List.Sublist.refl _⟩
  · refine ⟨isort l, isort_perm l, ?_⟩
    simp only []
    rw [removeIndices_sweepIdx]
    exact sweep_sublist _ _

/-- every element of the output is an element of the input -/
theorem removeOverlaps_subset (l : List Lint) : ∀ x ∈ removeOverlaps l, x ∈ l := by
  obtain ⟨s, hp, hs⟩ := removeOverlaps_sublist_of_perm l
  intro x hx
  exact hp.mem_iff.mp (hs.subset hx)

/-- No two kept lints cover a common character: in output order each ends before the next
starts. (Well-formed spans `start ≤ end` are what `Span` guarantees.) -/
theorem removeOverlaps_disjoint (l : List Lint) (hwf : ∀ x ∈ l, x.s ≤ x.e) :
    (removeOverlaps l).Pairwise (fun a b => a.e ≤ b.s) := by
  unfold removeOverlaps
  split
  · rename_i h
    match l, h with
    | [], _ => simp
    | [x], _ => simp
    | _ :: _ :: _, h => simp at h; omega
  · simp only []
    rw [removeIndices_sweepIdx]
    exact (sweep_kept 0 (isort l)
      (fun x hx => hwf x ((isort_perm l).mem_iff.mp hx))).2

/-- kept and dropped partition the input, and every dropped lint starts inside (or at the start
of) a kept lint. -/
theorem dropped_inside_kept (l : List Lint) :
    (removeOverlaps l ++ droppedBy l).Perm l ∧
    ∀ d ∈ droppedBy l, ∃ k ∈ removeOverlaps l, k.s ≤ d.s ∧ d.s < k.e := by
  unfold removeOverlaps droppedBy
  split
  · simp
  · simp only []
    rw [removeIndices_sweepIdx, keepIndices_sweepIdx]
    refine ⟨(sweep_perm 0 (isort l)).trans (isort_perm l), ?_⟩
    intro d hd
    rcases sweep_dropped 0 (isort l) (isort_sorted l) 0 (fun _ _ => Nat.zero_le _) d hd with
      ⟨_, h⟩ | h
    · omega
    · exact h

/-- `remove_indices` with strictly increasing indices (all at or after the running index)
removes exactly the elements at those positions. -/
theorem removeIndices_spec {α} (xs : List α) (i : Nat) (q : List Nat)
    (hq : q.Pairwise (· < ·)) (hi : ∀ r ∈ q, i ≤ r) :
    removeIndices i q xs = ((xs.zipIdx i).filter (fun p => !q.contains p.2)).map (·.1) := by
  induction xs generalizing i q with
  | nil => simp [removeIndices]
  | cons x xs ih =>
    cases q with
    | nil =>
      have : (xs.zipIdx (i+1)).map (·.1) = xs := by simp [List.zipIdx_map_fst]
      have hf : (xs.zipIdx (i+1)).filter (fun _ => true) = xs.zipIdx (i+1) := List.filter_eq_self.mpr (by simp)
      simp [removeIndices_nil, hf, this]
    | cons r q =>
      have ⟨hr, hq'⟩ := List.pairwise_cons.mp hq
      by_cases h : i = r
      · subst h
        have hi' : ∀ r ∈ q, i + 1 ≤ r := fun r hr' => hr r hr'
        simp only [removeIndices, if_true, List.zipIdx_cons]
        rw [ih (i + 1) q hq' hi']
        simp only [List.filter_cons, List.contains_cons, beq_self_eq_true, Bool.true_or,
          Bool.not_true, Bool.false_eq_true, if_false]
        congr 1
        apply List.filter_congr
        intro p hp
        have : i + 1 ≤ p.2 := List.le_snd_of_mem_zipIdx hp
        have hne : (p.2 == i) = false := by simp; omega
        simp [hne]
      · have hlt : i < r := by have := hi r List.mem_cons_self; omega
        have hi' : ∀ r' ∈ r :: q, i + 1 ≤ r' := by
          intro r' hr'
          rcases List.mem_cons.mp hr' with rfl | h'
          · omega
          · have := hr r' h'; omega
        have hnc : (r :: q).contains i = false := by
          apply Bool.eq_false_iff.mpr
          intro hc
          have := List.contains_iff_mem.mp hc
          have := hi' i this
          omega
        simp only [removeIndices, h, if_false, List.zipIdx_cons]
        rw [ih (i + 1) (r :: q) hq hi']
        have hni : ¬ i ∈ q := by
          intro hm; have := hr i hm; omega
        simp [h, hni]

/-! ### Non-vacuity and witnesses (concrete, kernel-evaluated) -/

/-- a non-trivial instance: nested, touching, equal and zero-width spans -/
example :
    removeOverlaps [⟨0,5,1⟩, ⟨3,6,2⟩, ⟨5,5,3⟩, ⟨5,9,4⟩, ⟨2,2,5⟩] = [⟨0,5,1⟩, ⟨5,9,4⟩] := by
  decide

example : droppedBy [⟨0,5,1⟩, ⟨3,6,2⟩, ⟨5,5,3⟩, ⟨5,9,4⟩, ⟨2,2,5⟩] =
    [⟨2,2,5⟩, ⟨3,6,2⟩, ⟨5,5,3⟩] := by decide

/-- the hypothesis of `removeOverlaps_disjoint` is satisfiable by that instance -/
example : ∀ x ∈ [(⟨0,5,1⟩ : Lint), ⟨3,6,2⟩, ⟨5,5,3⟩, ⟨5,9,4⟩, ⟨2,2,5⟩], x.s ≤ x.e := by decide

/-- unsorted indices make `remove_indices` silently skip (why the sweep's order matters) -/
example : removeIndices 0 [2, 0] [10, 11, 12] = [10, 11] := by decide

end Harper.C13
