import Harper.Lemmas.Overlaps
/-!
# C13 — overlap resolution returns a conflict-free subset of the lints

Property theorems only; helper lemmas are in `Harper/Lemmas/Overlaps.lean`.
The model (`Harper/Model/Overlaps.lean`) is the code: stable sort by `(start, MAX - end)`,
index-collecting sweep with running `cur`, queue-driven `retain`.
-/
namespace Harper.C13
open Harper

/-- Nothing invented, nothing altered: the output is a sub-list of a permutation of the input
(the permutation being the stable sort). -/
theorem removeOverlaps_sublist_of_perm (l : List Lint) :
    ∃ s, s.Perm l ∧ (removeOverlaps l).Sublist s := by
  unfold removeOverlaps
  split
  · exact ⟨l, List.Perm.refl _, List.Sublist.refl _⟩
  · refine ⟨isort l, isort_perm l, ?_⟩
    simp only []
    rw [removeIndices_sweepIdx]
    exact sweep_sublist _ _

/-- every element of the output is an element of the input -/
theorem removeOverlaps_subset (l : List Lint) : ∀ x ∈ removeOverlaps l, x ∈ l := by
  obtain ⟨s, hp, hs⟩ := removeOverlaps_sublist_of_perm l
  intro x hx
  exact hp.mem_iff.mp (hs.subset hx)

/-- No two kept lints cover a common character: in output order each ends before the next
starts. (Well-formed spans `start ≤ end` are what `Span` guarantees.) -/
theorem removeOverlaps_disjoint (l : List Lint) (hwf : ∀ x ∈ l, x.s ≤ x.e) :
    (removeOverlaps l).Pairwise (fun a b => a.e ≤ b.s) := by
  unfold removeOverlaps
  split
  · rename_i h
    match l, h with
    | [], _ => simp
    | [x], _ => simp
    | _ :: _ :: _, h => simp at h; omega
  · simp only []
    rw [removeIndices_sweepIdx]
    exact (sweep_kept 0 (isort l)
      (fun x hx => hwf x ((isort_perm l).mem_iff.mp hx))).2

/-- kept and dropped partition the input, and every dropped lint starts inside (or at the start
of) a kept lint. -/
theorem dropped_inside_kept (l : List Lint) :
    (removeOverlaps l ++ droppedBy l).Perm l ∧
    ∀ d ∈ droppedBy l, ∃ k ∈ removeOverlaps l, k.s ≤ d.s ∧ d.s < k.e := by
  unfold removeOverlaps droppedBy
  split
  · simp
  · simp only []
    rw [removeIndices_sweepIdx, keepIndices_sweepIdx]
    refine ⟨(sweep_perm 0 (isort l)).trans (isort_perm l), ?_⟩
    intro d hd
    rcases sweep_dropped 0 (isort l) (isort_sorted l) 0 (fun _ _ => Nat.zero_le _) d hd with
      ⟨_, h⟩ | h
    · omega
    · exact h

/-- `remove_indices` with strictly increasing indices (all at or after the running index)
removes exactly the elements at those positions. -/
theorem removeIndices_spec {α} (xs : List α) (i : Nat) (q : List Nat)
    (hq : q.Pairwise (· < ·)) (hi : ∀ r ∈ q, i ≤ r) :
    removeIndices i q xs = ((xs.zipIdx i).filter (fun p => !q.contains p.2)).map (·.1) := by
  induction xs generalizing i q with
  | nil => simp [removeIndices]
  | cons x xs ih =>
    cases q with
    | nil =>
      have : (xs.zipIdx (i+1)).map (·.1) = xs := by simp [List.zipIdx_map_fst]
      have hf : (xs.zipIdx (i+1)).filter (fun _ => true) = xs.zipIdx (i+1) := List.filter_eq_self.mpr (by simp)
      simp [removeIndices_nil, hf, this]
    | cons r q =>
      have ⟨hr, hq'⟩ := List.pairwise_cons.mp hq
      by_cases h : i = r
      · subst h
        have hi' : ∀ r ∈ q, i + 1 ≤ r := fun r hr' => hr r hr'
        simp only [removeIndices, if_true, List.zipIdx_cons]
        rw [ih (i + 1) q hq' hi']
        simp only [List.filter_cons, List.contains_cons, beq_self_eq_true, Bool.true_or,
          Bool.not_true, Bool.false_eq_true, if_false]
        congr 1
        apply List.filter_congr
        intro p hp
        have : i + 1 ≤ p.2 := List.le_snd_of_mem_zipIdx hp
        have hne : (p.2 == i) = false := by simp; omega
        simp [hne]
      · have hlt : i < r := by have := hi r List.mem_cons_self; omega
        have hi' : ∀ r' ∈ r :: q, i + 1 ≤ r' := by
          intro r' hr'
          rcases List.mem_cons.mp hr' with rfl | h'
          · omega
          · have := hr r' h'; omega
        have hnc : (r :: q).contains i = false := by
          apply Bool.eq_false_iff.mpr
          intro hc
          have := List.contains_iff_mem.mp hc
          have := hi' i this
          omega
        simp only [removeIndices, h, if_false, List.zipIdx_cons]
        rw [ih (i + 1) (r :: q) hq hi']
        have hni : ¬ i ∈ q := by
          intro hm; have := hr i hm; omega
        simp [h, hni]

/-! ### Non-vacuity and witnesses (concrete, kernel-evaluated) -/

/-- a non-trivial instance: nested, touching, equal and zero-width spans -/
example :
    removeOverlaps [⟨0,5,1⟩, ⟨3,6,2⟩, ⟨5,5,3⟩, ⟨5,9,4⟩, ⟨2,2,5⟩] = [⟨0,5,1⟩, ⟨5,9,4⟩] := by
  decide

example : droppedBy [⟨0,5,1⟩, ⟨3,6,2⟩, ⟨5,5,3⟩, ⟨5,9,4⟩, ⟨2,2,5⟩] =
    [⟨2,2,5⟩, ⟨3,6,2⟩, ⟨5,5,3⟩] := by decide

/-- the hypothesis of `removeOverlaps_disjoint` is satisfiable by that instance -/
example : ∀ x ∈ [(⟨0,5,1⟩ : Lint), ⟨3,6,2⟩, ⟨5,5,3⟩, ⟨5,9,4⟩, ⟨2,2,5⟩], x.s ≤ x.e := by decide

/-- unsorted indices make `remove_indices` silently skip (why the sweep's order matters) -/
example : removeIndices 0 [2, 0] [10, 11, 12] = [10, 11] := by decide

/-! ## Added by the w22 audit: which permutation, no well-formedness hypothesis, the drop clause
without `droppedBy`, zero-width and equal spans, non-vacuity of `removeIndices_spec` -/

/-! ### Which permutation: the stable sort by the code's key -/

/-- the sort key order (`(start, MAX - end)` compared lexicographically) is transitive -/
theorem key_le_trans (a b c : Lint) (h1 : Lint.le a b = true) (h2 : Lint.le b c = true) :
    Lint.le a c = true := by
  simp only [Lint.le, Bool.or_eq_true, decide_eq_true_eq, Bool.and_eq_true, beq_iff_eq] at *
  omega

theorem insertSorted_key_sorted (x : Lint) (ys : List Lint)
    (h : ys.Pairwise (fun a b => Lint.le a b = true)) :
    (insertSorted x ys).Pairwise (fun a b => Lint.le a b = true) := by
  induction ys with
  | nil => simp [insertSorted]
  | cons y ys ih =>
    have ⟨h1, h2⟩ := List.pairwise_cons.mp h
    unfold insertSorted; split
    · rename_i hxy
      refine List.pairwise_cons.mpr ⟨?_, h⟩
      intro b hb
      rcases List.mem_cons.mp hb with rfl | hb
      · exact hxy
      · exact key_le_trans _ _ _ hxy (h1 b hb)
    · rename_i hxy
      have hyx : Lint.le y x = true := by
        rcases le_total' x y with h | h
        · exact absurd h hxy
        · exact h
      refine List.pairwise_cons.mpr ⟨?_, ih h2⟩
      intro b hb
      rcases List.mem_cons.mp ((insertSorted_perm x ys).mem_iff.mp hb) with rfl | hb
      · exact hyx
      · exact h1 b hb

/-- the sorted list is in non-decreasing KEY order (start ascending, then end DESCENDING), not
only start order -/
theorem isort_key_sorted (l : List Lint) :
    (isort l).Pairwise (fun a b => a.s < b.s ∨ (a.s = b.s ∧ b.e ≤ a.e)) := by
  have : (isort l).Pairwise (fun a b => Lint.le a b = true) := by
    induction l with
    | nil => simp [isort]
    | cons x xs ih => exact insertSorted_key_sorted x _ ih
  refine this.imp ?_
  intro a b h
  simpa only [Lint.le, Bool.or_eq_true, decide_eq_true_eq, Bool.and_eq_true, beq_iff_eq] using h

theorem insertSorted_filter_key (x : Lint) (ys : List Lint) (s e : Nat) :
    (insertSorted x ys).filter (fun y => y.s == s && y.e == e)
      = (x :: ys).filter (fun y => y.s == s && y.e == e) := by
  induction ys with
  | nil => simp [insertSorted]
  | cons y ys ih =>
    unfold insertSorted; split
    · rfl
    · rename_i hxy
      by_cases hx : (x.s == s && x.e == e) = true
      · -- `y` has another key than `x`, hence is filtered out on both sides
        have hy : (y.s == s && y.e == e) = false := by
          apply Bool.eq_false_iff.mpr
          intro hy
          apply hxy
          simp only [Bool.and_eq_true, beq_iff_eq] at hx hy
          simp only [Lint.le, Bool.or_eq_true, decide_eq_true_eq, Bool.and_eq_true, beq_iff_eq]
          omega
        rw [List.filter_cons, hy, if_neg (by simp), ih]
        simp only [List.filter_cons, hx, hy, if_true]
        simp
      · have hx' : (x.s == s && x.e == e) = false := Bool.eq_false_iff.mpr hx
        rw [List.filter_cons, ih]
        simp only [List.filter_cons, hx']
        simp

/-- **the sort is stable**: lints with the same key (same span) keep their input order. Together
with `isort_perm` and `isort_key_sorted` this determines `isort l` uniquely: it is THE stable
sort of `l` by `(start, MAX - end)`, what `sort_by_key` computes. -/
theorem isort_stable (l : List Lint) (s e : Nat) :
    (isort l).filter (fun y => y.s == s && y.e == e) = l.filter (fun y => y.s == s && y.e == e) := by
  induction l with
  | nil => rfl
  | cons x xs ih =>
    simp only [isort]
    rw [insertSorted_filter_key, List.filter_cons, List.filter_cons, ih]

/-- Nothing invented, nothing altered, nothing reordered beyond the sort: the output is a
sub-list of the stably sorted input (for fewer than two lints, of the input itself, which is its
own sort). Stronger than `removeOverlaps_sublist_of_perm`, which leaves the permutation open. -/
theorem removeOverlaps_sublist_isort (l : List Lint) : (removeOverlaps l).Sublist (isort l) := by
  unfold removeOverlaps
  split
  · rename_i h
    match l, h with
    | [], _ => simp [isort]
    | [x], _ => simp [isort, insertSorted]
    | _ :: _ :: _, h => simp at h; omega
  · simp only []
    rw [removeIndices_sweepIdx]
    exact sweep_sublist _ _

/-- `sweep` on a start-sorted list: kept lints are pairwise disjoint WITHOUT assuming
`start ≤ end` of the lints -/
theorem sweep_kept_sorted (cur : Nat) (ls : List Lint) (hs : StartSorted ls) :
    (∀ k ∈ (sweep cur ls).1, cur ≤ k.s) ∧
    (sweep cur ls).1.Pairwise (fun a b => a.e ≤ b.s) := by
  induction ls generalizing cur with
  | nil => simp [sweep]
  | cons l ls ih =>
    have hs' : StartSorted ls := (List.pairwise_cons.mp hs).2
    have hle : ∀ x ∈ ls, l.s ≤ x.s := (List.pairwise_cons.mp hs).1
    unfold sweep; split
    · exact ih cur hs'
    · rename_i h
      have ⟨h1, h2⟩ := ih l.e hs'
      constructor
      · intro k hk
        rcases List.mem_cons.mp hk with rfl | hk
        · omega
        · have := hle k ((sweep_sublist l.e ls).subset hk); omega
      · exact List.pairwise_cons.mpr ⟨fun b hb => h1 b hb, h2⟩

/-- `removeOverlaps_disjoint` for EVERY list of lints (the property's quantifier): the hypothesis
`start ≤ end` is not needed, the sort order does its work. -/
theorem removeOverlaps_disjoint_any (l : List Lint) :
    (removeOverlaps l).Pairwise (fun a b => a.e ≤ b.s) := by
  unfold removeOverlaps
  split
  · rename_i h
    match l, h with
    | [], _ => simp
    | [x], _ => simp
    | _ :: _ :: _, h => simp at h; omega
  · simp only []
    rw [removeIndices_sweepIdx]
    exact (sweep_kept_sorted 0 (isort l) (isort_sorted l)).2

/-- a malformed lint (`start > end`, which `Span`'s public fields allow) among well-formed ones -/
example : removeOverlaps [⟨4,6,1⟩, ⟨5,3,2⟩, ⟨6,2,3⟩, ⟨6,9,4⟩] = [⟨4,6,1⟩, ⟨6,9,4⟩] := by decide

/-- The drop clause without `droppedBy`: every lint of the input is kept, or starts inside (or at
the start of) a lint that is kept. -/
theorem kept_or_starts_inside_kept (l : List Lint) :
    ∀ d ∈ l, d ∈ removeOverlaps l ∨ ∃ k ∈ removeOverlaps l, k.s ≤ d.s ∧ d.s < k.e := by
  intro d hd
  obtain ⟨hp, hin⟩ := dropped_inside_kept l
  rcases List.mem_append.mp (hp.mem_iff.mpr hd) with h | h
  · exact Or.inl h
  · exact Or.inr (hin d h)

/-- a kept lint is never also "covered": with distinct payloads, kept and dropped are disjoint
sets. Concretely, of two lints with the same span the FIRST in input order survives (stability) -/
example : removeOverlaps [⟨2,4,7⟩, ⟨2,4,8⟩, ⟨0,1,9⟩] = [⟨0,1,9⟩, ⟨2,4,7⟩] := by decide
example : removeOverlaps [⟨2,4,8⟩, ⟨2,4,7⟩, ⟨0,1,9⟩] = [⟨0,1,9⟩, ⟨2,4,8⟩] := by decide

/-- zero-width lints: two at the same place are BOTH kept (they share no character; `a.e ≤ b.s`
holds with equality), one at the END of a kept lint is kept, one at its START or inside is dropped -/
example : removeOverlaps [⟨2,2,1⟩, ⟨2,2,2⟩] = [⟨2,2,1⟩, ⟨2,2,2⟩] := by decide
example : removeOverlaps [⟨2,5,1⟩, ⟨5,5,2⟩, ⟨2,2,3⟩, ⟨3,3,4⟩] = [⟨2,5,1⟩, ⟨5,5,2⟩] := by decide

/-- non-vacuity of `removeIndices_spec`: strictly increasing indices at or after the running index
(the test of `vec_ext.rs`) -/
example : removeIndices 0 [1, 4, 6] [0, 1, 2, 3, 4, 5, 6, 7, 8, 9] = [0, 2, 3, 5, 7, 8, 9] := by decide
example : [1, 4, 6].Pairwise (· < ·) ∧ ∀ r ∈ [1, 4, 6], 0 ≤ r := by decide
example : removeIndices 0 [1, 4, 6] [0, 1, 2, 3, 4, 5, 6, 7, 8, 9]
    = (([0, 1, 2, 3, 4, 5, 6, 7, 8, 9].zipIdx 0).filter (fun p => ![1, 4, 6].contains p.2)).map (·.1) :=
  removeIndices_spec _ 0 [1, 4, 6] (by decide) (by decide)

/-- the sweep's index queue IS strictly increasing from the running index, so `removeIndices_spec`
applies to what `remove_overlaps` hands to `remove_indices` -/
theorem sweepIdx_increasing (cur i : Nat) (ls : List Lint) :
    (sweepIdx cur i ls).Pairwise (· < ·) ∧ ∀ r ∈ sweepIdx cur i ls, i ≤ r := by
  induction ls generalizing cur i with
  | nil => simp [sweepIdx]
  | cons l ls ih =>
    unfold sweepIdx; split
    · have ⟨h1, h2⟩ := ih cur (i + 1)
      refine ⟨List.pairwise_cons.mpr ⟨fun r hr => by have := h2 r hr; omega, h1⟩, ?_⟩
      intro r hr
      rcases List.mem_cons.mp hr with rfl | hr
      · exact Nat.le_refl _
      · have := h2 r hr; omega
    · have ⟨h1, h2⟩ := ih l.e (i + 1)
      exact ⟨h1, fun r hr => by have := h2 r hr; omega⟩

end Harper.C13
