import Harper.Lemmas.PatternRules
import Harper.Props.C12c
import Harper.Props.C01Rules
/-!
# C12 (shipped `PatternLinter` rules) — each of the 28 rules is paragraph-local

Generic layer, for any rule = (pattern tree, `Spec`):

* `matchToLint_translation` / `matchToLint_left`: a `match_to_lint` given as a `Spec` (its span a selection of the matched
  tokens, its suggestions literals and texts under such selections, its own computations `CustomGood`) moves with
  its match and does not read text behind it;
* `patternRule_xlocal`: `run_on_chunk` of a rule whose tree is `Loc` (no paired-quote key) is chunk-local;
* `patternRule_paragraphs_separately`: hence, end to end from the characters of `P` and `D` (lexer, condensing passes,
  `iter_chunks`, `run_on_chunk`, the tree, `match_to_lint`), `rule(P ++ D) = rule(P) ++ shift(rule(D))` — and it panics
  exactly when one side does.

Per rule: `shippedRule_paragraphs_separately` by name, and one corollary per rule.
-/
namespace Harper.C12
open Harper Harper.Chunks Harper.Rules Harper.Leaves Harper.PatternRules
open Harper.C02 (asciiCls)

/-- **`match_to_lint` moves with its match** -/
theorem matchToLint_translation (env : Env) (s : Spec) (hg : s.Good) (P D : List Char) (matched : List Tok) (j : Nat) :
    s.run env (P ++ D) (shiftDoc P.length j matched) = (s.run env D matched).map (shiftRLs P.length) :=
  Spec.run_shift env s hg P D matched j

/-- … and does not look at text after its tokens -/
theorem matchToLint_left (env : Env) (s : Spec) (hg : s.Good) (P D : List Char) (matched : List Tok)
    (h : ∀ t ∈ matched, tokOK t = true ∧ t.span.stop ≤ P.length) : s.run env (P ++ D) matched = s.run env P matched :=
  Spec.run_left env s hg P D matched h

/-- non-vacuity of `matchToLint_translation` / `matchToLint_left`: Whereas' spec is `Good`; its lint on `where as` behind
`ok.¶¶` is the lint on `where as` moved by 5, and text behind `where as` does not change it -/
example : specWhereas.run env0 (c!"ok.xx" ++ c!"where as") (shiftDoc 5 3 [⟨⟨0, 5⟩, .word⟩, ⟨⟨5, 6⟩, .space 1⟩, ⟨⟨6, 8⟩, .word⟩]) =
      .ok [⟨⟨5, 13⟩, [.replaceWith c!"whereas"], 31, 0⟩] ∧
    specWhereas.run env0 (c!"where as" ++ c!" ok") [⟨⟨0, 5⟩, .word⟩, ⟨⟨5, 6⟩, .space 1⟩, ⟨⟨6, 8⟩, .word⟩] =
      .ok [⟨⟨0, 8⟩, [.replaceWith c!"whereas"], 31, 0⟩] :=
  have h : specWhereas.run env0 c!"where as" [⟨⟨0, 5⟩, .word⟩, ⟨⟨5, 6⟩, .space 1⟩, ⟨⟨6, 8⟩, .word⟩] =
      .ok [⟨⟨0, 8⟩, [.replaceWith c!"whereas"], 31, 0⟩] := by decide
  ⟨(matchToLint_translation env0 _ fineWhereas.good c!"ok.xx" c!"where as" _ 3).trans (by rw [h]; rfl),
    (matchToLint_left env0 _ fineWhereas.good c!"where as" c!" ok" _ (by decide)).trans h⟩

/-- **chunk-locality of every fine rule**: nothing on the empty chunk; text after the chunk does not matter; moving the
chunk with its text moves the lints — panics included -/
theorem patternRule_xlocal (env : Env) (r : PRule) (hr : Fine r) : XLocalE (r.piece env) := PRule.xlocalE env r hr

theorem patternRule_appends (env : Env) (r : PRule) (hr : Fine r) : Appends (r.rule env) :=
  appends_chunks _ (patternRule_xlocal env r hr)

/-- **C12 for every fine `PatternLinter`, end to end** -/
theorem patternRule_paragraphs_separately (env : Env) (r : PRule) (hr : Fine r)
    (cls : Cls) (P0 D : List Char) (k : Nat) (extP extD extPD : Ext) (h : ParagraphPair cls P0 D k extP extD extPD) :
    docRule cls extPD (r.rule env) ((P0 ++ List.replicate k '\n') ++ D) =
      joinE (P0 ++ List.replicate k '\n').length (docRule cls extP (r.rule env) (P0 ++ List.replicate k '\n'))
        (docRule cls extD (r.rule env) D) :=
  separately_of_appends _ (patternRule_appends env r hr) cls P0 D k extP extD extPD h

/-- **every shipped `PatternLinter` rule, by name** -/
theorem shippedRule_paragraphs_separately (env : Env) (name : String) (r : PRule) (hn : patternRuleByName name = some r)
    (cls : Cls) (P0 D : List Char) (k : Nat) (extP extD extPD : Ext) (h : ParagraphPair cls P0 D k extP extD extPD) :
    docRule cls extPD (r.rule env) ((P0 ++ List.replicate k '\n') ++ D) =
      joinE (P0 ++ List.replicate k '\n').length (docRule cls extP (r.rule env) (P0 ++ List.replicate k '\n'))
        (docRule cls extD (r.rule env) D) :=
  patternRule_paragraphs_separately env r (fine_of_name name r hn) cls P0 D k extP extD extPD h

/-- `ParagraphPair` for the ASCII class table and no url / e-mail / hostname lexer: three decidable conditions on the two
texts are left -/
theorem paragraphPair_ascii_noExt (P0 D : List Char) (h1 : NoNlEnd P0) (h2 : D.head? ≠ some '\n')
    (h3 : NoQuoteChars (P0 ++ List.replicate 2 '\n')) : ParagraphPair asciiCls P0 D 2 noExt noExt noExt where
  cls_ok := ⟨by decide, by decide, by
    intro c h
    simp only [asciiCls, isAsciiDigit, Bool.and_eq_true, decide_eq_true_eq] at h
    refine ⟨?_, ?_, ?_⟩
    · simp only [isAsciiAlpha, Bool.or_eq_false_iff, Bool.and_eq_false_imp, decide_eq_true_eq, decide_eq_false_iff_not]
      constructor <;> intro h3 <;> intro h4
      · exact absurd (Char.le_trans h3 h.2) (by decide)
      · exact absurd (Char.le_trans h3 h.2) (by decide)
    · intro hc; subst hc; exact absurd h.1 (by decide)
    · intro hc; subst hc; exact absurd h.1 (by decide)⟩
  two := Nat.le_refl 2
  no_nl_end := h1
  d_head := h2
  no_quotes := h3
  ext_local := ⟨fun _ _ => rfl, fun _ => rfl⟩
  ext_ok_p := by intro _ _ _ h; cases h
  ext_ok_d := by intro _ _ _ h; cases h
  ext_no_nl := by intro _ _ _ h; cases h

/-- non-vacuity of `patternRule_xlocal` / `patternRule_appends` / `patternRule_paragraphs_separately` /
`shippedRule_paragraphs_separately` and of the 28 corollaries below (their one hypothesis does not mention the rule):
`"Dashes"` is in the table and `Fine`; `a--b.¶¶` + `c---d` is a `ParagraphPair`, and `Where as.¶¶` + `so  what` another
(the lints of Dashes and Whereas on the first pair, in both paragraphs: the examples at the end of this file) -/
example : patternRuleByName "Dashes" = some ⟨patDashes, specDashes⟩ ∧ Fine ⟨patDashes, specDashes⟩ ∧
    ParagraphPair asciiCls c!"a--b." c!"c---d" 2 noExt noExt noExt ∧
    ParagraphPair asciiCls c!"Where as." c!"so  what" 2 noExt noExt noExt :=
  ⟨rfl, fineDashes, paragraphPair_ascii_noExt _ _ (by decide) (by decide) (by decide),
    paragraphPair_ascii_noExt _ _ (by decide) (by decide) (by decide)⟩

/-! ## one corollary per rule -/

theorem backInTheDay_paragraphs_separately (env : Env) (cls : Cls) (P0 D : List Char) (k : Nat) (extP extD extPD : Ext)
    (h : ParagraphPair cls P0 D k extP extD extPD) :
    docRule cls extPD (PRule.rule env ⟨patBackInTheDay, specBackInTheDay⟩) ((P0 ++ List.replicate k '\n') ++ D) =
      joinE (P0 ++ List.replicate k '\n').length (docRule cls extP (PRule.rule env ⟨patBackInTheDay, specBackInTheDay⟩) (P0 ++ List.replicate k '\n'))
        (docRule cls extD (PRule.rule env ⟨patBackInTheDay, specBackInTheDay⟩) D) :=
  patternRule_paragraphs_separately env _ fineBackInTheDay cls P0 D k extP extD extPD h
/-- `BackInTheDay` fires in both paragraphs: tokens tiling `back in the days.¶¶` (the last one the `ParagraphBreak`) and `back in the days`, the second list moved by 19 — the premises of `Appends` hold -/
example : (∀ t ∈ [⟨⟨0, 4⟩, .word⟩, ⟨⟨4, 5⟩, .space 1⟩, ⟨⟨5, 7⟩, .word⟩, ⟨⟨7, 8⟩, .space 1⟩, ⟨⟨8, 11⟩, .word⟩, ⟨⟨11, 12⟩, .space 1⟩, ⟨⟨12, 16⟩, .word⟩, ⟨⟨16, 17⟩, .punct .Period⟩, ⟨⟨17, 19⟩, .paragraphBreak⟩], tokOK t = true ∧ t.span.stop ≤ 19) ∧
    (∀ t ∈ [⟨⟨0, 4⟩, .word⟩, ⟨⟨4, 5⟩, .space 1⟩, ⟨⟨5, 7⟩, .word⟩, ⟨⟨7, 8⟩, .space 1⟩, ⟨⟨8, 11⟩, .word⟩, ⟨⟨11, 12⟩, .space 1⟩, ⟨⟨12, 16⟩, .word⟩], tokOK t = true) ∧
    PRule.rule env0 ⟨patBackInTheDay, specBackInTheDay⟩ ((c!"back in the days." ++ ['\n', '\n']) ++ c!"back in the days")
      ([⟨⟨0, 4⟩, .word⟩, ⟨⟨4, 5⟩, .space 1⟩, ⟨⟨5, 7⟩, .word⟩, ⟨⟨7, 8⟩, .space 1⟩, ⟨⟨8, 11⟩, .word⟩, ⟨⟨11, 12⟩, .space 1⟩, ⟨⟨12, 16⟩, .word⟩, ⟨⟨16, 17⟩, .punct .Period⟩, ⟨⟨17, 19⟩, .paragraphBreak⟩] ++ shiftDoc 19 9 [⟨⟨0, 4⟩, .word⟩, ⟨⟨4, 5⟩, .space 1⟩, ⟨⟨5, 7⟩, .word⟩, ⟨⟨7, 8⟩, .space 1⟩, ⟨⟨8, 11⟩, .word⟩, ⟨⟨11, 12⟩, .space 1⟩, ⟨⟨12, 16⟩, .word⟩]) =
      .ok [⟨⟨0, 16⟩, [.replaceWith c!"back in the day"], 20, 0⟩, ⟨⟨19, 35⟩, [.replaceWith c!"back in the day"], 20, 0⟩] := by decide
theorem dashes_paragraphs_separately (env : Env) (cls : Cls) (P0 D : List Char) (k : Nat) (extP extD extPD : Ext)
    (h : ParagraphPair cls P0 D k extP extD extPD) :
    docRule cls extPD (PRule.rule env ⟨patDashes, specDashes⟩) ((P0 ++ List.replicate k '\n') ++ D) =
      joinE (P0 ++ List.replicate k '\n').length (docRule cls extP (PRule.rule env ⟨patDashes, specDashes⟩) (P0 ++ List.replicate k '\n'))
        (docRule cls extD (PRule.rule env ⟨patDashes, specDashes⟩) D) :=
  patternRule_paragraphs_separately env _ fineDashes cls P0 D k extP extD extPD h
/-- `Dashes` fires in both paragraphs: tokens tiling `a--b.¶¶` (the last one the `ParagraphBreak`) and `a--b`, the second list moved by 7 — the premises of `Appends` hold -/
example : (∀ t ∈ [⟨⟨0, 1⟩, .word⟩, ⟨⟨1, 2⟩, .punct .Hyphen⟩, ⟨⟨2, 3⟩, .punct .Hyphen⟩, ⟨⟨3, 5⟩, .word⟩, ⟨⟨5, 7⟩, .paragraphBreak⟩], tokOK t = true ∧ t.span.stop ≤ 7) ∧
    (∀ t ∈ [⟨⟨0, 1⟩, .word⟩, ⟨⟨1, 2⟩, .punct .Hyphen⟩, ⟨⟨2, 3⟩, .punct .Hyphen⟩, ⟨⟨3, 4⟩, .word⟩], tokOK t = true) ∧
    PRule.rule env0 ⟨patDashes, specDashes⟩ ((c!"a--b." ++ ['\n', '\n']) ++ c!"a--b")
      ([⟨⟨0, 1⟩, .word⟩, ⟨⟨1, 2⟩, .punct .Hyphen⟩, ⟨⟨2, 3⟩, .punct .Hyphen⟩, ⟨⟨3, 5⟩, .word⟩, ⟨⟨5, 7⟩, .paragraphBreak⟩] ++ shiftDoc 7 5 [⟨⟨0, 1⟩, .word⟩, ⟨⟨1, 2⟩, .punct .Hyphen⟩, ⟨⟨2, 3⟩, .punct .Hyphen⟩, ⟨⟨3, 4⟩, .word⟩]) =
      .ok [⟨⟨1, 3⟩, [.replaceWith ['–']], 21, 2⟩, ⟨⟨8, 10⟩, [.replaceWith ['–']], 21, 2⟩] := by decide
theorem outOfDate_paragraphs_separately (env : Env) (cls : Cls) (P0 D : List Char) (k : Nat) (extP extD extPD : Ext)
    (h : ParagraphPair cls P0 D k extP extD extPD) :
    docRule cls extPD (PRule.rule env ⟨patOutOfDate, specOutOfDate⟩) ((P0 ++ List.replicate k '\n') ++ D) =
      joinE (P0 ++ List.replicate k '\n').length (docRule cls extP (PRule.rule env ⟨patOutOfDate, specOutOfDate⟩) (P0 ++ List.replicate k '\n'))
        (docRule cls extD (PRule.rule env ⟨patOutOfDate, specOutOfDate⟩) D) :=
  patternRule_paragraphs_separately env _ fineOutOfDate cls P0 D k extP extD extPD h
/-- `OutOfDate` fires in both paragraphs: tokens tiling `out of date.¶¶` (the last one the `ParagraphBreak`) and `out of date`, the second list moved by 14 — the premises of `Appends` hold -/
example : (∀ t ∈ [⟨⟨0, 3⟩, .word⟩, ⟨⟨3, 4⟩, .space 1⟩, ⟨⟨4, 6⟩, .word⟩, ⟨⟨6, 7⟩, .space 1⟩, ⟨⟨7, 11⟩, .word⟩, ⟨⟨11, 12⟩, .punct .Period⟩, ⟨⟨12, 14⟩, .paragraphBreak⟩], tokOK t = true ∧ t.span.stop ≤ 14) ∧
    (∀ t ∈ [⟨⟨0, 3⟩, .word⟩, ⟨⟨3, 4⟩, .space 1⟩, ⟨⟨4, 6⟩, .word⟩, ⟨⟨6, 7⟩, .space 1⟩, ⟨⟨7, 11⟩, .word⟩], tokOK t = true) ∧
    PRule.rule env0 ⟨patOutOfDate, specOutOfDate⟩ ((c!"out of date." ++ ['\n', '\n']) ++ c!"out of date")
      ([⟨⟨0, 3⟩, .word⟩, ⟨⟨3, 4⟩, .space 1⟩, ⟨⟨4, 6⟩, .word⟩, ⟨⟨6, 7⟩, .space 1⟩, ⟨⟨7, 11⟩, .word⟩, ⟨⟨11, 12⟩, .punct .Period⟩, ⟨⟨12, 14⟩, .paragraphBreak⟩] ++ shiftDoc 14 7 [⟨⟨0, 3⟩, .word⟩, ⟨⟨3, 4⟩, .space 1⟩, ⟨⟨4, 6⟩, .word⟩, ⟨⟨6, 7⟩, .space 1⟩, ⟨⟨7, 11⟩, .word⟩]) =
      .ok [⟨⟨0, 11⟩, [.replaceWith c!"out-of-date"], 22, 0⟩, ⟨⟨14, 25⟩, [.replaceWith c!"out-of-date"], 22, 0⟩] := by decide
theorem thenThan_paragraphs_separately (env : Env) (cls : Cls) (P0 D : List Char) (k : Nat) (extP extD extPD : Ext)
    (h : ParagraphPair cls P0 D k extP extD extPD) :
    docRule cls extPD (PRule.rule env ⟨patThenThan, specThenThan⟩) ((P0 ++ List.replicate k '\n') ++ D) =
      joinE (P0 ++ List.replicate k '\n').length (docRule cls extP (PRule.rule env ⟨patThenThan, specThenThan⟩) (P0 ++ List.replicate k '\n'))
        (docRule cls extD (PRule.rule env ⟨patThenThan, specThenThan⟩) D) :=
  patternRule_paragraphs_separately env _ fineThenThan cls P0 D k extP extD extPD h
/-- `ThenThan` fires in both paragraphs: tokens tiling `bigger then you.¶¶` (the last one the `ParagraphBreak`) and `bigger then you`, the second list moved by 18 — the premises of `Appends` hold -/
example : (∀ t ∈ [⟨⟨0, 6⟩, .word⟩, ⟨⟨6, 7⟩, .space 1⟩, ⟨⟨7, 11⟩, .word⟩, ⟨⟨11, 12⟩, .space 1⟩, ⟨⟨12, 15⟩, .word⟩, ⟨⟨15, 16⟩, .punct .Period⟩, ⟨⟨16, 18⟩, .paragraphBreak⟩], tokOK t = true ∧ t.span.stop ≤ 18) ∧
    (∀ t ∈ [⟨⟨0, 6⟩, .word⟩, ⟨⟨6, 7⟩, .space 1⟩, ⟨⟨7, 11⟩, .word⟩, ⟨⟨11, 12⟩, .space 1⟩, ⟨⟨12, 15⟩, .word⟩], tokOK t = true) ∧
    PRule.rule { env0 with wordFlags := fun w => if w == c!"bigger" then 8 else 0 } ⟨patThenThan, specThenThan⟩ ((c!"bigger then you." ++ ['\n', '\n']) ++ c!"bigger then you")
      ([⟨⟨0, 6⟩, .word⟩, ⟨⟨6, 7⟩, .space 1⟩, ⟨⟨7, 11⟩, .word⟩, ⟨⟨11, 12⟩, .space 1⟩, ⟨⟨12, 15⟩, .word⟩, ⟨⟨15, 16⟩, .punct .Period⟩, ⟨⟨16, 18⟩, .paragraphBreak⟩] ++ shiftDoc 18 7 [⟨⟨0, 6⟩, .word⟩, ⟨⟨6, 7⟩, .space 1⟩, ⟨⟨7, 11⟩, .word⟩, ⟨⟨11, 12⟩, .space 1⟩, ⟨⟨12, 15⟩, .word⟩]) =
      .ok [⟨⟨7, 11⟩, [.replaceWith c!"than"], 23, 0⟩, ⟨⟨25, 29⟩, [.replaceWith c!"than"], 23, 0⟩] := by decide
theorem piqueInterest_paragraphs_separately (env : Env) (cls : Cls) (P0 D : List Char) (k : Nat) (extP extD extPD : Ext)
    (h : ParagraphPair cls P0 D k extP extD extPD) :
    docRule cls extPD (PRule.rule env ⟨patPiqueInterest, specPiqueInterest⟩) ((P0 ++ List.replicate k '\n') ++ D) =
      joinE (P0 ++ List.replicate k '\n').length (docRule cls extP (PRule.rule env ⟨patPiqueInterest, specPiqueInterest⟩) (P0 ++ List.replicate k '\n'))
        (docRule cls extD (PRule.rule env ⟨patPiqueInterest, specPiqueInterest⟩) D) :=
  patternRule_paragraphs_separately env _ finePiqueInterest cls P0 D k extP extD extPD h
/-- `PiqueInterest` fires in both paragraphs: tokens tiling `peak my interest.¶¶` (the last one the `ParagraphBreak`) and `peak my interest`, the second list moved by 19 — the premises of `Appends` hold -/
example : (∀ t ∈ [⟨⟨0, 4⟩, .word⟩, ⟨⟨4, 5⟩, .space 1⟩, ⟨⟨5, 7⟩, .word⟩, ⟨⟨7, 8⟩, .space 1⟩, ⟨⟨8, 16⟩, .word⟩, ⟨⟨16, 17⟩, .punct .Period⟩, ⟨⟨17, 19⟩, .paragraphBreak⟩], tokOK t = true ∧ t.span.stop ≤ 19) ∧
    (∀ t ∈ [⟨⟨0, 4⟩, .word⟩, ⟨⟨4, 5⟩, .space 1⟩, ⟨⟨5, 7⟩, .word⟩, ⟨⟨7, 8⟩, .space 1⟩, ⟨⟨8, 16⟩, .word⟩], tokOK t = true) ∧
    PRule.rule { env0 with wordFlags := fun w => if w == c!"my" then 16384 else 0 } ⟨patPiqueInterest, specPiqueInterest⟩ ((c!"peak my interest." ++ ['\n', '\n']) ++ c!"peak my interest")
      ([⟨⟨0, 4⟩, .word⟩, ⟨⟨4, 5⟩, .space 1⟩, ⟨⟨5, 7⟩, .word⟩, ⟨⟨7, 8⟩, .space 1⟩, ⟨⟨8, 16⟩, .word⟩, ⟨⟨16, 17⟩, .punct .Period⟩, ⟨⟨17, 19⟩, .paragraphBreak⟩] ++ shiftDoc 19 7 [⟨⟨0, 4⟩, .word⟩, ⟨⟨4, 5⟩, .space 1⟩, ⟨⟨5, 7⟩, .word⟩, ⟨⟨7, 8⟩, .space 1⟩, ⟨⟨8, 16⟩, .word⟩]) =
      .ok [⟨⟨0, 4⟩, [.replaceWith c!"pique"], 24, 0⟩, ⟨⟨19, 23⟩, [.replaceWith c!"pique"], 24, 0⟩] := by decide
theorem wasAloud_paragraphs_separately (env : Env) (cls : Cls) (P0 D : List Char) (k : Nat) (extP extD extPD : Ext)
    (h : ParagraphPair cls P0 D k extP extD extPD) :
    docRule cls extPD (PRule.rule env ⟨patWasAloud, specWasAloud⟩) ((P0 ++ List.replicate k '\n') ++ D) =
      joinE (P0 ++ List.replicate k '\n').length (docRule cls extP (PRule.rule env ⟨patWasAloud, specWasAloud⟩) (P0 ++ List.replicate k '\n'))
        (docRule cls extD (PRule.rule env ⟨patWasAloud, specWasAloud⟩) D) :=
  patternRule_paragraphs_separately env _ fineWasAloud cls P0 D k extP extD extPD h
/-- `WasAloud` fires in both paragraphs: tokens tiling `was aloud.¶¶` (the last one the `ParagraphBreak`) and `was aloud`, the second list moved by 12 — the premises of `Appends` hold -/
example : (∀ t ∈ [⟨⟨0, 3⟩, .word⟩, ⟨⟨3, 4⟩, .space 1⟩, ⟨⟨4, 9⟩, .word⟩, ⟨⟨9, 10⟩, .punct .Period⟩, ⟨⟨10, 12⟩, .paragraphBreak⟩], tokOK t = true ∧ t.span.stop ≤ 12) ∧
    (∀ t ∈ [⟨⟨0, 3⟩, .word⟩, ⟨⟨3, 4⟩, .space 1⟩, ⟨⟨4, 9⟩, .word⟩], tokOK t = true) ∧
    PRule.rule env0 ⟨patWasAloud, specWasAloud⟩ ((c!"was aloud." ++ ['\n', '\n']) ++ c!"was aloud")
      ([⟨⟨0, 3⟩, .word⟩, ⟨⟨3, 4⟩, .space 1⟩, ⟨⟨4, 9⟩, .word⟩, ⟨⟨9, 10⟩, .punct .Period⟩, ⟨⟨10, 12⟩, .paragraphBreak⟩] ++ shiftDoc 12 5 [⟨⟨0, 3⟩, .word⟩, ⟨⟨3, 4⟩, .space 1⟩, ⟨⟨4, 9⟩, .word⟩]) =
      .ok [⟨⟨0, 9⟩, [.replaceWith c!"was allowed"], 25, 0⟩, ⟨⟨12, 21⟩, [.replaceWith c!"was allowed"], 25, 0⟩] := by decide
theorem hyphenateNumberDay_paragraphs_separately (env : Env) (cls : Cls) (P0 D : List Char) (k : Nat) (extP extD extPD : Ext)
    (h : ParagraphPair cls P0 D k extP extD extPD) :
    docRule cls extPD (PRule.rule env ⟨patHyphenateNumberDay, specHyphenateNumberDay⟩) ((P0 ++ List.replicate k '\n') ++ D) =
      joinE (P0 ++ List.replicate k '\n').length (docRule cls extP (PRule.rule env ⟨patHyphenateNumberDay, specHyphenateNumberDay⟩) (P0 ++ List.replicate k '\n'))
        (docRule cls extD (PRule.rule env ⟨patHyphenateNumberDay, specHyphenateNumberDay⟩) D) :=
  patternRule_paragraphs_separately env _ fineHyphenateNumberDay cls P0 D k extP extD extPD h
/-- `HyphenateNumberDay` fires in both paragraphs: tokens tiling `5 day plan.¶¶` (the last one the `ParagraphBreak`) and `5 day plan`, the second list moved by 13 — the premises of `Appends` hold -/
example : (∀ t ∈ [⟨⟨0, 1⟩, .number 10 none⟩, ⟨⟨1, 2⟩, .space 1⟩, ⟨⟨2, 5⟩, .word⟩, ⟨⟨5, 6⟩, .space 1⟩, ⟨⟨6, 10⟩, .word⟩, ⟨⟨10, 11⟩, .punct .Period⟩, ⟨⟨11, 13⟩, .paragraphBreak⟩], tokOK t = true ∧ t.span.stop ≤ 13) ∧
    (∀ t ∈ [⟨⟨0, 1⟩, .number 10 none⟩, ⟨⟨1, 2⟩, .space 1⟩, ⟨⟨2, 5⟩, .word⟩, ⟨⟨5, 6⟩, .space 1⟩, ⟨⟨6, 10⟩, .word⟩], tokOK t = true) ∧
    PRule.rule { env0 with wordFlags := fun w => if w == c!"plan" then 33088 else 0 } ⟨patHyphenateNumberDay, specHyphenateNumberDay⟩ ((c!"5 day plan." ++ ['\n', '\n']) ++ c!"5 day plan")
      ([⟨⟨0, 1⟩, .number 10 none⟩, ⟨⟨1, 2⟩, .space 1⟩, ⟨⟨2, 5⟩, .word⟩, ⟨⟨5, 6⟩, .space 1⟩, ⟨⟨6, 10⟩, .word⟩, ⟨⟨10, 11⟩, .punct .Period⟩, ⟨⟨11, 13⟩, .paragraphBreak⟩] ++ shiftDoc 13 7 [⟨⟨0, 1⟩, .number 10 none⟩, ⟨⟨1, 2⟩, .space 1⟩, ⟨⟨2, 5⟩, .word⟩, ⟨⟨5, 6⟩, .space 1⟩, ⟨⟨6, 10⟩, .word⟩]) =
      .ok [⟨⟨1, 2⟩, [.replaceWith c!"-"], 26, 0⟩, ⟨⟨14, 15⟩, [.replaceWith c!"-"], 26, 0⟩] := by decide
theorem leftRightHand_paragraphs_separately (env : Env) (cls : Cls) (P0 D : List Char) (k : Nat) (extP extD extPD : Ext)
    (h : ParagraphPair cls P0 D k extP extD extPD) :
    docRule cls extPD (PRule.rule env ⟨patLeftRightHand, specLeftRightHand⟩) ((P0 ++ List.replicate k '\n') ++ D) =
      joinE (P0 ++ List.replicate k '\n').length (docRule cls extP (PRule.rule env ⟨patLeftRightHand, specLeftRightHand⟩) (P0 ++ List.replicate k '\n'))
        (docRule cls extD (PRule.rule env ⟨patLeftRightHand, specLeftRightHand⟩) D) :=
  patternRule_paragraphs_separately env _ fineLeftRightHand cls P0 D k extP extD extPD h
/-- `LeftRightHand` fires in both paragraphs: tokens tiling `left hand side.¶¶` (the last one the `ParagraphBreak`) and `left hand side`, the second list moved by 17 — the premises of `Appends` hold -/
example : (∀ t ∈ [⟨⟨0, 4⟩, .word⟩, ⟨⟨4, 5⟩, .space 1⟩, ⟨⟨5, 9⟩, .word⟩, ⟨⟨9, 10⟩, .space 1⟩, ⟨⟨10, 14⟩, .word⟩, ⟨⟨14, 15⟩, .punct .Period⟩, ⟨⟨15, 17⟩, .paragraphBreak⟩], tokOK t = true ∧ t.span.stop ≤ 17) ∧
    (∀ t ∈ [⟨⟨0, 4⟩, .word⟩, ⟨⟨4, 5⟩, .space 1⟩, ⟨⟨5, 9⟩, .word⟩, ⟨⟨9, 10⟩, .space 1⟩, ⟨⟨10, 14⟩, .word⟩], tokOK t = true) ∧
    PRule.rule { env0 with wordFlags := fun w => if w == c!"side" then 256 else 0 } ⟨patLeftRightHand, specLeftRightHand⟩ ((c!"left hand side." ++ ['\n', '\n']) ++ c!"left hand side")
      ([⟨⟨0, 4⟩, .word⟩, ⟨⟨4, 5⟩, .space 1⟩, ⟨⟨5, 9⟩, .word⟩, ⟨⟨9, 10⟩, .space 1⟩, ⟨⟨10, 14⟩, .word⟩, ⟨⟨14, 15⟩, .punct .Period⟩, ⟨⟨15, 17⟩, .paragraphBreak⟩] ++ shiftDoc 17 7 [⟨⟨0, 4⟩, .word⟩, ⟨⟨4, 5⟩, .space 1⟩, ⟨⟨5, 9⟩, .word⟩, ⟨⟨9, 10⟩, .space 1⟩, ⟨⟨10, 14⟩, .word⟩]) =
      .ok [⟨⟨4, 5⟩, [.replaceWith c!"-"], 27, 0⟩, ⟨⟨21, 22⟩, [.replaceWith c!"-"], 27, 0⟩] := by decide
theorem hereby_paragraphs_separately (env : Env) (cls : Cls) (P0 D : List Char) (k : Nat) (extP extD extPD : Ext)
    (h : ParagraphPair cls P0 D k extP extD extPD) :
    docRule cls extPD (PRule.rule env ⟨patHereby, specHereby⟩) ((P0 ++ List.replicate k '\n') ++ D) =
      joinE (P0 ++ List.replicate k '\n').length (docRule cls extP (PRule.rule env ⟨patHereby, specHereby⟩) (P0 ++ List.replicate k '\n'))
        (docRule cls extD (PRule.rule env ⟨patHereby, specHereby⟩) D) :=
  patternRule_paragraphs_separately env _ fineHereby cls P0 D k extP extD extPD h
/-- `Hereby` fires in both paragraphs: tokens tiling `here by go.¶¶` (the last one the `ParagraphBreak`) and `here by go`, the second list moved by 13 — the premises of `Appends` hold -/
example : (∀ t ∈ [⟨⟨0, 4⟩, .word⟩, ⟨⟨4, 5⟩, .space 1⟩, ⟨⟨5, 7⟩, .word⟩, ⟨⟨7, 8⟩, .space 1⟩, ⟨⟨8, 10⟩, .word⟩, ⟨⟨10, 11⟩, .punct .Period⟩, ⟨⟨11, 13⟩, .paragraphBreak⟩], tokOK t = true ∧ t.span.stop ≤ 13) ∧
    (∀ t ∈ [⟨⟨0, 4⟩, .word⟩, ⟨⟨4, 5⟩, .space 1⟩, ⟨⟨5, 7⟩, .word⟩, ⟨⟨7, 8⟩, .space 1⟩, ⟨⟨8, 10⟩, .word⟩], tokOK t = true) ∧
    PRule.rule { env0 with wordFlags := fun w => if w == c!"go" then 128 else 0 } ⟨patHereby, specHereby⟩ ((c!"here by go." ++ ['\n', '\n']) ++ c!"here by go")
      ([⟨⟨0, 4⟩, .word⟩, ⟨⟨4, 5⟩, .space 1⟩, ⟨⟨5, 7⟩, .word⟩, ⟨⟨7, 8⟩, .space 1⟩, ⟨⟨8, 10⟩, .word⟩, ⟨⟨10, 11⟩, .punct .Period⟩, ⟨⟨11, 13⟩, .paragraphBreak⟩] ++ shiftDoc 13 7 [⟨⟨0, 4⟩, .word⟩, ⟨⟨4, 5⟩, .space 1⟩, ⟨⟨5, 7⟩, .word⟩, ⟨⟨7, 8⟩, .space 1⟩, ⟨⟨8, 10⟩, .word⟩]) =
      .ok [⟨⟨0, 7⟩, [.replaceWith c!"hereby"], 28, 0⟩, ⟨⟨13, 20⟩, [.replaceWith c!"hereby"], 28, 0⟩] := by decide
theorem likewise_paragraphs_separately (env : Env) (cls : Cls) (P0 D : List Char) (k : Nat) (extP extD extPD : Ext)
    (h : ParagraphPair cls P0 D k extP extD extPD) :
    docRule cls extPD (PRule.rule env ⟨patLikewise, specLikewise⟩) ((P0 ++ List.replicate k '\n') ++ D) =
      joinE (P0 ++ List.replicate k '\n').length (docRule cls extP (PRule.rule env ⟨patLikewise, specLikewise⟩) (P0 ++ List.replicate k '\n'))
        (docRule cls extD (PRule.rule env ⟨patLikewise, specLikewise⟩) D) :=
  patternRule_paragraphs_separately env _ fineLikewise cls P0 D k extP extD extPD h
/-- `Likewise` fires in both paragraphs: tokens tiling `like wise.¶¶` (the last one the `ParagraphBreak`) and `like wise`, the second list moved by 12 — the premises of `Appends` hold -/
example : (∀ t ∈ [⟨⟨0, 4⟩, .word⟩, ⟨⟨4, 5⟩, .space 1⟩, ⟨⟨5, 9⟩, .word⟩, ⟨⟨9, 10⟩, .punct .Period⟩, ⟨⟨10, 12⟩, .paragraphBreak⟩], tokOK t = true ∧ t.span.stop ≤ 12) ∧
    (∀ t ∈ [⟨⟨0, 4⟩, .word⟩, ⟨⟨4, 5⟩, .space 1⟩, ⟨⟨5, 9⟩, .word⟩], tokOK t = true) ∧
    PRule.rule env0 ⟨patLikewise, specLikewise⟩ ((c!"like wise." ++ ['\n', '\n']) ++ c!"like wise")
      ([⟨⟨0, 4⟩, .word⟩, ⟨⟨4, 5⟩, .space 1⟩, ⟨⟨5, 9⟩, .word⟩, ⟨⟨9, 10⟩, .punct .Period⟩, ⟨⟨10, 12⟩, .paragraphBreak⟩] ++ shiftDoc 12 5 [⟨⟨0, 4⟩, .word⟩, ⟨⟨4, 5⟩, .space 1⟩, ⟨⟨5, 9⟩, .word⟩]) =
      .ok [⟨⟨0, 9⟩, [.replaceWith c!"likewise"], 29, 0⟩, ⟨⟨12, 21⟩, [.replaceWith c!"likewise"], 29, 0⟩] := by decide
theorem nobody_paragraphs_separately (env : Env) (cls : Cls) (P0 D : List Char) (k : Nat) (extP extD extPD : Ext)
    (h : ParagraphPair cls P0 D k extP extD extPD) :
    docRule cls extPD (PRule.rule env ⟨patNobody, specNobody⟩) ((P0 ++ List.replicate k '\n') ++ D) =
      joinE (P0 ++ List.replicate k '\n').length (docRule cls extP (PRule.rule env ⟨patNobody, specNobody⟩) (P0 ++ List.replicate k '\n'))
        (docRule cls extD (PRule.rule env ⟨patNobody, specNobody⟩) D) :=
  patternRule_paragraphs_separately env _ fineNobody cls P0 D k extP extD extPD h
/-- `Nobody` fires in both paragraphs: tokens tiling `no body cares.¶¶` (the last one the `ParagraphBreak`) and `no body cares`, the second list moved by 16 — the premises of `Appends` hold -/
example : (∀ t ∈ [⟨⟨0, 2⟩, .word⟩, ⟨⟨2, 3⟩, .space 1⟩, ⟨⟨3, 7⟩, .word⟩, ⟨⟨7, 8⟩, .space 1⟩, ⟨⟨8, 13⟩, .word⟩, ⟨⟨13, 14⟩, .punct .Period⟩, ⟨⟨14, 16⟩, .paragraphBreak⟩], tokOK t = true ∧ t.span.stop ≤ 16) ∧
    (∀ t ∈ [⟨⟨0, 2⟩, .word⟩, ⟨⟨2, 3⟩, .space 1⟩, ⟨⟨3, 7⟩, .word⟩, ⟨⟨7, 8⟩, .space 1⟩, ⟨⟨8, 13⟩, .word⟩], tokOK t = true) ∧
    PRule.rule { env0 with wordFlags := fun w => if w == c!"cares" then 128 else 0 } ⟨patNobody, specNobody⟩ ((c!"no body cares." ++ ['\n', '\n']) ++ c!"no body cares")
      ([⟨⟨0, 2⟩, .word⟩, ⟨⟨2, 3⟩, .space 1⟩, ⟨⟨3, 7⟩, .word⟩, ⟨⟨7, 8⟩, .space 1⟩, ⟨⟨8, 13⟩, .word⟩, ⟨⟨13, 14⟩, .punct .Period⟩, ⟨⟨14, 16⟩, .paragraphBreak⟩] ++ shiftDoc 16 7 [⟨⟨0, 2⟩, .word⟩, ⟨⟨2, 3⟩, .space 1⟩, ⟨⟨3, 7⟩, .word⟩, ⟨⟨7, 8⟩, .space 1⟩, ⟨⟨8, 13⟩, .word⟩]) =
      .ok [⟨⟨0, 7⟩, [.replaceWith c!"nobody"], 30, 0⟩, ⟨⟨16, 23⟩, [.replaceWith c!"nobody"], 30, 0⟩] := by decide
theorem whereas_paragraphs_separately (env : Env) (cls : Cls) (P0 D : List Char) (k : Nat) (extP extD extPD : Ext)
    (h : ParagraphPair cls P0 D k extP extD extPD) :
    docRule cls extPD (PRule.rule env ⟨patWhereas, specWhereas⟩) ((P0 ++ List.replicate k '\n') ++ D) =
      joinE (P0 ++ List.replicate k '\n').length (docRule cls extP (PRule.rule env ⟨patWhereas, specWhereas⟩) (P0 ++ List.replicate k '\n'))
        (docRule cls extD (PRule.rule env ⟨patWhereas, specWhereas⟩) D) :=
  patternRule_paragraphs_separately env _ fineWhereas cls P0 D k extP extD extPD h
/-- `Whereas` fires in both paragraphs: tokens tiling `where as.¶¶` (the last one the `ParagraphBreak`) and `where as`, the second list moved by 11 — the premises of `Appends` hold -/
example : (∀ t ∈ [⟨⟨0, 5⟩, .word⟩, ⟨⟨5, 6⟩, .space 1⟩, ⟨⟨6, 8⟩, .word⟩, ⟨⟨8, 9⟩, .punct .Period⟩, ⟨⟨9, 11⟩, .paragraphBreak⟩], tokOK t = true ∧ t.span.stop ≤ 11) ∧
    (∀ t ∈ [⟨⟨0, 5⟩, .word⟩, ⟨⟨5, 6⟩, .space 1⟩, ⟨⟨6, 8⟩, .word⟩], tokOK t = true) ∧
    PRule.rule env0 ⟨patWhereas, specWhereas⟩ ((c!"where as." ++ ['\n', '\n']) ++ c!"where as")
      ([⟨⟨0, 5⟩, .word⟩, ⟨⟨5, 6⟩, .space 1⟩, ⟨⟨6, 8⟩, .word⟩, ⟨⟨8, 9⟩, .punct .Period⟩, ⟨⟨9, 11⟩, .paragraphBreak⟩] ++ shiftDoc 11 5 [⟨⟨0, 5⟩, .word⟩, ⟨⟨5, 6⟩, .space 1⟩, ⟨⟨6, 8⟩, .word⟩]) =
      .ok [⟨⟨0, 8⟩, [.replaceWith c!"whereas"], 31, 0⟩, ⟨⟨11, 19⟩, [.replaceWith c!"whereas"], 31, 0⟩] := by decide
theorem possessiveYour_paragraphs_separately (env : Env) (cls : Cls) (P0 D : List Char) (k : Nat) (extP extD extPD : Ext)
    (h : ParagraphPair cls P0 D k extP extD extPD) :
    docRule cls extPD (PRule.rule env ⟨patPossessiveYour, specPossessiveYour⟩) ((P0 ++ List.replicate k '\n') ++ D) =
      joinE (P0 ++ List.replicate k '\n').length (docRule cls extP (PRule.rule env ⟨patPossessiveYour, specPossessiveYour⟩) (P0 ++ List.replicate k '\n'))
        (docRule cls extD (PRule.rule env ⟨patPossessiveYour, specPossessiveYour⟩) D) :=
  patternRule_paragraphs_separately env _ finePossessiveYour cls P0 D k extP extD extPD h
/-- `PossessiveYour` fires in both paragraphs: tokens tiling `you cat.¶¶` (the last one the `ParagraphBreak`) and `you cat`, the second list moved by 10 — the premises of `Appends` hold -/
example : (∀ t ∈ [⟨⟨0, 3⟩, .word⟩, ⟨⟨3, 4⟩, .space 1⟩, ⟨⟨4, 7⟩, .word⟩, ⟨⟨7, 8⟩, .punct .Period⟩, ⟨⟨8, 10⟩, .paragraphBreak⟩], tokOK t = true ∧ t.span.stop ≤ 10) ∧
    (∀ t ∈ [⟨⟨0, 3⟩, .word⟩, ⟨⟨3, 4⟩, .space 1⟩, ⟨⟨4, 7⟩, .word⟩], tokOK t = true) ∧
    PRule.rule { env0 with wordFlags := fun w => if w == c!"cat" then 64 else 0 } ⟨patPossessiveYour, specPossessiveYour⟩ ((c!"you cat." ++ ['\n', '\n']) ++ c!"you cat")
      ([⟨⟨0, 3⟩, .word⟩, ⟨⟨3, 4⟩, .space 1⟩, ⟨⟨4, 7⟩, .word⟩, ⟨⟨7, 8⟩, .punct .Period⟩, ⟨⟨8, 10⟩, .paragraphBreak⟩] ++ shiftDoc 10 5 [⟨⟨0, 3⟩, .word⟩, ⟨⟨3, 4⟩, .space 1⟩, ⟨⟨4, 7⟩, .word⟩]) =
      .ok [⟨⟨0, 3⟩, [.replaceWith c!"your", .replaceWith ['y', 'o', 'u', '\'', 'r', 'e', ' ', 'a', 'n']], 32, 0⟩, ⟨⟨10, 13⟩, [.replaceWith c!"your", .replaceWith ['y', 'o', 'u', '\'', 'r', 'e', ' ', 'a', 'n']], 32, 0⟩] := by decide
theorem multipleSequentialPronouns_paragraphs_separately (env : Env) (cls : Cls) (P0 D : List Char) (k : Nat) (extP extD extPD : Ext)
    (h : ParagraphPair cls P0 D k extP extD extPD) :
    docRule cls extPD (PRule.rule env ⟨patMultipleSequentialPronouns, specMultipleSequentialPronouns⟩) ((P0 ++ List.replicate k '\n') ++ D) =
      joinE (P0 ++ List.replicate k '\n').length (docRule cls extP (PRule.rule env ⟨patMultipleSequentialPronouns, specMultipleSequentialPronouns⟩) (P0 ++ List.replicate k '\n'))
        (docRule cls extD (PRule.rule env ⟨patMultipleSequentialPronouns, specMultipleSequentialPronouns⟩) D) :=
  patternRule_paragraphs_separately env _ fineMultipleSequentialPronouns cls P0 D k extP extD extPD h
/-- `MultipleSequentialPronouns` fires in both paragraphs: tokens tiling `he she.¶¶` (the last one the `ParagraphBreak`) and `he she`, the second list moved by 9 — the premises of `Appends` hold -/
example : (∀ t ∈ [⟨⟨0, 2⟩, .word⟩, ⟨⟨2, 3⟩, .space 1⟩, ⟨⟨3, 6⟩, .word⟩, ⟨⟨6, 7⟩, .punct .Period⟩, ⟨⟨7, 9⟩, .paragraphBreak⟩], tokOK t = true ∧ t.span.stop ≤ 9) ∧
    (∀ t ∈ [⟨⟨0, 2⟩, .word⟩, ⟨⟨2, 3⟩, .space 1⟩, ⟨⟨3, 6⟩, .word⟩], tokOK t = true) ∧
    PRule.rule env0 ⟨patMultipleSequentialPronouns, specMultipleSequentialPronouns⟩ ((c!"he she." ++ ['\n', '\n']) ++ c!"he she")
      ([⟨⟨0, 2⟩, .word⟩, ⟨⟨2, 3⟩, .space 1⟩, ⟨⟨3, 6⟩, .word⟩, ⟨⟨6, 7⟩, .punct .Period⟩, ⟨⟨7, 9⟩, .paragraphBreak⟩] ++ shiftDoc 9 5 [⟨⟨0, 2⟩, .word⟩, ⟨⟨2, 3⟩, .space 1⟩, ⟨⟨3, 6⟩, .word⟩]) =
      .ok [⟨⟨0, 6⟩, [.replaceWith c!"he", .replaceWith c!"she"], 33, 0⟩, ⟨⟨9, 15⟩, [.replaceWith c!"he", .replaceWith c!"she"], 33, 0⟩] := by decide
theorem dotInitialisms_paragraphs_separately (env : Env) (cls : Cls) (P0 D : List Char) (k : Nat) (extP extD extPD : Ext)
    (h : ParagraphPair cls P0 D k extP extD extPD) :
    docRule cls extPD (PRule.rule env ⟨patDotInitialisms, specDotInitialisms⟩) ((P0 ++ List.replicate k '\n') ++ D) =
      joinE (P0 ++ List.replicate k '\n').length (docRule cls extP (PRule.rule env ⟨patDotInitialisms, specDotInitialisms⟩) (P0 ++ List.replicate k '\n'))
        (docRule cls extD (PRule.rule env ⟨patDotInitialisms, specDotInitialisms⟩) D) :=
  patternRule_paragraphs_separately env _ fineDotInitialisms cls P0 D k extP extD extPD h
/-- `DotInitialisms` fires in both paragraphs: tokens tiling `ie..¶¶` (the last one the `ParagraphBreak`) and `ie.`, the second list moved by 6 — the premises of `Appends` hold -/
example : (∀ t ∈ [⟨⟨0, 2⟩, .word⟩, ⟨⟨2, 4⟩, .punct .Ellipsis⟩, ⟨⟨4, 6⟩, .paragraphBreak⟩], tokOK t = true ∧ t.span.stop ≤ 6) ∧
    (∀ t ∈ [⟨⟨0, 2⟩, .word⟩, ⟨⟨2, 3⟩, .punct .Period⟩], tokOK t = true) ∧
    PRule.rule env0 ⟨patDotInitialisms, specDotInitialisms⟩ ((c!"ie.." ++ ['\n', '\n']) ++ c!"ie.")
      ([⟨⟨0, 2⟩, .word⟩, ⟨⟨2, 4⟩, .punct .Ellipsis⟩, ⟨⟨4, 6⟩, .paragraphBreak⟩] ++ shiftDoc 6 3 [⟨⟨0, 2⟩, .word⟩, ⟨⟨2, 3⟩, .punct .Period⟩]) =
      .ok [⟨⟨0, 4⟩, [.replaceWith c!"i.e."], 34, 0⟩, ⟨⟨6, 9⟩, [.replaceWith c!"i.e."], 34, 0⟩] := by decide
theorem boringWords_paragraphs_separately (env : Env) (cls : Cls) (P0 D : List Char) (k : Nat) (extP extD extPD : Ext)
    (h : ParagraphPair cls P0 D k extP extD extPD) :
    docRule cls extPD (PRule.rule env ⟨patBoringWords, specBoringWords⟩) ((P0 ++ List.replicate k '\n') ++ D) =
      joinE (P0 ++ List.replicate k '\n').length (docRule cls extP (PRule.rule env ⟨patBoringWords, specBoringWords⟩) (P0 ++ List.replicate k '\n'))
        (docRule cls extD (PRule.rule env ⟨patBoringWords, specBoringWords⟩) D) :=
  patternRule_paragraphs_separately env _ fineBoringWords cls P0 D k extP extD extPD h
/-- `BoringWords` fires in both paragraphs: tokens tiling `very.¶¶` (the last one the `ParagraphBreak`) and `very`, the second list moved by 7 — the premises of `Appends` hold -/
example : (∀ t ∈ [⟨⟨0, 4⟩, .word⟩, ⟨⟨4, 5⟩, .punct .Period⟩, ⟨⟨5, 7⟩, .paragraphBreak⟩], tokOK t = true ∧ t.span.stop ≤ 7) ∧
    (∀ t ∈ [⟨⟨0, 4⟩, .word⟩], tokOK t = true) ∧
    PRule.rule env0 ⟨patBoringWords, specBoringWords⟩ ((c!"very." ++ ['\n', '\n']) ++ c!"very")
      ([⟨⟨0, 4⟩, .word⟩, ⟨⟨4, 5⟩, .punct .Period⟩, ⟨⟨5, 7⟩, .paragraphBreak⟩] ++ shiftDoc 7 3 [⟨⟨0, 4⟩, .word⟩]) =
      .ok [⟨⟨0, 4⟩, [], 35, 0⟩, ⟨⟨7, 11⟩, [], 35, 0⟩] := by decide
theorem useGenitive_paragraphs_separately (env : Env) (cls : Cls) (P0 D : List Char) (k : Nat) (extP extD extPD : Ext)
    (h : ParagraphPair cls P0 D k extP extD extPD) :
    docRule cls extPD (PRule.rule env ⟨patUseGenitive, specUseGenitive⟩) ((P0 ++ List.replicate k '\n') ++ D) =
      joinE (P0 ++ List.replicate k '\n').length (docRule cls extP (PRule.rule env ⟨patUseGenitive, specUseGenitive⟩) (P0 ++ List.replicate k '\n'))
        (docRule cls extD (PRule.rule env ⟨patUseGenitive, specUseGenitive⟩) D) :=
  patternRule_paragraphs_separately env _ fineUseGenitive cls P0 D k extP extD extPD h
/-- `UseGenitive` fires in both paragraphs: tokens tiling `see there dog.¶¶` (the last one the `ParagraphBreak`) and `see there dog`, the second list moved by 16 — the premises of `Appends` hold -/
example : (∀ t ∈ [⟨⟨0, 3⟩, .word⟩, ⟨⟨3, 4⟩, .space 1⟩, ⟨⟨4, 9⟩, .word⟩, ⟨⟨9, 10⟩, .space 1⟩, ⟨⟨10, 13⟩, .word⟩, ⟨⟨13, 14⟩, .punct .Period⟩, ⟨⟨14, 16⟩, .paragraphBreak⟩], tokOK t = true ∧ t.span.stop ≤ 16) ∧
    (∀ t ∈ [⟨⟨0, 3⟩, .word⟩, ⟨⟨3, 4⟩, .space 1⟩, ⟨⟨4, 9⟩, .word⟩, ⟨⟨9, 10⟩, .space 1⟩, ⟨⟨10, 13⟩, .word⟩], tokOK t = true) ∧
    PRule.rule { env0 with wordFlags := fun w => if w == c!"dog" then 256 else 0 } ⟨patUseGenitive, specUseGenitive⟩ ((c!"see there dog." ++ ['\n', '\n']) ++ c!"see there dog")
      ([⟨⟨0, 3⟩, .word⟩, ⟨⟨3, 4⟩, .space 1⟩, ⟨⟨4, 9⟩, .word⟩, ⟨⟨9, 10⟩, .space 1⟩, ⟨⟨10, 13⟩, .word⟩, ⟨⟨13, 14⟩, .punct .Period⟩, ⟨⟨14, 16⟩, .paragraphBreak⟩] ++ shiftDoc 16 7 [⟨⟨0, 3⟩, .word⟩, ⟨⟨3, 4⟩, .space 1⟩, ⟨⟨4, 9⟩, .word⟩, ⟨⟨9, 10⟩, .space 1⟩, ⟨⟨10, 13⟩, .word⟩]) =
      .ok [⟨⟨4, 9⟩, [.replaceWith c!"their"], 36, 0⟩, ⟨⟨20, 25⟩, [.replaceWith c!"their"], 36, 0⟩] := by decide
theorem thatWhich_paragraphs_separately (env : Env) (cls : Cls) (P0 D : List Char) (k : Nat) (extP extD extPD : Ext)
    (h : ParagraphPair cls P0 D k extP extD extPD) :
    docRule cls extPD (PRule.rule env ⟨patThatWhich, specThatWhich⟩) ((P0 ++ List.replicate k '\n') ++ D) =
      joinE (P0 ++ List.replicate k '\n').length (docRule cls extP (PRule.rule env ⟨patThatWhich, specThatWhich⟩) (P0 ++ List.replicate k '\n'))
        (docRule cls extD (PRule.rule env ⟨patThatWhich, specThatWhich⟩) D) :=
  patternRule_paragraphs_separately env _ fineThatWhich cls P0 D k extP extD extPD h
/-- `ThatWhich` fires in both paragraphs: tokens tiling `that that.¶¶` (the last one the `ParagraphBreak`) and `that that`, the second list moved by 12 — the premises of `Appends` hold -/
example : (∀ t ∈ [⟨⟨0, 4⟩, .word⟩, ⟨⟨4, 5⟩, .space 1⟩, ⟨⟨5, 9⟩, .word⟩, ⟨⟨9, 10⟩, .punct .Period⟩, ⟨⟨10, 12⟩, .paragraphBreak⟩], tokOK t = true ∧ t.span.stop ≤ 12) ∧
    (∀ t ∈ [⟨⟨0, 4⟩, .word⟩, ⟨⟨4, 5⟩, .space 1⟩, ⟨⟨5, 9⟩, .word⟩], tokOK t = true) ∧
    PRule.rule env0 ⟨patThatWhich, specThatWhich⟩ ((c!"that that." ++ ['\n', '\n']) ++ c!"that that")
      ([⟨⟨0, 4⟩, .word⟩, ⟨⟨4, 5⟩, .space 1⟩, ⟨⟨5, 9⟩, .word⟩, ⟨⟨9, 10⟩, .punct .Period⟩, ⟨⟨10, 12⟩, .paragraphBreak⟩] ++ shiftDoc 12 5 [⟨⟨0, 4⟩, .word⟩, ⟨⟨4, 5⟩, .space 1⟩, ⟨⟨5, 9⟩, .word⟩]) =
      .ok [⟨⟨0, 9⟩, [.replaceWith c!"that which"], 37, 0⟩, ⟨⟨12, 21⟩, [.replaceWith c!"that which"], 37, 0⟩] := by decide
theorem somewhatSomething_paragraphs_separately (env : Env) (cls : Cls) (P0 D : List Char) (k : Nat) (extP extD extPD : Ext)
    (h : ParagraphPair cls P0 D k extP extD extPD) :
    docRule cls extPD (PRule.rule env ⟨patSomewhatSomething, specSomewhatSomething⟩) ((P0 ++ List.replicate k '\n') ++ D) =
      joinE (P0 ++ List.replicate k '\n').length (docRule cls extP (PRule.rule env ⟨patSomewhatSomething, specSomewhatSomething⟩) (P0 ++ List.replicate k '\n'))
        (docRule cls extD (PRule.rule env ⟨patSomewhatSomething, specSomewhatSomething⟩) D) :=
  patternRule_paragraphs_separately env _ fineSomewhatSomething cls P0 D k extP extD extPD h
/-- `SomewhatSomething` fires in both paragraphs: tokens tiling `somewhat of a x.¶¶` (the last one the `ParagraphBreak`) and `somewhat of a`, the second list moved by 18 — the premises of `Appends` hold -/
example : (∀ t ∈ [⟨⟨0, 8⟩, .word⟩, ⟨⟨8, 9⟩, .space 1⟩, ⟨⟨9, 11⟩, .word⟩, ⟨⟨11, 12⟩, .space 1⟩, ⟨⟨12, 13⟩, .word⟩, ⟨⟨13, 14⟩, .space 1⟩, ⟨⟨14, 16⟩, .word⟩, ⟨⟨16, 18⟩, .paragraphBreak⟩], tokOK t = true ∧ t.span.stop ≤ 18) ∧
    (∀ t ∈ [⟨⟨0, 8⟩, .word⟩, ⟨⟨8, 9⟩, .space 1⟩, ⟨⟨9, 11⟩, .word⟩, ⟨⟨11, 12⟩, .space 1⟩, ⟨⟨12, 13⟩, .word⟩], tokOK t = true) ∧
    PRule.rule env0 ⟨patSomewhatSomething, specSomewhatSomething⟩ ((c!"somewhat of a x." ++ ['\n', '\n']) ++ c!"somewhat of a")
      ([⟨⟨0, 8⟩, .word⟩, ⟨⟨8, 9⟩, .space 1⟩, ⟨⟨9, 11⟩, .word⟩, ⟨⟨11, 12⟩, .space 1⟩, ⟨⟨12, 13⟩, .word⟩, ⟨⟨13, 14⟩, .space 1⟩, ⟨⟨14, 16⟩, .word⟩, ⟨⟨16, 18⟩, .paragraphBreak⟩] ++ shiftDoc 18 8 [⟨⟨0, 8⟩, .word⟩, ⟨⟨8, 9⟩, .space 1⟩, ⟨⟨9, 11⟩, .word⟩, ⟨⟨11, 12⟩, .space 1⟩, ⟨⟨12, 13⟩, .word⟩]) =
      .ok [⟨⟨0, 8⟩, [.replaceWith c!"something"], 38, 0⟩, ⟨⟨18, 26⟩, [.replaceWith c!"something"], 38, 0⟩] := by decide
theorem despiteOf_paragraphs_separately (env : Env) (cls : Cls) (P0 D : List Char) (k : Nat) (extP extD extPD : Ext)
    (h : ParagraphPair cls P0 D k extP extD extPD) :
    docRule cls extPD (PRule.rule env ⟨patDespiteOf, specDespiteOf⟩) ((P0 ++ List.replicate k '\n') ++ D) =
      joinE (P0 ++ List.replicate k '\n').length (docRule cls extP (PRule.rule env ⟨patDespiteOf, specDespiteOf⟩) (P0 ++ List.replicate k '\n'))
        (docRule cls extD (PRule.rule env ⟨patDespiteOf, specDespiteOf⟩) D) :=
  patternRule_paragraphs_separately env _ fineDespiteOf cls P0 D k extP extD extPD h
/-- `DespiteOf` fires in both paragraphs: tokens tiling `despite of.¶¶` (the last one the `ParagraphBreak`) and `despite of`, the second list moved by 13 — the premises of `Appends` hold -/
example : (∀ t ∈ [⟨⟨0, 7⟩, .word⟩, ⟨⟨7, 8⟩, .space 1⟩, ⟨⟨8, 10⟩, .word⟩, ⟨⟨10, 11⟩, .punct .Period⟩, ⟨⟨11, 13⟩, .paragraphBreak⟩], tokOK t = true ∧ t.span.stop ≤ 13) ∧
    (∀ t ∈ [⟨⟨0, 7⟩, .word⟩, ⟨⟨7, 8⟩, .space 1⟩, ⟨⟨8, 10⟩, .word⟩], tokOK t = true) ∧
    PRule.rule env0 ⟨patDespiteOf, specDespiteOf⟩ ((c!"despite of." ++ ['\n', '\n']) ++ c!"despite of")
      ([⟨⟨0, 7⟩, .word⟩, ⟨⟨7, 8⟩, .space 1⟩, ⟨⟨8, 10⟩, .word⟩, ⟨⟨10, 11⟩, .punct .Period⟩, ⟨⟨11, 13⟩, .paragraphBreak⟩] ++ shiftDoc 13 5 [⟨⟨0, 7⟩, .word⟩, ⟨⟨7, 8⟩, .space 1⟩, ⟨⟨8, 10⟩, .word⟩]) =
      .ok [⟨⟨0, 10⟩, [.replaceWith c!"despite", .replaceWith c!"in spite of"], 39, 0⟩, ⟨⟨13, 23⟩, [.replaceWith c!"despite", .replaceWith c!"in spite of"], 39, 0⟩] := by decide
theorem chockFull_paragraphs_separately (env : Env) (cls : Cls) (P0 D : List Char) (k : Nat) (extP extD extPD : Ext)
    (h : ParagraphPair cls P0 D k extP extD extPD) :
    docRule cls extPD (PRule.rule env ⟨patChockFull, specChockFull⟩) ((P0 ++ List.replicate k '\n') ++ D) =
      joinE (P0 ++ List.replicate k '\n').length (docRule cls extP (PRule.rule env ⟨patChockFull, specChockFull⟩) (P0 ++ List.replicate k '\n'))
        (docRule cls extD (PRule.rule env ⟨patChockFull, specChockFull⟩) D) :=
  patternRule_paragraphs_separately env _ fineChockFull cls P0 D k extP extD extPD h
/-- `ChockFull` fires in both paragraphs: tokens tiling `chalk full.¶¶` (the last one the `ParagraphBreak`) and `chalk full`, the second list moved by 13 — the premises of `Appends` hold -/
example : (∀ t ∈ [⟨⟨0, 5⟩, .word⟩, ⟨⟨5, 6⟩, .space 1⟩, ⟨⟨6, 10⟩, .word⟩, ⟨⟨10, 11⟩, .punct .Period⟩, ⟨⟨11, 13⟩, .paragraphBreak⟩], tokOK t = true ∧ t.span.stop ≤ 13) ∧
    (∀ t ∈ [⟨⟨0, 5⟩, .word⟩, ⟨⟨5, 6⟩, .space 1⟩, ⟨⟨6, 10⟩, .word⟩], tokOK t = true) ∧
    PRule.rule env0 ⟨patChockFull, specChockFull⟩ ((c!"chalk full." ++ ['\n', '\n']) ++ c!"chalk full")
      ([⟨⟨0, 5⟩, .word⟩, ⟨⟨5, 6⟩, .space 1⟩, ⟨⟨6, 10⟩, .word⟩, ⟨⟨10, 11⟩, .punct .Period⟩, ⟨⟨11, 13⟩, .paragraphBreak⟩] ++ shiftDoc 13 5 [⟨⟨0, 5⟩, .word⟩, ⟨⟨5, 6⟩, .space 1⟩, ⟨⟨6, 10⟩, .word⟩]) =
      .ok [⟨⟨0, 10⟩, [.replaceWith c!"chock-full"], 40, 1⟩, ⟨⟨13, 23⟩, [.replaceWith c!"chock-full"], 40, 1⟩] := by decide
theorem confident_paragraphs_separately (env : Env) (cls : Cls) (P0 D : List Char) (k : Nat) (extP extD extPD : Ext)
    (h : ParagraphPair cls P0 D k extP extD extPD) :
    docRule cls extPD (PRule.rule env ⟨patConfident, specConfident⟩) ((P0 ++ List.replicate k '\n') ++ D) =
      joinE (P0 ++ List.replicate k '\n').length (docRule cls extP (PRule.rule env ⟨patConfident, specConfident⟩) (P0 ++ List.replicate k '\n'))
        (docRule cls extD (PRule.rule env ⟨patConfident, specConfident⟩) D) :=
  patternRule_paragraphs_separately env _ fineConfident cls P0 D k extP extD extPD h
/-- `Confident` fires in both paragraphs: tokens tiling `very confidant.¶¶` (the last one the `ParagraphBreak`) and `very confidant`, the second list moved by 17 — the premises of `Appends` hold -/
example : (∀ t ∈ [⟨⟨0, 4⟩, .word⟩, ⟨⟨4, 5⟩, .space 1⟩, ⟨⟨5, 14⟩, .word⟩, ⟨⟨14, 15⟩, .punct .Period⟩, ⟨⟨15, 17⟩, .paragraphBreak⟩], tokOK t = true ∧ t.span.stop ≤ 17) ∧
    (∀ t ∈ [⟨⟨0, 4⟩, .word⟩, ⟨⟨4, 5⟩, .space 1⟩, ⟨⟨5, 14⟩, .word⟩], tokOK t = true) ∧
    PRule.rule env0 ⟨patConfident, specConfident⟩ ((c!"very confidant." ++ ['\n', '\n']) ++ c!"very confidant")
      ([⟨⟨0, 4⟩, .word⟩, ⟨⟨4, 5⟩, .space 1⟩, ⟨⟨5, 14⟩, .word⟩, ⟨⟨14, 15⟩, .punct .Period⟩, ⟨⟨15, 17⟩, .paragraphBreak⟩] ++ shiftDoc 17 5 [⟨⟨0, 4⟩, .word⟩, ⟨⟨4, 5⟩, .space 1⟩, ⟨⟨5, 14⟩, .word⟩]) =
      .ok [⟨⟨5, 14⟩, [.replaceWith c!"confident"], 41, 0⟩, ⟨⟨22, 31⟩, [.replaceWith c!"confident"], 41, 0⟩] := by decide
theorem oxymorons_paragraphs_separately (env : Env) (cls : Cls) (P0 D : List Char) (k : Nat) (extP extD extPD : Ext)
    (h : ParagraphPair cls P0 D k extP extD extPD) :
    docRule cls extPD (PRule.rule env ⟨patOxymorons, specOxymorons⟩) ((P0 ++ List.replicate k '\n') ++ D) =
      joinE (P0 ++ List.replicate k '\n').length (docRule cls extP (PRule.rule env ⟨patOxymorons, specOxymorons⟩) (P0 ++ List.replicate k '\n'))
        (docRule cls extD (PRule.rule env ⟨patOxymorons, specOxymorons⟩) D) :=
  patternRule_paragraphs_separately env _ fineOxymorons cls P0 D k extP extD extPD h
/-- `Oxymorons` fires in both paragraphs: tokens tiling `amateur expert.¶¶` (the last one the `ParagraphBreak`) and `amateur expert`, the second list moved by 17 — the premises of `Appends` hold -/
example : (∀ t ∈ [⟨⟨0, 7⟩, .word⟩, ⟨⟨7, 8⟩, .space 1⟩, ⟨⟨8, 14⟩, .word⟩, ⟨⟨14, 15⟩, .punct .Period⟩, ⟨⟨15, 17⟩, .paragraphBreak⟩], tokOK t = true ∧ t.span.stop ≤ 17) ∧
    (∀ t ∈ [⟨⟨0, 7⟩, .word⟩, ⟨⟨7, 8⟩, .space 1⟩, ⟨⟨8, 14⟩, .word⟩], tokOK t = true) ∧
    PRule.rule env0 ⟨patOxymorons, specOxymorons⟩ ((c!"amateur expert." ++ ['\n', '\n']) ++ c!"amateur expert")
      ([⟨⟨0, 7⟩, .word⟩, ⟨⟨7, 8⟩, .space 1⟩, ⟨⟨8, 14⟩, .word⟩, ⟨⟨14, 15⟩, .punct .Period⟩, ⟨⟨15, 17⟩, .paragraphBreak⟩] ++ shiftDoc 17 5 [⟨⟨0, 7⟩, .word⟩, ⟨⟨7, 8⟩, .space 1⟩, ⟨⟨8, 14⟩, .word⟩]) =
      .ok [⟨⟨0, 14⟩, [], 42, 0⟩, ⟨⟨17, 31⟩, [], 42, 0⟩] := by decide
theorem hedging_paragraphs_separately (env : Env) (cls : Cls) (P0 D : List Char) (k : Nat) (extP extD extPD : Ext)
    (h : ParagraphPair cls P0 D k extP extD extPD) :
    docRule cls extPD (PRule.rule env ⟨patHedging, specHedging⟩) ((P0 ++ List.replicate k '\n') ++ D) =
      joinE (P0 ++ List.replicate k '\n').length (docRule cls extP (PRule.rule env ⟨patHedging, specHedging⟩) (P0 ++ List.replicate k '\n'))
        (docRule cls extD (PRule.rule env ⟨patHedging, specHedging⟩) D) :=
  patternRule_paragraphs_separately env _ fineHedging cls P0 D k extP extD extPD h
/-- `Hedging` fires in both paragraphs: tokens tiling `to a certain degree.¶¶` (the last one the `ParagraphBreak`) and `to a certain degree`, the second list moved by 22 — the premises of `Appends` hold -/
example : (∀ t ∈ [⟨⟨0, 2⟩, .word⟩, ⟨⟨2, 3⟩, .space 1⟩, ⟨⟨3, 4⟩, .word⟩, ⟨⟨4, 5⟩, .space 1⟩, ⟨⟨5, 12⟩, .word⟩, ⟨⟨12, 13⟩, .space 1⟩, ⟨⟨13, 19⟩, .word⟩, ⟨⟨19, 20⟩, .punct .Period⟩, ⟨⟨20, 22⟩, .paragraphBreak⟩], tokOK t = true ∧ t.span.stop ≤ 22) ∧
    (∀ t ∈ [⟨⟨0, 2⟩, .word⟩, ⟨⟨2, 3⟩, .space 1⟩, ⟨⟨3, 4⟩, .word⟩, ⟨⟨4, 5⟩, .space 1⟩, ⟨⟨5, 12⟩, .word⟩, ⟨⟨12, 13⟩, .space 1⟩, ⟨⟨13, 19⟩, .word⟩], tokOK t = true) ∧
    PRule.rule env0 ⟨patHedging, specHedging⟩ ((c!"to a certain degree." ++ ['\n', '\n']) ++ c!"to a certain degree")
      ([⟨⟨0, 2⟩, .word⟩, ⟨⟨2, 3⟩, .space 1⟩, ⟨⟨3, 4⟩, .word⟩, ⟨⟨4, 5⟩, .space 1⟩, ⟨⟨5, 12⟩, .word⟩, ⟨⟨12, 13⟩, .space 1⟩, ⟨⟨13, 19⟩, .word⟩, ⟨⟨19, 20⟩, .punct .Period⟩, ⟨⟨20, 22⟩, .paragraphBreak⟩] ++ shiftDoc 22 9 [⟨⟨0, 2⟩, .word⟩, ⟨⟨2, 3⟩, .space 1⟩, ⟨⟨3, 4⟩, .word⟩, ⟨⟨4, 5⟩, .space 1⟩, ⟨⟨5, 12⟩, .word⟩, ⟨⟨12, 13⟩, .space 1⟩, ⟨⟨13, 19⟩, .word⟩]) =
      .ok [⟨⟨0, 19⟩, [], 43, 0⟩, ⟨⟨22, 41⟩, [], 43, 0⟩] := by decide
theorem expandTimeShorthands_paragraphs_separately (env : Env) (cls : Cls) (P0 D : List Char) (k : Nat) (extP extD extPD : Ext)
    (h : ParagraphPair cls P0 D k extP extD extPD) :
    docRule cls extPD (PRule.rule env ⟨patExpandTimeShorthands, specExpandTimeShorthands⟩) ((P0 ++ List.replicate k '\n') ++ D) =
      joinE (P0 ++ List.replicate k '\n').length (docRule cls extP (PRule.rule env ⟨patExpandTimeShorthands, specExpandTimeShorthands⟩) (P0 ++ List.replicate k '\n'))
        (docRule cls extD (PRule.rule env ⟨patExpandTimeShorthands, specExpandTimeShorthands⟩) D) :=
  patternRule_paragraphs_separately env _ fineExpandTimeShorthands cls P0 D k extP extD extPD h
/-- `ExpandTimeShorthands` fires in both paragraphs: tokens tiling `5 hrs.¶¶` (the last one the `ParagraphBreak`) and `5 hrs`, the second list moved by 8 — the premises of `Appends` hold -/
example : (∀ t ∈ [⟨⟨0, 1⟩, .number 10 none⟩, ⟨⟨1, 2⟩, .space 1⟩, ⟨⟨2, 5⟩, .word⟩, ⟨⟨5, 6⟩, .punct .Period⟩, ⟨⟨6, 8⟩, .paragraphBreak⟩], tokOK t = true ∧ t.span.stop ≤ 8) ∧
    (∀ t ∈ [⟨⟨0, 1⟩, .number 10 none⟩, ⟨⟨1, 2⟩, .space 1⟩, ⟨⟨2, 5⟩, .word⟩], tokOK t = true) ∧
    PRule.rule env0 ⟨patExpandTimeShorthands, specExpandTimeShorthands⟩ ((c!"5 hrs." ++ ['\n', '\n']) ++ c!"5 hrs")
      ([⟨⟨0, 1⟩, .number 10 none⟩, ⟨⟨1, 2⟩, .space 1⟩, ⟨⟨2, 5⟩, .word⟩, ⟨⟨5, 6⟩, .punct .Period⟩, ⟨⟨6, 8⟩, .paragraphBreak⟩] ++ shiftDoc 8 5 [⟨⟨0, 1⟩, .number 10 none⟩, ⟨⟨1, 2⟩, .space 1⟩, ⟨⟨2, 5⟩, .word⟩]) =
      .ok [⟨⟨2, 5⟩, [.replaceWith c!"hours"], 44, 0⟩, ⟨⟨10, 13⟩, [.replaceWith c!"hours"], 44, 0⟩] := by decide
theorem forNoun_paragraphs_separately (env : Env) (cls : Cls) (P0 D : List Char) (k : Nat) (extP extD extPD : Ext)
    (h : ParagraphPair cls P0 D k extP extD extPD) :
    docRule cls extPD (PRule.rule env ⟨patForNoun, specForNoun⟩) ((P0 ++ List.replicate k '\n') ++ D) =
      joinE (P0 ++ List.replicate k '\n').length (docRule cls extP (PRule.rule env ⟨patForNoun, specForNoun⟩) (P0 ++ List.replicate k '\n'))
        (docRule cls extD (PRule.rule env ⟨patForNoun, specForNoun⟩) D) :=
  patternRule_paragraphs_separately env _ fineForNoun cls P0 D k extP extD extPD h
/-- `ForNoun` fires in both paragraphs: tokens tiling `fro sure.¶¶` (the last one the `ParagraphBreak`) and `fro sure`, the second list moved by 11 — the premises of `Appends` hold -/
example : (∀ t ∈ [⟨⟨0, 3⟩, .word⟩, ⟨⟨3, 4⟩, .space 1⟩, ⟨⟨4, 8⟩, .word⟩, ⟨⟨8, 9⟩, .punct .Period⟩, ⟨⟨9, 11⟩, .paragraphBreak⟩], tokOK t = true ∧ t.span.stop ≤ 11) ∧
    (∀ t ∈ [⟨⟨0, 3⟩, .word⟩, ⟨⟨3, 4⟩, .space 1⟩, ⟨⟨4, 8⟩, .word⟩], tokOK t = true) ∧
    PRule.rule env0 ⟨patForNoun, specForNoun⟩ ((c!"fro sure." ++ ['\n', '\n']) ++ c!"fro sure")
      ([⟨⟨0, 3⟩, .word⟩, ⟨⟨3, 4⟩, .space 1⟩, ⟨⟨4, 8⟩, .word⟩, ⟨⟨8, 9⟩, .punct .Period⟩, ⟨⟨9, 11⟩, .paragraphBreak⟩] ++ shiftDoc 11 5 [⟨⟨0, 3⟩, .word⟩, ⟨⟨3, 4⟩, .space 1⟩, ⟨⟨4, 8⟩, .word⟩]) =
      .ok [⟨⟨0, 3⟩, [.replaceWith c!"for"], 45, 0⟩, ⟨⟨11, 14⟩, [.replaceWith c!"for"], 45, 0⟩] := by decide
theorem theHowWhy_paragraphs_separately (env : Env) (cls : Cls) (P0 D : List Char) (k : Nat) (extP extD extPD : Ext)
    (h : ParagraphPair cls P0 D k extP extD extPD) :
    docRule cls extPD (PRule.rule env ⟨patTheHowWhy, specTheHowWhy⟩) ((P0 ++ List.replicate k '\n') ++ D) =
      joinE (P0 ++ List.replicate k '\n').length (docRule cls extP (PRule.rule env ⟨patTheHowWhy, specTheHowWhy⟩) (P0 ++ List.replicate k '\n'))
        (docRule cls extD (PRule.rule env ⟨patTheHowWhy, specTheHowWhy⟩) D) :=
  patternRule_paragraphs_separately env _ fineTheHowWhy cls P0 D k extP extD extPD h
/-- `TheHowWhy` fires in both paragraphs: tokens tiling `the why x.¶¶` (the last one the `ParagraphBreak`) and `the why x`, the second list moved by 12 — the premises of `Appends` hold -/
example : (∀ t ∈ [⟨⟨0, 3⟩, .word⟩, ⟨⟨3, 4⟩, .space 1⟩, ⟨⟨4, 7⟩, .word⟩, ⟨⟨7, 8⟩, .space 1⟩, ⟨⟨8, 10⟩, .word⟩, ⟨⟨10, 12⟩, .paragraphBreak⟩], tokOK t = true ∧ t.span.stop ≤ 12) ∧
    (∀ t ∈ [⟨⟨0, 3⟩, .word⟩, ⟨⟨3, 4⟩, .space 1⟩, ⟨⟨4, 7⟩, .word⟩, ⟨⟨7, 8⟩, .space 1⟩, ⟨⟨8, 9⟩, .word⟩], tokOK t = true) ∧
    PRule.rule env0 ⟨patTheHowWhy, specTheHowWhy⟩ ((c!"the why x." ++ ['\n', '\n']) ++ c!"the why x")
      ([⟨⟨0, 3⟩, .word⟩, ⟨⟨3, 4⟩, .space 1⟩, ⟨⟨4, 7⟩, .word⟩, ⟨⟨7, 8⟩, .space 1⟩, ⟨⟨8, 10⟩, .word⟩, ⟨⟨10, 12⟩, .paragraphBreak⟩] ++ shiftDoc 12 6 [⟨⟨0, 3⟩, .word⟩, ⟨⟨3, 4⟩, .space 1⟩, ⟨⟨4, 7⟩, .word⟩, ⟨⟨7, 8⟩, .space 1⟩, ⟨⟨8, 9⟩, .word⟩]) =
      .ok [⟨⟨0, 4⟩, [.remove], 46, 0⟩, ⟨⟨12, 16⟩, [.remove], 46, 0⟩] := by decide
theorem widelyAccepted_paragraphs_separately (env : Env) (cls : Cls) (P0 D : List Char) (k : Nat) (extP extD extPD : Ext)
    (h : ParagraphPair cls P0 D k extP extD extPD) :
    docRule cls extPD (PRule.rule env ⟨patWidelyAccepted, specWidelyAccepted⟩) ((P0 ++ List.replicate k '\n') ++ D) =
      joinE (P0 ++ List.replicate k '\n').length (docRule cls extP (PRule.rule env ⟨patWidelyAccepted, specWidelyAccepted⟩) (P0 ++ List.replicate k '\n'))
        (docRule cls extD (PRule.rule env ⟨patWidelyAccepted, specWidelyAccepted⟩) D) :=
  patternRule_paragraphs_separately env _ fineWidelyAccepted cls P0 D k extP extD extPD h
/-- `WidelyAccepted` fires in both paragraphs: tokens tiling `wide used.¶¶` (the last one the `ParagraphBreak`) and `wide used`, the second list moved by 12 — the premises of `Appends` hold -/
example : (∀ t ∈ [⟨⟨0, 4⟩, .word⟩, ⟨⟨4, 5⟩, .space 1⟩, ⟨⟨5, 9⟩, .word⟩, ⟨⟨9, 10⟩, .punct .Period⟩, ⟨⟨10, 12⟩, .paragraphBreak⟩], tokOK t = true ∧ t.span.stop ≤ 12) ∧
    (∀ t ∈ [⟨⟨0, 4⟩, .word⟩, ⟨⟨4, 5⟩, .space 1⟩, ⟨⟨5, 9⟩, .word⟩], tokOK t = true) ∧
    PRule.rule env0 ⟨patWidelyAccepted, specWidelyAccepted⟩ ((c!"wide used." ++ ['\n', '\n']) ++ c!"wide used")
      ([⟨⟨0, 4⟩, .word⟩, ⟨⟨4, 5⟩, .space 1⟩, ⟨⟨5, 9⟩, .word⟩, ⟨⟨9, 10⟩, .punct .Period⟩, ⟨⟨10, 12⟩, .paragraphBreak⟩] ++ shiftDoc 12 5 [⟨⟨0, 4⟩, .word⟩, ⟨⟨4, 5⟩, .space 1⟩, ⟨⟨5, 9⟩, .word⟩]) =
      .ok [⟨⟨0, 4⟩, [.replaceWith c!"widely"], 47, 0⟩, ⟨⟨12, 16⟩, [.replaceWith c!"widely"], 47, 0⟩] := by decide

/-! ## non-vacuity (kernel-evaluated) -/

open Harper.C02 (asciiCls)

/-- Dashes on `a--b.¶¶` + `c---d`: an en dash in the first paragraph, an em dash in the second, moved by 7 -/
example : docRule asciiCls noExt (PRule.rule env0 ⟨patDashes, specDashes⟩)
      (['a', '-', '-', 'b', '.', '\n', '\n'] ++ ['c', '-', '-', '-', 'd']) =
    .ok [⟨⟨1, 3⟩, [.replaceWith ['–']], 21, 2⟩, ⟨⟨8, 11⟩, [.replaceWith ['—']], 21, 3⟩] := by decide

/-- … which is what the two paragraphs give separately -/
example : docRule asciiCls noExt (PRule.rule env0 ⟨patDashes, specDashes⟩) ['a', '-', '-', 'b', '.', '\n', '\n'] =
      .ok [⟨⟨1, 3⟩, [.replaceWith ['–']], 21, 2⟩] ∧
    docRule asciiCls noExt (PRule.rule env0 ⟨patDashes, specDashes⟩) ['c', '-', '-', '-', 'd'] =
      .ok [⟨⟨1, 4⟩, [.replaceWith ['—']], 21, 3⟩] := by decide

/-- `dashes_paragraphs_separately` applied to that pair: the theorem's equation, with both sides as computed above -/
example : docRule asciiCls noExt (PRule.rule env0 ⟨patDashes, specDashes⟩) ((c!"a--b." ++ List.replicate 2 '\n') ++ c!"c---d") =
    joinE 7 (.ok [⟨⟨1, 3⟩, [.replaceWith ['–']], 21, 2⟩]) (.ok [⟨⟨1, 4⟩, [.replaceWith ['—']], 21, 3⟩]) := by
  have h := dashes_paragraphs_separately env0 asciiCls c!"a--b." c!"c---d" 2 noExt noExt noExt
    (paragraphPair_ascii_noExt _ _ (by decide) (by decide) (by decide))
  have hP : docRule asciiCls noExt (PRule.rule env0 ⟨patDashes, specDashes⟩) (c!"a--b." ++ List.replicate 2 '\n') =
      .ok [⟨⟨1, 3⟩, [.replaceWith ['–']], 21, 2⟩] := by decide
  have hD : docRule asciiCls noExt (PRule.rule env0 ⟨patDashes, specDashes⟩) c!"c---d" = .ok [⟨⟨1, 4⟩, [.replaceWith ['—']], 21, 3⟩] := by decide
  rw [h, hP, hD]; rfl

/-- Whereas with a two-token blank (space + newline) in the second paragraph: the lint covers the whole match -/
example : docRule asciiCls noExt (PRule.rule env0 ⟨patWhereas, specWhereas⟩)
      (['o', 'k', '.', '\n', '\n'] ++ ['W', 'h', 'e', 'r', 'e', ' ', '\n', 'a', 's']) =
    .ok [⟨⟨5, 14⟩, [.replaceWith ['W', 'h', 'e', 'r', 'e', 'a', 's']], 31, 0⟩] := by decide

end Harper.C12
