import Harper.Lemmas.PatternRules
import Harper.Props.C12c
import Harper.Props.C01Rules
/-!
# C12 (shipped `PatternLinter` rules) — each of the 28 rules is paragraph-local

Generic layer, for any rule = (pattern tree, `Spec`):

* `matchToLint_translation` / `matchToLint_left`: a `match_to_lint` given as a `Spec` (its span a selection of the matched
  tokens, its suggestions literals and texts under such selections, its own computations `CustomGood`) moves with
  its match and does not read text behind it;
* `patternRule_xlocal`: `run_on_chunk` of a rule whose tree is `Loc` (no paired-quote key) is chunk-local;
* `patternRule_paragraphs_separately`: hence, end to end from the characters of `P` and `D` (lexer, condensing passes,
  `iter_chunks`, `run_on_chunk`, the tree, `match_to_lint`), `rule(P ++ D) = rule(P) ++ shift(rule(D))` — and it panics
  exactly when one side does.

Per rule: `shippedRule_paragraphs_separately` by name, and one corollary per rule.
-/
namespace Harper.C12
open Harper Harper.Chunks Harper.Rules Harper.Leaves Harper.PatternRules

/-- **`match_to_lint` moves with its match** -/
theorem matchToLint_translation (env : Env) (s : Spec) (hg : s.Good) (P D : List Char) (matched : List Tok) (j : Nat) :
    s.run env (P ++ D) (shiftDoc P.length j matched) = (s.run env D matched).map (shiftRLs P.length) :=
  Spec.run_shift env s hg P D matched j

/-- … and does not look at text after its tokens -/
theorem matchToLint_left (env : Env) (s : Spec) (hg : s.Good) (P D : List Char) (matched : List Tok)
    (h : ∀ t ∈ matched, tokOK t = true ∧ t.span.stop ≤ P.length) : s.run env (P ++ D) matched = s.run env P matched :=
  Spec.run_left env s hg P D matched h

/-- **chunk-locality of every fine rule**: nothing on the empty chunk; text after the chunk does not matter; moving the
chunk with its text moves the lints — panics included -/
theorem patternRule_xlocal (env : Env) (r : PRule) (hr : Fine r) : XLocalE (r.piece env) := PRule.xlocalE env r hr

theorem patternRule_appends (env : Env) (r : PRule) (hr : Fine r) : Appends (r.rule env) :=
  appends_chunks _ (patternRule_xlocal env r hr)

/-- **C12 for every fine `PatternLinter`, end to end** -/
theorem patternRule_paragraphs_separately (env : Env) (r : PRule) (hr : Fine r)
    (cls : Cls) (P0 D : List Char) (k : Nat) (extP extD extPD : Ext) (h : ParagraphPair cls P0 D k extP extD extPD) :
    docRule cls extPD (r.rule env) ((P0 ++ List.replicate k '\n') ++ D) =
      joinE (P0 ++ List.replicate k '\n').length (docRule cls extP (r.rule env) (P0 ++ List.replicate k '\n'))
        (docRule cls extD (r.rule env) D) :=
  separately_of_appends _ (patternRule_appends env r hr) cls P0 D k extP extD extPD h

/-- **every shipped `PatternLinter` rule, by name** -/
theorem shippedRule_paragraphs_separately (env : Env) (name : String) (r : PRule) (hn : patternRuleByName name = some r)
    (cls : Cls) (P0 D : List Char) (k : Nat) (extP extD extPD : Ext) (h : ParagraphPair cls P0 D k extP extD extPD) :
    docRule cls extPD (r.rule env) ((P0 ++ List.replicate k '\n') ++ D) =
      joinE (P0 ++ List.replicate k '\n').length (docRule cls extP (r.rule env) (P0 ++ List.replicate k '\n'))
        (docRule cls extD (r.rule env) D) :=
  patternRule_paragraphs_separately env r (fine_of_name name r hn) cls P0 D k extP extD extPD h

/-! ## one corollary per rule -/

theorem backInTheDay_paragraphs_separately (env : Env) (cls : Cls) (P0 D : List Char) (k : Nat) (extP extD extPD : Ext)
    (h : ParagraphPair cls P0 D k extP extD extPD) :
    docRule cls extPD (PRule.rule env ⟨patBackInTheDay, specBackInTheDay⟩) ((P0 ++ List.replicate k '\n') ++ D) =
      joinE (P0 ++ List.replicate k '\n').length (docRule cls extP (PRule.rule env ⟨patBackInTheDay, specBackInTheDay⟩) (P0 ++ List.replicate k '\n'))
        (docRule cls extD (PRule.rule env ⟨patBackInTheDay, specBackInTheDay⟩) D) :=
  patternRule_paragraphs_separately env _ fineBackInTheDay cls P0 D k extP extD extPD h
theorem dashes_paragraphs_separately (env : Env) (cls : Cls) (P0 D : List Char) (k : Nat) (extP extD extPD : Ext)
    (h : ParagraphPair cls P0 D k extP extD extPD) :
    docRule cls extPD (PRule.rule env ⟨patDashes, specDashes⟩) ((P0 ++ List.replicate k '\n') ++ D) =
      joinE (P0 ++ List.replicate k '\n').length (docRule cls extP (PRule.rule env ⟨patDashes, specDashes⟩) (P0 ++ List.replicate k '\n'))
        (docRule cls extD (PRule.rule env ⟨patDashes, specDashes⟩) D) :=
  patternRule_paragraphs_separately env _ fineDashes cls P0 D k extP extD extPD h
theorem outOfDate_paragraphs_separately (env : Env) (cls : Cls) (P0 D : List Char) (k : Nat) (extP extD extPD : Ext)
    (h : ParagraphPair cls P0 D k extP extD extPD) :
    docRule cls extPD (PRule.rule env ⟨patOutOfDate, specOutOfDate⟩) ((P0 ++ List.replicate k '\n') ++ D) =
      joinE (P0 ++ List.replicate k '\n').length (docRule cls extP (PRule.rule env ⟨patOutOfDate, specOutOfDate⟩) (P0 ++ List.replicate k '\n'))
        (docRule cls extD (PRule.rule env ⟨patOutOfDate, specOutOfDate⟩) D) :=
  patternRule_paragraphs_separately env _ fineOutOfDate cls P0 D k extP extD extPD h
theorem thenThan_paragraphs_separately (env : Env) (cls : Cls) (P0 D : List Char) (k : Nat) (extP extD extPD : Ext)
    (h : ParagraphPair cls P0 D k extP extD extPD) :
    docRule cls extPD (PRule.rule env ⟨patThenThan, specThenThan⟩) ((P0 ++ List.replicate k '\n') ++ D) =
      joinE (P0 ++ List.replicate k '\n').length (docRule cls extP (PRule.rule env ⟨patThenThan, specThenThan⟩) (P0 ++ List.replicate k '\n'))
        (docRule cls extD (PRule.rule env ⟨patThenThan, specThenThan⟩) D) :=
  patternRule_paragraphs_separately env _ fineThenThan cls P0 D k extP extD extPD h
theorem piqueInterest_paragraphs_separately (env : Env) (cls : Cls) (P0 D : List Char) (k : Nat) (extP extD extPD : Ext)
    (h : ParagraphPair cls P0 D k extP extD extPD) :
    docRule cls extPD (PRule.rule env ⟨patPiqueInterest, specPiqueInterest⟩) ((P0 ++ List.replicate k '\n') ++ D) =
      joinE (P0 ++ List.replicate k '\n').length (docRule cls extP (PRule.rule env ⟨patPiqueInterest, specPiqueInterest⟩) (P0 ++ List.replicate k '\n'))
        (docRule cls extD (PRule.rule env ⟨patPiqueInterest, specPiqueInterest⟩) D) :=
  patternRule_paragraphs_separately env _ finePiqueInterest cls P0 D k extP extD extPD h
theorem wasAloud_paragraphs_separately (env : Env) (cls : Cls) (P0 D : List Char) (k : Nat) (extP extD extPD : Ext)
    (h : ParagraphPair cls P0 D k extP extD extPD) :
    docRule cls extPD (PRule.rule env ⟨patWasAloud, specWasAloud⟩) ((P0 ++ List.replicate k '\n') ++ D) =
      joinE (P0 ++ List.replicate k '\n').length (docRule cls extP (PRule.rule env ⟨patWasAloud, specWasAloud⟩) (P0 ++ List.replicate k '\n'))
        (docRule cls extD (PRule.rule env ⟨patWasAloud, specWasAloud⟩) D) :=
  patternRule_paragraphs_separately env _ fineWasAloud cls P0 D k extP extD extPD h
theorem hyphenateNumberDay_paragraphs_separately (env : Env) (cls : Cls) (P0 D : List Char) (k : Nat) (extP extD extPD : Ext)
    (h : ParagraphPair cls P0 D k extP extD extPD) :
    docRule cls extPD (PRule.rule env ⟨patHyphenateNumberDay, specHyphenateNumberDay⟩) ((P0 ++ List.replicate k '\n') ++ D) =
      joinE (P0 ++ List.replicate k '\n').length (docRule cls extP (PRule.rule env ⟨patHyphenateNumberDay, specHyphenateNumberDay⟩) (P0 ++ List.replicate k '\n'))
        (docRule cls extD (PRule.rule env ⟨patHyphenateNumberDay, specHyphenateNumberDay⟩) D) :=
  patternRule_paragraphs_separately env _ fineHyphenateNumberDay cls P0 D k extP extD extPD h
theorem leftRightHand_paragraphs_separately (env : Env) (cls : Cls) (P0 D : List Char) (k : Nat) (extP extD extPD : Ext)
    (h : ParagraphPair cls P0 D k extP extD extPD) :
    docRule cls extPD (PRule.rule env ⟨patLeftRightHand, specLeftRightHand⟩) ((P0 ++ List.replicate k '\n') ++ D) =
      joinE (P0 ++ List.replicate k '\n').length (docRule cls extP (PRule.rule env ⟨patLeftRightHand, specLeftRightHand⟩) (P0 ++ List.replicate k '\n'))
        (docRule cls extD (PRule.rule env ⟨patLeftRightHand, specLeftRightHand⟩) D) :=
  patternRule_paragraphs_separately env _ fineLeftRightHand cls P0 D k extP extD extPD h
theorem hereby_paragraphs_separately (env : Env) (cls : Cls) (P0 D : List Char) (k : Nat) (extP extD extPD : Ext)
    (h : ParagraphPair cls P0 D k extP extD extPD) :
    docRule cls extPD (PRule.rule env ⟨patHereby, specHereby⟩) ((P0 ++ List.replicate k '\n') ++ D) =
      joinE (P0 ++ List.replicate k '\n').length (docRule cls extP (PRule.rule env ⟨patHereby, specHereby⟩) (P0 ++ List.replicate k '\n'))
        (docRule cls extD (PRule.rule env ⟨patHereby, specHereby⟩) D) :=
  patternRule_paragraphs_separately env _ fineHereby cls P0 D k extP extD extPD h
theorem likewise_paragraphs_separately (env : Env) (cls : Cls) (P0 D : List Char) (k : Nat) (extP extD extPD : Ext)
    (h : ParagraphPair cls P0 D k extP extD extPD) :
    docRule cls extPD (PRule.rule env ⟨patLikewise, specLikewise⟩) ((P0 ++ List.replicate k '\n') ++ D) =
      joinE (P0 ++ List.replicate k '\n').length (docRule cls extP (PRule.rule env ⟨patLikewise, specLikewise⟩) (P0 ++ List.replicate k '\n'))
        (docRule cls extD (PRule.rule env ⟨patLikewise, specLikewise⟩) D) :=
  patternRule_paragraphs_separately env _ fineLikewise cls P0 D k extP extD extPD h
theorem nobody_paragraphs_separately (env : Env) (cls : Cls) (P0 D : List Char) (k : Nat) (extP extD extPD : Ext)
    (h : ParagraphPair cls P0 D k extP extD extPD) :
    docRule cls extPD (PRule.rule env ⟨patNobody, specNobody⟩) ((P0 ++ List.replicate k '\n') ++ D) =
      joinE (P0 ++ List.replicate k '\n').length (docRule cls extP (PRule.rule env ⟨patNobody, specNobody⟩) (P0 ++ List.replicate k '\n'))
        (docRule cls extD (PRule.rule env ⟨patNobody, specNobody⟩) D) :=
  patternRule_paragraphs_separately env _ fineNobody cls P0 D k extP extD extPD h
theorem whereas_paragraphs_separately (env : Env) (cls : Cls) (P0 D : List Char) (k : Nat) (extP extD extPD : Ext)
    (h : ParagraphPair cls P0 D k extP extD extPD) :
    docRule cls extPD (PRule.rule env ⟨patWhereas, specWhereas⟩) ((P0 ++ List.replicate k '\n') ++ D) =
      joinE (P0 ++ List.replicate k '\n').length (docRule cls extP (PRule.rule env ⟨patWhereas, specWhereas⟩) (P0 ++ List.replicate k '\n'))
        (docRule cls extD (PRule.rule env ⟨patWhereas, specWhereas⟩) D) :=
  patternRule_paragraphs_separately env _ fineWhereas cls P0 D k extP extD extPD h
theorem possessiveYour_paragraphs_separately (env : Env) (cls : Cls) (P0 D : List Char) (k : Nat) (extP extD extPD : Ext)
    (h : ParagraphPair cls P0 D k extP extD extPD) :
    docRule cls extPD (PRule.rule env ⟨patPossessiveYour, specPossessiveYour⟩) ((P0 ++ List.replicate k '\n') ++ D) =
      joinE (P0 ++ List.replicate k '\n').length (docRule cls extP (PRule.rule env ⟨patPossessiveYour, specPossessiveYour⟩) (P0 ++ List.replicate k '\n'))
        (docRule cls extD (PRule.rule env ⟨patPossessiveYour, specPossessiveYour⟩) D) :=
  patternRule_paragraphs_separately env _ finePossessiveYour cls P0 D k extP extD extPD h
theorem multipleSequentialPronouns_paragraphs_separately (env : Env) (cls : Cls) (P0 D : List Char) (k : Nat) (extP extD extPD : Ext)
    (h : ParagraphPair cls P0 D k extP extD extPD) :
    docRule cls extPD (PRule.rule env ⟨patMultipleSequentialPronouns, specMultipleSequentialPronouns⟩) ((P0 ++ List.replicate k '\n') ++ D) =
      joinE (P0 ++ List.replicate k '\n').length (docRule cls extP (PRule.rule env ⟨patMultipleSequentialPronouns, specMultipleSequentialPronouns⟩) (P0 ++ List.replicate k '\n'))
        (docRule cls extD (PRule.rule env ⟨patMultipleSequentialPronouns, specMultipleSequentialPronouns⟩) D) :=
  patternRule_paragraphs_separately env _ fineMultipleSequentialPronouns cls P0 D k extP extD extPD h
theorem dotInitialisms_paragraphs_separately (env : Env) (cls : Cls) (P0 D : List Char) (k : Nat) (extP extD extPD : Ext)
    (h : ParagraphPair cls P0 D k extP extD extPD) :
    docRule cls extPD (PRule.rule env ⟨patDotInitialisms, specDotInitialisms⟩) ((P0 ++ List.replicate k '\n') ++ D) =
      joinE (P0 ++ List.replicate k '\n').length (docRule cls extP (PRule.rule env ⟨patDotInitialisms, specDotInitialisms⟩) (P0 ++ List.replicate k '\n'))
        (docRule cls extD (PRule.rule env ⟨patDotInitialisms, specDotInitialisms⟩) D) :=
  patternRule_paragraphs_separately env _ fineDotInitialisms cls P0 D k extP extD extPD h
theorem boringWords_paragraphs_separately (env : Env) (cls : Cls) (P0 D : List Char) (k : Nat) (extP extD extPD : Ext)
    (h : ParagraphPair cls P0 D k extP extD extPD) :
    docRule cls extPD (PRule.rule env ⟨patBoringWords, specBoringWords⟩) ((P0 ++ List.replicate k '\n') ++ D) =
      joinE (P0 ++ List.replicate k '\n').length (docRule cls extP (PRule.rule env ⟨patBoringWords, specBoringWords⟩) (P0 ++ List.replicate k '\n'))
        (docRule cls extD (PRule.rule env ⟨patBoringWords, specBoringWords⟩) D) :=
  patternRule_paragraphs_separately env _ fineBoringWords cls P0 D k extP extD extPD h
theorem useGenitive_paragraphs_separately (env : Env) (cls : Cls) (P0 D : List Char) (k : Nat) (extP extD extPD : Ext)
    (h : ParagraphPair cls P0 D k extP extD extPD) :
    docRule cls extPD (PRule.rule env ⟨patUseGenitive, specUseGenitive⟩) ((P0 ++ List.replicate k '\n') ++ D) =
      joinE (P0 ++ List.replicate k '\n').length (docRule cls extP (PRule.rule env ⟨patUseGenitive, specUseGenitive⟩) (P0 ++ List.replicate k '\n'))
        (docRule cls extD (PRule.rule env ⟨patUseGenitive, specUseGenitive⟩) D) :=
  patternRule_paragraphs_separately env _ fineUseGenitive cls P0 D k extP extD extPD h
theorem thatWhich_paragraphs_separately (env : Env) (cls : Cls) (P0 D : List Char) (k : Nat) (extP extD extPD : Ext)
    (h : ParagraphPair cls P0 D k extP extD extPD) :
    docRule cls extPD (PRule.rule env ⟨patThatWhich, specThatWhich⟩) ((P0 ++ List.replicate k '\n') ++ D) =
      joinE (P0 ++ List.replicate k '\n').length (docRule cls extP (PRule.rule env ⟨patThatWhich, specThatWhich⟩) (P0 ++ List.replicate k '\n'))
        (docRule cls extD (PRule.rule env ⟨patThatWhich, specThatWhich⟩) D) :=
  patternRule_paragraphs_separately env _ fineThatWhich cls P0 D k extP extD extPD h
theorem somewhatSomething_paragraphs_separately (env : Env) (cls : Cls) (P0 D : List Char) (k : Nat) (extP extD extPD : Ext)
    (h : ParagraphPair cls P0 D k extP extD extPD) :
    docRule cls extPD (PRule.rule env ⟨patSomewhatSomething, specSomewhatSomething⟩) ((P0 ++ List.replicate k '\n') ++ D) =
      joinE (P0 ++ List.replicate k '\n').length (docRule cls extP (PRule.rule env ⟨patSomewhatSomething, specSomewhatSomething⟩) (P0 ++ List.replicate k '\n'))
        (docRule cls extD (PRule.rule env ⟨patSomewhatSomething, specSomewhatSomething⟩) D) :=
  patternRule_paragraphs_separately env _ fineSomewhatSomething cls P0 D k extP extD extPD h
theorem despiteOf_paragraphs_separately (env : Env) (cls : Cls) (P0 D : List Char) (k : Nat) (extP extD extPD : Ext)
    (h : ParagraphPair cls P0 D k extP extD extPD) :
    docRule cls extPD (PRule.rule env ⟨patDespiteOf, specDespiteOf⟩) ((P0 ++ List.replicate k '\n') ++ D) =
      joinE (P0 ++ List.replicate k '\n').length (docRule cls extP (PRule.rule env ⟨patDespiteOf, specDespiteOf⟩) (P0 ++ List.replicate k '\n'))
        (docRule cls extD (PRule.rule env ⟨patDespiteOf, specDespiteOf⟩) D) :=
  patternRule_paragraphs_separately env _ fineDespiteOf cls P0 D k extP extD extPD h
theorem chockFull_paragraphs_separately (env : Env) (cls : Cls) (P0 D : List Char) (k : Nat) (extP extD extPD : Ext)
    (h : ParagraphPair cls P0 D k extP extD extPD) :
    docRule cls extPD (PRule.rule env ⟨patChockFull, specChockFull⟩) ((P0 ++ List.replicate k '\n') ++ D) =
      joinE (P0 ++ List.replicate k '\n').length (docRule cls extP (PRule.rule env ⟨patChockFull, specChockFull⟩) (P0 ++ List.replicate k '\n'))
        (docRule cls extD (PRule.rule env ⟨patChockFull, specChockFull⟩) D) :=
  patternRule_paragraphs_separately env _ fineChockFull cls P0 D k extP extD extPD h
theorem confident_paragraphs_separately (env : Env) (cls : Cls) (P0 D : List Char) (k : Nat) (extP extD extPD : Ext)
    (h : ParagraphPair cls P0 D k extP extD extPD) :
    docRule cls extPD (PRule.rule env ⟨patConfident, specConfident⟩) ((P0 ++ List.replicate k '\n') ++ D) =
      joinE (P0 ++ List.replicate k '\n').length (docRule cls extP (PRule.rule env ⟨patConfident, specConfident⟩) (P0 ++ List.replicate k '\n'))
        (docRule cls extD (PRule.rule env ⟨patConfident, specConfident⟩) D) :=
  patternRule_paragraphs_separately env _ fineConfident cls P0 D k extP extD extPD h
theorem oxymorons_paragraphs_separately (env : Env) (cls : Cls) (P0 D : List Char) (k : Nat) (extP extD extPD : Ext)
    (h : ParagraphPair cls P0 D k extP extD extPD) :
    docRule cls extPD (PRule.rule env ⟨patOxymorons, specOxymorons⟩) ((P0 ++ List.replicate k '\n') ++ D) =
      joinE (P0 ++ List.replicate k '\n').length (docRule cls extP (PRule.rule env ⟨patOxymorons, specOxymorons⟩) (P0 ++ List.replicate k '\n'))
        (docRule cls extD (PRule.rule env ⟨patOxymorons, specOxymorons⟩) D) :=
  patternRule_paragraphs_separately env _ fineOxymorons cls P0 D k extP extD extPD h
theorem hedging_paragraphs_separately (env : Env) (cls : Cls) (P0 D : List Char) (k : Nat) (extP extD extPD : Ext)
    (h : ParagraphPair cls P0 D k extP extD extPD) :
    docRule cls extPD (PRule.rule env ⟨patHedging, specHedging⟩) ((P0 ++ List.replicate k '\n') ++ D) =
      joinE (P0 ++ List.replicate k '\n').length (docRule cls extP (PRule.rule env ⟨patHedging, specHedging⟩) (P0 ++ List.replicate k '\n'))
        (docRule cls extD (PRule.rule env ⟨patHedging, specHedging⟩) D) :=
  patternRule_paragraphs_separately env _ fineHedging cls P0 D k extP extD extPD h
theorem expandTimeShorthands_paragraphs_separately (env : Env) (cls : Cls) (P0 D : List Char) (k : Nat) (extP extD extPD : Ext)
    (h : ParagraphPair cls P0 D k extP extD extPD) :
    docRule cls extPD (PRule.rule env ⟨patExpandTimeShorthands, specExpandTimeShorthands⟩) ((P0 ++ List.replicate k '\n') ++ D) =
      joinE (P0 ++ List.replicate k '\n').length (docRule cls extP (PRule.rule env ⟨patExpandTimeShorthands, specExpandTimeShorthands⟩) (P0 ++ List.replicate k '\n'))
        (docRule cls extD (PRule.rule env ⟨patExpandTimeShorthands, specExpandTimeShorthands⟩) D) :=
  patternRule_paragraphs_separately env _ fineExpandTimeShorthands cls P0 D k extP extD extPD h
theorem forNoun_paragraphs_separately (env : Env) (cls : Cls) (P0 D : List Char) (k : Nat) (extP extD extPD : Ext)
    (h : ParagraphPair cls P0 D k extP extD extPD) :
    docRule cls extPD (PRule.rule env ⟨patForNoun, specForNoun⟩) ((P0 ++ List.replicate k '\n') ++ D) =
      joinE (P0 ++ List.replicate k '\n').length (docRule cls extP (PRule.rule env ⟨patForNoun, specForNoun⟩) (P0 ++ List.replicate k '\n'))
        (docRule cls extD (PRule.rule env ⟨patForNoun, specForNoun⟩) D) :=
  patternRule_paragraphs_separately env _ fineForNoun cls P0 D k extP extD extPD h
theorem theHowWhy_paragraphs_separately (env : Env) (cls : Cls) (P0 D : List Char) (k : Nat) (extP extD extPD : Ext)
    (h : ParagraphPair cls P0 D k extP extD extPD) :
    docRule cls extPD (PRule.rule env ⟨patTheHowWhy, specTheHowWhy⟩) ((P0 ++ List.replicate k '\n') ++ D) =
      joinE (P0 ++ List.replicate k '\n').length (docRule cls extP (PRule.rule env ⟨patTheHowWhy, specTheHowWhy⟩) (P0 ++ List.replicate k '\n'))
        (docRule cls extD (PRule.rule env ⟨patTheHowWhy, specTheHowWhy⟩) D) :=
  patternRule_paragraphs_separately env _ fineTheHowWhy cls P0 D k extP extD extPD h
theorem widelyAccepted_paragraphs_separately (env : Env) (cls : Cls) (P0 D : List Char) (k : Nat) (extP extD extPD : Ext)
    (h : ParagraphPair cls P0 D k extP extD extPD) :
    docRule cls extPD (PRule.rule env ⟨patWidelyAccepted, specWidelyAccepted⟩) ((P0 ++ List.replicate k '\n') ++ D) =
      joinE (P0 ++ List.replicate k '\n').length (docRule cls extP (PRule.rule env ⟨patWidelyAccepted, specWidelyAccepted⟩) (P0 ++ List.replicate k '\n'))
        (docRule cls extD (PRule.rule env ⟨patWidelyAccepted, specWidelyAccepted⟩) D) :=
  patternRule_paragraphs_separately env _ fineWidelyAccepted cls P0 D k extP extD extPD h

/-! ## non-vacuity (kernel-evaluated) -/

open Harper.C02 (asciiCls)

/-- Dashes on `a--b.¶¶` + `c---d`: an en dash in the first paragraph, an em dash in the second, moved by 7 -/
example : docRule asciiCls noExt (PRule.rule env0 ⟨patDashes, specDashes⟩)
      (['a', '-', '-', 'b', '.', '\n', '\n'] ++ ['c', '-', '-', '-', 'd']) =
    .ok [⟨⟨1, 3⟩, [.replaceWith ['–']], 21, 2⟩, ⟨⟨8, 11⟩, [.replaceWith ['—']], 21, 3⟩] := by decide

/-- … which is what the two paragraphs give separately -/
example : docRule asciiCls noExt (PRule.rule env0 ⟨patDashes, specDashes⟩) ['a', '-', '-', 'b', '.', '\n', '\n'] =
      .ok [⟨⟨1, 3⟩, [.replaceWith ['–']], 21, 2⟩] ∧
    docRule asciiCls noExt (PRule.rule env0 ⟨patDashes, specDashes⟩) ['c', '-', '-', '-', 'd'] =
      .ok [⟨⟨1, 4⟩, [.replaceWith ['—']], 21, 3⟩] := by decide

/-- Whereas with a two-token blank (space + newline) in the second paragraph: the lint covers the whole match -/
example : docRule asciiCls noExt (PRule.rule env0 ⟨patWhereas, specWhereas⟩)
      (['o', 'k', '.', '\n', '\n'] ++ ['W', 'h', 'e', 'r', 'e', ' ', '\n', 'a', 's']) =
    .ok [⟨⟨5, 14⟩, [.replaceWith ['W', 'h', 'e', 'r', 'e', 'a', 's']], 31, 0⟩] := by decide

end Harper.C12
