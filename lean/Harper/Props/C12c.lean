import Harper.Lemmas.Leaves
import Harper.Props.C12b
import Harper.Props.C01Leaves
/-!
# C12 (generic rule constructions) — every phrase-correction rule is paragraph-local, whatever its table row

`Props/C12b.lean` proves locality of eleven hand-modelled rules. Most shipped rules are instances of
`MapPhraseLinter` (`phrase_corrections.rs`: 166 rows; `closed_compounds.rs`: 46) or of
`ProperNounCapitalizationLinter` (`proper_noun_rules.json`: 25 entries, 434 phrases): a pattern tree over
the real leaves, `run_on_chunk`, and one generic `match_to_lint`. With `Model/Leaves.lean` (compared with
the shipped rules row by row on every run):

* `mapPhrase_xlocal`: for EVERY pattern tree over the real leaves and all combinators (`RPat`) — except
  a `then_strict` / `TokenKindPatternGroup` key that is a PAIRED quote, whose `twin_loc` is a token index
  (`Loc`; witness below that such a pattern is not translation invariant) — the piece function
  `run_on_chunk ∘ match_to_lint` of the `MapPhraseLinter` is `XLocalE`;
* `mapPhrase_paragraphs_separately`: hence, end to end from the characters of `P` and `D`, the rule reports
  on `P ++ D` its lints on `P` followed by its lints on `D` moved by `|P|` — and panics exactly when one side does;
* `phraseCorrection_paragraphs_separately` / `closedCompound_paragraphs_separately`: the trees that
  `MapPhraseLinter::new_exact_phrases` / `new_closed_compound` build from ANY phrase documents without a
  paired quotation mark are `Loc`: every row of the two tables, present and future;
* `properNoun_xlocal`, `properNoun_paragraphs_separately`: the same for `ProperNounCapitalizationLinter`.
-/
namespace Harper.C12
open Harper Harper.Chunks Harper.Rules Harper.Leaves

/-! ## `MapPhraseLinter` over any tree -/

/-- **chunk-locality of every `MapPhraseLinter`**: nothing on the empty chunk; text after the chunk does
not matter; moving the chunk with its text moves the lints — panics included -/
theorem mapPhrase_xlocal (env : Env) (p : RPat) (hp : p.Loc) (forms : List (List Char)) :
    XLocalE (mapPhrasePiece env p forms) := mapPhrase_xlocalE env p hp forms

/-- `MapPhraseLinter::match_to_lint` moves with its match -/
theorem mapPhraseMatch_translation (env : Env) (forms : List (List Char)) (P D : List Char) (m : List Tok) (j : Nat) :
    mapPhraseMatch env forms (P ++ D) (shiftDoc P.length j m) = (mapPhraseMatch env forms D m).map (shiftRLs P.length) :=
  mapPhraseMatch_shift env forms P D m j

/-- every pattern tree over the real leaves is translation invariant -/
theorem matches_translation (env : Env) (p : RPat) (hp : p.Loc) (P D : List Char) (ts : List Tok) (j : Nat) :
    p.matcher env (P ++ D) (shiftDoc P.length j ts) = p.matcher env D ts := (matcher_loc env p hp).right P D ts j

/-- … and does not look at text after its tokens -/
theorem matches_left (env : Env) (p : RPat) (hp : p.Loc) (P D : List Char) (ts : List Tok)
    (h : ∀ t ∈ ts, t.span.start ≤ t.span.stop ∧ t.span.stop ≤ P.length) :
    p.matcher env (P ++ D) ts = p.matcher env P ts := (matcher_loc env p hp).left P D ts h

theorem mapPhrase_appends (env : Env) (p : RPat) (hp : p.Loc) (forms : List (List Char)) :
    Appends (ruleMapPhrase env p forms) := appends_chunks _ (mapPhrase_xlocal env p hp forms)

/-- **C12 for every `MapPhraseLinter`, end to end** (lexer, condensing passes, `iter_chunks`, `run_on_chunk`,
the pattern tree, `match_to_lint`) -/
theorem mapPhrase_paragraphs_separately (env : Env) (p : RPat) (hp : p.Loc) (forms : List (List Char))
    (cls : Cls) (P0 D : List Char) (k : Nat) (extP extD extPD : Ext) (h : ParagraphPair cls P0 D k extP extD extPD) :
    docRule cls extPD (ruleMapPhrase env p forms) ((P0 ++ List.replicate k '\n') ++ D) =
      joinE (P0 ++ List.replicate k '\n').length (docRule cls extP (ruleMapPhrase env p forms) (P0 ++ List.replicate k '\n'))
        (docRule cls extD (ruleMapPhrase env p forms) D) :=
  separately_of_appends _ (mapPhrase_appends env p hp forms) cls P0 D k extP extD extPD h

/-! ## the trees of the tables -/

/-- `ExactPhrase::from_document` of a phrase without a PAIRED quotation mark is `Loc` -/
theorem exactPhrase_loc (env : Env) (psrc : List Char) (ptoks : List Tok) (hq : ∀ t ∈ ptoks, stableKind t.kind = true)
    (p : RPat) (h : exactPhraseOf env psrc ptoks = some p) : p.Loc := by
  simp only [exactPhraseOf, Option.map_eq_some_iff] at h
  obtain ⟨ls, hls, rfl⟩ := h
  simp only [RPat.Loc]
  apply leavesToRPats_loc
  intro l hl
  obtain ⟨t, htm, ht⟩ := mapM_some_mem _ _ _ hls l hl
  have hst := hq t htm
  simp only [exactPhraseLeaf] at ht
  split at ht <;> first
    | (cases ht; trivial)
    | (rename_i tw hk; cases ht; simp only [Leaf.Loc]; rw [hk] at hst; exact hst)
    | cases ht

theorem exactPhrases_loc (env : Env) (docs : List (List Char × List Tok))
    (hq : ∀ d ∈ docs, ∀ t ∈ d.2, stableKind t.kind = true) (p : RPat) (h : exactPhrasesOf env docs = some p) : p.Loc := by
  simp only [exactPhrasesOf, Option.map_eq_some_iff] at h
  obtain ⟨ps, hps, rfl⟩ := h
  simp only [RPat.Loc]
  apply ofList_loc
  intro q hqm
  obtain ⟨d, hdm, hd⟩ := mapM_some_mem _ _ _ hps q hqm
  exact exactPhrase_loc env d.1 d.2 (hq d hdm) q hd

/-- **every row of `phrase_corrections.rs`** — `MapPhraseLinter::new_exact_phrases(phrases, corrections, …)`
for ANY list of phrase documents without a paired quotation mark and ANY corrections — is paragraph-local -/
theorem phraseCorrection_paragraphs_separately (env : Env) (docs : List (List Char × List Tok))
    (hq : ∀ d ∈ docs, ∀ t ∈ d.2, stableKind t.kind = true) (p : RPat) (hp : exactPhrasesOf env docs = some p)
    (forms : List (List Char)) (cls : Cls) (P0 D : List Char) (k : Nat) (extP extD extPD : Ext)
    (h : ParagraphPair cls P0 D k extP extD extPD) :
    docRule cls extPD (ruleMapPhrase env p forms) ((P0 ++ List.replicate k '\n') ++ D) =
      joinE (P0 ++ List.replicate k '\n').length (docRule cls extP (ruleMapPhrase env p forms) (P0 ++ List.replicate k '\n'))
        (docRule cls extD (ruleMapPhrase env p forms) D) :=
  mapPhrase_paragraphs_separately env p (exactPhrases_loc env docs hq p hp) forms cls P0 D k extP extD extPD h

/-- **every row of `closed_compounds.rs`**: `MapPhraseLinter::new_closed_compound(bad, good)` -/
theorem closedCompound_paragraphs_separately (env : Env) (psrc : List Char) (ptoks : List Tok)
    (hq : ∀ t ∈ ptoks, stableKind t.kind = true) (good : List Char) (r : PieceRule)
    (hr : ruleClosedCompound env psrc ptoks good = some r)
    (cls : Cls) (P0 D : List Char) (k : Nat) (extP extD extPD : Ext) (h : ParagraphPair cls P0 D k extP extD extPD) :
    docRule cls extPD r ((P0 ++ List.replicate k '\n') ++ D) =
      joinE (P0 ++ List.replicate k '\n').length (docRule cls extP r (P0 ++ List.replicate k '\n')) (docRule cls extD r D) := by
  simp only [ruleClosedCompound, Option.map_eq_some_iff] at hr
  obtain ⟨p, hp, rfl⟩ := hr
  exact mapPhrase_paragraphs_separately env p (exactPhrase_loc env psrc ptoks hq p hp) [good] cls P0 D k extP extD extPD h


/-! ## `ProperNounCapitalizationLinter` -/

/-- chunk-locality of the proper-noun linter for ANY rows whose patterns are `Loc`: the `PatternMap`, the second
`lookup` on the matched tokens, the token-by-token comparison with the canonical document, the span -/
theorem properNoun_xlocal (env : Env) (rows : List PNRow) (hrows : ∀ r ∈ rows, r.pat.Loc) :
    XLocalE (properNounPiece env rows) := properNoun_xlocalE env rows hrows

theorem properNoun_appends (env : Env) (rows : List PNRow) (hrows : ∀ r ∈ rows, r.pat.Loc) :
    Appends (ruleProperNoun env rows) := appends_chunks _ (properNoun_xlocal env rows hrows)

theorem properNoun_paragraphs_separately (env : Env) (rows : List PNRow) (hrows : ∀ r ∈ rows, r.pat.Loc)
    (cls : Cls) (P0 D : List Char) (k : Nat) (extP extD extPD : Ext) (h : ParagraphPair cls P0 D k extP extD extPD) :
    docRule cls extPD (ruleProperNoun env rows) ((P0 ++ List.replicate k '\n') ++ D) =
      joinE (P0 ++ List.replicate k '\n').length (docRule cls extP (ruleProperNoun env rows) (P0 ++ List.replicate k '\n'))
        (docRule cls extD (ruleProperNoun env rows) D) :=
  separately_of_appends _ (properNoun_appends env rows hrows) cls P0 D k extP extD extPD h

/-- a row built by `ProperNounCapitalizationLinter::new` from a canonical version without a paired quotation mark -/
theorem pnRow_loc (env : Env) (psrc : List Char) (ptoks : List Tok) (hq : ∀ t ∈ ptoks, stableKind t.kind = true) (r : PNRow)
    (h : pnRowOf env psrc ptoks = some r) : r.pat.Loc := by
  simp only [pnRowOf, Option.map_eq_some_iff] at h
  obtain ⟨p, hp, rfl⟩ := h
  exact exactPhrase_loc env psrc ptoks hq p hp

/-- **every entry of `proper_noun_rules.json`**: the linter built from ANY canonical versions (given by their
documents) without a paired quotation mark -/
theorem properNounRule_paragraphs_separately (env : Env) (docs : List (List Char × List Tok))
    (hq : ∀ d ∈ docs, ∀ t ∈ d.2, stableKind t.kind = true) (rows : List PNRow)
    (hrows : docs.mapM (fun d => pnRowOf env d.1 d.2) = some rows)
    (cls : Cls) (P0 D : List Char) (k : Nat) (extP extD extPD : Ext) (h : ParagraphPair cls P0 D k extP extD extPD) :
    docRule cls extPD (ruleProperNoun env rows) ((P0 ++ List.replicate k '\n') ++ D) =
      joinE (P0 ++ List.replicate k '\n').length (docRule cls extP (ruleProperNoun env rows) (P0 ++ List.replicate k '\n'))
        (docRule cls extD (ruleProperNoun env rows) D) := by
  apply properNoun_paragraphs_separately env rows _ cls P0 D k extP extD extPD h
  intro r hr
  obtain ⟨d, hd, hrd⟩ := mapM_some_mem _ _ _ hrows r hr
  exact pnRow_loc env d.1 d.2 (hq d hd) r hrd

/-! ## non-vacuity and the counter-example (kernel-evaluated) -/

open Harper.C02 (asciiCls)
open Harper.C01 (phIntact)

/-- the tree `ExactPhrase::from_phrase("in tact")` builds (`Props/C01Leaves.lean`: `exactPhraseOf … = some intactPat`) -/
def intactPat : RPat :=
  .seq (.cons (.leaf (.anyCap ['i', 'n'])) (.cons (.leaf .whitespace) (.cons (.leaf (.anyCap ['t', 'a', 'c', 't'])) .nil)))

example : exactPhraseOf env0 phIntact.1 phIntact.2 = some intactPat := rfl

/-- the rule `Intact` of `closed_compounds.rs` on `in tact.¶¶` + `In  tact`: one lint per paragraph, the second
moved by 10, over the two-character blank, capital kept (`replace_with_match_case`) -/
example : docRule asciiCls noExt (ruleMapPhrase env0 intactPat [['i', 'n', 't', 'a', 'c', 't']])
      (['i', 'n', ' ', 't', 'a', 'c', 't', '.', '\n', '\n'] ++ ['I', 'n', ' ', ' ', 't', 'a', 'c', 't']) =
    .ok [⟨⟨0, 7⟩, [.replaceWith ['i', 'n', 't', 'a', 'c', 't']], 13, 0⟩,
      ⟨⟨10, 18⟩, [.replaceWith ['I', 'n', 't', 'a', 'c', 't']], 13, 0⟩] := by decide

/-- the hypothesis of `closedCompound_paragraphs_separately` about the phrase holds of it -/
example : ∀ t ∈ phIntact.2, stableKind t.kind = true := by decide

/-- **`Loc` is needed**: `then_strict(Quote { twin_loc: Some(1) })` matches the opening quote of `"a"` at token 0 —
and nothing once the same text stands behind a one-token paragraph (`twin_loc` has become 2) -/
example : (RPat.leaf (.strict (.quote (some 1)))).matcher env0 ['"', 'a', '"'] [⟨⟨0, 1⟩, .quote (some 1)⟩] = .ok 1 ∧
    (RPat.leaf (.strict (.quote (some 1)))).matcher env0 (['x'] ++ ['"', 'a', '"']) (shiftDoc 1 1 [⟨⟨0, 1⟩, .quote (some 1)⟩]) = .ok 0 := by
  decide

/-- the canonical version `Port au` as the linter stores it, and the tokens of `port Au.¶¶` + `Port  AU`:
one capitalisation lint per paragraph, the suggestion is the canonical document's source -/
def pnDoc : List Char × List Tok :=
  (['P', 'o', 'r', 't', ' ', 'a', 'u'], [⟨⟨0, 4⟩, .word⟩, ⟨⟨4, 5⟩, .space 1⟩, ⟨⟨5, 7⟩, .word⟩])

def pnRow : PNRow where
  pat := .seq (.cons (.leaf (.anyCap ['P', 'o', 'r', 't'])) (.cons (.leaf .whitespace) (.cons (.leaf (.anyCap ['a', 'u'])) .nil)))
  contents := [['P', 'o', 'r', 't'], [' '], ['a', 'u']]
  canon := ['P', 'o', 'r', 't', ' ', 'a', 'u']

example : pnRowOf env0 pnDoc.1 pnDoc.2 = some pnRow := rfl

example : ruleProperNoun env0 [pnRow]
      (['p', 'o', 'r', 't', ' ', 'A', 'u', '.', '\n', '\n'] ++ ['P', 'o', 'r', 't', ' ', ' ', 'A', 'U'])
      [⟨⟨0, 4⟩, .word⟩, ⟨⟨4, 5⟩, .space 1⟩, ⟨⟨5, 7⟩, .word⟩, ⟨⟨7, 8⟩, .punct .Period⟩, ⟨⟨8, 10⟩, .paragraphBreak⟩,
        ⟨⟨10, 14⟩, .word⟩, ⟨⟨14, 16⟩, .space 2⟩, ⟨⟨16, 18⟩, .word⟩] =
    .ok [⟨⟨0, 7⟩, [.replaceWith ['P', 'o', 'r', 't', ' ', 'a', 'u']], 14, 0⟩,
      ⟨⟨10, 18⟩, [.replaceWith ['P', 'o', 'r', 't', ' ', 'a', 'u']], 14, 0⟩] := by decide

/-- … and nothing on the canonical spelling itself -/
example : docRule asciiCls noExt (ruleProperNoun env0 [pnRow]) ['P', 'o', 'r', 't', ' ', 'a', 'u'] = .ok [] := by decide

/-! ## non-vacuity, continued: every theorem above applied, all its hypotheses together -/

/-- the text-level hypotheses on `in tact.¶¶` + `In  tact` (no url / e-mail / hostname token) -/
theorem paragraphPair_intact : ParagraphPair asciiCls ['i', 'n', ' ', 't', 'a', 'c', 't', '.'] ['I', 'n', ' ', ' ', 't', 'a', 'c', 't'] 2
    noExt noExt noExt where
  cls_ok := ⟨by decide, by decide, by
    intro c h
    simp only [asciiCls, isAsciiDigit, Bool.and_eq_true, decide_eq_true_eq] at h
    refine ⟨?_, ?_, ?_⟩
    · simp only [isAsciiAlpha, Bool.or_eq_false_iff, Bool.and_eq_false_imp, decide_eq_true_eq, decide_eq_false_iff_not]
      constructor <;> intro h3 <;> intro h4
      · exact absurd (Char.le_trans h3 h.2) (by decide)
      · exact absurd (Char.le_trans h3 h.2) (by decide)
    · intro hc; subst hc; exact absurd h.1 (by decide)
    · intro hc; subst hc; exact absurd h.1 (by decide)⟩
  two := by decide
  no_nl_end := by decide
  d_head := by decide
  no_quotes := by decide
  ext_local := ⟨fun _ _ => rfl, fun _ => rfl⟩
  ext_ok_p := by intro _ _ _ h; cases h
  ext_ok_d := by intro _ _ _ h; cases h
  ext_no_nl := by intro _ _ _ h; cases h

/-- … and on `port Au.¶¶` + `Port  AU` -/
theorem paragraphPair_port : ParagraphPair asciiCls ['p', 'o', 'r', 't', ' ', 'A', 'u', '.'] ['P', 'o', 'r', 't', ' ', ' ', 'A', 'U'] 2
    noExt noExt noExt :=
  { paragraphPair_intact with
    no_nl_end := (by decide), d_head := (by decide), no_quotes := (by decide),
    ext_local := ⟨fun _ _ => rfl, fun _ => rfl⟩, ext_ok_p := (by intro _ _ _ h; cases h),
    ext_ok_d := (by intro _ _ _ h; cases h), ext_no_nl := (by intro _ _ _ h; cases h) }

/-- non-vacuity of `exactPhrase_loc` (both hypotheses together), hence of `mapPhrase_xlocal`, `matches_translation`,
`mapPhrase_appends`: the tree of `in tact` is `Loc` -/
theorem intactPat_loc : intactPat.Loc := exactPhrase_loc env0 phIntact.1 phIntact.2 (by decide) intactPat rfl

example : XLocalE (mapPhrasePiece env0 intactPat [['i', 'n', 't', 'a', 'c', 't']]) := mapPhrase_xlocal env0 intactPat intactPat_loc _

/-- non-vacuity of `matches_translation` / `matches_left`: `In  tact` behind `ab ` and in front of ` now` -/
example : intactPat.matcher env0 (['a', 'b', ' '] ++ ['I', 'n', ' ', ' ', 't', 'a', 'c', 't'])
      (shiftDoc 3 2 [⟨⟨0, 2⟩, .word⟩, ⟨⟨2, 4⟩, .space 2⟩, ⟨⟨4, 8⟩, .word⟩]) =
    intactPat.matcher env0 ['I', 'n', ' ', ' ', 't', 'a', 'c', 't'] [⟨⟨0, 2⟩, .word⟩, ⟨⟨2, 4⟩, .space 2⟩, ⟨⟨4, 8⟩, .word⟩] :=
  matches_translation env0 intactPat intactPat_loc _ _ _ 2

example : intactPat.matcher env0 (['I', 'n', ' ', ' ', 't', 'a', 'c', 't'] ++ [' ', 'n', 'o', 'w'])
      [⟨⟨0, 2⟩, .word⟩, ⟨⟨2, 4⟩, .space 2⟩, ⟨⟨4, 8⟩, .word⟩] =
    intactPat.matcher env0 ['I', 'n', ' ', ' ', 't', 'a', 'c', 't'] [⟨⟨0, 2⟩, .word⟩, ⟨⟨2, 4⟩, .space 2⟩, ⟨⟨4, 8⟩, .word⟩] :=
  matches_left env0 intactPat intactPat_loc _ _ _ (by decide)

example : intactPat.matcher env0 ['I', 'n', ' ', ' ', 't', 'a', 'c', 't'] [⟨⟨0, 2⟩, .word⟩, ⟨⟨2, 4⟩, .space 2⟩, ⟨⟨4, 8⟩, .word⟩] = .ok 3 := by
  decide

/-- non-vacuity of `mapPhrase_paragraphs_separately` (its conclusion is computed in the `example` above: one lint per
paragraph) -/
example : docRule asciiCls noExt (ruleMapPhrase env0 intactPat [['i', 'n', 't', 'a', 'c', 't']])
      ((['i', 'n', ' ', 't', 'a', 'c', 't', '.'] ++ List.replicate 2 '\n') ++ ['I', 'n', ' ', ' ', 't', 'a', 'c', 't']) =
    joinE (['i', 'n', ' ', 't', 'a', 'c', 't', '.'] ++ List.replicate 2 '\n').length
      (docRule asciiCls noExt (ruleMapPhrase env0 intactPat [['i', 'n', 't', 'a', 'c', 't']]) (['i', 'n', ' ', 't', 'a', 'c', 't', '.'] ++ List.replicate 2 '\n'))
      (docRule asciiCls noExt (ruleMapPhrase env0 intactPat [['i', 'n', 't', 'a', 'c', 't']]) ['I', 'n', ' ', ' ', 't', 'a', 'c', 't']) :=
  mapPhrase_paragraphs_separately env0 intactPat intactPat_loc _ asciiCls _ _ 2 _ _ _ paragraphPair_intact

/-- non-vacuity of `exactPhrases_loc` and `phraseCorrection_paragraphs_separately`: `new_exact_phrases(["in tact"], …)` -/
example : (RPat.either (.cons intactPat .nil)).Loc := exactPhrases_loc env0 [phIntact] (by decide) _ rfl

example : docRule asciiCls noExt (ruleMapPhrase env0 (.either (.cons intactPat .nil)) [['i', 'n', 't', 'a', 'c', 't']])
      ((['i', 'n', ' ', 't', 'a', 'c', 't', '.'] ++ List.replicate 2 '\n') ++ ['I', 'n', ' ', ' ', 't', 'a', 'c', 't']) =
    joinE (['i', 'n', ' ', 't', 'a', 'c', 't', '.'] ++ List.replicate 2 '\n').length
      (docRule asciiCls noExt (ruleMapPhrase env0 (.either (.cons intactPat .nil)) [['i', 'n', 't', 'a', 'c', 't']])
        (['i', 'n', ' ', 't', 'a', 'c', 't', '.'] ++ List.replicate 2 '\n'))
      (docRule asciiCls noExt (ruleMapPhrase env0 (.either (.cons intactPat .nil)) [['i', 'n', 't', 'a', 'c', 't']]) ['I', 'n', ' ', ' ', 't', 'a', 'c', 't']) :=
  phraseCorrection_paragraphs_separately env0 [phIntact] (by decide) _ rfl _ asciiCls _ _ 2 _ _ _ paragraphPair_intact

/-- non-vacuity of `closedCompound_paragraphs_separately`: `new_closed_compound("in tact", "intact")` -/
example : docRule asciiCls noExt (ruleMapPhrase env0 intactPat [['i', 'n', 't', 'a', 'c', 't']])
      ((['i', 'n', ' ', 't', 'a', 'c', 't', '.'] ++ List.replicate 2 '\n') ++ ['I', 'n', ' ', ' ', 't', 'a', 'c', 't']) =
    joinE (['i', 'n', ' ', 't', 'a', 'c', 't', '.'] ++ List.replicate 2 '\n').length
      (docRule asciiCls noExt (ruleMapPhrase env0 intactPat [['i', 'n', 't', 'a', 'c', 't']]) (['i', 'n', ' ', 't', 'a', 'c', 't', '.'] ++ List.replicate 2 '\n'))
      (docRule asciiCls noExt (ruleMapPhrase env0 intactPat [['i', 'n', 't', 'a', 'c', 't']]) ['I', 'n', ' ', ' ', 't', 'a', 'c', 't']) :=
  closedCompound_paragraphs_separately env0 phIntact.1 phIntact.2 (by decide) ['i', 'n', 't', 'a', 'c', 't'] _ rfl asciiCls _ _ 2 _ _ _
    paragraphPair_intact

/-- non-vacuity of `pnRow_loc`, `properNoun_xlocal`, `properNoun_appends`: the row of `Port au` -/
theorem pnRow_isLoc : pnRow.pat.Loc := pnRow_loc env0 pnDoc.1 pnDoc.2 (by decide) pnRow rfl

example : XLocalE (properNounPiece env0 [pnRow]) :=
  properNoun_xlocal env0 [pnRow] (by intro r hr; simp at hr; subst hr; exact pnRow_isLoc)

theorem pnRows_of : [pnDoc].mapM (fun d => pnRowOf env0 d.1 d.2) = some [pnRow] := by
  simp only [List.mapM_cons, List.mapM_nil]
  rfl

/-- non-vacuity of `properNoun_paragraphs_separately` / `properNounRule_paragraphs_separately`: `port Au.¶¶` + `Port  AU` -/
example : docRule asciiCls noExt (ruleProperNoun env0 [pnRow])
      ((['p', 'o', 'r', 't', ' ', 'A', 'u', '.'] ++ List.replicate 2 '\n') ++ ['P', 'o', 'r', 't', ' ', ' ', 'A', 'U']) =
    joinE (['p', 'o', 'r', 't', ' ', 'A', 'u', '.'] ++ List.replicate 2 '\n').length
      (docRule asciiCls noExt (ruleProperNoun env0 [pnRow]) (['p', 'o', 'r', 't', ' ', 'A', 'u', '.'] ++ List.replicate 2 '\n'))
      (docRule asciiCls noExt (ruleProperNoun env0 [pnRow]) ['P', 'o', 'r', 't', ' ', ' ', 'A', 'U']) :=
  properNounRule_paragraphs_separately env0 [pnDoc] (by decide) [pnRow] pnRows_of asciiCls _ _ 2 _ _ _ paragraphPair_port

/-- … where the tokens of the `example` above are the document of these characters (so its two lints, one per
paragraph, are the left-hand side here) -/
example : (document asciiCls noExt
      ((['p', 'o', 'r', 't', ' ', 'A', 'u', '.'] ++ List.replicate 2 '\n') ++ ['P', 'o', 'r', 't', ' ', ' ', 'A', 'U'])).toOption =
    some [⟨⟨0, 4⟩, .word⟩, ⟨⟨4, 5⟩, .space 1⟩, ⟨⟨5, 7⟩, .word⟩, ⟨⟨7, 8⟩, .punct .Period⟩, ⟨⟨8, 10⟩, .paragraphBreak⟩,
      ⟨⟨10, 14⟩, .word⟩, ⟨⟨14, 16⟩, .space 2⟩, ⟨⟨16, 18⟩, .word⟩] := by decide

end Harper.C12
