import Harper.Props.C03
import Harper.Props.C13
/-!
# C13 (second part) — "fix all" after overlap resolution

`remove_overlaps` leaves lints whose spans are pairwise disjoint and sorted by start
(`Harper.C13.removeOverlaps_disjoint`: `a.end ≤ b.start` for `a` before `b`). This file proves
that applying one suggestion per such lint with the real `Suggestion::apply` (model:
`Harper/Model/Suggestion.lean`), from the LAST lint to the FIRST, never panics and equals the
simultaneous substitution `substAll` (text before the first span ++ new text₁ ++ text between ++
new text₂ ++ … ++ rest), using C03's `apply_spec`. Any mix of `ReplaceWith` / `InsertAfter` /
`Remove` is allowed.
-/
namespace Harper.C13
open Harper

variable {α : Type}

/-- General form: if every span starts at or after `pos`, the back-to-front application yields
the text before `pos` followed by the simultaneous substitution from `pos` on. -/
theorem fix_all_back_to_front_from (edits : List (Span × Suggestion α)) (src : List α) :
    ∀ (pos : Nat),
      (∀ e ∈ edits, pos ≤ e.1.start) →
      (∀ e ∈ edits, e.1.start ≤ e.1.stop ∧ e.1.stop ≤ src.length) →
      edits.Pairwise (fun a b => a.1.stop ≤ b.1.start) →
      fixAllBackToFront edits src = .ok (src.take pos ++ substAllFrom pos edits src) := by
  induction edits with
  | nil => intro pos _ _ _; simp [fixAllBackToFront, substAllFrom]
  | cons e rest ih =>
    intro pos hpos hwf hdis
    obtain ⟨sp, sug⟩ := e
    have ⟨hhead, hrest⟩ := List.pairwise_cons.mp hdis
    have ⟨hse, hen⟩ := hwf (sp, sug) List.mem_cons_self
    have hps : pos ≤ sp.start := hpos (sp, sug) List.mem_cons_self
    simp only at hse hen
    have ih' := ih sp.stop (fun e he => hhead e he)
      (fun e he => hwf e (List.mem_cons_of_mem _ he)) hrest
    simp only [fixAllBackToFront, ih', substAllFrom]
    -- the text so far: `src.take sp.stop ++ X`
    generalize substAllFrom sp.stop rest src = X
    have hlen : (List.take sp.stop src).length = sp.stop := by simp; omega
    rw [C03.apply_spec sug _ sp hse (by simp; omega)]
    have e1 : List.take sp.start (List.take sp.stop src ++ X) = List.take sp.start src := by
      rw [List.take_append_of_le_length (by omega), List.take_take, Nat.min_eq_left hse]
    have e2 : List.take (sp.stop - sp.start) (List.drop sp.start (List.take sp.stop src ++ X))
        = List.take (sp.stop - sp.start) (List.drop sp.start src) := by
      rw [List.drop_append_of_le_length (by omega), List.drop_take,
        List.take_append_of_le_length (by simp; omega), List.take_take, Nat.min_self]
    have e3 : List.drop sp.stop (List.take sp.stop src ++ X) = X := List.drop_left' hlen
    have e4 : List.take pos src ++ List.take (sp.start - pos) (List.drop pos src)
        = List.take sp.start src := take_append_flagged src hps
    rw [e1, e2, e3, ← e4]
    simp [List.append_assoc]

/-- `fix_all_back_to_front`: for pairwise-disjoint, start-sorted spans within the text, applying
one suggestion per span from the last to the first succeeds and equals the simultaneous
substitution. -/
theorem fix_all_back_to_front (edits : List (Span × Suggestion α)) (src : List α)
    (hwf : ∀ e ∈ edits, e.1.start ≤ e.1.stop ∧ e.1.stop ≤ src.length)
    (hdis : edits.Pairwise (fun a b => a.1.stop ≤ b.1.start)) :
    fixAllBackToFront edits src = .ok (substAll edits src) := by
  have := fix_all_back_to_front_from edits src 0 (fun _ _ => Nat.zero_le _) hwf hdis
  simpa [substAll] using this

/-! ### Non-vacuity and witnesses ("abcdefgh" as code points 1..8) -/

/-- three touching / separate spans with a replace (longer), a remove and an insert-after -/
example : fixAllBackToFront
    [(⟨1, 3⟩, .replaceWith [20, 21, 22]), (⟨3, 4⟩, .remove), (⟨6, 7⟩, .insertAfter [44])]
    [1, 2, 3, 4, 5, 6, 7, 8] = .ok [1, 20, 21, 22, 5, 6, 7, 44, 8] := rfl
example : substAll
    [(⟨1, 3⟩, .replaceWith [20, 21, 22]), (⟨3, 4⟩, .remove), (⟨6, 7⟩, .insertAfter [44])]
    [1, 2, 3, 4, 5, 6, 7, 8] = [1, 20, 21, 22, 5, 6, 7, 44, 8] := rfl
/-- the hypotheses hold of that instance -/
example : (∀ e ∈ [((⟨1, 3⟩ : Span), (Suggestion.replaceWith [20, 21, 22] : Suggestion Nat)),
      (⟨3, 4⟩, .remove), (⟨6, 7⟩, .insertAfter [44])],
      e.1.start ≤ e.1.stop ∧ e.1.stop ≤ [1, 2, 3, 4, 5, 6, 7, 8].length) ∧
    [((⟨1, 3⟩ : Span), (Suggestion.replaceWith [20, 21, 22] : Suggestion Nat)),
      (⟨3, 4⟩, .remove), (⟨6, 7⟩, .insertAfter [44])].Pairwise
      (fun a b => a.1.stop ≤ b.1.start) := by decide
/-- why the order matters: the same edits front to back (= the reversed list back to front) hit
shifted text -/
example : fixAllBackToFront
    [(⟨6, 7⟩, .insertAfter [44]), (⟨3, 4⟩, .remove), (⟨1, 3⟩, .replaceWith [20, 21, 22])]
    [1, 2, 3, 4, 5, 6, 7, 8] = .ok [1, 20, 21, 4, 5, 6, 7, 44, 8] := rfl
/-- overlapping spans (not what `remove_overlaps` returns) do not commute with the substitution -/
example : fixAllBackToFront [(⟨0, 2⟩, .remove), (⟨1, 3⟩, .remove)] [1, 2, 3, 4] = .ok [] := rfl
example : substAll [(⟨0, 2⟩, Suggestion.remove), (⟨1, 3⟩, .remove)] [1, 2, 3, 4] = [4] := rfl

/-! ## Added by the w22 audit -/

/-! ### Composed with `remove_overlaps` itself -/

/-- **"Hence … can all be fixed in one pass, back to front"**, for the OUTPUT OF
`removeOverlaps`: take any lints that point into the text (`start ≤ end ≤ length`; overlapping,
nested, equal, zero-width, in any order), run `removeOverlaps`, pick one suggestion `σ x` per
surviving lint, apply them with `Suggestion.apply` from the last survivor to the first: no panic,
and the result is the simultaneous substitution. (`fix_all_back_to_front` states this for abstract
disjoint sorted edits; here its two hypotheses are discharged by `removeOverlaps_subset` and
`removeOverlaps_disjoint`.) -/
theorem fix_all_after_removeOverlaps (l : List Lint) (src : List α) (σ : Lint → Suggestion α)
    (hin : ∀ x ∈ l, x.s ≤ x.e ∧ x.e ≤ src.length) :
    fixAllBackToFront ((removeOverlaps l).map (fun x => ((⟨x.s, x.e⟩ : Span), σ x))) src
      = .ok (substAll ((removeOverlaps l).map (fun x => ((⟨x.s, x.e⟩ : Span), σ x))) src) := by
  apply fix_all_back_to_front
  · intro e he
    obtain ⟨x, hx, rfl⟩ := List.mem_map.mp he
    exact hin x (removeOverlaps_subset l x hx)
  · rw [List.pairwise_map]
    exact removeOverlaps_disjoint l (fun x hx => (hin x hx).1)

/-- non-vacuity of `fix_all_after_removeOverlaps`: five lints on "abcdefghi" (nested, touching,
equal-start, zero-width), suggestion chosen by payload; two survive and both edits land -/
example :
    (∀ x ∈ [(⟨0,5,1⟩ : Lint), ⟨3,6,2⟩, ⟨5,5,3⟩, ⟨5,9,4⟩, ⟨2,2,5⟩],
      x.s ≤ x.e ∧ x.e ≤ [1, 2, 3, 4, 5, 6, 7, 8, 9].length) ∧
    fixAllBackToFront ((removeOverlaps [⟨0,5,1⟩, ⟨3,6,2⟩, ⟨5,5,3⟩, ⟨5,9,4⟩, ⟨2,2,5⟩]).map
        (fun x => ((⟨x.s, x.e⟩ : Span),
          (if x.id = 1 then .replaceWith [20] else .insertAfter [44] : Suggestion Nat))))
      [1, 2, 3, 4, 5, 6, 7, 8, 9] = .ok [20, 6, 7, 8, 9, 44] := ⟨by decide, rfl⟩

/-- without `removeOverlaps` the same lints, back to front, do NOT give the simultaneous
substitution (the edits interfere) -/
example :
    fixAllBackToFront [((⟨0, 5⟩ : Span), (Suggestion.remove : Suggestion Nat)), (⟨3, 6⟩, .remove)]
        [1, 2, 3, 4, 5, 6, 7, 8, 9] = .ok [9] ∧
    substAll [((⟨0, 5⟩ : Span), (Suggestion.remove : Suggestion Nat)), (⟨3, 6⟩, .remove)]
        [1, 2, 3, 4, 5, 6, 7, 8, 9] = [7, 8, 9] := ⟨rfl, rfl⟩

/-- non-vacuity of `fix_all_back_to_front_from` with `pos > 0`: every span starts at or after 1 -/
example : fixAllBackToFront
    [(⟨1, 3⟩, .replaceWith [20, 21, 22]), (⟨3, 4⟩, .remove), (⟨6, 7⟩, .insertAfter [44])]
    [1, 2, 3, 4, 5, 6, 7, 8]
    = .ok ([1, 2, 3, 4, 5, 6, 7, 8].take 1 ++ substAllFrom 1
        [(⟨1, 3⟩, .replaceWith [20, 21, 22]), (⟨3, 4⟩, .remove), (⟨6, 7⟩, .insertAfter [44])]
        [1, 2, 3, 4, 5, 6, 7, 8]) :=
  fix_all_back_to_front_from _ _ 1 (by decide) (by decide) (by decide)

end Harper.C13
