import Harper.Lemmas.EditDistance
/-!
# C15 — dictionary back-ends agree; fuzzy search returns true near matches

Property theorems only; helper lemmas are in `Harper/Lemmas/EditDistance.lean`. The models
(`Harper/Model/EditDistance.lean`, `Harper/Model/Dict.lean`) follow the code: two rows of `u8`
cells with the dev profile's overflow checks and length assertion (`Arith.checked`, the mode the
correspondence run exercises), the release profile's wrapping arithmetic (`Arith.wrapping`), and
unbounded cells (`Arith.nat`); the mutable dictionary's length window, the two distances, the
sort by distance and the cap; the keyed word map; the merged dictionary's first-child-wins loops.

`lev` is the textbook Levenshtein recursion (`Harper.lev`, in the lemma file because it is the
specification, not code that runs).
-/
namespace Harper.C15
open Harper

/-! ## The distance -/

/-- The Wagner–Fischer rows (unbounded cells) compute the Levenshtein distance; the Rust loops
fill the table over prefixes, so what comes out is literally the distance of the reversed strings. -/
theorem wagnerFischer_eq_lev {α : Type} [DecidableEq α] (s t : List α) :
    editDistance .nat s t = .ok (lev s.reverse t.reverse) :=
  editDistance_eq_lev_reverse .nat s t (.inl rfl)

/-- … which is the same number (an edit script can be read from either end). -/
theorem lev_reverse {α : Type} [DecidableEq α] (s t : List α) :
    lev s.reverse t.reverse = lev s t :=
  Harper.lev_reverse s t

/-- `lev` is symmetric -/
theorem lev_comm {α : Type} [DecidableEq α] (s t : List α) : lev s t = lev t s :=
  Harper.lev_comm s t

/-- With `u8` cells — dev profile (checked) or release profile (wrapping) — the routine neither
panics nor wraps, and returns the Levenshtein distance, whenever both strings have at most 254
characters. -/
theorem u8_rows_exact {α : Type} [DecidableEq α] (m : Arith) (s t : List α)
    (hs : s.length ≤ 254) (ht : t.length ≤ 254) :
    editDistance m s t = .ok (lev s t) :=
  editDistance_eq_lev m s t (.inr ⟨hs, ht⟩)

/-- The exact domain of the dev-profile routine: it returns a value iff both lengths are ≤ 254,
or one string is empty and the other has ≤ 255 characters. (255 against a non-empty string
overflows a `u8` cell; ≥ 256 fails the `debug_assertions` length assertion.) -/
theorem u8_checked_ok_iff {α : Type} [DecidableEq α] (s t : List α) :
    (∃ n, editDistance .checked s t = .ok n) ↔
      (s.length ≤ 254 ∧ t.length ≤ 254) ∨ (t = [] ∧ s.length ≤ 255) ∨ (s = [] ∧ t.length ≤ 255) := by
  constructor
  · intro ⟨n, hn⟩
    by_cases hbig : 255 < s.length ∨ 255 < t.length
    · rw [editDistance_assert s t hbig] at hn; cases hn
    · by_cases hs : s.length = 255
      · by_cases ht : t = []
        · exact .inr (.inl ⟨ht, by omega⟩)
        · rw [editDistance_overflow_source s t hs ht (by omega)] at hn; cases hn
      · by_cases ht : t.length = 255
        · by_cases hs0 : s = []
          · exact .inr (.inr ⟨hs0, by omega⟩)
          · rw [editDistance_overflow_target s t hs0 (by omega) ht] at hn; cases hn
        · exact .inl ⟨by omega, by omega⟩
  · rintro (⟨hs, ht⟩ | ⟨rfl, hs⟩ | ⟨rfl, ht⟩)
    · exact ⟨_, editDistance_eq_lev .checked s t (.inr ⟨hs, ht⟩)⟩
    · exact ⟨_, editDistance_nil_right .checked s (.inr hs)⟩
    · exact ⟨_, editDistance_nil_left .checked t (.inr ht)⟩

/-- … and whenever it returns, the value is the Levenshtein distance. -/
theorem u8_checked_value {α : Type} [DecidableEq α] (s t : List α) (n : Nat)
    (h : editDistance .checked s t = .ok n) : n = lev s t := by
  rcases (u8_checked_ok_iff s t).mp ⟨n, h⟩ with ⟨hs, ht⟩ | ⟨rfl, hs⟩ | ⟨rfl, ht⟩
  · rw [editDistance_eq_lev .checked s t (.inr ⟨hs, ht⟩)] at h
    exact (Except.ok.inj h).symm
  · rw [editDistance_nil_right .checked s (.inr hs)] at h
    simpa using (Except.ok.inj h).symm
  · rw [editDistance_nil_left .checked t (.inr ht)] at h
    simpa using (Except.ok.inj h).symm

/-- The distance is at least the difference of the lengths: words outside the length window
`[len − bound, len + bound]` of `fuzzy_match` cannot be within the bound. -/
theorem lev_ge_length_diff {α : Type} [DecidableEq α] (s t : List α) :
    s.length - t.length ≤ lev s t ∧ t.length - s.length ≤ lev s t := by
  have := lev_length_bounds s t
  omega

/-! ## Fuzzy search of the mutable dictionary

`ws` is the dictionary's word list in iteration order, each word tagged with a payload `x`
identifying it; `q` is the normalised query and `ql` its lower-case form. The hypothesis
`q.length + bound ≤ 254 ∧ ql.length ≤ 254` keeps every candidate in the length window within the
domain of the `u8` routine (real queries are words of a text, real bounds ≤ 3). -/

/-- Soundness: the search returns a value; every result is a word of the dictionary, its reported
distance is the smaller of its true distances to the query and to the lower-cased query and is
within the bound; results are ordered by distance; at most `cap` of them; and no dictionary entry
is reported twice (a rearrangement of the result tags is a sub-list of the dictionary's tags). -/
theorem fuzzy_sound {β : Type} (m : Arith) (bound cap : Nat) (q ql : List Char)
    (ws : List (β × List Char))
    (hq : m = .nat ∨ (q.length + bound ≤ 254 ∧ ql.length ≤ 254)) :
    ∃ res, fuzzyMatch m bound cap q ql ws = .ok res ∧
      (∀ r ∈ res, ∃ w, (r.1, w) ∈ ws ∧ r.2 = min (lev q w) (lev ql w) ∧ r.2 ≤ bound) ∧
      res.Pairwise (fun a b => a.2 ≤ b.2) ∧
      res.length ≤ cap ∧
      (∃ p : List (β × Nat), p.Perm res ∧ (p.map (·.1)).Sublist (ws.map (·.1))) := by
  have hrun : fuzzyMatch m bound cap q ql ws
      = .ok ((sortByDist (ws.filterMap (fuzzyPick bound q ql))).take cap) := by
    simp only [fuzzyMatch, fuzzyAll, fuzzyScan_eq m bound q ql ws hq]
  refine ⟨_, hrun, ?_, ?_, ?_, ?_⟩
  · intro r hr
    have hr' := (sortByDist_perm _).mem_iff.mp (List.mem_of_mem_take hr)
    obtain ⟨xw, hxw, hpick⟩ := List.mem_filterMap.mp hr'
    have h := fuzzyPick_some hpick
    refine ⟨xw.2, ?_, h.2.1, h.2.2.1⟩
    rw [h.1]; exact hxw
  · exact (sortByDist_sorted _).sublist (List.take_sublist _ _)
  · simp only [List.length_take]; omega
  · obtain ⟨p, hp, hsub⟩ := List.exists_perm_sublist (List.take_sublist cap _) (sortByDist_perm _)
    exact ⟨p, hp, (hsub.map _).trans (filterMap_fuzzyPick_fst_sublist bound q ql ws)⟩

/-- Completeness: when the cap is not smaller than the number of words within the bound, every
non-empty dictionary word within the bound of the query — or within the bound of the lower-cased
query, provided lower-casing kept the query's length — is returned, with its true (smaller)
distance. -/
theorem fuzzy_complete {β : Type} (m : Arith) (bound cap : Nat) (q ql : List Char)
    (ws : List (β × List Char))
    (hq : m = .nat ∨ (q.length + bound ≤ 254 ∧ ql.length ≤ 254))
    (hcap : (ws.filter (fun xw => decide (min (lev q xw.2) (lev ql xw.2) ≤ bound))).length ≤ cap) :
    ∃ res, fuzzyMatch m bound cap q ql ws = .ok res ∧
      ∀ x w, (x, w) ∈ ws → w ≠ [] →
        (lev q w ≤ bound ∨ (ql.length = q.length ∧ lev ql w ≤ bound)) →
        (x, min (lev q w) (lev ql w)) ∈ res := by
  have hrun : fuzzyMatch m bound cap q ql ws
      = .ok ((sortByDist (ws.filterMap (fuzzyPick bound q ql))).take cap) := by
    simp only [fuzzyMatch, fuzzyAll, fuzzyScan_eq m bound q ql ws hq]
  refine ⟨_, hrun, ?_⟩
  intro x w hxw hw hd
  have hlen := length_filterMap_fuzzyPick_le bound q ql ws
  rw [List.take_of_length_le (by rw [(sortByDist_perm _).length_eq]; omega)]
  apply (sortByDist_perm _).mem_iff.mpr
  apply List.mem_filterMap.mpr
  refine ⟨(x, w), hxw, ?_⟩
  have hwin : inWindow q.length bound w.length = true := by
    rcases hd with h | ⟨hl, h⟩
    · exact inWindow_of_lev_le q w bound hw h
    · rw [← hl]; exact inWindow_of_lev_le ql w bound hw h
  have hmin : min (lev q w) (lev ql w) ≤ bound := by omega
  simp [fuzzyPick, hwin, hmin]

/-- The property's clause: for a lower-case query (lower-casing changes nothing) no non-empty word
within the bound is missed, as long as the cap is not smaller than the number of such words. -/
theorem fuzzy_complete_lower {β : Type} (m : Arith) (bound cap : Nat) (q : List Char)
    (ws : List (β × List Char)) (hq : m = .nat ∨ q.length + bound ≤ 254)
    (hcap : (ws.filter (fun xw => decide (lev q xw.2 ≤ bound))).length ≤ cap) :
    ∃ res, fuzzyMatch m bound cap q q ws = .ok res ∧
      ∀ x w, (x, w) ∈ ws → w ≠ [] → lev q w ≤ bound → (x, lev q w) ∈ res := by
  obtain ⟨res, hres, h⟩ := fuzzy_complete m bound cap q q ws
    (by rcases hq with h | h; exact .inl h; right; omega) (by simpa using hcap)
  refine ⟨res, hres, fun x w hxw hw hd => ?_⟩
  simpa using h x w hxw hw (.inl hd)

/-! ## Fuzzy search of the FST dictionary

`fst` and `levenshtein_automata` are not modelled. `zipMerge` is the code around them — the
positional `zip` of the two result streams, sort by word + `dedup_by_key`, sort by distance,
`truncate` — and the first two theorems hold for *arbitrary* streams `us` (automaton of the query)
and `ls` (automaton of the lower-cased query) of (word index, distance) pairs. The last two
instantiate the streams with their specification `fstStream` (every word of the sorted word list
within the bound, in order, with its exact distance). -/

/-- Whatever the two streams are: every result is an entry of one of the streams, results are
ordered by distance, at most `cap`, and no word is returned twice. -/
theorem zipMerge_sound (cap : Nat) (us ls : List (Nat × Nat)) :
    (∀ r ∈ zipMerge cap us ls, r ∈ us ∨ r ∈ ls) ∧
    (zipMerge cap us ls).Pairwise (fun a b => a.2 ≤ b.2) ∧
    (zipMerge cap us ls).length ≤ cap ∧
    ((zipMerge cap us ls).map (·.1)).Nodup := by
  refine ⟨?_, ?_, ?_, ?_⟩
  · intro r hr
    have h1 := (sortByDist_perm _).mem_iff.mp (List.mem_of_mem_take hr)
    have h2 := (dedupIdx_sub _).subset h1
    have h3 := (sortByIdx_perm _).mem_iff.mp h2
    exact zipPick_mem us ls r h3
  · exact (sortByDist_sorted _).sublist (List.take_sublist _ _)
  · simp only [zipMerge, List.length_take]; omega
  · exact (zipMergeAll_nodup us ls).sublist ((List.take_sublist cap _).map _)

/-- When the two streams are the same (the query is already lower-case) and list each word once
in index order, the merge is the identity: the result is the stream sorted by distance, capped. -/
theorem zipMerge_complete (cap : Nat) (us : List (Nat × Nat))
    (h : us.Pairwise (fun a b => a.1 < b.1)) :
    zipMerge cap us us = (sortByDist us).take cap := by
  unfold zipMerge zipMergeAll
  rw [zipPick_self, sortByIdx_of_sorted us (h.imp (fun h => by omega)), dedupIdx_of_strict us h]

/-- With the specified streams: every result is a word of the dictionary within the bound whose
reported distance is its true distance to the query *or* to the lower-cased query (not
necessarily the smaller: the zip pairs stream positions, not words — see the example below). -/
theorem fst_fuzzy_sound (bound cap : Nat) (q sql : List Char) (ws : List (Nat × List Char)) :
    ∀ r ∈ fstFuzzy bound cap q sql ws,
      ∃ w, (r.1, w) ∈ ws ∧ (r.2 = lev q w ∨ r.2 = lev sql w) ∧ r.2 ≤ bound := by
  intro r hr
  rcases (zipMerge_sound cap _ _).1 r hr with h | h
  · obtain ⟨w, hw, hd, hb⟩ := (mem_fstStream bound q ws r).mp h
    exact ⟨w, hw, .inl hd, hb⟩
  · obtain ⟨w, hw, hd, hb⟩ := (mem_fstStream bound sql ws r).mp h
    exact ⟨w, hw, .inr hd, hb⟩

/-- With the specified streams and a lower-case query: if the cap is not smaller than the number
of words within the bound, every such word (the empty word included — this back-end has no
length window) is returned with its true distance. `ws` lists the words with increasing indices,
as `FstDictionary::new` builds them (sorted, deduplicated). -/
theorem fst_fuzzy_complete_lower (bound cap : Nat) (q : List Char) (ws : List (Nat × List Char))
    (hidx : (ws.map (·.1)).Pairwise (· < ·))
    (hcap : (ws.filter (fun iw => decide (lev q iw.2 ≤ bound))).length ≤ cap) :
    ∀ i w, (i, w) ∈ ws → lev q w ≤ bound → (i, lev q w) ∈ fstFuzzy bound cap q q ws := by
  intro i w hiw hd
  have hstrict : (fstStream bound q ws).Pairwise (fun a b => a.1 < b.1) := by
    have := hidx.sublist (fstStream_fst_sublist bound q ws)
    rwa [List.pairwise_map] at this
  unfold fstFuzzy
  rw [zipMerge_complete cap _ hstrict]
  have hlen : (fstStream bound q ws).length ≤ cap := by
    rw [fstStream_eq]; simpa using hcap
  rw [List.take_of_length_le (by rw [(sortByDist_perm _).length_eq]; exact hlen)]
  apply (sortByDist_perm _).mem_iff.mpr
  exact (mem_fstStream bound q ws (i, lev q w)).mpr ⟨w, hiw, rfl, hd⟩

/-! ## Word map and merged dictionary -/

/-- `WordMap::insert` then lookup: the inserted entry is found under its key (replacing an
earlier entry with the same lower-cased spelling), every other key is unaffected. -/
theorem insert_lookup (e : DictEntry) (d : Dict) (k : List Char) :
    (Dict.insert e d).lookup k = if e.key = k then some e else d.lookup k :=
  Dict.lookup_insert e d k

/-- A merged dictionary is the union of its parts, first child first:
* membership: some child contains the word;
* exact capitalisation: some child contains exactly that spelling;
* canonical spelling and metadata: those of the first child that knows the word — the same as
  looking the key up in the concatenation of the children's word lists;
* nothing is found iff no child knows the word. -/
theorem merged_is_union (ds : Merged) (nq kq : List Char) :
    (Merged.containsWord ds kq = true ↔ ∃ d ∈ ds, d.containsWord kq = true) ∧
    (Merged.containsExact ds nq kq = true ↔ ∃ d ∈ ds, d.containsExact nq kq = true) ∧
    Merged.canonical ds kq = Dict.canonical ds.flatten kq ∧
    Merged.metadata ds kq = Dict.metadata ds.flatten kq ∧
    (Merged.containsWord ds kq = (Merged.lookup ds kq).isSome) ∧
    (∀ pre d post, ds = pre ++ d :: post → (∀ p ∈ pre, p.containsWord kq = false) →
        d.containsWord kq = true →
        Merged.canonical ds kq = d.canonical kq ∧ Merged.metadata ds kq = d.metadata kq) := by
  refine ⟨by simp [Merged.containsWord], by simp [Merged.containsExact], ?_, ?_, ?_, ?_⟩
  · simp [Merged.canonical, Dict.canonical, Merged.lookup_eq_flatten]
  · simp [Merged.metadata, Dict.metadata, Merged.lookup_eq_flatten]
  · induction ds with
    | nil => simp [Merged.containsWord, Merged.lookup]
    | cons d ds ih =>
      simp only [Merged.containsWord, Merged.lookup, List.any_cons, List.findSome?_cons,
        Dict.containsWord] at ih ⊢
      cases h : d.lookup kq with
      | none => simpa using ih
      | some e => simp
  · rintro pre d post rfl hpre hd
    have hpre' : ∀ p ∈ pre, p.lookup kq = none := by
      intro p hp
      have := hpre p hp
      simpa [Dict.containsWord] using this
    have := Merged.lookup_first pre d post kq hpre' (by simpa [Dict.containsWord] using hd)
    simp [Merged.canonical, Merged.metadata, Dict.canonical, Dict.metadata, this]

/-- A merged dictionary's fuzzy search (children searched with the same bound and cap, results
concatenated, stably sorted, capped): every result is a word of some child with the smaller of
its two true distances, within the bound; results are ordered by distance; at most `cap`.
(A word listed by two children can be returned twice — see the example below.) -/
theorem merged_fuzzy_sound (m : Arith) (bound cap : Nat) (q ql : List Char) (ds : Merged)
    (hq : m = .nat ∨ (q.length + bound ≤ 254 ∧ ql.length ≤ 254)) :
    ∃ res, Merged.fuzzyMatch m bound cap q ql ds = .ok res ∧
      (∀ r ∈ res, ∃ d ∈ ds, ∃ e ∈ d, e.word = r.1 ∧
        r.2 = min (lev q r.1) (lev ql r.1) ∧ r.2 ≤ bound) ∧
      res.Pairwise (fun a b => a.2 ≤ b.2) ∧
      res.length ≤ cap := by
  have hflat : ∀ ds : List Dict, ∃ l, Merged.fuzzyFlat m bound cap q ql ds = .ok l ∧
      ∀ r ∈ l, ∃ d ∈ ds, ∃ e ∈ d, e.word = r.1 ∧
        r.2 = min (lev q r.1) (lev ql r.1) ∧ r.2 ≤ bound := by
    intro ds
    induction ds with
    | nil => exact ⟨[], rfl, by simp⟩
    | cons d ds ih =>
      obtain ⟨l, hl, hl'⟩ := ih
      obtain ⟨r1, hr1, hs, _, _, _⟩ := fuzzy_sound m bound cap q ql d.tagged hq
      refine ⟨r1 ++ l, by simp [Merged.fuzzyFlat, hr1, hl], ?_⟩
      intro r hr
      rcases List.mem_append.mp hr with h | h
      · obtain ⟨w, hw, hd, hb⟩ := hs r h
        simp only [Dict.tagged, List.mem_map] at hw
        obtain ⟨e, he, hee⟩ := hw
        have h1 : e.word = r.1 := (Prod.mk.inj hee).1
        have h2 : e.word = w := (Prod.mk.inj hee).2
        refine ⟨d, List.mem_cons_self, e, he, h1, ?_, hb⟩
        rw [← h1, h2]; exact hd
      · obtain ⟨d', hd', rest⟩ := hl' r h
        exact ⟨d', List.mem_cons_of_mem _ hd', rest⟩
  obtain ⟨l, hl, hl'⟩ := hflat ds
  refine ⟨(sortByDist l).take cap, by simp [Merged.fuzzyMatch, hl], ?_, ?_, ?_⟩
  · intro r hr
    exact hl' r ((sortByDist_perm l).mem_iff.mp (List.mem_of_mem_take hr))
  · exact (sortByDist_sorted _).sublist (List.take_sublist _ _)
  · simp only [List.length_take]; omega

/-! ## Non-vacuity and witnesses (concrete, kernel-evaluated) -/

/-- the model on the repository's own test vectors -/
example : editDistance .checked "kitten".toList "sitting".toList = .ok 3 := by decide
example : editDistance .checked "saturday".toList "sunday".toList = .ok 3 := by decide

/-- `lev` itself on a concrete pair, through `wagnerFischer_eq_lev` + `lev_reverse` -/
example : lev "kitten".toList "sitting".toList = 3 := lev_of_editDistance (by decide)

-- the hypotheses of `u8_rows_exact` are satisfiable at the boundary, and the bound is sharp:
-- 255 characters against one character overflows a cell in the dev profile, …
set_option maxRecDepth 20000 in
example : editDistance .checked (List.replicate 254 0) [1] = .ok 254 := by decide
set_option maxRecDepth 20000 in
example : editDistance .checked (List.replicate 255 0) [1] = .error .overflow := by decide
-- … is fine against the empty string, …
set_option maxRecDepth 20000 in
example : editDistance .checked (List.replicate 255 0) ([] : List Nat) = .ok 255 := by decide
-- … 256 characters fail the dev profile's assertion and index out of bounds in the release
-- profile (`previous_row` has `256 as u8 + 1 = 1` cell), and in the release profile 255 characters
-- silently give a wrong distance.
set_option maxRecDepth 20000 in
example : editDistance .checked (List.replicate 256 0) ([] : List Nat) = .error .assertFail := by decide
set_option maxRecDepth 20000 in
example : editDistance .wrapping (List.replicate 256 0) ([] : List Nat) = .error .sliceOOB := by decide
set_option maxRecDepth 20000 in
example : editDistance .wrapping (List.replicate 255 0) [1] = .ok 0 := by decide

/-- a non-trivial search: window, both distances, ties in input order, cap -/
example : fuzzyMatch .checked 1 3 "Ab".toList "ab".toList
    [(0, "ab".toList), (1, "b".toList), (2, "abc".toList), (3, "".toList), (4, "ba".toList),
     (5, "Ab".toList), (6, "abcd".toList)]
    = .ok [(0, 0), (5, 0), (1, 1)] := by decide

/-- the hypotheses of `fuzzy_sound` / `fuzzy_complete` hold for that search with a larger cap -/
example : ("Ab".toList.length + 1 ≤ 254 ∧ "ab".toList.length ≤ 254) := by decide

/-- the empty word is never returned (the window starts at length 1) although it is within the
bound: why `fuzzy_complete` speaks of non-empty words -/
example : fuzzyMatch .checked 1 5 "a".toList "a".toList [(0, "".toList), (1, "a".toList)]
    = .ok [(1, 0)] := by decide
example : lev "a".toList "".toList = 1 := lev_of_editDistance (by decide)

/-- a query whose lower-case form is longer (`İ` → `i̇`): a word equal to the lower-cased query is
outside the window of the original query and is missed — why the second disjunct of
`fuzzy_complete` needs equal lengths -/
example : fuzzyMatch .checked 0 5 [Char.ofNat 304] [Char.ofNat 105, Char.ofNat 775]
    [(0, [Char.ofNat 105, Char.ofNat 775])] = .ok [] := by decide

/-- the FST back-end with a query that is not lower-case: the streams for `Ba` and `ba` over
`Ba, a, b, ba` have different lengths and are paired by position, so `b` (at distance 1 of the
lower-cased query) is missed and `ba` is reported at distance 1 although it *is* the lower-cased
query — sound in the sense of `fst_fuzzy_sound`, neither complete nor minimal -/
example : fstFuzzy 1 5 "Ba".toList "ba".toList
    [(0, "Ba".toList), (1, "a".toList), (2, "b".toList), (3, "ba".toList)]
    = [(0, 0), (1, 1), (3, 1)] := by decide

/-- the hypotheses of `fst_fuzzy_complete_lower` are satisfiable, and then nothing is missed -/
example : fstFuzzy 1 5 "ba".toList "ba".toList
    [(0, "Ba".toList), (1, "a".toList), (2, "b".toList), (3, "ba".toList)]
    = [(3, 0), (0, 1), (1, 1), (2, 1)] := by decide
example : ([(0, "Ba".toList), (1, "a".toList), (2, "b".toList), (3, "ba".toList)].map
    (·.1)).Pairwise (· < ·) := by decide

/-- merged dictionary: first child wins for canonical spelling / metadata, any child for the
exact spelling -/
example :
    let c1 : Dict := [⟨"Hello".toList, "hello".toList, 1⟩]
    let c2 : Dict := [⟨"hello".toList, "hello".toList, 2⟩, ⟨"b".toList, "b".toList, 3⟩]
    Merged.canonical [c1, c2] "hello".toList = some "Hello".toList ∧
    Merged.metadata [c1, c2] "hello".toList = some 1 ∧
    Merged.containsExact [c1, c2] "hello".toList "hello".toList = true ∧
    Merged.containsExact [c1, c2] "HELLO".toList "hello".toList = false ∧
    Merged.containsWord [c1, c2] "hello".toList = true ∧
    Merged.metadata [c1, c2] "b".toList = some 3 ∧
    Merged.containsWord [c1, c2] "c".toList = false := by decide

/-- a word known to two children is listed twice, and can push a different word out of the cap -/
example :
    Merged.fuzzyMatch .checked 1 2 "ab".toList "ab".toList
      [[⟨"ab".toList, "ab".toList, 0⟩], [⟨"ab".toList, "ab".toList, 1⟩, ⟨"abc".toList, "abc".toList, 2⟩]]
    = .ok [("ab".toList, 0), ("ab".toList, 0)] := by decide

/-- `a` then `A`: one entry, the later spelling -/
example : (Dict.ofList [⟨['a'], ['a'], 0⟩, ⟨['A'], ['a'], 1⟩]).words = [['A']] := by decide

/-! ## w22: joint witnesses of the hypotheses (theorems applied to concrete values) -/

/-- non-vacuity of `u8_rows_exact`: two 200-character strings (inside the bound), both profiles,
and two 254-character strings (at the bound) -/
example : editDistance .checked (List.replicate 200 'a') (List.replicate 200 'b')
      = .ok (lev (List.replicate 200 'a') (List.replicate 200 'b')) ∧
    editDistance .wrapping (List.replicate 254 'a') (List.replicate 254 'b')
      = .ok (lev (List.replicate 254 'a') (List.replicate 254 'b')) :=
  ⟨u8_rows_exact .checked _ _ (by rw [List.length_replicate]; omega) (by rw [List.length_replicate]; omega),
   u8_rows_exact .wrapping _ _ (by rw [List.length_replicate]; omega) (by rw [List.length_replicate]; omega)⟩

/-- … and outside: two 256-character strings have no value in the dev profile, two 255-character
strings neither (`u8_checked_ok_iff`, left to right) -/
example : (¬ ∃ n, editDistance .checked (List.replicate 256 'a') (List.replicate 256 'b') = .ok n) ∧
    (¬ ∃ n, editDistance .checked (List.replicate 255 'a') (List.replicate 255 'b') = .ok n) := by
  constructor <;> intro h <;>
    rcases (u8_checked_ok_iff _ _).mp h with ⟨h1, _⟩ | ⟨h1, _⟩ | ⟨h1, _⟩ <;>
    first
    | (rw [List.length_replicate] at h1; omega)
    | (have := congrArg List.length h1; rw [List.length_replicate] at this; cases this)

/-- non-vacuity of `u8_checked_value` (hypothesis `… = .ok n` on the repository's test vector) -/
example : (3 : Nat) = lev "kitten".toList "sitting".toList :=
  u8_checked_value "kitten".toList "sitting".toList 3 (by decide)

/-- non-vacuity of `fuzzy_sound`: the theorem applied to the seven-word search above -/
example : ∃ res, fuzzyMatch .checked 1 3 "Ab".toList "ab".toList
      [(0, "ab".toList), (1, "b".toList), (2, "abc".toList), (3, "".toList), (4, "ba".toList),
       (5, "Ab".toList), (6, "abcd".toList)] = .ok res ∧ res.length ≤ 3 :=
  let ⟨res, h, _, _, hl, _⟩ := fuzzy_sound .checked 1 3 "Ab".toList "ab".toList
    [(0, "ab".toList), (1, "b".toList), (2, "abc".toList), (3, "".toList), (4, "ba".toList),
     (5, "Ab".toList), (6, "abcd".toList)] (.inr (by decide))
  ⟨res, h, hl⟩

/-- non-vacuity of `fuzzy_complete`: both hypotheses together, with a cap (2) SMALLER than the
dictionary (3 words): `abcd` is outside the bound, so two matches fit -/
example : ∃ res, fuzzyMatch .checked 1 2 ['A', 'b'] ['a', 'b']
      [(0, ['a', 'b', 'c', 'd']), (1, ['b']), (2, ['A', 'b'])] = .ok res ∧
      (1, 1) ∈ res ∧ (2, 0) ∈ res := by
  have l1 : lev ['A', 'b'] ['a', 'b', 'c', 'd'] = 3 := lev_of_editDistance (by decide)
  have l2 : lev ['a', 'b'] ['a', 'b', 'c', 'd'] = 2 := lev_of_editDistance (by decide)
  have l3 : lev ['A', 'b'] ['b'] = 1 := lev_of_editDistance (by decide)
  have l4 : lev ['a', 'b'] ['b'] = 1 := lev_of_editDistance (by decide)
  have l5 : lev ['A', 'b'] ['A', 'b'] = 0 := lev_of_editDistance (by decide)
  have l6 : lev ['a', 'b'] ['A', 'b'] = 1 := lev_of_editDistance (by decide)
  obtain ⟨res, h, hc⟩ := fuzzy_complete .checked 1 2 ['A', 'b'] ['a', 'b']
    [(0, ['a', 'b', 'c', 'd']), (1, ['b']), (2, ['A', 'b'])] (.inr (by decide))
    (by simp [List.filter, l1, l2, l3, l4, l5, l6])
  refine ⟨res, h, ?_, ?_⟩
  · have := hc 1 ['b'] (by simp) (by decide) (.inl (by rw [l3]; decide))
    simpa [l3, l4] using this
  · have := hc 2 ['A', 'b'] (by simp) (by decide) (.inl (by rw [l5]; decide))
    simpa [l5, l6] using this

/-- non-vacuity of `fuzzy_complete_lower`: lower-case query, cap 2 < 3 words -/
example : ∃ res, fuzzyMatch .checked 1 2 ['a', 'b'] ['a', 'b']
      [(0, ['a', 'b', 'c', 'd']), (1, ['b']), (2, ['A', 'b'])] = .ok res ∧
      (1, 1) ∈ res ∧ (2, 1) ∈ res := by
  have l2 : lev ['a', 'b'] ['a', 'b', 'c', 'd'] = 2 := lev_of_editDistance (by decide)
  have l4 : lev ['a', 'b'] ['b'] = 1 := lev_of_editDistance (by decide)
  have l6 : lev ['a', 'b'] ['A', 'b'] = 1 := lev_of_editDistance (by decide)
  obtain ⟨res, h, hc⟩ := fuzzy_complete_lower .checked 1 2 ['a', 'b']
    [(0, ['a', 'b', 'c', 'd']), (1, ['b']), (2, ['A', 'b'])] (.inr (by decide))
    (by simp [List.filter, l2, l4, l6])
  refine ⟨res, h, ?_, ?_⟩
  · simpa [l4] using hc 1 ['b'] (by simp) (by decide) (by rw [l4]; decide)
  · simpa [l6] using hc 2 ['A', 'b'] (by simp) (by decide) (by rw [l6]; decide)

/-- non-vacuity of `zipMerge_complete`: a strictly increasing stream -/
example : zipMerge 2 [(0, 1), (2, 0), (5, 1)] [(0, 1), (2, 0), (5, 1)] = [(2, 0), (0, 1)] := by
  rw [zipMerge_complete 2 _ (by decide)]; decide

/-- non-vacuity of `fst_fuzzy_complete_lower`: both hypotheses, cap 3 < 4 words (`ccc` is outside
the bound) -/
example : (0, 1) ∈ fstFuzzy 1 3 ['b', 'a'] ['b', 'a']
      [(0, ['B', 'a']), (1, ['a']), (2, ['b', 'a']), (3, ['c', 'c', 'c'])] := by
  have l0 : lev ['b', 'a'] ['B', 'a'] = 1 := lev_of_editDistance (by decide)
  have l1 : lev ['b', 'a'] ['a'] = 1 := lev_of_editDistance (by decide)
  have l2 : lev ['b', 'a'] ['b', 'a'] = 0 := lev_of_editDistance (by decide)
  have l3 : lev ['b', 'a'] ['c', 'c', 'c'] = 3 := lev_of_editDistance (by decide)
  have := fst_fuzzy_complete_lower 1 3 ['b', 'a']
    [(0, ['B', 'a']), (1, ['a']), (2, ['b', 'a']), (3, ['c', 'c', 'c'])] (by decide)
    (by simp [List.filter, l0, l1, l2, l3]) 0 ['B', 'a'] (by simp) (by rw [l0]; decide)
  simpa [l0] using this

/-- non-vacuity of the last clause of `merged_is_union` (first child that knows the word): `b` is
unknown to the first child and answered by the second -/
example :
    let c1 : Dict := [⟨"Hello".toList, "hello".toList, 1⟩]
    let c2 : Dict := [⟨"hello".toList, "hello".toList, 2⟩, ⟨"b".toList, "b".toList, 3⟩]
    Merged.canonical [c1, c2] "b".toList = c2.canonical "b".toList ∧
      Merged.metadata [c1, c2] "b".toList = c2.metadata "b".toList := by
  intro c1 c2
  exact (merged_is_union [c1, c2] [] "b".toList).2.2.2.2.2 [c1] c2 [] rfl (by decide) (by decide)

/-- non-vacuity of `merged_fuzzy_sound`: applied to the two-child search below -/
example : ∃ res, Merged.fuzzyMatch .checked 1 2 "ab".toList "ab".toList
      [[⟨"ab".toList, "ab".toList, 0⟩], [⟨"ab".toList, "ab".toList, 1⟩, ⟨"abc".toList, "abc".toList, 2⟩]]
      = .ok res ∧ res.length ≤ 2 :=
  let ⟨res, h, _, _, hl⟩ := merged_fuzzy_sound .checked 1 2 "ab".toList "ab".toList
    [[⟨"ab".toList, "ab".toList, 0⟩], [⟨"ab".toList, "ab".toList, 1⟩, ⟨"abc".toList, "abc".toList, 2⟩]]
    (.inr (by decide))
  ⟨res, h, hl⟩

/-! ## w22: back-ends agree on one dictionary; completeness under any cap -/

/-- **Back-ends agree (merged over one dictionary).** A merged dictionary with a single child answers
membership, exact-capitalisation, canonical-spelling and metadata queries exactly as that child,
for every query. (`FstDictionary` answers these four queries by delegating to the
`MutableDictionary` it is built around — `fst_dictionary.rs:115–210` — so there is nothing to model
for the FST back-end beyond `fstFuzzy`; the agreement FST = mutable is a correspondence-run check.) -/
theorem merged_singleton_agrees (d : Dict) (nq kq : List Char) :
    Merged.containsWord [d] kq = d.containsWord kq ∧
    Merged.containsExact [d] nq kq = d.containsExact nq kq ∧
    Merged.canonical [d] kq = d.canonical kq ∧
    Merged.metadata [d] kq = d.metadata kq := by
  have h := merged_is_union [d] nq kq
  refine ⟨by simp [Merged.containsWord], by simp [Merged.containsExact], ?_, ?_⟩
  · rw [h.2.2.1]; simp
  · rw [h.2.2.2.1]; simp

/-- … whereas a merged dictionary and ONE mutable dictionary holding the same words need not agree on
the canonical spelling when two children list case variants: merged = first child wins,
`extend_words` = last insert wins (membership agrees). -/
example :
    Merged.canonical [[⟨['A'], ['a'], 0⟩], [⟨['a'], ['a'], 1⟩]] ['a'] = some ['A'] ∧
    Dict.canonical (Dict.ofList [⟨['A'], ['a'], 0⟩, ⟨['a'], ['a'], 1⟩]) ['a'] = some ['a'] ∧
    Merged.containsWord [[⟨['A'], ['a'], 0⟩], [⟨['a'], ['a'], 1⟩]] ['a']
      = Dict.containsWord (Dict.ofList [⟨['A'], ['a'], 0⟩, ⟨['a'], ['a'], 1⟩]) ['a'] := by decide

/-- **Completeness under any cap.** Without the hypothesis `hcap` of `fuzzy_complete`: a non-empty
dictionary word within the bound is either returned, or the result is full (`cap` entries) and every
returned entry is at least as close as the missed word — the cap only ever cuts off the far end. -/
theorem fuzzy_complete_capped {β : Type} (m : Arith) (bound cap : Nat) (q ql : List Char)
    (ws : List (β × List Char))
    (hq : m = .nat ∨ (q.length + bound ≤ 254 ∧ ql.length ≤ 254)) :
    ∃ res, fuzzyMatch m bound cap q ql ws = .ok res ∧
      ∀ x w, (x, w) ∈ ws → w ≠ [] →
        (lev q w ≤ bound ∨ (ql.length = q.length ∧ lev ql w ≤ bound)) →
        (x, min (lev q w) (lev ql w)) ∈ res ∨
          (res.length = cap ∧ ∀ r ∈ res, r.2 ≤ min (lev q w) (lev ql w)) := by
  have hrun : fuzzyMatch m bound cap q ql ws
      = .ok ((sortByDist (ws.filterMap (fuzzyPick bound q ql))).take cap) := by
    simp only [fuzzyMatch, fuzzyAll, fuzzyScan_eq m bound q ql ws hq]
  refine ⟨_, hrun, ?_⟩
  intro x w hxw hw hd
  generalize hl : sortByDist (ws.filterMap (fuzzyPick bound q ql)) = l
  have hmem : (x, min (lev q w) (lev ql w)) ∈ l := by
    rw [← hl]
    apply (sortByDist_perm _).mem_iff.mpr
    apply List.mem_filterMap.mpr
    refine ⟨(x, w), hxw, ?_⟩
    have hwin : inWindow q.length bound w.length = true := by
      rcases hd with h | ⟨hl, h⟩
      · exact inWindow_of_lev_le q w bound hw h
      · rw [← hl]; exact inWindow_of_lev_le ql w bound hw h
    have hmin : min (lev q w) (lev ql w) ≤ bound := by omega
    simp [fuzzyPick, hwin, hmin]
  have hsorted : l.Pairwise (fun a b => a.2 ≤ b.2) := by rw [← hl]; exact sortByDist_sorted _
  rw [← List.take_append_drop cap l] at hmem hsorted
  rcases List.mem_append.mp hmem with h | h
  · exact .inl h
  · right
    have hlen : cap < l.length := by
      have := List.length_pos_of_mem h
      simp only [List.length_drop] at this
      omega
    refine ⟨by simp only [List.length_take]; omega, fun r hr => ?_⟩
    exact (List.pairwise_append.mp hsorted).2.2 r hr _ h

/-- non-vacuity of `fuzzy_complete_capped`, second alternative: cap 1, two words within the bound —
`b` (distance 1) is missed, the result is full and its only entry is closer (distance 0) -/
example : fuzzyMatch .checked 1 1 ['a', 'b'] ['a', 'b'] [(0, ['b']), (1, ['a', 'b'])]
    = .ok [(1, 0)] := by decide

/-! ### w26 — completeness of the MERGED fuzzy search (audit w22 §4 C15 (b): "not stated")

The audit expected it to be false "in general: children's own caps". It is false only in the sense in which
`fuzzy_complete` is: the cap must cover the candidates. With the cap at least the number of words within the bound
over ALL children, no child's cap and not the final `take` cut anything. -/

/-- the candidates of a merged dictionary within the bound, children concatenated -/
def mergedNear (bound : Nat) (q ql : List Char) (ds : Merged) : List (List Char × List Char) :=
  ds.flatMap fun d => d.tagged.filter (fun xw => decide (min (lev q xw.2) (lev ql xw.2) ≤ bound))

/-- Completeness of `MergedDictionary::fuzzy_match`: when the cap is not smaller than the number of words within the
bound in all children together, every non-empty word of every child within the bound of the query (or of the
lower-cased query, if lower-casing kept its length) is returned with its true (smaller) distance. -/
theorem merged_fuzzy_complete (m : Arith) (bound cap : Nat) (q ql : List Char) (ds : Merged)
    (hq : m = .nat ∨ (q.length + bound ≤ 254 ∧ ql.length ≤ 254))
    (hcap : (mergedNear bound q ql ds).length ≤ cap) :
    ∃ res, Merged.fuzzyMatch m bound cap q ql ds = .ok res ∧
      ∀ d ∈ ds, ∀ e ∈ d, e.word ≠ [] →
        (lev q e.word ≤ bound ∨ (ql.length = q.length ∧ lev ql e.word ≤ bound)) →
        (e.word, min (lev q e.word) (lev ql e.word)) ∈ res := by
  have hflat : ∀ ds : List Dict, (mergedNear bound q ql ds).length ≤ cap →
      ∃ l, Merged.fuzzyFlat m bound cap q ql ds = .ok l ∧ l.length ≤ (mergedNear bound q ql ds).length ∧
        ∀ d ∈ ds, ∀ e ∈ d, e.word ≠ [] →
          (lev q e.word ≤ bound ∨ (ql.length = q.length ∧ lev ql e.word ≤ bound)) →
          (e.word, min (lev q e.word) (lev ql e.word)) ∈ l := by
    intro ds
    induction ds with
    | nil => intro _; exact ⟨[], rfl, by simp [mergedNear], by simp⟩
    | cons d ds ih =>
      intro hc
      have hsplit : (mergedNear bound q ql (d :: ds)).length =
          (d.tagged.filter (fun xw => decide (min (lev q xw.2) (lev ql xw.2) ≤ bound))).length +
            (mergedNear bound q ql ds).length := by
        simp [mergedNear]
      obtain ⟨l, hl, hlen, hl'⟩ := ih (by omega)
      obtain ⟨r1, hr1, hc1⟩ := fuzzy_complete m bound cap q ql d.tagged hq (by omega)
      obtain ⟨r1', hr1', _, _, _, hsub⟩ := fuzzy_sound m bound cap q ql d.tagged hq
      rw [hr1] at hr1'; cases hr1'
      have hr1len : r1.length ≤
          (d.tagged.filter (fun xw => decide (min (lev q xw.2) (lev ql xw.2) ≤ bound))).length := by
        have hrun : fuzzyMatch m bound cap q ql d.tagged
            = .ok ((sortByDist (d.tagged.filterMap (fuzzyPick bound q ql))).take cap) := by
          simp only [fuzzyMatch, fuzzyAll, fuzzyScan_eq m bound q ql d.tagged hq]
        rw [hrun] at hr1; cases hr1
        have h1 := length_filterMap_fuzzyPick_le bound q ql d.tagged
        have h2 := (sortByDist_perm (d.tagged.filterMap (fuzzyPick bound q ql))).length_eq
        simp only [List.length_take]
        omega
      refine ⟨r1 ++ l, by simp [Merged.fuzzyFlat, hr1, hl], by simp only [List.length_append]; omega, ?_⟩
      intro d' hd' e he hne hnear
      rcases List.mem_cons.mp hd' with rfl | hd'
      · exact List.mem_append_left _ (hc1 e.word e.word (by
          simp only [Dict.tagged, List.mem_map]; exact ⟨e, he, rfl⟩) hne hnear)
      · exact List.mem_append_right _ (hl' d' hd' e he hne hnear)
  obtain ⟨l, hl, hlen, hmem⟩ := hflat ds hcap
  refine ⟨(sortByDist l).take cap, by simp [Merged.fuzzyMatch, hl], ?_⟩
  intro d hd e he hne hnear
  rw [List.take_of_length_le (by rw [(sortByDist_perm l).length_eq]; omega)]
  exact (sortByDist_perm l).mem_iff.mpr (hmem d hd e he hne hnear)

/-- a cap of at least the total number of entries always satisfies `hcap` -/
theorem mergedNear_length_le (bound : Nat) (q ql : List Char) (ds : Merged) :
    (mergedNear bound q ql ds).length ≤ (ds.map List.length).sum := by
  induction ds with
  | nil => simp [mergedNear]
  | cons d ds ih =>
    have h1 := List.length_filter_le (fun xw : List Char × List Char =>
      decide (min (lev q xw.2) (lev ql xw.2) ≤ bound)) d.tagged
    have h2 : d.tagged.length = d.length := by simp [Dict.tagged]
    have hsplit : (mergedNear bound q ql (d :: ds)).length =
        (d.tagged.filter (fun xw => decide (min (lev q xw.2) (lev ql xw.2) ≤ bound))).length +
          (mergedNear bound q ql ds).length := by
      simp [mergedNear]
    simp only [List.map_cons, List.sum_cons]
    omega

/-- non-vacuity: two children with four entries, three of them within distance 1 of `cat` (`cat` is listed by both);
the theorem applied with cap 4, and the result computed -/
def twoDicts : Merged :=
  [[⟨['c','a','t'], ['c','a','t'], 0⟩, ⟨['d','o','g'], ['d','o','g'], 0⟩],
   [⟨['c','a','r'], ['c','a','r'], 0⟩, ⟨['c','a','t'], ['c','a','t'], 0⟩]]

example : ∃ res, Merged.fuzzyMatch .checked 1 4 ['c','a','t'] ['c','a','t'] twoDicts = .ok res ∧
    ∀ d ∈ twoDicts, ∀ e ∈ d, e.word ≠ [] →
      (lev ['c','a','t'] e.word ≤ 1 ∨ ((['c','a','t'] : List Char).length = (['c','a','t'] : List Char).length ∧
        lev ['c','a','t'] e.word ≤ 1)) →
      (e.word, min (lev ['c','a','t'] e.word) (lev ['c','a','t'] e.word)) ∈ res :=
  merged_fuzzy_complete .checked 1 4 _ _ twoDicts (Or.inr (by decide))
    (Nat.le_trans (mergedNear_length_le _ _ _ _) (by decide))

example : Merged.fuzzyMatch .checked 1 4 ['c','a','t'] ['c','a','t'] twoDicts
    = .ok [(['c','a','t'], 0), (['c','a','t'], 0), (['c','a','r'], 1)] := by decide

/-- the cap hypothesis counts a word once PER CHILD listing it: with cap 2 (the number of DIFFERENT words within the
bound) the duplicate `cat` of the second child pushes `car` out — `MergedDictionary::fuzzy_match` does not deduplicate -/
example : Merged.fuzzyMatch .checked 1 2 ['c','a','t'] ['c','a','t'] twoDicts
    = .ok [(['c','a','t'], 0), (['c','a','t'], 0)] := by decide

end Harper.C15
