import Harper.Lemmas.Suggestion
/-!
# C03 — every lint points into the text; every suggestion is a well-defined local edit

Property theorems only; helper lemmas are in `Harper/Lemmas/Suggestion.lean`.
The model (`Harper/Model/Suggestion.lean`) is `Suggestion::apply` branch by branch
(`span.len()` with overflow checks, in-place overwrite loop, `split_off`/`extend`/`skip`,
shifting loop + `truncate`) and the `pull_by`/`push_by` arithmetic of the chunk cache of
`LintGroup::lint`. All theorems are for an arbitrary element type `α`.

What is *proved* here is the primitive (every suggestion on an in-range span is the splice
`take start ++ new ++ drop end`, and exactly which out-of-range spans panic) and the rebasing
(spans built by `TokenStringExt::span` from tokens of a chunk survive the cache at any offset).
That every rule builds its span inside the text is *explored* by the harness on real lints, not
proved.
-/
namespace Harper.C03
open Harper

variable {α : Type}

/-! ### The three branches on a span that points into the text -/

/-- `ReplaceWith` substitutes exactly the flagged characters (both the in-place branch for equal
lengths and the `split_off` branch). -/
theorem apply_replace (src r : List α) (sp : Span)
    (h1 : sp.start ≤ sp.stop) (h2 : sp.stop ≤ src.length) :
    (Suggestion.replaceWith r).apply sp src
      = .ok (src.take sp.start ++ r ++ src.drop sp.stop) := by
  have hnot : ¬ sp.start > sp.stop := by omega
  simp only [Suggestion.apply, Span.lenChecked, hnot, if_false]
  split
  · rename_i hlen
    rw [overwriteLoop_ok sp.start r 0 src (by omega)]
    have : 0 + sp.start + r.length = sp.stop := by omega
    rw [this, Nat.zero_add]
  · have hs : ¬ sp.start > src.length := by omega
    simp only [Vec.splitOff, hs, if_false, List.drop_drop]
    have : sp.start + (sp.stop - sp.start) = sp.stop := by omega
    rw [this]

/-- `InsertAfter` adds text right after the flagged characters, which stay. -/
theorem apply_insertAfter (src r : List α) (sp : Span)
    (h1 : sp.start ≤ sp.stop) (h2 : sp.stop ≤ src.length) :
    (Suggestion.insertAfter r).apply sp src
      = .ok (src.take sp.start ++ ((src.drop sp.start).take (sp.stop - sp.start) ++ r)
              ++ src.drop sp.stop) := by
  have hs : ¬ sp.stop > src.length := by omega
  simp only [Suggestion.apply, Vec.splitOff, hs, if_false]
  rw [← take_append_flagged src h1]
  simp [List.append_assoc]

/-- `Remove` deletes exactly the flagged characters (index-shifting loop, then `truncate`). -/
theorem apply_remove (src : List α) (sp : Span)
    (h1 : sp.start ≤ sp.stop) (h2 : sp.stop ≤ src.length) :
    (Suggestion.remove : Suggestion α).apply sp src
      = .ok (src.take sp.start ++ [] ++ src.drop sp.stop) := by
  have hnot : ¬ sp.start > sp.stop := by omega
  simp only [Suggestion.apply]
  rw [shiftLoop_ok sp h1 (src.length - sp.stop) sp.stop src (Nat.le_refl _) (by omega)]
  have hlen : (List.take (sp.stop - (sp.stop - sp.start)) src
      ++ List.take (src.length - sp.stop) (List.drop sp.stop src)
      ++ List.drop (sp.stop - (sp.stop - sp.start) + (src.length - sp.stop)) src).length
      = src.length := by
    simp only [List.length_append, List.length_take, List.length_drop]; omega
  have hsub : ¬ sp.stop - sp.start > src.length := by omega
  simp only [Span.lenChecked, hnot, if_false, Vec.checkedSub, hlen, hsub]
  have e1 : sp.stop - (sp.stop - sp.start) = sp.start := by omega
  have e2 : List.take (src.length - sp.stop) (List.drop sp.stop src) = List.drop sp.stop src :=
    List.take_of_length_le (by simp)
  rw [e1, e2, List.append_nil]
  have e3 : src.length - (sp.stop - sp.start)
      = (List.take sp.start src ++ List.drop sp.stop src).length := by
    simp only [List.length_append, List.length_take, List.length_drop]; omega
  rw [e3, List.take_left' rfl]

/-- All three at once: a suggestion on a span that points into the text is the splice that puts
`newText` (replacement / flagged text ++ inserted / nothing) in place of the flagged text. -/
theorem apply_spec (sug : Suggestion α) (src : List α) (sp : Span)
    (h1 : sp.start ≤ sp.stop) (h2 : sp.stop ≤ src.length) :
    sug.apply sp src
      = .ok (src.take sp.start
              ++ sug.newText ((src.drop sp.start).take (sp.stop - sp.start))
              ++ src.drop sp.stop) := by
  cases sug with
  | replaceWith r => exact apply_replace src r sp h1 h2
  | insertAfter r => exact apply_insertAfter src r sp h1 h2
  | remove => exact apply_remove src sp h1 h2

/-- in particular applying a suggestion to a lint that points into the text never panics -/
theorem apply_succeeds (sug : Suggestion α) (src : List α) (sp : Span)
    (h1 : sp.start ≤ sp.stop) (h2 : sp.stop ≤ src.length) : ∃ out, sug.apply sp src = .ok out :=
  ⟨_, apply_spec sug src sp h1 h2⟩

/-! ### Corollaries: everything before and after the span is preserved -/

theorem apply_prefix_preserved (sug : Suggestion α) (src out : List α) (sp : Span)
    (h1 : sp.start ≤ sp.stop) (h2 : sp.stop ≤ src.length) (h : sug.apply sp src = .ok out) :
    out.take sp.start = src.take sp.start := by
  rw [apply_spec sug src sp h1 h2] at h
  cases h
  rw [List.append_assoc, List.take_left' (by simp; omega)]

/-- the last `src.length - end` characters of the result are the text after the span -/
theorem apply_suffix_preserved (sug : Suggestion α) (src out : List α) (sp : Span)
    (h1 : sp.start ≤ sp.stop) (h2 : sp.stop ≤ src.length) (h : sug.apply sp src = .ok out) :
    out.drop (out.length - (src.length - sp.stop)) = src.drop sp.stop := by
  rw [apply_spec sug src sp h1 h2] at h
  cases h
  apply List.drop_left'
  simp only [List.length_append, List.length_take, List.length_drop]
  omega

theorem apply_length (sug : Suggestion α) (src out : List α) (sp : Span)
    (h1 : sp.start ≤ sp.stop) (h2 : sp.stop ≤ src.length) (h : sug.apply sp src = .ok out) :
    out.length = sp.start
      + (sug.newText ((src.drop sp.start).take (sp.stop - sp.start))).length
      + (src.length - sp.stop) := by
  rw [apply_spec sug src sp h1 h2] at h
  cases h
  simp only [List.length_append, List.length_take, List.length_drop]
  omega

/-- per kind: `|out| = |src| - |flagged| + |r|`, `|src| + |r|`, `|src| - |flagged|` -/
theorem apply_length_kinds (src r : List α) (sp : Span)
    (h1 : sp.start ≤ sp.stop) (h2 : sp.stop ≤ src.length) :
    (∀ out, (Suggestion.replaceWith r).apply sp src = .ok out →
        out.length = src.length - (sp.stop - sp.start) + r.length) ∧
    (∀ out, (Suggestion.insertAfter r).apply sp src = .ok out →
        out.length = src.length + r.length) ∧
    (∀ out, (Suggestion.remove : Suggestion α).apply sp src = .ok out →
        out.length = src.length - (sp.stop - sp.start)) := by
  refine ⟨?_, ?_, ?_⟩ <;> intro out h <;> have := apply_length _ src out sp h1 h2 h <;>
    simp only [Suggestion.newText, List.length_append, List.length_take, List.length_drop,
      List.length_nil] at this <;> omega

/-! ### Which out-of-range spans the code rejects (`apply_panics_iff`, one theorem per branch) -/

/-- `ReplaceWith` panics exactly when `start > end` (in `span.len()`), or, replacement and span
having equal non-zero length, when `end > len` (index out of bounds), or, the lengths being
different, when `start > len` (`split_off`). In every other case — including an empty replacement
at an empty span anywhere, and `end > len` with different lengths — it returns the splice. -/
theorem apply_replace_panics_iff (src r : List α) (sp : Span) :
    (∃ p, (Suggestion.replaceWith r).apply sp src = .error p) ↔
      (sp.start > sp.stop
        ∨ (r.length = sp.stop - sp.start ∧ r ≠ [] ∧ sp.stop > src.length)
        ∨ (r.length ≠ sp.stop - sp.start ∧ sp.start > src.length)) := by
  by_cases hbad : sp.start > sp.stop
  · simp [Suggestion.apply, Span.lenChecked, hbad]
  · simp only [Suggestion.apply, Span.lenChecked, hbad, if_false, false_or]
    by_cases hlen : r.length = sp.stop - sp.start
    · simp only [hlen, if_true, ne_eq, not_true, false_and, or_false, true_and]
      by_cases hne : r = []
      · subst hne; simp [overwriteLoop]
      · by_cases hb : sp.stop > src.length
        · simp only [hne, not_false_eq_true, hb, and_self, iff_true]
          exact overwriteLoop_err sp.start r 0 src hne (by omega)
        · rw [overwriteLoop_ok sp.start r 0 src (by omega)]
          simp [hb]
    · simp only [hlen, if_false, false_and, false_or, ne_eq, not_false_eq_true, true_and]
      by_cases hs : sp.start > src.length <;> simp [Vec.splitOff, hs]

/-- whenever `ReplaceWith` does not panic, its result is the splice (past the end of the text
`drop` is empty) -/
theorem apply_replace_of_no_panic (src r out : List α) (sp : Span)
    (h : (Suggestion.replaceWith r).apply sp src = .ok out) :
    out = src.take sp.start ++ r ++ src.drop sp.stop := by
  by_cases hbad : sp.start > sp.stop
  · simp [Suggestion.apply, Span.lenChecked, hbad] at h
  · simp only [Suggestion.apply, Span.lenChecked, hbad, if_false] at h
    by_cases hlen : r.length = sp.stop - sp.start
    · simp only [hlen, if_true] at h
      by_cases hne : r = []
      · subst hne
        simp only [overwriteLoop] at h
        cases h
        have : sp.stop = sp.start := by simp at hlen; omega
        simp [this]
      · by_cases hb : sp.stop > src.length
        · obtain ⟨p, hp⟩ := overwriteLoop_err sp.start r 0 src hne (by omega)
          rw [hp] at h; cases h
        · rw [overwriteLoop_ok sp.start r 0 src (by omega)] at h
          cases h
          have : 0 + sp.start + r.length = sp.stop := by omega
          rw [this, Nat.zero_add]
    · simp only [hlen, if_false] at h
      by_cases hs : sp.start > src.length
      · simp [Vec.splitOff, hs] at h
      · simp only [Vec.splitOff, hs, if_false, List.drop_drop] at h
        cases h
        have : sp.start + (sp.stop - sp.start) = sp.stop := by omega
        rw [this]

/-- `InsertAfter` panics exactly when `end > len` (`split_off(span.end)`); `start` is never
looked at. -/
theorem apply_insertAfter_panics_iff (src r : List α) (sp : Span) :
    (∃ p, (Suggestion.insertAfter r).apply sp src = .error p) ↔ sp.stop > src.length := by
  by_cases hs : sp.stop > src.length <;> simp [Suggestion.apply, Vec.splitOff, hs]

theorem apply_insertAfter_of_no_panic (src r out : List α) (sp : Span)
    (h : (Suggestion.insertAfter r).apply sp src = .ok out) :
    out = src.take sp.stop ++ r ++ src.drop sp.stop := by
  by_cases hs : sp.stop > src.length
  · simp [Suggestion.apply, Vec.splitOff, hs] at h
  · simp only [Suggestion.apply, Vec.splitOff, hs, if_false] at h
    cases h; rfl

/-- `Remove` panics exactly when `start > end` (in `span.len()`) or the span is longer than the
text (`source.len() - span.len()` underflows). -/
theorem apply_remove_panics_iff (src : List α) (sp : Span) :
    (∃ p, (Suggestion.remove : Suggestion α).apply sp src = .error p) ↔
      (sp.start > sp.stop ∨ sp.stop - sp.start > src.length) := by
  by_cases hbad : sp.start > sp.stop
  · simp only [hbad, true_or, iff_true]
    cases hk : src.length - sp.stop with
    | zero => simp [Suggestion.apply, hk, shiftLoop, Span.lenChecked, hbad]
    | succ k => simp [Suggestion.apply, hk, shiftLoop_err sp hbad]
  · have h1 : sp.start ≤ sp.stop := by omega
    obtain ⟨shifted, hsh, hlen⟩ := shiftLoop_total sp h1 src
    simp only [hbad, false_or, Suggestion.apply, hsh, Span.lenChecked, if_false, Vec.checkedSub,
      hlen]
    by_cases hs : sp.stop - sp.start > src.length <;> simp [hs]

/-- A quirk the model shares with the code: a well-formed span that ends past the end of the
text, but is not longer than the text, does not panic — the loop does not run and `truncate`
cuts `end - start` characters off the END of the text. -/
theorem apply_remove_past_end (src : List α) (sp : Span)
    (h1 : sp.start ≤ sp.stop) (h2 : sp.stop > src.length)
    (h3 : sp.stop - sp.start ≤ src.length) :
    (Suggestion.remove : Suggestion α).apply sp src
      = .ok (src.take (src.length - (sp.stop - sp.start))) := by
  have hnot : ¬ sp.start > sp.stop := by omega
  have hk : src.length - sp.stop = 0 := by omega
  have hs : ¬ sp.stop - sp.start > src.length := by omega
  simp [Suggestion.apply, hk, shiftLoop, Span.lenChecked, hnot, Vec.checkedSub, hs]

/-! ### Rebasing in the chunk cache of `LintGroup::lint` -/

/-- `pull_by` (dev profile) panics exactly when it would go below zero. -/
theorem pullBy_panics_iff (s : Span) (c : Nat) :
    (∃ p, s.pullBy c = .error p) ↔ (c > s.start ∨ c > s.stop) := by
  unfold Span.pullBy
  split <;> simp_all

/-- Storing a span relative to a chunk start that is not after it, and replaying it at the same
chunk start, gives the span back. (`c ≤ s.stop` follows from `c ≤ s.start` for a well-formed
span; `pull_by` subtracts from both fields.) -/
theorem rebase_roundtrip (s : Span) (c : Nat) (h : c ≤ s.start) (h' : c ≤ s.stop) :
    ∃ s', s.pullBy c = .ok s' ∧ s'.pushBy c = s := by
  have hn : ¬ (c > s.start ∨ c > s.stop) := by omega
  refine ⟨⟨s.start - c, s.stop - c⟩, by simp [Span.pullBy, hn], ?_⟩
  cases s
  simp only [Span.pushBy, Span.mk.injEq]
  simp only at h h'
  omega

theorem rebase_roundtrip_wf (s : Span) (c : Nat) (hwf : s.WF) (h : c ≤ s.start) :
    ∃ s', s.pullBy c = .ok s' ∧ s'.pushBy c = s :=
  rebase_roundtrip s c h (Nat.le_trans h hwf)

/-- `TokenStringExt::span` of the tokens of a chunk, when their spans are well formed and in
increasing order, is (first.start, last.end). -/
theorem tokenSpan_first_last (t : Span) (ts : List Span)
    (hwf : ∀ x ∈ t :: ts, x.start ≤ x.stop)
    (hord : (t :: ts).Pairwise (fun a b => a.stop ≤ b.start)) :
    tokenSpan (t :: ts) = some ⟨t.start, ((t :: ts).getLast (by simp)).stop⟩ := by
  rcases tokenSpan_spec (t :: ts) with ⟨h, _⟩ | ⟨_, sp, hs, hmin, hmax, hall⟩
  · cases h
  · rw [hs]
    -- every endpoint lies between first.start and last.stop
    have hlast : ∀ x ∈ t :: ts, x.stop ≤ ((t :: ts).getLast (by simp)).stop := by
      intro x hx
      have hd := List.dropLast_concat_getLast (l := t :: ts) (by simp)
      rw [← hd] at hx hord
      rcases List.mem_append.mp hx with hx | hx
      · have := (List.pairwise_append.mp hord).2.2 x hx _ (List.mem_singleton.mpr rfl)
        have := hwf _ (List.getLast_mem (l := t :: ts) (by simp))
        omega
      · rw [List.mem_singleton.mp hx]; exact Nat.le_refl _
    have hfirst : ∀ x ∈ t :: ts, t.start ≤ x.start := by
      intro x hx
      rcases List.mem_cons.mp hx with rfl | hx
      · exact Nat.le_refl _
      · have := (List.pairwise_cons.mp hord).1 x hx
        have := hwf t List.mem_cons_self
        omega
    have hb : ∀ x ∈ endpoints (t :: ts),
        t.start ≤ x ∧ x ≤ ((t :: ts).getLast (by simp)).stop := by
      intro x hx
      obtain ⟨u, hu, rfl | rfl⟩ := mem_endpoints.mp hx
      · have := hfirst u hu; have := hlast u hu; have := hwf u hu; omega
      · have := hfirst u hu; have := hlast u hu; have := hwf u hu; omega
    have e1 : t.start ∈ endpoints (t :: ts) :=
      mem_endpoints.mpr ⟨t, List.mem_cons_self, Or.inl rfl⟩
    have e2 : ((t :: ts).getLast (by simp)).stop ∈ endpoints (t :: ts) :=
      mem_endpoints.mpr ⟨_, List.getLast_mem _, Or.inr rfl⟩
    have a1 := (hall _ e1).1
    have a2 := (hall _ e2).2
    have b1 := (hb _ hmin).1
    have b2 := (hb _ hmax).2
    cases sp
    simp only [Option.some.injEq, Span.mk.injEq]
    simp only at a1 a2 b1 b2
    omega

/-- A lint whose span is `TokenStringExt::span` of any non-empty selection `sub` of the tokens of
a chunk (in particular a contiguous sub-slice, as `run_on_chunk` hands to `match_to_lint`) lies
within the chunk's span and is well formed. No ordering hypothesis is needed: `span()` is a
min/max over endpoints. -/
theorem tokenSpan_in_chunk (chunk sub : List Span) (cs ls : Span)
    (hsub : ∀ t ∈ sub, t ∈ chunk)
    (hc : tokenSpan chunk = some cs) (hl : tokenSpan sub = some ls) :
    cs.start ≤ ls.start ∧ ls.start ≤ ls.stop ∧ ls.stop ≤ cs.stop := by
  obtain ⟨_, _, _, hcall⟩ := tokenSpan_some hc
  obtain ⟨_, hmin, hmax, hlall⟩ := tokenSpan_some hl
  have hsube : ∀ x ∈ endpoints sub, x ∈ endpoints chunk := by
    intro x hx
    obtain ⟨u, hu, h⟩ := mem_endpoints.mp hx
    exact mem_endpoints.mpr ⟨u, hsub u hu, h⟩
  exact ⟨(hcall _ (hsube _ hmin)).1, (hlall _ hmax).1, (hcall _ (hsube _ hmax)).2⟩

/-- the contiguous case, as in `run_on_chunk`: `chunk[cursor .. cursor + match_len]` -/
theorem tokenSpan_in_chunk_slice (pre sub post : List Span) (cs ls : Span)
    (hc : tokenSpan (pre ++ sub ++ post) = some cs) (hl : tokenSpan sub = some ls) :
    cs.start ≤ ls.start ∧ ls.start ≤ ls.stop ∧ ls.stop ≤ cs.stop :=
  tokenSpan_in_chunk (pre ++ sub ++ post) sub cs ls
    (fun _ ht => List.mem_append_left _ (List.mem_append_right _ ht)) hc hl

/-- Hence in `LintGroup::lint` the `pull_by(chunk_span.start)` of such a lint cannot underflow,
and the cached relative span replayed (`push_by`) for a chunk starting at any other offset `c'`
lies within `[c', c' + chunk length]` — the other chunk's span, since equal cache keys mean equal
chunk characters, hence equal length — is well formed and keeps its length. -/
theorem cachedLint_inbounds (chunk sub : List Span) (cs ls : Span) (c' : Nat)
    (hsub : ∀ t ∈ sub, t ∈ chunk)
    (hc : tokenSpan chunk = some cs) (hl : tokenSpan sub = some ls) :
    ∃ out, rebase ls cs.start c' = .ok out ∧
      c' ≤ out.start ∧ out.start ≤ out.stop ∧ out.stop ≤ c' + (cs.stop - cs.start) ∧
      out.stop - out.start = ls.stop - ls.start := by
  obtain ⟨h1, h2, h3⟩ := tokenSpan_in_chunk chunk sub cs ls hsub hc hl
  have hn : ¬ (cs.start > ls.start ∨ cs.start > ls.stop) := by omega
  refine ⟨⟨ls.start - cs.start + c', ls.stop - cs.start + c'⟩, ?_, ?_⟩
  · simp [rebase, Span.pullBy, hn, Span.pushBy]
  · simp only; omega

/-- on a cache miss (`c' = chunk start`) the lint comes back unchanged -/
theorem cachedLint_same_offset (chunk sub : List Span) (cs ls : Span)
    (hsub : ∀ t ∈ sub, t ∈ chunk)
    (hc : tokenSpan chunk = some cs) (hl : tokenSpan sub = some ls) :
    rebase ls cs.start cs.start = .ok ls := by
  obtain ⟨h1, h2, h3⟩ := tokenSpan_in_chunk chunk sub cs ls hsub hc hl
  obtain ⟨s', hp, hq⟩ := rebase_roundtrip ls cs.start h1 (by omega)
  simp [rebase, hp, hq]

/-! ### Non-vacuity and witnesses (concrete, kernel-evaluated; text as code points) -/

/-- in-range instances of the three branches ("abcde", span 1..3) -/
example : (Suggestion.replaceWith [120, 121]).apply ⟨1, 3⟩ [97, 98, 99, 100, 101]
    = .ok [97, 120, 121, 100, 101] := rfl   -- equal length: in place
example : (Suggestion.replaceWith [120]).apply ⟨1, 3⟩ [97, 98, 99, 100, 101]
    = .ok [97, 120, 100, 101] := rfl        -- split_off / extend / skip
example : (Suggestion.insertAfter [44]).apply ⟨1, 3⟩ [97, 98, 99, 100, 101]
    = .ok [97, 98, 99, 44, 100, 101] := rfl
example : (Suggestion.remove : Suggestion Nat).apply ⟨1, 3⟩ [97, 98, 99, 100, 101]
    = .ok [97, 100, 101] := rfl
/-- the hypotheses `start ≤ end ≤ len` hold of that instance -/
example : (⟨1, 3⟩ : Span).start ≤ (⟨1, 3⟩ : Span).stop
    ∧ (⟨1, 3⟩ : Span).stop ≤ [97, 98, 99, 100, 101].length := by decide

/-- `start > end` panics in `ReplaceWith` and `Remove` (`span.len()` underflow) … -/
example : (Suggestion.replaceWith [120]).apply ⟨2, 1⟩ [97, 98, 99] = .error .underflow := rfl
example : (Suggestion.remove : Suggestion Nat).apply ⟨2, 1⟩ [97, 98, 99] = .error .underflow := rfl
/-- … but not in `InsertAfter`, which only looks at `end` -/
example : (Suggestion.insertAfter [44]).apply ⟨2, 1⟩ [97, 98, 99] = .ok [97, 44, 98, 99] := rfl
/-- `end > len`: equal-length replace indexes out of bounds, the other replace branch does not -/
example : (Suggestion.replaceWith [120]).apply ⟨3, 4⟩ [97, 98, 99] = .error .sliceOOB := rfl
example : (Suggestion.replaceWith [120, 121]).apply ⟨3, 4⟩ [97, 98, 99]
    = .ok [97, 98, 99, 120, 121] := rfl
/-- `start > len`: `split_off` panics; an empty replacement at an empty span does nothing -/
example : (Suggestion.replaceWith [120]).apply ⟨4, 4⟩ [97, 98, 99] = .error .sliceOOB := rfl
example : (Suggestion.replaceWith ([] : List Nat)).apply ⟨4, 4⟩ [97, 98, 99]
    = .ok [97, 98, 99] := rfl
example : (Suggestion.insertAfter [44]).apply ⟨3, 4⟩ [97, 98, 99] = .error .sliceOOB := rfl
/-- `Remove` with `end > len` silently cuts the end of the text; longer than the text: panic -/
example : (Suggestion.remove : Suggestion Nat).apply ⟨2, 4⟩ [97, 98, 99] = .ok [97] := rfl
example : (Suggestion.remove : Suggestion Nat).apply ⟨0, 4⟩ [97, 98, 99] = .error .underflow := rfl

/-- rebasing: `pull_by` underflow is a panic; a round trip; a replay at another offset -/
example : (⟨3, 5⟩ : Span).pullBy 4 = .error .underflow := rfl
example : rebase ⟨7, 9⟩ 5 5 = .ok ⟨7, 9⟩ := rfl
example : rebase ⟨7, 9⟩ 5 20 = .ok ⟨22, 24⟩ := rfl
/-- without `c ≤ s.stop` (a span with `start > end`) the round trip fails: hypothesis is needed -/
example : (⟨5, 3⟩ : Span).pullBy 4 = .error .underflow := rfl

/-- a chunk "the cat sat," at offset 10 (word, space, word, space, word, comma) and the sub-slice
"cat sat": the hypotheses of `tokenSpan_in_chunk` / `cachedLint_inbounds` hold non-trivially -/
example : tokenSpan [⟨10, 13⟩, ⟨13, 14⟩, ⟨14, 17⟩, ⟨17, 18⟩, ⟨18, 21⟩, ⟨21, 22⟩]
    = some ⟨10, 22⟩ := by decide
example : tokenSpan [⟨14, 17⟩, ⟨17, 18⟩, ⟨18, 21⟩] = some ⟨14, 21⟩ := by decide
example : ∀ t ∈ [(⟨14, 17⟩ : Span), ⟨17, 18⟩, ⟨18, 21⟩],
    t ∈ [(⟨10, 13⟩ : Span), ⟨13, 14⟩, ⟨14, 17⟩, ⟨17, 18⟩, ⟨18, 21⟩, ⟨21, 22⟩] := by decide
example : rebase ⟨14, 21⟩ 10 40 = .ok ⟨44, 51⟩ := rfl
/-- `span()` is a min/max, not first/last: unordered tokens still give the enclosing span -/
example : tokenSpan [⟨5, 7⟩, ⟨1, 2⟩] = some ⟨1, 7⟩ := by decide
example : tokenSpan [] = none := rfl
/-- the hypotheses of `tokenSpan_first_last` are satisfiable -/
example : (∀ x ∈ [(⟨10, 13⟩ : Span), ⟨13, 14⟩, ⟨14, 17⟩], x.start ≤ x.stop) ∧
    [(⟨10, 13⟩ : Span), ⟨13, 14⟩, ⟨14, 17⟩].Pairwise (fun a b => a.stop ≤ b.start) := by
  decide

/-! ### Added by the w22 audit: the theorems APPLIED to concrete values -/

/-- non-vacuity of `apply_spec` / `apply_succeeds` / `apply_prefix_preserved` / `apply_suffix_preserved` /
`apply_length`: the theorems applied at "abcde", span 1..3, all hypotheses discharged together -/
example : (Suggestion.replaceWith [120]).apply ⟨1, 3⟩ [97, 98, 99, 100, 101]
    = .ok ([97, 98, 99, 100, 101].take 1 ++ [120] ++ [97, 98, 99, 100, 101].drop 3) :=
  apply_spec (.replaceWith [120]) [97, 98, 99, 100, 101] ⟨1, 3⟩ (by decide) (by decide)
example : ([97, 120, 100, 101] : List Nat).take 1 = [97, 98, 99, 100, 101].take 1 :=
  apply_prefix_preserved (.replaceWith [120]) [97, 98, 99, 100, 101] [97, 120, 100, 101] ⟨1, 3⟩
    (by decide) (by decide) rfl
example : ([97, 120, 100, 101] : List Nat).drop (4 - (5 - 3)) = [97, 98, 99, 100, 101].drop 3 :=
  apply_suffix_preserved (.replaceWith [120]) [97, 98, 99, 100, 101] [97, 120, 100, 101] ⟨1, 3⟩
    (by decide) (by decide) rfl

/-- spans touching either end of the text, the whole text, and a zero-width span at the very end
(in range: `start ≤ end ≤ len` allows `start = end = len`) -/
example : (Suggestion.remove : Suggestion Nat).apply ⟨0, 2⟩ [97, 98, 99, 100, 101] = .ok [99, 100, 101] := rfl
example : (Suggestion.remove : Suggestion Nat).apply ⟨3, 5⟩ [97, 98, 99, 100, 101] = .ok [97, 98, 99] := rfl
example : (Suggestion.replaceWith [120]).apply ⟨0, 5⟩ [97, 98, 99, 100, 101] = .ok [120] := rfl
example : (Suggestion.replaceWith [120, 121]).apply ⟨3, 5⟩ [97, 98, 99, 100, 101]
    = .ok [97, 98, 99, 120, 121] := rfl
example : (Suggestion.insertAfter [44]).apply ⟨5, 5⟩ [97, 98, 99, 100, 101]
    = .ok [97, 98, 99, 100, 101, 44] := rfl
example : (Suggestion.insertAfter [44]).apply ⟨0, 0⟩ [97, 98, 99, 100, 101]
    = .ok [44, 97, 98, 99, 100, 101] := rfl

/-- non-vacuity of `apply_remove_past_end`: "abc", span 2..4 — its three hypotheses together -/
example : (Suggestion.remove : Suggestion Nat).apply ⟨2, 4⟩ [97, 98, 99]
    = .ok ([97, 98, 99].take (3 - (4 - 2))) :=
  apply_remove_past_end [97, 98, 99] ⟨2, 4⟩ (by decide) (by decide) (by decide)

/-- non-vacuity of `apply_replace_of_no_panic` / `apply_insertAfter_of_no_panic` on OUT-of-range
spans that do not panic -/
example : ([97, 98, 99, 120, 121] : List Nat) = [97, 98, 99].take 3 ++ [120, 121] ++ [97, 98, 99].drop 4 :=
  apply_replace_of_no_panic [97, 98, 99] [120, 121] _ ⟨3, 4⟩ rfl
example : ([97, 44, 98, 99] : List Nat) = [97, 98, 99].take 1 ++ [44] ++ [97, 98, 99].drop 1 :=
  apply_insertAfter_of_no_panic [97, 98, 99] [44] _ ⟨2, 1⟩ rfl

/-- non-vacuity of `rebase_roundtrip_wf` -/
example : ∃ s', (⟨7, 9⟩ : Span).pullBy 5 = .ok s' ∧ s'.pushBy 5 = ⟨7, 9⟩ :=
  rebase_roundtrip_wf ⟨7, 9⟩ 5 (by decide) (by decide)

/-- non-vacuity of `tokenSpan_in_chunk_slice`, `cachedLint_inbounds`, `cachedLint_same_offset`:
"the cat sat," at offset 10, sub-slice "cat sat", replayed at offset 40 -/
example : (10 : Nat) ≤ 14 ∧ 14 ≤ 21 ∧ 21 ≤ 22 :=
  tokenSpan_in_chunk_slice [⟨10, 13⟩, ⟨13, 14⟩] [⟨14, 17⟩, ⟨17, 18⟩, ⟨18, 21⟩] [⟨21, 22⟩] ⟨10, 22⟩ ⟨14, 21⟩
    (by decide) (by decide)
example : ∃ out, rebase ⟨14, 21⟩ 10 40 = .ok out ∧ 40 ≤ out.start ∧ out.start ≤ out.stop ∧
    out.stop ≤ 40 + (22 - 10) ∧ out.stop - out.start = 21 - 14 :=
  cachedLint_inbounds [⟨10, 13⟩, ⟨13, 14⟩, ⟨14, 17⟩, ⟨17, 18⟩, ⟨18, 21⟩, ⟨21, 22⟩]
    [⟨14, 17⟩, ⟨17, 18⟩, ⟨18, 21⟩] ⟨10, 22⟩ ⟨14, 21⟩ 40 (by decide) (by decide) (by decide)
example : rebase ⟨14, 21⟩ 10 10 = .ok ⟨14, 21⟩ :=
  cachedLint_same_offset [⟨10, 13⟩, ⟨13, 14⟩, ⟨14, 17⟩, ⟨17, 18⟩, ⟨18, 21⟩, ⟨21, 22⟩]
    [⟨14, 17⟩, ⟨17, 18⟩, ⟨18, 21⟩] ⟨10, 22⟩ ⟨14, 21⟩ (by decide) (by decide) (by decide)
/-- … and `tokenSpan_first_last` applied -/
example : tokenSpan [⟨10, 13⟩, ⟨13, 14⟩, ⟨14, 17⟩] = some ⟨10, 17⟩ :=
  tokenSpan_first_last ⟨10, 13⟩ [⟨13, 14⟩, ⟨14, 17⟩] (by decide) (by decide)

end Harper.C03
