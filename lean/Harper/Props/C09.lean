import Harper.Lemmas.Server
/-!
# C09 — the language server's last word on a document reflects the latest text

Model: `Harper/Model/Server.lean` (`backend.rs` as atomic segments split at every `.await`;
a publication is the record of WHICH text / configuration / dictionaries it was computed from).
Helper lemmas: `Harper/Lemmas/Server.lean`.

The property (`Latest`): once the server is idle, for every URL the last publication equals
`truth` — the fresh lint of the newest text the client sent under the client's current
configuration and the dictionary files as they are — and is empty for closed / deleted documents.

* It is **proved for histories executed one handler at a time** under four side conditions
  (`OpOk`), each of which is necessary: a witness below shows the property failing without it.
* It is **false of the code under interleaving** (`concurrent_stale`, `interleaving_breaks_latest`).
* The theorems are stated twice: about `seqRun` / `handle` (a handler as one big step), and — last
  section, `macro_*` — about `runMacro`, the scheduler the driver ops `srv` / `srvseq` run, on the
  schedules in which each handler runs alone (`seqActs`); `macro_is_seqRun` is the bridge.
-/
namespace Harper.C09
open Harper.Server

/-! ## the partial theorem -/

/-- **Sequential histories.** For every history executed one handler at a time (every
configuration request answered at once with the client's configuration) in which every `didSave` /
add-to-dictionary / `didChangeConfiguration` occurs when disk = buffer for the affected open
documents (and the other side conditions of `OpOk` hold), after the last handler the last
publication of every open document is the fresh lint of its latest text under the current
configuration and dictionaries, and closed or deleted documents have empty diagnostics.

`_partial`: the full property quantifies over ALL histories and ALL interleavings. What is missing
is false of the code — see `concurrent_stale`, `reread_stale`, `user_dict_other_docs_stale`,
`ident_dict_dropped` below (each is a recorded finding). -/
theorem sequential_latest_partial (ops : List Op)
    (h : HistOk (Client.init, State.init) ops) :
    Latest (seqRun (Client.init, State.init) ops).1 (seqRun (Client.init, State.init) ops).2 :=
  inv_latest (seq_inv ops _ inv_init h)

/-- The invariant behind it, from any state that satisfies it (e.g. mid-session). -/
theorem sequential_latest_from (c : Client) (s : State) (ops : List Op)
    (hI : Inv c s) (h : HistOk (c, s) ops) :
    Latest (seqRun (c, s) ops).1 (seqRun (c, s) ops).2 :=
  inv_latest (seq_inv ops (c, s) hI h)

/-- `Latest` says what the statement says: an open document's last publication is computed from
the newest text, the current configuration (all three facets) and the current dictionaries. -/
theorem latest_open (c : Client) (s : State) (h : Latest c s) (u : Url) (t : Text) (l : Lang)
    (hb : c.buf u = some (t, l)) (hl : l ≠ .unknown) :
    ∃ p, s.outbox u = .diag p ∧ p.text = t ∧ p.sevCfg = c.ck ∧ p.lintCfg = c.ck ∧ p.parseCfg = c.ck ∧
      p.dictUser = s.userDict ∧ p.dictFile = s.fileDict u ∧ p.ignored = c.ign u := by
  rcases h u with h | h
  · simp only [truth, hb, hl, if_false] at h
    exact ⟨_, h, rfl, rfl, rfl, rfl, rfl, rfl, rfl⟩
  · rw [hb] at h; exact absurd h.1 (by simp)

/-- … and a closed / deleted document's last publication is empty (or there never was one). -/
theorem latest_closed (c : Client) (s : State) (h : Latest c s) (u : Url) (hb : c.buf u = none) :
    s.outbox u = .empty ∨ s.outbox u = .never := by
  rcases h u with h | h
  · left; simpa [truth, hb] using h
  · right; exact h.2

/-! ### non-vacuity: a history that satisfies the hypotheses and exercises every handler -/

def tA : Text := ⟨0, 0⟩
def tB : Text := ⟨1, 0⟩
def tC : Text := ⟨2, 0⟩

/-- open, edit, write the file, save, add to both dictionaries, ignore, change the configuration,
close, delete -/
def niceHistory : List Op :=
  [.disk 0 (some tA), .msg (.didOpen 0 .markdown tA), .msg (.didChange 0 tB), .disk 0 (some tB),
   .msg (.didSave 0), .msg (.addUser 7 0), .msg (.addFile 9 0), .msg (.ignore 0),
   .msg (.didChangeConfiguration 3 [0]), .msg (.didClose 0), .msg (.deleted [0])]

/-- the hypotheses of `sequential_latest_partial` are satisfiable by a history that runs every handler -/
example : HistOk (Client.init, State.init) niceHistory := by
  simp [niceHistory, HistOk, OpOk, DiskIsBuf, seqStep, clientStep, handle, prog, update, publishSegs,
    rereadAndPublish, runSeq, step, replaceDoc, lintSendDoc, publish, setF, Client.init, State.init,
    tA, tB, dictDiffers, addWord]
  refine ⟨fun v hv => by simp [hv], fun u t l => ?_, fun u => ?_⟩
  · by_cases hu : u = 0 <;> simp [hu]
    intro h1 _; exact h1.symm ▸ rfl
  · by_cases hu : u = 0 <;> simp [hu]

/-- the state before the document goes away: last publication non-empty and computed from the
latest text `tB`, configuration 3 in all three facets, user word 7, file word 9, ignore applied -/
example :
    (seqRun (Client.init, State.init) (niceHistory.take 9)).2.outbox 0
      = .diag ⟨tB, .markdown, 3, 3, 3, [7], [9], none, true⟩ := by
  decide

example : (seqRun (Client.init, State.init) niceHistory).2.outbox 0 = .empty := by
  decide

/-- two documents, the configuration handler visiting them in either order -/
example :
    let w := seqRun (Client.init, State.init)
      [.disk 0 (some tA), .msg (.didOpen 0 .plain tA), .disk 1 (some tC), .msg (.didOpen 1 .ts tC),
       .msg (.didChangeConfiguration 2 [1, 0])]
    w.2.outbox 0 = .diag ⟨tA, .plain, 2, 2, 2, [], [], none, false⟩ ∧
    w.2.outbox 1 = .diag ⟨tC, .ts, 2, 2, 2, [], [], none, false⟩ := by
  decide

/-! ### the theorems applied to the witness -/

/-- `HistOk` of a concatenation: the first part is fine, and the second is fine from where the first
ends (so every prefix of an admissible history is admissible) -/
theorem histOk_append (a b : List Op) : ∀ w : Client × State,
    HistOk w (a ++ b) ↔ HistOk w a ∧ HistOk (seqRun w a) b := by
  induction a with
  | nil => intro w; simp [HistOk, seqRun]
  | cons op a ih =>
    intro w
    simp only [List.cons_append, HistOk, seqRun, List.foldl_cons]
    rw [ih (seqStep w op)]
    simp only [seqRun, and_assoc]

/-- non-vacuity of `sequential_latest_partial` / `sound_after_sequential` (named, to be applied below) -/
theorem niceHistory_ok : HistOk (Client.init, State.init) niceHistory := by
  simp [niceHistory, HistOk, OpOk, DiskIsBuf, seqStep, clientStep, handle, prog, update, publishSegs,
    rereadAndPublish, runSeq, step, replaceDoc, lintSendDoc, publish, setF, Client.init, State.init,
    tA, tB, dictDiffers, addWord]
  refine ⟨fun v hv => by simp [hv], fun u t l => ?_, fun u => ?_⟩
  · by_cases hu : u = 0 <;> simp [hu]
    intro h1 _; exact h1.symm ▸ rfl
  · by_cases hu : u = 0 <;> simp [hu]

theorem niceHistory_split : niceHistory = niceHistory.take 9 ++ niceHistory.drop 9 :=
  (List.take_append_drop 9 niceHistory).symm

/-- non-vacuity of `latest_open` (hypotheses `Latest`, an OPEN document of a known language — all
obtained from `sequential_latest_partial` on the first nine steps, not by evaluating the outbox) -/
example : ∃ p, (seqRun (Client.init, State.init) (niceHistory.take 9)).2.outbox 0 = .diag p ∧
    p.text = tB ∧ p.sevCfg = 3 ∧ p.lintCfg = 3 ∧ p.parseCfg = 3 ∧ p.dictUser = [7] ∧ p.dictFile = [9] ∧
    p.ignored = true := by
  have hok : HistOk (Client.init, State.init) (niceHistory.take 9) :=
    ((histOk_append _ _ _).mp (niceHistory_split ▸ niceHistory_ok)).1
  obtain ⟨p, h1, h2, h3, h4, h5, h6, h7, h8⟩ :=
    latest_open _ _ (sequential_latest_partial _ hok) 0 tB .markdown (by decide) (by decide)
  refine ⟨p, h1, h2, ?_, ?_, ?_, ?_, ?_, ?_⟩
  · rw [h3]; decide
  · rw [h4]; decide
  · rw [h5]; decide
  · rw [h6]; decide
  · rw [h7]; decide
  · rw [h8]; decide

/-- non-vacuity of `latest_closed`: the document of `niceHistory` after close + delete -/
example : (seqRun (Client.init, State.init) niceHistory).2.outbox 0 = .empty ∨
    (seqRun (Client.init, State.init) niceHistory).2.outbox 0 = .never :=
  latest_closed _ _ (sequential_latest_partial _ niceHistory_ok) 0 (by decide)

/-- non-vacuity of `sequential_latest_from`: started mid-session (after nine steps, document open and
published) with the invariant of that state -/
example : Latest (seqRun (seqRun (Client.init, State.init) (niceHistory.take 9)) (niceHistory.drop 9)).1
    (seqRun (seqRun (Client.init, State.init) (niceHistory.take 9)) (niceHistory.drop 9)).2 := by
  have h := (histOk_append _ _ _).mp (niceHistory_split ▸ niceHistory_ok)
  exact sequential_latest_from _ _ _ (seq_inv _ _ inv_init h.1) h.2

/-- non-vacuity of `sequential_latest_partial` with TWO documents (one of a tree-sitter language, one
reopened under an id no parser exists for), a two-key configuration order, `didSave`, an unknown
command, both add-to-dictionary commands: the side conditions of `OpOk` hold together -/
example : HistOk (Client.init, State.init)
    [.disk 0 (some tA), .msg (.didOpen 0 .plain tA), .disk 1 (some tC), .msg (.didOpen 1 .ts tC),
     .msg (.didChangeConfiguration 2 [1, 0]), .msg (.didSave 1), .msg .noop, .msg (.addFile 4 1),
     .msg (.didClose 1), .msg (.addUser 7 0), .msg (.didOpen 1 .unknown tB)] := by
  simp [HistOk, OpOk, DiskIsBuf, seqStep, clientStep, handle, prog, update, publishSegs,
    rereadAndPublish, runSeq, step, replaceDoc, lintSendDoc, publish, setF, Client.init, State.init,
    tA, tB, tC, dictDiffers, addWord]
  refine ⟨⟨fun u t l => ?_, fun u => ?_⟩, fun v h0 h1 => by simp [h0, h1]⟩
  · by_cases h1 : u = 1 <;> by_cases h0 : u = 0 <;> simp [h1, h0] <;> (intro h _; exact h)
  · by_cases h1 : u = 1 <;> by_cases h0 : u = 0 <;> simp [h1, h0]

/-- … and where it ends: document 0 carries configuration 2 and the user word, document 1 (unknown
language) has empty diagnostics -/
example :
    let w := seqRun (Client.init, State.init)
      [.disk 0 (some tA), .msg (.didOpen 0 .plain tA), .disk 1 (some tC), .msg (.didOpen 1 .ts tC),
       .msg (.didChangeConfiguration 2 [1, 0]), .msg (.didSave 1), .msg .noop, .msg (.addFile 4 1),
       .msg (.didClose 1), .msg (.addUser 7 0), .msg (.didOpen 1 .unknown tB)]
    w.2.outbox 0 = .diag ⟨tA, .plain, 2, 2, 2, [7], [], none, false⟩ ∧ w.2.outbox 1 = .empty ∧
    w.2.fileDict 1 = [4] := by
  decide

/-- **`seqRun` against the scheduler the driver runs.** The theorems above are about `seqRun` /
`runSeq` (one handler alone); the driver op `srv` and every counter-schedule below run `runMacro`
(`Sys`, `settle`). Both execute the same `prog` and `step`; the general lemma relating them is
`macro_is_seqRun` below (section "the same theorems about the scheduler the driver runs").
On the witness they agree: `niceHistory` fed to `runMacro` with every configuration request answered
at once (the client's configuration: 0, then 3) leaves the server idle with exactly the same
publication log (eight publications), dictionaries and configuration. -/
example :
    let as : List Act :=
      [.disk 0 (some tA), .recv (.didOpen 0 .markdown tA), .reply 0 0, .recv (.didChange 0 tB), .reply 0 0,
       .disk 0 (some tB), .recv (.didSave 0), .reply 0 0, .recv (.addUser 7 0), .reply 0 0,
       .recv (.addFile 9 0), .reply 0 0, .recv (.ignore 0),
       .recv (.didChangeConfiguration 3 [0]), .reply 0 3, .recv (.didClose 0), .recv (.deleted [0])]
    let y := runMacro (Sys.init State.init) as
    let w := seqRun (Client.init, State.init) niceHistory
    y.pend = [] ∧ y.run.isEmpty = true ∧ y.queue.isEmpty = true ∧
    y.st.log = w.2.log ∧ y.st.userDict = w.2.userDict ∧ y.st.fileDict 0 = w.2.fileDict 0 ∧
    y.st.config = w.2.config ∧ y.st.badOrder = false ∧ w.2.log.length = 8 := by
  decide

/-! ## false under interleaving -/

/-- Two `didChange` of one URL; the client answers the SECOND handler's configuration request
first. (`Act.disk`/`recv`/`reply` are client actions; after each one the server runs until idle.) -/
def staleSchedule : List Act :=
  [.disk 0 (some tA), .recv (.didOpen 0 .plain tA), .reply 0 0,
   .recv (.didChange 0 tB), .recv (.didChange 0 tC), .reply 1 0, .reply 0 0]

def plainPub (t : Text) : Pub :=
  { text := t, lang := .plain, sevCfg := 0, lintCfg := 0, parseCfg := 0, dictUser := [],
    dictFile := [], dictIdent := none, ignored := false }

/-- **The full property is false of the code under interleaving.** After the schedule the server is
idle (nothing pending, nothing in flight), the client's newest text is `tC`, and the last
publication — and the document the server holds — is the OLDER text `tB`. The three publications
are `tA`, `tC`, `tB` in this order. Recorded finding `c09-overlapping-updates`; the same schedule is
replayed against the real server on every run (corpus `witness-overlapping-updates`). -/
theorem concurrent_stale :
    let y := runMacro (Sys.init State.init) staleSchedule
    y.pend = [] ∧ y.run.isEmpty = true ∧ y.queue.isEmpty = true ∧
    (clientAfter staleSchedule).buf 0 = some (tC, .plain) ∧
    y.st.outbox 0 = .diag (plainPub tB) ∧
    pubsOf y.st 0 = [.diag (plainPub tA), .diag (plainPub tC), .diag (plainPub tB)] := by
  decide

/-- hence `Latest` fails for an idle server after a well-formed client session -/
theorem interleaving_breaks_latest :
    ∃ as : List Act,
      (runMacro (Sys.init State.init) as).pend = [] ∧
      (runMacro (Sys.init State.init) as).run.isEmpty = true ∧
      ¬ Latest (clientAfter as) (runMacro (Sys.init State.init) as).st := by
  refine ⟨staleSchedule, by decide, by decide, fun h => ?_⟩
  rcases h 0 with h | h
  · revert h; decide
  · revert h; decide

/-- The same race as an explicit interleaving of SEGMENTS (`Act.step id` = one segment of handler
`id`): handler 1 (`didChange tB`) sends its configuration request; handler 2 (`didChange tC`) sends
its own, is answered, and runs its seven remaining segments; then handler 1 is answered and runs. -/
def staleMicro : List Act :=
  [.recv (.didOpen 0 .plain tA), .step 0, .reply 0 0, .step 0, .step 0, .step 0, .step 0, .step 0,
   .step 0, .step 0, .step 0,
   .recv (.didChange 0 tB), .step 1, .recv (.didChange 0 tC), .step 2,
   .reply 1 0, .step 2, .step 2, .step 2, .step 2, .step 2, .step 2, .step 2, .step 2,
   .reply 0 0, .step 1, .step 1, .step 1, .step 1, .step 1, .step 1, .step 1, .step 1]

example :
    let y := runMicro (Sys.init State.init) staleMicro
    y.pend = [] ∧ y.run.isEmpty = true ∧ y.st.outbox 0 = .diag (plainPub tB) := by
  decide

/-- A finer interleaving the client cannot force but the model admits (file I/O completion order):
the configuration read of one handler falls between the configuration write and read of another.
Handler 2's publication carries configuration 1 for the severity although it was answered with 0. -/
example :
    let y := runMicro (Sys.init State.init)
      [.recv (.didOpen 0 .plain tA), .recv (.didChange 0 tB), .step 0, .step 1,
       .reply 0 0, .reply 0 1,
       .step 0, .step 0, .step 0, .step 0, .step 0, .step 0,      -- handler 0 up to sevRead (config 0)
       .step 1,                                                     -- handler 1 writes config 1
       .step 0, .step 0]                                            -- handler 0 publishes
    y.st.outbox 0 = .diag { plainPub tA with sevCfg := 0 } ∧ y.st.config = 1 := by
  decide

/-- the sequential schedule of the same three messages IS fine (so the failure is the interleaving) -/
example :
    let as : List Act := [.disk 0 (some tA), .recv (.didOpen 0 .plain tA), .reply 0 0,
      .recv (.didChange 0 tB), .reply 0 0, .recv (.didChange 0 tC), .reply 0 0]
    (runMacro (Sys.init State.init) as).st.outbox 0 = truth (clientAfter as) (runMacro (Sys.init State.init) as).st 0 := by
  decide

/-- more than four messages: the fifth handler starts only when a slot is free (`buffer_unordered(4)`) -/
example :
    let y := runMacro (Sys.init State.init)
      [.recv (.didOpen 0 .plain tA), .reply 0 0, .recv (.didChange 0 ⟨1, 0⟩), .recv (.didChange 0 ⟨2, 0⟩),
       .recv (.didChange 0 ⟨3, 0⟩), .recv (.didChange 0 ⟨4, 0⟩), .recv (.didChange 0 ⟨5, 0⟩)]
    y.pend.length = 4 ∧ y.queue.length = 1 := by
  decide

/-! ## false without `disk = buffer` -/

/-- `didOpen(A, disk holds A); didChange(B); HarperAddToUserDict` — one handler at a time — ends with
A's diagnostics: the command re-reads the file. Recorded finding `c09-reread-from-disk`
(corpus `witness-reread-from-disk`). -/
def rereadHistory : List Op :=
  [.disk 0 (some tA), .msg (.didOpen 0 .plain tA), .msg (.didChange 0 tB), .msg (.addUser 7 0)]

theorem reread_stale :
    let w := seqRun (Client.init, State.init) rereadHistory
    w.1.buf 0 = some (tB, .plain) ∧
    w.2.outbox 0 = .diag { plainPub tA with dictUser := [7] } ∧
    ¬ Latest w.1 w.2 := by
  refine ⟨by decide, by decide, fun h => ?_⟩
  rcases h 0 with h | h
  · revert h; decide
  · revert h; decide

/-- the hypothesis that fails is exactly `DiskIsBuf` at the command -/
example : ¬ HistOk (Client.init, State.init) rereadHistory := by
  simp [rereadHistory, HistOk, OpOk, DiskIsBuf, seqStep, clientStep, handle, prog, update, publishSegs,
    runSeq, step, replaceDoc, lintSendDoc, publish, setF, Client.init, State.init, tA, tB, dictDiffers]

/-- same for `didSave` announced before the file is written, and for a configuration change while
the file does not exist (the update is skipped: the parser configuration of the document stays 0) -/
example :
    (seqRun (Client.init, State.init)
      [.disk 0 (some tA), .msg (.didOpen 0 .plain tA), .msg (.didChange 0 tB), .msg (.didSave 0)]).2.outbox 0
      = .diag (plainPub tA) := by
  decide

example :
    (seqRun (Client.init, State.init)
      [.msg (.didOpen 0 .markdown tA), .msg (.didChangeConfiguration 2 [0])]).2.outbox 0
      = .diag ⟨tA, .markdown, 2, 2, 0, [], [], none, false⟩ := by
  decide

/-! ## two more defects the side conditions exclude -/

/-- A word added to the user dictionary through one document stays flagged in the other open
document: only the command's target is re-linted. Recorded finding `c09-user-dict-other-docs`. -/
theorem user_dict_other_docs_stale :
    let w := seqRun (Client.init, State.init)
      [.disk 0 (some tA), .msg (.didOpen 0 .plain tA), .disk 1 (some tB), .msg (.didOpen 1 .plain tB),
       .msg (.addUser 7 0)]
    w.2.userDict = [7] ∧ w.2.outbox 0 = .diag { plainPub tA with dictUser := [7] } ∧
    w.2.outbox 1 = .diag (plainPub tB) ∧ ¬ LatestAt w.1 w.2 1 := by
  refine ⟨by decide, by decide, by decide, fun h => ?_⟩
  rcases h with h | h
  · revert h; decide
  · revert h; decide

/-- Tree-sitter documents: the identifier dictionary (set 1) is merged by the first update and
dropped by the second. Recorded finding `c09-ident-dict-dropped`. -/
theorem ident_dict_dropped :
    let t0 : Text := ⟨0, 1⟩
    let t1 : Text := ⟨1, 1⟩
    let w1 := seqRun (Client.init, State.init) [.msg (.didOpen 0 .ts t0)]
    let w2 := seqRun w1 [.msg (.didChange 0 t1)]
    w1.2.outbox 0 = .diag ⟨t0, .ts, 0, 0, 0, [], [], some 1, false⟩ ∧
    w2.2.outbox 0 = .diag ⟨t1, .ts, 0, 0, 0, [], [], none, false⟩ ∧
    truth w2.1 w2.2 0 = .diag ⟨t1, .ts, 0, 0, 0, [], [], some 1, false⟩ := by
  decide

/-- … and it comes back when the set of identifiers changes (set 2) -/
example :
    (seqRun (Client.init, State.init)
      [.msg (.didOpen 0 .ts ⟨0, 1⟩), .msg (.didChange 0 ⟨1, 1⟩), .msg (.didChange 0 ⟨2, 2⟩)]).2.outbox 0
      = .diag ⟨⟨2, 2⟩, .ts, 0, 0, 0, [], [], some 2, false⟩ := by
  decide

/-! ## a configuration the client has not announced -/

/-- The client's configuration becomes `k` WITHOUT a `didChangeConfiguration`: from now on its
`workspace/configuration` answers carry `k`. -/
def silently (k : CfgV) (w : Client × State) : Client × State := ({ w.1 with ck := k }, w.2)

/-- **Configuration learnt only through a pull is applied piecemeal.** Open under configuration 0;
the client's configuration silently becomes 1; a `didChange` pulls it. The publication takes the
severity and the parser options from configuration 1 but the `LintGroup` is still the one built
under configuration 0 (it is rebuilt only on creation, on a dictionary change and by
`didChangeConfiguration`) — a mixture that is the fresh lint under neither configuration, and not
`truth`. Recorded finding `c09-linter-config-only-on-notification`
(corpus `witness-linter-config-only-on-notification`). -/
theorem linter_config_only_on_notification :
    let w1 := seqRun (Client.init, State.init) [.disk 0 (some tA), .msg (.didOpen 0 .markdown tA)]
    let w2 := seqRun (silently 1 w1) [.msg (.didChange 0 tB)]
    w2.2.config = 1 ∧
    w2.2.outbox 0 = .diag ⟨tB, .markdown, 1, 0, 1, [], [], none, false⟩ ∧
    truth w2.1 w2.2 0 = .diag ⟨tB, .markdown, 1, 1, 1, [], [], none, false⟩ := by
  decide

/-- **After a `didChangeConfiguration` everything is current** (the hard requirement). From ANY
structurally sound state (`WeakAt`: the right documents are loaded, in the client's languages,
without identifier dictionary; text, configuration facets, dictionaries, `Backend::config` and last
publications arbitrary — in particular `Backend::config` may ALREADY equal the announced
configuration because an earlier pull wrote it), once the handler of a
`didChangeConfiguration(k)` that finds disk = buffer has finished, `Latest` holds for the client
configuration `k`: every open document's last publication has severity, linter and parser facets
`k`, the newest text and the current dictionaries. A handler that skips rebuilding the linters when
`Backend::config` already holds the new settings violates exactly this. The handler runs ALONE here
(`handle`: its segments are not interleaved with another handler's); under interleaving the statement
is false — see `concurrent_stale`. -/
theorem latest_after_notification (c : Client) (s : State) (k : CfgV) (order : List Url)
    (hW : ∀ v, WeakAt c s v) (hd : ∀ u, DiskIsBuf c s u)
    (ho : ∀ u, u ∈ order ↔ (s.docs u).isSome = true) :
    Latest { c with ck := k } (handle k s (.didChangeConfiguration k order)) :=
  inv_latest (config_repairs hW k order hd ho)

/-- non-vacuity, and the scenario of the finding repaired by the notification: the stale state of
`linter_config_only_on_notification` (after the editor wrote the file) satisfies the hypotheses … -/
example :
    let w1 := seqRun (Client.init, State.init) [.disk 0 (some tA), .msg (.didOpen 0 .markdown tA)]
    let w2 := seqRun (silently 1 w1) [.msg (.didChange 0 tB), .disk 0 (some tB)]
    (∀ v, WeakAt w2.1 w2.2 v) ∧ (∀ u, DiskIsBuf w2.1 w2.2 u) ∧
    (∀ u, u ∈ [0] ↔ (w2.2.docs u).isSome = true) := by
  simp [seqRun, seqStep, silently, clientStep, handle, prog, update, publishSegs, runSeq, step,
      replaceDoc, lintSendDoc, publish, setF, Client.init, State.init, tA, tB, dictDiffers, WeakAt,
      DiskIsBuf, pubOf]
  refine ⟨fun v => ?_, fun u t l => ?_, fun u => ?_⟩
  · by_cases h : v = 0 <;> simp [h]
  · by_cases h : u = 0 <;> simp [h]
    intro h1 _; exact h1.symm ▸ rfl
  · by_cases h : u = 0 <;> simp [h]

/-- … and the notification of configuration 1 (which `Backend::config` already holds) makes the
linter facet current -/
example :
    let w1 := seqRun (Client.init, State.init) [.disk 0 (some tA), .msg (.didOpen 0 .markdown tA)]
    let w2 := seqRun (silently 1 w1) [.msg (.didChange 0 tB), .disk 0 (some tB)]
    let w3 := seqRun w2 [.msg (.didChangeConfiguration 1 [0])]
    w2.2.config = 1 ∧ w3.2.outbox 0 = .diag ⟨tB, .markdown, 1, 1, 1, [], [], none, false⟩ ∧
    w3.2.outbox 0 = truth w3.1 w3.2 0 := by
  decide

/-- every state reached by a history that satisfies `OpOk` is structurally sound for whatever the
client's configuration silently becomes -/
theorem sound_after_sequential (ops : List Op) (h : HistOk (Client.init, State.init) ops) (k : CfgV) :
    ∀ v, WeakAt { (seqRun (Client.init, State.init) ops).1 with ck := k }
      (seqRun (Client.init, State.init) ops).2 v :=
  (seq_inv ops _ inv_init h).weak k

/-! ## the same theorems about the scheduler the driver runs (`runMacro`)

Everything above the counter-schedules is about `seqRun` / `handle` (a handler as ONE step); the
driver ops `srv` / `srvseq` and every counter-schedule run `runMacro` (`Sys`, `settle`,
`stepHandler`, `reply`). `Lemmas/Server.lean` (`solo_run`, `macro_handle`, `macro_is_seq_N`,
`macro_is_seq`) proves that on the schedules in which each handler runs alone the two coincide:
a message to an idle server followed by at least as many `reply 0 ck` as its handler sends
configuration requests leaves the server idle in the state `handle ck` computes. The one side
condition is the scheduler's fuel: `settle` takes at most `settleFuel` = 4096 segment steps per
client action, so a program must be shorter than that — only `didChangeConfiguration` has programs
of unbounded length (2 + 9 segments per key: at most 454 keys). -/

/-- **One handler alone.** A message to an idle server (`Sys.init s`) and then `n` answers to the
oldest configuration request, `n` at least the number of requests the handler sends when it runs
alone (`pullsRun`; more answers than requests are ignored): the server is idle again and its state —
documents, configuration, files, publication log — is `handle ck s m`. -/
theorem macro_handler_alone (ck : CfgV) (s : State) (m : Msg) (n : Nat)
    (hF : (prog m).1.length < settleFuel) (hn : pullsRun ck s (prog m).2 (prog m).1 ≤ n) :
    let y := runMacro (Sys.init s) (.recv m :: List.replicate n (.reply 0 ck))
    y.run = [] ∧ y.queue = [] ∧ y.pend = [] ∧ y.st = handle ck s m := by
  have h : runMacro (Sys.init s) (.recv m :: List.replicate n (.reply 0 ck)) = idleSys (handle ck s m) 1 :=
    macro_handle ck s 0 m n hF hn
  rw [h]
  exact ⟨rfl, rfl, rfl, rfl⟩

/-- non-vacuity of `macro_handler_alone`, and the count is sharp: `didSave` of an open document whose
file exists sends one request — one answer (or more) finishes it, none leaves it waiting -/
example :
    let s := (seqRun (Client.init, State.init) [.disk 0 (some tA), .msg (.didOpen 0 .plain tA)]).2
    (prog (.didSave 0)).1.length < settleFuel ∧ pullsRun 0 s (prog (.didSave 0)).2 (prog (.didSave 0)).1 = 1 ∧
    (runMacro (Sys.init s) [.recv (.didSave 0)]).pend = [0] ∧
    (runMacro (Sys.init s) [.recv (.didSave 0), .reply 0 0]).st.log = (handle 0 s (.didSave 0)).log ∧
    (runMacro (Sys.init s) [.recv (.didSave 0), .reply 0 0, .reply 0 0]).st.log = (handle 0 s (.didSave 0)).log ∧
    (handle 0 s (.didSave 0)).log.length = 2 := by
  decide

/-- … and when the file cannot be read the handler sends NO request (`readDisk` skips the update): the
answer `seqActs` schedules for it finds nobody waiting and is ignored -/
example :
    let s := (seqRun (Client.init, State.init) [.msg (.didOpen 0 .plain tA)]).2
    pullsRun 0 s (prog (.didSave 0)).2 (prog (.didSave 0)).1 = 0 ∧ pullCount (prog (.didSave 0)).1 = 1 ∧
    (runMacro (Sys.init s) [.recv (.didSave 0)]).pend = [] ∧
    (runMacro (Sys.init s) [.recv (.didSave 0)]).st.log = (handle 0 s (.didSave 0)).log ∧
    (runMacro (Sys.init s) [.recv (.didSave 0), .reply 0 0]).st.log = (handle 0 s (.didSave 0)).log := by
  decide

/-- **The fuel hypothesis is needed.** `settle` performs at most `settleFuel` = 4096 segment steps per
client action. A configuration handler over 455 keys whose files are all missing sends no
configuration request and has a program of 4097 segments: after the notification alone (as many
answers as requests: none) the handler is still in flight — `macro_handler_alone` without its first
hypothesis is false. One more client action (an answer nobody waits for) lets the scheduler finish it,
which is why the schedule `seqActs` (one answer per key) still ends idle here. The real server has no
such bound: the fuel is an artefact of the model's scheduler, reached by no K case (≤ 3 URIs). -/
example :
    let m : Msg := .didChangeConfiguration 1 (List.range 455)
    pullsRun 1 State.init (prog m).2 (prog m).1 = 0 ∧ (prog m).1.length = settleFuel + 1 ∧
    (runMacro (Sys.init State.init) [.recv m]).run.length = 1 ∧
    (runMacro (Sys.init State.init) [.recv m, .reply 0 1]).run.length = 0 := by
  decide +kernel

/-- **The bridge.** The sequential schedule `seqActs c ops` of a history (every message followed at
once by the answers to its handler's configuration requests, carrying the client's configuration)
leaves `runMacro` idle in EXACTLY the state `seqRun` computes — hence with the same publication log,
outbox, documents, configuration and dictionary files — and the client that schedule implies
(`clientOfAct`) is `seqRun`'s client. Hypothesis: no `didChangeConfiguration` handler iterates over
more than 454 keys (its program must be shorter than `settleFuel`). -/
theorem macro_is_seqRun (ops : List Op) (c : Client) (s : State)
    (hF : ∀ k order, Op.msg (.didChangeConfiguration k order) ∈ ops → order.length ≤ 454) :
    let y := runMacro (Sys.init s) (seqActs c ops)
    y.run = [] ∧ y.queue = [] ∧ y.pend = [] ∧ y.st = (seqRun (c, s) ops).2 ∧
    (seqActs c ops).foldl clientOfAct c = (seqRun (c, s) ops).1 := by
  obtain ⟨h1, h2⟩ := macro_is_seq ops c s 0 (fits_of_orders ops hF)
  have h1' : runMacro (Sys.init s) (seqActs c ops) = idleSys (seqRun (c, s) ops).2 (0 + msgCount ops) := h1
  rw [h1']
  exact ⟨rfl, rfl, rfl, rfl, h2⟩

/-- … in particular it publishes exactly the same things in the same order -/
theorem macro_publishes_as_seq (ops : List Op) (c : Client) (s : State)
    (hF : ∀ k order, Op.msg (.didChangeConfiguration k order) ∈ ops → order.length ≤ 454) (u : Url) :
    pubsOf (runMacro (Sys.init s) (seqActs c ops)).st u = pubsOf (seqRun (c, s) ops).2 u := by
  rw [(macro_is_seqRun ops c s hF).2.2.2.1]

/-- The bridge for EVERY schedule in which each handler runs alone, not only the canonical one:
`seqActsN` puts a free number of answers after each message, `Answered` asks that it be at least the
number of requests the handler sends from the state the history has reached (and that no program
exhausts the fuel). The `srv` lines of the harness's sequential histories are of this form with
EXACTLY as many `R:` as the real server sent requests; `seqActs` is the instance with one answer per
`Seg.pull` of the program (`seqActs_eq_N`). -/
theorem macro_answered_is_seqRun (ops : List (Op × Nat)) (c : Client) (s : State)
    (h : Answered (c, s) ops) :
    let y := runMacro (Sys.init s) (seqActsN c ops)
    y.run = [] ∧ y.queue = [] ∧ y.pend = [] ∧ y.st = (seqRun (c, s) (ops.map (·.1))).2 := by
  have h1 : runMacro (Sys.init s) (seqActsN c ops)
      = idleSys (seqRun (c, s) (ops.map (·.1))).2 (0 + msgCount (ops.map (·.1))) :=
    (macro_is_seq_N ops c s 0 h).1
  rw [h1]
  exact ⟨rfl, rfl, rfl, rfl⟩

/-- non-vacuity of `macro_answered_is_seqRun`: one answer for the `didOpen`, NONE for the `didSave`
whose file is missing (it sends no request), three (two of them ignored) for the `didChange` -/
example :
    let ops : List (Op × Nat) :=
      [(.msg (.didOpen 0 .plain tA), 1), (.msg (.didSave 0), 0), (.msg (.didChange 0 tB), 3)]
    Answered (Client.init, State.init) ops ∧
    seqActsN Client.init ops = [.recv (.didOpen 0 .plain tA), .reply 0 0, .recv (.didSave 0),
      .recv (.didChange 0 tB), .reply 0 0, .reply 0 0, .reply 0 0] ∧
    (runMacro (Sys.init State.init) (seqActsN Client.init ops)).st.outbox 0 = .diag (plainPub tB) :=
  ⟨⟨⟨by decide, by decide⟩, ⟨by decide, by decide⟩, ⟨by decide, by decide⟩, trivial⟩, rfl, by decide⟩

/-- the hypothesis of the bridge holds of the witness history -/
theorem niceHistory_fits :
    ∀ k order, Op.msg (.didChangeConfiguration k order) ∈ niceHistory → order.length ≤ 454 := by
  intro k order h
  simp [niceHistory] at h
  simp [h.2]

/-- the sequential schedule of `niceHistory`: one answer after each of the five single-update
messages (carrying the client's configuration 0), one — carrying the NEW configuration 3 — for the
one key of the configuration handler, none after `ignore`, `didClose`, `deleted` -/
example : seqActs Client.init niceHistory =
    [.disk 0 (some tA), .recv (.didOpen 0 .markdown tA), .reply 0 0, .recv (.didChange 0 tB), .reply 0 0,
     .disk 0 (some tB), .recv (.didSave 0), .reply 0 0, .recv (.addUser 7 0), .reply 0 0,
     .recv (.addFile 9 0), .reply 0 0, .recv (.ignore 0),
     .recv (.didChangeConfiguration 3 [0]), .reply 0 3, .recv (.didClose 0), .recv (.deleted [0])] := rfl

/-- non-vacuity of `macro_is_seqRun` / `macro_publishes_as_seq`: the theorem applied to the witness
(eight publications for URL 0, the last one empty) -/
example :
    pubsOf (runMacro (Sys.init State.init) (seqActs Client.init niceHistory)).st 0
      = pubsOf (seqRun (Client.init, State.init) niceHistory).2 0 ∧
    (pubsOf (seqRun (Client.init, State.init) niceHistory).2 0).length = 8 :=
  ⟨macro_publishes_as_seq _ _ _ niceHistory_fits 0, by decide⟩

/-- **Sequential histories, under the scheduler.** `sequential_latest_partial` for `runMacro`: a
history that satisfies `HistOk`, delivered to the (initially idle, empty) server as its sequential
schedule, leaves the server idle and every URL's last publication is the truth for the client that
schedule implies (`clientAfter`, the client `interleaving_breaks_latest` uses). `_partial` for the
same reason: under other schedules it is false (`concurrent_stale`). -/
theorem macro_sequential_latest_partial (ops : List Op)
    (h : HistOk (Client.init, State.init) ops)
    (hF : ∀ k order, Op.msg (.didChangeConfiguration k order) ∈ ops → order.length ≤ 454) :
    let as := seqActs Client.init ops
    let y := runMacro (Sys.init State.init) as
    y.run = [] ∧ y.queue = [] ∧ y.pend = [] ∧ Latest (clientAfter as) y.st := by
  obtain ⟨h1, h2, h3, h4, h5⟩ := macro_is_seqRun ops Client.init State.init hF
  refine ⟨h1, h2, h3, ?_⟩
  show Latest ((seqActs Client.init ops).foldl clientOfAct Client.init) _
  rw [h4, h5]
  exact sequential_latest_partial ops h

/-- non-vacuity of `macro_sequential_latest_partial`: the witness history -/
example :
    Latest (clientAfter (seqActs Client.init niceHistory))
      (runMacro (Sys.init State.init) (seqActs Client.init niceHistory)).st :=
  (macro_sequential_latest_partial niceHistory niceHistory_ok niceHistory_fits).2.2.2

/-- `sequential_latest_from` for `runMacro`: from ANY idle server (whatever handler ids it has used)
whose state satisfies the invariant for the client `c`. -/
theorem macro_sequential_latest_from (c : Client) (y0 : Sys) (ops : List Op)
    (hidle : Idle y0) (hI : Inv c y0.st) (h : HistOk (c, y0.st) ops)
    (hF : ∀ k order, Op.msg (.didChangeConfiguration k order) ∈ ops → order.length ≤ 454) :
    let as := seqActs c ops
    let y := runMacro y0 as
    Idle y ∧ Latest (as.foldl clientOfAct c) y.st := by
  obtain ⟨h1, h2⟩ := macro_is_seq ops c y0.st y0.nextId (fits_of_orders ops hF)
  show Idle (runMacro y0 _) ∧ Latest _ (runMacro y0 _).st
  rw [hidle.eq, h1, h2]
  exact ⟨idleSys_idle _ _, sequential_latest_from c y0.st ops hI h⟩

/-- non-vacuity of `macro_sequential_latest_from`: started mid-session — the server `runMacro` has
reached after the first nine steps of the witness (idle, six handler ids used, document open and
published) — with the rest of the witness -/
example :
    let as1 := seqActs Client.init (niceHistory.take 9)
    let y0 := runMacro (Sys.init State.init) as1
    let c := clientAfter as1
    Idle y0 ∧ y0.nextId = 7 ∧
    Latest ((seqActs c (niceHistory.drop 9)).foldl clientOfAct c) (runMacro y0 (seqActs c (niceHistory.drop 9))).st := by
  have hok := (histOk_append _ _ _).mp (niceHistory_split ▸ niceHistory_ok)
  have hF1 : ∀ k order, Op.msg (.didChangeConfiguration k order) ∈ niceHistory.take 9 → order.length ≤ 454 :=
    fun k order hm => niceHistory_fits k order (List.mem_of_mem_take hm)
  have hF2 : ∀ k order, Op.msg (.didChangeConfiguration k order) ∈ niceHistory.drop 9 → order.length ≤ 454 :=
    fun k order hm => niceHistory_fits k order (List.mem_of_mem_drop hm)
  obtain ⟨b1, b2⟩ := macro_is_seq (niceHistory.take 9) Client.init State.init 0 (fits_of_orders _ hF1)
  have hidle : Idle (runMacro (Sys.init State.init) (seqActs Client.init (niceHistory.take 9))) := by
    show Idle (runMacro (idleSys State.init 0) _); rw [b1]; exact idleSys_idle _ _
  have hst : (runMacro (Sys.init State.init) (seqActs Client.init (niceHistory.take 9))).st
      = (seqRun (Client.init, State.init) (niceHistory.take 9)).2 := by
    show (runMacro (idleSys State.init 0) _).st = _; rw [b1]; rfl
  have hc : clientAfter (seqActs Client.init (niceHistory.take 9))
      = (seqRun (Client.init, State.init) (niceHistory.take 9)).1 := b2
  refine ⟨hidle, by decide, ?_⟩
  refine (macro_sequential_latest_from _ _ (niceHistory.drop 9) hidle ?_ ?_ hF2).2
  · rw [hst, hc]; exact seq_inv _ _ inv_init hok.1
  · rw [hst, hc]; exact hok.2

/-- `latest_open` read off the scheduler: after the sequential schedule of an admissible history the
last publication of a document the client has open (in a language a parser exists for) is non-empty and
computed from the newest text, the client's configuration in all three facets, the dictionary files as
they are and the client's ignore request. -/
theorem macro_latest_open (ops : List Op) (h : HistOk (Client.init, State.init) ops)
    (hF : ∀ k order, Op.msg (.didChangeConfiguration k order) ∈ ops → order.length ≤ 454)
    (u : Url) (t : Text) (l : Lang)
    (hb : (clientAfter (seqActs Client.init ops)).buf u = some (t, l)) (hl : l ≠ .unknown) :
    let c := clientAfter (seqActs Client.init ops)
    let s := (runMacro (Sys.init State.init) (seqActs Client.init ops)).st
    ∃ p, s.outbox u = .diag p ∧ p.text = t ∧ p.sevCfg = c.ck ∧ p.lintCfg = c.ck ∧ p.parseCfg = c.ck ∧
      p.dictUser = s.userDict ∧ p.dictFile = s.fileDict u ∧ p.ignored = c.ign u :=
  latest_open _ _ (macro_sequential_latest_partial ops h hF).2.2.2 u t l hb hl

/-- … and of a document the client has closed, deleted or never opened -/
theorem macro_latest_closed (ops : List Op) (h : HistOk (Client.init, State.init) ops)
    (hF : ∀ k order, Op.msg (.didChangeConfiguration k order) ∈ ops → order.length ≤ 454)
    (u : Url) (hb : (clientAfter (seqActs Client.init ops)).buf u = none) :
    let s := (runMacro (Sys.init State.init) (seqActs Client.init ops)).st
    s.outbox u = .empty ∨ s.outbox u = .never :=
  latest_closed _ _ (macro_sequential_latest_partial ops h hF).2.2.2 u hb

/-- non-vacuity of `macro_latest_open`: the first nine steps of the witness under `runMacro` (the
facets are obtained from the theorem, then evaluated) -/
example : ∃ p, (runMacro (Sys.init State.init) (seqActs Client.init (niceHistory.take 9))).st.outbox 0 = .diag p ∧
    p.text = tB ∧ p.sevCfg = 3 ∧ p.lintCfg = 3 ∧ p.parseCfg = 3 ∧ p.dictUser = [7] ∧ p.dictFile = [9] ∧
    p.ignored = true := by
  have hok : HistOk (Client.init, State.init) (niceHistory.take 9) :=
    ((histOk_append _ _ _).mp (niceHistory_split ▸ niceHistory_ok)).1
  have hF1 : ∀ k order, Op.msg (.didChangeConfiguration k order) ∈ niceHistory.take 9 → order.length ≤ 454 :=
    fun k order hm => niceHistory_fits k order (List.mem_of_mem_take hm)
  obtain ⟨p, h1, h2, h3, h4, h5, h6, h7, h8⟩ :=
    macro_latest_open _ hok hF1 0 tB .markdown (by decide) (by decide)
  refine ⟨p, h1, h2, ?_, ?_, ?_, ?_, ?_, ?_⟩
  · rw [h3]; decide
  · rw [h4]; decide
  · rw [h5]; decide
  · rw [h6]; decide
  · rw [h7]; decide
  · rw [h8]; decide

/-- non-vacuity of `macro_latest_closed`: the witness after close + delete, under `runMacro` -/
example :
    (runMacro (Sys.init State.init) (seqActs Client.init niceHistory)).st.outbox 0 = .empty ∨
    (runMacro (Sys.init State.init) (seqActs Client.init niceHistory)).st.outbox 0 = .never :=
  macro_latest_closed _ niceHistory_ok niceHistory_fits 0 (by decide)

/-- **`latest_after_notification` under the scheduler.** An idle server in ANY structurally sound state
receives `didChangeConfiguration(k)` and the client answers the handler's configuration requests (at
most one per key; `n ≥ order.length` answers, each carrying `k`) before doing anything else: the
server is idle again and `Latest` holds for the client configuration `k`. "Before doing anything
else" is the handler-runs-alone condition of `latest_after_notification`, now a statement about the
schedule; `order.length ≤ 454` is the scheduler's fuel. -/
theorem macro_latest_after_notification (c : Client) (y0 : Sys) (k : CfgV) (order : List Url) (n : Nat)
    (hidle : Idle y0) (hW : ∀ v, WeakAt c y0.st v) (hd : ∀ u, DiskIsBuf c y0.st u)
    (ho : ∀ u, u ∈ order ↔ (y0.st.docs u).isSome = true)
    (hF : order.length ≤ 454) (hn : order.length ≤ n) :
    let y := runMacro y0 (.recv (.didChangeConfiguration k order) :: List.replicate n (.reply 0 k))
    Idle y ∧ Latest { c with ck := k } y.st := by
  have hfit : (prog (.didChangeConfiguration k order)).1.length < settleFuel := by
    rw [prog_length]; simp only [settleFuel]; omega
  have hpull : pullsRun k y0.st (prog (.didChangeConfiguration k order)).2
      (prog (.didChangeConfiguration k order)).1 ≤ n :=
    Nat.le_trans (pullsRun_le _ _ _ _) (by rw [pullCount_prog]; exact hn)
  have h := macro_handle k y0.st y0.nextId (.didChangeConfiguration k order) n hfit hpull
  show Idle (runMacro y0 _) ∧ Latest _ (runMacro y0 _).st
  rw [hidle.eq, h]
  exact ⟨idleSys_idle _ _, latest_after_notification c y0.st k order hW hd ho⟩

/-- non-vacuity of `macro_latest_after_notification`, the scenario of
`linter_config_only_on_notification` under the scheduler: open, the client's configuration silently
becomes 1 (its answers carry 1), edit, write the file — the idle server `y0` is structurally sound,
stale in the linter facet — then the notification and one answer -/
example :
    let as : List Act := [.disk 0 (some tA), .recv (.didOpen 0 .markdown tA), .reply 0 0,
      .recv (.didChange 0 tB), .reply 0 1, .disk 0 (some tB)]
    let y0 := runMacro (Sys.init State.init) as
    let c : Client := { clientAfter as with ck := 1 }
    Idle y0 ∧ (∀ v, WeakAt c y0.st v) ∧ (∀ u, DiskIsBuf c y0.st u) ∧
    (∀ u, u ∈ [0] ↔ (y0.st.docs u).isSome = true) ∧
    y0.st.outbox 0 = .diag ⟨tB, .markdown, 1, 0, 1, [], [], none, false⟩ ∧
    (runMacro y0 [.recv (.didChangeConfiguration 1 [0]), .reply 0 1]).st.outbox 0
      = .diag ⟨tB, .markdown, 1, 1, 1, [], [], none, false⟩ := by
  refine ⟨⟨by decide, by decide, by decide⟩, ?_, ?_, ?_, by decide, by decide⟩
  all_goals
    simp [runMacro, macroStep, micro, settle, settleFuel, startOrQueue, stepHandler, findHandler, setHandler,
      dropHandler, runnable, reply, removeNth, maxConcurrency, Sys.init,
      clientAfter, clientOfAct, clientStep, prog, update, publishSegs, step,
      replaceDoc, lintSendDoc, publish, setF, Client.init, State.init, tA, tB, dictDiffers, WeakAt,
      DiskIsBuf, pubOf]
  · intro v; by_cases h : v = 0 <;> simp [h]
  · intro u t l; by_cases h : u = 0 <;> simp [h]
    intro h1 _; exact h1.symm ▸ rfl
  · intro u; by_cases h : u = 0 <;> simp [h]

end Harper.C09
