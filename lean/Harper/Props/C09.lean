import Harper.Lemmas.Server
/-!
# C09 — the language server's last word on a document reflects the latest text

Model: `Harper/Model/Server.lean` (`backend.rs` as atomic segments split at every `.await`;
a publication is the record of WHICH text / configuration / dictionaries it was computed from).
Helper lemmas: `Harper/Lemmas/Server.lean`.

The property (`Latest`): once the server is idle, for every URL the last publication equals
`truth` — the fresh lint of the newest text the client sent under the client's current
configuration and the dictionary files as they are — and is empty for closed / deleted documents.

* It is **proved for histories executed one handler at a time** under four side conditions
  (`OpOk`), each of which is necessary: a witness below shows the property failing without it.
* It is **false of the code under interleaving** (`concurrent_stale`, `interleaving_breaks_latest`).
-/
namespace Harper.C09
open Harper.Server

/-! ## the partial theorem -/

/-- **Sequential histories.** For every history executed one handler at a time (every
configuration request answered at once with the client's configuration) in which every `didSave` /
add-to-dictionary / `didChangeConfiguration` occurs when disk = buffer for the affected open
documents (and the other side conditions of `OpOk` hold), after the last handler the last
publication of every open document is the fresh lint of its latest text under the current
configuration and dictionaries, and closed or deleted documents have empty diagnostics.

`_partial`: the full property quantifies over ALL histories and ALL interleavings. What is missing
is false of the code — see `concurrent_stale`, `reread_stale`, `user_dict_other_docs_stale`,
`ident_dict_dropped` below (each is a recorded finding). -/
theorem sequential_latest_partial (ops : List Op)
    (h : HistOk (Client.init, State.init) ops) :
    Latest (seqRun (Client.init, State.init) ops).1 (seqRun (Client.init, State.init) ops).2 :=
  inv_latest (seq_inv ops _ inv_init h)

/-- The invariant behind it, from any state that satisfies it (e.g. mid-session). -/
theorem sequential_latest_from (c : Client) (s : State) (ops : List Op)
    (hI : Inv c s) (h : HistOk (c, s) ops) :
    Latest (seqRun (c, s) ops).1 (seqRun (c, s) ops).2 :=
  inv_latest (seq_inv ops (c, s) hI h)

/-- `Latest` says what the statement says: an open document's last publication is computed from
the newest text, the current configuration (all three facets) and the current dictionaries. -/
theorem latest_open (c : Client) (s : State) (h : Latest c s) (u : Url) (t : Text) (l : Lang)
    (hb : c.buf u = some (t, l)) (hl : l ≠ .unknown) :
    ∃ p, s.outbox u = .diag p ∧ p.text = t ∧ p.sevCfg = c.ck ∧ p.lintCfg = c.ck ∧ p.parseCfg = c.ck ∧
      p.dictUser = s.userDict ∧ p.dictFile = s.fileDict u ∧ p.ignored = c.ign u := by
  rcases h u with h | h
  · simp only [truth, hb, hl, if_false] at h
    exact ⟨_, h, rfl, rfl, rfl, rfl, rfl, rfl, rfl⟩
  · rw [hb] at h; exact absurd h.1 (by simp)

/-- … and a closed / deleted document's last publication is empty (or there never was one). -/
theorem latest_closed (c : Client) (s : State) (h : Latest c s) (u : Url) (hb : c.buf u = none) :
    s.outbox u = .empty ∨ s.outbox u = .never := by
  rcases h u with h | h
  · left; simpa [truth, hb] using h
  · right; exact h.2

/-! ### non-vacuity: a history that satisfies the hypotheses and exercises every handler -/

def tA : Text := ⟨0, 0⟩
def tB : Text := ⟨1, 0⟩
def tC : Text := ⟨2, 0⟩

/-- open, edit, write the file, save, add to both dictionaries, ignore, change the configuration,
close, delete -/
def niceHistory : List Op :=
  [.disk 0 (some tA), .msg (.didOpen 0 .markdown tA), .msg (.didChange 0 tB), .disk 0 (some tB),
   .msg (.didSave 0), .msg (.addUser 7 0), .msg (.addFile 9 0), .msg (.ignore 0),
   .msg (.didChangeConfiguration 3 [0]), .msg (.didClose 0), .msg (.deleted [0])]

/-- the hypotheses of `sequential_latest_partial` are satisfiable by a history that runs every handler -/
example : HistOk (Client.init, State.init) niceHistory := by
  simp [niceHistory, HistOk, OpOk, DiskIsBuf, seqStep, clientStep, handle, prog, update, publishSegs,
    rereadAndPublish, runSeq, step, replaceDoc, lintSendDoc, publish, setF, Client.init, State.init,
    tA, tB, dictDiffers, addWord]
  refine ⟨fun v hv => by simp [hv], fun u t l => ?_, fun u => ?_⟩
  · by_cases hu : u = 0 <;> simp [hu]
    intro h1 _; exact h1.symm ▸ rfl
  · by_cases hu : u = 0 <;> simp [hu]

/-- the state before the document goes away: last publication non-empty and computed from the
latest text `tB`, configuration 3 in all three facets, user word 7, file word 9, ignore applied -/
example :
    (seqRun (Client.init, State.init) (niceHistory.take 9)).2.outbox 0
      = .diag ⟨tB, .markdown, 3, 3, 3, [7], [9], none, true⟩ := by
  decide

example : (seqRun (Client.init, State.init) niceHistory).2.outbox 0 = .empty := by
  decide

/-- two documents, the configuration handler visiting them in either order -/
example :
    let w := seqRun (Client.init, State.init)
      [.disk 0 (some tA), .msg (.didOpen 0 .plain tA), .disk 1 (some tC), .msg (.didOpen 1 .ts tC),
       .msg (.didChangeConfiguration 2 [1, 0])]
    w.2.outbox 0 = .diag ⟨tA, .plain, 2, 2, 2, [], [], none, false⟩ ∧
    w.2.outbox 1 = .diag ⟨tC, .ts, 2, 2, 2, [], [], none, false⟩ := by
  decide

/-! ### the theorems applied to the witness -/

/-- `HistOk` of a concatenation: the first part is fine, and the second is fine from where the first
ends (so every prefix of an admissible history is admissible) -/
theorem histOk_append (a b : List Op) : ∀ w : Client × State,
    HistOk w (a ++ b) ↔ HistOk w a ∧ HistOk (seqRun w a) b := by
  induction a with
  | nil => intro w; simp [HistOk, seqRun]
  | cons op a ih =>
    intro w
    simp only [List.cons_append, HistOk, seqRun, List.foldl_cons]
    rw [ih (seqStep w op)]
    simp only [seqRun, and_assoc]

/-- non-vacuity of `sequential_latest_partial` / `sound_after_sequential` (named, to be applied below) -/
theorem niceHistory_ok : HistOk (Client.init, State.init) niceHistory := by
  simp [niceHistory, HistOk, OpOk, DiskIsBuf, seqStep, clientStep, handle, prog, update, publishSegs,
    rereadAndPublish, runSeq, step, replaceDoc, lintSendDoc, publish, setF, Client.init, State.init,
    tA, tB, dictDiffers, addWord]
  refine ⟨fun v hv => by simp [hv], fun u t l => ?_, fun u => ?_⟩
  · by_cases hu : u = 0 <;> simp [hu]
    intro h1 _; exact h1.symm ▸ rfl
  · by_cases hu : u = 0 <;> simp [hu]

theorem niceHistory_split : niceHistory = niceHistory.take 9 ++ niceHistory.drop 9 :=
  (List.take_append_drop 9 niceHistory).symm

/-- non-vacuity of `latest_open` (hypotheses `Latest`, an OPEN document of a known language — all
obtained from `sequential_latest_partial` on the first nine steps, not by evaluating the outbox) -/
example : ∃ p, (seqRun (Client.init, State.init) (niceHistory.take 9)).2.outbox 0 = .diag p ∧
    p.text = tB ∧ p.sevCfg = 3 ∧ p.lintCfg = 3 ∧ p.parseCfg = 3 ∧ p.dictUser = [7] ∧ p.dictFile = [9] ∧
    p.ignored = true := by
  have hok : HistOk (Client.init, State.init) (niceHistory.take 9) :=
    ((histOk_append _ _ _).mp (niceHistory_split ▸ niceHistory_ok)).1
  obtain ⟨p, h1, h2, h3, h4, h5, h6, h7, h8⟩ :=
    latest_open _ _ (sequential_latest_partial _ hok) 0 tB .markdown (by decide) (by decide)
  refine ⟨p, h1, h2, ?_, ?_, ?_, ?_, ?_, ?_⟩
  · rw [h3]; decide
  · rw [h4]; decide
  · rw [h5]; decide
  · rw [h6]; decide
  · rw [h7]; decide
  · rw [h8]; decide

/-- non-vacuity of `latest_closed`: the document of `niceHistory` after close + delete -/
example : (seqRun (Client.init, State.init) niceHistory).2.outbox 0 = .empty ∨
    (seqRun (Client.init, State.init) niceHistory).2.outbox 0 = .never :=
  latest_closed _ _ (sequential_latest_partial _ niceHistory_ok) 0 (by decide)

/-- non-vacuity of `sequential_latest_from`: started mid-session (after nine steps, document open and
published) with the invariant of that state -/
example : Latest (seqRun (seqRun (Client.init, State.init) (niceHistory.take 9)) (niceHistory.drop 9)).1
    (seqRun (seqRun (Client.init, State.init) (niceHistory.take 9)) (niceHistory.drop 9)).2 := by
  have h := (histOk_append _ _ _).mp (niceHistory_split ▸ niceHistory_ok)
  exact sequential_latest_from _ _ _ (seq_inv _ _ inv_init h.1) h.2

/-- non-vacuity of `sequential_latest_partial` with TWO documents (one of a tree-sitter language, one
reopened under an id no parser exists for), a two-key configuration order, `didSave`, an unknown
command, both add-to-dictionary commands: the side conditions of `OpOk` hold together -/
example : HistOk (Client.init, State.init)
    [.disk 0 (some tA), .msg (.didOpen 0 .plain tA), .disk 1 (some tC), .msg (.didOpen 1 .ts tC),
     .msg (.didChangeConfiguration 2 [1, 0]), .msg (.didSave 1), .msg .noop, .msg (.addFile 4 1),
     .msg (.didClose 1), .msg (.addUser 7 0), .msg (.didOpen 1 .unknown tB)] := by
  simp [HistOk, OpOk, DiskIsBuf, seqStep, clientStep, handle, prog, update, publishSegs,
    rereadAndPublish, runSeq, step, replaceDoc, lintSendDoc, publish, setF, Client.init, State.init,
    tA, tB, tC, dictDiffers, addWord]
  refine ⟨⟨fun u t l => ?_, fun u => ?_⟩, fun v h0 h1 => by simp [h0, h1]⟩
  · by_cases h1 : u = 1 <;> by_cases h0 : u = 0 <;> simp [h1, h0] <;> (intro h _; exact h)
  · by_cases h1 : u = 1 <;> by_cases h0 : u = 0 <;> simp [h1, h0]

/-- … and where it ends: document 0 carries configuration 2 and the user word, document 1 (unknown
language) has empty diagnostics -/
example :
    let w := seqRun (Client.init, State.init)
      [.disk 0 (some tA), .msg (.didOpen 0 .plain tA), .disk 1 (some tC), .msg (.didOpen 1 .ts tC),
       .msg (.didChangeConfiguration 2 [1, 0]), .msg (.didSave 1), .msg .noop, .msg (.addFile 4 1),
       .msg (.didClose 1), .msg (.addUser 7 0), .msg (.didOpen 1 .unknown tB)]
    w.2.outbox 0 = .diag ⟨tA, .plain, 2, 2, 2, [7], [], none, false⟩ ∧ w.2.outbox 1 = .empty ∧
    w.2.fileDict 1 = [4] := by
  decide

/-- **`seqRun` against the scheduler the driver runs.** The theorems above are about `seqRun` /
`runSeq` (one handler alone); the driver op `srv` and every counter-schedule below run `runMacro`
(`Sys`, `settle`). Both execute the same `prog` and `step`; there is no general lemma relating them.
On the witness they agree: `niceHistory` fed to `runMacro` with every configuration request answered
at once (the client's configuration: 0, then 3) leaves the server idle with exactly the same
publication log (eight publications), dictionaries and configuration. -/
example :
    let as : List Act :=
      [.disk 0 (some tA), .recv (.didOpen 0 .markdown tA), .reply 0 0, .recv (.didChange 0 tB), .reply 0 0,
       .disk 0 (some tB), .recv (.didSave 0), .reply 0 0, .recv (.addUser 7 0), .reply 0 0,
       .recv (.addFile 9 0), .reply 0 0, .recv (.ignore 0),
       .recv (.didChangeConfiguration 3 [0]), .reply 0 3, .recv (.didClose 0), .recv (.deleted [0])]
    let y := runMacro (Sys.init State.init) as
    let w := seqRun (Client.init, State.init) niceHistory
    y.pend = [] ∧ y.run.isEmpty = true ∧ y.queue.isEmpty = true ∧
    y.st.log = w.2.log ∧ y.st.userDict = w.2.userDict ∧ y.st.fileDict 0 = w.2.fileDict 0 ∧
    y.st.config = w.2.config ∧ y.st.badOrder = false ∧ w.2.log.length = 8 := by
  decide

/-! ## false under interleaving -/

/-- Two `didChange` of one URL; the client answers the SECOND handler's configuration request
first. (`Act.disk`/`recv`/`reply` are client actions; after each one the server runs until idle.) -/
def staleSchedule : List Act :=
  [.disk 0 (some tA), .recv (.didOpen 0 .plain tA), .reply 0 0,
   .recv (.didChange 0 tB), .recv (.didChange 0 tC), .reply 1 0, .reply 0 0]

def plainPub (t : Text) : Pub :=
  { text := t, lang := .plain, sevCfg := 0, lintCfg := 0, parseCfg := 0, dictUser := [],
    dictFile := [], dictIdent := none, ignored := false }

/-- **The full property is false of the code under interleaving.** After the schedule the server is
idle (nothing pending, nothing in flight), the client's newest text is `tC`, and the last
publication — and the document the server holds — is the OLDER text `tB`. The three publications
are `tA`, `tC`, `tB` in this order. Recorded finding `c09-overlapping-updates`; the same schedule is
replayed against the real server on every run (corpus `witness-overlapping-updates`). -/
theorem concurrent_stale :
    let y := runMacro (Sys.init State.init) staleSchedule
    y.pend = [] ∧ y.run.isEmpty = true ∧ y.queue.isEmpty = true ∧
    (clientAfter staleSchedule).buf 0 = some (tC, .plain) ∧
    y.st.outbox 0 = .diag (plainPub tB) ∧
    pubsOf y.st 0 = [.diag (plainPub tA), .diag (plainPub tC), .diag (plainPub tB)] := by
  decide

/-- hence `Latest` fails for an idle server after a well-formed client session -/
theorem interleaving_breaks_latest :
    ∃ as : List Act,
      (runMacro (Sys.init State.init) as).pend = [] ∧
      (runMacro (Sys.init State.init) as).run.isEmpty = true ∧
      ¬ Latest (clientAfter as) (runMacro (Sys.init State.init) as).st := by
  refine ⟨staleSchedule, by decide, by decide, fun h => ?_⟩
  rcases h 0 with h | h
  · revert h; decide
  · revert h; decide

/-- The same race as an explicit interleaving of SEGMENTS (`Act.step id` = one segment of handler
`id`): handler 1 (`didChange tB`) sends its configuration request; handler 2 (`didChange tC`) sends
its own, is answered, and runs its seven remaining segments; then handler 1 is answered and runs. -/
def staleMicro : List Act :=
  [.recv (.didOpen 0 .plain tA), .step 0, .reply 0 0, .step 0, .step 0, .step 0, .step 0, .step 0,
   .step 0, .step 0, .step 0,
   .recv (.didChange 0 tB), .step 1, .recv (.didChange 0 tC), .step 2,
   .reply 1 0, .step 2, .step 2, .step 2, .step 2, .step 2, .step 2, .step 2, .step 2,
   .reply 0 0, .step 1, .step 1, .step 1, .step 1, .step 1, .step 1, .step 1, .step 1]

example :
    let y := runMicro (Sys.init State.init) staleMicro
    y.pend = [] ∧ y.run.isEmpty = true ∧ y.st.outbox 0 = .diag (plainPub tB) := by
  decide

/-- A finer interleaving the client cannot force but the model admits (file I/O completion order):
the configuration read of one handler falls between the configuration write and read of another.
Handler 2's publication carries configuration 1 for the severity although it was answered with 0. -/
example :
    let y := runMicro (Sys.init State.init)
      [.recv (.didOpen 0 .plain tA), .recv (.didChange 0 tB), .step 0, .step 1,
       .reply 0 0, .reply 0 1,
       .step 0, .step 0, .step 0, .step 0, .step 0, .step 0,      -- handler 0 up to sevRead (config 0)
       .step 1,                                                     -- handler 1 writes config 1
       .step 0, .step 0]                                            -- handler 0 publishes
    y.st.outbox 0 = .diag { plainPub tA with sevCfg := 0 } ∧ y.st.config = 1 := by
  decide

/-- the sequential schedule of the same three messages IS fine (so the failure is the interleaving) -/
example :
    let as : List Act := [.disk 0 (some tA), .recv (.didOpen 0 .plain tA), .reply 0 0,
      .recv (.didChange 0 tB), .reply 0 0, .recv (.didChange 0 tC), .reply 0 0]
    (runMacro (Sys.init State.init) as).st.outbox 0 = truth (clientAfter as) (runMacro (Sys.init State.init) as).st 0 := by
  decide

/-- more than four messages: the fifth handler starts only when a slot is free (`buffer_unordered(4)`) -/
example :
    let y := runMacro (Sys.init State.init)
      [.recv (.didOpen 0 .plain tA), .reply 0 0, .recv (.didChange 0 ⟨1, 0⟩), .recv (.didChange 0 ⟨2, 0⟩),
       .recv (.didChange 0 ⟨3, 0⟩), .recv (.didChange 0 ⟨4, 0⟩), .recv (.didChange 0 ⟨5, 0⟩)]
    y.pend.length = 4 ∧ y.queue.length = 1 := by
  decide

/-! ## false without `disk = buffer` -/

/-- `didOpen(A, disk holds A); didChange(B); HarperAddToUserDict` — one handler at a time — ends with
A's diagnostics: the command re-reads the file. Recorded finding `c09-reread-from-disk`
(corpus `witness-reread-from-disk`). -/
def rereadHistory : List Op :=
  [.disk 0 (some tA), .msg (.didOpen 0 .plain tA), .msg (.didChange 0 tB), .msg (.addUser 7 0)]

theorem reread_stale :
    let w := seqRun (Client.init, State.init) rereadHistory
    w.1.buf 0 = some (tB, .plain) ∧
    w.2.outbox 0 = .diag { plainPub tA with dictUser := [7] } ∧
    ¬ Latest w.1 w.2 := by
  refine ⟨by decide, by decide, fun h => ?_⟩
  rcases h 0 with h | h
  · revert h; decide
  · revert h; decide

/-- the hypothesis that fails is exactly `DiskIsBuf` at the command -/
example : ¬ HistOk (Client.init, State.init) rereadHistory := by
  simp [rereadHistory, HistOk, OpOk, DiskIsBuf, seqStep, clientStep, handle, prog, update, publishSegs,
    runSeq, step, replaceDoc, lintSendDoc, publish, setF, Client.init, State.init, tA, tB, dictDiffers]

/-- same for `didSave` announced before the file is written, and for a configuration change while
the file does not exist (the update is skipped: the parser configuration of the document stays 0) -/
example :
    (seqRun (Client.init, State.init)
      [.disk 0 (some tA), .msg (.didOpen 0 .plain tA), .msg (.didChange 0 tB), .msg (.didSave 0)]).2.outbox 0
      = .diag (plainPub tA) := by
  decide

example :
    (seqRun (Client.init, State.init)
      [.msg (.didOpen 0 .markdown tA), .msg (.didChangeConfiguration 2 [0])]).2.outbox 0
      = .diag ⟨tA, .markdown, 2, 2, 0, [], [], none, false⟩ := by
  decide

/-! ## two more defects the side conditions exclude -/

/-- A word added to the user dictionary through one document stays flagged in the other open
document: only the command's target is re-linted. Recorded finding `c09-user-dict-other-docs`. -/
theorem user_dict_other_docs_stale :
    let w := seqRun (Client.init, State.init)
      [.disk 0 (some tA), .msg (.didOpen 0 .plain tA), .disk 1 (some tB), .msg (.didOpen 1 .plain tB),
       .msg (.addUser 7 0)]
    w.2.userDict = [7] ∧ w.2.outbox 0 = .diag { plainPub tA with dictUser := [7] } ∧
    w.2.outbox 1 = .diag (plainPub tB) ∧ ¬ LatestAt w.1 w.2 1 := by
  refine ⟨by decide, by decide, by decide, fun h => ?_⟩
  rcases h with h | h
  · revert h; decide
  · revert h; decide

/-- Tree-sitter documents: the identifier dictionary (set 1) is merged by the first update and
dropped by the second. Recorded finding `c09-ident-dict-dropped`. -/
theorem ident_dict_dropped :
    let t0 : Text := ⟨0, 1⟩
    let t1 : Text := ⟨1, 1⟩
    let w1 := seqRun (Client.init, State.init) [.msg (.didOpen 0 .ts t0)]
    let w2 := seqRun w1 [.msg (.didChange 0 t1)]
    w1.2.outbox 0 = .diag ⟨t0, .ts, 0, 0, 0, [], [], some 1, false⟩ ∧
    w2.2.outbox 0 = .diag ⟨t1, .ts, 0, 0, 0, [], [], none, false⟩ ∧
    truth w2.1 w2.2 0 = .diag ⟨t1, .ts, 0, 0, 0, [], [], some 1, false⟩ := by
  decide

/-- … and it comes back when the set of identifiers changes (set 2) -/
example :
    (seqRun (Client.init, State.init)
      [.msg (.didOpen 0 .ts ⟨0, 1⟩), .msg (.didChange 0 ⟨1, 1⟩), .msg (.didChange 0 ⟨2, 2⟩)]).2.outbox 0
      = .diag ⟨⟨2, 2⟩, .ts, 0, 0, 0, [], [], some 2, false⟩ := by
  decide

/-! ## a configuration the client has not announced -/

/-- The client's configuration becomes `k` WITHOUT a `didChangeConfiguration`: from now on its
`workspace/configuration` answers carry `k`. -/
def silently (k : CfgV) (w : Client × State) : Client × State := ({ w.1 with ck := k }, w.2)

/-- **Configuration learnt only through a pull is applied piecemeal.** Open under configuration 0;
the client's configuration silently becomes 1; a `didChange` pulls it. The publication takes the
severity and the parser options from configuration 1 but the `LintGroup` is still the one built
under configuration 0 (it is rebuilt only on creation, on a dictionary change and by
`didChangeConfiguration`) — a mixture that is the fresh lint under neither configuration, and not
`truth`. Recorded finding `c09-linter-config-only-on-notification`
(corpus `witness-linter-config-only-on-notification`). -/
theorem linter_config_only_on_notification :
    let w1 := seqRun (Client.init, State.init) [.disk 0 (some tA), .msg (.didOpen 0 .markdown tA)]
    let w2 := seqRun (silently 1 w1) [.msg (.didChange 0 tB)]
    w2.2.config = 1 ∧
    w2.2.outbox 0 = .diag ⟨tB, .markdown, 1, 0, 1, [], [], none, false⟩ ∧
    truth w2.1 w2.2 0 = .diag ⟨tB, .markdown, 1, 1, 1, [], [], none, false⟩ := by
  decide

/-- **After a `didChangeConfiguration` everything is current** (the hard requirement). From ANY
structurally sound state (`WeakAt`: the right documents are loaded, in the client's languages,
without identifier dictionary; text, configuration facets, dictionaries, `Backend::config` and last
publications arbitrary — in particular `Backend::config` may ALREADY equal the announced
configuration because an earlier pull wrote it), once the handler of a
`didChangeConfiguration(k)` that finds disk = buffer has finished, `Latest` holds for the client
configuration `k`: every open document's last publication has severity, linter and parser facets
`k`, the newest text and the current dictionaries. A handler that skips rebuilding the linters when
`Backend::config` already holds the new settings violates exactly this. The handler runs ALONE here
(`handle`: its segments are not interleaved with another handler's); under interleaving the statement
is false — see `concurrent_stale`. -/
theorem latest_after_notification (c : Client) (s : State) (k : CfgV) (order : List Url)
    (hW : ∀ v, WeakAt c s v) (hd : ∀ u, DiskIsBuf c s u)
    (ho : ∀ u, u ∈ order ↔ (s.docs u).isSome = true) :
    Latest { c with ck := k } (handle k s (.didChangeConfiguration k order)) :=
  inv_latest (config_repairs hW k order hd ho)

/-- non-vacuity, and the scenario of the finding repaired by the notification: the stale state of
`linter_config_only_on_notification` (after the editor wrote the file) satisfies the hypotheses … -/
example :
    let w1 := seqRun (Client.init, State.init) [.disk 0 (some tA), .msg (.didOpen 0 .markdown tA)]
    let w2 := seqRun (silently 1 w1) [.msg (.didChange 0 tB), .disk 0 (some tB)]
    (∀ v, WeakAt w2.1 w2.2 v) ∧ (∀ u, DiskIsBuf w2.1 w2.2 u) ∧
    (∀ u, u ∈ [0] ↔ (w2.2.docs u).isSome = true) := by
  simp [seqRun, seqStep, silently, clientStep, handle, prog, update, publishSegs, runSeq, step,
      replaceDoc, lintSendDoc, publish, setF, Client.init, State.init, tA, tB, dictDiffers, WeakAt,
      DiskIsBuf, pubOf]
  refine ⟨fun v => ?_, fun u t l => ?_, fun u => ?_⟩
  · by_cases h : v = 0 <;> simp [h]
  · by_cases h : u = 0 <;> simp [h]
    intro h1 _; exact h1.symm ▸ rfl
  · by_cases h : u = 0 <;> simp [h]

/-- … and the notification of configuration 1 (which `Backend::config` already holds) makes the
linter facet current -/
example :
    let w1 := seqRun (Client.init, State.init) [.disk 0 (some tA), .msg (.didOpen 0 .markdown tA)]
    let w2 := seqRun (silently 1 w1) [.msg (.didChange 0 tB), .disk 0 (some tB)]
    let w3 := seqRun w2 [.msg (.didChangeConfiguration 1 [0])]
    w2.2.config = 1 ∧ w3.2.outbox 0 = .diag ⟨tB, .markdown, 1, 1, 1, [], [], none, false⟩ ∧
    w3.2.outbox 0 = truth w3.1 w3.2 0 := by
  decide

/-- every state reached by a history that satisfies `OpOk` is structurally sound for whatever the
client's configuration silently becomes -/
theorem sound_after_sequential (ops : List Op) (h : HistOk (Client.init, State.init) ops) (k : CfgV) :
    ∀ v, WeakAt { (seqRun (Client.init, State.init) ops).1 with ck := k }
      (seqRun (Client.init, State.init) ops).2 v :=
  (seq_inv ops _ inv_init h).weak k

end Harper.C09
