import Harper.Lemmas.Rules2
import Harper.Lemmas.Rules2Walk
import Harper.Lemmas.Rules2Pat
import Harper.Props.C12b
import Harper.Props.C03e
/-!
# C12 (hand-written rules, batch 2) — paragraph locality of thirteen more rules, as theorems

* Per token (SpelledNumbers, CapitalizePersonalPronouns, AvoidCurses, WordPressDotcom), per chunk (LinkingVerbs,
  WidelyAccepted, TheHowWhy) and per sentence (OxfordComma — its start cursor depends on the sentence's first two
  known words and first comma — and NoOxfordComma): `<rule>_xlocal : XLocalE …`, hence `Appends` and
  `<rule>_paragraphs_separately` exactly as in `Props/C12b.lean`.
* **CommaFixes, MergeWords, AdjectiveOfA and InflectedVerbAfterTo loop over the WHOLE document** (`get_token(ci ± 2)`,
  `tokens().tuple_windows()`, `get_token(i + 1 … i + 4)`, `get_token(pi + 1, pi + 2)`): they are not `overPieces` of anything, and their
  windows do straddle sentence, chunk and paragraph boundaries. They are paragraph-local nevertheless, because
  every window that straddles the break contains the `ParagraphBreak` token, which is neither a word, a blank
  nor unlintable — the only things the windows ask for: `<rule>_winLocal : WinLocal …` (`blindAfter`,
  `blindBefore`), and `walkE_append` (`Lemmas/Rules2Walk.lean`) turns that into `Appends`.
  The premise of C12 (`2 ≤ k` newlines, so that the separator IS a `ParagraphBreak`) is needed: with ONE
  newline between the two texts MergeWords merges `note⏎` + `book` (kernel-checked), and CommaFixes looks from
  one line into the next.
-/
namespace Harper.C12
open Harper Harper.Chunks Harper.Rules Harper.Leaves Harper.Rules2
open Harper.C02 (asciiCls)

/-! ## locality of each modelled rule's piece / token / window function -/

theorem spelledNumbers_xlocal (env : Env) : XLocalE (perTok (spelledNumbersTok env)) := perTok_xlocal (spelledNumbers_tokLocal env)
theorem capitalizePersonalPronouns_xlocal : XLocalE (perTok capitalizePronounTok) := perTok_xlocal capitalizePronoun_tokLocal
theorem avoidCurses_xlocal (env : Env) : XLocalE (perTok (avoidCursesTok env)) := perTok_xlocal (avoidCurses_tokLocal env)
theorem wordPressDotcom_xlocal (env : Env) : XLocalE (perTok (wordPressTok env)) := perTok_xlocal (wordPress_tokLocal env)
/-- per chunk: the last word before each linking verb, its metadata, the verb's text -/
theorem linkingVerbs_xlocal (env : Env) : XLocalE (linkingVerbsPiece env) := Rules2.linkingVerbs_xlocal env
/-- per sentence: the start cursor (first two known words, first comma), the pattern, `match_to_lint` -/
theorem oxfordComma_xlocal (env : Env) : XLocalE (oxfordPiece env) := oxford_xlocal env
theorem noOxfordComma_xlocal (env : Env) : XLocalE (noOxfordPiece env) := noOxford_xlocal env
theorem widelyAccepted_xlocal (env : Env) : XLocalE (widelyPiece env) := widely_xlocal env
theorem theHowWhy_xlocal (env : Env) : XLocalE (theHowWhyPiece env) := Rules2.theHowWhy_xlocal env

/-- CommaFixes' window (two tokens back, two ahead) is local in the text and blind across a paragraph break -/
theorem commaFixes_winLocal : WinLocal commaAt := Rules2.commaFixes_winLocal
/-- MergeWords' window `(a, w, b)` -/
theorem mergeWords_winLocal (env : Env) : WinLocal (mergeAt env) := Rules2.mergeWords_winLocal env
/-- AdjectiveOfA's window `adjective ␣ of ␣ a` -/
theorem adjectiveOfA_winLocal (env : Env) : WinLocal (adjOfAAt env) := Rules2.adjectiveOfA_winLocal env

/-- InflectedVerbAfterTo's window `to ␣ verb` -/
theorem inflectedVerbAfterTo_winLocal (env : Env) : WinLocal (inflectedAt env) := Rules2.inflectedVerbAfterTo_winLocal env

/-! ## two documents joined at a paragraph break -/

theorem spelledNumbers_appends (env : Env) : Appends (ruleSpelledNumbers env) := appends_perTok _ (spelledNumbers_tokLocal env)
theorem capitalizePersonalPronouns_appends (env : Env) : Appends (ruleCapitalizePersonalPronouns env) :=
  appends_perTok _ capitalizePronoun_tokLocal
theorem avoidCurses_appends (env : Env) : Appends (ruleAvoidCurses env) := appends_perTok _ (avoidCurses_tokLocal env)
theorem wordPressDotcom_appends (env : Env) : Appends (ruleWordPressDotcom env) := appends_perTok _ (wordPress_tokLocal env)
theorem linkingVerbs_appends (env : Env) : Appends (ruleLinkingVerbs env) := appends_chunks _ (linkingVerbs_xlocal env)
theorem oxfordComma_appends (env : Env) : Appends (ruleOxfordComma env) := appends_sentences _ (oxfordComma_xlocal env)
theorem noOxfordComma_appends (env : Env) : Appends (ruleNoOxfordComma env) := appends_sentences _ (noOxfordComma_xlocal env)
theorem widelyAccepted_appends (env : Env) : Appends (ruleWidelyAccepted env) := appends_chunks _ (widelyAccepted_xlocal env)
theorem theHowWhy_appends (env : Env) : Appends (ruleTheHowWhy env) := appends_chunks _ (theHowWhy_xlocal env)

/-- **a rule that walks the whole document with a `WinLocal` window `Appends`** -/
theorem appends_walk (f : WinFn) (hf : WinLocal f) : Appends (fun src toks => walkE (f src) [] toks) :=
  fun P D A0 brk td hb hin hd => walkE_append f hf P D A0 brk hb td hin hd

theorem commaFixes_appends (env : Env) : Appends (ruleCommaFixes env) := appends_walk _ commaFixes_winLocal
theorem mergeWords_appends (env : Env) : Appends (ruleMergeWords env) := appends_walk _ (mergeWords_winLocal env)
theorem adjectiveOfA_appends (env : Env) : Appends (ruleAdjectiveOfA env) := appends_walk _ (adjectiveOfA_winLocal env)

theorem inflectedVerbAfterTo_appends (env : Env) : Appends (ruleInflectedVerbAfterTo env) :=
  appends_walk _ (inflectedVerbAfterTo_winLocal env)

/-! ## end to end: from the characters of `P` and `D` -/

/-- `ParagraphPair` for the ASCII class table and no url / e-mail / hostname lexer: three decidable conditions on the two
texts are left (the hypothesis of the thirteen theorems below does not mention the rule) -/
theorem paragraphPair_ascii_noExt_r2 (P0 D : List Char) (h1 : NoNlEnd P0) (h2 : D.head? ≠ some '\n')
    (h3 : NoQuoteChars (P0 ++ List.replicate 2 '\n')) : ParagraphPair asciiCls P0 D 2 noExt noExt noExt where
  cls_ok := ⟨by decide, by decide, by
    intro c h
    simp only [asciiCls, isAsciiDigit, Bool.and_eq_true, decide_eq_true_eq] at h
    refine ⟨?_, ?_, ?_⟩
    · simp only [isAsciiAlpha, Bool.or_eq_false_iff, Bool.and_eq_false_imp, decide_eq_true_eq, decide_eq_false_iff_not]
      constructor <;> intro h3 <;> intro h4
      · exact absurd (Char.le_trans h3 h.2) (by decide)
      · exact absurd (Char.le_trans h3 h.2) (by decide)
    · intro hc; subst hc; exact absurd h.1 (by decide)
    · intro hc; subst hc; exact absurd h.1 (by decide)⟩
  two := Nat.le_refl 2
  no_nl_end := h1
  d_head := h2
  no_quotes := h3
  ext_local := ⟨fun _ _ => rfl, fun _ => rfl⟩
  ext_ok_p := by intro _ _ _ h; cases h
  ext_ok_d := by intro _ _ _ h; cases h
  ext_no_nl := by intro _ _ _ h; cases h

/-- non-vacuity of the thirteen `<rule>_paragraphs_separately`: pairs of texts that are `ParagraphPair`s (the lints of each
rule on such pairs, in both paragraphs: after each theorem, on the tokens; from the characters: the end of this file) -/
example : ParagraphPair asciiCls ['i', ' ', 'a', 't', 'e', ' ', '9', '.'] ['i', ' ', 'a', 't', 'e', ' ', '9', '.'] 2 noExt noExt noExt ∧
    ParagraphPair asciiCls ['b', 'i', 'g', ' ', 'o', 'f', ' ', 'a'] ['b', 'i', 'g', ' ', ' ', 'o', 'f', ' ', 'a', 'n', ' ', 'x'] 2 noExt noExt noExt :=
  ⟨paragraphPair_ascii_noExt_r2 _ _ (by decide) (by decide) (by decide), paragraphPair_ascii_noExt_r2 _ _ (by decide) (by decide) (by decide)⟩

theorem spelledNumbers_paragraphs_separately (env : Env) (cls : Cls) (P0 D : List Char) (k : Nat)
    (extP extD extPD : Ext) (h : ParagraphPair cls P0 D k extP extD extPD) :
    docRule cls extPD (ruleSpelledNumbers env) ((P0 ++ List.replicate k '\n') ++ D) =
      joinE (P0 ++ List.replicate k '\n').length (docRule cls extP (ruleSpelledNumbers env) (P0 ++ List.replicate k '\n'))
        (docRule cls extD (ruleSpelledNumbers env) D) :=
  separately_of_appends _ (spelledNumbers_appends env) cls P0 D k extP extD extPD h
/-- `SpelledNumbers` fires in both paragraphs: tokens tiling `i ate 9.¶¶` (the last one the `ParagraphBreak`) and `i ate 9.`, the second list moved by 10 — the premises of `Appends` hold -/
example : (∀ t ∈ [⟨⟨0, 1⟩, .word⟩, ⟨⟨1, 2⟩, .space 1⟩, ⟨⟨2, 5⟩, .word⟩, ⟨⟨5, 6⟩, .space 1⟩, ⟨⟨6, 7⟩, .number 10 none⟩, ⟨⟨7, 8⟩, .punct .Period⟩, ⟨⟨8, 10⟩, .paragraphBreak⟩], tokOK t = true ∧ t.span.stop ≤ 10) ∧
    (∀ t ∈ [⟨⟨0, 1⟩, .word⟩, ⟨⟨1, 2⟩, .space 1⟩, ⟨⟨2, 5⟩, .word⟩, ⟨⟨5, 6⟩, .space 1⟩, ⟨⟨6, 7⟩, .number 10 none⟩, ⟨⟨7, 8⟩, .punct .Period⟩], tokOK t = true) ∧
    ruleSpelledNumbers ({ env0 with numVal := fun _ => .int 9 }) ((['i', ' ', 'a', 't', 'e', ' ', '9', '.'] ++ ['\n', '\n']) ++ ['i', ' ', 'a', 't', 'e', ' ', '9', '.'])
      ([⟨⟨0, 1⟩, .word⟩, ⟨⟨1, 2⟩, .space 1⟩, ⟨⟨2, 5⟩, .word⟩, ⟨⟨5, 6⟩, .space 1⟩, ⟨⟨6, 7⟩, .number 10 none⟩, ⟨⟨7, 8⟩, .punct .Period⟩, ⟨⟨8, 10⟩, .paragraphBreak⟩] ++ shiftDoc 10 7 [⟨⟨0, 1⟩, .word⟩, ⟨⟨1, 2⟩, .space 1⟩, ⟨⟨2, 5⟩, .word⟩, ⟨⟨5, 6⟩, .space 1⟩, ⟨⟨6, 7⟩, .number 10 none⟩, ⟨⟨7, 8⟩, .punct .Period⟩]) =
      .ok [⟨⟨6, 7⟩, [.replaceWith ['n', 'i', 'n', 'e']], 21, 0⟩, ⟨⟨16, 17⟩, [.replaceWith ['n', 'i', 'n', 'e']], 21, 0⟩] := by decide

theorem capitalizePersonalPronouns_paragraphs_separately (env : Env) (cls : Cls) (P0 D : List Char) (k : Nat)
    (extP extD extPD : Ext) (h : ParagraphPair cls P0 D k extP extD extPD) :
    docRule cls extPD (ruleCapitalizePersonalPronouns env) ((P0 ++ List.replicate k '\n') ++ D) =
      joinE (P0 ++ List.replicate k '\n').length (docRule cls extP (ruleCapitalizePersonalPronouns env) (P0 ++ List.replicate k '\n'))
        (docRule cls extD (ruleCapitalizePersonalPronouns env) D) :=
  separately_of_appends _ (capitalizePersonalPronouns_appends env) cls P0 D k extP extD extPD h
/-- `CapitalizePersonalPronouns` fires in both paragraphs: tokens tiling `i ate 9.¶¶` (the last one the `ParagraphBreak`) and `i ate 9.`, the second list moved by 10 — the premises of `Appends` hold -/
example : (∀ t ∈ [⟨⟨0, 1⟩, .word⟩, ⟨⟨1, 2⟩, .space 1⟩, ⟨⟨2, 5⟩, .word⟩, ⟨⟨5, 6⟩, .space 1⟩, ⟨⟨6, 7⟩, .number 10 none⟩, ⟨⟨7, 8⟩, .punct .Period⟩, ⟨⟨8, 10⟩, .paragraphBreak⟩], tokOK t = true ∧ t.span.stop ≤ 10) ∧
    (∀ t ∈ [⟨⟨0, 1⟩, .word⟩, ⟨⟨1, 2⟩, .space 1⟩, ⟨⟨2, 5⟩, .word⟩, ⟨⟨5, 6⟩, .space 1⟩, ⟨⟨6, 7⟩, .number 10 none⟩, ⟨⟨7, 8⟩, .punct .Period⟩], tokOK t = true) ∧
    ruleCapitalizePersonalPronouns (env0) ((['i', ' ', 'a', 't', 'e', ' ', '9', '.'] ++ ['\n', '\n']) ++ ['i', ' ', 'a', 't', 'e', ' ', '9', '.'])
      ([⟨⟨0, 1⟩, .word⟩, ⟨⟨1, 2⟩, .space 1⟩, ⟨⟨2, 5⟩, .word⟩, ⟨⟨5, 6⟩, .space 1⟩, ⟨⟨6, 7⟩, .number 10 none⟩, ⟨⟨7, 8⟩, .punct .Period⟩, ⟨⟨8, 10⟩, .paragraphBreak⟩] ++ shiftDoc 10 7 [⟨⟨0, 1⟩, .word⟩, ⟨⟨1, 2⟩, .space 1⟩, ⟨⟨2, 5⟩, .word⟩, ⟨⟨5, 6⟩, .space 1⟩, ⟨⟨6, 7⟩, .number 10 none⟩, ⟨⟨7, 8⟩, .punct .Period⟩]) =
      .ok [⟨⟨0, 1⟩, [.replaceWith ['I']], 22, 0⟩, ⟨⟨10, 11⟩, [.replaceWith ['I']], 22, 0⟩] := by decide

theorem avoidCurses_paragraphs_separately (env : Env) (cls : Cls) (P0 D : List Char) (k : Nat)
    (extP extD extPD : Ext) (h : ParagraphPair cls P0 D k extP extD extPD) :
    docRule cls extPD (ruleAvoidCurses env) ((P0 ++ List.replicate k '\n') ++ D) =
      joinE (P0 ++ List.replicate k '\n').length (docRule cls extP (ruleAvoidCurses env) (P0 ++ List.replicate k '\n'))
        (docRule cls extD (ruleAvoidCurses env) D) :=
  separately_of_appends _ (avoidCurses_appends env) cls P0 D k extP extD extPD h
/-- `AvoidCurses` fires in both paragraphs: tokens tiling `damn it.¶¶` (the last one the `ParagraphBreak`) and `damn it`, the second list moved by 10 — the premises of `Appends` hold -/
example : (∀ t ∈ [⟨⟨0, 4⟩, .word⟩, ⟨⟨4, 5⟩, .space 1⟩, ⟨⟨5, 7⟩, .word⟩, ⟨⟨7, 8⟩, .punct .Period⟩, ⟨⟨8, 10⟩, .paragraphBreak⟩], tokOK t = true ∧ t.span.stop ≤ 10) ∧
    (∀ t ∈ [⟨⟨0, 4⟩, .word⟩, ⟨⟨4, 5⟩, .space 1⟩, ⟨⟨5, 7⟩, .word⟩], tokOK t = true) ∧
    ruleAvoidCurses ({ env0 with wordFlags := fun w => if w == ['d', 'a', 'm', 'n'] then 262144 else 0 }) ((['d', 'a', 'm', 'n', ' ', 'i', 't', '.'] ++ ['\n', '\n']) ++ ['d', 'a', 'm', 'n', ' ', 'i', 't'])
      ([⟨⟨0, 4⟩, .word⟩, ⟨⟨4, 5⟩, .space 1⟩, ⟨⟨5, 7⟩, .word⟩, ⟨⟨7, 8⟩, .punct .Period⟩, ⟨⟨8, 10⟩, .paragraphBreak⟩] ++ shiftDoc 10 5 [⟨⟨0, 4⟩, .word⟩, ⟨⟨4, 5⟩, .space 1⟩, ⟨⟨5, 7⟩, .word⟩]) =
      .ok [⟨⟨0, 4⟩, [], 23, 0⟩, ⟨⟨10, 14⟩, [], 23, 0⟩] := by decide

theorem wordPressDotcom_paragraphs_separately (env : Env) (cls : Cls) (P0 D : List Char) (k : Nat)
    (extP extD extPD : Ext) (h : ParagraphPair cls P0 D k extP extD extPD) :
    docRule cls extPD (ruleWordPressDotcom env) ((P0 ++ List.replicate k '\n') ++ D) =
      joinE (P0 ++ List.replicate k '\n').length (docRule cls extP (ruleWordPressDotcom env) (P0 ++ List.replicate k '\n'))
        (docRule cls extD (ruleWordPressDotcom env) D) :=
  separately_of_appends _ (wordPressDotcom_appends env) cls P0 D k extP extD extPD h
/-- `WordPressDotcom` fires in both paragraphs: tokens tiling `wordpress.com.¶¶` (the last one the `ParagraphBreak`) and `wordpress.com`, the second list moved by 16 — the premises of `Appends` hold -/
example : (∀ t ∈ [⟨⟨0, 13⟩, .hostname⟩, ⟨⟨13, 14⟩, .punct .Period⟩, ⟨⟨14, 16⟩, .paragraphBreak⟩], tokOK t = true ∧ t.span.stop ≤ 16) ∧
    (∀ t ∈ [⟨⟨0, 13⟩, .hostname⟩], tokOK t = true) ∧
    ruleWordPressDotcom (env0) ((['w', 'o', 'r', 'd', 'p', 'r', 'e', 's', 's', '.', 'c', 'o', 'm', '.'] ++ ['\n', '\n']) ++ ['w', 'o', 'r', 'd', 'p', 'r', 'e', 's', 's', '.', 'c', 'o', 'm'])
      ([⟨⟨0, 13⟩, .hostname⟩, ⟨⟨13, 14⟩, .punct .Period⟩, ⟨⟨14, 16⟩, .paragraphBreak⟩] ++ shiftDoc 16 3 [⟨⟨0, 13⟩, .hostname⟩]) =
      .ok [⟨⟨0, 13⟩, [.replaceWith ['W', 'o', 'r', 'd', 'P', 'r', 'e', 's', 's', '.', 'c', 'o', 'm']], 24, 0⟩, ⟨⟨16, 29⟩, [.replaceWith ['W', 'o', 'r', 'd', 'P', 'r', 'e', 's', 's', '.', 'c', 'o', 'm']], 24, 0⟩] := by decide

theorem linkingVerbs_paragraphs_separately (env : Env) (cls : Cls) (P0 D : List Char) (k : Nat)
    (extP extD extPD : Ext) (h : ParagraphPair cls P0 D k extP extD extPD) :
    docRule cls extPD (ruleLinkingVerbs env) ((P0 ++ List.replicate k '\n') ++ D) =
      joinE (P0 ++ List.replicate k '\n').length (docRule cls extP (ruleLinkingVerbs env) (P0 ++ List.replicate k '\n'))
        (docRule cls extD (ruleLinkingVerbs env) D) :=
  separately_of_appends _ (linkingVerbs_appends env) cls P0 D k extP extD extPD h
/-- `LinkingVerbs` fires in both paragraphs: tokens tiling `quick is.¶¶` (the last one the `ParagraphBreak`) and `quick is`, the second list moved by 11 — the premises of `Appends` hold -/
example : (∀ t ∈ [⟨⟨0, 5⟩, .word⟩, ⟨⟨5, 6⟩, .space 1⟩, ⟨⟨6, 8⟩, .word⟩, ⟨⟨8, 9⟩, .punct .Period⟩, ⟨⟨9, 11⟩, .paragraphBreak⟩], tokOK t = true ∧ t.span.stop ≤ 11) ∧
    (∀ t ∈ [⟨⟨0, 5⟩, .word⟩, ⟨⟨5, 6⟩, .space 1⟩, ⟨⟨6, 8⟩, .word⟩], tokOK t = true) ∧
    ruleLinkingVerbs ({ env0 with wordFlags := fun w => if w == ['q', 'u', 'i', 'c', 'k'] then 32768 else if w == ['i', 's'] then 2048 else 0 }) ((['q', 'u', 'i', 'c', 'k', ' ', 'i', 's', '.'] ++ ['\n', '\n']) ++ ['q', 'u', 'i', 'c', 'k', ' ', 'i', 's'])
      ([⟨⟨0, 5⟩, .word⟩, ⟨⟨5, 6⟩, .space 1⟩, ⟨⟨6, 8⟩, .word⟩, ⟨⟨8, 9⟩, .punct .Period⟩, ⟨⟨9, 11⟩, .paragraphBreak⟩] ++ shiftDoc 11 5 [⟨⟨0, 5⟩, .word⟩, ⟨⟨5, 6⟩, .space 1⟩, ⟨⟨6, 8⟩, .word⟩]) =
      .ok [⟨⟨6, 8⟩, [], 25, 0⟩, ⟨⟨17, 19⟩, [], 25, 0⟩] := by decide

/-- **CommaFixes, although it indexes the whole document** -/
theorem commaFixes_paragraphs_separately (env : Env) (cls : Cls) (P0 D : List Char) (k : Nat)
    (extP extD extPD : Ext) (h : ParagraphPair cls P0 D k extP extD extPD) :
    docRule cls extPD (ruleCommaFixes env) ((P0 ++ List.replicate k '\n') ++ D) =
      joinE (P0 ++ List.replicate k '\n').length (docRule cls extP (ruleCommaFixes env) (P0 ++ List.replicate k '\n'))
        (docRule cls extD (ruleCommaFixes env) D) :=
  separately_of_appends _ (commaFixes_appends env) cls P0 D k extP extD extPD h
/-- `CommaFixes` fires in both paragraphs: tokens tiling `foo ,bar.¶¶` (the last one the `ParagraphBreak`) and `foo ,bar`, the second list moved by 11 — the premises of `Appends` hold -/
example : (∀ t ∈ [⟨⟨0, 3⟩, .word⟩, ⟨⟨3, 4⟩, .space 1⟩, ⟨⟨4, 5⟩, .punct .Comma⟩, ⟨⟨5, 8⟩, .word⟩, ⟨⟨8, 9⟩, .punct .Period⟩, ⟨⟨9, 11⟩, .paragraphBreak⟩], tokOK t = true ∧ t.span.stop ≤ 11) ∧
    (∀ t ∈ [⟨⟨0, 3⟩, .word⟩, ⟨⟨3, 4⟩, .space 1⟩, ⟨⟨4, 5⟩, .punct .Comma⟩, ⟨⟨5, 8⟩, .word⟩], tokOK t = true) ∧
    ruleCommaFixes (env0) ((['f', 'o', 'o', ' ', ',', 'b', 'a', 'r', '.'] ++ ['\n', '\n']) ++ ['f', 'o', 'o', ' ', ',', 'b', 'a', 'r'])
      ([⟨⟨0, 3⟩, .word⟩, ⟨⟨3, 4⟩, .space 1⟩, ⟨⟨4, 5⟩, .punct .Comma⟩, ⟨⟨5, 8⟩, .word⟩, ⟨⟨8, 9⟩, .punct .Period⟩, ⟨⟨9, 11⟩, .paragraphBreak⟩] ++ shiftDoc 11 6 [⟨⟨0, 3⟩, .word⟩, ⟨⟨3, 4⟩, .space 1⟩, ⟨⟨4, 5⟩, .punct .Comma⟩, ⟨⟨5, 8⟩, .word⟩]) =
      .ok [⟨⟨3, 5⟩, [.replaceWith [',', ' ']], 26, 5⟩, ⟨⟨14, 16⟩, [.replaceWith [',', ' ']], 26, 5⟩] := by decide

theorem mergeWords_paragraphs_separately (env : Env) (cls : Cls) (P0 D : List Char) (k : Nat)
    (extP extD extPD : Ext) (h : ParagraphPair cls P0 D k extP extD extPD) :
    docRule cls extPD (ruleMergeWords env) ((P0 ++ List.replicate k '\n') ++ D) =
      joinE (P0 ++ List.replicate k '\n').length (docRule cls extP (ruleMergeWords env) (P0 ++ List.replicate k '\n'))
        (docRule cls extD (ruleMergeWords env) D) :=
  separately_of_appends _ (mergeWords_appends env) cls P0 D k extP extD extPD h
/-- `MergeWords` fires in both paragraphs: tokens tiling `The refore.¶¶` (the last one the `ParagraphBreak`) and `The refore`, the second list moved by 13 — the premises of `Appends` hold -/
example : (∀ t ∈ [⟨⟨0, 3⟩, .word⟩, ⟨⟨3, 4⟩, .space 1⟩, ⟨⟨4, 10⟩, .word⟩, ⟨⟨10, 11⟩, .punct .Period⟩, ⟨⟨11, 13⟩, .paragraphBreak⟩], tokOK t = true ∧ t.span.stop ≤ 13) ∧
    (∀ t ∈ [⟨⟨0, 3⟩, .word⟩, ⟨⟨3, 4⟩, .space 1⟩, ⟨⟨4, 10⟩, .word⟩], tokOK t = true) ∧
    ruleMergeWords ({ env0 with wordFlags := fun w => if w == ['T', 'h', 'e', 'r', 'e', 'f', 'o', 'r', 'e'] then 524288 else 0 }) ((['T', 'h', 'e', ' ', 'r', 'e', 'f', 'o', 'r', 'e', '.'] ++ ['\n', '\n']) ++ ['T', 'h', 'e', ' ', 'r', 'e', 'f', 'o', 'r', 'e'])
      ([⟨⟨0, 3⟩, .word⟩, ⟨⟨3, 4⟩, .space 1⟩, ⟨⟨4, 10⟩, .word⟩, ⟨⟨10, 11⟩, .punct .Period⟩, ⟨⟨11, 13⟩, .paragraphBreak⟩] ++ shiftDoc 13 5 [⟨⟨0, 3⟩, .word⟩, ⟨⟨3, 4⟩, .space 1⟩, ⟨⟨4, 10⟩, .word⟩]) =
      .ok [⟨⟨0, 10⟩, [.replaceWith ['T', 'h', 'e', 'r', 'e', 'f', 'o', 'r', 'e']], 27, 0⟩, ⟨⟨13, 23⟩, [.replaceWith ['T', 'h', 'e', 'r', 'e', 'f', 'o', 'r', 'e']], 27, 0⟩] := by decide

theorem adjectiveOfA_paragraphs_separately (env : Env) (cls : Cls) (P0 D : List Char) (k : Nat)
    (extP extD extPD : Ext) (h : ParagraphPair cls P0 D k extP extD extPD) :
    docRule cls extPD (ruleAdjectiveOfA env) ((P0 ++ List.replicate k '\n') ++ D) =
      joinE (P0 ++ List.replicate k '\n').length (docRule cls extP (ruleAdjectiveOfA env) (P0 ++ List.replicate k '\n'))
        (docRule cls extD (ruleAdjectiveOfA env) D) :=
  separately_of_appends _ (adjectiveOfA_appends env) cls P0 D k extP extD extPD h
/-- `AdjectiveOfA` fires in both paragraphs: tokens tiling `big  of a x.¶¶` (the last one the `ParagraphBreak`) and `big  of a`, the second list moved by 14 — the premises of `Appends` hold -/
example : (∀ t ∈ [⟨⟨0, 3⟩, .word⟩, ⟨⟨3, 5⟩, .space 2⟩, ⟨⟨5, 7⟩, .word⟩, ⟨⟨7, 8⟩, .space 1⟩, ⟨⟨8, 9⟩, .word⟩, ⟨⟨9, 10⟩, .space 1⟩, ⟨⟨10, 12⟩, .word⟩, ⟨⟨12, 14⟩, .paragraphBreak⟩], tokOK t = true ∧ t.span.stop ≤ 14) ∧
    (∀ t ∈ [⟨⟨0, 3⟩, .word⟩, ⟨⟨3, 5⟩, .space 2⟩, ⟨⟨5, 7⟩, .word⟩, ⟨⟨7, 8⟩, .space 1⟩, ⟨⟨8, 9⟩, .word⟩], tokOK t = true) ∧
    ruleAdjectiveOfA ({ env0 with wordFlags := fun w => if w == ['b', 'i', 'g'] then 32776 else 0 }) ((['b', 'i', 'g', ' ', ' ', 'o', 'f', ' ', 'a', ' ', 'x', '.'] ++ ['\n', '\n']) ++ ['b', 'i', 'g', ' ', ' ', 'o', 'f', ' ', 'a'])
      ([⟨⟨0, 3⟩, .word⟩, ⟨⟨3, 5⟩, .space 2⟩, ⟨⟨5, 7⟩, .word⟩, ⟨⟨7, 8⟩, .space 1⟩, ⟨⟨8, 9⟩, .word⟩, ⟨⟨9, 10⟩, .space 1⟩, ⟨⟨10, 12⟩, .word⟩, ⟨⟨12, 14⟩, .paragraphBreak⟩] ++ shiftDoc 14 8 [⟨⟨0, 3⟩, .word⟩, ⟨⟨3, 5⟩, .space 2⟩, ⟨⟨5, 7⟩, .word⟩, ⟨⟨7, 8⟩, .space 1⟩, ⟨⟨8, 9⟩, .word⟩]) =
      .ok [⟨⟨0, 9⟩, [.replaceWith ['b', 'i', 'g', ' ', ' ', 'a'], .replaceWith ['b', 'i', 'g', ' ', 'a']], 31, 0⟩, ⟨⟨14, 23⟩, [.replaceWith ['b', 'i', 'g', ' ', ' ', 'a'], .replaceWith ['b', 'i', 'g', ' ', 'a']], 31, 0⟩] := by decide

theorem inflectedVerbAfterTo_paragraphs_separately (env : Env) (cls : Cls) (P0 D : List Char) (k : Nat)
    (extP extD extPD : Ext) (h : ParagraphPair cls P0 D k extP extD extPD) :
    docRule cls extPD (ruleInflectedVerbAfterTo env) ((P0 ++ List.replicate k '\n') ++ D) =
      joinE (P0 ++ List.replicate k '\n').length (docRule cls extP (ruleInflectedVerbAfterTo env) (P0 ++ List.replicate k '\n'))
        (docRule cls extD (ruleInflectedVerbAfterTo env) D) :=
  separately_of_appends _ (inflectedVerbAfterTo_appends env) cls P0 D k extP extD extPD h
/-- `InflectedVerbAfterTo` fires in both paragraphs: tokens tiling `to agreed.¶¶` (the last one the `ParagraphBreak`) and `to agreed`, the second list moved by 12 — the premises of `Appends` hold -/
example : (∀ t ∈ [⟨⟨0, 2⟩, .word⟩, ⟨⟨2, 3⟩, .space 1⟩, ⟨⟨3, 9⟩, .word⟩, ⟨⟨9, 10⟩, .punct .Period⟩, ⟨⟨10, 12⟩, .paragraphBreak⟩], tokOK t = true ∧ t.span.stop ≤ 12) ∧
    (∀ t ∈ [⟨⟨0, 2⟩, .word⟩, ⟨⟨2, 3⟩, .space 1⟩, ⟨⟨3, 9⟩, .word⟩], tokOK t = true) ∧
    ruleInflectedVerbAfterTo ({ env0 with wordFlags := fun w => if w == ['t', 'o'] then 32769 else if w == ['a', 'g', 'r', 'e', 'e'] then 32896 else if w == ['a', 'g', 'r', 'e'] then 32896 else 0 }) ((['t', 'o', ' ', 'a', 'g', 'r', 'e', 'e', 'd', '.'] ++ ['\n', '\n']) ++ ['t', 'o', ' ', 'a', 'g', 'r', 'e', 'e', 'd'])
      ([⟨⟨0, 2⟩, .word⟩, ⟨⟨2, 3⟩, .space 1⟩, ⟨⟨3, 9⟩, .word⟩, ⟨⟨9, 10⟩, .punct .Period⟩, ⟨⟨10, 12⟩, .paragraphBreak⟩] ++ shiftDoc 12 5 [⟨⟨0, 2⟩, .word⟩, ⟨⟨2, 3⟩, .space 1⟩, ⟨⟨3, 9⟩, .word⟩]) =
      .ok [⟨⟨0, 9⟩, [.replaceWith ['t', 'o', ' ', 'a', 'g', 'r', 'e']], 34, 0⟩, ⟨⟨0, 9⟩, [.replaceWith ['t', 'o', ' ', 'a', 'g', 'r', 'e', 'e']], 34, 0⟩, ⟨⟨12, 21⟩, [.replaceWith ['t', 'o', ' ', 'a', 'g', 'r', 'e']], 34, 0⟩, ⟨⟨12, 21⟩, [.replaceWith ['t', 'o', ' ', 'a', 'g', 'r', 'e', 'e']], 34, 0⟩] := by decide

theorem oxfordComma_paragraphs_separately (env : Env) (cls : Cls) (P0 D : List Char) (k : Nat)
    (extP extD extPD : Ext) (h : ParagraphPair cls P0 D k extP extD extPD) :
    docRule cls extPD (ruleOxfordComma env) ((P0 ++ List.replicate k '\n') ++ D) =
      joinE (P0 ++ List.replicate k '\n').length (docRule cls extP (ruleOxfordComma env) (P0 ++ List.replicate k '\n'))
        (docRule cls extD (ruleOxfordComma env) D) :=
  separately_of_appends _ (oxfordComma_appends env) cls P0 D k extP extD extPD h
/-- `OxfordComma` fires in both paragraphs: tokens tiling `so, cat and dog.¶¶` (the last one the `ParagraphBreak`) and `so, cat and dog`, the second list moved by 18 — the premises of `Appends` hold -/
example : (∀ t ∈ [⟨⟨0, 2⟩, .word⟩, ⟨⟨2, 3⟩, .punct .Comma⟩, ⟨⟨3, 4⟩, .space 1⟩, ⟨⟨4, 7⟩, .word⟩, ⟨⟨7, 8⟩, .space 1⟩, ⟨⟨8, 11⟩, .word⟩, ⟨⟨11, 12⟩, .space 1⟩, ⟨⟨12, 15⟩, .word⟩, ⟨⟨15, 16⟩, .punct .Period⟩, ⟨⟨16, 18⟩, .paragraphBreak⟩], tokOK t = true ∧ t.span.stop ≤ 18) ∧
    (∀ t ∈ [⟨⟨0, 2⟩, .word⟩, ⟨⟨2, 3⟩, .punct .Comma⟩, ⟨⟨3, 4⟩, .space 1⟩, ⟨⟨4, 7⟩, .word⟩, ⟨⟨7, 8⟩, .space 1⟩, ⟨⟨8, 11⟩, .word⟩, ⟨⟨11, 12⟩, .space 1⟩, ⟨⟨12, 15⟩, .word⟩], tokOK t = true) ∧
    ruleOxfordComma ({ env0 with wordFlags := fun w => if w == ['s', 'o'] then 32834 else if w == ['c', 'a', 't'] then 32832 else if w == ['d', 'o', 'g'] then 32832 else if w == ['a', 'n', 'd'] then 32770 else 0 }) ((['s', 'o', ',', ' ', 'c', 'a', 't', ' ', 'a', 'n', 'd', ' ', 'd', 'o', 'g', '.'] ++ ['\n', '\n']) ++ ['s', 'o', ',', ' ', 'c', 'a', 't', ' ', 'a', 'n', 'd', ' ', 'd', 'o', 'g'])
      ([⟨⟨0, 2⟩, .word⟩, ⟨⟨2, 3⟩, .punct .Comma⟩, ⟨⟨3, 4⟩, .space 1⟩, ⟨⟨4, 7⟩, .word⟩, ⟨⟨7, 8⟩, .space 1⟩, ⟨⟨8, 11⟩, .word⟩, ⟨⟨11, 12⟩, .space 1⟩, ⟨⟨12, 15⟩, .word⟩, ⟨⟨15, 16⟩, .punct .Period⟩, ⟨⟨16, 18⟩, .paragraphBreak⟩] ++ shiftDoc 18 10 [⟨⟨0, 2⟩, .word⟩, ⟨⟨2, 3⟩, .punct .Comma⟩, ⟨⟨3, 4⟩, .space 1⟩, ⟨⟨4, 7⟩, .word⟩, ⟨⟨7, 8⟩, .space 1⟩, ⟨⟨8, 11⟩, .word⟩, ⟨⟨11, 12⟩, .space 1⟩, ⟨⟨12, 15⟩, .word⟩]) =
      .ok [⟨⟨4, 7⟩, [.insertAfter [',']], 29, 0⟩, ⟨⟨22, 25⟩, [.insertAfter [',']], 29, 0⟩] := by decide

theorem noOxfordComma_paragraphs_separately (env : Env) (cls : Cls) (P0 D : List Char) (k : Nat)
    (extP extD extPD : Ext) (h : ParagraphPair cls P0 D k extP extD extPD) :
    docRule cls extPD (ruleNoOxfordComma env) ((P0 ++ List.replicate k '\n') ++ D) =
      joinE (P0 ++ List.replicate k '\n').length (docRule cls extP (ruleNoOxfordComma env) (P0 ++ List.replicate k '\n'))
        (docRule cls extD (ruleNoOxfordComma env) D) :=
  separately_of_appends _ (noOxfordComma_appends env) cls P0 D k extP extD extPD h
/-- `NoOxfordComma` fires in both paragraphs: tokens tiling `cat, dog, and x.¶¶` (the last one the `ParagraphBreak`) and `cat, dog, and x`, the second list moved by 18 — the premises of `Appends` hold -/
example : (∀ t ∈ [⟨⟨0, 3⟩, .word⟩, ⟨⟨3, 4⟩, .punct .Comma⟩, ⟨⟨4, 5⟩, .space 1⟩, ⟨⟨5, 8⟩, .word⟩, ⟨⟨8, 9⟩, .punct .Comma⟩, ⟨⟨9, 10⟩, .space 1⟩, ⟨⟨10, 13⟩, .word⟩, ⟨⟨13, 14⟩, .space 1⟩, ⟨⟨14, 16⟩, .word⟩, ⟨⟨16, 18⟩, .paragraphBreak⟩], tokOK t = true ∧ t.span.stop ≤ 18) ∧
    (∀ t ∈ [⟨⟨0, 3⟩, .word⟩, ⟨⟨3, 4⟩, .punct .Comma⟩, ⟨⟨4, 5⟩, .space 1⟩, ⟨⟨5, 8⟩, .word⟩, ⟨⟨8, 9⟩, .punct .Comma⟩, ⟨⟨9, 10⟩, .space 1⟩, ⟨⟨10, 13⟩, .word⟩, ⟨⟨13, 14⟩, .space 1⟩, ⟨⟨14, 15⟩, .word⟩], tokOK t = true) ∧
    ruleNoOxfordComma ({ env0 with wordFlags := fun w => if w == ['c', 'a', 't'] then 32832 else if w == ['d', 'o', 'g'] then 32832 else 0 }) ((['c', 'a', 't', ',', ' ', 'd', 'o', 'g', ',', ' ', 'a', 'n', 'd', ' ', 'x', '.'] ++ ['\n', '\n']) ++ ['c', 'a', 't', ',', ' ', 'd', 'o', 'g', ',', ' ', 'a', 'n', 'd', ' ', 'x'])
      ([⟨⟨0, 3⟩, .word⟩, ⟨⟨3, 4⟩, .punct .Comma⟩, ⟨⟨4, 5⟩, .space 1⟩, ⟨⟨5, 8⟩, .word⟩, ⟨⟨8, 9⟩, .punct .Comma⟩, ⟨⟨9, 10⟩, .space 1⟩, ⟨⟨10, 13⟩, .word⟩, ⟨⟨13, 14⟩, .space 1⟩, ⟨⟨14, 16⟩, .word⟩, ⟨⟨16, 18⟩, .paragraphBreak⟩] ++ shiftDoc 18 10 [⟨⟨0, 3⟩, .word⟩, ⟨⟨3, 4⟩, .punct .Comma⟩, ⟨⟨4, 5⟩, .space 1⟩, ⟨⟨5, 8⟩, .word⟩, ⟨⟨8, 9⟩, .punct .Comma⟩, ⟨⟨9, 10⟩, .space 1⟩, ⟨⟨10, 13⟩, .word⟩, ⟨⟨13, 14⟩, .space 1⟩, ⟨⟨14, 15⟩, .word⟩]) =
      .ok [⟨⟨8, 9⟩, [.remove], 30, 0⟩, ⟨⟨26, 27⟩, [.remove], 30, 0⟩] := by decide

theorem widelyAccepted_paragraphs_separately_r2 (env : Env) (cls : Cls) (P0 D : List Char) (k : Nat)
    (extP extD extPD : Ext) (h : ParagraphPair cls P0 D k extP extD extPD) :
    docRule cls extPD (ruleWidelyAccepted env) ((P0 ++ List.replicate k '\n') ++ D) =
      joinE (P0 ++ List.replicate k '\n').length (docRule cls extP (ruleWidelyAccepted env) (P0 ++ List.replicate k '\n'))
        (docRule cls extD (ruleWidelyAccepted env) D) :=
  separately_of_appends _ (widelyAccepted_appends env) cls P0 D k extP extD extPD h
/-- `WidelyAccepted` fires in both paragraphs: tokens tiling `Wide used.¶¶` (the last one the `ParagraphBreak`) and `Wide used`, the second list moved by 12 — the premises of `Appends` hold -/
example : (∀ t ∈ [⟨⟨0, 4⟩, .word⟩, ⟨⟨4, 5⟩, .space 1⟩, ⟨⟨5, 9⟩, .word⟩, ⟨⟨9, 10⟩, .punct .Period⟩, ⟨⟨10, 12⟩, .paragraphBreak⟩], tokOK t = true ∧ t.span.stop ≤ 12) ∧
    (∀ t ∈ [⟨⟨0, 4⟩, .word⟩, ⟨⟨4, 5⟩, .space 1⟩, ⟨⟨5, 9⟩, .word⟩], tokOK t = true) ∧
    ruleWidelyAccepted (env0) ((['W', 'i', 'd', 'e', ' ', 'u', 's', 'e', 'd', '.'] ++ ['\n', '\n']) ++ ['W', 'i', 'd', 'e', ' ', 'u', 's', 'e', 'd'])
      ([⟨⟨0, 4⟩, .word⟩, ⟨⟨4, 5⟩, .space 1⟩, ⟨⟨5, 9⟩, .word⟩, ⟨⟨9, 10⟩, .punct .Period⟩, ⟨⟨10, 12⟩, .paragraphBreak⟩] ++ shiftDoc 12 5 [⟨⟨0, 4⟩, .word⟩, ⟨⟨4, 5⟩, .space 1⟩, ⟨⟨5, 9⟩, .word⟩]) =
      .ok [⟨⟨0, 4⟩, [.replaceWith ['W', 'i', 'd', 'e', 'l', 'y']], 32, 0⟩, ⟨⟨12, 16⟩, [.replaceWith ['W', 'i', 'd', 'e', 'l', 'y']], 32, 0⟩] := by decide

theorem theHowWhy_paragraphs_separately_r2 (env : Env) (cls : Cls) (P0 D : List Char) (k : Nat)
    (extP extD extPD : Ext) (h : ParagraphPair cls P0 D k extP extD extPD) :
    docRule cls extPD (ruleTheHowWhy env) ((P0 ++ List.replicate k '\n') ++ D) =
      joinE (P0 ++ List.replicate k '\n').length (docRule cls extP (ruleTheHowWhy env) (P0 ++ List.replicate k '\n'))
        (docRule cls extD (ruleTheHowWhy env) D) :=
  separately_of_appends _ (theHowWhy_appends env) cls P0 D k extP extD extPD h
/-- `TheHowWhy` fires in both paragraphs: tokens tiling `the  how it.¶¶` (the last one the `ParagraphBreak`) and `the  how it`, the second list moved by 14 — the premises of `Appends` hold -/
example : (∀ t ∈ [⟨⟨0, 3⟩, .word⟩, ⟨⟨3, 5⟩, .space 2⟩, ⟨⟨5, 8⟩, .word⟩, ⟨⟨8, 9⟩, .space 1⟩, ⟨⟨9, 11⟩, .word⟩, ⟨⟨11, 12⟩, .punct .Period⟩, ⟨⟨12, 14⟩, .paragraphBreak⟩], tokOK t = true ∧ t.span.stop ≤ 14) ∧
    (∀ t ∈ [⟨⟨0, 3⟩, .word⟩, ⟨⟨3, 5⟩, .space 2⟩, ⟨⟨5, 8⟩, .word⟩, ⟨⟨8, 9⟩, .space 1⟩, ⟨⟨9, 11⟩, .word⟩], tokOK t = true) ∧
    ruleTheHowWhy (env0) ((['t', 'h', 'e', ' ', ' ', 'h', 'o', 'w', ' ', 'i', 't', '.'] ++ ['\n', '\n']) ++ ['t', 'h', 'e', ' ', ' ', 'h', 'o', 'w', ' ', 'i', 't'])
      ([⟨⟨0, 3⟩, .word⟩, ⟨⟨3, 5⟩, .space 2⟩, ⟨⟨5, 8⟩, .word⟩, ⟨⟨8, 9⟩, .space 1⟩, ⟨⟨9, 11⟩, .word⟩, ⟨⟨11, 12⟩, .punct .Period⟩, ⟨⟨12, 14⟩, .paragraphBreak⟩] ++ shiftDoc 14 7 [⟨⟨0, 3⟩, .word⟩, ⟨⟨3, 5⟩, .space 2⟩, ⟨⟨5, 8⟩, .word⟩, ⟨⟨8, 9⟩, .space 1⟩, ⟨⟨9, 11⟩, .word⟩]) =
      .ok [⟨⟨0, 5⟩, [.remove], 33, 0⟩, ⟨⟨14, 19⟩, [.remove], 33, 0⟩] := by decide

/-! ## non-vacuity and counter-examples (kernel-evaluated) -/

open Harper.C02 (asciiCls)

/-- `ParagraphPair` is satisfiable: `a ,b.¶¶` + `c,d i` -/
example : ParagraphPair asciiCls ['a', ' ', ',', 'b', '.'] ['c', ',', 'd', ' ', 'i'] 2 noExt noExt noExt where
  cls_ok := ⟨by decide, by decide, by
    intro c h
    simp only [asciiCls, isAsciiDigit, Bool.and_eq_true, decide_eq_true_eq] at h
    refine ⟨?_, ?_, ?_⟩
    · simp only [isAsciiAlpha, Bool.or_eq_false_iff, Bool.and_eq_false_imp, decide_eq_true_eq, decide_eq_false_iff_not]
      constructor <;> intro h3 <;> intro h4
      · exact absurd (Char.le_trans h3 h.2) (by decide)
      · exact absurd (Char.le_trans h3 h.2) (by decide)
    · intro hc; subst hc; exact absurd h.1 (by decide)
    · intro hc; subst hc; exact absurd h.1 (by decide)⟩
  two := by decide
  no_nl_end := by decide
  d_head := by decide
  no_quotes := by decide
  ext_local := ⟨fun _ _ => rfl, fun _ => rfl⟩
  ext_ok_p := by intro _ _ _ h; cases h
  ext_ok_d := by intro _ _ _ h; cases h
  ext_no_nl := by intro _ _ _ h; cases h

/-- … and the conclusion computed on it: CommaFixes reports in BOTH paragraphs (`a ,b` → `a, b` at 1..3; `c,d`:
a blank after the comma at 8..9 = 1..2 moved by 7), CapitalizePersonalPronouns in the second -/
example : docRule asciiCls noExt (ruleCommaFixes env0) (['a', ' ', ',', 'b', '.', '\n', '\n'] ++ ['c', ',', 'd', ' ', 'i']) =
      .ok [⟨⟨1, 3⟩, [.replaceWith [',', ' ']], 26, 5⟩, ⟨⟨8, 9⟩, [.insertAfter [' ']], 26, 4⟩] ∧
    docRule asciiCls noExt (ruleCommaFixes env0) ['c', ',', 'd', ' ', 'i'] = .ok [⟨⟨1, 2⟩, [.insertAfter [' ']], 26, 4⟩] ∧
    docRule asciiCls noExt (ruleCapitalizePersonalPronouns env0) (['a', ' ', ',', 'b', '.', '\n', '\n'] ++ ['c', ',', 'd', ' ', 'i']) =
      .ok [⟨⟨11, 12⟩, [.replaceWith ['I']], 22, 0⟩] := by decide

/-- the tokens of `note¶¶` and of `book`, and a dictionary that knows `notebook` only -/
def noteP : List Tok := [⟨⟨0, 4⟩, .word⟩, ⟨⟨4, 6⟩, .paragraphBreak⟩]
def bookD : List Tok := [⟨⟨0, 4⟩, .word⟩]
def envNotebook : Env :=
  { env0 with wordFlags := fun w => if w == ['n', 'o', 't', 'e', 'b', 'o', 'o', 'k'] then 2 ^ 19 else 0 }

example : (document asciiCls noExt ['n', 'o', 't', 'e', '\n', '\n']).toOption = some noteP ∧
    (document asciiCls noExt ['b', 'o', 'o', 'k']).toOption = some bookD := by decide

/-- the window `(note, ¶¶, book)` straddles the break and reports nothing: the break is not whitespace -/
example : ruleMergeWords envNotebook (['n', 'o', 't', 'e', '\n', '\n'] ++ ['b', 'o', 'o', 'k']) (noteP ++ shiftDoc 6 2 bookD) = .ok [] := by
  decide

/-- **the premise `2 ≤ k` is needed**: with ONE newline between the texts the separator is a `Newline` token,
which IS whitespace — MergeWords reports `note⏎book` in the whole, and nothing in either part -/
example : docRule asciiCls noExt (ruleMergeWords envNotebook) (['n', 'o', 't', 'e', '\n'] ++ ['b', 'o', 'o', 'k']) =
      .ok [⟨⟨0, 9⟩, [.replaceWith ['n', 'o', 't', 'e', 'b', 'o', 'o', 'k']], 27, 0⟩] ∧
    docRule asciiCls noExt (ruleMergeWords envNotebook) ['n', 'o', 't', 'e', '\n'] = .ok [] ∧
    docRule asciiCls noExt (ruleMergeWords envNotebook) ['b', 'o', 'o', 'k'] = .ok [] := by decide

/-- … and MergeWords is not a sentence-, chunk- or line-local rule: `Appends` fails for a separator that is a
`Newline` token (so the hypothesis `isParagraphBreak` of `WinLocal.blindAfter` cannot be dropped) -/
example : ¬ ∀ (P D : List Char) (A0 : List Tok) (brk : Tok) (td : List Tok), brk.kind.isWhitespace = true →
    (∀ t ∈ A0 ++ [brk], tokOK t = true ∧ t.span.stop ≤ P.length) → (∀ t ∈ td, tokOK t = true) →
    ruleMergeWords envNotebook (P ++ D) ((A0 ++ [brk]) ++ shiftDoc P.length (A0 ++ [brk]).length td) =
      joinE P.length (ruleMergeWords envNotebook P (A0 ++ [brk])) (ruleMergeWords envNotebook D td) := by
  intro h
  have := h ['n', 'o', 't', 'e', '\n'] ['b', 'o', 'o', 'k'] [⟨⟨0, 4⟩, .word⟩] ⟨⟨4, 5⟩, .newline 1⟩ bookD rfl (by decide) (by decide)
  revert this
  decide

/-- CommaFixes looks across chunk and sentence boundaries inside a paragraph (a comma IS a chunk terminator:
the word after it belongs to the next chunk): it is not `overPieces iterChunks` of a chunk-local rule -/
example : ¬ ∃ f : PieceRule, XLocalE f ∧ ∀ src toks, ruleCommaFixes env0 src toks = overPieces iterChunks f src toks := by
  rintro ⟨f, hf, heq⟩
  -- `a,` + `b`: joined at the comma (a chunk terminator) the rule reports; separately it does not
  have h := overPieces_append isChunkTerminator (fun j k => isChunkTerminator_shiftTwin j k) f hf ['a', ','] ['b']
    [⟨⟨0, 1⟩, .word⟩] ⟨⟨1, 2⟩, .punct .Comma⟩ rfl [⟨⟨0, 1⟩, .word⟩] (by decide) (by decide)
  have h' : overPieces iterChunks f (['a', ','] ++ ['b'])
        (([⟨⟨0, 1⟩, .word⟩] ++ [⟨⟨1, 2⟩, .punct .Comma⟩]) ++ shiftDoc 2 2 [⟨⟨0, 1⟩, .word⟩]) =
      joinE 2 (overPieces iterChunks f ['a', ','] ([⟨⟨0, 1⟩, .word⟩] ++ [⟨⟨1, 2⟩, .punct .Comma⟩]))
        (overPieces iterChunks f ['b'] [⟨⟨0, 1⟩, .word⟩]) := h
  rw [← heq, ← heq, ← heq] at h'
  revert h'
  decide

/-- `big of a¶¶` + `big  of an x`, `big` an adjective: AdjectiveOfA reports in both paragraphs -/
example : docRule asciiCls noExt (ruleAdjectiveOfA C03.envBig)
      (['b', 'i', 'g', ' ', 'o', 'f', ' ', 'a', '\n', '\n'] ++ ['b', 'i', 'g', ' ', 'o', 'f', ' ', 'a', 'n', ' ', 'x']) =
    .ok [⟨⟨0, 8⟩, [.replaceWith ['b', 'i', 'g', ' ', 'a']], 31, 0⟩, ⟨⟨10, 19⟩, [.replaceWith ['b', 'i', 'g', ' ', 'a', 'n']], 31, 0⟩] := by
  decide

end Harper.C12
