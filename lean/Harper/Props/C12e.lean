import Harper.Lemmas.Rules2
import Harper.Lemmas.Rules2Walk
import Harper.Lemmas.Rules2Pat
import Harper.Props.C12b
import Harper.Props.C03e
/-!
# C12 (hand-written rules, batch 2) — paragraph locality of thirteen more rules, as theorems

* Per token (SpelledNumbers, CapitalizePersonalPronouns, AvoidCurses, WordPressDotcom), per chunk (LinkingVerbs,
  WidelyAccepted, TheHowWhy) and per sentence (OxfordComma — its start cursor depends on the sentence's first two
  known words and first comma — and NoOxfordComma): `<rule>_xlocal : XLocalE …`, hence `Appends` and
  `<rule>_paragraphs_separately` exactly as in `Props/C12b.lean`.
* **CommaFixes, MergeWords, AdjectiveOfA and InflectedVerbAfterTo loop over the WHOLE document** (`get_token(ci ± 2)`,
  `tokens().tuple_windows()`, `get_token(i + 1 … i + 4)`, `get_token(pi + 1, pi + 2)`): they are not `overPieces` of anything, and their
  windows do straddle sentence, chunk and paragraph boundaries. They are paragraph-local nevertheless, because
  every window that straddles the break contains the `ParagraphBreak` token, which is neither a word, a blank
  nor unlintable — the only things the windows ask for: `<rule>_winLocal : WinLocal …` (`blindAfter`,
  `blindBefore`), and `walkE_append` (`Lemmas/Rules2Walk.lean`) turns that into `Appends`.
  The premise of C12 (`2 ≤ k` newlines, so that the separator IS a `ParagraphBreak`) is needed: with ONE
  newline between the two texts MergeWords merges `note⏎` + `book` (kernel-checked), and CommaFixes looks from
  one line into the next.
-/
namespace Harper.C12
open Harper Harper.Chunks Harper.Rules Harper.Leaves Harper.Rules2

/-! ## locality of each modelled rule's piece / token / window function -/

theorem spelledNumbers_xlocal (env : Env) : XLocalE (perTok (spelledNumbersTok env)) := perTok_xlocal (spelledNumbers_tokLocal env)
theorem capitalizePersonalPronouns_xlocal : XLocalE (perTok capitalizePronounTok) := perTok_xlocal capitalizePronoun_tokLocal
theorem avoidCurses_xlocal (env : Env) : XLocalE (perTok (avoidCursesTok env)) := perTok_xlocal (avoidCurses_tokLocal env)
theorem wordPressDotcom_xlocal (env : Env) : XLocalE (perTok (wordPressTok env)) := perTok_xlocal (wordPress_tokLocal env)
/-- per chunk: the last word before each linking verb, its metadata, the verb's text -/
theorem linkingVerbs_xlocal (env : Env) : XLocalE (linkingVerbsPiece env) := Rules2.linkingVerbs_xlocal env
/-- per sentence: the start cursor (first two known words, first comma), the pattern, `match_to_lint` -/
theorem oxfordComma_xlocal (env : Env) : XLocalE (oxfordPiece env) := oxford_xlocal env
theorem noOxfordComma_xlocal (env : Env) : XLocalE (noOxfordPiece env) := noOxford_xlocal env
theorem widelyAccepted_xlocal (env : Env) : XLocalE (widelyPiece env) := widely_xlocal env
theorem theHowWhy_xlocal (env : Env) : XLocalE (theHowWhyPiece env) := Rules2.theHowWhy_xlocal env

/-- CommaFixes' window (two tokens back, two ahead) is local in the text and blind across a paragraph break -/
theorem commaFixes_winLocal : WinLocal commaAt := Rules2.commaFixes_winLocal
/-- MergeWords' window `(a, w, b)` -/
theorem mergeWords_winLocal (env : Env) : WinLocal (mergeAt env) := Rules2.mergeWords_winLocal env
/-- AdjectiveOfA's window `adjective ␣ of ␣ a` -/
theorem adjectiveOfA_winLocal (env : Env) : WinLocal (adjOfAAt env) := Rules2.adjectiveOfA_winLocal env

/-- InflectedVerbAfterTo's window `to ␣ verb` -/
theorem inflectedVerbAfterTo_winLocal (env : Env) : WinLocal (inflectedAt env) := Rules2.inflectedVerbAfterTo_winLocal env

/-! ## two documents joined at a paragraph break -/

theorem spelledNumbers_appends (env : Env) : Appends (ruleSpelledNumbers env) := appends_perTok _ (spelledNumbers_tokLocal env)
theorem capitalizePersonalPronouns_appends (env : Env) : Appends (ruleCapitalizePersonalPronouns env) :=
  appends_perTok _ capitalizePronoun_tokLocal
theorem avoidCurses_appends (env : Env) : Appends (ruleAvoidCurses env) := appends_perTok _ (avoidCurses_tokLocal env)
theorem wordPressDotcom_appends (env : Env) : Appends (ruleWordPressDotcom env) := appends_perTok _ (wordPress_tokLocal env)
theorem linkingVerbs_appends (env : Env) : Appends (ruleLinkingVerbs env) := appends_chunks _ (linkingVerbs_xlocal env)
theorem oxfordComma_appends (env : Env) : Appends (ruleOxfordComma env) := appends_sentences _ (oxfordComma_xlocal env)
theorem noOxfordComma_appends (env : Env) : Appends (ruleNoOxfordComma env) := appends_sentences _ (noOxfordComma_xlocal env)
theorem widelyAccepted_appends (env : Env) : Appends (ruleWidelyAccepted env) := appends_chunks _ (widelyAccepted_xlocal env)
theorem theHowWhy_appends (env : Env) : Appends (ruleTheHowWhy env) := appends_chunks _ (theHowWhy_xlocal env)

/-- **a rule that walks the whole document with a `WinLocal` window `Appends`** -/
theorem appends_walk (f : WinFn) (hf : WinLocal f) : Appends (fun src toks => walkE (f src) [] toks) :=
  fun P D A0 brk td hb hin hd => walkE_append f hf P D A0 brk hb td hin hd

theorem commaFixes_appends (env : Env) : Appends (ruleCommaFixes env) := appends_walk _ commaFixes_winLocal
theorem mergeWords_appends (env : Env) : Appends (ruleMergeWords env) := appends_walk _ (mergeWords_winLocal env)
theorem adjectiveOfA_appends (env : Env) : Appends (ruleAdjectiveOfA env) := appends_walk _ (adjectiveOfA_winLocal env)

theorem inflectedVerbAfterTo_appends (env : Env) : Appends (ruleInflectedVerbAfterTo env) :=
  appends_walk _ (inflectedVerbAfterTo_winLocal env)

/-! ## end to end: from the characters of `P` and `D` -/

theorem spelledNumbers_paragraphs_separately (env : Env) (cls : Cls) (P0 D : List Char) (k : Nat)
    (extP extD extPD : Ext) (h : ParagraphPair cls P0 D k extP extD extPD) :
    docRule cls extPD (ruleSpelledNumbers env) ((P0 ++ List.replicate k '\n') ++ D) =
      joinE (P0 ++ List.replicate k '\n').length (docRule cls extP (ruleSpelledNumbers env) (P0 ++ List.replicate k '\n'))
        (docRule cls extD (ruleSpelledNumbers env) D) :=
  separately_of_appends _ (spelledNumbers_appends env) cls P0 D k extP extD extPD h

theorem capitalizePersonalPronouns_paragraphs_separately (env : Env) (cls : Cls) (P0 D : List Char) (k : Nat)
    (extP extD extPD : Ext) (h : ParagraphPair cls P0 D k extP extD extPD) :
    docRule cls extPD (ruleCapitalizePersonalPronouns env) ((P0 ++ List.replicate k '\n') ++ D) =
      joinE (P0 ++ List.replicate k '\n').length (docRule cls extP (ruleCapitalizePersonalPronouns env) (P0 ++ List.replicate k '\n'))
        (docRule cls extD (ruleCapitalizePersonalPronouns env) D) :=
  separately_of_appends _ (capitalizePersonalPronouns_appends env) cls P0 D k extP extD extPD h

theorem avoidCurses_paragraphs_separately (env : Env) (cls : Cls) (P0 D : List Char) (k : Nat)
    (extP extD extPD : Ext) (h : ParagraphPair cls P0 D k extP extD extPD) :
    docRule cls extPD (ruleAvoidCurses env) ((P0 ++ List.replicate k '\n') ++ D) =
      joinE (P0 ++ List.replicate k '\n').length (docRule cls extP (ruleAvoidCurses env) (P0 ++ List.replicate k '\n'))
        (docRule cls extD (ruleAvoidCurses env) D) :=
  separately_of_appends _ (avoidCurses_appends env) cls P0 D k extP extD extPD h

theorem wordPressDotcom_paragraphs_separately (env : Env) (cls : Cls) (P0 D : List Char) (k : Nat)
    (extP extD extPD : Ext) (h : ParagraphPair cls P0 D k extP extD extPD) :
    docRule cls extPD (ruleWordPressDotcom env) ((P0 ++ List.replicate k '\n') ++ D) =
      joinE (P0 ++ List.replicate k '\n').length (docRule cls extP (ruleWordPressDotcom env) (P0 ++ List.replicate k '\n'))
        (docRule cls extD (ruleWordPressDotcom env) D) :=
  separately_of_appends _ (wordPressDotcom_appends env) cls P0 D k extP extD extPD h

theorem linkingVerbs_paragraphs_separately (env : Env) (cls : Cls) (P0 D : List Char) (k : Nat)
    (extP extD extPD : Ext) (h : ParagraphPair cls P0 D k extP extD extPD) :
    docRule cls extPD (ruleLinkingVerbs env) ((P0 ++ List.replicate k '\n') ++ D) =
      joinE (P0 ++ List.replicate k '\n').length (docRule cls extP (ruleLinkingVerbs env) (P0 ++ List.replicate k '\n'))
        (docRule cls extD (ruleLinkingVerbs env) D) :=
  separately_of_appends _ (linkingVerbs_appends env) cls P0 D k extP extD extPD h

/-- **CommaFixes, although it indexes the whole document** -/
theorem commaFixes_paragraphs_separately (env : Env) (cls : Cls) (P0 D : List Char) (k : Nat)
    (extP extD extPD : Ext) (h : ParagraphPair cls P0 D k extP extD extPD) :
    docRule cls extPD (ruleCommaFixes env) ((P0 ++ List.replicate k '\n') ++ D) =
      joinE (P0 ++ List.replicate k '\n').length (docRule cls extP (ruleCommaFixes env) (P0 ++ List.replicate k '\n'))
        (docRule cls extD (ruleCommaFixes env) D) :=
  separately_of_appends _ (commaFixes_appends env) cls P0 D k extP extD extPD h

theorem mergeWords_paragraphs_separately (env : Env) (cls : Cls) (P0 D : List Char) (k : Nat)
    (extP extD extPD : Ext) (h : ParagraphPair cls P0 D k extP extD extPD) :
    docRule cls extPD (ruleMergeWords env) ((P0 ++ List.replicate k '\n') ++ D) =
      joinE (P0 ++ List.replicate k '\n').length (docRule cls extP (ruleMergeWords env) (P0 ++ List.replicate k '\n'))
        (docRule cls extD (ruleMergeWords env) D) :=
  separately_of_appends _ (mergeWords_appends env) cls P0 D k extP extD extPD h

theorem adjectiveOfA_paragraphs_separately (env : Env) (cls : Cls) (P0 D : List Char) (k : Nat)
    (extP extD extPD : Ext) (h : ParagraphPair cls P0 D k extP extD extPD) :
    docRule cls extPD (ruleAdjectiveOfA env) ((P0 ++ List.replicate k '\n') ++ D) =
      joinE (P0 ++ List.replicate k '\n').length (docRule cls extP (ruleAdjectiveOfA env) (P0 ++ List.replicate k '\n'))
        (docRule cls extD (ruleAdjectiveOfA env) D) :=
  separately_of_appends _ (adjectiveOfA_appends env) cls P0 D k extP extD extPD h

theorem inflectedVerbAfterTo_paragraphs_separately (env : Env) (cls : Cls) (P0 D : List Char) (k : Nat)
    (extP extD extPD : Ext) (h : ParagraphPair cls P0 D k extP extD extPD) :
    docRule cls extPD (ruleInflectedVerbAfterTo env) ((P0 ++ List.replicate k '\n') ++ D) =
      joinE (P0 ++ List.replicate k '\n').length (docRule cls extP (ruleInflectedVerbAfterTo env) (P0 ++ List.replicate k '\n'))
        (docRule cls extD (ruleInflectedVerbAfterTo env) D) :=
  separately_of_appends _ (inflectedVerbAfterTo_appends env) cls P0 D k extP extD extPD h

theorem oxfordComma_paragraphs_separately (env : Env) (cls : Cls) (P0 D : List Char) (k : Nat)
    (extP extD extPD : Ext) (h : ParagraphPair cls P0 D k extP extD extPD) :
    docRule cls extPD (ruleOxfordComma env) ((P0 ++ List.replicate k '\n') ++ D) =
      joinE (P0 ++ List.replicate k '\n').length (docRule cls extP (ruleOxfordComma env) (P0 ++ List.replicate k '\n'))
        (docRule cls extD (ruleOxfordComma env) D) :=
  separately_of_appends _ (oxfordComma_appends env) cls P0 D k extP extD extPD h

theorem noOxfordComma_paragraphs_separately (env : Env) (cls : Cls) (P0 D : List Char) (k : Nat)
    (extP extD extPD : Ext) (h : ParagraphPair cls P0 D k extP extD extPD) :
    docRule cls extPD (ruleNoOxfordComma env) ((P0 ++ List.replicate k '\n') ++ D) =
      joinE (P0 ++ List.replicate k '\n').length (docRule cls extP (ruleNoOxfordComma env) (P0 ++ List.replicate k '\n'))
        (docRule cls extD (ruleNoOxfordComma env) D) :=
  separately_of_appends _ (noOxfordComma_appends env) cls P0 D k extP extD extPD h

theorem widelyAccepted_paragraphs_separately_r2 (env : Env) (cls : Cls) (P0 D : List Char) (k : Nat)
    (extP extD extPD : Ext) (h : ParagraphPair cls P0 D k extP extD extPD) :
    docRule cls extPD (ruleWidelyAccepted env) ((P0 ++ List.replicate k '\n') ++ D) =
      joinE (P0 ++ List.replicate k '\n').length (docRule cls extP (ruleWidelyAccepted env) (P0 ++ List.replicate k '\n'))
        (docRule cls extD (ruleWidelyAccepted env) D) :=
  separately_of_appends _ (widelyAccepted_appends env) cls P0 D k extP extD extPD h

theorem theHowWhy_paragraphs_separately_r2 (env : Env) (cls : Cls) (P0 D : List Char) (k : Nat)
    (extP extD extPD : Ext) (h : ParagraphPair cls P0 D k extP extD extPD) :
    docRule cls extPD (ruleTheHowWhy env) ((P0 ++ List.replicate k '\n') ++ D) =
      joinE (P0 ++ List.replicate k '\n').length (docRule cls extP (ruleTheHowWhy env) (P0 ++ List.replicate k '\n'))
        (docRule cls extD (ruleTheHowWhy env) D) :=
  separately_of_appends _ (theHowWhy_appends env) cls P0 D k extP extD extPD h

/-! ## non-vacuity and counter-examples (kernel-evaluated) -/

open Harper.C02 (asciiCls)

/-- `ParagraphPair` is satisfiable: `a ,b.¶¶` + `c,d i` -/
example : ParagraphPair asciiCls ['a', ' ', ',', 'b', '.'] ['c', ',', 'd', ' ', 'i'] 2 noExt noExt noExt where
  cls_ok := ⟨by decide, by decide, by
    intro c h
    simp only [asciiCls, isAsciiDigit, Bool.and_eq_true, decide_eq_true_eq] at h
    refine ⟨?_, ?_, ?_⟩
    · simp only [isAsciiAlpha, Bool.or_eq_false_iff, Bool.and_eq_false_imp, decide_eq_true_eq, decide_eq_false_iff_not]
      constructor <;> intro h3 <;> intro h4
      · exact absurd (Char.le_trans h3 h.2) (by decide)
      · exact absurd (Char.le_trans h3 h.2) (by decide)
    · intro hc; subst hc; exact absurd h.1 (by decide)
    · intro hc; subst hc; exact absurd h.1 (by decide)⟩
  two := by decide
  no_nl_end := by decide
  d_head := by decide
  no_quotes := by decide
  ext_local := ⟨fun _ _ => rfl, fun _ => rfl⟩
  ext_ok_p := by intro _ _ _ h; cases h
  ext_ok_d := by intro _ _ _ h; cases h
  ext_no_nl := by intro _ _ _ h; cases h

/-- … and the conclusion computed on it: CommaFixes reports in BOTH paragraphs (`a ,b` → `a, b` at 1..3; `c,d`:
a blank after the comma at 8..9 = 1..2 moved by 7), CapitalizePersonalPronouns in the second -/
example : docRule asciiCls noExt (ruleCommaFixes env0) (['a', ' ', ',', 'b', '.', '\n', '\n'] ++ ['c', ',', 'd', ' ', 'i']) =
      .ok [⟨⟨1, 3⟩, [.replaceWith [',', ' ']], 26, 5⟩, ⟨⟨8, 9⟩, [.insertAfter [' ']], 26, 4⟩] ∧
    docRule asciiCls noExt (ruleCommaFixes env0) ['c', ',', 'd', ' ', 'i'] = .ok [⟨⟨1, 2⟩, [.insertAfter [' ']], 26, 4⟩] ∧
    docRule asciiCls noExt (ruleCapitalizePersonalPronouns env0) (['a', ' ', ',', 'b', '.', '\n', '\n'] ++ ['c', ',', 'd', ' ', 'i']) =
      .ok [⟨⟨11, 12⟩, [.replaceWith ['I']], 22, 0⟩] := by decide

/-- the tokens of `note¶¶` and of `book`, and a dictionary that knows `notebook` only -/
def noteP : List Tok := [⟨⟨0, 4⟩, .word⟩, ⟨⟨4, 6⟩, .paragraphBreak⟩]
def bookD : List Tok := [⟨⟨0, 4⟩, .word⟩]
def envNotebook : Env :=
  { env0 with wordFlags := fun w => if w == ['n', 'o', 't', 'e', 'b', 'o', 'o', 'k'] then 2 ^ 19 else 0 }

example : (document asciiCls noExt ['n', 'o', 't', 'e', '\n', '\n']).toOption = some noteP ∧
    (document asciiCls noExt ['b', 'o', 'o', 'k']).toOption = some bookD := by decide

/-- the window `(note, ¶¶, book)` straddles the break and reports nothing: the break is not whitespace -/
example : ruleMergeWords envNotebook (['n', 'o', 't', 'e', '\n', '\n'] ++ ['b', 'o', 'o', 'k']) (noteP ++ shiftDoc 6 2 bookD) = .ok [] := by
  decide

/-- **the premise `2 ≤ k` is needed**: with ONE newline between the texts the separator is a `Newline` token,
which IS whitespace — MergeWords reports `note⏎book` in the whole, and nothing in either part -/
example : docRule asciiCls noExt (ruleMergeWords envNotebook) (['n', 'o', 't', 'e', '\n'] ++ ['b', 'o', 'o', 'k']) =
      .ok [⟨⟨0, 9⟩, [.replaceWith ['n', 'o', 't', 'e', 'b', 'o', 'o', 'k']], 27, 0⟩] ∧
    docRule asciiCls noExt (ruleMergeWords envNotebook) ['n', 'o', 't', 'e', '\n'] = .ok [] ∧
    docRule asciiCls noExt (ruleMergeWords envNotebook) ['b', 'o', 'o', 'k'] = .ok [] := by decide

/-- … and MergeWords is not a sentence-, chunk- or line-local rule: `Appends` fails for a separator that is a
`Newline` token (so the hypothesis `isParagraphBreak` of `WinLocal.blindAfter` cannot be dropped) -/
example : ¬ ∀ (P D : List Char) (A0 : List Tok) (brk : Tok) (td : List Tok), brk.kind.isWhitespace = true →
    (∀ t ∈ A0 ++ [brk], tokOK t = true ∧ t.span.stop ≤ P.length) → (∀ t ∈ td, tokOK t = true) →
    ruleMergeWords envNotebook (P ++ D) ((A0 ++ [brk]) ++ shiftDoc P.length (A0 ++ [brk]).length td) =
      joinE P.length (ruleMergeWords envNotebook P (A0 ++ [brk])) (ruleMergeWords envNotebook D td) := by
  intro h
  have := h ['n', 'o', 't', 'e', '\n'] ['b', 'o', 'o', 'k'] [⟨⟨0, 4⟩, .word⟩] ⟨⟨4, 5⟩, .newline 1⟩ bookD rfl (by decide) (by decide)
  revert this
  decide

/-- CommaFixes looks across chunk and sentence boundaries inside a paragraph (a comma IS a chunk terminator:
the word after it belongs to the next chunk): it is not `overPieces iterChunks` of a chunk-local rule -/
example : ¬ ∃ f : PieceRule, XLocalE f ∧ ∀ src toks, ruleCommaFixes env0 src toks = overPieces iterChunks f src toks := by
  rintro ⟨f, hf, heq⟩
  -- `a,` + `b`: joined at the comma (a chunk terminator) the rule reports; separately it does not
  have h := overPieces_append isChunkTerminator (fun j k => isChunkTerminator_shiftTwin j k) f hf ['a', ','] ['b']
    [⟨⟨0, 1⟩, .word⟩] ⟨⟨1, 2⟩, .punct .Comma⟩ rfl [⟨⟨0, 1⟩, .word⟩] (by decide) (by decide)
  have h' : overPieces iterChunks f (['a', ','] ++ ['b'])
        (([⟨⟨0, 1⟩, .word⟩] ++ [⟨⟨1, 2⟩, .punct .Comma⟩]) ++ shiftDoc 2 2 [⟨⟨0, 1⟩, .word⟩]) =
      joinE 2 (overPieces iterChunks f ['a', ','] ([⟨⟨0, 1⟩, .word⟩] ++ [⟨⟨1, 2⟩, .punct .Comma⟩]))
        (overPieces iterChunks f ['b'] [⟨⟨0, 1⟩, .word⟩]) := h
  rw [← heq, ← heq, ← heq] at h'
  revert h'
  decide

/-- `big of a¶¶` + `big  of an x`, `big` an adjective: AdjectiveOfA reports in both paragraphs -/
example : docRule asciiCls noExt (ruleAdjectiveOfA C03.envBig)
      (['b', 'i', 'g', ' ', 'o', 'f', ' ', 'a', '\n', '\n'] ++ ['b', 'i', 'g', ' ', 'o', 'f', ' ', 'a', 'n', ' ', 'x']) =
    .ok [⟨⟨0, 8⟩, [.replaceWith ['b', 'i', 'g', ' ', 'a']], 31, 0⟩, ⟨⟨10, 19⟩, [.replaceWith ['b', 'i', 'g', ' ', 'a', 'n']], 31, 0⟩] := by
  decide

end Harper.C12
