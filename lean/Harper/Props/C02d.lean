import Harper.Props.C02c
import Harper.Lemmas.MarkdownWrap
/-!
# C02 / C01 (fourth part) — the Markdown parser's own logic and the two wrapper parsers

Model: `Harper/Model/Markdown.lean` (`Markdown::parse` over pulldown-cmark's events given as data,
`remove_hidden_wikilink_tokens`, `remove_wikilink_brackets`, `CollapseIdentifiers`,
`IsolateEnglish` + `is_likely_english`). Helper lemmas: `Lemmas/Markdown.lean`,
`Lemmas/MarkdownWrap.lean`.

* `mdParse_inbounds` — UNCONDITIONAL: for every text, inner parser and EVERY event list, every
  token `Markdown::parse` returns lies inside the text. `mdParse_total` — no panic for every event
  list whose starts can be sliced (`StartsOK`, far weaker than `EventsOK`; nothing about ends,
  order, disjointness, lengths). Both since the repairs in /repo (slice clamp; final clamp pass).
* `mdParse_sorted_covering` — for every event list satisfying the decidable assumption `EventsOK`
  (evaluated by the driver on every real event list, op `evok`): the tokens that cover characters
  are increasing and pairwise disjoint, and (if no event has an empty unlintable text, `solidOK`)
  zero-width tokens are only `ParagraphBreak` / `Newline`.
  `mdParseSrc_*`: the same for exactly what the driver runs.
* `removeIndices_arbitrary_spec` and corollaries — what `Vec::remove_indices` does for ANY queue;
  `wikilink_cleanup_safe`; the two-pipe witness: the queue really is duplicated and unsorted, and
  a `remove_indices` that calls `Vec::remove` back to front panics on it.
* `collapseIdentifiers_sublist_spans`, `collapseIdentifiers_preserves_*`, `isolateEnglish_sublist`,
  `isolateEnglish_spec`.

pulldown-cmark itself (which events it emits) is not modelled: `EventsOK` is where it enters.
-/
namespace Harper.C02
open Harper Harper.Md

/-! ## Markdown -/

/-- `PlainEnglish::parse` satisfies what the Markdown theorems need of the inner parser -/
theorem plainEnglish_innerOK (cls : Cls) : Md.InnerOK (parsePlainFull cls) := by
  intro s
  obtain ⟨toks, h, ht, _⟩ := parsePlainFull_tiles cls s
  exact ⟨toks, h, ht⟩

/-- the bytes the model computes for a text have one well-formed group per character -/
theorem utf8Bytes_charCount (src : List Char) : charCount (utf8Bytes src) = src.length :=
  charCount_utf8Bytes src

/-- NO PANIC, FOR EVERY EVENT LIST WHOSE STARTS CAN BE SLICED (`StartsOK`: an event start that is
ahead of the cursor is a char boundary inside the text — the one thing `source_str[a..b]` needs;
implied by `EventsOK`, monitored on every real event list). Nothing is assumed about range ends,
order, nesting, disjointness or text lengths: since the repair "Markdown text chunk is clamped to
the source" the slice of the source is always in range, the final clamp pass cannot underflow on
well-formed spans, and the clean-up passes cannot panic. -/
theorem mdParse_total (bs : List Nat) (src : List Char) (inner : List Char → Except Panic (List Tok))
    (ilt : Bool) (events : List MdEvent) (hin : Md.InnerOK inner) (hst : StartsOK bs events) :
    ∃ toks, mdParse bs src inner ilt events = .ok toks :=
  mdParse_total_of_starts bs src inner ilt events hin hst

/-- IN BOUNDS, UNCONDITIONALLY: for every text, every byte list, every inner parser and EVERY event
list, each token `Markdown::parse` returns is a well-formed span inside the text (the repair
"Markdown tokens never reach past the end of the source": the final `retain_mut` pass). -/
theorem mdParse_inbounds (bs : List Nat) (src : List Char) (inner : List Char → Except Panic (List Tok))
    (ilt : Bool) (events : List MdEvent) (toks : List Tok)
    (h : mdParse bs src inner ilt events = .ok toks) :
    ∀ t ∈ toks, t.span.start ≤ t.span.stop ∧ t.span.stop ≤ src.length :=
  mdParse_inb_of_ok bs src inner ilt events toks h

/-- `EventsOK` implies `StartsOK` -/
theorem eventsOK_startsOK (bs : List Nat) (ilt : Bool) (events : List MdEvent)
    (h : EventsOK bs ilt events) : StartsOK bs events :=
  Md.eventsOK_startsOK bs ilt events 0 0 [] h

/-- both, for what the driver runs: `StartsOK` is the only hypothesis -/
theorem mdParseSrc_total_inbounds (cls : Cls) (src : List Char) (ilt : Bool) (events : List MdEvent)
    (hst : StartsOK (utf8Bytes src) events) :
    ∃ toks, mdParseSrc cls src ilt events = .ok toks ∧
      ∀ t ∈ toks, t.span.start ≤ t.span.stop ∧ t.span.stop ≤ src.length := by
  obtain ⟨toks, h⟩ := mdParse_total (utf8Bytes src) src (parsePlainFull cls) ilt events
    (plainEnglish_innerOK cls) hst
  exact ⟨toks, h, mdParse_inbounds _ _ _ _ _ toks h⟩

/-- ORDERED, DISJOINT: the tokens that cover characters are increasing and pairwise disjoint;
zero-width tokens are only `ParagraphBreak` / `Newline` (given that no Code / Math / Html /
unlintable Text event is empty: `solidOK`) -/
theorem mdParse_sorted_covering (bs : List Nat) (src : List Char)
    (inner : List Char → Except Panic (List Tok)) (ilt : Bool) (events : List MdEvent)
    (hN : charCount bs = src.length) (hin : Md.InnerOK inner) (hev : EventsOK bs ilt events)
    (toks : List Tok) (h : mdParse bs src inner ilt events = .ok toks) :
    (toks.filter (fun t => decide (t.span.start < t.span.stop))).Pairwise
        (fun a b => a.span.stop ≤ b.span.start) ∧
      (solidOK ilt [] events = true → ∀ t ∈ toks, t.span.start = t.span.stop →
        t.kind = .paragraphBreak ∨ t.kind.isNewline = true) := by
  obtain ⟨toks', h', hg, hz⟩ := mdParse_spec bs src inner ilt events hN hin hev
  rw [h] at h'; cases h'
  exact ⟨hg.sorted, hz⟩

/-- all three for what the driver runs (`op mdparse`): bytes computed from the characters, inner
parser = the model of `PlainEnglish`; `EventsOK` is the only hypothesis left -/
theorem mdParseSrc_total_inbounds_sorted (cls : Cls) (src : List Char) (ilt : Bool)
    (events : List MdEvent) (hev : EventsOK (utf8Bytes src) ilt events) :
    ∃ toks, mdParseSrc cls src ilt events = .ok toks ∧
      (∀ t ∈ toks, t.span.start ≤ t.span.stop ∧ t.span.stop ≤ src.length) ∧
      (toks.filter (fun t => decide (t.span.start < t.span.stop))).Pairwise
        (fun a b => a.span.stop ≤ b.span.start) ∧
      (solidOK ilt [] events = true → ∀ t ∈ toks, t.span.start = t.span.stop →
        t.kind = .paragraphBreak ∨ t.kind.isNewline = true) := by
  obtain ⟨toks, h, hg, hz⟩ := mdParse_spec (utf8Bytes src) src (parsePlainFull cls) ilt events
    (charCount_utf8Bytes src) (plainEnglish_innerOK cls) hev
  exact ⟨toks, h, hg.inb, hg.sorted, hz⟩

/-! ### non-vacuity (kernel-evaluated; events copied from pulldown-cmark's output) -/

/-- `é *b*⏎`: `Start(Paragraph) Text Start(Emphasis) Text End(Emphasis) End(Paragraph)` -/
def sampleEvents : List MdEvent :=
  [⟨.start .Paragraph, 0, 7⟩, ⟨.text 2, 0, 3⟩, ⟨.start .Emphasis, 3, 6⟩, ⟨.text 1, 4, 5⟩,
   ⟨.stop .Emphasis, 3, 6⟩, ⟨.stop .Paragraph, 0, 7⟩]

def sampleText : List Char := ['é', ' ', '*', 'b', '*', '\n']

def asciiPlus : Cls where
  lingual := fun c => isAsciiAlpha c || c == 'é'
  numeric := isAsciiDigit
  alnum := fun c => isAsciiAlnum c || c == 'é'

/-- the hypotheses are satisfiable: a real event list with a two-byte character -/
example : EventsOK (utf8Bytes sampleText) false sampleEvents := by decide
example : solidOK false [] sampleEvents = true := by decide

/-- … and the model returns what the real parser returns: the zero-width `ParagraphBreak` sits at
the START of the last text event (3), before the end of the word it follows -/
example : mdParseSrc asciiPlus sampleText false sampleEvents =
    .ok [⟨⟨0, 1⟩, .word⟩, ⟨⟨1, 2⟩, .space 1⟩, ⟨⟨3, 4⟩, .word⟩, ⟨⟨3, 3⟩, .paragraphBreak⟩] := by decide

/-- non-vacuity of `mdParse_sorted_covering` / `mdParseSrc_total_inbounds_sorted` (hence of
`mdParse_total`, `mdParse_inbounds`, `eventsOK_startsOK`): ALL hypotheses at once (`EventsOK` and,
for the zero-width clause, `solidOK`) on the real list above — four tokens, an inner-parsed text
with a two-byte character, a zero-width break; the theorem applied, its conclusion concrete -/
example : ∃ toks, mdParseSrc asciiPlus sampleText false sampleEvents = .ok toks ∧ toks.length = 4 ∧
      (∀ t ∈ toks, t.span.start ≤ t.span.stop ∧ t.span.stop ≤ sampleText.length) ∧
      (toks.filter (fun t => decide (t.span.start < t.span.stop))).Pairwise
        (fun a b => a.span.stop ≤ b.span.start) ∧
      (∀ t ∈ toks, t.span.start = t.span.stop → t.kind = .paragraphBreak ∨ t.kind.isNewline = true) := by
  obtain ⟨toks, h, hb, hs, hz⟩ :=
    mdParseSrc_total_inbounds_sorted asciiPlus sampleText false sampleEvents (by decide)
  have hl : toks.length = 4 := by
    have h2 : mdParseSrc asciiPlus sampleText false sampleEvents =
      .ok [⟨⟨0, 1⟩, .word⟩, ⟨⟨1, 2⟩, .space 1⟩, ⟨⟨3, 4⟩, .word⟩, ⟨⟨3, 3⟩, .paragraphBreak⟩] := by decide
    rw [h2] at h; cases h; rfl
  exact ⟨toks, h, hl, hb, hs, hz (by decide)⟩

/-- non-vacuity of `mdParse_sorted_covering`, second witness (HAND-MADE, in the shape pulldown-cmark
gives a tight list `- a⏎é `c`⏎`): `Start(List)`, a soft break, two inner-parsed texts, a `Code`
event; `EventsOK` and `solidOK` hold together and the parse has seven tokens, two of them
zero-width (`Newline(2)` at 0, `ParagraphBreak` at 6 — before the end of the token it follows) -/
example : ∃ (src : List Char) (events : List MdEvent),
    EventsOK (utf8Bytes src) false events ∧ solidOK false [] events = true ∧
    mdParseSrc asciiPlus src false events =
      .ok [⟨⟨0, 0⟩, .newline 2⟩, ⟨⟨2, 3⟩, .word⟩, ⟨⟨3, 4⟩, .newline 1⟩, ⟨⟨4, 5⟩, .word⟩, ⟨⟨5, 6⟩, .space 1⟩,
        ⟨⟨6, 7⟩, .unlintable⟩, ⟨⟨6, 6⟩, .paragraphBreak⟩] :=
  ⟨['-', ' ', 'a', '\n', 'é', ' ', '`', 'c', '`', '\n'],
   [⟨.start .List, 0, 11⟩, ⟨.start .Item, 0, 11⟩, ⟨.text 1, 2, 3⟩, ⟨.softBreak, 3, 4⟩, ⟨.text 2, 4, 7⟩,
    ⟨.code 1, 7, 10⟩, ⟨.stop .Item, 0, 11⟩, ⟨.stop .List, 0, 11⟩], by decide, by decide, by decide⟩

/-- `EventsOK` is needed. pulldown-cmark 0.13.0 for `[[a|]]b c d` (a wikilink with a pipe and no
display text) emits the rest of the paragraph twice; the event list is not monotone … -/
def emptyAliasEvents : List MdEvent :=
  [⟨.start .Paragraph, 0, 11⟩, ⟨.start .Link, 0, 5⟩, ⟨.text 1, 4, 5⟩, ⟨.text 1, 5, 6⟩, ⟨.text 5, 6, 11⟩,
   ⟨.stop .Link, 0, 5⟩, ⟨.text 5, 6, 11⟩, ⟨.stop .Paragraph, 0, 11⟩]

def emptyAliasText : List Char := ['[', '[', 'a', '|', ']', ']', 'b', ' ', 'c', ' ', 'd']

example : ¬ EventsOK (utf8Bytes emptyAliasText) false emptyAliasEvents := by decide

/-- … and `Markdown::parse` returns every token after the wikilink twice (recorded finding
`c02-md-wikilink-events`; in bounds all the same) -/
example : mdParseSrc asciiPlus emptyAliasText false emptyAliasEvents =
    .ok [⟨⟨4, 5⟩, .punct .CloseSquare⟩, ⟨⟨5, 6⟩, .punct .CloseSquare⟩,
      ⟨⟨6, 7⟩, .word⟩, ⟨⟨7, 8⟩, .space 1⟩, ⟨⟨8, 9⟩, .word⟩, ⟨⟨9, 10⟩, .space 1⟩, ⟨⟨10, 11⟩, .word⟩,
      ⟨⟨6, 7⟩, .word⟩, ⟨⟨7, 8⟩, .space 1⟩, ⟨⟨8, 9⟩, .word⟩, ⟨⟨9, 10⟩, .space 1⟩, ⟨⟨10, 11⟩, .word⟩] := by
  decide

/-- REGRESSION `![[b c|]]b c[- ` (was `c01-md-wikilink-empty-alias`: `source[13..16]` of 15
characters panicked): the re-emitted text events are now parsed on a slice clamped to the source —
`.ok`, in bounds (the tokens still overlap: `EventsOK` fails, `c02-md-wikilink-events` stays) -/
def emptyAliasImageEvents : List MdEvent :=
  [⟨.start .Paragraph, 0, 15⟩, ⟨.start .Image, 0, 8⟩, ⟨.text 1, 7, 8⟩, ⟨.text 1, 8, 9⟩,
   ⟨.text 3, 9, 12⟩, ⟨.text 1, 12, 13⟩, ⟨.text 1, 13, 14⟩, ⟨.stop .Image, 0, 8⟩, ⟨.text 3, 9, 12⟩,
   ⟨.text 1, 12, 13⟩, ⟨.text 1, 13, 14⟩, ⟨.stop .Paragraph, 0, 15⟩]

def emptyAliasImageText : List Char :=
  ['!', '[', '[', 'b', ' ', 'c', '|', ']', ']', 'b', ' ', 'c', '[', '-', ' ']

example : mdParseSrc asciiPlus emptyAliasImageText false emptyAliasImageEvents =
    .ok [⟨⟨13, 14⟩, .punct .Hyphen⟩, ⟨⟨14, 15⟩, .space 1⟩, ⟨⟨13, 14⟩, .punct .Hyphen⟩,
      ⟨⟨13, 14⟩, .punct .Hyphen⟩] := by decide

example : StartsOK (utf8Bytes emptyAliasImageText) emptyAliasImageEvents ∧
    ¬ EventsOK (utf8Bytes emptyAliasImageText) false emptyAliasImageEvents := by decide

/-- non-vacuity of `mdParse_total` / `mdParseSrc_total_inbounds` where `EventsOK` FAILS: the theorem
applied to the real twelve-event list above (`StartsOK` is its only hypothesis) -/
example : ∃ toks, mdParseSrc asciiPlus emptyAliasImageText false emptyAliasImageEvents = .ok toks ∧
    ∀ t ∈ toks, t.span.start ≤ t.span.stop ∧ t.span.stop ≤ 15 :=
  mdParseSrc_total_inbounds asciiPlus emptyAliasImageText false emptyAliasImageEvents (by decide)

/-- REGRESSION ` ```⏎⇥x` (was `c01-md-synthetic-text` / the out-of-bounds part of
`c02-md-synthetic-text`: `Unlintable 6..9` in 7 characters): the token built from pulldown-cmark's
empty-range tab-expansion event is clamped to `6..7` (it still overlaps the next one) -/
example : mdParseSrc asciiPlus [' ', '`', '`', '`', '\n', '\t', 'x'] false
    [⟨.start .CodeBlock, 1, 7⟩, ⟨.text 3, 6, 6⟩, ⟨.text 1, 6, 7⟩, ⟨.stop .CodeBlock, 1, 7⟩] =
    .ok [⟨⟨6, 7⟩, .unlintable⟩, ⟨⟨6, 7⟩, .unlintable⟩] := by decide

/-- … and in ` ```⏎⇥` the token that lay entirely past the end (`6..9` of 6) is dropped, the
zero-width break survives the pass and is then popped as a trailing break -/
example : mdParseSrc asciiPlus [' ', '`', '`', '`', '\n', '\t'] false
    [⟨.start .CodeBlock, 1, 6⟩, ⟨.text 3, 6, 6⟩, ⟨.stop .CodeBlock, 1, 6⟩] = .ok [] := by decide

/-- the clamp pass by itself: clamped, dropped because it became empty, kept because it was empty -/
example : clampAll 7 [⟨⟨6, 9⟩, .unlintable⟩, ⟨⟨8, 9⟩, .word⟩, ⟨⟨9, 9⟩, .paragraphBreak⟩] =
    .ok [⟨⟨6, 7⟩, .unlintable⟩, ⟨⟨7, 7⟩, .paragraphBreak⟩] := by decide

/-- `StartsOK` is needed: an event that starts inside the two-byte `é` makes
`source_str[0..1]` panic (no real pulldown-cmark event list does that: monitored) -/
example : mdParseSrc asciiPlus ['é'] false [⟨.text 1, 1, 2⟩] = .error .sliceOOB := by decide
example : ¬ StartsOK (utf8Bytes ['é']) [⟨.text 1, 1, 2⟩] := by decide

/-- `solidOK` is needed for the zero-width clause: `$$$$x` is `DisplayMath("")` and the parser
pushes an `Unlintable` of width 0 (recorded finding `c02-md-empty-math`) -/
example : mdParseSrc asciiPlus ['$', '$', '$', '$', 'x'] false
    [⟨.start .Paragraph, 0, 5⟩, ⟨.code 0, 0, 4⟩, ⟨.text 1, 4, 5⟩, ⟨.stop .Paragraph, 0, 5⟩] =
    .ok [⟨⟨0, 0⟩, .unlintable⟩, ⟨⟨4, 5⟩, .word⟩] := by decide

/-! ## `remove_indices` for an arbitrary queue, and the wikilink clean-up -/

/-- WHAT `Vec::remove_indices` DOES FOR ANY QUEUE `q` (duplicates, any order, out of range): it
removes exactly the positions `reachedIdx i q xs.length` — the head of the queue goes when the
running index reaches it; a head the running index has passed, or beyond the vector, blocks the
rest of the queue for good. -/
theorem removeIndices_arbitrary_spec {α} (xs : List α) (i : Nat) (q : List Nat) :
    removeIndices i q xs =
      ((xs.zipIdx i).filter (fun p => !(reachedIdx i q xs.length).contains p.2)).map (·.1) :=
  ri_arbitrary_spec xs i q

/-- the reached positions are a strictly increasing sub-sequence of the queue inside the vector -/
theorem reachedIdx_facts (i : Nat) (q : List Nat) (n : Nat) :
    (reachedIdx i q n).Sublist q ∧ (reachedIdx i q n).Pairwise (· < ·) ∧
      ∀ r ∈ reachedIdx i q n, i ≤ r ∧ r < i + n :=
  ⟨reachedIdx_sublist n i q, reachedIdx_pairwise n i q, reachedIdx_bounds n i q⟩

/-- it never panics (the model is total) and only removes: the result is a sub-list -/
theorem removeIndices_arbitrary_sublist {α} (xs : List α) (i : Nat) (q : List Nat) :
    (removeIndices i q xs).Sublist xs := ri_sublist xs i q

/-- it removes one element per reached position, hence at most `q.length` elements -/
theorem removeIndices_arbitrary_length {α} (xs : List α) (i : Nat) (q : List Nat) :
    (removeIndices i q xs).length + (reachedIdx i q xs.length).length = xs.length ∧
      xs.length - q.length ≤ (removeIndices i q xs).length := by
  have h1 := ri_length xs i q
  have h2 := (reachedIdx_sublist xs.length i q).length_le
  exact ⟨h1, by omega⟩

/-- for a strictly increasing queue (at or after the running index) the general description
coincides with the one of the increasing case (`Harper.C13.removeIndices_spec`): exactly the queued
positions go; and a queue inside the vector is reached completely -/
theorem removeIndices_arbitrary_eq_increasing {α} (xs : List α) (i : Nat) (q : List Nat)
    (hq : q.Pairwise (· < ·)) (hi : ∀ r ∈ q, i ≤ r) :
    ((xs.zipIdx i).filter (fun p => !(reachedIdx i q xs.length).contains p.2)).map (·.1) =
      ((xs.zipIdx i).filter (fun p => !q.contains p.2)).map (·.1) ∧
    ((∀ r ∈ q, r < i + xs.length) → reachedIdx i q xs.length = q) := by
  refine ⟨?_, ?_⟩
  · rw [← ri_arbitrary_spec, ri_increasing_spec xs i q hq hi]
  · intro hb
    exact reachedIdx_of_increasing xs.length i q hq (fun r hr => ⟨hi r hr, hb r hr⟩)

/-- non-vacuity of `removeIndices_arbitrary_eq_increasing`: the queue `[1, 4, 6]` of the unit test of
vec_ext.rs on eight elements — increasing, inside the vector, reached completely -/
example : reachedIdx 0 [1, 4, 6] [10, 11, 12, 13, 14, 15, 16, 17].length = [1, 4, 6] :=
  (removeIndices_arbitrary_eq_increasing [10, 11, 12, 13, 14, 15, 16, 17] 0 [1, 4, 6] (by decide)
    (by decide)).2 (by decide)

/-- THE WIKILINK CLEAN-UP IS SAFE WITH THE SHIPPED `remove_indices`: for every token list both
passes (the code has no other panicking operation: `get`, a guarded `pipe_idx - 2`, a guarded
`cursor -= 1`) return a sub-list of their input, however the queue looks -/
theorem wikilink_cleanup_safe (toks : List Tok) :
    (removeHiddenWikilinkTokens toks).Sublist toks ∧ (removeWikilinkBrackets toks).Sublist toks ∧
      (wikilinkCleanup toks).Sublist toks ∧
      toks.length - (hiddenIdx (toks.map (·.kind))).length ≤ (removeHiddenWikilinkTokens toks).length :=
  ⟨removeHidden_sublist toks, removeBrackets_sublist toks, wikilinkCleanup_sublist toks,
   (removeIndices_arbitrary_length toks 0 _).2⟩

/-! ### the two-pipe witness `[[|b|c]]` -/

/-- the tokens of `[[|b|c]]` before the clean-up -/
def twoPipe : List Tok :=
  [⟨⟨0, 1⟩, .punct .OpenSquare⟩, ⟨⟨1, 2⟩, .punct .OpenSquare⟩, ⟨⟨2, 3⟩, .punct .Pipe⟩, ⟨⟨3, 4⟩, .word⟩,
   ⟨⟨4, 5⟩, .punct .Pipe⟩, ⟨⟨5, 6⟩, .word⟩, ⟨⟨6, 7⟩, .punct .CloseSquare⟩, ⟨⟨7, 8⟩, .punct .CloseSquare⟩]

/-- each pipe pushes `open..=pipe, close, close + 1`: the queue has duplicates and goes backwards -/
example : hiddenIdx (twoPipe.map (·.kind)) = [0, 1, 2, 6, 7, 0, 1, 2, 3, 4, 6, 7] := by decide

example : ¬ (hiddenIdx (twoPipe.map (·.kind))).Pairwise (· < ·) := by decide

/-- the shipped `remove_indices` gets through it: the second copy of the queue is never reached -/
example : reachedIdx 0 (hiddenIdx (twoPipe.map (·.kind))) twoPipe.length = [0, 1, 2, 6, 7] := by decide

example : removeHiddenWikilinkTokens twoPipe =
    [⟨⟨3, 4⟩, .word⟩, ⟨⟨4, 5⟩, .punct .Pipe⟩, ⟨⟨5, 6⟩, .word⟩] := by decide

/-- a `remove_indices` that relies on "sorted, unique" — `Vec::remove(index)` back to front, the
seeded change — panics on that queue (`removal index (is 7) should be < len`) -/
example : removeBackToFront (hiddenIdx (twoPipe.map (·.kind))) twoPipe = .error .sliceOOB := by decide

/-- on a sorted, unique queue the two agree (why the seeded change passes every other caller) -/
example : removeBackToFront [1, 4, 6] [10, 11, 12, 13, 14, 15, 16, 17] =
    .ok (removeIndices 0 [1, 4, 6] [10, 11, 12, 13, 14, 15, 16, 17]) := by decide

/-- a near miss: ONE pipe gives a sorted, duplicate-free queue -/
example : hiddenIdx ([Kind.punct .OpenSquare, .punct .OpenSquare, .word, .punct .Pipe, .word,
    .punct .CloseSquare, .punct .CloseSquare]) = [0, 1, 2, 3, 5, 6] := by decide

/-- `remove_wikilink_brackets`: `[[a]] [[b` -/
example : bracketIdx [.punct .OpenSquare, .punct .OpenSquare, .word, .punct .CloseSquare,
    .punct .CloseSquare, .space 1, .punct .OpenSquare, .punct .OpenSquare, .word] = [0, 1, 3, 4] := by
  decide

/-! ## `CollapseIdentifiers` -/

/-- OUTPUT TOKENS ARE INPUT TOKENS OR MERGES OF CONTIGUOUS RUNS. If `CollapseIdentifiers::parse`
returns (it can panic only in `Span::new` / `get_content`, on an inner token list that is out of
order or out of bounds), then — for every dictionary — its result is the inner parser's token list
with some pairwise disjoint runs `first … last` (both words) replaced by ONE `Word` token
`first.start .. last.stop` each (`Merged`), so no longer than the input, and every output token is
an input token or spans from the start of one input token to the end of another. -/
theorem collapseIdentifiers_sublist_spans (dict : List Char → Bool) (src : List Char)
    (toks out : List Tok) (h : collapseIdentifiers dict src toks = .ok out) :
    Merged toks out ∧ out.length ≤ toks.length ∧
      ∀ t ∈ out, t ∈ toks ∨ ∃ f l, f ∈ toks ∧ l ∈ toks ∧ f.kind.isWord = true ∧ l.kind.isWord = true ∧
        t = ⟨⟨f.span.start, l.span.stop⟩, .word⟩ := by
  have hm := collapseIdentifiers_merged dict src toks out h
  exact ⟨hm, hm.length_le, hm.mem_word⟩

/-- in bounds, ordered, disjoint are preserved (inner parsers all of whose tokens cover
characters: plain English, HTML, comments) -/
theorem collapseIdentifiers_preserves_sorted (dict : List Char → Bool) (src : List Char) (n : Nat)
    (toks out : List Tok) (h : collapseIdentifiers dict src toks = .ok out)
    (hwf : ∀ t ∈ toks, t.span.start ≤ t.span.stop ∧ t.span.stop ≤ n)
    (hs : toks.Pairwise (fun x y => x.span.stop ≤ y.span.start)) :
    (∀ t ∈ out, t.span.start ≤ t.span.stop ∧ t.span.stop ≤ n) ∧
      out.Pairwise (fun x y => x.span.stop ≤ y.span.start) :=
  (collapseIdentifiers_merged dict src toks out h).sorted hwf hs

/-- … and so is the Markdown shape (zero-width breaks anywhere, covering tokens increasing and
disjoint), given that word tokens cover characters -/
theorem collapseIdentifiers_preserves_covering (dict : List Char → Bool) (src : List Char) (n : Nat)
    (toks out : List Tok) (h : collapseIdentifiers dict src toks = .ok out)
    (hw : ∀ t ∈ toks, t.kind.isWord = true → t.span.start < t.span.stop)
    (hwf : ∀ t ∈ toks, t.span.start ≤ t.span.stop ∧ t.span.stop ≤ n)
    (hs : (toks.filter (fun t => decide (t.span.start < t.span.stop))).Pairwise
      (fun a b => a.span.stop ≤ b.span.start)) :
    (∀ t ∈ out, t.span.start ≤ t.span.stop ∧ t.span.stop ≤ n) ∧
      (out.filter (fun t => decide (t.span.start < t.span.stop))).Pairwise
        (fun a b => a.span.stop ≤ b.span.start) := by
  have hg : Md.Good n 0 toks := ⟨hwf, fun _ _ _ => Nat.zero_le _, hs⟩
  have := (collapseIdentifiers_merged dict src toks out h).good hw hg
  exact ⟨this.inb, this.sorted⟩

/-- `snake_case is` with `snake_case` in the dictionary: three tokens become one -/
example : collapseIdentifiers (fun w => w == ['s', 'n', 'a', 'k', 'e', '_', 'c', 'a', 's', 'e'])
    ['s', 'n', 'a', 'k', 'e', '_', 'c', 'a', 's', 'e', ' ', 'i', 's']
    [⟨⟨0, 5⟩, .word⟩, ⟨⟨5, 6⟩, .punct .Underscore⟩, ⟨⟨6, 10⟩, .word⟩, ⟨⟨10, 11⟩, .space 1⟩, ⟨⟨11, 13⟩, .word⟩] =
    .ok [⟨⟨0, 10⟩, .word⟩, ⟨⟨10, 11⟩, .space 1⟩, ⟨⟨11, 13⟩, .word⟩] := by decide

/-- not in the dictionary: untouched -/
example : collapseIdentifiers (fun _ => false)
    ['s', 'n', 'a', 'k', 'e', '_', 'c', 'a', 's', 'e']
    [⟨⟨0, 5⟩, .word⟩, ⟨⟨5, 6⟩, .punct .Underscore⟩, ⟨⟨6, 10⟩, .word⟩] =
    .ok [⟨⟨0, 5⟩, .word⟩, ⟨⟨5, 6⟩, .punct .Underscore⟩, ⟨⟨6, 10⟩, .word⟩] := by decide

/-- the panic the theorem's premise excludes: an inner token list that is out of order -/
example : collapseIdentifiers (fun _ => true) ['a', '_', 'b']
    [⟨⟨2, 3⟩, .word⟩, ⟨⟨1, 2⟩, .punct .Underscore⟩, ⟨⟨0, 1⟩, .word⟩] = .error .spanNew := by decide

/-- non-vacuity of `collapseIdentifiers_sublist_spans` and `collapseIdentifiers_preserves_sorted`: all
hypotheses on the five tokens of `snake_case is`; the theorem applied -/
example : (∀ t ∈ ([⟨⟨0, 10⟩, .word⟩, ⟨⟨10, 11⟩, .space 1⟩, ⟨⟨11, 13⟩, .word⟩] : List Tok),
      t.span.start ≤ t.span.stop ∧ t.span.stop ≤ 13) ∧
    ([⟨⟨0, 10⟩, .word⟩, ⟨⟨10, 11⟩, .space 1⟩, ⟨⟨11, 13⟩, .word⟩] : List Tok).Pairwise
      (fun x y => x.span.stop ≤ y.span.start) :=
  collapseIdentifiers_preserves_sorted (fun w => w == ['s', 'n', 'a', 'k', 'e', '_', 'c', 'a', 's', 'e'])
    ['s', 'n', 'a', 'k', 'e', '_', 'c', 'a', 's', 'e', ' ', 'i', 's'] 13
    [⟨⟨0, 5⟩, .word⟩, ⟨⟨5, 6⟩, .punct .Underscore⟩, ⟨⟨6, 10⟩, .word⟩, ⟨⟨10, 11⟩, .space 1⟩, ⟨⟨11, 13⟩, .word⟩]
    _ (by decide) (by decide) (by decide)

/-- non-vacuity of `collapseIdentifiers_preserves_covering`: the Markdown shape — the same tokens with
a zero-width `ParagraphBreak` at 6 AFTER the tokens that end at 10 (the list is not sorted as a
whole: `collapseIdentifiers_preserves_sorted` does not apply), all four hypotheses, a merge happens -/
example : (∀ t ∈ ([⟨⟨0, 10⟩, .word⟩, ⟨⟨6, 6⟩, .paragraphBreak⟩, ⟨⟨11, 13⟩, .word⟩] : List Tok),
      t.span.start ≤ t.span.stop ∧ t.span.stop ≤ 13) ∧
    (([⟨⟨0, 10⟩, .word⟩, ⟨⟨6, 6⟩, .paragraphBreak⟩, ⟨⟨11, 13⟩, .word⟩] : List Tok).filter
      (fun t => decide (t.span.start < t.span.stop))).Pairwise (fun a b => a.span.stop ≤ b.span.start) :=
  collapseIdentifiers_preserves_covering (fun w => w == ['s', 'n', 'a', 'k', 'e', '_', 'c', 'a', 's', 'e'])
    ['s', 'n', 'a', 'k', 'e', '_', 'c', 'a', 's', 'e', ' ', 'i', 's'] 13
    [⟨⟨0, 5⟩, .word⟩, ⟨⟨5, 6⟩, .punct .Underscore⟩, ⟨⟨6, 10⟩, .word⟩, ⟨⟨6, 6⟩, .paragraphBreak⟩, ⟨⟨11, 13⟩, .word⟩]
    _ (by decide) (by decide) (by decide) (by decide)

example : ¬ ([⟨⟨0, 5⟩, .word⟩, ⟨⟨5, 6⟩, .punct .Underscore⟩, ⟨⟨6, 10⟩, .word⟩, ⟨⟨6, 6⟩, .paragraphBreak⟩,
    ⟨⟨11, 13⟩, .word⟩] : List Tok).Pairwise (fun x y => x.span.stop ≤ y.span.start) := by decide

/-! ### C01 for the two wrappers: no panic on a well-formed inner token list -/

/-- `Span::get_content` of a well-formed span inside the text returns -/
theorem getContent_ok_of_inb {α} (s : Span) (src : List α) (h : s.start ≤ s.stop ∧ s.stop ≤ src.length) :
    ∃ c, s.getContent src = .ok c := by
  unfold Span.getContent
  split
  · omega
  · split
    · split
      · exact ⟨_, rfl⟩
      · rename_i h1 h2 h3
        simp at h3
        omega
    · exact ⟨_, rfl⟩

/-- the loop of `CollapseIdentifiers::parse` returns for ANY list of matches inside the token vector,
provided an earlier token never starts after the end of a later one and no token ends past the
text — an invariant the loop's own writes (`tokens[start] = first.start .. last.end`) maintain -/
theorem collapseLoop_total (dict : List Char → Bool) (src : List Char) :
    ∀ (ms : List Span) (toks : List Tok) (rem : List Nat),
      (∀ m ∈ ms, m.start < m.stop ∧ m.stop ≤ toks.length) →
      (∀ (i j : Nat) (s e : Tok), i ≤ j → toks[i]? = some s → toks[j]? = some e →
        s.span.start ≤ e.span.stop) →
      (∀ t ∈ toks, t.span.stop ≤ src.length) →
      ∃ r, collapseLoop dict src ms toks rem = .ok r := by
  intro ms
  induction ms with
  | nil => intro toks rem _ _ _; exact ⟨_, rfl⟩
  | cons m ms ih =>
    intro toks rem hb hmono hinb
    obtain ⟨hm1, hm2⟩ := hb m List.mem_cons_self
    have hb' : ∀ x ∈ ms, x.start < x.stop ∧ x.stop ≤ toks.length :=
      fun x hx => hb x (List.mem_cons_of_mem _ hx)
    have h1 : m.start < toks.length := by omega
    have h2 : m.stop - 1 < toks.length := by omega
    simp only [collapseLoop]
    rw [if_neg (by omega), List.getElem?_eq_getElem h1, List.getElem?_eq_getElem h2]
    simp only
    have hle : toks[m.start].span.start ≤ toks[m.stop - 1].span.stop :=
      hmono m.start (m.stop - 1) _ _ (by omega) (List.getElem?_eq_getElem h1) (List.getElem?_eq_getElem h2)
    have hstop : toks[m.stop - 1].span.stop ≤ src.length := hinb _ (List.getElem_mem h2)
    have hnew : Span.new toks[m.start].span.start toks[m.stop - 1].span.stop =
        .ok ⟨toks[m.start].span.start, toks[m.stop - 1].span.stop⟩ := by
      unfold Span.new; rw [if_neg (by omega)]
    obtain ⟨content, hc⟩ := getContent_ok_of_inb
      (⟨toks[m.start].span.start, toks[m.stop - 1].span.stop⟩ : Span) src ⟨hle, hstop⟩
    simp only [hnew, hc, bind, Except.bind]
    split
    · apply ih
      · simpa using hb'
      · intro i j s e hij hs he
        rw [List.getElem?_set] at hs he
        simp only [h1, if_true] at hs he
        by_cases hi : m.start = i
        · rw [if_pos hi] at hs; cases hs
          by_cases hj : m.start = j
          · rw [if_pos hj] at he; cases he; exact hle
          · rw [if_neg hj] at he
            exact hmono m.start j toks[m.start] e (by omega) (List.getElem?_eq_getElem h1) he
        · rw [if_neg hi] at hs
          by_cases hj : m.start = j
          · rw [if_pos hj] at he; cases he
            exact hmono i (m.stop - 1) s toks[m.stop - 1] (by omega) hs (List.getElem?_eq_getElem h2)
          · rw [if_neg hj] at he
            exact hmono i j s e hij hs he
      · intro t ht
        rcases List.mem_or_eq_of_mem_set ht with h | rfl
        · exact hinb t h
        · exact hstop
    · exact ih toks rem hb' hmono hinb

/-- NO PANIC (C01, `CollapseIdentifiers`): on an inner token list that is in bounds, ordered and
disjoint (plain English, HTML, comments — the premise `collapseIdentifiers_sublist_spans` takes as
`… = .ok out` is discharged), for every dictionary and every text -/
theorem collapseIdentifiers_total (dict : List Char → Bool) (src : List Char) (toks : List Tok)
    (hwf : ∀ t ∈ toks, t.span.start ≤ t.span.stop ∧ t.span.stop ≤ src.length)
    (hs : toks.Pairwise (fun x y => x.span.stop ≤ y.span.start)) :
    ∃ out, collapseIdentifiers dict src toks = .ok out := by
  obtain ⟨ms, hf, hg, _⟩ := findAllMatches_good src toks
  have hbounds : ∀ {off : Nat} {l : List Span}, GoodMs off l toks.length →
      ∀ m ∈ l, m.start < m.stop ∧ m.stop ≤ toks.length := by
    intro off l
    induction l generalizing off with
    | nil => intro _ m hm; cases hm
    | cons a l ih =>
      intro h m hm
      obtain ⟨_, g2, g3, g4⟩ := h
      rcases List.mem_cons.mp hm with rfl | hm
      · exact ⟨g2, g3⟩
      · exact ih g4 m hm
  obtain ⟨r, hr⟩ := collapseLoop_total dict src ms toks [] (hbounds hg) (by
    intro i j s e hij hsi hej
    have hsm := List.mem_of_getElem? hsi
    have hem := List.mem_of_getElem? hej
    rcases Nat.lt_or_eq_of_le hij with hlt | rfl
    · have := List.pairwise_iff_getElem.mp hs i j (List.getElem?_eq_some_iff.mp hsi).1
        (List.getElem?_eq_some_iff.mp hej).1 hlt
      rw [(List.getElem?_eq_some_iff.mp hsi).2, (List.getElem?_eq_some_iff.mp hej).2] at this
      have := (hwf s hsm).1; have := (hwf e hem).1
      omega
    · rw [hsi] at hej; cases hej
      exact (hwf s hsm).1) (fun t ht => (hwf t ht).2)
  obtain ⟨ts, rem⟩ := r
  exact ⟨removeIndices 0 (sortUniq rem) ts,
    by simp only [collapseIdentifiers, hf, hr, bind, Except.bind, pure, Except.pure]⟩

/-- non-vacuity of `collapseIdentifiers_total` (and of `collapseLoop_total`, through it): the five
tokens of `snake_case is` -/
example : ∃ out, collapseIdentifiers (fun w => w == ['s', 'n', 'a', 'k', 'e', '_', 'c', 'a', 's', 'e'])
    ['s', 'n', 'a', 'k', 'e', '_', 'c', 'a', 's', 'e', ' ', 'i', 's']
    [⟨⟨0, 5⟩, .word⟩, ⟨⟨5, 6⟩, .punct .Underscore⟩, ⟨⟨6, 10⟩, .word⟩, ⟨⟨10, 11⟩, .space 1⟩, ⟨⟨11, 13⟩, .word⟩] =
      .ok out :=
  collapseIdentifiers_total _ _ _ (by decide) (by decide)

/-- the same loop for the MARKDOWN shape (zero-width breaks anywhere, also at earlier offsets): only
the WORD tokens need to be ordered and inside the text, because every match starts and ends at a
word (`EndsWord`) and the loop's writes are words again -/
theorem collapseLoop_total_words (dict : List Char → Bool) (src : List Char) :
    ∀ (ms : List Span) (toks : List Tok) (rem : List Nat),
      (∀ m ∈ ms, m.start < m.stop ∧ m.stop ≤ toks.length ∧ EndsWord toks m) →
      (∀ (i j : Nat) (s e : Tok), i ≤ j → toks[i]? = some s → toks[j]? = some e →
        s.kind.isWord = true → e.kind.isWord = true → s.span.start ≤ e.span.stop) →
      (∀ t ∈ toks, t.kind.isWord = true → t.span.stop ≤ src.length) →
      ∃ r, collapseLoop dict src ms toks rem = .ok r := by
  intro ms
  induction ms with
  | nil => intro toks rem _ _ _; exact ⟨_, rfl⟩
  | cons m ms ih =>
    intro toks rem hb hmono hinb
    obtain ⟨hm1, hm2, s0, e0, hs0, he0, hws, hwe⟩ := hb m List.mem_cons_self
    have hb' : ∀ x ∈ ms, x.start < x.stop ∧ x.stop ≤ toks.length ∧ EndsWord toks x :=
      fun x hx => hb x (List.mem_cons_of_mem _ hx)
    have h1 : m.start < toks.length := by omega
    simp only [collapseLoop]
    rw [if_neg (by omega), hs0, he0]
    simp only
    have hle : s0.span.start ≤ e0.span.stop :=
      hmono m.start (m.stop - 1) _ _ (by omega) hs0 he0 hws hwe
    have hstop : e0.span.stop ≤ src.length := hinb _ (List.mem_of_getElem? he0) hwe
    have hnew : Span.new s0.span.start e0.span.stop = .ok ⟨s0.span.start, e0.span.stop⟩ := by
      unfold Span.new; rw [if_neg (by omega)]
    obtain ⟨content, hc⟩ := getContent_ok_of_inb
      (⟨s0.span.start, e0.span.stop⟩ : Span) src ⟨hle, hstop⟩
    simp only [hnew, hc, bind, Except.bind]
    split
    · apply ih
      · intro x hx
        obtain ⟨x1, x2, s, e, hs, he, w1, w2⟩ := hb' x hx
        refine ⟨x1, by simpa using x2, ?_⟩
        unfold EndsWord
        rw [List.getElem?_set, List.getElem?_set]
        simp only [h1, if_true]
        by_cases hi : m.start = x.start
        · rw [if_pos hi]
          by_cases hj : m.start = x.stop - 1
          · rw [if_pos hj]; exact ⟨_, _, rfl, rfl, rfl, rfl⟩
          · rw [if_neg hj]; exact ⟨_, e, rfl, he, rfl, w2⟩
        · rw [if_neg hi]
          by_cases hj : m.start = x.stop - 1
          · rw [if_pos hj]; exact ⟨s, _, hs, rfl, w1, rfl⟩
          · rw [if_neg hj]; exact ⟨s, e, hs, he, w1, w2⟩
      · intro i j s e hij hs he w1 w2
        rw [List.getElem?_set] at hs he
        simp only [h1, if_true] at hs he
        by_cases hi : m.start = i
        · rw [if_pos hi] at hs; cases hs
          by_cases hj : m.start = j
          · rw [if_pos hj] at he; cases he; exact hle
          · rw [if_neg hj] at he
            exact hmono m.start j s0 e (by omega) hs0 he hws w2
        · rw [if_neg hi] at hs
          by_cases hj : m.start = j
          · rw [if_pos hj] at he; cases he
            exact hmono i (m.stop - 1) s e0 (by omega) hs he0 w1 hwe
          · rw [if_neg hj] at he
            exact hmono i j s e hij hs he w1 w2
      · intro t ht hw
        rcases List.mem_or_eq_of_mem_set ht with h | rfl
        · exact hinb t h hw
        · exact hstop
    · exact ih toks rem hb' hmono hinb

/-- NO PANIC (C01, `CollapseIdentifiers` over a Markdown-shaped inner token list — what harper-ls
builds for comments): same hypotheses as `collapseIdentifiers_preserves_covering`, for every
dictionary and every text -/
theorem collapseIdentifiers_total_covering (dict : List Char → Bool) (src : List Char) (toks : List Tok)
    (hw : ∀ t ∈ toks, t.kind.isWord = true → t.span.start < t.span.stop)
    (hwf : ∀ t ∈ toks, t.span.start ≤ t.span.stop ∧ t.span.stop ≤ src.length)
    (hs : (toks.filter (fun t => decide (t.span.start < t.span.stop))).Pairwise
      (fun a b => a.span.stop ≤ b.span.start)) :
    ∃ out, collapseIdentifiers dict src toks = .ok out := by
  obtain ⟨ms, hf, hg, hends⟩ := findAllMatches_good src toks
  have hbounds : ∀ {off : Nat} {l : List Span}, GoodMs off l toks.length →
      ∀ m ∈ l, m.start < m.stop ∧ m.stop ≤ toks.length := by
    intro off l
    induction l generalizing off with
    | nil => intro _ m hm; cases hm
    | cons a l ih =>
      intro h m hm
      obtain ⟨_, g2, g3, g4⟩ := h
      rcases List.mem_cons.mp hm with rfl | hm
      · exact ⟨g2, g3⟩
      · exact ih g4 m hm
  rw [List.pairwise_filter] at hs
  obtain ⟨r, hr⟩ := collapseLoop_total_words dict src ms toks []
    (fun m hm => ⟨(hbounds hg m hm).1, (hbounds hg m hm).2, hends m hm⟩) (by
    intro i j s e hij hsi hej w1 w2
    have hsm := List.mem_of_getElem? hsi
    have hem := List.mem_of_getElem? hej
    rcases Nat.lt_or_eq_of_le hij with hlt | rfl
    · have := List.pairwise_iff_getElem.mp hs i j (List.getElem?_eq_some_iff.mp hsi).1
        (List.getElem?_eq_some_iff.mp hej).1 hlt
      rw [(List.getElem?_eq_some_iff.mp hsi).2, (List.getElem?_eq_some_iff.mp hej).2] at this
      have := this (by simpa using hw s hsm w1) (by simpa using hw e hem w2)
      have := (hwf s hsm).1; have := (hwf e hem).1
      omega
    · rw [hsi] at hej; cases hej
      exact (hwf s hsm).1) (fun t ht _ => (hwf t ht).2)
  obtain ⟨ts, rem⟩ := r
  exact ⟨removeIndices 0 (sortUniq rem) ts,
    by simp only [collapseIdentifiers, hf, hr, bind, Except.bind, pure, Except.pure]⟩

/-- non-vacuity of `collapseIdentifiers_total_covering` (and `collapseLoop_total_words`): the token list
with the zero-width `ParagraphBreak` at 6 after the tokens that end at 10 (not sorted as a whole) -/
example : ∃ out, collapseIdentifiers (fun w => w == ['s', 'n', 'a', 'k', 'e', '_', 'c', 'a', 's', 'e'])
    ['s', 'n', 'a', 'k', 'e', '_', 'c', 'a', 's', 'e', ' ', 'i', 's']
    [⟨⟨0, 5⟩, .word⟩, ⟨⟨5, 6⟩, .punct .Underscore⟩, ⟨⟨6, 10⟩, .word⟩, ⟨⟨6, 6⟩, .paragraphBreak⟩, ⟨⟨11, 13⟩, .word⟩] =
      .ok out :=
  collapseIdentifiers_total_covering _ _ _ (by decide) (by decide) (by decide)

/-! ## `IsolateEnglish` -/

/-- THE KEPT TOKENS ARE THE INNER PARSER'S TOKENS, UNTOUCHED AND IN ORDER: whatever the verdicts -/
theorem isolateEnglish_sublist (verdict : List Tok → Except Panic Bool) (toks out : List Tok)
    (h : isolateEnglish verdict toks = .ok out) : out.Sublist toks := by
  have := isolateGo_sublist verdict _ out h
  rwa [iterChunks_flatten] at this

/-- WHICH TOKENS ARE DROPPED: exactly the chunks (of `iter_chunks`) of four or more tokens whose
verdict is "not English" -/
theorem isolateEnglish_spec (v : List Tok → Bool) (toks : List Tok) :
    isolateEnglish (fun ch => .ok (v ch)) toks =
      .ok (((Chunks.iterChunks toks).filter (fun ch => decide (ch.length < 4) || v ch)).flatten) ∧
    (Chunks.iterChunks toks).flatten = toks :=
  ⟨isolateGo_spec v _, iterChunks_flatten toks⟩

/-- a chunk of five tokens judged foreign is dropped, a short one is kept whatever the verdict -/
example : isolateEnglish (fun _ => .ok false)
    [⟨⟨0, 1⟩, .word⟩, ⟨⟨1, 2⟩, .space 1⟩, ⟨⟨2, 3⟩, .word⟩, ⟨⟨3, 4⟩, .space 1⟩, ⟨⟨4, 5⟩, .word⟩, ⟨⟨5, 6⟩, .punct .Period⟩,
     ⟨⟨6, 7⟩, .space 1⟩, ⟨⟨7, 8⟩, .word⟩, ⟨⟨8, 9⟩, .punct .Period⟩] =
    .ok [⟨⟨6, 7⟩, .space 1⟩, ⟨⟨7, 8⟩, .word⟩, ⟨⟨8, 9⟩, .punct .Period⟩] := by decide

/-- `is_likely_english`: three words of which one is unknown (≤ 7 words: any unknown word decides) -/
example : isLikelyEnglish (fun w => w != ['z', 'x', 'q']) ['a', ' ', 'z', 'x', 'q', ' ', 'b', '.']
    [⟨⟨0, 1⟩, .word⟩, ⟨⟨1, 2⟩, .space 1⟩, ⟨⟨2, 5⟩, .word⟩, ⟨⟨5, 6⟩, .space 1⟩, ⟨⟨6, 7⟩, .word⟩,
     ⟨⟨7, 8⟩, .punct .Period⟩] = .ok false := by decide

example : isLikelyEnglish (fun _ => true) ['a', ' ', 'z', 'x', 'q', ' ', 'b', '.']
    [⟨⟨0, 1⟩, .word⟩, ⟨⟨1, 2⟩, .space 1⟩, ⟨⟨2, 5⟩, .word⟩, ⟨⟨5, 6⟩, .space 1⟩, ⟨⟨6, 7⟩, .word⟩,
     ⟨⟨7, 8⟩, .punct .Period⟩] = .ok true := by decide

/-- the counting loop of `is_likely_english` returns when every WORD token is a well-formed span
inside the text (`get_content` is its only panicking operation, and it is applied to words only) -/
theorem countToks_total (dict : List Char → Bool) (src : List Char) :
    ∀ (toks : List Tok) (c : LangCounts),
      (∀ t ∈ toks, t.kind.isWord = true → t.span.start ≤ t.span.stop ∧ t.span.stop ≤ src.length) →
      ∃ c', countToks dict src c toks = .ok c' := by
  intro toks
  induction toks with
  | nil => intro c _; exact ⟨c, rfl⟩
  | cons t ts ih =>
    intro c h
    have hts := fun u hu => h u (List.mem_cons_of_mem _ hu)
    have ht := h t List.mem_cons_self
    simp only [countToks, bind, Except.bind]
    have : ∃ c1, countTok dict src c t = .ok c1 := by
      unfold countTok
      cases hk : t.kind <;> simp only [pure, Except.pure] <;> try exact ⟨_, rfl⟩
      obtain ⟨w, hw⟩ := getContent_ok_of_inb t.span src (ht (by simp [hk, Kind.isWord]))
      simp only [hw, bind, Except.bind]
      exact ⟨_, rfl⟩
    obtain ⟨c1, hc1⟩ := this
    rw [hc1]
    exact ih c1 hts

/-- NO PANIC (C01, `language_detection::is_likely_english`), for every dictionary -/
theorem isLikelyEnglish_total (dict : List Char → Bool) (src : List Char) (toks : List Tok)
    (hwf : ∀ t ∈ toks, t.kind.isWord = true → t.span.start ≤ t.span.stop ∧ t.span.stop ≤ src.length) :
    ∃ b, isLikelyEnglish dict src toks = .ok b := by
  obtain ⟨c, hc⟩ := countToks_total dict src toks ⟨0, 0, 0, 0⟩ hwf
  exact ⟨verdictOf c, by simp only [isLikelyEnglish, hc, bind, Except.bind, pure, Except.pure]⟩

/-- NO PANIC (C01, `IsolateEnglish` with the modelled verdict — what the driver's op `isolate` runs):
whatever the order of the inner parser's tokens, as long as its word tokens lie inside the text;
and the result is a sub-list of the inner parser's tokens -/
theorem isolateEnglishDict_total (dict : List Char → Bool) (src : List Char) (toks : List Tok)
    (hwf : ∀ t ∈ toks, t.kind.isWord = true → t.span.start ≤ t.span.stop ∧ t.span.stop ≤ src.length) :
    ∃ out, isolateEnglishDict dict src toks = .ok out ∧ out.Sublist toks := by
  have hfl := iterChunks_flatten toks
  have hgo : ∀ (chunks : List (List Tok)),
      (∀ ch ∈ chunks, ∀ t ∈ ch, t.kind.isWord = true →
        t.span.start ≤ t.span.stop ∧ t.span.stop ≤ src.length) →
      ∃ out, isolateGo (isLikelyEnglish dict src) chunks = .ok out := by
    intro chunks
    induction chunks with
    | nil => intro _; exact ⟨[], rfl⟩
    | cons ch rest ih =>
      intro h
      obtain ⟨r, hr⟩ := ih (fun c hc => h c (List.mem_cons_of_mem _ hc))
      obtain ⟨b, hb⟩ := isLikelyEnglish_total dict src ch (h ch List.mem_cons_self)
      simp only [isolateGo, bind, Except.bind, hr, hb]
      split <;> exact ⟨_, rfl⟩
  obtain ⟨out, ho⟩ := hgo (Chunks.iterChunks toks) (by
    intro ch hch t ht
    exact hwf t (by rw [← hfl]; exact List.mem_flatten.mpr ⟨ch, hch, ht⟩))
  exact ⟨out, ho, isolateEnglish_sublist _ toks out ho⟩

/-- non-vacuity of `isolateEnglishDict_total` / `isLikelyEnglish_total` / `countToks_total`: the six
tokens of `a zxq b.` (one chunk of six tokens, so the verdict IS computed), and what comes out -/
example : ∃ out, isolateEnglishDict (fun w => w != ['z', 'x', 'q']) ['a', ' ', 'z', 'x', 'q', ' ', 'b', '.']
    [⟨⟨0, 1⟩, .word⟩, ⟨⟨1, 2⟩, .space 1⟩, ⟨⟨2, 5⟩, .word⟩, ⟨⟨5, 6⟩, .space 1⟩, ⟨⟨6, 7⟩, .word⟩,
     ⟨⟨7, 8⟩, .punct .Period⟩] = .ok out ∧
    out.Sublist [⟨⟨0, 1⟩, .word⟩, ⟨⟨1, 2⟩, .space 1⟩, ⟨⟨2, 5⟩, .word⟩, ⟨⟨5, 6⟩, .space 1⟩, ⟨⟨6, 7⟩, .word⟩,
     ⟨⟨7, 8⟩, .punct .Period⟩] :=
  isolateEnglishDict_total _ _ _ (by decide)

example : isolateEnglishDict (fun w => w != ['z', 'x', 'q']) ['a', ' ', 'z', 'x', 'q', ' ', 'b', '.']
    [⟨⟨0, 1⟩, .word⟩, ⟨⟨1, 2⟩, .space 1⟩, ⟨⟨2, 5⟩, .word⟩, ⟨⟨5, 6⟩, .space 1⟩, ⟨⟨6, 7⟩, .word⟩,
     ⟨⟨7, 8⟩, .punct .Period⟩] = .ok [] := by decide

/-- the panic the premise excludes: a word token that reaches past the end of the text -/
example : isLikelyEnglish (fun _ => true) ['a'] [⟨⟨0, 2⟩, .word⟩] = .error .sliceOOB := by decide

end Harper.C02
